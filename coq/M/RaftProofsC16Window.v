(* C16, the cluster-level window.  A leader L and a list Fs of followers that together
   with L are a quorum of L's configuration run the lock-step schedule [star_round]
   (M/RaftProofsC10Star.v); before every round an arbitrary list of ADVERSARIAL messages
   - what the nodes outside {L} + Fs can have produced without ever winning a pre-vote -
   is delivered to L and to members of Fs.  Theorem [window_rounds]: for any number of
   rounds and any adversarial lists, if no panic occurs L is still Leader of the same
   term and every member of Fs still its Follower of that term with its vote unchanged.
   Part 1: recent_active through the Progress operations.  Part 2: the leader frame LF.
   Part 3: the leader's step.  Part 4: the follower's step.  Part 5: the leader's tick.
   Part 6: deliveries, the invariant WInv, one round, N rounds.  Part 7: example. *)
From RV Require Import Base.Prelude Base.IdSet Base.IdSetProofs M.Util M.Proto M.MemStorage
  M.Inflights M.Progress M.RaftLog M.Quorum M.ConfChange M.Msg M.Raft M.RaftProofs
  M.RaftProofsC10 M.RaftProofsC10Pair M.RaftProofsC10Star M.RaftProofsC16.
From RV Require M.QuorumProofs.
From RecordUpdate Require Import RecordSet.
Import RecordSetNotations.

Local Open Scope N_scope.

Ltac dtop H :=
  match type of H with
  | (if ?c then _ else _) = _ => destruct c eqn:?
  | (match ?c with _ => _ end) = _ => destruct c eqn:?
  end.
Ltac okinv H := inversion H; subst; clear H.
Ltac ib H x Hx := apply bind_ok in H; destruct H as (x & Hx & H).

(* ------------------------------------------------------------------ *)
(* Part 1: recent_active is written by set_recent_active only *)

Lemma ra_update_state p last p' : update_state p last = Ok p' -> recent_active p' = recent_active p.
Proof.
  unfold update_state. intros H. destruct (pr_state p); [okinv H; reflexivity| |discriminate].
  ib H i Hi. okinv H. reflexivity.
Qed.

Lemma ra_become_probe p : recent_active (become_probe p) = recent_active p.
Proof. unfold become_probe. destruct (pr_state p); reflexivity. Qed.

Lemma ra_maybe_update p n : recent_active (fst (maybe_update p n)) = recent_active p.
Proof.
  unfold maybe_update. cbn [fst].
  destruct (matched p <? n); match goal with |- context [if ?c then _ else _] => destruct c end;
    reflexivity.
Qed.

Lemma ra_update_committed p c : recent_active (update_committed p c) = recent_active p.
Proof. unfold update_committed. destruct (_ <? _); reflexivity. Qed.

Lemma ra_maybe_decr_to p a b c : recent_active (fst (maybe_decr_to p a b c)) = recent_active p.
Proof.
  unfold maybe_decr_to.
  repeat match goal with |- context [if ?c then _ else _] => destruct c end; reflexivity.
Qed.

(* ------------------------------------------------------------------ *)
(* Part 2: the leader frame *)

Section Window.

(* the ids of the majority followers *)
Variable ids : list N.

(* what a leader sends to a follower *)
Definition ltype (ty : N) : Prop :=
  ty = MsgAppend \/ ty = MsgHeartbeat \/ ty = MsgSnapshot \/ ty = MsgReadIndexResp \/
  ty = MsgAppendResponse.

(* a queued message of leader [l] of term [t]: if it is addressed to a majority follower
   it is a leader message stamped with l and t *)
Definition QL (l t : N) (x : msg) : Prop :=
  In (m_to x) ids -> m_from x = l /\ m_term x = t /\ ltype (m_type x).

(* nothing queued is lost or re-addressed (batching may extend a queued MsgAppend) *)
Definition qkeep (ms ms' : list msg) : Prop :=
  forall x, In x ms -> exists x', In x' ms' /\ m_to x' = m_to x /\ m_type x' = m_type x.

Definition qpres (r r' : raft) : Prop :=
  (Forall (QL (r_id r) (r_term r)) (r_msgs r) -> Forall (QL (r_id r) (r_term r)) (r_msgs r')) /\
  qkeep (r_msgs r) (r_msgs r').

Lemma qkeep_refl ms : qkeep ms ms.
Proof. intros x H. exists x. auto. Qed.

Lemma qpres_id r r' : r_msgs r' = r_msgs r -> qpres r r'.
Proof. unfold qpres. intros ->. split; [auto|apply qkeep_refl]. Qed.

Lemma qpres_trans' a b c :
  r_id b = r_id a -> r_term b = r_term a -> qpres a b -> qpres b c -> qpres a c.
Proof.
  intros I T [Q1 K1] [Q2 K2]. rewrite I, T in Q2. split; [intros F; apply Q2, Q1, F|].
  intros x Hx. destruct (K1 x Hx) as (x1 & H1 & A1 & B1). destruct (K2 x1 H1) as (x2 & H2 & A2 & B2).
  exists x2. split; [exact H2|split; congruence].
Qed.

Definition act_le (p p' : progress) : Prop := recent_active p = true -> recent_active p' = true.

(* transfer target and configuration untouched; no tracked peer is dropped and no
   recent_active flag is cleared *)
Definition W (r r' : raft) : Prop :=
  r_lead_transferee r' = r_lead_transferee r /\
  r_heartbeat_elapsed r' = r_heartbeat_elapsed r /\
  r_election_elapsed r' <= r_election_elapsed r /\
  t_conf (r_prs r') = t_conf (r_prs r) /\
  forall id p, get_pr r id = Some p -> exists p', get_pr r' id = Some p' /\ act_le p p'.

Definition LF (r r' : raft) : Prop := keeps r r' /\ W r r' /\ qpres r r'.

Lemma act_le_refl p : act_le p p. Proof. intros H; exact H. Qed.
Lemma act_le_eq p p' : recent_active p' = recent_active p -> act_le p p'.
Proof. unfold act_le. intros E H. congruence. Qed.

Lemma W_refl r : W r r.
Proof.
  split; [reflexivity|]. split; [reflexivity|]. split; [lia|]. split; [reflexivity|].
  intros id p H. exists p. split; [exact H|apply act_le_refl].
Qed.

Lemma W_trans a b c : W a b -> W b c -> W a c.
Proof.
  intros (A1 & Ah & Ae & A2 & A3) (B1 & Bh & Be & B2 & B3). split; [congruence|]. split; [congruence|].
  split; [lia|]. split; [congruence|].
  intros id p H. destruct (A3 id p H) as (p1 & H1 & L1). destruct (B3 id p1 H1) as (p2 & H2 & L2).
  exists p2. split; [exact H2|]. intros E. apply L2, L1, E.
Qed.

Lemma LF_refl r : LF r r.
Proof. split; [apply keeps_refl|]. split; [apply W_refl|]. apply qpres_id; reflexivity. Qed.

Lemma LF_trans a b c : LF a b -> LF b c -> LF a c.
Proof.
  intros (K1 & W1 & Q1) (K2 & W2 & Q2). split; [eapply keeps_trans; eassumption|].
  split; [eapply W_trans; eassumption|].
  pose proof (keeps_fields _ _ K1) as (T & _ & _ & _ & C). apply cfg_fields in C. destruct C as (I & _).
  eapply qpres_trans'; eassumption.
Qed.

Lemma W_prs r r' :
  r_prs r' = r_prs r -> r_lead_transferee r' = r_lead_transferee r ->
  r_heartbeat_elapsed r' = r_heartbeat_elapsed r -> r_election_elapsed r' = r_election_elapsed r ->
  W r r'.
Proof.
  intros E T Hh He. split; [exact T|]. split; [exact Hh|]. split; [lia|]. split; [rewrite E; reflexivity|].
  intros id p H. exists p. split; [unfold get_pr; rewrite E; exact H|apply act_le_refl].
Qed.

Lemma msgs_only_LF r r' : msgs_only r r' -> qpres r r' -> LF r r'.
Proof.
  intros M Q. split; [apply msgs_only_keeps; exact M|]. split; [|exact Q].
  unfold msgs_only in M. apply W_prs; rewrite M; reflexivity.
Qed.

(* a leader-type message built without sender and term is stamped by [send] *)
Lemma send_ltype r m0 r' :
  m_from m0 = INVALID_ID -> ltype (m_type m0) -> send r m0 = Ok r' ->
  r' = r <| r_msgs := r_msgs r ++ [m0 <| m_from := r_id r |> <| m_term := r_term r |>] |>.
Proof.
  intros Hf Ht. unfold send. rewrite Hf, N.eqb_refl.
  change (m_type (m0 <| m_from := r_id r |>)) with (m_type m0).
  change (m_term (m0 <| m_from := r_id r |>)) with (m_term m0).
  assert (Hv : is_vote_type (m_type m0) = false /\
               (negb (m_type m0 =? MsgPropose) && negb (m_type m0 =? MsgReadIndex)) = true /\
               ((m_type m0 =? MsgRequestVote) || (m_type m0 =? MsgRequestPreVote)) = false).
  { destruct Ht as [E|[E|[E|[E|E]]]]; rewrite E; repeat split; reflexivity. }
  destruct Hv as (V1 & V2 & V3). rewrite V1, V2.
  destruct (m_term m0 =? 0); cbn [negb bind]; [|discriminate].
  change (m_type (m0 <| m_from := r_id r |> <| m_term := r_term r |>)) with (m_type m0).
  rewrite V3. intros H. okinv H. reflexivity.
Qed.

Lemma push_qpres r x :
  (In (m_to x) ids -> m_from x = r_id r /\ m_term x = r_term r /\ ltype (m_type x)) ->
  qpres r (r <| r_msgs := r_msgs r ++ [x] |>).
Proof.
  intros Hx. split.
  - intros H. cbn. apply Forall_app. split; [exact H|]. constructor; [exact Hx|constructor].
  - intros y Hy. exists y. cbn. split; [apply in_or_app; left; exact Hy|auto].
Qed.

Lemma send_LF r m0 r' :
  (m_from m0 = INVALID_ID /\ ltype (m_type m0)) \/ ~ In (m_to m0) ids ->
  send r m0 = Ok r' -> msgs_only r r' /\ qpres r r'.
Proof.
  intros Hc H. split; [eapply send_msgs_only; exact H|].
  destruct Hc as [[Hf Ht]|Hn].
  - apply send_ltype in H; [|exact Hf|exact Ht]. subst r'. apply push_qpres.
    intros _. cbn. auto.
  - pose proof (send_msgs _ _ _ H) as (m' & E & _ & _ & Hto).
    apply send_msgs_only in H. unfold msgs_only in H. rewrite H, E. apply push_qpres.
    rewrite Hto. intros C. contradiction.
Qed.

Lemma try_batching_Q r to (Q : msg -> Prop) :
  (forall m e c, Q m -> Q (m <| m_entries := e |> <| m_commit := c |>)) ->
  (forall m c, Q m -> Q (m <| m_commit := c |>)) ->
  forall msgs pr ents msgs' pr' b,
  try_batching r to msgs pr ents = Ok (msgs', pr', b) ->
  (Forall Q msgs -> Forall Q msgs') /\ recent_active pr' = recent_active pr /\ qkeep msgs msgs'.
Proof.
  intros Q1 Q2. induction msgs as [|m rest IH]; intros pr ents msgs' pr' b H; cbn [try_batching] in H.
  - okinv H. split; [auto|]. split; [reflexivity|apply qkeep_refl].
  - dtop H.
    + destruct ents as [|e es].
      * okinv H. split; [|split; [reflexivity|]].
        { intros F. inversion F; subst. constructor; [apply Q2; assumption|assumption]. }
        intros x [<-|Hx]; [eexists; split; [left; reflexivity|split; reflexivity]|].
        exists x. split; [right; exact Hx|auto].
      * dtop H; [okinv H; split; [auto|split; [reflexivity|apply qkeep_refl]]|].
        ib H p1 Hp. okinv H. split; [|split; [eapply ra_update_state; exact Hp|]].
        { intros F. inversion F; subst. constructor; [apply Q1; assumption|assumption]. }
        intros x [<-|Hx]; [eexists; split; [left; reflexivity|split; reflexivity]|].
        exists x. split; [right; exact Hx|auto].
    + ib H y Hy. destruct y as [[rest' p1] b1]. okinv H.
      apply IH in Hy. destruct Hy as (A & B & C). split; [|split; [exact B|]].
      { intros F. inversion F; subst. constructor; [assumption|apply A; assumption]. }
      intros x [<-|Hx]; [exists m; split; [left; reflexivity|auto]|].
      destruct (C x Hx) as (x' & Hx' & E). exists x'. split; [right; exact Hx'|exact E].
Qed.

Lemma maybe_send_append_LF r to pr ae r' pr' b :
  maybe_send_append r to pr ae = Ok (r', pr', b) ->
  msgs_only r r' /\ qpres r r' /\ recent_active pr' = recent_active pr.
Proof.
  unfold maybe_send_append. intros H.
  assert (Hsnap :
    (x <- prepare_send_snapshot r (msg_default <| m_to := to |>) pr to ;;
     match x with
     | None => Ok (r, pr, false)
     | Some (m', pr') => r' <- send r m' ;; Ok (r', pr', true)
     end) = Ok (r', pr', b) ->
    msgs_only r r' /\ qpres r r' /\ recent_active pr' = recent_active pr).
  { intros Hs. ib Hs x Hx. destruct x as [[m' p']|].
    - ib Hs r1 H1. okinv Hs. unfold prepare_send_snapshot in Hx.
      dtop Hx; [discriminate|]. ib Hx sr Hsr. destruct sr as [s|e]; [|destruct e; discriminate].
      dtop Hx; [discriminate|]. okinv Hx.
      apply send_LF in H1; [|left; split; [reflexivity|right; right; left; reflexivity]].
      destruct H1 as [A B]. split; [exact A|]. split; [exact B|reflexivity].
    - okinv Hs. split; [apply msgs_only_refl|]. split; [apply qpres_id; reflexivity|reflexivity]. }
  dtop H; [okinv H; split; [apply msgs_only_refl|split; [apply qpres_id; reflexivity|reflexivity]]|].
  dtop H; [apply Hsnap; exact H|].
  ib H ents He.
  dtop H; [okinv H; split; [apply msgs_only_refl|split; [apply qpres_id; reflexivity|reflexivity]]|].
  dtop H; [discriminate|].
  ib H t0 Ht0.
  destruct t0 as [t|e]; destruct ents as [ents|e'];
    try (apply Hsnap; exact H);
    try (destruct e'; try (apply Hsnap; exact H); okinv H;
         split; [apply msgs_only_refl|split; [apply qpres_id; reflexivity|reflexivity]]).
  ib H y Hy. destruct y as [[msgs' pr1] batched].
  destruct batched.
  - okinv H. destruct (r_batch_append r); [|okinv Hy].
    apply (try_batching_Q r to (QL (r_id r) (r_term r))) in Hy;
      [|intros m e c Q; exact Q|intros m c Q; exact Q].
    destruct Hy as (A & B & C). split; [unfold msgs_only; reflexivity|]. split; [split; [exact A|exact C]|exact B].
  - assert (Hp : recent_active pr1 = recent_active pr).
    { destruct (r_batch_append r); [|okinv Hy; reflexivity].
      apply (try_batching_Q r to (fun _ => True)) in Hy; [apply Hy|auto|auto]. }
    ib H z Hz. destruct z as [m' pr2]. ib H r1 H1. okinv H.
    unfold prepare_send_entries in Hz. dtop Hz; [discriminate|].
    assert (Hm' : m_from m' = INVALID_ID /\ m_type m' = MsgAppend /\
                  recent_active pr' = recent_active pr).
    { destruct ents as [|e0 es]; [okinv Hz; repeat split; reflexivity|].
      ib Hz p3 Hp3. okinv Hz. apply ra_update_state in Hp3. repeat split; assumption. }
    destruct Hm' as (M1 & M2 & M3).
    apply send_LF in H1; [|left; split; [exact M1|rewrite M2; left; reflexivity]].
    destruct H1 as [A B]. split; [exact A|]. split; [exact B|exact M3].
Qed.

Lemma W_put r id p p' :
  get_pr r id = Some p -> act_le p p' -> W r (put_pr r id p').
Proof.
  intros Hg Hl. split; [reflexivity|]. split; [reflexivity|]. split; [cbn; lia|]. split; [reflexivity|].
  intros id' q Hq. destruct (N.eq_dec id' id) as [->|Hne].
  - exists p'. split; [apply get_pr_put_same|]. assert (q = p) by congruence. subst q. exact Hl.
  - exists q. split; [rewrite get_pr_put_other by exact Hne; exact Hq|apply act_le_refl].
Qed.

Lemma LF_put r id p p' :
  get_pr r id = Some p -> act_le p p' -> LF r (put_pr r id p').
Proof.
  intros Hg Hl. split; [reflexivity|]. split; [eapply W_put; eassumption|]. apply qpres_id; reflexivity.
Qed.

(* after a msgs-only operation the progress map is the old one *)
Lemma LF_msgs_put r r1 id p p' :
  msgs_only r r1 -> qpres r r1 -> get_pr r id = Some p -> act_le p p' ->
  LF r (put_pr r1 id p').
Proof.
  intros M Q Hg Hl. eapply LF_trans; [apply msgs_only_LF; eassumption|].
  apply LF_put with (p := p); [|exact Hl]. unfold msgs_only in M. rewrite M. exact Hg.
Qed.

Lemma send_append_to_LF r to r' : send_append_to r to = Ok r' -> LF r r'.
Proof.
  unfold send_append_to. intros H. destruct (get_pr r to) as [pr|] eqn:G; [|discriminate].
  ib H y Hy. destruct y as [[r1 p1] b]. okinv H.
  apply maybe_send_append_LF in Hy. destruct Hy as (A & B & C).
  eapply LF_msgs_put; [exact A|exact B|exact G|apply act_le_eq; exact C].
Qed.

Lemma send_append_aggressively_loop_LF fuel : forall r to pr r' pr',
  send_append_aggressively_loop fuel r to pr = Ok (r', pr') ->
  msgs_only r r' /\ qpres r r' /\ recent_active pr' = recent_active pr.
Proof.
  induction fuel as [|f IH]; intros r to pr r' pr' H; cbn in H; [discriminate|].
  ib H y Hy. destruct y as [[r1 p1] b]. apply maybe_send_append_LF in Hy. destruct Hy as (A & B & C).
  destruct b; [|okinv H; auto].
  apply IH in H. destruct H as (A2 & B2 & C2).
  split; [eapply msgs_only_trans; eassumption|]. split; [|congruence].
  pose proof (msgs_only_keeps _ _ A) as K. apply keeps_fields in K. destruct K as (T & _ & _ & _ & Cf).
  apply cfg_fields in Cf. destruct Cf as (I & _). eapply qpres_trans'; eassumption.
Qed.

Lemma send_append_aggressively_LF r to r' : send_append_aggressively r to = Ok r' -> LF r r'.
Proof.
  unfold send_append_aggressively. intros H. destruct (get_pr r to) as [pr|] eqn:G; [|discriminate].
  ib H y Hy. destruct y as [r1 p1]. okinv H.
  apply send_append_aggressively_loop_LF in Hy. destruct Hy as (A & B & C).
  eapply LF_msgs_put; [exact A|exact B|exact G|apply act_le_eq; exact C].
Qed.

Lemma for_each_peer_LF (f : raft -> N -> Res raft) :
  (forall r id r', f r id = Ok r' -> LF r r') ->
  forall l self r r', for_each_peer l self f r = Ok r' -> LF r r'.
Proof.
  intros Hf. induction l as [|id rest IH]; intros self r r' H; cbn in H.
  - okinv H. apply LF_refl.
  - destruct (id =? self); [eapply IH; eassumption|].
    ib H r1 H1. apply Hf in H1. apply IH in H. eapply LF_trans; eassumption.
Qed.

Lemma bcast_append_LF r r' : bcast_append r = Ok r' -> LF r r'.
Proof. apply for_each_peer_LF. apply send_append_to_LF. Qed.

Lemma send_heartbeat_LF r to pr ctx r' : send_heartbeat r to pr ctx = Ok r' -> LF r r'.
Proof.
  unfold send_heartbeat. intros H. apply send_LF in H.
  - destruct H. apply msgs_only_LF; assumption.
  - left. destruct ctx; split; try reflexivity; right; left; reflexivity.
Qed.

Lemma bcast_heartbeat_with_ctx_LF r ctx r' : bcast_heartbeat_with_ctx r ctx = Ok r' -> LF r r'.
Proof.
  apply for_each_peer_LF. intros r0 id r1 H.
  destruct (get_pr r0 id); [|discriminate]. eapply send_heartbeat_LF; eassumption.
Qed.

Lemma maybe_commit_LF r r' b : Raft.maybe_commit r = Ok (r', b) -> LF r r'.
Proof.
  intros H. split; [eapply maybe_commit_keeps; exact H|].
  unfold Raft.maybe_commit in H. ib H y Hy. destruct y as [l' b'].
  destruct b'; [destruct (get_pr r (r_id r)) as [p|] eqn:G|]; okinv H.
  - split; [|apply qpres_id; reflexivity].
    eapply W_trans; [apply (W_prs r (r <| r_log := l' |>)); reflexivity|].
    apply (W_put (r <| r_log := l' |>) (r_id r) p); [exact G|apply act_le_eq, ra_update_committed].
  - split; [apply W_prs; reflexivity|apply qpres_id; reflexivity].
  - split; [apply W_prs; reflexivity|apply qpres_id; reflexivity].
Qed.

Lemma LF_same r r' :
  keeps r r' -> r_prs r' = r_prs r -> r_lead_transferee r' = r_lead_transferee r ->
  r_heartbeat_elapsed r' = r_heartbeat_elapsed r -> r_election_elapsed r' = r_election_elapsed r ->
  r_msgs r' = r_msgs r -> LF r r'.
Proof.
  intros K P T Hh He M. split; [exact K|]. split; [apply W_prs; assumption|].
  apply qpres_id. exact M.
Qed.

Lemma append_entry_LF r es r' b : append_entry r es = Ok (r', b) -> LF r r'.
Proof.
  intros H. pose proof (append_entry_keeps _ _ _ _ H) as K.
  unfold append_entry in H.
  destruct (maybe_increase_uncommitted_size r es) as [r1 ok] eqn:E.
  assert (E1 : r_prs r1 = r_prs r /\ r_lead_transferee r1 = r_lead_transferee r /\
               r_heartbeat_elapsed r1 = r_heartbeat_elapsed r /\
               r_election_elapsed r1 = r_election_elapsed r /\ r_msgs r1 = r_msgs r).
  { unfold maybe_increase_uncommitted_size in E. dtop E; [okinv E; auto 6|]. dtop E; okinv E; auto 6. }
  destruct E1 as (P & T & Hh & He & M).
  destruct ok; cbn [negb] in H.
  - ib H y Hy. okinv H. apply LF_same; assumption.
  - okinv H. apply LF_same; assumption.
Qed.

Lemma handle_ready_read_index_LF r req i r' om :
  handle_ready_read_index r req i = Ok (r', om) ->
  LF r r' /\ match om with Some x => m_from x = INVALID_ID /\ m_type x = MsgReadIndexResp | None => True end.
Proof.
  unfold handle_ready_read_index. intros H. dtop H.
  - ib H d Hd. okinv H. split; [apply LF_same; reflexivity|exact I].
  - okinv H. split; [apply LF_refl|split; reflexivity].
Qed.

Lemma respond_reads_LF rss : forall r r', respond_reads r rss = Ok r' -> LF r r'.
Proof.
  induction rss as [|rs rest IH]; intros r r' H; cbn in H.
  - okinv H. apply LF_refl.
  - ib H y Hy. destruct y as [r1 om]. apply handle_ready_read_index_LF in Hy. destruct Hy as [A B].
    ib H r2 H2. apply IH in H.
    assert (LF r1 r2).
    { destruct om as [x|]; [|okinv H2; apply LF_refl]. destruct B as [B1 B2].
      apply send_LF in H2; [destruct H2; apply msgs_only_LF; assumption|].
      left. split; [exact B1|rewrite B2; right; right; right; left; reflexivity]. }
    eapply LF_trans; [exact A|]. eapply LF_trans; eassumption.
Qed.

(* ------------------------------------------------------------------ *)
(* leader handlers *)

Definition activates (r r' : raft) (id : N) : Prop :=
  forall p, get_pr r id = Some p -> exists p', get_pr r' id = Some p' /\ recent_active p' = true.

Lemma LF_activates r1 r2 id :
  LF r1 r2 -> (exists p, get_pr r1 id = Some p /\ recent_active p = true) ->
  exists p', get_pr r2 id = Some p' /\ recent_active p' = true.
Proof.
  intros (_ & (_ & _ & _ & _ & Wp) & _) (p & G & A). destruct (Wp id p G) as (p' & G' & L).
  exists p'. split; [exact G'|apply L, A].
Qed.

Lemma handle_append_response_LF r m r' :
  r_lead_transferee r = None ->
  handle_append_response r m = Ok r' -> LF r r' /\ activates r r' (m_from m).
Proof.
  intros HT. unfold handle_append_response. intros H. ib H npi Hn.
  destruct (get_pr r (m_from m)) as [pr|] eqn:G;
    [|okinv H; split; [apply LF_refl|intros p Hp; congruence]].
  set (pr0 := update_committed (set_recent_active pr true) (m_commit m)) in *.
  assert (A0 : recent_active pr0 = true) by (unfold pr0; rewrite ra_update_committed; reflexivity).
  (* the common shape: first the sender's progress is replaced by an active one, then
     only LF operations follow *)
  assert (Hfin : forall q ra, recent_active q = true -> LF (put_pr r (m_from m) q) ra ->
                 LF r ra /\ activates r ra (m_from m)).
  { intros q ra Aq L. split.
    - eapply LF_trans; [|exact L]. apply LF_put with (p := pr); [exact G|intros _; exact Aq].
    - intros p _. apply (LF_activates _ _ _ L). exists q. split; [apply get_pr_put_same|exact Aq]. }
  dtop H.
  - destruct (maybe_decr_to pr0 (m_index m) npi (m_request_snapshot m)) as [pr1 dec] eqn:E.
    assert (A1 : recent_active pr1 = true).
    { pose proof (ra_maybe_decr_to pr0 (m_index m) npi (m_request_snapshot m)) as R.
      rewrite E in R. cbn in R. congruence. }
    destruct dec.
    + apply send_append_to_LF in H. eapply Hfin; [|exact H].
      destruct (pstate_eqb (pr_state pr1) Replicate); [rewrite ra_become_probe|]; exact A1.
    + okinv H. apply (Hfin pr1); [exact A1|apply LF_refl].
  - destruct (maybe_update pr0 (m_index m)) as [pr1 upd] eqn:E.
    assert (A1 : recent_active pr1 = true).
    { pose proof (ra_maybe_update pr0 (m_index m)) as R. rewrite E in R. cbn in R. congruence. }
    destruct upd; cbn [negb] in H; [|okinv H; apply (Hfin pr1); [exact A1|apply LF_refl]].
    ib H pr2 H2.
    assert (A2 : recent_active pr2 = true).
    { destruct (pr_state pr1); [okinv H2; exact A1| |].
      - ib H2 i Hi. okinv H2. exact A1.
      - okinv H2. destruct (is_snapshot_caught_up pr1); [rewrite ra_become_probe|]; exact A1. }
    apply (Hfin pr2 r' A2).
    ib H y Hy. destruct y as [r1 cmt]. apply maybe_commit_LF in Hy.
    ib H r2 H2'. ib H r3 H3.
    assert (K2 : LF r1 r2).
    { destruct cmt.
      - destruct (should_bcast_commit r1); [apply bcast_append_LF in H2'; exact H2'|].
        okinv H2'. apply LF_refl.
      - dtop H2'; [apply send_append_to_LF in H2'; exact H2'|okinv H2'; apply LF_refl]. }
    apply send_append_aggressively_LF in H3.
    assert (L3 : LF (put_pr r (m_from m) pr2) r3)
      by (eapply LF_trans; [exact Hy|]; eapply LF_trans; eassumption).
    assert (T3 : r_lead_transferee r3 = None).
    { destruct L3 as (_ & (T & _) & _). rewrite T. exact HT. }
    rewrite T3 in H. okinv H. exact L3.
Qed.

Lemma handle_heartbeat_response_LF r m r' :
  handle_heartbeat_response r m = Ok r' -> LF r r' /\ activates r r' (m_from m).
Proof.
  unfold handle_heartbeat_response. intros H.
  destruct (get_pr r (m_from m)) as [pr|] eqn:G;
    [|okinv H; split; [apply LF_refl|intros p Hp; congruence]].
  set (pr0 := resume (set_recent_active (update_committed pr (m_commit m)) true)) in *.
  assert (A0 : recent_active pr0 = true) by reflexivity.
  ib H pr1 H1.
  assert (A1 : recent_active pr1 = true).
  { dtop H1; [|okinv H1; exact A0]. ib H1 i Hi. okinv H1. exact A0. }
  ib H r1 Hr1.
  assert (K1 : LF r r1 /\ exists q, get_pr r1 (m_from m) = Some q /\ recent_active q = true).
  { clear H. dtop Hr1.
    - ib Hr1 y Hy. destruct y as [[ra pa] ba]. okinv Hr1.
      apply maybe_send_append_LF in Hy. destruct Hy as (A & B & C).
      split; [eapply LF_msgs_put; [exact A|exact B|exact G|intros _; congruence]|].
      exists pa. split; [apply get_pr_put_same|congruence].
    - okinv Hr1. split; [apply LF_put with (p := pr); [exact G|intros _; exact A1]|].
      exists pr1. split; [apply get_pr_put_same|exact A1]. }
  destruct K1 as [K1 K1a].
  assert (Hend : forall ra, LF r1 ra -> LF r ra /\ activates r ra (m_from m)).
  { intros ra L. split; [eapply LF_trans; eassumption|].
    intros p _. apply (LF_activates _ _ _ L). exact K1a. }
  dtop H; [okinv H; apply Hend, LF_refl|].
  destruct (ro_recv_ack (r_read_only r1) (m_from m) (m_context m)) as [ro' acks].
  destruct acks; [|okinv H; apply Hend, LF_same; reflexivity].
  dtop H; [|okinv H; apply Hend, LF_same; reflexivity].
  ib H z Hz. destruct z as [ro2 rss]. apply respond_reads_LF in H.
  apply Hend. eapply LF_trans; [|exact H]. apply LF_same; reflexivity.
Qed.

Lemma handle_snapshot_status_LF r m r' : handle_snapshot_status r m = Ok r' -> LF r r'.
Proof.
  unfold handle_snapshot_status. intros H.
  destruct (get_pr r (m_from m)) as [pr|] eqn:G; [|okinv H; apply LF_refl].
  dtop H; okinv H; [apply LF_refl|].
  apply LF_put with (p := pr); [exact G|].
  apply act_le_eq. destruct (m_reject m); cbn; rewrite ra_become_probe; reflexivity.
Qed.

Lemma handle_unreachable_LF r m r' : handle_unreachable r m = Ok r' -> LF r r'.
Proof.
  unfold handle_unreachable. intros H.
  destruct (get_pr r (m_from m)) as [pr|] eqn:G; [|okinv H; apply LF_refl].
  okinv H. destruct (pstate_eqb _ _); [|apply LF_refl].
  apply LF_put with (p := pr); [exact G|apply act_le_eq, ra_become_probe].
Qed.

Lemma filter_conf_changes_LF : forall ents r info i r' ents' ok,
  filter_conf_changes r ents info i = (r', ents', ok) -> LF r r'.
Proof.
  induction ents as [|e rest IH]; intros r info i r' ents' ok H; cbn [filter_conf_changes] in H.
  - okinv H. apply LF_refl.
  - dtop H.
    + destruct (filter_conf_changes r rest _ (i + 1)) as [[ra ea] oa] eqn:E. okinv H.
      eapply IH; eassumption.
    + dtop H; [okinv H; apply LF_refl|].
      dtop H.
      * destruct (filter_conf_changes r rest _ (i + 1)) as [[ra ea] oa] eqn:E. okinv H.
        eapply IH; eassumption.
      * destruct (filter_conf_changes _ rest _ (i + 1)) as [[ra ea] oa] eqn:E. okinv H.
        apply IH in E. eapply LF_trans; [|exact E]. apply LF_same; reflexivity.
Qed.

(* ------------------------------------------------------------------ *)
(* Part 3: the leader's step *)

(* a message the leader of term [t] can take without harm: no local check-quorum order,
   no transfer request, no term above t except a pre-vote request's, and (pre-)vote
   requests do not claim to come from a majority follower *)
Definition okL (t : N) (m : msg) : Prop :=
  m_type m <> MsgCheckQuorum /\ m_type m <> MsgTransferLeader /\
  (m_term m <= t \/ m_type m = MsgRequestPreVote) /\
  ((m_type m = MsgRequestVote \/ m_type m = MsgRequestPreVote) -> ~ In (m_from m) ids).

Lemma step_leader_LF r m r' c :
  r_lead_transferee r = None ->
  m_type m <> MsgCheckQuorum -> m_type m <> MsgTransferLeader ->
  step_leader r m = Ok (r', c) ->
  LF r r' /\
  ((m_type m = MsgHeartbeatResponse \/ m_type m = MsgAppendResponse) -> activates r r' (m_from m)).
Proof.
  intros HT Hcq Htl. unfold step_leader. intros H.
  assert (Hna : forall ty, m_type m = ty -> ty <> MsgHeartbeatResponse -> ty <> MsgAppendResponse ->
     (m_type m = MsgHeartbeatResponse \/ m_type m = MsgAppendResponse) -> activates r r' (m_from m)).
  { intros ty E N1 N2 [X|X]; congruence. }
  destruct (m_type m =? MsgBeat) eqn:E1.
  { apply N.eqb_eq in E1. ib H y Hy. okinv H. split; [|apply (Hna _ E1); discriminate].
    eapply bcast_heartbeat_with_ctx_LF. exact Hy. }
  destruct (m_type m =? MsgCheckQuorum) eqn:E2; [apply N.eqb_eq in E2; contradiction|].
  destruct (m_type m =? MsgPropose) eqn:E3.
  { apply N.eqb_eq in E3. split; [|apply (Hna _ E3); discriminate].
    destruct (m_entries m); [discriminate|].
    destruct (get_pr r (r_id r)); [|okinv H; apply LF_refl].
    destruct (r_lead_transferee r); [okinv H; apply LF_refl|].
    destruct (filter_conf_changes r _ _ 0) as [[r1 ents] ok] eqn:E.
    apply filter_conf_changes_LF in E.
    destruct ok; cbn [negb] in H; [|okinv H; exact E].
    ib H y Hy. destruct y as [r2 appended]. apply append_entry_LF in Hy.
    destruct appended; cbn [negb] in H; [|okinv H; eapply LF_trans; eassumption].
    ib H z Hz. okinv H. apply bcast_append_LF in Hz.
    eapply LF_trans; [exact E|]. eapply LF_trans; eassumption. }
  destruct (m_type m =? MsgReadIndex) eqn:E4.
  { apply N.eqb_eq in E4. split; [|apply (Hna _ E4); discriminate].
    ib H y Hy. destruct y; cbn [negb] in H; [|okinv H; apply LF_refl].
    assert (Hnow : forall r' c,
      (x <- handle_ready_read_index r m (committed (r_log r)) ;;
       let '(r1, om) := x in
       r2 <- match om with Some mm => send r1 mm | None => Ok r1 end ;; Ok (r2, E_OK)) = Ok (r', c) ->
      LF r r').
    { intros ra ca Ha. ib Ha z Hz. destruct z as [r1 om].
      apply handle_ready_read_index_LF in Hz. destruct Hz as [A B]. ib Ha w Hw. okinv Ha.
      destruct om as [x|]; [|okinv Hw; exact A]. destruct B as [B1 B2].
      apply send_LF in Hw; [|left; split; [exact B1|rewrite B2; right; right; right; left; reflexivity]].
      destruct Hw. eapply LF_trans; [exact A|apply msgs_only_LF; assumption]. }
    dtop H; [eapply Hnow; exact H|].
    dtop H; [|eapply Hnow; exact H].
    ib H ctx Hctx. ib H ro' Hro. ib H z Hz. okinv H.
    apply bcast_heartbeat_with_ctx_LF in Hz. eapply LF_trans; [|exact Hz]. apply LF_same; reflexivity. }
  destruct (m_type m =? MsgAppendResponse) eqn:E5.
  { ib H y Hy. okinv H. apply handle_append_response_LF in Hy; [|exact HT].
    destruct Hy as [A B]. split; [exact A|intros _; exact B]. }
  destruct (m_type m =? MsgHeartbeatResponse) eqn:E6.
  { ib H y Hy. okinv H. apply handle_heartbeat_response_LF in Hy.
    destruct Hy as [A B]. split; [exact A|intros _; exact B]. }
  apply N.eqb_neq in E5, E6.
  split; [|intros [X|X]; contradiction].
  dtop H; [ib H y Hy; okinv H; eapply handle_snapshot_status_LF; eassumption|].
  dtop H; [ib H y Hy; okinv H; eapply handle_unreachable_LF; eassumption|].
  dtop H; [apply N.eqb_eq in Heqb1; contradiction|].
  okinv H. apply LF_refl.
Qed.

Theorem leader_step_LF r m r' c :
  r_state r = Leader -> r_lead_transferee r = None -> r_leader_id r <> INVALID_ID ->
  okL (r_term r) m -> step r m = Ok (r', c) ->
  LF r r' /\
  ((m_type m = MsgHeartbeatResponse \/ m_type m = MsgAppendResponse) -> m_term m = r_term r ->
   r_term r <> 0 -> activates r r' (m_from m)).
Proof.
  intros Hs HT Hl (Hcq & Htl & Hterm & Hfrom) H.
  rewrite step_eq in H. ib H pre Hpre. apply step_pre_cases in Hpre.
  destruct pre as [[r1 c1]|r1].
  - okinv H. destruct Hpre as (_ & Hz & [(Hgt & _ & ->)|(Hlt & Hr)]).
    + split; [apply LF_refl|]. intros _ E. lia.
    + split; [|intros _ E; lia].
      unfold low_term_reply in Hr. dtop Hr.
      * apply send_LF in Hr; [destruct Hr; apply msgs_only_LF; assumption|].
        left. split; [reflexivity|right; right; right; right; reflexivity].
      * dtop Hr; [|okinv Hr; apply LF_refl]. apply N.eqb_eq in Heqb0.
        apply send_LF in Hr; [destruct Hr; apply msgs_only_LF; assumption|].
        right. cbn. apply Hfrom. right. exact Heqb0.
  - destruct Hpre as [[-> Hc]|(L & D & E & _)].
    2:{ exfalso. destruct Hterm as [Q|Q]; [lia|]. unfold exempt in E. rewrite Q in E. discriminate. }
    unfold step_body in H.
    destruct (m_type m =? MsgHup) eqn:Ehup.
    { apply N.eqb_eq in Ehup. ib H y Hy. okinv H. apply hup_cases in Hy.
      destruct Hy as [->|(C & _)]; [|contradiction].
      split; [apply LF_refl|]. intros [X|X]; rewrite Ehup in X; discriminate. }
    destruct ((m_type m =? MsgRequestVote) || (m_type m =? MsgRequestPreVote)) eqn:Ev.
    { assert (Ht : m_type m = MsgRequestVote \/ m_type m = MsgRequestPreVote)
        by (apply orb_prop in Ev; destruct Ev as [X|X]; apply N.eqb_eq in X; auto).
      split; [|intros [X|X]; destruct Ht as [Y|Y]; rewrite Y in X; discriminate].
      assert (Hb : step_body r m = Ok (r', c)) by (unfold step_body; rewrite Ehup, Ev; exact H).
      pose proof (Hfrom Ht) as Hn.
      assert (Hpush : forall x, m_to x = m_from m -> LF r (push r x)).
      { intros x Hx. apply msgs_only_LF; [unfold msgs_only, push; reflexivity|].
        unfold push. apply push_qpres. rewrite Hx. intros C. contradiction. }
      apply step_body_vote in Hb; [|exact Ht].
      destruct Hb as [_ [(G & _ & ->)|(_ & _ & ci & _ & Hm)]].
      - destruct (m_type m =? MsgRequestVote) eqn:Erv; [|apply Hpush; reflexivity].
        (* a leader grants a vote only to the node it already voted for *)
        unfold grants in G. ib G utd Hu. injection G as G.
        apply andb_prop in G. destruct G as [G _]. apply andb_prop in G. destruct G as [Hcv _].
        assert (Hvote : r_vote r = m_from m).
        { apply orb_prop in Hcv. destruct Hcv as [Hcv|Hcv].
          - apply orb_prop in Hcv. destruct Hcv as [Hcv|Hcv]; [apply N.eqb_eq; exact Hcv|].
            apply andb_prop in Hcv. destruct Hcv as [_ Hcv]. apply N.eqb_eq in Hcv. contradiction.
          - apply andb_prop in Hcv. destruct Hcv as [Hcv _]. apply N.eqb_eq in Erv, Hcv. rewrite Erv in Hcv. discriminate. }
        eapply LF_trans; [apply (Hpush (vote_resp r m (resp_type m) false (m_term m) (0, 0))); reflexivity|].
        split; [unfold keeps, core; cbn; rewrite Hvote; reflexivity|].
        split; [|apply qpres_id; reflexivity].
        split; [reflexivity|]. split; [reflexivity|]. split; [cbn; lia|]. split; [reflexivity|].
        intros id p Hp. exists p. split; [exact Hp|apply act_le_refl].
      - apply maybe_commit_by_vote_cases in Hm. destruct Hm as [E|([S|S] & _)]; [|cbn in S; congruence..].
        eapply LF_trans; [apply (Hpush (vote_resp r m (resp_type m) true (r_term r) ci)); reflexivity|].
        rewrite E. apply LF_same; reflexivity. }
    rewrite Hs in H. apply N.eqb_neq in Ehup.
    apply step_leader_LF in H; [|assumption..]. destruct H as [A B].
    split; [exact A|]. intros X _ _. apply B, X.
Qed.

(* ------------------------------------------------------------------ *)
(* Part 4: the follower's step *)

(* the shape of whatever [send] queues *)
Lemma send_shape r m0 r' : send r m0 = Ok r' ->
  exists m', r' = r <| r_msgs := r_msgs r ++ [m'] |> /\
    m_type m' = m_type m0 /\ m_to m' = m_to m0 /\
    m_from m' = (if m_from m0 =? INVALID_ID then r_id r else m_from m0) /\
    (if is_vote_type (m_type m0) then m_term m' = m_term m0 /\ m_term m0 <> 0
     else m_term m0 = 0 /\
          m_term m' = (if negb (m_type m0 =? MsgPropose) && negb (m_type m0 =? MsgReadIndex)
                       then r_term r else 0)).
Proof.
  unfold send. intros H. ib H m1 H1. okinv H. eexists. split; [reflexivity|].
  set (ma := if m_from m0 =? INVALID_ID then m0 <| m_from := r_id r |> else m0) in *.
  assert (Ha : m_type ma = m_type m0 /\ m_to ma = m_to m0 /\ m_term ma = m_term m0 /\
               m_from ma = (if m_from m0 =? INVALID_ID then r_id r else m_from m0)).
  { unfold ma. destruct (m_from m0 =? INVALID_ID); repeat split; reflexivity. }
  destruct Ha as (A1 & A2 & A3 & A4). rewrite A1, A3 in H1.
  assert (Hm1 : m_type m1 = m_type m0 /\ m_to m1 = m_to m0 /\ m_from m1 = m_from ma /\
     (if is_vote_type (m_type m0) then m_term m1 = m_term m0 /\ m_term m0 <> 0
      else m_term m0 = 0 /\
           m_term m1 = (if negb (m_type m0 =? MsgPropose) && negb (m_type m0 =? MsgReadIndex)
                        then r_term r else 0))).
  { destruct (is_vote_type (m_type m0)).
    - destruct (m_term m0 =? 0) eqn:Ez; [discriminate|]. okinv H1. apply N.eqb_neq in Ez. auto 6.
    - destruct (m_term m0 =? 0) eqn:Ez; cbn [negb] in H1; [|discriminate]. apply N.eqb_eq in Ez.
      destruct (negb (m_type m0 =? MsgPropose) && negb (m_type m0 =? MsgReadIndex)); okinv H1; cbn;
        repeat split; auto; try lia. }
  destruct Hm1 as (B1 & B2 & B3 & B4). rewrite <- A4, <- B3.
  destruct ((m_type m1 =? MsgRequestVote) || (m_type m1 =? MsgRequestPreVote));
    [destruct (0 <? r_priority r)%Z|]; cbn; repeat split; assumption.
Qed.

(* the leader's id *)
Variable l : N.

Definition ftype_ok (ty : N) : Prop :=
  ty <> MsgCheckQuorum /\ ty <> MsgTransferLeader /\ ty <> MsgRequestVote /\ ty <> MsgRequestPreVote.

(* a queued message of a follower of term [t]: what goes to the leader is fit for it *)
Definition QF (t : N) (x : msg) : Prop := m_to x = l -> m_term x <= t /\ ftype_ok (m_type x).

Definition qpresF (r r' : raft) : Prop :=
  (Forall (QF (r_term r)) (r_msgs r) -> Forall (QF (r_term r)) (r_msgs r')) /\
  incl (r_msgs r) (r_msgs r').

(* term, vote, role, leader, configuration and the election timer state *)
Definition tkeeps (r r' : raft) : Prop :=
  keeps r r' /\ r_randomized_election_timeout r' = r_randomized_election_timeout r /\
  r_election_elapsed r' = r_election_elapsed r.

Lemma tkeeps_refl r : tkeeps r r. Proof. repeat split. Qed.
Lemma tkeeps_trans a b c : tkeeps a b -> tkeeps b c -> tkeeps a c.
Proof. intros (A1 & A2 & A3) (B1 & B2 & B3). split; [eapply keeps_trans; eassumption|split; congruence]. Qed.
Lemma only_msgs_log_tkeeps r r' : only_msgs_log r r' -> tkeeps r r'.
Proof. unfold only_msgs_log. intros H. rewrite H. repeat split. Qed.
Lemma msgs_only_tkeeps r r' : msgs_only r r' -> tkeeps r r'.
Proof. unfold msgs_only. intros H. rewrite H. repeat split. Qed.

Lemma send_QF r m0 r' :
  send r m0 = Ok r' -> ftype_ok (m_type m0) ->
  (is_vote_type (m_type m0) = true -> m_to m0 <> l \/ m_term m0 <= r_term r) ->
  qpresF r r'.
Proof.
  intros H Ht Hv. apply send_shape in H. destruct H as (m' & -> & A1 & A2 & _ & A4).
  split; [|cbn; apply incl_appl, incl_refl].
  intros F. cbn. apply Forall_app. split; [exact F|]. constructor; [|constructor].
  intros Hto. rewrite A1. split; [|exact Ht].
  destruct (is_vote_type (m_type m0)).
  - destruct A4 as [E _]. rewrite E. destruct (Hv eq_refl) as [C|C]; [congruence|exact C].
  - destruct A4 as [_ E]. rewrite E. destruct (_ && _); lia.
Qed.

Lemma qpresF_trans a b c : keeps a b -> qpresF a b -> qpresF b c -> qpresF a c.
Proof.
  intros K [Q1 N1] [Q2 N2]. apply keeps_fields in K. destruct K as (T & _).
  rewrite T in Q2. split; [intros F; apply Q2, Q1, F|eapply incl_tran; eassumption].
Qed.

Lemma qpresF_same r r' : r_msgs r' = r_msgs r -> qpresF r r'.
Proof. unfold qpresF. intros ->. split; [auto|apply incl_refl]. Qed.

Lemma ftype_AppendResponse : ftype_ok MsgAppendResponse.
Proof. repeat split; discriminate. Qed.
Lemma ftype_HeartbeatResponse : ftype_ok MsgHeartbeatResponse.
Proof. repeat split; discriminate. Qed.

Lemma send_request_snapshot_QF r r' : send_request_snapshot r = Ok r' -> qpresF r r'.
Proof.
  unfold send_request_snapshot. intros H. ib H t Ht. destruct t; [|discriminate].
  eapply send_QF; [exact H|apply ftype_AppendResponse|discriminate].
Qed.

Lemma handle_heartbeat_QF r m r' : handle_heartbeat r m = Ok r' -> qpresF r r'.
Proof.
  unfold handle_heartbeat. intros H. ib H l' Hl.
  assert (Q : qpresF (r <| r_log := l' |>) r').
  { dtop H; [apply send_request_snapshot_QF; exact H|].
    eapply send_QF; [exact H|apply ftype_HeartbeatResponse|discriminate]. }
  exact Q.
Qed.

Lemma handle_append_entries_QF r m r' : handle_append_entries r m = Ok r' -> qpresF r r'.
Proof.
  unfold handle_append_entries. intros H.
  dtop H; [apply send_request_snapshot_QF; exact H|].
  dtop H; [eapply send_QF; [exact H|apply ftype_AppendResponse|discriminate]|].
  ib H y Hy. destruct y as [l' res].
  assert (Q : qpresF (r <| r_log := l' |>) r').
  { destruct res as [[a last_idx]|].
    - eapply send_QF; [exact H|apply ftype_AppendResponse|discriminate].
    - ib H z Hz. destruct z as [hi [ht|]]; [|discriminate].
      eapply send_QF; [exact H|apply ftype_AppendResponse|discriminate]. }
  exact Q.
Qed.

(* restoring a snapshot on a follower: nothing is sent, no timer is touched *)
Lemma restore_follower r s r' b :
  r_state r = Follower -> restore r s = Ok (r', b) -> tkeeps r r' /\ r_msgs r' = r_msgs r.
Proof.
  intros Hf. unfold restore. intros H.
  dtop H; [okinv H; split; [apply tkeeps_refl|reflexivity]|].
  rewrite Hf in H. cbn [role_eqb negb] in H.
  dtop H; [okinv H; split; [apply tkeeps_refl|reflexivity]|].
  ib H mt Hmt.
  dtop H; [ib H l' Hl; okinv H; split; [repeat split|reflexivity]|].
  ib H l' Hl.
  destruct (ConfChange.restore _ _) as [[c' ids']|e]; [|discriminate].
  ib H y Hy. destruct y as [r1 new_cs].
  unfold post_conf_change in Hy.
  match type of Hy with context [is_leader ?x] =>
    assert (Hnl : is_leader x = false) by (unfold is_leader; cbn; rewrite Hf; reflexivity) end.
  rewrite Hnl in Hy. rewrite andb_false_r in Hy. cbn [negb orb] in Hy. okinv Hy.
  dtop H; [discriminate|]. dtop H; [|discriminate]. dtop H; [discriminate|]. okinv H.
  split; [repeat split|reflexivity].
Qed.

Lemma handle_snapshot_follower r m r' :
  r_state r = Follower -> handle_snapshot r m = Ok r' -> tkeeps r r' /\ qpresF r r'.
Proof.
  intros Hf. unfold handle_snapshot. intros H. ib H y Hy. destruct y as [r1 ok].
  apply restore_follower in Hy; [|exact Hf]. destruct Hy as [K M].
  assert (Q : tkeeps r1 r' /\ qpresF r1 r').
  { destruct ok; (split; [apply msgs_only_tkeeps; eapply send_msgs_only; exact H|]);
      (eapply send_QF; [exact H|apply ftype_AppendResponse|discriminate]). }
  destruct Q as [K2 Q2]. split; [eapply tkeeps_trans; eassumption|].
  eapply qpresF_trans; [apply K|apply qpresF_same; exact M|exact Q2].
Qed.

(* a message a follower of term [t] with leader [l] can take: no campaign order, no
   transfer, no term above t except a pre-vote request's, current-term leader traffic
   only from l, and no (pre-)vote request claiming to come from l *)
Definition okF (t : N) (m : msg) : Prop :=
  m_type m <> MsgHup /\ m_type m <> MsgTimeoutNow /\ m_type m <> MsgTransferLeader /\
  (m_term m <= t \/ m_type m = MsgRequestPreVote) /\
  (from_leader m = true -> m_term m <> 0 /\ (m_term m = t -> m_from m = l)) /\
  ((m_type m = MsgRequestVote \/ m_type m = MsgRequestPreVote) -> m_from m <> l).

(* the follower's step: term, vote, role, leader, configuration and randomized timeout
   stay; the election timer stays or is cleared, and is cleared by the leader's traffic *)
Definition FF (m : msg) (r r' : raft) : Prop :=
  keeps r r' /\ r_randomized_election_timeout r' = r_randomized_election_timeout r /\
  (r_election_elapsed r' = r_election_elapsed r \/ r_election_elapsed r' = 0) /\
  (from_leader m = true -> m_term m = r_term r -> r_election_elapsed r' = 0) /\
  qpresF r r'.

Lemma tkeeps_FF m r r' :
  tkeeps r r' -> qpresF r r' -> ~ (from_leader m = true /\ m_term m = r_term r) -> FF m r r'.
Proof.
  intros (K & R & E) Q N. split; [exact K|]. split; [exact R|]. split; [left; exact E|].
  split; [intros A B; exfalso; apply N; auto|exact Q].
Qed.

Theorem follower_step_FF r m r' c :
  r_state r = Follower -> r_leader_id r = l -> l <> INVALID_ID -> r_term r <> 0 ->
  okF (r_term r) m -> step r m = Ok (r', c) -> FF m r r'.
Proof.
  intros Hs Hl Hl0 Ht0 (Hhup & Htn & Htl & Hterm & Hfl & Hfrom) H.
  rewrite step_eq in H. ib H pre Hpre. apply step_pre_cases in Hpre.
  destruct pre as [[r1 c1]|r1].
  - okinv H. destruct Hpre as (_ & Hz & [(Hgt & _ & ->)|(Hlt & Hr)]).
    + apply tkeeps_FF; [apply tkeeps_refl|apply qpresF_same; reflexivity|]. intros [_ E]. lia.
    + apply tkeeps_FF; [apply msgs_only_tkeeps; eapply low_term_reply_msgs_only; exact Hr| |intros [_ E]; lia].
      unfold low_term_reply in Hr. dtop Hr.
      * eapply send_QF; [exact Hr|apply ftype_AppendResponse|discriminate].
      * dtop Hr; [|okinv Hr; apply qpresF_same; reflexivity].
        eapply send_QF; [exact Hr|repeat split; discriminate|]. intros _. right. cbn. lia.
  - destruct Hpre as [[-> Hc]|(L & D & E & _)].
    2:{ exfalso. destruct Hterm as [Q|Q]; [lia|]. unfold exempt in E. rewrite Q in E. discriminate. }
    unfold step_body in H.
    destruct (m_type m =? MsgHup) eqn:Ehup; [apply N.eqb_eq in Ehup; contradiction|].
    destruct ((m_type m =? MsgRequestVote) || (m_type m =? MsgRequestPreVote)) eqn:Ev.
    { assert (Ht : m_type m = MsgRequestVote \/ m_type m = MsgRequestPreVote)
        by (apply orb_prop in Ev; destruct Ev as [X|X]; apply N.eqb_eq in X; auto).
      assert (Hnfl : ~ (from_leader m = true /\ m_term m = r_term r)).
      { intros [X _]. unfold from_leader in X. destruct Ht as [Y|Y]; rewrite Y in X; discriminate. }
      assert (Hb : step_body r m = Ok (r', c)) by (unfold step_body; rewrite Ehup, Ev; exact H).
      pose proof (Hfrom Ht) as Hn.
      assert (Hrt : ftype_ok (resp_type m))
        by (unfold resp_type; destruct (m_type m =? MsgRequestVote); repeat split; discriminate).
      assert (Hpush : forall rej t ci, qpresF r (push r (vote_resp r m (resp_type m) rej t ci))).
      { intros rej t ci. split; [|unfold push; cbn; apply incl_appl, incl_refl].
        intros F. unfold push. cbn. apply Forall_app. split; [exact F|].
        constructor; [|constructor]. intros X. cbn in X. congruence. }
      apply step_body_vote in Hb; [|exact Ht].
      destruct Hb as [_ [(G & _ & ->)|(_ & _ & ci & _ & Hm)]].
      - destruct (m_type m =? MsgRequestVote) eqn:Erv.
        + unfold grants in G. ib G utd Hu. injection G as G.
          apply andb_prop in G. destruct G as [G _]. apply andb_prop in G. destruct G as [Hcv _].
          assert (Hvote : r_vote r = m_from m).
          { apply orb_prop in Hcv. destruct Hcv as [Hcv|Hcv].
            - apply orb_prop in Hcv. destruct Hcv as [Hcv|Hcv]; [apply N.eqb_eq; exact Hcv|].
              apply andb_prop in Hcv. destruct Hcv as [_ Hcv]. apply N.eqb_eq in Hcv. congruence.
            - apply andb_prop in Hcv. destruct Hcv as [Hcv _]. apply N.eqb_eq in Erv, Hcv.
              rewrite Erv in Hcv. discriminate. }
          split; [unfold keeps, core; cbn; rewrite Hvote; reflexivity|]. split; [reflexivity|].
          split; [right; reflexivity|]. split; [intros A B; reflexivity|]. apply Hpush.
        + apply tkeeps_FF; [repeat split|apply Hpush|exact Hnfl].
      - apply maybe_commit_by_vote_cases in Hm. destruct Hm as [E|([S|S] & _)]; [|cbn in S; congruence..].
        apply tkeeps_FF; [rewrite E; repeat split| |exact Hnfl].
        rewrite E. exact (Hpush true (r_term r) ci). }
    rewrite Hs in H. unfold step_follower in H.
    assert (Hfwd : forall r', send r (m <| m_to := r_leader_id r |>) = Ok r' -> ftype_ok (m_type m) ->
                   is_vote_type (m_type m) = false -> from_leader m = false -> FF m r r').
    { intros ra Ha Hok Hv Hnl. apply tkeeps_FF.
      - apply msgs_only_tkeeps. eapply send_msgs_only; exact Ha.
      - eapply send_QF; [exact Ha|exact Hok|]. cbn. rewrite Hv. discriminate.
      - rewrite Hnl. intros [X _]. discriminate. }
    assert (Hsame : from_leader m = false -> FF m r r).
    { intros Hnl. apply tkeeps_FF; [apply tkeeps_refl|apply qpresF_same; reflexivity|].
      rewrite Hnl. intros [X _]. discriminate. }
    assert (Hlead : forall ra, from_leader m = true ->
       tkeeps (r <| r_election_elapsed := 0 |> <| r_leader_id := m_from m |>) ra ->
       qpresF (r <| r_election_elapsed := 0 |> <| r_leader_id := m_from m |>) ra -> FF m r ra).
    { intros ra Hfm (K & R & El) Q.
      assert (Hfr : m_from m = r_leader_id r).
      { rewrite Hl. destruct (Hfl Hfm) as [Hnz Hfl']. apply Hfl'.
        destruct Hc as [Z|[Z|(L & _)]]; [contradiction|exact Z|].
        exfalso. destruct Hterm as [Q0|Q0]; [lia|].
        unfold from_leader in Hfm; rewrite Q0 in Hfm; discriminate. }
      split.
      { unfold keeps in *. rewrite K. unfold core. cbn. rewrite Hfr. reflexivity. }
      split; [exact R|]. split; [right; exact El|]. split; [intros _ _; exact El|exact Q]. }
    destruct (m_type m =? MsgPropose) eqn:E1.
    { apply N.eqb_eq in E1.
      assert (Hnl : from_leader m = false) by (unfold from_leader; rewrite E1; reflexivity).
      dtop H; [okinv H; apply Hsame, Hnl|]. dtop H; [okinv H; apply Hsame, Hnl|].
      ib H y Hy. okinv H. apply Hfwd; [exact Hy|rewrite E1; repeat split; discriminate|rewrite E1; reflexivity|exact Hnl]. }
    destruct (m_type m =? MsgAppend) eqn:E2.
    { ib H y Hy. okinv H. apply Hlead; [unfold from_leader; rewrite E2; reflexivity| |].
      - apply only_msgs_log_tkeeps, handle_append_entries_only with (m := m). exact Hy.
      - eapply handle_append_entries_QF; exact Hy. }
    destruct (m_type m =? MsgHeartbeat) eqn:E3.
    { ib H y Hy. okinv H. apply Hlead; [unfold from_leader; rewrite E3, orb_true_r; reflexivity| |].
      - apply only_msgs_log_tkeeps, handle_heartbeat_only with (m := m). exact Hy.
      - eapply handle_heartbeat_QF; exact Hy. }
    destruct (m_type m =? MsgSnapshot) eqn:E4.
    { ib H y Hy. okinv H. apply handle_snapshot_follower in Hy; [|exact Hs]. destruct Hy as [A B].
      apply Hlead; [unfold from_leader; rewrite E4, orb_true_r; reflexivity|exact A|exact B]. }
    assert (Hnl : from_leader m = false) by (unfold from_leader; rewrite E2, E3, E4; reflexivity).
    destruct (m_type m =? MsgTransferLeader) eqn:E5; [apply N.eqb_eq in E5; contradiction|].
    destruct (m_type m =? MsgTimeoutNow) eqn:E6; [apply N.eqb_eq in E6; contradiction|].
    destruct (m_type m =? MsgReadIndex) eqn:E7.
    { apply N.eqb_eq in E7. dtop H; [okinv H; apply Hsame, Hnl|].
      ib H y Hy. okinv H. apply Hfwd; [exact Hy|rewrite E7; repeat split; discriminate|rewrite E7; reflexivity|exact Hnl]. }
    destruct (m_type m =? MsgReadIndexResp) eqn:E8.
    { destruct (m_entries m) as [|e [|e2 rest]]; try (okinv H; apply Hsame, Hnl).
      ib H y Hy. okinv H. apply tkeeps_FF; [repeat split|apply qpresF_same; reflexivity|].
      rewrite Hnl. intros [X _]. discriminate. }
    okinv H. apply Hsame, Hnl.
Qed.

(* the leader's heartbeat is answered: one message to the sender, stamped with the
   follower's id and term, that the leader counts as a sign of life *)
Lemma follower_heartbeat_reply r m r' c :
  r_state r = Follower -> m_type m = MsgHeartbeat -> m_term m = r_term r ->
  step r m = Ok (r', c) ->
  exists x, r_msgs r' = r_msgs r ++ [x] /\ m_to x = m_from m /\ m_from x = r_id r /\
            m_term x = r_term r /\
            (m_type x = MsgHeartbeatResponse \/ m_type x = MsgAppendResponse).
Proof.
  intros Hs Ht Hterm H. rewrite step_eq in H. unfold step_pre in H.
  rewrite Hterm, N.ltb_irrefl in H.
  assert (Hb : step_body r m = Ok (r', c)) by (destruct (r_term r =? 0); exact H).
  clear H. unfold step_body in Hb. rewrite Hs in Hb. unfold step_follower in Hb. rewrite Ht in Hb.
  change (MsgHeartbeat =? MsgHup) with false in Hb.
  change ((MsgHeartbeat =? MsgRequestVote) || (MsgHeartbeat =? MsgRequestPreVote)) with false in Hb.
  change (MsgHeartbeat =? MsgPropose) with false in Hb.
  change (MsgHeartbeat =? MsgAppend) with false in Hb.
  change (MsgHeartbeat =? MsgHeartbeat) with true in Hb. cbv iota in Hb.
  ib Hb y Hy. okinv Hb. unfold handle_heartbeat in Hy. ib Hy l' Hl'.
  dtop Hy.
  - unfold send_request_snapshot in Hy. ib Hy t Ht'. destruct t; [|discriminate].
    apply send_shape in Hy. destruct Hy as (x & -> & A1 & A2 & A3 & A4).
    exists x. cbn in *. repeat split; auto. destruct A4 as [_ E]. exact E.
  - apply send_shape in Hy. destruct Hy as (x & -> & A1 & A2 & A3 & A4).
    exists x. cbn in *. repeat split; auto. destruct A4 as [_ E]. exact E.
Qed.

End Window.

(* ------------------------------------------------------------------ *)
(* Part 5: the leader's invariant, its steps and its tick *)

(* the leader has heard from [id] since the last check / has a heartbeat queued for it *)
Definition act (L : raft) (id : N) : Prop :=
  exists p, get_pr L id = Some p /\ recent_active p = true.
Definition hbq (L : raft) (id : N) : Prop :=
  exists x, In x (r_msgs L) /\ m_to x = id /\ m_type x = MsgHeartbeat.

Section Inv.

Variables (ids : list N) (l t hb et : N) (c : conf).
Hypothesis Ht0 : t <> 0.
Hypothesis Hl0 : l <> INVALID_ID.
Hypothesis Hlids : ~ In l ids.
Hypothesis Hhbet : hb < et.
Hypothesis Hquorum : Quorum.has_quorum (incoming c) (outgoing c) (l :: ids) = true.

(* every majority follower is flagged active or pending ([pend]: a heartbeat is queued
   for it), or the next heartbeat comes early enough before the next check-quorum
   boundary *)
Definition LInv (pend : N -> Prop) (L : raft) : Prop :=
  r_state L = Leader /\ r_term L = t /\ r_id L = l /\ r_leader_id L = l /\
  r_check_quorum L = true /\ r_lead_transferee L = None /\
  r_heartbeat_timeout L = hb /\ r_election_timeout L = et /\
  r_heartbeat_elapsed L < hb /\ r_election_elapsed L < et /\
  t_conf (r_prs L) = c /\
  (forall id, In id (l :: ids) -> get_pr L id <> None) /\
  Forall (QL ids l t) (r_msgs L) /\
  ((forall id, In id ids -> act L id \/ pend id) \/
   hb + r_election_elapsed L < et + r_heartbeat_elapsed L).

Lemma LF_act L L' id : LF ids L L' -> act L id -> act L' id.
Proof. intros H A. eapply LF_activates; eassumption. Qed.

Lemma LF_hbq L L' id : LF ids L L' -> hbq L id -> hbq L' id.
Proof.
  intros (_ & _ & (_ & K)) (x & Hx & A & B). destruct (K x Hx) as (x' & Hx' & A' & B').
  exists x'. split; [exact Hx'|split; congruence].
Qed.

Lemma LInv_LF pend L L' : LInv pend L -> LF ids L L' ->
  LInv pend L' /\ r_heartbeat_elapsed L' = r_heartbeat_elapsed L.
Proof.
  intros (I1 & I2 & I3 & I4 & I5 & I6 & I7 & I8 & I9 & I10 & I11 & I12 & I13 & I14) HLF.
  pose proof HLF as (K & (W1 & W2 & W3 & W4 & W5) & (Q & _)).
  apply keeps_fields in K. destruct K as (K1 & K2 & K3 & K4 & K5).
  apply cfg_fields in K5. destruct K5 as (C1 & C2 & C3 & C4 & C5).
  split; [|exact W2].
  unfold LInv. rewrite K1, K3, K4, C1, C3, C4, C5, W1, W2, W4.
  repeat (split; [assumption|]). split; [lia|]. split; [assumption|].
  split.
  { intros id Hid. specialize (I12 id Hid). destruct (get_pr L id) as [p|] eqn:G; [|congruence].
    destruct (W5 id p G) as (p' & G' & _). congruence. }
  split; [rewrite I3, I2 in Q; apply Q, I13|].
  destruct I14 as [A|A]; [left|right; lia].
  intros id Hid. destruct (A id Hid) as [B|B]; [left; eapply LF_act; eassumption|right; exact B].
Qed.

Lemma LInv_weaken (pend pend' : N -> Prop) L :
  (forall id, In id ids -> pend id -> pend' id) -> LInv pend L -> LInv pend' L.
Proof.
  intros Himp (I1 & I2 & I3 & I4 & I5 & I6 & I7 & I8 & I9 & I10 & I11 & I12 & I13 & I14).
  repeat (split; [assumption|]). destruct I14 as [A|A]; [left|right; exact A].
  intros id Hid. destruct (A id Hid) as [B|B]; [left; exact B|right; apply Himp; assumption].
Qed.

Lemma LInv_step (pend : N -> Prop) L m L' cc :
  LInv pend L -> okL ids t m -> step L m = Ok (L', cc) ->
  LInv pend L' /\ LF ids L L' /\
  ((m_type m = MsgHeartbeatResponse \/ m_type m = MsgAppendResponse) -> m_term m = t ->
   In (m_from m) ids -> act L' (m_from m)).
Proof.
  intros HI Hok H.
  pose proof HI as (I1 & I2 & I3 & I4 & I5 & I6 & I7 & I8 & I9 & I10 & I11 & I12 & I13 & I14).
  apply (leader_step_LF ids) in H; [|exact I1|exact I6|congruence|rewrite I2; exact Hok].
  destruct H as [HLF Hact]. split; [eapply LInv_LF; eassumption|]. split; [exact HLF|].
  intros Hty Hterm Hin. specialize (Hact Hty). rewrite I2 in Hact. specialize (Hact Hterm Ht0).
  assert (G : get_pr L (m_from m) <> None) by (apply I12; right; exact Hin).
  destruct (get_pr L (m_from m)) as [p|] eqn:E; [|congruence]. exact (Hact p E).
Qed.

Lemma LInv_steps (pend : N -> Prop) : forall ms L L',
  LInv pend L -> Forall (okL ids t) ms -> steps L ms = Ok L' ->
  LInv pend L' /\ LF ids L L' /\
  (forall x, In x ms -> (m_type x = MsgHeartbeatResponse \/ m_type x = MsgAppendResponse) ->
             m_term x = t -> In (m_from x) ids -> act L' (m_from x)).
Proof.
  induction ms as [|m rest IH]; intros L L' HI Hok H; cbn [steps] in H.
  - okinv H. split; [exact HI|]. split; [apply LF_refl|]. intros x [].
  - inversion Hok as [|? ? Hm Hrest]; subst. ib H y Hy. destruct y as [L1 c1]. cbn [fst] in H.
    destruct (LInv_step _ _ _ _ _ HI Hm Hy) as (I1 & F1 & A1).
    destruct (IH _ _ I1 Hrest H) as (I2 & F2 & A2).
    split; [exact I2|]. split; [eapply LF_trans; eassumption|].
    intros x [<-|Hx] Hty Hterm Hin; [|apply A2; assumption].
    eapply LF_act; [exact F2|]. apply A1; assumption.
Qed.

(* has_quorum is monotone in the set *)
Lemma has_quorum_mono inc out S S' :
  (forall x, Quorum.mem x S = true -> Quorum.mem x S' = true) ->
  Quorum.has_quorum inc out S = true -> Quorum.has_quorum inc out S' = true.
Proof.
  intros Hsub H. apply QuorumProofs.has_quorum_spec in H. apply QuorumProofs.has_quorum_spec.
  destruct H as [A B]. split.
  - destruct A as [A|A]; [left; exact A|right].
    eapply Nat.le_trans; [exact A|]. apply QuorumProofs.count_mono. intros v _. apply Hsub.
  - destruct B as [B|B]; [left; exact B|right].
    eapply Nat.le_trans; [exact B|]. apply QuorumProofs.count_mono. intros v _. apply Hsub.
Qed.

Lemma pget_In m id p : pget m id = Some p -> In (id, p) m.
Proof.
  induction m as [|[k q] rest IH]; cbn [pget]; [discriminate|].
  destruct (k =? id) eqn:E; [|intros H; right; apply IH, H].
  apply N.eqb_eq in E. intros H. okinv H. left. reflexivity.
Qed.

Lemma active_ids_mem L id :
  (id = r_id L /\ get_pr L id <> None) \/ act L id ->
  Quorum.mem id (active_ids (r_prs L) (r_id L)) = true.
Proof.
  intros H. apply QuorumProofs.mem_In. unfold active_ids. apply in_map_iff.
  destruct H as [[-> G]|(p & G & A)].
  - destruct (get_pr L (r_id L)) as [p|] eqn:E; [|congruence].
    exists (r_id L, p). split; [reflexivity|]. apply filter_In. split; [apply pget_In; exact E|].
    cbn. rewrite N.eqb_refl. reflexivity.
  - exists (id, p). split; [reflexivity|]. apply filter_In. split; [apply pget_In; exact G|].
    cbn. rewrite A. apply orb_true_r.
Qed.

Lemma all_act_quorum pend L :
  LInv pend L -> (forall id, In id ids -> act L id) ->
  prs_has_quorum (r_prs L) (active_ids (r_prs L) (r_id L)) = true.
Proof.
  intros (I1 & I2 & I3 & I4 & I5 & I6 & I7 & I8 & I9 & I10 & I11 & I12 & I13 & I14) A.
  unfold prs_has_quorum. rewrite I11. eapply has_quorum_mono; [|exact Hquorum].
  intros x Hx. apply QuorumProofs.mem_In in Hx. apply active_ids_mem.
  destruct Hx as [<-|Hx]; [left; split; [congruence|apply I12; left; reflexivity]|right; apply A, Hx].
Qed.

Lemma hb_msg_fields r ctx id :
  m_to (hb_msg r ctx id) = id /\ m_type (hb_msg r ctx id) = MsgHeartbeat /\
  m_from (hb_msg r ctx id) = r_id r /\ m_term (hb_msg r ctx id) = r_term r.
Proof. unfold hb_msg. destruct ctx; cbn; repeat split. Qed.

Lemma pget_pids m id : pget m id <> None -> In id (pids m).
Proof.
  intros H. destruct (pget m id) as [p|] eqn:E; [|congruence].
  apply pget_In in E. unfold pids. apply in_map_iff. exists (id, p). auto.
Qed.

(* the heartbeat phase of a tick *)
Lemma beat_phase_LInv r1 hr L2 b :
  beat_phase r1 hr = Ok (L2, b) ->
  r_state r1 = Leader -> r_term r1 = t -> r_id r1 = l -> r_heartbeat_timeout r1 = hb ->
  (forall id, In id (l :: ids) -> get_pr r1 id <> None) ->
  Forall (QL ids l t) (r_msgs r1) ->
  (hb <= r_heartbeat_elapsed r1 /\ r_heartbeat_elapsed L2 = 0 /\
   (forall id, In id ids -> hbq L2 id) /\ Forall (QL ids l t) (r_msgs L2) /\
   L2 = r1 <| r_heartbeat_elapsed := 0 |> <| r_msgs := r_msgs L2 |>) \/
  (r_heartbeat_elapsed r1 < hb /\ L2 = r1).
Proof.
  unfold beat_phase. intros H Hs Ht Hi Hh Hg HQ. rewrite Hh in H.
  destruct (hb <=? r_heartbeat_elapsed r1) eqn:E.
  - apply N.leb_le in E. left. rewrite bcast_heartbeat_eq in H. cbn [bind] in H.
    injection H as HL2 Hb2. subst L2.
    split; [exact E|]. split; [reflexivity|]. cbn [r_msgs set].
    change (r_msgs (r1 <| r_heartbeat_elapsed := 0 |>)) with (r_msgs r1).
    change (r_id (r1 <| r_heartbeat_elapsed := 0 |>)) with (r_id r1).
    change (r_prs (r1 <| r_heartbeat_elapsed := 0 |>)) with (r_prs r1).
    split; [|split].
    + intros id Hid. eexists. split; [apply in_or_app; right; apply in_map; apply filter_In; split|].
      * apply pget_pids. apply (Hg id). right. exact Hid.
      * apply negb_true_iff, N.eqb_neq. rewrite Hi. intros ->. contradiction.
      * destruct (hb_msg_fields (r1 <| r_heartbeat_elapsed := 0 |>)
                    (ro_last_pending_request_ctx (r_read_only (r1 <| r_heartbeat_elapsed := 0 |>))) id)
          as (A & B & _). split; assumption.
    + apply Forall_app. split; [exact HQ|]. apply Forall_forall. intros x Hx.
      apply in_map_iff in Hx. destruct Hx as (id & <- & _). intros _.
      destruct (hb_msg_fields (r1 <| r_heartbeat_elapsed := 0 |>)
                  (ro_last_pending_request_ctx (r_read_only (r1 <| r_heartbeat_elapsed := 0 |>))) id)
        as (A & B & C & D). split; [exact (eq_trans C Hi)|]. split; [exact (eq_trans D Ht)|].
      right. left. exact B.
    + destruct r1; reflexivity.
  - apply N.leb_gt in E. right. injection H as HL2 Hb2. subst L2. split; [exact E|reflexivity].
Qed.

(* the leader's tick after the exchange: the invariant is re-established, and either no
   heartbeat was due (counter + 1, queue untouched) or one is queued for every majority
   follower *)
Lemma leader_tick_LInv L1 L2 b :
  LInv (fun _ => False) L1 -> tick L1 = Ok (L2, b) ->
  LInv (hbq L2) L2 /\
  ((r_heartbeat_elapsed L2 = r_heartbeat_elapsed L1 + 1 /\ r_heartbeat_elapsed L1 + 1 < hb /\
    r_msgs L2 = r_msgs L1) \/
   (r_heartbeat_elapsed L2 = 0 /\ forall id, In id ids -> hbq L2 id)).
Proof.
  intros HI H.
  pose proof HI as (I1 & I2 & I3 & I4 & I5 & I6 & I7 & I8 & I9 & I10 & I11 & I12 & I13 & I14).
  destruct (N.lt_ge_cases (r_election_elapsed L1 + 1) (r_election_timeout L1)) as [Hno|Hb].
  - (* no boundary *)
    rewrite (leader_heartbeats L1 I1 Hno) in H.
    apply beat_phase_LInv in H; try assumption.
    destruct H as [(E & H0 & Hq & HQ & ->)|(E & ->)].
    + split; [|right; split; [reflexivity|exact Hq]].
      unfold LInv. cbn. do 11 (split; [first [assumption|reflexivity|lia]|]). split; [exact I12|]. split; [exact HQ|].
      left. intros id Hid. right. apply Hq, Hid.
    + cbn in E. split; [|left; cbn; repeat split; lia].
      unfold LInv. cbn. do 11 (split; [first [assumption|reflexivity|lia]|]). split; [exact I12|]. split; [exact I13|].
      destruct I14 as [A|A]; [left|right; lia].
      intros id Hid. destruct (A id Hid) as [B|[]]. left; exact B.
  - (* the check-quorum boundary *)
    assert (Hall : forall id, In id ids -> act L1 id).
    { destruct I14 as [A|A]; [|lia]. intros id Hid. destruct (A id Hid) as [B|[]]. exact B. }
    rewrite (checkquorum_stepdown L1 I1 Hb), I5, (all_act_quorum _ L1 HI Hall) in H.
    assert (Hg : forall id, In id (l :: ids) -> get_pr (after_check L1 true) id <> None).
    { intros id Hid. unfold get_pr, after_check. cbn. rewrite pget_clear_active.
      specialize (I12 id Hid). unfold get_pr in I12. destruct (pget _ id); [discriminate|congruence]. }
    apply beat_phase_LInv in H; try assumption.
    destruct H as [(E & H0 & Hq & HQ & ->)|(E & ->)].
    + split; [|right; split; [reflexivity|exact Hq]].
      unfold LInv. cbn. do 11 (split; [first [assumption|reflexivity|lia]|]). split; [exact Hg|]. split; [exact HQ|].
      left. intros id Hid. right. apply Hq, Hid.
    + cbn in E. split; [|left; cbn; repeat split; lia].
      unfold LInv. cbn. do 11 (split; [first [assumption|reflexivity|lia]|]). split; [exact Hg|]. split; [exact I13|].
      right. lia.
Qed.

End Inv.

(* ------------------------------------------------------------------ *)
(* Part 6: followers, deliveries, the window invariant, one round, N rounds *)

Lemma mapM_Forall2 {A B} (g : A -> Res B) : forall xs ys,
  mapM g xs = Ok ys -> Forall2 (fun x y => g x = Ok y) xs ys.
Proof.
  induction xs as [|x t IH]; intros ys H; cbn [mapM] in H.
  - okinv H. constructor.
  - ib H y Hy. ib H ys' Hys. okinv H. constructor; [exact Hy|apply IH, Hys].
Qed.

Lemma Forall2_imp {A B} (P Q : A -> B -> Prop) xs ys :
  (forall a b, P a b -> Q a b) -> Forall2 P xs ys -> Forall2 Q xs ys.
Proof. intros H. induction 1; constructor; auto. Qed.

Section WInv.

Variables (l t hb : N).
Hypothesis Ht0 : t <> 0.
Hypothesis Hl0 : l <> INVALID_ID.

(* a majority follower: follower of l in term t with check_quorum; heartbeat_timeout of
   the leader below its election timeout and its randomized timeout; election timer at
   most hb, and at most the leader's heartbeat counter [he] unless a heartbeat is on
   its way ([hq]) *)
Definition FInv (he : N) (hq : Prop) (F : raft) : Prop :=
  r_state F = Follower /\ r_term F = t /\ r_leader_id F = l /\ r_check_quorum F = true /\
  hb < r_election_timeout F /\ hb < r_randomized_election_timeout F /\
  Forall (QF l t) (r_msgs F) /\
  r_election_elapsed F <= hb /\ (hq \/ r_election_elapsed F <= he).

Lemma FInv_step he hq F m F' cc :
  FInv he hq F -> okF l t m -> step F m = Ok (F', cc) ->
  FInv he hq F' /\ r_id F' = r_id F /\ r_vote F' = r_vote F /\
  r_election_elapsed F' <= r_election_elapsed F /\
  (from_leader m = true -> m_term m = t -> r_election_elapsed F' = 0) /\
  incl (r_msgs F) (r_msgs F').
Proof.
  intros (I1 & I2 & I3 & I4 & I5 & I6 & I7 & I8 & I9) Hok H.
  apply (follower_step_FF l) in H; [|exact I1|exact I3|exact Hl0|congruence|rewrite I2; exact Hok].
  destruct H as (K & R & E & Z & (Q & N)).
  apply keeps_fields in K. destruct K as (K1 & K2 & K3 & K4 & K5).
  apply cfg_fields in K5. destruct K5 as (C1 & C2 & C3 & C4 & C5).
  assert (Ee : r_election_elapsed F' <= r_election_elapsed F) by (destruct E; lia).
  split.
  - unfold FInv. rewrite K1, K3, K4, C3, C4, R. repeat (split; [assumption|]).
    split; [rewrite I2 in Q; apply Q, I7|]. split; [lia|]. destruct I9; [left; assumption|right; lia].
  - repeat split; try assumption. intros A B. apply Z; [exact A|congruence].
Qed.

Lemma FInv_steps : forall ms he hq F F',
  FInv he hq F -> Forall (okF l t) ms -> steps F ms = Ok F' ->
  FInv he hq F' /\ r_id F' = r_id F /\ r_vote F' = r_vote F /\
  r_election_elapsed F' <= r_election_elapsed F /\
  ((exists m, In m ms /\ from_leader m = true /\ m_term m = t) -> r_election_elapsed F' = 0) /\
  incl (r_msgs F) (r_msgs F').
Proof.
  induction ms as [|m rest IH]; intros he hq F F' HI Hok H; cbn [steps] in H.
  - okinv H. split; [exact HI|]. repeat split; try lia; [|apply incl_refl]. intros (m & [] & _).
  - inversion Hok as [|? ? Hm Hrest]; subst. ib H y Hy. destruct y as [F1 c1]. cbn [fst] in H.
    destruct (FInv_step _ _ _ _ _ _ HI Hm Hy) as (J1 & A1 & B1 & C1 & D1 & N1).
    destruct (IH _ _ _ _ J1 Hrest H) as (J2 & A2 & B2 & C2 & D2 & N2).
    split; [exact J2|]. split; [congruence|]. split; [congruence|]. split; [lia|].
    split; [|eapply incl_tran; eassumption].
    intros (x & [<-|Hx] & Hf & Hterm); [|apply D2; exists x; auto].
    specialize (D1 Hf Hterm). lia.
Qed.

(* a heartbeat of the leader among the delivered messages leaves a reply in the queue *)
Lemma steps_heartbeat_reply : forall ms he hq F F',
  FInv he hq F -> Forall (okF l t) ms -> steps F ms = Ok F' ->
  (exists m, In m ms /\ m_type m = MsgHeartbeat /\ m_term m = t /\ m_from m = l) ->
  exists x, In x (r_msgs F') /\ m_to x = l /\ m_from x = r_id F /\ m_term x = t /\
            (m_type x = MsgHeartbeatResponse \/ m_type x = MsgAppendResponse).
Proof.
  induction ms as [|m rest IH]; intros he hq F F' HI Hok H (m0 & Hin & Hty & Hterm & Hfrom);
    [destruct Hin|].
  cbn [steps] in H. inversion Hok as [|? ? Hm Hrest]; subst. ib H y Hy. destruct y as [F1 c1].
  cbn [fst] in H.
  destruct (FInv_step _ _ _ _ _ _ HI Hm Hy) as (J1 & A1 & B1 & C1 & D1 & N1).
  destruct Hin as [<-|Hin].
  - pose proof HI as (I1 & I2 & _).
    apply follower_heartbeat_reply in Hy; [|exact I1|exact Hty|congruence].
    destruct Hy as (x & Ex & X1 & X2 & X3 & X4).
    destruct (FInv_steps _ _ _ _ _ J1 Hrest H) as (_ & _ & _ & _ & _ & N2).
    exists x. split; [apply N2; rewrite Ex; apply in_or_app; right; left; reflexivity|].
    repeat split; first [congruence|exact X4].
  - destruct (IH _ _ _ _ J1 Hrest H) as (x & X0 & X1 & X2 & X3 & X4);
      [exists m0; auto|].
    exists x. repeat split; try assumption. congruence.
Qed.

End WInv.

Section Round.

Variables (ids : list N) (l t hb et : N) (c : conf).
Hypothesis Ht0 : t <> 0.
Hypothesis Hl0 : l <> INVALID_ID.
Hypothesis Hlids : ~ In l ids.
Hypothesis Hhbet : hb < et.
Hypothesis Hquorum : Quorum.has_quorum (incoming c) (outgoing c) (l :: ids) = true.

Local Notation LInv_step' := (LInv_step ids l t hb et c Ht0 Hl0 Hhbet Hquorum).
Local Notation LInv_steps' := (LInv_steps ids l t hb et c Ht0 Hl0 Hhbet Hquorum).
Local Notation LInv_LF' := (LInv_LF ids l t hb et c Ht0 Hl0 Hhbet Hquorum).
Local Notation leader_tick_LInv' := (leader_tick_LInv ids l t hb et c Ht0 Hl0 Hlids Hhbet Hquorum).
Local Notation FInv_step' := (FInv_step l t hb Ht0 Hl0).
Local Notation FInv_steps' := (FInv_steps l t hb Ht0 Hl0).

(* what the nodes outside {l} + ids may send: anything that is not a local or a transfer
   message, does not claim a majority member as sender, and is either a pre-vote request
   (any term), or of a stale non-zero term, or of a term <= t and not a message only the
   leader of its term sends *)
Definition netmsg (ty : N) : Prop :=
  ty <> MsgHup /\ ty <> MsgBeat /\ ty <> MsgCheckQuorum /\ ty <> MsgUnreachable /\
  ty <> MsgSnapStatus /\ ty <> MsgTransferLeader /\ ty <> MsgTimeoutNow.

Definition adv_ok (m : msg) : Prop :=
  ~ In (m_from m) (l :: ids) /\ netmsg (m_type m) /\
  (m_type m = MsgRequestPreVote \/
   (m_term m <> 0 /\ m_term m < t) \/
   (m_term m <= t /\ from_leader m = false /\ m_type m <> MsgReadIndexResp)).

Lemma adv_okL m : adv_ok m -> okL ids t m.
Proof.
  intros (Hf & (N1 & N2 & N3 & N4 & N5 & N6 & N7) & Hc).
  split; [exact N3|]. split; [exact N6|]. split.
  - destruct Hc as [E|[[_ E]|[E _]]]; [right; exact E|left; lia|left; exact E].
  - intros _ C. apply Hf. right. exact C.
Qed.

Lemma adv_okF m : adv_ok m -> okF l t m.
Proof.
  intros (Hf & (N1 & N2 & N3 & N4 & N5 & N6 & N7) & Hc).
  split; [exact N1|]. split; [exact N7|]. split; [exact N6|]. split.
  - destruct Hc as [E|[[_ E]|[E _]]]; [right; exact E|left; lia|left; exact E].
  - split.
    + intros Hfl. destruct Hc as [E|[[E1 E2]|[_ [E _]]]].
      * unfold from_leader in Hfl. rewrite E in Hfl. discriminate.
      * split; [exact E1|intros X; lia].
      * congruence.
    + intros _ C. apply Hf. left. symmetry. exact C.
Qed.

(* the window invariant *)
Definition WInv (vs : list N) (L : raft) (Fs : list raft) : Prop :=
  LInv ids l t hb et c (hbq L) L /\ map r_id Fs = ids /\ map r_vote Fs = vs /\
  Forall (fun F => FInv l t hb (r_heartbeat_elapsed L) (hbq L (r_id F)) F) Fs.

(* delivery of one adversarial message to the node(s) with id [tgt] *)
Definition deliver (st : raft * list raft) (tm : N * msg) : Res (raft * list raft) :=
  if fst tm =? r_id (fst st) then x <- step (fst st) (snd tm) ;; Ok (fst x, snd st)
  else Fs' <- mapM (fun F => if r_id F =? fst tm then x <- step F (snd tm) ;; Ok (fst x)
                             else Ok F) (snd st) ;;
       Ok (fst st, Fs').

Fixpoint deliver_all (st : raft * list raft) (adv : list (N * msg)) : Res (raft * list raft) :=
  match adv with
  | [] => Ok st
  | tm :: rest => st' <- deliver st tm ;; deliver_all st' rest
  end.

(* one window round: the adversarial deliveries, then the lock-step round *)
Definition window_round (adv : list (N * msg)) (L : raft) (Fs : list raft)
  : Res (raft * list raft) :=
  st <- deliver_all (L, Fs) adv ;; star_round (fst st) (snd st).

Fixpoint window_rounds (advs : list (list (N * msg))) (L : raft) (Fs : list raft)
  : Res (raft * list raft) :=
  match advs with
  | [] => Ok (L, Fs)
  | adv :: rest => x <- window_round adv L Fs ;; window_rounds rest (fst x) (snd x)
  end.

Lemma Forall2_map_eq {A B C} (f : A -> C) (g : B -> C) xs ys :
  Forall2 (fun x y => g y = f x) xs ys -> map g ys = map f xs.
Proof. induction 1; cbn; congruence. Qed.

Lemma FInv_weaken he (hq hq' : Prop) F : (hq -> hq') -> FInv l t hb he hq F -> FInv l t hb he hq' F.
Proof.
  intros Himp (I1 & I2 & I3 & I4 & I5 & I6 & I7 & I8 & I9).
  repeat (split; [assumption|]). destruct I9; [left; auto|right; assumption].
Qed.

Lemma deliver_WInv vs L Fs tm L' Fs' :
  WInv vs L Fs -> adv_ok (snd tm) -> deliver (L, Fs) tm = Ok (L', Fs') -> WInv vs L' Fs'.
Proof.
  intros (HL & Hid & Hv & HF) Hadv H. unfold deliver in H. cbn [fst snd] in H.
  destruct (fst tm =? r_id L).
  - ib H y Hy. injection H as HL' HFs'. subst L' Fs'. destruct y as [L1 c1]. cbn [fst].
    destruct (LInv_step' (hbq L) _ _ _ _ HL (adv_okL _ Hadv) Hy) as (J & F1 & _).
    pose proof (LInv_LF' (hbq L) _ _ HL F1) as [_ Hhe].
    split; [eapply LInv_weaken; [|exact J]; intros id _; apply (LF_hbq ids); exact F1|]. split; [exact Hid|]. split; [exact Hv|].
    rewrite Hhe. eapply Forall_impl; [|exact HF]. intros F. apply FInv_weaken.
    apply (LF_hbq ids). exact F1.
  - ib H Fs1 H1. injection H as HL' HFs'. subst L' Fs'. apply mapM_Forall2 in H1.
    assert (G : Forall2 (fun F F1 => r_id F1 = r_id F /\ r_vote F1 = r_vote F /\
                FInv l t hb (r_heartbeat_elapsed L) (hbq L (r_id F1)) F1) Fs Fs1).
    { clear Hid Hv. induction H1 as [|F F1 Fs0 Fs1 Hx Hrest IH]; [constructor|].
      inversion HF as [|? ? HF0 HFr]; subst. constructor; [|apply IH, HFr].
      destruct (r_id F =? fst tm).
      - ib Hx y Hy. okinv Hx. destruct y as [Fa ca]. cbn [fst].
        destruct (FInv_step' _ _ _ _ _ _ HF0 (adv_okF _ Hadv) Hy) as (J & A & B & _).
        split; [exact A|]. split; [exact B|]. rewrite A. exact J.
      - okinv Hx. auto. }
    split; [exact HL|]. split.
    { rewrite <- Hid. apply Forall2_map_eq. eapply Forall2_imp; [|exact G]. intros a b (A & _). exact A. }
    split.
    { rewrite <- Hv. apply Forall2_map_eq. eapply Forall2_imp; [|exact G]. intros a b (_ & A & _). exact A. }
    clear -G. induction G as [|a b ? ? (_ & _ & A)]; constructor; assumption.
Qed.

Lemma deliver_all_WInv vs : forall adv L Fs L' Fs',
  WInv vs L Fs -> Forall (fun tm => adv_ok (snd tm)) adv ->
  deliver_all (L, Fs) adv = Ok (L', Fs') -> WInv vs L' Fs'.
Proof.
  induction adv as [|tm rest IH]; intros L Fs L' Fs' HI Hadv H; cbn [deliver_all] in H.
  - okinv H. exact HI.
  - inversion Hadv as [|? ? Ha Hr]; subst. ib H st Hst. destruct st as [L1 Fs1].
    eapply IH; [|exact Hr|exact H]. eapply deliver_WInv; eassumption.
Qed.


(* ------------------------------------------------------------------ *)
(* the lock-step round *)

Lemma Forall2_In_l {A B} (P : A -> B -> Prop) xs ys x :
  Forall2 P xs ys -> In x xs -> exists y, In y ys /\ P x y.
Proof.
  induction 1 as [|a b xs' ys' Hab Hrest IH]; intros Hin; [destruct Hin|].
  destruct Hin as [<-|Hin]; [exists b; split; [left; reflexivity|exact Hab]|].
  destruct (IH Hin) as (y & Hy & Py). exists y. split; [right; exact Hy|exact Py].
Qed.

Lemma Forall2_cons_inv {A B} (P : A -> B -> Prop) a xs ys :
  Forall2 P (a :: xs) ys -> exists b ys', ys = b :: ys' /\ P a b /\ Forall2 P xs ys'.
Proof. intros H. inversion H; subst. eauto. Qed.

Lemma Forall2_nil_inv {A B} (P : A -> B -> Prop) ys : Forall2 P [] ys -> ys = [].
Proof. intros H. inversion H. reflexivity. Qed.

Lemma to_peer_In id ms x : In x (to_peer id ms) <-> In x ms /\ m_to x = id.
Proof. unfold to_peer. rewrite filter_In, N.eqb_eq. reflexivity. Qed.

(* what the leader has queued for a majority follower is fit for it *)
Lemma QL_okF L id x :
  Forall (QL ids l t) (r_msgs L) -> In id ids -> In x (to_peer id (r_msgs L)) ->
  okF l t x /\ m_from x = l /\ m_term x = t.
Proof.
  intros HQ Hid Hx. apply to_peer_In in Hx. destruct Hx as [Hx Hto].
  rewrite Forall_forall in HQ. specialize (HQ x Hx). unfold QL in HQ. rewrite Hto in HQ.
  destruct (HQ Hid) as (Hf & Hterm & Hty). split; [|split; assumption].
  assert (Hnv : m_type x <> MsgHup /\ m_type x <> MsgTimeoutNow /\ m_type x <> MsgTransferLeader /\
                m_type x <> MsgRequestVote /\ m_type x <> MsgRequestPreVote).
  { destruct Hty as [E|[E|[E|[E|E]]]]; rewrite E; repeat split; discriminate. }
  destruct Hnv as (N1 & N2 & N3 & N4 & N5).
  split; [exact N1|]. split; [exact N2|]. split; [exact N3|]. split; [left; lia|].
  split; [intros _; split; [congruence|intros _; exact Hf]|].
  intros [C|C]; contradiction.
Qed.

(* what a majority follower has queued for the leader is fit for it *)
Lemma QF_okL F1 x :
  Forall (QF l t) (r_msgs F1) -> In x (replies l F1) -> okL ids t x.
Proof.
  intros HQ Hx. unfold replies in Hx. apply to_peer_In in Hx. destruct Hx as [Hx Hto].
  rewrite Forall_forall in HQ. destruct (HQ x Hx Hto) as (Hterm & N1 & N2 & N3 & N4).
  split; [exact N1|]. split; [exact N2|]. split; [left; exact Hterm|].
  intros [C|C]; contradiction.
Qed.

(* step 1 of the round, one follower *)
Lemma follower_exchange L F F1 :
  Forall (QL ids l t) (r_msgs L) -> In (r_id F) ids ->
  FInv l t hb (r_heartbeat_elapsed L) (hbq L (r_id F)) F ->
  steps F (to_peer (r_id F) (r_msgs L)) = Ok F1 ->
  r_id F1 = r_id F /\ r_vote F1 = r_vote F /\
  FInv l t hb (r_heartbeat_elapsed L) (hbq L (r_id F)) F1 /\
  (hbq L (r_id F) ->
   r_election_elapsed F1 = 0 /\
   exists x, In x (replies l F1) /\ m_from x = r_id F /\ m_term x = t /\
             (m_type x = MsgHeartbeatResponse \/ m_type x = MsgAppendResponse)).
Proof.
  intros HQ Hid HF H.
  assert (Hok : Forall (okF l t) (to_peer (r_id F) (r_msgs L))).
  { apply Forall_forall. intros x Hx. eapply QL_okF; eassumption. }
  destruct (FInv_steps' _ _ _ _ _ HF Hok H) as (J & A & B & C0 & D & N0).
  split; [exact A|]. split; [exact B|]. split; [exact J|].
  intros (x & Hx & Hto & Hty).
  assert (Hxp : In x (to_peer (r_id F) (r_msgs L))) by (apply to_peer_In; auto).
  destruct (QL_okF _ _ _ HQ Hid Hxp) as (_ & Hfrom & Hterm).
  split.
  - apply D. exists x. split; [exact Hxp|]. split; [|exact Hterm].
    unfold from_leader. rewrite Hty. reflexivity.
  - destruct (steps_heartbeat_reply l t hb Ht0 Hl0 _ _ _ _ _ HF Hok H) as (y & Y0 & Y1 & Y2 & Y3 & Y4);
      [exists x; auto|].
    exists y. split; [unfold replies; apply to_peer_In; auto|auto].
Qed.

Lemma LInv_all (pend : N -> Prop) L :
  LInv ids l t hb et c pend L -> (forall id, In id ids -> pend id -> act L id) ->
  LInv ids l t hb et c (fun _ => False) L.
Proof.
  intros (I1 & I2 & I3 & I4 & I5 & I6 & I7 & I8 & I9 & I10 & I11 & I12 & I13 & I14) Hp.
  repeat (split; [assumption|]). destruct I14 as [A|A]; [left|right; exact A].
  intros id Hid. destruct (A id Hid) as [B|B]; [left; exact B|left; apply Hp; assumption].
Qed.

Lemma LInv_empty_queue (pend : N -> Prop) L :
  LInv ids l t hb et c pend L -> LInv ids l t hb et c pend (L <| r_msgs := [] |>).
Proof.
  intros (I1 & I2 & I3 & I4 & I5 & I6 & I7 & I8 & I9 & I10 & I11 & I12 & I13 & I14).
  unfold LInv. cbn. repeat (split; [assumption|]). split; [constructor|exact I14].
Qed.

Theorem star_round_WInv vs L Fs L' Fs' :
  WInv vs L Fs -> star_round L Fs = Ok (L', Fs') -> WInv vs L' Fs'.
Proof.
  intros (HL & Hid & Hv & HF) H. unfold star_round in H.
  ib H Fs1 H1. ib H L1 HL1. ib H L2 HL2. ib H Fs2 H2. injection H as HL' HFs'. subst L' Fs'.
  pose proof HL as (I1 & I2 & I3 & I4 & I5 & I6 & I7 & I8 & I9 & I10 & I11 & I12 & I13 & I14).
  (* step 1 *)
  apply mapM_Forall2 in H1.
  assert (Hin : forall F, In F Fs -> In (r_id F) ids)
    by (intros F HFin; rewrite <- Hid; apply in_map; exact HFin).
  assert (G1 : Forall2 (fun F F1 =>
     r_id F1 = r_id F /\ r_vote F1 = r_vote F /\
     FInv l t hb (r_heartbeat_elapsed L) (hbq L (r_id F)) F1 /\
     (hbq L (r_id F) ->
      r_election_elapsed F1 = 0 /\
      exists x, In x (replies l F1) /\ m_from x = r_id F /\ m_term x = t /\
                (m_type x = MsgHeartbeatResponse \/ m_type x = MsgAppendResponse))) Fs Fs1).
  { clear Hid Hv H2 HL HL1 HL2. revert HF Hin.
    induction H1 as [|F F1 Fs0 Fs10 Hx Hrest IH]; intros HF Hin; [constructor|].
    apply Forall_cons_iff in HF. destruct HF as [HF0 HFr]. constructor.
    - eapply follower_exchange; [exact I13|apply Hin; left; reflexivity|exact HF0|exact Hx].
    - apply IH; [exact HFr|]. intros F' HF'. apply Hin. right. exact HF'. }
  (* step 2 *)
  rewrite I3 in HL1.
  assert (Hok2 : Forall (okL ids t) (concat (map (replies l) Fs1))).
  { apply Forall_forall. intros x Hx. apply in_concat in Hx. destruct Hx as (ys & Hys & Hx).
    apply in_map_iff in Hys. destruct Hys as (F1 & <- & HF1).
    eapply QF_okL; [|exact Hx].
    clear -G1 HF1. induction G1 as [|a b ? ? (_ & _ & A & _)]; [destruct HF1|].
    destruct HF1 as [<-|HF1]; [apply A|apply IHG1, HF1]. }
  destruct (LInv_steps' (hbq L) _ _ _ (LInv_empty_queue _ _ HL) Hok2 HL1) as (J1 & LF1 & Act1).
  assert (He1 : r_heartbeat_elapsed L1 = r_heartbeat_elapsed L).
  { destruct LF1 as (_ & (_ & E & _) & _). exact E. }
  assert (J1' : LInv ids l t hb et c (fun _ => False) L1).
  { eapply LInv_all; [exact J1|]. intros id Hidin Hq.
    rewrite <- Hid in Hidin. apply in_map_iff in Hidin. destruct Hidin as (F & <- & HFin).
    destruct (Forall2_In_l _ _ _ _ G1 HFin) as (F1 & HF1 & (_ & _ & _ & R)).
    destruct (R Hq) as (_ & x & Hx & X1 & X2 & X3).
    rewrite <- X1. apply Act1; [|exact X3|exact X2|rewrite X1; apply Hin, HFin].
    apply in_concat. exists (replies l F1). split; [apply in_map; exact HF1|exact Hx]. }
  (* step 3 *)
  destruct L2 as [L2 b2]. cbn [fst] in *.
  destruct (leader_tick_LInv' _ _ _ J1' HL2) as (J2 & Hbeat).
  (* step 4 *)
  apply mapM_Forall2 in H2.
  assert (G2 : Forall2 (fun F F2 =>
     r_id F2 = r_id F /\ r_vote F2 = r_vote F /\
     FInv l t hb (r_heartbeat_elapsed L2) (hbq L2 (r_id F2)) F2) Fs Fs2).
  { clear Hid Hv Hok2 Act1 HL1 H1. revert Fs2 H2 HF Hin.
    induction G1 as [|F F1 Fs0 Fs10 (A1 & B1 & C1 & D1) Hrest IH]; intros Fs2 H2 HF Hin.
    - apply Forall2_nil_inv in H2. rewrite H2. constructor.
    - apply Forall2_cons_inv in H2. destruct H2 as (F2 & Fs20 & -> & Hx & Hr).
      apply Forall_cons_iff in HF. destruct HF as [HF0 HFr].
      constructor; [|apply IH; [exact Hr|exact HFr|intros F' HF'; apply Hin; right; exact HF']].
      destruct C1 as (S1 & S2 & S3 & S4 & S5 & S6 & S7 & S8 & S9).
      assert (Hle : r_election_elapsed F1 <= r_heartbeat_elapsed L).
      { destruct S9 as [Hq|Hle]; [|exact Hle]. destruct (D1 Hq) as [Z _]. lia. }
      rewrite tick_waits in Hx; [|cbn; congruence|cbn; lia].
      cbn [bind fst] in Hx. injection Hx as <-.
      split; [exact A1|]. split; [exact B1|].
      unfold FInv. cbn. repeat (split; [assumption|]). split; [constructor|].
      destruct Hbeat as [(E1 & E2 & _)|(E1 & E2)].
      + split; [lia|]. right. lia.
      + split; [lia|]. left. rewrite A1. apply E2. apply Hin. left. reflexivity. }
  split; [exact J2|].
  split; [rewrite <- Hid; apply Forall2_map_eq; eapply Forall2_imp; [|exact G2]; intros a b (A & _); exact A|].
  split; [rewrite <- Hv; apply Forall2_map_eq; eapply Forall2_imp; [|exact G2]; intros a b (_ & A & _); exact A|].
  clear -G2. induction G2 as [|a b ? ? (_ & _ & A)]; constructor; assumption.
Qed.

Theorem window_round_WInv vs adv L Fs L' Fs' :
  WInv vs L Fs -> Forall (fun tm => adv_ok (snd tm)) adv ->
  window_round adv L Fs = Ok (L', Fs') -> WInv vs L' Fs'.
Proof.
  intros HI Hadv H. unfold window_round in H. ib H st Hst. destruct st as [La Fsa]. cbn [fst snd] in H.
  eapply star_round_WInv; [|exact H]. eapply deliver_all_WInv; eassumption.
Qed.

Theorem window_rounds_WInv vs : forall advs L Fs L' Fs',
  WInv vs L Fs -> Forall (Forall (fun tm => adv_ok (snd tm))) advs ->
  window_rounds advs L Fs = Ok (L', Fs') -> WInv vs L' Fs'.
Proof.
  induction advs as [|adv rest IH]; intros L Fs L' Fs' HI Hadv H; cbn [window_rounds] in H.
  - injection H as <- <-. exact HI.
  - apply Forall_cons_iff in Hadv. destruct Hadv as [Ha Hr]. ib H x Hx. destruct x as [L1 Fs1].
    cbn [fst snd] in H. eapply IH; [|exact Hr|exact H]. eapply window_round_WInv; eassumption.
Qed.

End Round.

(* ------------------------------------------------------------------ *)
(* the window theorem, stated on the fields of the model *)

(* the start of a window: a leader L and followers Fs of its term that together are a
   quorum of L's configuration, check_quorum on everywhere, queues empty, L has heard from
   every member of Fs since its last check (or the next heartbeat comes early enough),
   and L's heartbeat_timeout is below its own election_timeout and below the election
   timeout and the randomized timeout of every member of Fs *)
Definition window_start (L : raft) (Fs : list raft) : Prop :=
  r_term L <> 0 /\ r_id L <> INVALID_ID /\ ~ In (r_id L) (map r_id Fs) /\
  r_heartbeat_timeout L < r_election_timeout L /\
  Quorum.has_quorum (incoming (t_conf (r_prs L))) (outgoing (t_conf (r_prs L)))
                    (r_id L :: map r_id Fs) = true /\
  r_state L = Leader /\ r_leader_id L = r_id L /\ r_check_quorum L = true /\
  r_lead_transferee L = None /\
  r_heartbeat_elapsed L < r_heartbeat_timeout L /\ r_election_elapsed L < r_election_timeout L /\
  (forall id, In id (r_id L :: map r_id Fs) -> get_pr L id <> None) /\
  r_msgs L = [] /\
  ((forall id, In id (map r_id Fs) -> act L id) \/
   r_heartbeat_timeout L + r_election_elapsed L < r_election_timeout L + r_heartbeat_elapsed L) /\
  Forall (fun F =>
    r_state F = Follower /\ r_term F = r_term L /\ r_leader_id F = r_id L /\
    r_check_quorum F = true /\
    r_heartbeat_timeout L < r_election_timeout F /\
    r_heartbeat_timeout L < r_randomized_election_timeout F /\
    r_msgs F = [] /\ r_election_elapsed F <= r_heartbeat_elapsed L) Fs.

(* an adversarial schedule: one list of (target id, message) per round *)
Definition adv_schedule (L : raft) (Fs : list raft) (advs : list (list (N * msg))) : Prop :=
  Forall (Forall (fun tm => adv_ok (map r_id Fs) (r_id L) (r_term L) (snd tm))) advs.

Lemma maps_Forall2 {A B C} (f : A -> B) (g : A -> C) : forall xs ys,
  map f ys = map f xs -> map g ys = map g xs ->
  Forall2 (fun x y => f y = f x /\ g y = g x) xs ys.
Proof.
  induction xs as [|x xs IH]; intros [|y ys] H1 H2; cbn in *; try discriminate; constructor.
  - split; congruence.
  - apply IH; congruence.
Qed.

Lemma window_start_WInv L Fs :
  window_start L Fs ->
  WInv (map r_id Fs) (r_id L) (r_term L) (r_heartbeat_timeout L) (r_election_timeout L)
       (t_conf (r_prs L)) (map r_vote Fs) L Fs.
Proof.
  intros (S1 & S2 & S3 & S4 & S5 & S6 & S7 & S8 & S9 & S10 & S11 & S12 & S13 & S14 & S15).
  split; [|split; [reflexivity|split; [reflexivity|]]].
  - unfold LInv. repeat (split; [first [assumption|reflexivity]|]).
    split; [rewrite S13; constructor|].
    destruct S14 as [A|A]; [left; intros id Hid; left; apply A, Hid|right; exact A].
  - eapply Forall_impl; [|exact S15]. intros F (F1 & F2 & F3 & F4 & F5 & F6 & F7 & F8).
    unfold FInv. repeat (split; [assumption|]). split; [rewrite F7; constructor|].
    split; [lia|right; exact F8].
Qed.

(* THE WINDOW THEOREM.  For any number of rounds and any adversarial schedule, if no
   panic occurs: L is still the leader of its term, and every member of Fs is still a
   follower of that term with leader L, the same id and the same vote, inside its lease *)
Theorem window_rounds_safe L Fs advs L' Fs' :
  window_start L Fs -> adv_schedule L Fs advs ->
  window_rounds advs L Fs = Ok (L', Fs') ->
  r_state L' = Leader /\ r_term L' = r_term L /\ r_leader_id L' = r_id L /\ r_id L' = r_id L /\
  Forall2 (fun F F' =>
    r_id F' = r_id F /\ r_vote F' = r_vote F /\ r_state F' = Follower /\
    r_term F' = r_term L /\ r_leader_id F' = r_id L /\ r_check_quorum F' = true /\
    r_election_elapsed F' < r_election_timeout F') Fs Fs'.
Proof.
  intros Hs Hadv H. pose proof Hs as (S1 & S2 & S3 & S4 & S5 & _).
  pose proof (window_rounds_WInv (map r_id Fs) (r_id L) (r_term L) (r_heartbeat_timeout L)
                (r_election_timeout L) (t_conf (r_prs L)) S1 S2 S3 S4 S5 (map r_vote Fs)
                advs L Fs L' Fs' (window_start_WInv _ _ Hs) Hadv H) as (HL & Hid & Hv & HF).
  destruct HL as (I1 & I2 & I3 & I4 & _).
  repeat (split; [assumption|]).
  pose proof (maps_Forall2 r_id r_vote Fs Fs' Hid Hv) as G.
  clear -G HF. induction G as [|F F' Fs0 Fs0' (A & B) Hrest IH]; constructor.
  - apply Forall_cons_iff in HF. destruct HF as [(F1 & F2 & F3 & F4 & F5 & F6 & F7 & F8 & F9) _].
    repeat (split; [assumption|]). lia.
  - apply IH. apply Forall_cons_iff in HF. apply HF.
Qed.

(* one round, for reference: the invariant itself *)
Definition window_inv (L0 : raft) (Fs0 : list raft) (L : raft) (Fs : list raft) : Prop :=
  WInv (map r_id Fs0) (r_id L0) (r_term L0) (r_heartbeat_timeout L0) (r_election_timeout L0)
       (t_conf (r_prs L0)) (map r_vote Fs0) L Fs.

Theorem window_round_inv L0 Fs0 adv L Fs L' Fs' :
  window_start L0 Fs0 -> window_inv L0 Fs0 L Fs ->
  Forall (fun tm => adv_ok (map r_id Fs0) (r_id L0) (r_term L0) (snd tm)) adv ->
  window_round adv L Fs = Ok (L', Fs') -> window_inv L0 Fs0 L' Fs'.
Proof.
  intros (S1 & S2 & S3 & S4 & S5 & _) HI Hadv H.
  eapply window_round_WInv; eassumption.
Qed.

(* ------------------------------------------------------------------ *)
(* why the adversary cannot do better: inside the window no member of the majority ever
   answers a (pre-)vote request of a higher term, so the outsiders never gather the
   quorum of grants that C16_step_term_cases / C16_quiet_run_term show to be the only way
   to a term above t for a node that runs pre-vote *)

Lemma follower_denies l t hb he (hq : Prop) F m :
  l <> INVALID_ID -> FInv l t hb he hq F ->
  (m_type m = MsgRequestVote \/ m_type m = MsgRequestPreVote) -> t < m_term m ->
  list_eqb (m_context m) CAMPAIGN_TRANSFER = false ->
  step F m = Ok (F, E_OK).
Proof.
  intros Hl (I1 & I2 & I3 & I4 & I5 & I6 & I7 & I8 & I9) Hty Hterm Hctx.
  apply lease_ignores_vote_requests; try assumption; try congruence; lia.
Qed.

Lemma leader_denies ids l t hb et c (pend : N -> Prop) L m :
  l <> INVALID_ID -> LInv ids l t hb et c pend L ->
  (m_type m = MsgRequestVote \/ m_type m = MsgRequestPreVote) -> t < m_term m ->
  list_eqb (m_context m) CAMPAIGN_TRANSFER = false ->
  step L m = Ok (L, E_OK).
Proof.
  intros Hl (I1 & I2 & I3 & I4 & I5 & I6 & I7 & I8 & I9 & I10 & _) Hty Hterm Hctx.
  apply lease_ignores_vote_requests; try assumption; try congruence; lia.
Qed.

(* ------------------------------------------------------------------ *)
(* Part 7: example.  Three voters 1 2 3 (the samples of M/RaftProofsC16.v: election
   timeout 10, heartbeat timeout 2, randomized timeout 15).  Leader 1 and follower 2 are
   the majority; node 3 is outside and sends, every round, a pre-vote request of term 3
   to the leader, one of term 7 to the follower, a stale vote request of term 1 to the
   leader and a vote request of the current term 2 to the follower. *)

Definition xw_F2 : raft := xs_node 2 2 1 Follower 1 (xs_log 3 3) (xs_prs false false).

Definition xw_adv : list (N * msg) :=
  [(1, xs_prevote_req 3 1 3 3 1 3 1);
   (2, xs_prevote_req 3 2 7 3 1 3 1);
   (1, msg_default <| m_type := MsgRequestVote |> <| m_from := 3 |> <| m_to := 1 |> <| m_term := 1 |>);
   (2, msg_default <| m_type := MsgRequestVote |> <| m_from := 3 |> <| m_to := 2 |> <| m_term := 2 |>
                   <| m_index := 3 |> <| m_log_term := 1 |>)].

Lemma xw_start : window_start xs_leader [xw_F2].
Proof.
  unfold window_start. cbn [map].
  split; [discriminate|]. split; [discriminate|]. split; [intros [H|[]]; discriminate|].
  split; [vm_compute; reflexivity|]. split; [vm_compute; reflexivity|].
  split; [reflexivity|]. split; [reflexivity|]. split; [reflexivity|]. split; [reflexivity|].
  split; [vm_compute; reflexivity|]. split; [vm_compute; reflexivity|].
  split; [intros id [<-|[<-|[]]]; vm_compute; discriminate|].
  split; [reflexivity|].
  split; [left; intros id [<-|[]]; eexists; split; vm_compute; reflexivity|].
  constructor; [|constructor].
  repeat split; try reflexivity; vm_compute; try reflexivity; discriminate.
Qed.

Lemma xw_adv_ok : Forall (fun tm => adv_ok [2] 1 2 (snd tm)) xw_adv.
Proof.
  assert (Hn : ~ In 3 [1; 2]) by (intros [H|[H|[]]]; discriminate).
  assert (Hnet : forall ty, ty = MsgRequestVote \/ ty = MsgRequestPreVote -> netmsg ty)
    by (intros ty [->| ->]; repeat split; discriminate).
  unfold xw_adv. constructor; [|constructor; [|constructor; [|constructor; [|constructor]]]]; cbn [snd].
  - split; [exact Hn|]. split; [apply Hnet; right; reflexivity|left; reflexivity].
  - split; [exact Hn|]. split; [apply Hnet; right; reflexivity|left; reflexivity].
  - split; [exact Hn|]. split; [apply Hnet; left; reflexivity|].
    right. left. split; [discriminate|vm_compute; reflexivity].
  - split; [exact Hn|]. split; [apply Hnet; left; reflexivity|].
    right. right. split; [vm_compute; discriminate|]. split; [reflexivity|discriminate].
Qed.

Lemma xw_schedule n : adv_schedule xs_leader [xw_F2] (repeat xw_adv n).
Proof.
  unfold adv_schedule. apply Forall_forall. intros adv Hadv. apply repeat_spec in Hadv. subst adv.
  exact xw_adv_ok.
Qed.

(* thirty rounds = three election timeouts of the leader: the run does not panic; the
   leader passed three check-quorum boundaries *)
Lemma xw_run : exists L' F',
  window_rounds (repeat xw_adv 30) xs_leader [xw_F2] = Ok (L', [F']) /\
  r_state L' = Leader /\ r_term L' = 2 /\ r_election_elapsed L' = 0 /\
  r_state F' = Follower /\ r_term F' = 2 /\ r_vote F' = 1 /\ r_leader_id F' = 1.
Proof. vm_compute. do 2 eexists. repeat split; reflexivity. Qed.

(* ------------------------------------------------------------------ *)
(* the definitions used in the pinned statements, unfolded *)

Lemma def_act L id : act L id <-> exists p, get_pr L id = Some p /\ recent_active p = true.
Proof. reflexivity. Qed.

Lemma def_netmsg ty :
  netmsg ty <->
  ty <> MsgHup /\ ty <> MsgBeat /\ ty <> MsgCheckQuorum /\ ty <> MsgUnreachable /\
  ty <> MsgSnapStatus /\ ty <> MsgTransferLeader /\ ty <> MsgTimeoutNow.
Proof. reflexivity. Qed.

Lemma def_adv_ok ids l t m :
  adv_ok ids l t m <->
  ~ In (m_from m) (l :: ids) /\ netmsg (m_type m) /\
  (m_type m = MsgRequestPreVote \/
   (m_term m <> 0 /\ m_term m < t) \/
   (m_term m <= t /\ from_leader m = false /\ m_type m <> MsgReadIndexResp)).
Proof. reflexivity. Qed.

Lemma def_from_leader m :
  from_leader m = (m_type m =? MsgAppend) || (m_type m =? MsgHeartbeat) || (m_type m =? MsgSnapshot).
Proof. reflexivity. Qed.

Lemma def_deliver st tm :
  deliver st tm =
  if fst tm =? r_id (fst st) then x <- step (fst st) (snd tm) ;; Ok (fst x, snd st)
  else Fs' <- mapM (fun F => if r_id F =? fst tm then x <- step F (snd tm) ;; Ok (fst x)
                             else Ok F) (snd st) ;;
       Ok (fst st, Fs').
Proof. reflexivity. Qed.

Lemma def_deliver_all st adv :
  deliver_all st adv = match adv with
                       | [] => Ok st
                       | tm :: rest => st' <- deliver st tm ;; deliver_all st' rest
                       end.
Proof. destruct adv; reflexivity. Qed.

Lemma def_window_round adv L Fs :
  window_round adv L Fs = (st <- deliver_all (L, Fs) adv ;; star_round (fst st) (snd st)).
Proof. reflexivity. Qed.

Lemma def_window_rounds advs L Fs :
  window_rounds advs L Fs =
  match advs with
  | [] => Ok (L, Fs)
  | adv :: rest => x <- window_round adv L Fs ;; window_rounds rest (fst x) (snd x)
  end.
Proof. destruct advs; reflexivity. Qed.

Lemma def_adv_schedule L Fs advs :
  adv_schedule L Fs advs <->
  Forall (Forall (fun tm => adv_ok (map r_id Fs) (r_id L) (r_term L) (snd tm))) advs.
Proof. reflexivity. Qed.

Lemma def_window_start L Fs :
  window_start L Fs <->
  r_term L <> 0 /\ r_id L <> INVALID_ID /\ ~ In (r_id L) (map r_id Fs) /\
  r_heartbeat_timeout L < r_election_timeout L /\
  Quorum.has_quorum (incoming (t_conf (r_prs L))) (outgoing (t_conf (r_prs L)))
                    (r_id L :: map r_id Fs) = true /\
  r_state L = Leader /\ r_leader_id L = r_id L /\ r_check_quorum L = true /\
  r_lead_transferee L = None /\
  r_heartbeat_elapsed L < r_heartbeat_timeout L /\ r_election_elapsed L < r_election_timeout L /\
  (forall id, In id (r_id L :: map r_id Fs) -> get_pr L id <> None) /\
  r_msgs L = [] /\
  ((forall id, In id (map r_id Fs) -> act L id) \/
   r_heartbeat_timeout L + r_election_elapsed L < r_election_timeout L + r_heartbeat_elapsed L) /\
  Forall (fun F =>
    r_state F = Follower /\ r_term F = r_term L /\ r_leader_id F = r_id L /\
    r_check_quorum F = true /\
    r_heartbeat_timeout L < r_election_timeout F /\
    r_heartbeat_timeout L < r_randomized_election_timeout F /\
    r_msgs F = [] /\ r_election_elapsed F <= r_heartbeat_elapsed L) Fs.
Proof. reflexivity. Qed.

(* the two per-node facts behind the adversary condition, on the window's own terms *)
Theorem window_members_deny L0 Fs0 L Fs m :
  window_start L0 Fs0 -> window_inv L0 Fs0 L Fs ->
  (m_type m = MsgRequestVote \/ m_type m = MsgRequestPreVote) -> r_term L0 < m_term m ->
  list_eqb (m_context m) CAMPAIGN_TRANSFER = false ->
  step L m = Ok (L, E_OK) /\ Forall (fun F => step F m = Ok (F, E_OK)) Fs.
Proof.
  intros (S1 & S2 & _) (HL & _ & _ & HF) Hty Hterm Hctx. split.
  - exact (leader_denies _ (r_id L0) (r_term L0) _ _ _ _ L m S2 HL Hty Hterm Hctx).
  - eapply Forall_impl; [|exact HF]. intros F HFi.
    exact (follower_denies (r_id L0) (r_term L0) _ _ _ F m S2 HFi Hty Hterm Hctx).
Qed.

Lemma def_star_round L Fs :
  star_round L Fs =
  (Fs1 <- mapM (fun F => steps F (to_peer (r_id F) (r_msgs L))) Fs ;;
   L1 <- steps (L <| r_msgs := [] |>) (concat (map (replies (r_id L)) Fs1)) ;;
   L2 <- tick L1 ;;
   Fs2 <- mapM (fun F1 => x <- tick (F1 <| r_msgs := [] |>) ;; Ok (fst x)) Fs1 ;;
   Ok (fst L2, Fs2)).
Proof. reflexivity. Qed.
