(* Node-level lifting of the RaftLog representation invariant of property C14
   (M/RaftLogProofs.v [RepInv rw l]) to M/Raft.v and M/RawNode.v.

   [LI rw r]   := RepInv rw (r_log r)      (rw = the restart-window flag of C14)
   [LogOK r]   := exists rw, LI rw r       (equivalently LI true r)
   [NLI rw n]  := LI rw (rn_raft n),  [NLogOK n] likewise.

   Part A  RaftLog operations in "Ok-form": op l args = Ok l' -> RepInv rw l -> RepInv rw l'
           (the component lemmas of RaftLogProofsOps/Store are existence statements
           under preconditions; here whatever follows from the Ok result is derived).
   Part B  every function of M/Raft.v: frame (r_log unchanged) or preservation of LI,
           with the explicit preconditions [room] (u64 head-room for appended
           indexes) and [msg_wf] (shape of an inbound MsgAppend / MsgSnapshot).
   Part C  every RawNode entry point; the two places where the application's
           storage must already hold what a Ready carried ([commit_pre], [persist_pre]).
   Part D  the application's storage writes ([OSetStore] of C07's alphabet).
   Part E  traces from rn_new; applied <= committed <= last_index at every point;
           C07 / C13 corollaries without a RepInv hypothesis at the hand-out points.
   Statements are pinned in Props/C14.v (section "node level"), Props/C07.v, Props/C13.v. *)
From RV Require Import Base.Prelude Base.IdSet M.Util M.UtilProofs M.Proto M.MemStorage
  M.MemStorageProofs M.Inflights M.Progress M.RaftLog M.Quorum M.ConfChange M.Msg M.Raft
  M.RawNode M.RaftProofs M.RaftLogProofs M.RaftLogProofsOps M.RaftLogProofsStore
  M.RaftLogProofsSlice M.RaftLogProofsHistory
  M.RaftProofsC15 M.RaftProofsC09 M.RaftProofsC08 M.RaftProofsC13 M.RaftProofsC07.
From RecordUpdate Require Import RecordSet.
Import RecordSetNotations.

Local Open Scope N_scope.

Ltac splits := repeat match goal with |- _ /\ _ => split end.

Notation RepInv := RaftLogProofs.RepInv.
Notation abs := RaftLogProofs.abs.

(* ================================================================== *)
(* Part A. RaftLog operations, Ok-form                                  *)
(* ================================================================== *)

(* the parts of the log that determine the logical log *)
Definition same_su (l l' : raft_log) : Prop := store l' = store l /\ unst l' = unst l.

Lemma same_su_refl l : same_su l l.
Proof. split; reflexivity. Qed.

Lemma same_su_trans a b c : same_su a b -> same_su b c -> same_su a c.
Proof. unfold same_su. intuition congruence. Qed.

Lemma same_su_abs l l' : same_su l l' -> abs l' = abs l.
Proof. intros [A B]. apply abs_ext; assumption. Qed.

Lemma same_su_last l l' : same_su l l' -> last_index l' = last_index l.
Proof. intros [A B]. unfold last_index. rewrite A, B. reflexivity. Qed.

(* the window flag is only the conjunct applied <= committed *)
Lemma RepInv_false_iff l : RepInv false l <-> RepInv true l /\ applied l <= committed l.
Proof.
  split.
  - intros H. split; [apply (RepInv_open_window false); exact H|exact (ri_applied false l H eq_refl)].
  - intros [H Ha]. apply RepInv_close_window; assumption.
Qed.

Lemma RepInv_any rw l : RepInv false l -> RepInv rw l.
Proof. intros H. destruct H. constructor; auto. Qed.

Lemma RepInv_true rw l : RepInv rw l -> RepInv true l.
Proof. apply RepInv_open_window. Qed.

Lemma RepInv_set_limit rw l k : RepInv rw l -> RepInv rw (set_limit l k).
Proof.
  intros H. destruct H as [Hs Hq Hct Hsh Hp Hcm Hap Hb].
  assert (Habs : abs (set_limit l k) = abs l) by (apply abs_ext; reflexivity).
  constructor; rewrite ?Habs; cbn [set_limit store unst committed persisted applied]; auto.
Qed.

Lemma RepInv_last_bound rw l : RepInv rw l -> last_index l < u64_max.
Proof. intros H. rewrite (abs_last rw l H). exact (ri_bound rw l H). Qed.

Lemma RepInv_committed_le_last rw l : RepInv rw l -> committed l <= last_index l.
Proof. intros H. rewrite (abs_last rw l H). exact (ri_commit rw l H). Qed.

Lemma RepInv_persisted_le_last rw l : RepInv rw l -> persisted l <= last_index l.
Proof.
  intros H. rewrite (abs_last rw l H). pose proof (ll_last_upper rw l H).
  destruct (ri_persisted rw l H). lia.
Qed.

(* ---- commit_to ---- *)
Lemma commit_to_pres rw l tc l' :
  commit_to l tc = Ok l' -> RepInv rw l -> RepInv rw l' /\ same_su l l'.
Proof.
  intros H HI. unfold commit_to in H. destruct (tc <=? committed l) eqn:E.
  - inversion H; subst. split; [exact HI|apply same_su_refl].
  - destruct (last_index l <? tc) eqn:E2; [discriminate|]. inversion H; subst. clear H.
    rewrite (abs_last rw l HI) in E2. split; [|split; reflexivity].
    apply RepInv_set_committed; auto; [lia|lia|].
    intros Hrw. pose proof (ri_applied rw l HI Hrw). lia.
Qed.

(* ---- maybe_commit ---- *)
Lemma log_maybe_commit_pres rw l i t l' b :
  RaftLog.maybe_commit l i t = Ok (l', b) -> RepInv rw l -> RepInv rw l' /\ same_su l l'.
Proof.
  unfold RaftLog.maybe_commit. intros H HI.
  destruct (committed l <? i); [|inversion H; subst; split; [exact HI|apply same_su_refl]].
  inv_bind H. destruct (term_ok_eq x t); [|inversion H; subst; split; [exact HI|apply same_su_refl]].
  inv_bind H. inversion H; subst. eapply commit_to_pres; eassumption.
Qed.

(* ---- applied_to ---- *)
Lemma applied_to_pres rw l i l' :
  applied_to l i = Ok l' -> RepInv rw l -> RepInv rw l' /\ same_su l l'.
Proof.
  unfold applied_to. intros H HI. destruct (i =? 0).
  - inversion H; subst. split; [exact HI|apply same_su_refl].
  - destruct ((committed l <? i) || (i <? applied l)) eqn:E; [discriminate|]. inversion H; subst.
    split; [|split; reflexivity]. apply RepInv_set_applied; [exact HI|]. intros _. lia.
Qed.

(* ---- append ---- *)
Lemma log_append_pres rw l e0 t l' li :
  log_append l (e0 :: t) = Ok (l', li) -> RepInv rw l ->
  contiguous_from (e_index e0) (e0 :: t) -> persisted l < e_index e0 ->
  e_index e0 + N.of_nat (length (e0 :: t)) <= u64_max ->
  RepInv rw l' /\ store l' = store l /\ committed l' = committed l /\ applied l' = applied l
  /\ li = e_index e0 + N.of_nat (length (e0 :: t)) - 1 /\ last_index l' = li.
Proof.
  intros H HI Hc Hp Hb.
  assert (Hcm : committed l < e_index e0).
  { destruct (N.lt_ge_cases (committed l) (e_index e0)) as [Hlt|Hge]; [exact Hlt|]. exfalso.
    destruct (N.eq_dec (e_index e0) 0) as [Hz|Hz].
    - unfold log_append in H. rewrite Hz in H. cbn in H. discriminate.
    - assert (Hf : log_append l (e0 :: t) = Panic site_l_append_range) by (apply log_append_fatal_iff; lia).
      rewrite Hf in H. discriminate. }
  assert (Hs : e_index e0 <= ll_last (abs l) + 1).
  { destruct (N.le_gt_cases (e_index e0) (ll_last (abs l) + 1)) as [Hle|Hgt]; [exact Hle|]. exfalso.
    rewrite (log_append_gap_panics rw l e0 t HI Hcm Hgt) in H. discriminate. }
  destruct (log_append_ok rw l e0 t HI Hc Hcm Hs Hp Hb) as (l2 & Ha2 & Hr & Habs & Hc2 & _ & Hap & Hst).
  rewrite H in Ha2. inversion Ha2; subst l2. clear Ha2. splits; auto.
  rewrite (abs_last rw l' Hr), Habs. unfold ll_append, ll_last. cbn [ll_base ll_ents].
  rewrite app_length, firstn_length.
  assert (Hbs : ll_base (abs l) < e_index e0).
  { pose proof (base_le_committed rw l HI). lia. }
  unfold ll_last in Hs. cbn [length]. cbn [length] in Hb. lia.
Qed.

(* ---- maybe_append ---- *)
Lemma maybe_append_pres rw l i t cmt ents l' res :
  maybe_append l i t cmt ents = Ok (l', res) -> RepInv rw l ->
  contiguous_from (i + 1) ents -> nz_terms ents ->
  (i <= last_index l \/ t <> 0) -> i + N.of_nat (length ents) < u64_max ->
  RepInv rw l' /\ store l' = store l /\ applied l' = applied l.
Proof.
  intros H HI Hc Hnz Hit Hb. rewrite (abs_last rw l HI) in Hit.
  destruct (ll_match (abs l) i t) eqn:Em.
  - remember (ll_find_conflict (abs l) ents) as ci eqn:Eci.
    assert (Hci : ci = 0 \/ committed l < ci).
    { destruct (N.eq_dec ci 0) as [Hz|Hz]; [left; exact Hz|]. right.
      destruct (N.lt_ge_cases (committed l) ci) as [Hlt|Hge]; [exact Hlt|]. exfalso.
      rewrite (maybe_append_fatal rw l i t cmt ents HI Em) in H; [discriminate|]. subst ci. lia. }
    destruct (maybe_append_ok rw l i t cmt ents HI Hc Hnz Hit Hb Em ltac:(rewrite <- Eci; exact Hci))
      as (l2 & Hm2 & Hr & _ & _ & _ & Hap & Hst).
    rewrite H in Hm2. inversion Hm2; subst l2. auto.
  - rewrite (maybe_append_reject rw l i t cmt ents HI Em) in H. inversion H; subst. auto.
Qed.

(* ---- restore ---- *)
Lemma log_restore_pres rw l s l' :
  log_restore l s = Ok l' -> RepInv rw l -> s_index s < u64_max ->
  RepInv rw l' /\ store l' = store l /\ applied l' = applied l.
Proof.
  intros H HI Hb.
  assert (Hc : committed l <= s_index s).
  { destruct (N.le_gt_cases (committed l) (s_index s)) as [Hle|Hgt]; [exact Hle|]. exfalso.
    rewrite (proj2 (log_restore_panics_iff l s) Hgt) in H. discriminate. }
  destruct (log_restore_ok rw l s HI Hc Hb) as (l2 & Hr2 & Hr & _ & _ & _ & Hap & Hst).
  rewrite H in Hr2. inversion Hr2; subst l2. auto.
Qed.

(* ---- persistence notices ---- *)
Lemma maybe_persist_pres rw l i t l' b :
  maybe_persist l i t = Ok (l', b) -> RepInv rw l -> RepInv rw l' /\ same_su l l'.
Proof.
  intros H HI. destruct (maybe_persist_ok rw l i t HI) as (l2 & b2 & Hm & Hr & _).
  rewrite H in Hm. inversion Hm; subst l2 b2. split; [exact Hr|].
  unfold maybe_persist in H.
  match type of H with (if ?c then _ else _) = _ => destruct c end;
    [|inversion H; subst; apply same_su_refl].
  inv_bind H. destruct (term_ok_eq x t); inversion H; subst; [split; reflexivity|apply same_su_refl].
Qed.

Lemma maybe_persist_snap_pres rw l i l' b :
  maybe_persist_snap l i = Ok (l', b) -> RepInv rw l ->
  (persisted l < i -> i < next_of (store l)) ->
  RepInv rw l' /\ same_su l l'.
Proof.
  intros H HI Hn. destruct (maybe_persist_snap_cases l i) as (Hc1 & Hc2 & Hc3).
  destruct (N.le_gt_cases i (persisted l)) as [Hle|Hgt].
  - rewrite (Hc1 Hle) in H. inversion H; subst. split; [exact HI|apply same_su_refl].
  - destruct (N.le_gt_cases i (committed l)) as [Hle2|Hgt2];
      [|rewrite (Hc2 Hgt Hgt2) in H; discriminate].
    destruct (N.le_gt_cases (u_offset (unst l)) i) as [Hle3|Hgt3];
      [rewrite (Hc3 Hgt Hle2 Hle3) in H; discriminate|].
    destruct (maybe_persist_snap_ok rw l i HI Hgt Hle2 Hgt3 (Hn Hgt)) as (Hm & Hr & _).
    rewrite H in Hm. inversion Hm; subst. split; [exact Hr|split; reflexivity].
Qed.

(* ---- stabilisation: the storage must already hold what is stabilised ---- *)

(* the pending snapshot has been applied to the storage *)
Definition snap_written (l : raft_log) : Prop :=
  match u_snapshot (unst l) with
  | Some s => snap_index (store l) = s_index s /\ snap_term (store l) = s_term s
              /\ first_of (store l) = s_index s + 1
              /\ (u_entries (unst l) = [] -> entries (store l) = [])
  | None => True
  end.

(* the unstable entries have been appended to the storage *)
Definition ents_written (l : raft_log) : Prop :=
  skipn (N.to_nat (u_offset (unst l) - first_of (store l))) (entries (store l)) = u_entries (unst l).

Lemma stable_snap_pres rw l i l' :
  stable_snap l i = Ok l' -> RepInv rw l -> snap_written l ->
  RepInv rw l' /\ abs l' = abs l /\ store l' = store l
  /\ u_snapshot (unst l') = None /\ u_entries (unst l') = u_entries (unst l)
  /\ u_offset (unst l') = u_offset (unst l)
  /\ committed l' = committed l /\ persisted l' = persisted l /\ applied l' = applied l.
Proof.
  intros H HI Hw. destruct (stable_snap_panics l i) as [Hp1 Hp2].
  destruct (u_snapshot (unst l)) as [s|] eqn:Es; [|rewrite (Hp1 eq_refl) in H; discriminate].
  destruct (N.eq_dec (s_index s) i) as [<-|Hne]; [|rewrite (Hp2 s eq_refl Hne) in H; discriminate].
  unfold snap_written in Hw. rewrite Es in Hw. destruct Hw as (W1 & W2 & W3 & W4).
  destruct (stable_snap_ok rw l s HI Es W1 W2 W3 W4)
    as (l2 & Hs2 & Hr & Habs & A & B & C0 & D & E & F & G).
  rewrite H in Hs2. inversion Hs2; subst l2. splits; assumption.
Qed.

Lemma stable_entries_pres rw l i t l' :
  stable_entries l i t = Ok l' -> RepInv rw l -> ents_written l ->
  RepInv rw l' /\ abs l' = abs l /\ store l' = store l
  /\ committed l' = committed l /\ persisted l' = persisted l /\ applied l' = applied l.
Proof.
  intros H HI Hw. destruct (stable_entries_panics l i t) as (Hp1 & Hp2 & Hp3).
  destruct (u_snapshot (unst l)) as [s|] eqn:Es; [rewrite Hp1 in H; [discriminate|discriminate]|].
  destruct (u_entries (unst l)) as [|x xs] eqn:Eu; [rewrite (Hp2 eq_refl eq_refl) in H; discriminate|].
  assert (Hne : u_entries (unst l) <> []) by (rewrite Eu; discriminate).
  destruct (stable_entries_ok rw l HI Es Hne Hw) as (_ & l2 & Hs2 & Hr & Habs & _ & _ & _ & D & E & F & G).
  cbv zeta in Hs2.
  set (e := List.last (u_entries (unst l)) (mkEntry 0 0 0 [] [])) in *.
  destruct (N.eq_dec (e_index e) i) as [Ei|Ei].
  2:{ specialize (Hp3 eq_refl ltac:(discriminate)). cbv zeta in Hp3. rewrite <- Eu in Hp3. fold e in Hp3.
      rewrite (Hp3 (or_introl Ei)) in H. discriminate. }
  destruct (N.eq_dec (e_term e) t) as [Et|Et].
  2:{ specialize (Hp3 eq_refl ltac:(discriminate)). cbv zeta in Hp3. rewrite <- Eu in Hp3. fold e in Hp3.
      rewrite (Hp3 (or_intror Et)) in H. discriminate. }
  rewrite Ei, Et in Hs2. rewrite H in Hs2. inversion Hs2; subst l2. splits; assumption.
Qed.

(* applied_to_unchecked (Raft::new only): the restart window opens *)
Lemma applied_to_unchecked_pres rw l i : RepInv rw l -> RepInv true (applied_to_unchecked l i).
Proof. apply applied_to_unchecked_window. Qed.
