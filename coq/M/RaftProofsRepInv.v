(* Node-level lifting of the RaftLog representation invariant of property C14
   (M/RaftLogProofs.v [RepInv rw l]) to M/Raft.v and M/RawNode.v.

   [LI rw r]   := RepInv rw (r_log r)      (rw = the restart-window flag of C14)
   [LogOK r]   := exists rw, LI rw r       (equivalently LI true r)
   [NLI rw n]  := LI rw (rn_raft n),  [NLogOK n] likewise.

   Part A  RaftLog operations in "Ok-form": op l args = Ok l' -> RepInv rw l -> RepInv rw l'
           (the component lemmas of RaftLogProofsOps/Store are existence statements
           under preconditions; here whatever follows from the Ok result is derived).
   Part B  every function of M/Raft.v: frame (r_log unchanged) or preservation of LI,
           with the explicit preconditions [room] (u64 head-room for appended
           indexes) and [msg_wf] (shape of an inbound MsgAppend / MsgSnapshot).
   Part C  every RawNode entry point; the two places where the application's
           storage must already hold what a Ready carried ([commit_pre], [persist_pre]).
   Part D  the application's storage writes ([OSetStore] of C07's alphabet).
   Part E  traces from rn_new; applied <= committed <= last_index at every point;
           C07 / C13 corollaries without a RepInv hypothesis at the hand-out points.
   Samples non-vacuity (two traces, the restart window) and witnesses that each
           precondition is needed.
   Part F  the outbound queue: every MsgAppend is a contiguous batch (C13, node level).
   Part G  commit_since_index < u64::MAX is an invariant (C07, node level).
   Statements are pinned in Props/C14.v (section "node level"), Props/C07.v, Props/C13.v. *)
From RV Require Import Base.Prelude Base.IdSet M.Util M.UtilProofs M.Proto M.MemStorage
  M.MemStorageProofs M.Inflights M.Progress M.RaftLog M.Quorum M.ConfChange M.Msg M.Raft
  M.RawNode M.RaftProofs M.RaftLogProofs M.RaftLogProofsOps M.RaftLogProofsStore
  M.RaftLogProofsSlice M.RaftLogProofsHistory
  M.RaftProofsC15 M.RaftProofsC09 M.RaftProofsC08 M.RaftProofsC13 M.RaftProofsC07.
From RecordUpdate Require Import RecordSet.
Import RecordSetNotations.

Local Open Scope N_scope.

Ltac splits := repeat match goal with |- _ /\ _ => split end.

Notation RepInv := RaftLogProofs.RepInv.
Notation abs := RaftLogProofs.abs.

(* ================================================================== *)
(* Part A. RaftLog operations, Ok-form                                  *)
(* ================================================================== *)

(* the parts of the log that determine the logical log *)
Definition same_su (l l' : raft_log) : Prop :=
  store l' = store l /\ unst l' = unst l /\ applied l' = applied l.

Lemma same_su_refl l : same_su l l.
Proof. repeat split; reflexivity. Qed.

Lemma same_su_trans a b c : same_su a b -> same_su b c -> same_su a c.
Proof. unfold same_su. intuition congruence. Qed.

Lemma same_su_abs l l' : same_su l l' -> abs l' = abs l.
Proof. intros (A & B & _). apply abs_ext; assumption. Qed.

Lemma same_su_last l l' : same_su l l' -> last_index l' = last_index l.
Proof. intros (A & B & _). unfold last_index. rewrite A, B. reflexivity. Qed.

(* the window flag is only the conjunct applied <= committed *)
Lemma RepInv_false_iff l : RepInv false l <-> RepInv true l /\ applied l <= committed l.
Proof.
  split.
  - intros H. split; [apply (RepInv_open_window false); exact H|exact (ri_applied false l H eq_refl)].
  - intros [H Ha]. apply RepInv_close_window; assumption.
Qed.

Lemma RepInv_any rw l : RepInv false l -> RepInv rw l.
Proof. intros H. destruct H. constructor; auto. Qed.

Lemma RepInv_true rw l : RepInv rw l -> RepInv true l.
Proof. apply RepInv_open_window. Qed.

Lemma RepInv_set_limit rw l k : RepInv rw l -> RepInv rw (set_limit l k).
Proof.
  intros H. destruct H as [Hs Hq Hct Hsh Hp Hcm Hap Hb].
  assert (Habs : abs (set_limit l k) = abs l) by (apply abs_ext; reflexivity).
  constructor; rewrite ?Habs; cbn [set_limit store unst committed persisted applied]; auto.
Qed.

Lemma RepInv_last_bound rw l : RepInv rw l -> last_index l < u64_max.
Proof. intros H. rewrite (abs_last rw l H). exact (ri_bound rw l H). Qed.

Lemma RepInv_committed_le_last rw l : RepInv rw l -> committed l <= last_index l.
Proof. intros H. rewrite (abs_last rw l H). exact (ri_commit rw l H). Qed.

Lemma RepInv_persisted_le_last rw l : RepInv rw l -> persisted l <= last_index l.
Proof.
  intros H. rewrite (abs_last rw l H). pose proof (ll_last_upper rw l H).
  destruct (ri_persisted rw l H). lia.
Qed.

(* ---- commit_to ---- *)
Lemma commit_to_pres rw l tc l' :
  commit_to l tc = Ok l' -> RepInv rw l -> RepInv rw l' /\ same_su l l'.
Proof.
  intros H HI. unfold commit_to in H. destruct (tc <=? committed l) eqn:E.
  - inversion H; subst. split; [exact HI|apply same_su_refl].
  - destruct (last_index l <? tc) eqn:E2; [discriminate|]. inversion H; subst. clear H.
    rewrite (abs_last rw l HI) in E2. split; [|repeat split].
    apply RepInv_set_committed; auto; [lia|lia|].
    intros Hrw. pose proof (ri_applied rw l HI Hrw). lia.
Qed.

(* ---- maybe_commit ---- *)
Lemma log_maybe_commit_pres rw l i t l' b :
  RaftLog.maybe_commit l i t = Ok (l', b) -> RepInv rw l -> RepInv rw l' /\ same_su l l'.
Proof.
  unfold RaftLog.maybe_commit. intros H HI.
  destruct (committed l <? i); [|inversion H; subst; split; [exact HI|apply same_su_refl]].
  inv_bind H. destruct (term_ok_eq x t); [|inversion H; subst; split; [exact HI|apply same_su_refl]].
  inv_bind H. inversion H; subst. eapply commit_to_pres; eassumption.
Qed.

(* ---- applied_to ---- *)
Lemma applied_to_pres rw l i l' :
  applied_to l i = Ok l' -> RepInv rw l ->
  RepInv rw l' /\ store l' = store l /\ unst l' = unst l /\ committed l' = committed l.
Proof.
  unfold applied_to. intros H HI. destruct (i =? 0).
  - inversion H; subst. auto.
  - destruct ((committed l <? i) || (i <? applied l)) eqn:E; [discriminate|]. inversion H; subst.
    split; [|repeat split]. apply RepInv_set_applied; [exact HI|]. intros _. lia.
Qed.

(* ---- append ---- *)
Lemma log_append_pres rw l e0 t l' li :
  log_append l (e0 :: t) = Ok (l', li) -> RepInv rw l ->
  contiguous_from (e_index e0) (e0 :: t) -> persisted l < e_index e0 ->
  e_index e0 + N.of_nat (length (e0 :: t)) <= u64_max ->
  RepInv rw l' /\ store l' = store l /\ committed l' = committed l /\ applied l' = applied l
  /\ li = e_index e0 + N.of_nat (length (e0 :: t)) - 1 /\ last_index l' = li.
Proof.
  intros H HI Hc Hp Hb.
  assert (Hcm : committed l < e_index e0).
  { destruct (N.lt_ge_cases (committed l) (e_index e0)) as [Hlt|Hge]; [exact Hlt|]. exfalso.
    destruct (N.eq_dec (e_index e0) 0) as [Hz|Hz].
    - unfold log_append in H. rewrite Hz in H. cbn in H. discriminate.
    - assert (Hf : log_append l (e0 :: t) = Panic site_l_append_range) by (apply log_append_fatal_iff; lia).
      rewrite Hf in H. discriminate. }
  assert (Hs : e_index e0 <= ll_last (abs l) + 1).
  { destruct (N.le_gt_cases (e_index e0) (ll_last (abs l) + 1)) as [Hle|Hgt]; [exact Hle|]. exfalso.
    rewrite (log_append_gap_panics rw l e0 t HI Hcm Hgt) in H. discriminate. }
  destruct (log_append_ok rw l e0 t HI Hc Hcm Hs Hp Hb) as (l2 & Ha2 & Hr & Habs & Hc2 & _ & Hap & Hst).
  rewrite H in Ha2. inversion Ha2; subst l2. clear Ha2. splits; auto.
  rewrite (abs_last rw l' Hr), Habs. unfold ll_append, ll_last. cbn [ll_base ll_ents].
  rewrite app_length, firstn_length.
  assert (Hbs : ll_base (abs l) < e_index e0).
  { pose proof (base_le_committed rw l HI). lia. }
  unfold ll_last in Hs. cbn [length]. cbn [length] in Hb. lia.
Qed.

(* ---- maybe_append ---- *)
(* shape of the conflict search over a contiguous batch (no assumption on the terms) *)
Lemma find_conflict_shape L ents : forall j,
  contiguous_from j ents -> 0 < j ->
  let ci := ll_find_conflict L ents in
  ci = 0 \/ (ci <> 0 /\ j <= ci /\ ci < j + N.of_nat (length ents)
             /\ exists e r, skipn (N.to_nat (ci - j)) ents = e :: r /\ e_index e = ci).
Proof.
  induction ents as [|e rest IH]; intros j Hc Hj; cbn [ll_find_conflict].
  - left. reflexivity.
  - destruct Hc as [He Hc]. destruct (ll_match L (e_index e) (e_term e)).
    + destruct (IH (j + 1) Hc ltac:(lia)) as [H0|(Hn0 & H1 & H2 & e' & r & Hsk & Hi)].
      * left. exact H0.
      * right. cbn [length]. split; [exact Hn0|]. split; [lia|]. split; [lia|].
        exists e', r. split; [|exact Hi].
        replace (N.to_nat (ll_find_conflict L rest - j))
          with (S (N.to_nat (ll_find_conflict L rest - (j + 1)))) by lia.
        cbn [skipn]. exact Hsk.
    + right. cbn [length]. split; [lia|]. split; [lia|]. split; [lia|].
      exists e, rest. split; [|reflexivity].
      replace (N.to_nat (e_index e - j)) with O by lia. reflexivity.
Qed.

(* [maybe_append_ok] asks that the entries carry non-zero terms and that the anchor index
   is inside the log or its term is not 0; in Ok-form neither is needed: an out-of-range
   index "matches" term 0 (term() answers 0 there), but then either nothing is appended
   or the append leaves a gap and panics *)
Lemma maybe_append_pres rw l i t cmt ents l' res :
  maybe_append l i t cmt ents = Ok (l', res) -> RepInv rw l ->
  contiguous_from (i + 1) ents -> i + N.of_nat (length ents) < u64_max ->
  RepInv rw l' /\ store l' = store l /\ applied l' = applied l.
Proof.
  intros H HI Hc Hb. unfold maybe_append in H. rewrite (match_term_abs rw l i t HI) in H.
  destruct (ll_match (abs l) i t); cbn [bind negb] in H; [|inversion H; subst; auto].
  rewrite (find_conflict_abs rw l ents HI) in H. cbn [bind] in H.
  destruct (find_conflict_shape (abs l) ents (i + 1) Hc ltac:(lia))
    as [H0|(Hn0 & H1 & H2 & e & r & Hsk & Hi)].
  - rewrite H0 in H. change (0 =? 0) with true in H. cbn [bind] in H.
    destruct (u64_max <? _); [discriminate|]. inv_bind H. inversion H; subst.
    destruct (commit_to_pres rw _ _ _ Hx HI) as (A & B1 & _ & B3). auto.
  - set (ci := ll_find_conflict (abs l) ents) in *.
    destruct (ci =? 0) eqn:E0; [lia|].
    destruct (ci <=? committed l) eqn:E1; [discriminate|].
    destruct (i =? u64_max) eqn:E2; [discriminate|].
    destruct (ci <? i + 1) eqn:E3; [discriminate|].
    destruct (N.of_nat (length ents) <? ci - (i + 1)) eqn:E4; [discriminate|]. cbv zeta in H.
    rewrite Hsk in H.
    assert (Hce : contiguous_from (e_index e) (e :: r)).
    { rewrite <- Hsk, Hi.
      replace ci with (i + 1 + N.of_nat (N.to_nat (ci - (i + 1)))) at 1 by lia.
      apply contig_skipn. exact Hc. }
    assert (Hlen : length (e :: r) = (length ents - N.to_nat (ci - (i + 1)))%nat).
    { rewrite <- Hsk. apply skipn_length. }
    pose proof (ll_last_upper rw l HI) as Hup.
    (* a gap after the last index panics *)
    assert (Hgap : e_index e <= ll_last (abs l) + 1).
    { destruct (N.le_gt_cases (e_index e) (ll_last (abs l) + 1)) as [Hle|Hgt]; [exact Hle|]. exfalso.
      rewrite (log_append_gap_panics rw l e r HI) in H by lia. discriminate. }
    destruct (trunc_append_ok (unst l) e r ltac:(lia)) as (u' & Hu & Hsn & Hcase).
    set (p := N.min (persisted l) (ci - 1)).
    destruct (append_unstable_abs rw l e r u' p HI Hce ltac:(lia) Hgap ltac:(lia) ltac:(lia)
                ltac:(lia) Hsn Hcase) as [_ Hr].
    unfold log_append in H. destruct (e_index e =? 0) eqn:E5; [lia|].
    destruct (e_index e - 1 <? committed l) eqn:E6; [lia|].
    rewrite Hu in H. cbn [bind fst] in H.
    assert (Hl1 : (if ci - 1 <? persisted (set_unst l u') then set_persisted (set_unst l u') (ci - 1)
                   else set_unst l u') = set_persisted (set_unst l u') p).
    { cbn [set_unst persisted]. subst p.
      destruct (ci - 1 <? persisted l) eqn:E7.
      - rewrite N.min_r by lia. reflexivity.
      - rewrite N.min_l by lia. reflexivity. }
    rewrite Hl1 in H.
    destruct (u64_max <? _); [discriminate|]. inv_bind H. inversion H; subst.
    destruct (commit_to_pres rw _ _ _ Hx Hr) as (A & B1 & _ & B3).
    split; [exact A|]. split; [rewrite B1; reflexivity|rewrite B3; reflexivity].
Qed.

(* ---- restore ---- *)
Lemma log_restore_pres rw l s l' :
  log_restore l s = Ok l' -> RepInv rw l -> s_index s < u64_max ->
  RepInv rw l' /\ store l' = store l /\ applied l' = applied l.
Proof.
  intros H HI Hb.
  assert (Hc : committed l <= s_index s).
  { destruct (N.le_gt_cases (committed l) (s_index s)) as [Hle|Hgt]; [exact Hle|]. exfalso.
    rewrite (proj2 (log_restore_panics_iff l s) Hgt) in H. discriminate. }
  destruct (log_restore_ok rw l s HI Hc Hb) as (l2 & Hr2 & Hr & _ & _ & _ & Hap & Hst).
  rewrite H in Hr2. inversion Hr2; subst l2. auto.
Qed.

(* ---- persistence notices ---- *)
Lemma maybe_persist_pres rw l i t l' b :
  maybe_persist l i t = Ok (l', b) -> RepInv rw l -> RepInv rw l' /\ same_su l l'.
Proof.
  intros H HI. destruct (maybe_persist_ok rw l i t HI) as (l2 & b2 & Hm & Hr & _).
  rewrite H in Hm. inversion Hm; subst l2 b2. split; [exact Hr|].
  unfold maybe_persist in H.
  match type of H with (if ?c then _ else _) = _ => destruct c end;
    [|inversion H; subst; apply same_su_refl].
  inv_bind H. destruct (term_ok_eq x t); inversion H; subst; [repeat split|apply same_su_refl].
Qed.

Lemma maybe_persist_snap_pres rw l i l' b :
  maybe_persist_snap l i = Ok (l', b) -> RepInv rw l ->
  (persisted l < i -> i < next_of (store l)) ->
  RepInv rw l' /\ same_su l l'.
Proof.
  intros H HI Hn. destruct (maybe_persist_snap_cases l i) as (Hc1 & Hc2 & Hc3).
  destruct (N.le_gt_cases i (persisted l)) as [Hle|Hgt].
  - rewrite (Hc1 Hle) in H. inversion H; subst. split; [exact HI|apply same_su_refl].
  - destruct (N.le_gt_cases i (committed l)) as [Hle2|Hgt2];
      [|rewrite (Hc2 Hgt Hgt2) in H; discriminate].
    destruct (N.le_gt_cases (u_offset (unst l)) i) as [Hle3|Hgt3];
      [rewrite (Hc3 Hgt Hle2 Hle3) in H; discriminate|].
    destruct (maybe_persist_snap_ok rw l i HI Hgt Hle2 Hgt3 (Hn Hgt)) as (Hm & Hr & _).
    rewrite H in Hm. inversion Hm; subst. split; [exact Hr|repeat split].
Qed.

(* ---- stabilisation: the storage must already hold what is stabilised ---- *)

(* the pending snapshot has been applied to the storage *)
Definition snap_written (l : raft_log) : Prop :=
  match u_snapshot (unst l) with
  | Some s => snap_index (store l) = s_index s /\ snap_term (store l) = s_term s
              /\ first_of (store l) = s_index s + 1
              /\ (u_entries (unst l) = [] -> entries (store l) = [])
  | None => True
  end.

(* the unstable entries have been appended to the storage *)
Definition ents_written (l : raft_log) : Prop :=
  skipn (N.to_nat (u_offset (unst l) - first_of (store l))) (entries (store l)) = u_entries (unst l).

Lemma stable_snap_pres rw l i l' :
  stable_snap l i = Ok l' -> RepInv rw l -> snap_written l ->
  RepInv rw l' /\ abs l' = abs l /\ store l' = store l
  /\ u_snapshot (unst l') = None /\ u_entries (unst l') = u_entries (unst l)
  /\ u_offset (unst l') = u_offset (unst l)
  /\ committed l' = committed l /\ persisted l' = persisted l /\ applied l' = applied l.
Proof.
  intros H HI Hw. destruct (stable_snap_panics l i) as [Hp1 Hp2].
  destruct (u_snapshot (unst l)) as [s|] eqn:Es; [|rewrite (Hp1 eq_refl) in H; discriminate].
  destruct (N.eq_dec (s_index s) i) as [<-|Hne]; [|rewrite (Hp2 s eq_refl Hne) in H; discriminate].
  unfold snap_written in Hw. rewrite Es in Hw. destruct Hw as (W1 & W2 & W3 & W4).
  destruct (stable_snap_ok rw l s HI Es W1 W2 W3 W4)
    as (l2 & Hs2 & Hr & Habs & A & B & C0 & D & E & F & G).
  rewrite H in Hs2. inversion Hs2; subst l2. splits; assumption.
Qed.

Lemma stable_entries_pres rw l i t l' :
  stable_entries l i t = Ok l' -> RepInv rw l -> ents_written l ->
  RepInv rw l' /\ abs l' = abs l /\ store l' = store l
  /\ committed l' = committed l /\ persisted l' = persisted l /\ applied l' = applied l.
Proof.
  intros H HI Hw. destruct (stable_entries_panics l i t) as (Hp1 & Hp2 & Hp3).
  destruct (u_snapshot (unst l)) as [s|] eqn:Es; [rewrite Hp1 in H; [discriminate|discriminate]|].
  destruct (u_entries (unst l)) as [|x xs] eqn:Eu; [rewrite (Hp2 eq_refl eq_refl) in H; discriminate|].
  assert (Hne : u_entries (unst l) <> []) by (rewrite Eu; discriminate).
  destruct (stable_entries_ok rw l HI Es Hne Hw) as (_ & l2 & Hs2 & Hr & Habs & _ & _ & _ & D & E & F & G).
  cbv zeta in Hs2.
  set (e := List.last (u_entries (unst l)) (mkEntry 0 0 0 [] [])) in *.
  destruct (N.eq_dec (e_index e) i) as [Ei|Ei].
  2:{ specialize (Hp3 eq_refl ltac:(discriminate)). cbv zeta in Hp3. rewrite <- Eu in Hp3. fold e in Hp3.
      rewrite (Hp3 (or_introl Ei)) in H. discriminate. }
  destruct (N.eq_dec (e_term e) t) as [Et|Et].
  2:{ specialize (Hp3 eq_refl ltac:(discriminate)). cbv zeta in Hp3. rewrite <- Eu in Hp3. fold e in Hp3.
      rewrite (Hp3 (or_intror Et)) in H. discriminate. }
  rewrite Ei, Et in Hs2. rewrite H in Hs2. inversion Hs2; subst l2. splits; assumption.
Qed.

(* applied_to_unchecked (Raft::new only): the restart window opens *)
Lemma applied_to_unchecked_pres rw l i : RepInv rw l -> RepInv true (applied_to_unchecked l i).
Proof. apply applied_to_unchecked_window. Qed.

(* ================================================================== *)
(* Part B. M/Raft.v                                                     *)
(* ================================================================== *)
Transparent log_append last_index stamp.

Definition LI (rw : bool) (r : raft) : Prop := RepInv rw (r_log r).
Definition LogOK (r : raft) : Prop := exists rw, LI rw r.

(* head-room: the next k indexes after the last one are proper u64 values
   (the model, like the Rust, does not check [last_index + 1] for overflow when it
   numbers new entries; C14's RepInv carries last_index < u64::MAX) *)
Definition room (k : N) (r : raft) : Prop := last_index (r_log r) + k < u64_max.

Lemma LogOK_iff r : LogOK r <-> LI true r.
Proof. split; [intros [rw H]; exact (RepInv_true rw _ H)|intros H; exists true; exact H]. Qed.

Lemma LI_same rw r r' : r_log r' = r_log r -> LI rw r -> LI rw r'.
Proof. unfold LI. intros ->. exact (fun H => H). Qed.

Lemma room_same k r r' : last_index (r_log r') = last_index (r_log r) -> room k r -> room k r'.
Proof. unfold room. intros ->. exact (fun H => H). Qed.

Lemma room_mono k k' r : k' <= k -> room k r -> room k' r.
Proof. unfold room. lia. Qed.

Lemma room0 rw r : LI rw r -> room 0 r.
Proof. intros H. unfold room. pose proof (RepInv_last_bound rw _ H). lia. Qed.

(* ---------------- frames: r_log untouched ---------------- *)
Lemma lf_log r r' : lf r r' -> r_log r' = r_log r.
Proof. intros H. exact (proj1 H). Qed.

Lemma send_log r m r' : send r m = Ok r' -> r_log r' = r_log r.
Proof. intros H. destruct (send_exact _ _ _ H) as (m' & -> & _). reflexivity. Qed.

Lemma maybe_send_append_log r to pr ae r' pr' b :
  maybe_send_append r to pr ae = Ok (r', pr', b) -> r_log r' = r_log r.
Proof. intros H. apply lf_log. eapply maybe_send_append_lf; exact H. Qed.

Lemma send_append_to_log r to r' : send_append_to r to = Ok r' -> r_log r' = r_log r.
Proof. intros H. apply lf_log. eapply send_append_to_lf; exact H. Qed.

Lemma send_append_aggressively_log r to r' : send_append_aggressively r to = Ok r' -> r_log r' = r_log r.
Proof. intros H. apply lf_log. eapply send_append_aggressively_lf; exact H. Qed.

Lemma bcast_append_log r r' : bcast_append r = Ok r' -> r_log r' = r_log r.
Proof. intros H. apply lf_log. eapply bcast_append_lf; exact H. Qed.

Lemma bcast_heartbeat_with_ctx_log r ctx r' : bcast_heartbeat_with_ctx r ctx = Ok r' -> r_log r' = r_log r.
Proof. intros H. apply lf_log. eapply bcast_heartbeat_with_ctx_lf; exact H. Qed.

Lemma bcast_heartbeat_log r r' : bcast_heartbeat r = Ok r' -> r_log r' = r_log r.
Proof. unfold bcast_heartbeat. apply bcast_heartbeat_with_ctx_log. Qed.

Lemma send_timeout_now_log r to r' : send_timeout_now r to = Ok r' -> r_log r' = r_log r.
Proof. unfold send_timeout_now. apply send_log. Qed.

Lemma send_request_snapshot_log r r' : send_request_snapshot r = Ok r' -> r_log r' = r_log r.
Proof. intros H. apply lf_log. eapply send_request_snapshot_lf; exact H. Qed.

Lemma send_vote_requests_log ids : forall r vm t cm ct tr r',
  send_vote_requests ids r vm t cm ct tr = Ok r' -> r_log r' = r_log r.
Proof.
  induction ids as [|id rest IH]; intros r vm t cm ct tr r' H; cbn [send_vote_requests] in H.
  - inversion H; reflexivity.
  - destruct (id =? r_id r); [eapply IH; exact H|].
    inv_bind H. inv_bind H. apply IH in H. apply send_log in Hx0. congruence.
Qed.

Lemma handle_ready_read_index_log r req i r' om :
  handle_ready_read_index r req i = Ok (r', om) -> r_log r' = r_log r.
Proof.
  unfold handle_ready_read_index. intros H.
  destruct ((m_from req =? INVALID_ID) || (m_from req =? r_id r)).
  - inv_bind H. inversion H; reflexivity.
  - inversion H; reflexivity.
Qed.

Lemma respond_reads_log rss : forall r r', respond_reads r rss = Ok r' -> r_log r' = r_log r.
Proof.
  induction rss as [|rs rest IH]; intros r r' H; cbn [respond_reads] in H.
  - inversion H; reflexivity.
  - inv_bind H. destruct x as [r1 om]. inv_bind H. apply IH in H.
    apply handle_ready_read_index_log in Hx.
    destruct om; [apply send_log in Hx0|inversion Hx0; subst]; congruence.
Qed.

Lemma handle_transfer_leader_log r m r' : handle_transfer_leader r m = Ok r' -> r_log r' = r_log r.
Proof. intros H. apply lf_log. eapply handle_transfer_leader_lf; exact H. Qed.

Lemma handle_snapshot_status_log r m r' : handle_snapshot_status r m = Ok r' -> r_log r' = r_log r.
Proof. intros H. apply lf_log. eapply handle_snapshot_status_lf; exact H. Qed.

Lemma handle_unreachable_log r m r' : handle_unreachable r m = Ok r' -> r_log r' = r_log r.
Proof. intros H. apply lf_log. eapply handle_unreachable_lf; exact H. Qed.

Lemma reset_log r t r' : reset r t = Ok r' -> r_log r' = r_log r.
Proof. intros H. exact (proj2 (reset_msgs_log _ _ _ H)). Qed.

Lemma become_follower_log r t l r' : become_follower r t l = Ok r' -> r_log r' = set_limit (r_log r) 0.
Proof. intros H. exact (proj2 (become_follower_msgs_log _ _ _ _ H)). Qed.

Lemma become_candidate_log r r' : become_candidate r = Ok r' -> r_log r' = r_log r.
Proof.
  unfold become_candidate. intros H. destruct (is_leader r); [discriminate|].
  inv_bind H. inversion H; subst. cbn. eapply reset_log; exact Hx.
Qed.

Lemma become_pre_candidate_log r r' : become_pre_candidate r = Ok r' -> r_log r' = r_log r.
Proof.
  unfold become_pre_candidate. intros H. destruct (is_leader r); [discriminate|].
  inversion H; reflexivity.
Qed.

Lemma filter_conf_changes_log r ents info i r' ents' ok :
  filter_conf_changes r ents info i = (r', ents', ok) -> r_log r' = r_log r.
Proof. intros H. exact (proj1 (filter_frame_fields _ _ _ _ _ _ _ H)). Qed.

Lemma reduce_uncommitted_size_log r ents : r_log (reduce_uncommitted_size r ents) = r_log r.
Proof.
  unfold reduce_uncommitted_size. destruct (negb (is_leader r)); [reflexivity|].
  match goal with |- r_log (if ?c then _ else _) = _ => destruct c end; [reflexivity|].
  match goal with |- r_log (if ?c then _ else _) = _ => destruct c end; reflexivity.
Qed.

Lemma handle_heartbeat_response_log r m r' :
  handle_heartbeat_response r m = Ok r' -> r_log r' = r_log r.
Proof.
  unfold handle_heartbeat_response. intros H.
  destruct (get_pr r (m_from m)) as [pr0|]; [|inversion H; reflexivity].
  inv_bind H. inv_bind H.
  assert (H1 : r_log x0 = r_log r).
  { match type of Hx0 with (if ?c then _ else _) = _ => destruct c end.
    - inv_bind Hx0. destruct x1 as [[ra pa] ba]. inversion Hx0; subst. cbn.
      eapply maybe_send_append_log; exact Hx1.
    - inversion Hx0; reflexivity. }
  match type of H with (if ?c then _ else _) = _ => destruct c end; [inversion H; subst; exact H1|].
  destruct (ro_recv_ack (r_read_only x0) (m_from m) (m_context m)) as [ro' acks].
  destruct acks as [a|]; [|inversion H; subst; exact H1].
  match type of H with (if ?c then _ else _) = _ => destruct c end; [|inversion H; subst; exact H1].
  inv_bind H. destruct x1 as [ro2 rss]. apply respond_reads_log in H. rewrite H. exact H1.
Qed.

(* ---------------- become_follower ---------------- *)
Lemma become_follower_pres rw r t l r' :
  become_follower r t l = Ok r' -> LI rw r ->
  LI rw r' /\ last_index (r_log r') = last_index (r_log r).
Proof.
  intros H HI. apply become_follower_log in H. unfold LI. rewrite H.
  split; [apply RepInv_set_limit; exact HI|reflexivity].
Qed.

(* ---------------- maybe_commit ---------------- *)
Lemma maybe_commit_pres rw r r' b :
  maybe_commit r = Ok (r', b) -> LI rw r -> LI rw r' /\ same_su (r_log r) (r_log r').
Proof.
  unfold maybe_commit. intros H HI. inv_bind H. destruct x as [l' b'].
  destruct (log_maybe_commit_pres rw _ _ _ _ _ Hx HI) as [A B].
  destruct b'; [destruct (get_pr r (r_id r))|]; inversion H; subst; split; assumption.
Qed.

(* ---------------- append_entry ---------------- *)
Lemma stamp_length es : forall t n, length (stamp es t n) = length es.
Proof. induction es as [|e es IH]; intros t n; cbn [stamp length]; [reflexivity|]. rewrite IH. reflexivity. Qed.

Lemma stamp_contig es : forall t n, contiguous_from n (stamp es t n).
Proof.
  induction es as [|e es IH]; intros t n; cbn [stamp contiguous_from]; [exact I|].
  split; [reflexivity|apply IH].
Qed.

Lemma stamp_nz es : forall t n, t <> 0 -> nz_terms (stamp es t n).
Proof.
  induction es as [|e es IH]; intros t n Ht; cbn [stamp]; [constructor|].
  constructor; [exact Ht|apply IH; exact Ht].
Qed.

Lemma append_entry_pres rw r es r' ok :
  append_entry r es = Ok (r', ok) -> LI rw r -> room (N.of_nat (length es)) r ->
  LI rw r' /\ store (r_log r') = store (r_log r) /\ applied (r_log r') = applied (r_log r)
  /\ committed (r_log r') = committed (r_log r)
  /\ last_index (r_log r') <= last_index (r_log r) + N.of_nat (length es).
Proof.
  intros H HI Hroom. destruct (append_entry_spec _ _ _ _ H) as (_ & _ & Hl).
  destruct ok.
  2:{ unfold LI. rewrite Hl. splits; auto. lia. }
  destruct Hl as (x & Hx & Hl). unfold LI. rewrite Hl. clear Hl H.
  destruct es as [|e es].
  - cbn in Hx. inversion Hx; subst. cbn [fst length]. splits; auto. lia.
  - destruct x as [l' li]. cbn [fst].
    remember (stamp (e :: es) (r_term r) (last_index (r_log r) + 1)) as st eqn:Est.
    pose proof (stamp_contig (e :: es) (r_term r) (last_index (r_log r) + 1)) as Hc.
    pose proof (stamp_length (e :: es) (r_term r) (last_index (r_log r) + 1)) as Hlen.
    rewrite <- Est in Hc, Hlen.
    destruct st as [|e0 t0]; [cbn in Hlen; discriminate|].
    assert (Hi0 : e_index e0 = last_index (r_log r) + 1) by (destruct Hc; assumption).
    unfold room in Hroom.
    destruct (log_append_pres rw _ _ _ _ _ Hx HI) as (A & B & C0 & D & E & F).
    + rewrite Hi0. exact Hc.
    + rewrite Hi0. pose proof (RepInv_persisted_le_last rw _ HI). lia.
    + rewrite Hi0, Hlen. lia.
    + splits; auto. rewrite F, E, Hi0, Hlen. lia.
Qed.

(* ---------------- become_leader ---------------- *)
Lemma become_leader_pres rw r r' :
  become_leader r = Ok r' -> LI rw r -> room 1 r -> LI rw r'.
Proof.
  unfold become_leader. intros H HI Hroom.
  destruct (role_eqb (r_state r) Follower); [discriminate|].
  inv_bind H. apply reset_log in Hx.
  match type of H with (match ?g with _ => _ end) = _ => destruct g as [pr|] end; [|discriminate].
  inv_bind H. destruct x0 as [r6 ok]. destruct ok; [|discriminate]. inversion H; subst. clear H.
  eapply (append_entry_pres rw); [exact Hx0| |].
  - eapply LI_same; [|exact HI]. cbn. exact Hx.
  - eapply room_same; [|exact Hroom]. cbn. rewrite Hx. reflexivity.
Qed.

(* ---------------- poll / campaign / hup ---------------- *)
Lemma poll_gen_pres rw rc r from v r' res :
  (forall ra ra', rc ra = Ok ra' -> LI rw ra -> room 1 ra -> LI rw ra') ->
  poll_gen rc r from v = Ok (r', res) -> LI rw r -> room 1 r -> LI rw r'.
Proof.
  unfold poll_gen. intros Hrc H HI Hroom.
  set (r0 := r <| r_prs := (r_prs r) <| t_votes := Quorum.record_vote (t_votes (r_prs r)) from v |> |>) in *.
  assert (H0 : LI rw r0) by exact HI.
  assert (Hr0 : room 1 r0) by exact Hroom.
  clearbody r0.
  destruct (Quorum.tracker_vote_result _ _ _).
  - inversion H; subst. exact H0.
  - inv_bind H. inversion H; subst. eapply become_follower_pres; eassumption.
  - destruct (role_eqb (r_state r0) PreCandidate).
    + inv_bind H. inversion H; subst. eapply Hrc; eassumption.
    + inv_bind H. inv_bind H. inversion H; subst.
      apply bcast_append_log in Hx0. eapply LI_same; [exact Hx0|].
      eapply become_leader_pres; eassumption.
Qed.

Lemma campaign_real_pres rw tr r r' :
  campaign_real tr r = Ok r' -> LI rw r -> room 1 r -> LI rw r'.
Proof.
  unfold campaign_real. intros H HI Hroom. inv_bind H. apply become_candidate_log in Hx.
  inv_bind H. destruct x0 as [r2 res].
  assert (H2 : LI rw r2).
  { eapply poll_gen_pres; [|exact Hx0| |].
    - intros ra ra' Hp; discriminate.
    - eapply LI_same; [exact Hx|exact HI].
    - eapply room_same; [|exact Hroom]. rewrite Hx. reflexivity. }
  destruct res.
  - inv_bind H. apply send_vote_requests_log in H. eapply LI_same; eassumption.
  - inv_bind H. apply send_vote_requests_log in H. eapply LI_same; eassumption.
  - inversion H; subst. exact H2.
Qed.

Lemma poll_pres rw r from v r' res :
  poll r from v = Ok (r', res) -> LI rw r -> room 1 r -> LI rw r'.
Proof. unfold poll. apply poll_gen_pres. intros ra ra'. apply campaign_real_pres. Qed.

Lemma campaign_pre_pres rw r r' :
  campaign_pre r = Ok r' -> LI rw r -> room 1 r -> LI rw r'.
Proof.
  unfold campaign_pre. intros H HI Hroom. inv_bind H. apply become_pre_candidate_log in Hx.
  inv_bind H. destruct x0 as [r2 res].
  assert (H2 : LI rw r2).
  { eapply poll_pres; [exact Hx0| |].
    - eapply LI_same; [exact Hx|exact HI].
    - eapply room_same; [|exact Hroom]. rewrite Hx. reflexivity. }
  destruct res.
  - inv_bind H. apply send_vote_requests_log in H. eapply LI_same; eassumption.
  - inv_bind H. apply send_vote_requests_log in H. eapply LI_same; eassumption.
  - inversion H; subst. exact H2.
Qed.

Lemma hup_pres rw r tl r' : hup r tl = Ok r' -> LI rw r -> room 1 r -> LI rw r'.
Proof.
  intros H HI Hroom. apply hup_spec in H.
  destruct H as [[_ ->]|[(_ & _ & ->)|[(_ & _ & _ & ->)|(_ & _ & _ & Hc)]]]; try exact HI.
  unfold hup_campaign in Hc. destruct tl; [eapply campaign_real_pres; eassumption|].
  destruct (r_pre_vote r); [eapply campaign_pre_pres|eapply campaign_real_pres]; eassumption.
Qed.

Lemma maybe_commit_by_vote_pres rw r m r' :
  maybe_commit_by_vote r m = Ok r' -> LI rw r ->
  LI rw r' /\ last_index (r_log r') = last_index (r_log r).
Proof.
  intros H HI. apply maybe_commit_by_vote_spec in H.
  destruct H as [-> |(l' & b & _ & _ & _ & _ & Hmc & [-> |(_ & _ & _ & Hbf)])]; [split; [exact HI|reflexivity]| |].
  - destruct (log_maybe_commit_pres rw _ _ _ _ _ Hmc HI) as [A B].
    split; [exact A|]. cbn. apply same_su_last; exact B.
  - destruct (log_maybe_commit_pres rw _ _ _ _ _ Hmc HI) as [A B].
    destruct (become_follower_pres rw _ _ _ _ Hbf A) as [C0 D]. split; [exact C0|].
    rewrite D. cbn. apply same_su_last; exact B.
Qed.

(* ---------------- follower-side handlers ---------------- *)

(* shape of an inbound MsgAppend: the entries are numbered consecutively after m_index
   and do not run past u64::MAX (a predicate of the message alone; [maybe_append_ok]'s
   other two preconditions - non-zero terms, anchor inside the log or of non-zero term -
   are not needed in Ok-form) *)
Definition append_wf (m : msg) : Prop :=
  contiguous_from (m_index m + 1) (m_entries m)
  /\ m_index m + N.of_nat (length (m_entries m)) < u64_max.

Lemma handle_append_entries_pres rw r m r' :
  handle_append_entries r m = Ok r' -> append_wf m -> LI rw r -> LI rw r'.
Proof.
  unfold handle_append_entries. intros H (W1 & W4) HI.
  destruct (negb (r_pending_request_snapshot r =? INVALID_INDEX)).
  { apply send_request_snapshot_log in H. eapply LI_same; eassumption. }
  destruct (m_index m <? committed (r_log r)).
  { apply send_log in H. eapply LI_same; eassumption. }
  inv_bind H. destruct x as [l' res].
  destruct (maybe_append_pres rw _ _ _ _ _ _ _ Hx HI W1 W4) as (A & _).
  destruct res as [[a b]|].
  - apply send_log in H. eapply LI_same; [exact H|exact A].
  - inv_bind H. destruct x as [hi [ht|]]; [|discriminate].
    apply send_log in H. eapply LI_same; [exact H|exact A].
Qed.

Lemma handle_heartbeat_pres rw r m r' : handle_heartbeat r m = Ok r' -> LI rw r -> LI rw r'.
Proof.
  unfold handle_heartbeat. intros H HI. inv_bind H.
  destruct (commit_to_pres rw _ _ _ Hx HI) as [A _].
  match type of H with (if ?c then _ else _) = _ => destruct c end.
  - apply send_request_snapshot_log in H. eapply LI_same; [exact H|exact A].
  - apply send_log in H. eapply LI_same; [exact H|exact A].
Qed.

(* ---------------- post_conf_change ---------------- *)
Lemma post_conf_change_pres rw r r' cs :
  post_conf_change r = Ok (r', cs) -> LI rw r -> LI rw r' /\ same_su (r_log r) (r_log r').
Proof.
  unfold post_conf_change. intros H HI.
  set (r0 := r <| r_promotable := voters_contains (conf_of r) (r_id r) |>) in *.
  assert (H0 : LI rw r0) by exact HI.
  assert (E0 : r_log r0 = r_log r) by reflexivity.
  clearbody r0.
  match type of H with (if ?c then _ else _) = _ => destruct c end;
    [inversion H; subst; rewrite E0; split; [exact H0|apply same_su_refl]|].
  match type of H with (if ?c then _ else _) = _ => destruct c end;
    [inversion H; subst; rewrite E0; split; [exact H0|apply same_su_refl]|].
  inv_bind H. destruct x as [r1 b].
  destruct (maybe_commit_pres rw _ _ _ Hx H0) as [H1 S1]. rewrite E0 in S1.
  inv_bind H.
  assert (E2 : r_log x = r_log r1).
  { destruct b; [eapply bcast_append_log; exact Hx0|].
    apply lf_log. revert Hx0. apply for_each_peer_lf. intros ra id ra' Hf.
    destruct (get_pr ra id); [|discriminate]. inv_bind Hf. destruct x0 as [[rb pb] bb].
    inversion Hf; subst. eapply lf_trans; [eapply maybe_send_append_lf; eassumption|apply put_pr_lf]. }
  inv_bind H.
  assert (E3 : r_log x0 = r_log x).
  { destruct (ro_last_pending_request_ctx (r_read_only x)); [|inversion Hx1; reflexivity].
    destruct (ro_recv_ack (r_read_only x) (r_id x) l) as [ro' acks].
    destruct acks as [a|]; [|inversion Hx1; reflexivity].
    match type of Hx1 with (if ?c then _ else _) = _ => destruct c end; [|inversion Hx1; reflexivity].
    inv_bind Hx1. destruct x1 as [ro2 rss]. apply respond_reads_log in Hx1. rewrite Hx1. reflexivity. }
  inversion H; subst.
  assert (E4 : r_log (match r_lead_transferee x0 with
                      | Some e => if negb (voters_contains (conf_of x0) e)
                                  then x0 <| r_lead_transferee := None |> else x0
                      | None => x0 end) = r_log x0).
  { destruct (r_lead_transferee x0); [|reflexivity].
    destruct (negb (voters_contains (conf_of x0) n)); reflexivity. }
  unfold LI. rewrite E4, E3, E2. split; [exact H1|exact S1].
Qed.

(* ---------------- restore / handle_snapshot ---------------- *)
Lemma restore_pres rw r s r' b :
  restore r s = Ok (r', b) -> s_index s < u64_max -> LI rw r -> LI rw r'.
Proof.
  unfold restore. intros H Hb HI.
  destruct (s_index s <? committed (r_log r)); [inversion H; subst; exact HI|].
  destruct (negb (role_eqb (r_state r) Follower)).
  { inv_bind H. inversion H; subst. eapply become_follower_pres; eassumption. }
  match type of H with (if ?c then _ else _) = _ => destruct c end; [inversion H; subst; exact HI|].
  inv_bind H.
  match type of H with (if ?c then _ else _) = _ => destruct c end.
  { inv_bind H. inversion H; subst. exact (proj1 (commit_to_pres rw _ _ _ Hx0 HI)). }
  inv_bind H.
  destruct (log_restore_pres rw _ _ _ Hx0 HI Hb) as (A & _).
  destruct (ConfChange.restore empty_tracker (s_cs s)) as [[c' ids']|e]; [|discriminate].
  inv_bind H. destruct x1 as [r1 new_cs].
  match type of Hx1 with post_conf_change ?ra = _ =>
    assert (Ha : LI rw ra) by exact A end.
  destruct (post_conf_change_pres rw _ _ _ Hx1 Ha) as [H1 _].
  match type of H with (if ?c then _ else _) = _ => destruct c end; [discriminate|].
  destruct (get_pr r1 (r_id r1)) as [pr|]; [|discriminate].
  destruct (next_idx pr =? 0); [discriminate|]. inversion H; subst. exact H1.
Qed.

Lemma handle_snapshot_pres rw r m r' :
  handle_snapshot r m = Ok r' -> s_index (m_snapshot m) < u64_max -> LI rw r -> LI rw r'.
Proof.
  unfold handle_snapshot. intros H Hb HI. inv_bind H. destruct x as [r1 ok].
  pose proof (restore_pres rw _ _ _ _ Hx Hb HI) as H1.
  destruct ok; apply send_log in H; eapply LI_same; eassumption.
Qed.

(* ---------------- leader-side handlers ---------------- *)
Lemma handle_append_response_pres rw r m r' :
  handle_append_response r m = Ok r' -> LI rw r ->
  LI rw r' /\ last_index (r_log r') = last_index (r_log r).
Proof.
  unfold handle_append_response. intros H HI. inv_bind H. clear Hx.
  destruct (get_pr r (m_from m)) as [pr|]; [|inversion H; subst; split; [exact HI|reflexivity]].
  destruct (m_reject m).
  { destruct (maybe_decr_to _ _ _ _) as [pr1 dec]. destruct dec.
    - apply send_append_to_log in H. unfold LI. rewrite H. split; [exact HI|reflexivity].
    - inversion H; subst. split; [exact HI|reflexivity]. }
  destruct (maybe_update _ _) as [pr1 upd]. destruct upd; cbn [negb] in H.
  2:{ inversion H; subst. split; [exact HI|reflexivity]. }
  inv_bind H. clear Hx. inv_bind H. destruct x1 as [r1 cmt].
  match type of Hx with maybe_commit ?ra = _ => assert (Ha : LI rw ra) by exact HI end.
  destruct (maybe_commit_pres rw _ _ _ Hx Ha) as [H1 S1]. cbn in S1.
  inv_bind H. inv_bind H.
  assert (E2 : r_log x1 = r_log r1).
  { destruct cmt.
    - destruct (should_bcast_commit r1); [eapply bcast_append_log; eassumption|].
      inversion Hx0; reflexivity.
    - destruct (is_paused _); [eapply send_append_to_log; eassumption|].
      inversion Hx0; reflexivity. }
  apply send_append_aggressively_log in Hx1.
  assert (E4 : r_log r' = r_log x2).
  { destruct (r_lead_transferee x2); [|inversion H; reflexivity].
    destruct (n =? m_from m); [|inversion H; reflexivity].
    destruct (get_pr x2 (m_from m)); [|discriminate].
    destruct (matched p =? last_index (r_log x2)); [eapply send_timeout_now_log; exact H|].
    inversion H; reflexivity. }
  unfold LI. rewrite E4, Hx1, E2. split; [exact H1|apply same_su_last; exact S1].
Qed.

(* ---------------- step ---------------- *)

(* message types whose handling can make this node leader (it then appends the
   empty entry of its term) *)
Definition elect_type (t : N) : bool :=
  (t =? MsgHup) || (t =? MsgTimeoutNow) || (t =? MsgRequestVoteResponse)
  || (t =? MsgRequestPreVoteResponse).

(* well-formedness of a stepped message relative to the receiver's last index [li] *)
Definition msg_wf (li : N) (m : msg) : Prop :=
  (elect_type (m_type m) = true -> li + 1 < u64_max)
  /\ (m_type m = MsgPropose -> li + N.of_nat (length (m_entries m)) < u64_max)
  /\ (m_type m = MsgAppend -> append_wf m)
  /\ (m_type m = MsgSnapshot -> s_index (m_snapshot m) < u64_max).

Lemma step_leader_pres rw r m r' c :
  step_leader r m = Ok (r', c) -> msg_wf (last_index (r_log r)) m -> LI rw r -> LI rw r'.
Proof.
  unfold step_leader. intros H (_ & Wp & _ & _) HI.
  destruct (m_type m =? MsgBeat).
  { inv_bind H. inversion H; subst. apply bcast_heartbeat_log in Hx. eapply LI_same; eassumption. }
  destruct (m_type m =? MsgCheckQuorum).
  { destruct (quorum_recently_active (r_prs r) (r_id r)) as [prs' active] eqn:Eq.
    destruct active; cbn [negb] in H.
    - inversion H; subst. exact HI.
    - inv_bind H. inversion H; subst. eapply become_follower_pres; [exact Hx|exact HI]. }
  destruct (m_type m =? MsgPropose) eqn:Ep.
  { apply N.eqb_eq in Ep. specialize (Wp Ep).
    destruct (m_entries m) as [|e0 es] eqn:Ee; [discriminate|]. rewrite <- Ee in *.
    destruct (get_pr r (r_id r)); [|inversion H; subst; exact HI].
    destruct (r_lead_transferee r); [inversion H; subst; exact HI|].
    dfilter H. pose proof (filter_conf_changes_log _ _ _ _ _ _ _ F) as El.
    pose proof (filter_length _ _ _ _ _ _ _ F) as Hlen.
    assert (H1 : LI rw a) by (eapply LI_same; eassumption).
    destruct c0; cbn [negb] in H; [|inversion H; subst; exact H1].
    inv_bind H. destruct x as [r2 appended].
    destruct (append_entry_pres rw _ _ _ _ Hx H1) as (H2 & _).
    { unfold room. rewrite El, Hlen. exact Wp. }
    destruct appended; cbn [negb] in H.
    - inv_bind H. inversion H; subst. apply bcast_append_log in Hx0. eapply LI_same; eassumption.
    - inversion H; subst. exact H2. }
  destruct (m_type m =? MsgReadIndex).
  { inv_bind H. destruct (negb x); [inversion H; subst; exact HI|].
    assert (Hans : forall ra c',
      (x0 <- handle_ready_read_index r m (committed (r_log r)) ;;
       let '(r1, om) := x0 in
       r2 <- match om with Some mm => send r1 mm | None => Ok r1 end ;; Ok (r2, E_OK)) = Ok (ra, c') ->
      LI rw ra).
    { intros ra c' Ha. inv_bind Ha. destruct x0 as [r1 om]. inv_bind Ha. inversion Ha; subst.
      apply handle_ready_read_index_log in Hx0.
      destruct om; [apply send_log in Hx1|inversion Hx1; subst].
      - eapply LI_same; [|exact HI]. congruence.
      - eapply LI_same; [exact Hx0|exact HI]. }
    match type of H with (if ?c then _ else _) = _ => destruct c end; [eapply Hans; exact H|].
    destruct (ro_option (r_read_only r) =? 0); [|eapply Hans; exact H].
    inv_bind H. inv_bind H. inv_bind H. inversion H; subst.
    apply bcast_heartbeat_with_ctx_log in Hx2. eapply LI_same; [exact Hx2|exact HI]. }
  destruct (m_type m =? MsgAppendResponse).
  { inv_bind H. inversion H; subst. eapply handle_append_response_pres; eassumption. }
  destruct (m_type m =? MsgHeartbeatResponse).
  { inv_bind H. inversion H; subst. apply handle_heartbeat_response_log in Hx. eapply LI_same; eassumption. }
  destruct (m_type m =? MsgSnapStatus).
  { inv_bind H. inversion H; subst. apply handle_snapshot_status_log in Hx. eapply LI_same; eassumption. }
  destruct (m_type m =? MsgUnreachable).
  { inv_bind H. inversion H; subst. apply handle_unreachable_log in Hx. eapply LI_same; eassumption. }
  destruct (m_type m =? MsgTransferLeader).
  { inv_bind H. inversion H; subst. apply handle_transfer_leader_log in Hx. eapply LI_same; eassumption. }
  inversion H; subst. exact HI.
Qed.

Lemma elect_type_vote_resp t :
  (t =? MsgRequestPreVoteResponse) || (t =? MsgRequestVoteResponse) = true -> elect_type t = true.
Proof.
  unfold elect_type. intros H. apply orb_true_iff in H. destruct H as [H|H]; rewrite H;
    rewrite ?orb_true_r; reflexivity.
Qed.

Lemma step_candidate_pres rw r m r' c :
  step_candidate r m = Ok (r', c) -> msg_wf (last_index (r_log r)) m -> LI rw r -> LI rw r'.
Proof.
  unfold step_candidate. intros H (We & _ & Wa & Ws) HI.
  destruct (m_type m =? MsgPropose). { inversion H; subst. exact HI. }
  match type of H with (if ?c then _ else _) = _ => destruct c eqn:E1 end.
  { destruct (negb (r_term r =? m_term m)); [discriminate|].
    inv_bind H. destruct (become_follower_pres rw _ _ _ _ Hx HI) as [H1 L1].
    inv_bind H. inversion H; subst.
    destruct (m_type m =? MsgAppend) eqn:Ea.
    { apply N.eqb_eq in Ea. eapply handle_append_entries_pres; [exact Hx0|exact (Wa Ea)|exact H1]. }
    destruct (m_type m =? MsgHeartbeat) eqn:Eh; [eapply handle_heartbeat_pres; eassumption|].
    cbn [orb] in E1. apply N.eqb_eq in E1.
    eapply handle_snapshot_pres; [exact Hx0|exact (Ws E1)|exact H1]. }
  match type of H with (if ?c then _ else _) = _ => destruct c eqn:E2 end.
  2:{ inversion H; subst. exact HI. }
  match type of H with (if ?c then _ else _) = _ => destruct c end.
  { inversion H; subst. exact HI. }
  inv_bind H. destruct x as [r1 res]. inv_bind H. inversion H; subst. cbn [fst] in Hx0.
  specialize (We (elect_type_vote_resp _ E2)).
  eapply maybe_commit_by_vote_pres; [exact Hx0|]. eapply poll_pres; [exact Hx|exact HI|exact We].
Qed.

Lemma step_follower_pres rw r m r' c :
  step_follower r m = Ok (r', c) -> msg_wf (last_index (r_log r)) m -> LI rw r -> LI rw r'.
Proof.
  unfold step_follower. intros H (We & _ & Wa & Ws) HI.
  destruct (m_type m =? MsgPropose).
  { destruct (r_leader_id r =? INVALID_ID); [inversion H; subst; exact HI|].
    destruct (r_disable_proposal_forwarding r); [inversion H; subst; exact HI|].
    inv_bind H. inversion H; subst. apply send_log in Hx. eapply LI_same; eassumption. }
  destruct (m_type m =? MsgAppend) eqn:Ea.
  { apply N.eqb_eq in Ea. inv_bind H. inversion H; subst.
    eapply handle_append_entries_pres; [exact Hx|exact (Wa Ea)|exact HI]. }
  destruct (m_type m =? MsgHeartbeat).
  { inv_bind H. inversion H; subst. eapply handle_heartbeat_pres; [exact Hx|exact HI]. }
  destruct (m_type m =? MsgSnapshot) eqn:Es.
  { apply N.eqb_eq in Es. inv_bind H. inversion H; subst.
    eapply handle_snapshot_pres; [exact Hx|exact (Ws Es)|exact HI]. }
  destruct (m_type m =? MsgTransferLeader).
  { destruct (r_leader_id r =? INVALID_ID); [inversion H; subst; exact HI|].
    inv_bind H. inversion H; subst. apply send_log in Hx. eapply LI_same; eassumption. }
  destruct (m_type m =? MsgTimeoutNow) eqn:Et.
  { destruct (r_promotable r); [|inversion H; subst; exact HI].
    inv_bind H. inversion H; subst. eapply hup_pres; [exact Hx|exact HI|].
    apply We. unfold elect_type. rewrite Et. rewrite ?orb_true_r. reflexivity. }
  destruct (m_type m =? MsgReadIndex).
  { destruct (r_leader_id r =? INVALID_ID); [inversion H; subst; exact HI|].
    inv_bind H. inversion H; subst. apply send_log in Hx. eapply LI_same; eassumption. }
  destruct (m_type m =? MsgReadIndexResp).
  { destruct (m_entries m) as [|e [|e2 es]]; try (inversion H; subst; exact HI).
    inv_bind H. inversion H; subst. destruct x as [l' b].
    exact (proj1 (log_maybe_commit_pres rw _ _ _ _ _ Hx HI)). }
  inversion H; subst. exact HI.
Qed.

Lemma step_body_pres rw r m r' c :
  step_body r m = Ok (r', c) -> msg_wf (last_index (r_log r)) m -> LI rw r -> LI rw r'.
Proof.
  unfold step_body. intros H W HI.
  destruct (m_type m =? MsgHup) eqn:Eh.
  { inv_bind H. inversion H; subst. eapply hup_pres; [exact Hx|exact HI|].
    apply (proj1 W). unfold elect_type. rewrite Eh. reflexivity. }
  match type of H with (if ?c then _ else _) = _ => destruct c end.
  { inv_bind H. inv_bind H.
    match type of H with (if ?c then _ else _) = _ => destruct c end.
    - inv_bind H. apply send_log in Hx1.
      destruct (m_type m =? MsgRequestVote); inversion H; subst; eapply LI_same; eassumption.
    - inv_bind H. inv_bind H. inv_bind H. inversion H; subst. apply send_log in Hx2.
      eapply maybe_commit_by_vote_pres; [exact Hx3|]. eapply LI_same; eassumption. }
  unfold step_role in H. destruct (r_state r).
  - eapply step_follower_pres; eassumption.
  - eapply step_candidate_pres; eassumption.
  - eapply step_leader_pres; eassumption.
  - eapply step_candidate_pres; eassumption.
Qed.

Theorem step_pres rw r m r' c :
  step r m = Ok (r', c) -> msg_wf (last_index (r_log r)) m -> LI rw r -> LI rw r'.
Proof.
  intros H W HI. rewrite step_decompose in H. inv_bind H. apply step_prologue_spec in Hx.
  destruct x as [[r1 c1]|r1].
  - inversion H; subst. eapply LI_same; [apply lf_log; apply Hx|exact HI].
  - destruct Hx as [-> |(_ & l & Hbf)]; [eapply step_body_pres; eassumption|].
    destruct (become_follower_pres rw _ _ _ _ Hbf HI) as [H1 L1].
    eapply step_body_pres; [exact H| |exact H1]. rewrite L1. exact W.
Qed.

(* messages of a type that involves no log growth are well-formed for every log *)
Lemma msg_wf_plain li m :
  elect_type (m_type m) = false -> m_type m <> MsgPropose -> m_type m <> MsgAppend ->
  m_type m <> MsgSnapshot -> msg_wf li m.
Proof. intros A B C0 D. unfold msg_wf. splits; intros E; congruence. Qed.

(* ---------------- tick ---------------- *)
Lemma tick_election_pres rw r r' b :
  tick_election r = Ok (r', b) -> LI rw r -> room 1 r -> LI rw r'.
Proof.
  unfold tick_election. intros H HI Hroom.
  match type of H with (if ?c then _ else _) = _ => destruct c end; [inversion H; subst; exact HI|].
  inv_bind H. inversion H; subst. destruct x as [r1 c]. cbn [fst].
  eapply step_pres; [exact Hx| |exact HI].
  unfold msg_wf. cbn. splits; try (intros E; discriminate). intros _. exact Hroom.
Qed.

Lemma tick_heartbeat_pres rw r r' b : tick_heartbeat r = Ok (r', b) -> LI rw r -> LI rw r'.
Proof.
  unfold tick_heartbeat. intros H HI. inv_bind H. destruct x as [r1 hr].
  assert (H1 : LI rw r1).
  { match type of Hx with (if ?c then _ else _) = _ => destruct c end; [|inversion Hx; subst; exact HI].
    inv_bind Hx. destruct x as [ra ha]. inversion Hx; subst.
    assert (Ha : LI rw ra).
    { destruct (r_check_quorum _); [|inversion Hx0; subst; exact HI].
      inv_bind Hx0. inversion Hx0; subst. destruct x as [rb cb]. cbn [fst].
      eapply step_pres; [exact Hx1| |exact HI].
      apply msg_wf_plain; cbn; [reflexivity|discriminate|discriminate|discriminate]. }
    match goal with |- LI rw (if ?c then _ else _) => destruct c end; exact Ha. }
  destruct (negb (is_leader r1)); [inversion H; subst; exact H1|].
  match type of H with (if ?c then _ else _) = _ => destruct c end; [|inversion H; subst; exact H1].
  inv_bind H. inversion H; subst. destruct x as [rb cb]. cbn [fst].
  eapply step_pres; [exact Hx0| |exact H1].
  apply msg_wf_plain; cbn; [reflexivity|discriminate|discriminate|discriminate].
Qed.

Theorem tick_pres rw r r' b : tick r = Ok (r', b) -> LI rw r -> room 1 r -> LI rw r'.
Proof.
  unfold tick. intros H HI Hroom. destruct (r_state r);
    first [eapply tick_election_pres; eassumption|eapply tick_heartbeat_pres; eassumption].
Qed.

(* ---------------- persistence notices ---------------- *)
Theorem on_persist_entries_pres rw r i t r' :
  on_persist_entries r i t = Ok r' -> LI rw r ->
  LI rw r' /\ same_su (r_log r) (r_log r').
Proof.
  unfold on_persist_entries. intros H HI. inv_bind H. destruct x as [l' upd].
  destruct (maybe_persist_pres rw _ _ _ _ _ Hx HI) as [A B].
  match type of H with (if ?c then _ else _) = _ => destruct c end;
    [|inversion H; subst; split; assumption].
  match type of H with (match ?g with _ => _ end) = _ => destruct g as [pr|] end;
    [|inversion H; subst; split; assumption].
  destruct (maybe_update pr i) as [pr' u]. destruct u; [|inversion H; subst; split; assumption].
  inv_bind H. destruct x as [r1 c].
  match type of Hx0 with maybe_commit ?ra = _ => assert (Ha : LI rw ra) by exact A end.
  destruct (maybe_commit_pres rw _ _ _ Hx0 Ha) as [H1 S1]. cbn in S1.
  assert (S01 : same_su (r_log r) (r_log r1)) by (eapply same_su_trans; eassumption).
  match type of H with (if ?c then _ else _) = _ => destruct c end.
  - apply bcast_append_log in H. unfold LI. rewrite H. split; assumption.
  - inversion H; subst. split; assumption.
Qed.

Theorem on_persist_snap_pres rw r i r' :
  on_persist_snap r i = Ok r' -> LI rw r ->
  (persisted (r_log r) < i -> i < next_of (store (r_log r))) ->
  LI rw r' /\ same_su (r_log r) (r_log r').
Proof.
  unfold on_persist_snap. intros H HI Hn. inv_bind H. destruct x as [l' b]. inversion H; subst.
  exact (maybe_persist_snap_pres rw _ _ _ _ Hx HI Hn).
Qed.

(* ---------------- commit_apply ---------------- *)
Theorem commit_apply_pres rw r a r' :
  commit_apply r a = Ok r' -> LI rw r -> (is_leader r = true -> room 1 r) -> LI rw r'.
Proof.
  unfold commit_apply, commit_apply_internal. cbn [negb]. intros H HI Hroom.
  inv_bind H. destruct (applied_to_pres rw _ _ _ Hx HI) as (A & B1 & B2 & _).
  match type of H with (if ?c then _ else _) = _ => destruct c eqn:Ec end;
    [|inversion H; subst; exact A].
  inv_bind H. destruct x0 as [r1 ok]. destruct ok; cbn [negb] in H; [|discriminate].
  inversion H; subst. cbn.
  apply andb_prop in Ec. destruct Ec as [_ El]. change (is_leader r = true) in El.
  destruct (append_entry_pres rw _ _ _ _ Hx0 A) as (H1 & _); [|exact H1].
  unfold room. cbn. rewrite (last_index_eq _ _ B2 B1). exact (Hroom El).
Qed.

(* the unchecked variant used by Raft::new: the restart window opens *)
Lemma commit_apply_internal_unchecked_pres rw r a r' :
  commit_apply_internal r a true = Ok r' -> LI rw r -> is_leader r = false -> LI true r'.
Proof.
  unfold commit_apply_internal. cbn [negb]. intros H HI Hl.
  destruct (a =? 0); [discriminate|]. cbn [bind] in H.
  change (is_leader (r <| r_log := applied_to_unchecked (r_log r) a |>)) with (is_leader r) in H.
  rewrite Hl, andb_false_r in H. inversion H; subst.
  unfold LI. cbn. eapply applied_to_unchecked_pres; exact HI.
Qed.

(* ---------------- apply_conf_change / load_state / the rest of the API ---------------- *)
Theorem raft_apply_conf_change_pres rw r cc r' ocs :
  raft_apply_conf_change r cc = Ok (r', ocs) -> LI rw r ->
  LI rw r' /\ same_su (r_log r) (r_log r').
Proof.
  unfold raft_apply_conf_change. intros H HI.
  match type of H with (match ?g with _ => _ end) = _ => destruct g as [[c' chs]|e] end.
  - inv_bind H. destruct x as [r1 cs]. inversion H; subst. cbn [fst].
    match type of Hx with post_conf_change ?ra = _ => assert (Ha : LI rw ra) by exact HI end.
    exact (post_conf_change_pres rw _ _ _ Hx Ha).
  - inversion H; subst. split; [exact HI|apply same_su_refl].
Qed.

Theorem load_state_pres rw r hs r' : load_state r hs = Ok r' -> LI rw r -> LI rw r'.
Proof.
  unfold load_state. intros H HI.
  match type of H with (if ?c then _ else _) = _ => destruct c eqn:E end; [discriminate|].
  inversion H; subst. unfold LI. cbn.
  apply orb_false_elim in E. destruct E as [E1 E2].
  rewrite (abs_last rw _ HI) in E2.
  apply RepInv_set_committed; [exact HI|lia|lia|].
  intros Hrw. pose proof (ri_applied rw _ HI Hrw). lia.
Qed.

Theorem request_snapshot_log r r' c : request_snapshot r = Ok (r', c) -> r_log r' = r_log r.
Proof.
  unfold request_snapshot. intros H.
  destruct (is_leader r); [inversion H; reflexivity|].
  destruct (r_leader_id r =? INVALID_ID); [inversion H; reflexivity|].
  match type of H with (if ?c then _ else _) = _ => destruct c end; [inversion H; reflexivity|].
  destruct (negb _); [inversion H; reflexivity|].
  inv_bind H. destruct x; [|discriminate].
  destruct (r_term r =? a); [|inversion H; reflexivity].
  inv_bind H. inversion H; subst. apply send_request_snapshot_log in Hx0. rewrite Hx0. reflexivity.
Qed.

Theorem ping_log r r' : ping r = Ok r' -> r_log r' = r_log r.
Proof.
  unfold ping. intros H. destruct (is_leader r); [eapply bcast_heartbeat_log; exact H|].
  inversion H; reflexivity.
Qed.

Theorem adjust_max_inflight_msgs_log r target cap r' :
  adjust_max_inflight_msgs r target cap = Ok r' -> r_log r' = r_log r.
Proof.
  unfold adjust_max_inflight_msgs. intros H. destruct (get_pr r target); [|inversion H; reflexivity].
  inv_bind H. inversion H; reflexivity.
Qed.

Theorem maybe_free_inflight_buffers_log r : r_log (maybe_free_inflight_buffers r) = r_log r.
Proof. reflexivity. Qed.

Theorem set_max_apply_unpersisted_log_limit_pres rw r lim :
  LI rw r -> LI rw (set_max_apply_unpersisted_log_limit r lim).
Proof. intros H. unfold LI. cbn. apply RepInv_set_limit. exact H. Qed.

Theorem enable_group_commit_pres rw r e r' : enable_group_commit r e = Ok r' -> LI rw r -> LI rw r'.
Proof.
  unfold enable_group_commit. intros H HI.
  match type of H with (if ?c then _ else _) = _ => destruct c end; [|inversion H; subst; exact HI].
  inv_bind H. destruct x as [r1 b]. cbn [fst snd] in H.
  match type of Hx with maybe_commit ?ra = _ => assert (Ha : LI rw ra) by exact HI end.
  destruct (maybe_commit_pres rw _ _ _ Hx Ha) as [H1 _].
  destruct b; [apply bcast_append_log in H; eapply LI_same; eassumption|inversion H; subst; exact H1].
Qed.

Theorem assign_commit_groups_pres rw r ids r' : assign_commit_groups r ids = Ok r' -> LI rw r -> LI rw r'.
Proof.
  unfold assign_commit_groups. intros H HI. inv_bind H.
  match type of H with (if ?c then _ else _) = _ => destruct c end; [|inversion H; subst; exact HI].
  inv_bind H. destruct x0 as [r1 b]. cbn [fst snd] in H.
  match type of Hx0 with maybe_commit ?ra = _ => assert (Ha : LI rw ra) by exact HI end.
  destruct (maybe_commit_pres rw _ _ _ Hx0 Ha) as [H1 _].
  destruct b; [apply bcast_append_log in H; eapply LI_same; eassumption|inversion H; subst; exact H1].
Qed.

(* ---------------- Raft::new ---------------- *)
Theorem raft_new_pres c st sa dr r :
  raft_new c st sa dr = Ok (inr r) -> SInv st -> trig_log st = false ->
  LI true r /\ (c_applied c = 0 -> LI false r) /\ store (r_log r) = st.
Proof.
  unfold raft_new. intros H Hs Hq.
  destruct (negb (cfg_validate c)); [discriminate|].
  destruct (log_new_ok st (c_max_apply_unpersisted_log_limit c) Hs Hq) as (l & Hl & Hr & _).
  rewrite Hl in H. cbn [bind] in H.
  assert (Hst : store l = st).
  { unfold log_new in Hl. inv_bind Hl. destruct (x =? 0); [discriminate|]. inversion Hl; reflexivity. }
  destruct (ConfChange.restore empty_tracker (cs st)) as [[c' ids']|e]; [|discriminate].
  rewrite post_conf_change_nonleader in H by reflexivity. cbn [bind] in H.
  match type of H with (if ?c then _ else _) = _ => destruct c end; [discriminate|].
  inv_bind H. inv_bind H. inv_bind H. inv_bind H. inversion H; subst r. clear H Hx2.
  (* load_state *)
  assert (H3 : LI false x /\ is_leader x = false /\ store (r_log x) = st).
  { destruct (hs_eqb (hs st) hs_default).
    - inversion Hx; subst x. split; [exact Hr|]. split; [reflexivity|exact Hst].
    - split; [eapply load_state_pres; [exact Hx|exact Hr]|].
      unfold load_state in Hx.
      match type of Hx with (if ?c then _ else _) = _ => destruct c end; [discriminate|].
      inversion Hx; subst x. split; [reflexivity|exact Hst]. }
  destruct H3 as (H3 & Hl3 & Hs3).
  (* commit_apply_internal, unchecked *)
  assert (H4 : LI true x0 /\ (c_applied c = 0 -> LI false x0) /\ store (r_log x0) = st).
  { destruct (0 <? c_applied c) eqn:E.
    - split; [eapply commit_apply_internal_unchecked_pres; eassumption|].
      split; [intros; lia|].
      unfold commit_apply_internal in Hx0. cbn [negb] in Hx0.
      destruct (c_applied c =? 0); [discriminate|]. cbn [bind] in Hx0.
      change (is_leader (x <| r_log := applied_to_unchecked (r_log x) (c_applied c) |>))
        with (is_leader x) in Hx0.
      rewrite Hl3, andb_false_r in Hx0. inversion Hx0; subst x0. exact Hs3.
    - inversion Hx0; subst x0. split; [apply (RepInv_true false); exact H3|]. split; [intros _; exact H3|exact Hs3]. }
  destruct H4 as (H4 & H4' & Hs4).
  pose proof (become_follower_log _ _ _ _ Hx1) as E5.
  split; [exact (proj1 (become_follower_pres true _ _ _ _ Hx1 H4))|].
  split; [intros Ha; exact (proj1 (become_follower_pres false _ _ _ _ Hx1 (H4' Ha)))|].
  rewrite E5. exact Hs4.
Qed.

(* ================================================================== *)
(* Part C. M/RawNode.v                                                  *)
(* ================================================================== *)
Definition NLI (rw : bool) (n : rawnode) : Prop := LI rw (rn_raft n).
Definition NLogOK (n : rawnode) : Prop := LogOK (rn_raft n).
Definition nlog (n : rawnode) : raft_log := r_log (rn_raft n).
Definition nlast (n : rawnode) : N := last_index (nlog n).
Definition nroom (k : N) (n : rawnode) : Prop := room k (rn_raft n).

Lemma NLI_same rw n n' : nlog n' = nlog n -> NLI rw n -> NLI rw n'.
Proof. unfold NLI, LI, nlog. intros ->. exact (fun H => H). Qed.

Theorem rn_step_pres rw n m n' c :
  rn_step n m = Ok (n', c) -> msg_wf (nlast n) m -> NLI rw n -> NLI rw n'.
Proof.
  unfold rn_step, lift2. intros H W HI.
  destruct (is_local_msg (m_type m)); [inversion H; subst; exact HI|].
  match type of H with (if ?c then _ else _) = _ => destruct c end; [|inversion H; subst; exact HI].
  inv_bind H. destruct x as [r1 c1]. inversion H; subst.
  unfold NLI. cbn. eapply step_pres; eassumption.
Qed.

Theorem rn_tick_pres rw n n' b : rn_tick n = Ok (n', b) -> nroom 1 n -> NLI rw n -> NLI rw n'.
Proof.
  unfold rn_tick. intros H Hr HI. inv_bind H. destruct x as [r1 b1]. inversion H; subst.
  unfold NLI. cbn. eapply tick_pres; eassumption.
Qed.

Theorem rn_campaign_pres rw n n' c : rn_campaign n = Ok (n', c) -> nroom 1 n -> NLI rw n -> NLI rw n'.
Proof.
  unfold rn_campaign, lift2. intros H Hr HI. inv_bind H. destruct x as [r1 c1]. inversion H; subst.
  unfold NLI. cbn. eapply step_pres; [exact Hx| |exact HI].
  unfold msg_wf. cbn. splits; try (intros E; discriminate). intros _. exact Hr.
Qed.

Theorem rn_propose_pres rw n ctx data n' c :
  rn_propose n ctx data = Ok (n', c) -> nroom 1 n -> NLI rw n -> NLI rw n'.
Proof.
  unfold rn_propose, lift2. intros H Hr HI. inv_bind H. destruct x as [r1 c1]. inversion H; subst.
  unfold NLI. cbn. eapply step_pres; [exact Hx| |exact HI].
  unfold msg_wf. cbn. splits; try (intros E; discriminate). intros _. exact Hr.
Qed.

Theorem rn_propose_conf_change_pres rw n ctx data ty ci n' c :
  rn_propose_conf_change n ctx data ty ci = Ok (n', c) -> nroom 1 n -> NLI rw n -> NLI rw n'.
Proof.
  unfold rn_propose_conf_change, lift2. intros H Hr HI. inv_bind H. destruct x as [r1 c1].
  inversion H; subst. unfold NLI. cbn. eapply step_pres; [exact Hx| |exact HI].
  unfold msg_wf. cbn. splits; try (intros E; discriminate). intros _. exact Hr.
Qed.

Theorem rn_apply_conf_change_pres rw n cc n' o :
  rn_apply_conf_change n cc = Ok (n', o) -> NLI rw n -> NLI rw n'.
Proof.
  unfold rn_apply_conf_change. intros H HI. inv_bind H. destruct x as [r1 o1]. inversion H; subst.
  unfold NLI. cbn. exact (proj1 (raft_apply_conf_change_pres rw _ _ _ _ Hx HI)).
Qed.

Theorem rn_ping_log n n' : rn_ping n = Ok n' -> nlog n' = nlog n.
Proof.
  unfold rn_ping, lift. intros H. inv_bind H. inversion H; subst. unfold nlog. cbn.
  eapply ping_log; exact Hx.
Qed.

Lemma gen_light_ready_log n n' lr : gen_light_ready n = Ok (n', lr) -> nlog n' = nlog n.
Proof.
  intros H. destruct (gen_light_ready_spec _ _ _ H) as (oe & k & _ & _ & -> & _). reflexivity.
Qed.

Theorem rn_ready_log n n' rd : rn_ready n = Ok (n', rd) -> nlog n' = nlog n.
Proof.
  intros H. destruct (ready_entries_are_unstable _ _ _ H) as (_ & _ & _ & _ & _ & _ & _ & _ & _ & _ & _ & _ & E & _).
  exact E.
Qed.

(* ---- commit_ready: the record being stabilised must be in the storage ---- *)
Definition commit_pre (n : rawnode) : Prop :=
  let rr := List.last (rn_records n) rr_default in
  (rr_snapshot rr <> None -> snap_written (nlog n))
  /\ (rr_last_entry rr <> None -> ents_written (nlog n)).

Definition same_cpa (l l' : raft_log) : Prop :=
  committed l' = committed l /\ persisted l' = persisted l /\ applied l' = applied l.

Theorem commit_ready_pres rw n rd n' :
  commit_ready n rd = Ok n' -> commit_pre n -> NLI rw n ->
  NLI rw n' /\ abs (nlog n') = abs (nlog n) /\ store (nlog n') = store (nlog n)
  /\ same_cpa (nlog n) (nlog n') /\ rn_records n' = rn_records n
  /\ rn_max_number n' = rn_max_number n.
Proof.
  unfold commit_ready. fold (commit_prev n rd).
  destruct (commit_prev_frame n rd) as (F1 & F2 & F3 & _).
  rewrite F2, F1. fold rr_default. unfold commit_pre, nlog.
  intros H [P1 P2] HI.
  destruct (rn_records n) as [|r0 rs] eqn:Er; [discriminate|]. rewrite <- Er in *.
  set (rr := List.last (rn_records n) rr_default) in *.
  destruct (negb (rr_number rr =? rd_number rd)); [discriminate|].
  inv_bind H. inv_bind H. inversion H; subst n'; clear H. unfold NLI, LI. cbn.
  rewrite F2, F3.
  assert (H1 : RepInv rw x /\ abs x = abs (r_log (rn_raft n)) /\ store x = store (r_log (rn_raft n))
               /\ same_cpa (r_log (rn_raft n)) x
               /\ (rr_last_entry rr <> None -> ents_written x)).
  { destruct (rr_snapshot rr) as [[si st]|].
    - destruct (stable_snap_pres rw _ _ _ Hx HI (P1 ltac:(discriminate)))
        as (A & B & C0 & D & E & F & G1 & G2 & G3).
      splits; auto; [split; [exact G1|split; [exact G2|exact G3]]|].
      intros Hne. specialize (P2 Hne). unfold ents_written in *. rewrite C0, E, F. exact P2.
    - inversion Hx; subst x. splits; auto. unfold same_cpa. auto. }
  destruct H1 as (A1 & B1 & C1 & (D1 & D2 & D3) & E1).
  destruct (rr_last_entry rr) as [[ei et]|].
  - destruct (stable_entries_pres rw _ _ _ _ Hx0 A1 (E1 ltac:(discriminate)))
      as (A & B & C0 & G1 & G2 & G3).
    splits; auto; try congruence. split; [congruence|split; congruence].
  - inversion Hx0; subst x0. splits; auto. split; [exact D1|split; [exact D2|exact D3]].
Qed.

(* ---- on_persist_ready: an acknowledged snapshot must be in the storage ---- *)
Definition persist_pre (n : rawnode) (number : N) : Prop :=
  let si := snd (fold_records (rn_records n) number 0 0 0) in
  persisted (nlog n) < si -> si < next_of (store (nlog n)).

Theorem rn_on_persist_ready_pres rw n number n' :
  rn_on_persist_ready n number = Ok n' -> persist_pre n number -> NLI rw n ->
  NLI rw n' /\ same_su (nlog n) (nlog n').
Proof.
  unfold rn_on_persist_ready, persist_pre, nlog. intros H P HI.
  destruct (fold_records (rn_records n) number 0 0 0) as [[[recs i] t] si]. cbn [snd] in P.
  inv_bind H. inv_bind H. inversion H; subst n'; clear H. unfold NLI. cbn.
  assert (H1 : LI rw x /\ same_su (r_log (rn_raft n)) (r_log x)).
  { destruct (negb (si =? 0)).
    - eapply on_persist_snap_pres; [exact Hx|exact HI|exact P].
    - inversion Hx; subst x. split; [exact HI|apply same_su_refl]. }
  destruct H1 as [A1 S1].
  destruct (negb (i =? 0)).
  - destruct (on_persist_entries_pres rw _ _ _ _ Hx0 A1) as [A2 S2].
    split; [exact A2|eapply same_su_trans; eassumption].
  - inversion Hx0; subst x0. split; assumption.
Qed.

(* ---- advance ---- *)
Definition advance_pre (n : rawnode) : Prop := commit_pre n /\ persist_pre n (rn_max_number n).

Theorem rn_advance_append_pres rw n rd n' lr :
  rn_advance_append n rd = Ok (n', lr) -> advance_pre n -> NLI rw n ->
  NLI rw n' /\ abs (nlog n') = abs (nlog n) /\ store (nlog n') = store (nlog n)
  /\ applied (nlog n') = applied (nlog n).
Proof.
  intros H [P1 P2] HI.
  destruct (rn_advance_append_inv _ _ _ _ H) as (n1 & n2 & n3 & lr3 & H1 & H2 & H3 & _ & _ & _ & _ & Hn' & _).
  destruct (commit_ready_pres rw _ _ _ H1 P1 HI) as (A1 & B1 & C1 & (D1 & D2 & D3) & E1 & F1).
  assert (P2' : persist_pre n1 (rn_max_number n1)).
  { unfold persist_pre in *. rewrite E1, F1, D2, C1. exact P2. }
  destruct (rn_on_persist_ready_pres rw _ _ _ H2 P2' A1) as (A2 & S2).
  pose proof (gen_light_ready_log _ _ _ H3) as E3.
  assert (E4 : nlog n' = nlog n3) by (subst n'; reflexivity).
  rewrite E4, E3. splits.
  - eapply NLI_same; [|exact A2]. congruence.
  - rewrite (same_su_abs _ _ S2). exact B1.
  - rewrite (proj1 S2). exact C1.
  - destruct S2 as (_ & _ & S2a). rewrite S2a. exact D3.
Qed.

Theorem rn_advance_append_async_pres rw n rd n' :
  rn_advance_append_async n rd = Ok n' -> commit_pre n -> NLI rw n -> NLI rw n'.
Proof. unfold rn_advance_append_async. intros H P HI. exact (proj1 (commit_ready_pres rw _ _ _ H P HI)). Qed.

Theorem rn_advance_apply_to_pres rw n a n' :
  rn_advance_apply_to n a = Ok n' -> (is_leader (rn_raft n) = true -> nroom 1 n) -> NLI rw n -> NLI rw n'.
Proof.
  unfold rn_advance_apply_to, lift. intros H Hr HI. inv_bind H. inversion H; subst.
  unfold NLI. cbn. eapply commit_apply_pres; eassumption.
Qed.

Theorem rn_advance_apply_pres rw n n' :
  rn_advance_apply n = Ok n' -> (is_leader (rn_raft n) = true -> nroom 1 n) -> NLI rw n -> NLI rw n'.
Proof. unfold rn_advance_apply. apply rn_advance_apply_to_pres. Qed.

Theorem rn_advance_pres rw n rd n' lr :
  rn_advance n rd = Ok (n', lr) -> advance_pre n -> nroom 1 n -> NLI rw n -> NLI rw n'.
Proof.
  unfold rn_advance. intros H P Hr HI. inv_bind H. destruct x as [n1 lr1]. cbn [fst snd] in H.
  inv_bind H. inversion H; subst.
  destruct (rn_advance_append_pres rw _ _ _ _ Hx P HI) as (A1 & B1 & _).
  eapply rn_advance_apply_to_pres; [exact Hx0| |exact A1].
  intros _. unfold nroom, room in *.
  assert (E : last_index (nlog n1) = last_index (nlog n)).
  { unfold nlog in *. rewrite (abs_last rw _ A1), B1. symmetry. apply (abs_last rw). exact HI. }
  unfold nlog in E. rewrite E. exact Hr.
Qed.

Lemma rn_step_plain_pres rw (n : rawnode) m x :
  step (rn_raft n) m = Ok x ->
  elect_type (m_type m) = false -> m_type m <> MsgPropose -> m_type m <> MsgAppend ->
  m_type m <> MsgSnapshot -> NLI rw n -> NLI rw (n <| rn_raft := fst x |>).
Proof.
  intros H A B C0 D HI. destruct x as [r1 c1]. unfold NLI. cbn.
  eapply step_pres; [exact H|apply msg_wf_plain; assumption|exact HI].
Qed.

Theorem rn_report_unreachable_pres rw n id n' :
  rn_report_unreachable n id = Ok n' -> NLI rw n -> NLI rw n'.
Proof.
  unfold rn_report_unreachable. intros H HI. inv_bind H. inversion H; subst.
  eapply rn_step_plain_pres; [exact Hx| | | | |exact HI]; cbn; (reflexivity || discriminate).
Qed.

Theorem rn_report_snapshot_pres rw n id f n' :
  rn_report_snapshot n id f = Ok n' -> NLI rw n -> NLI rw n'.
Proof.
  unfold rn_report_snapshot. intros H HI. inv_bind H. inversion H; subst.
  eapply rn_step_plain_pres; [exact Hx| | | | |exact HI]; cbn; (reflexivity || discriminate).
Qed.

Theorem rn_transfer_leader_pres rw n t n' :
  rn_transfer_leader n t = Ok n' -> NLI rw n -> NLI rw n'.
Proof.
  unfold rn_transfer_leader. intros H HI. inv_bind H. inversion H; subst.
  eapply rn_step_plain_pres; [exact Hx| | | | |exact HI]; cbn; (reflexivity || discriminate).
Qed.

Theorem rn_read_index_pres rw n ctx n' :
  rn_read_index n ctx = Ok n' -> NLI rw n -> NLI rw n'.
Proof.
  unfold rn_read_index. intros H HI. inv_bind H. inversion H; subst.
  eapply rn_step_plain_pres; [exact Hx| | | | |exact HI]; cbn; (reflexivity || discriminate).
Qed.

Theorem rn_request_snapshot_log n n' c : rn_request_snapshot n = Ok (n', c) -> nlog n' = nlog n.
Proof.
  unfold rn_request_snapshot, lift2. intros H. inv_bind H. destruct x as [r1 c1]. inversion H; subst.
  unfold nlog. cbn. eapply request_snapshot_log; exact Hx.
Qed.

(* ---- RawNode::new ---- *)
Theorem rn_new_pres c st sa dr n :
  rn_new c st sa dr = Ok (inr n) -> SInv st -> trig_log st = false ->
  NLI true n /\ (c_applied c = 0 -> NLI false n) /\ store (nlog n) = st.
Proof.
  unfold rn_new. intros H Hs Hq. destruct (c_id c =? 0); [discriminate|].
  inv_bind H. destruct x as [e|r]; inversion H; subst. unfold NLI, nlog. cbn.
  eapply raft_new_pres; eassumption.
Qed.

(* ================================================================== *)
(* Part D. The application's storage writes (C07's [OSetStore])         *)
(* ================================================================== *)

(* D1: hard state / conf state / anything but entries and the snapshot point *)
Lemma write_meta_pres rw l m' :
  entries m' = entries (store l) -> snap_index m' = snap_index (store l) ->
  snap_term m' = snap_term (store l) -> trig_log m' = trig_log (store l) ->
  RepInv rw l -> RepInv rw (set_store l m') /\ abs (set_store l m') = abs l.
Proof.
  intros He Hsi Hst Hq HI. destruct HI as [Hs Hqq Hct Hsh Hp Hcm Hap Hb].
  assert (Hf : first_of m' = first_of (store l)) by (unfold first_of; rewrite He, Hsi; reflexivity).
  assert (Hn : next_of m' = next_of (store l)) by (unfold next_of; rewrite Hf, He; reflexivity).
  assert (Habs : abs (set_store l m') = abs l).
  { unfold abs, stable_part, store_bterm. cbn [set_store store unst]. rewrite Hf, He, Hsi, Hst. reflexivity. }
  split; [|exact Habs].
  constructor; rewrite ?Habs; cbn [set_store store unst committed persisted applied]; rewrite ?Hf, ?Hn; auto.
  - eapply RepInv_ext; [exact He|exact Hsi|exact Hs].
  - congruence.
Qed.

(* D2: the unstable entries, no snapshot pending: [store_append_unstable_ok] *)
Lemma write_entries_pres rw l st' :
  RepInv rw l -> u_snapshot (unst l) = None -> append (store l) (u_entries (unst l)) = Ok st' ->
  RepInv rw (set_store l st') /\ abs (set_store l st') = abs l /\ ents_written (set_store l st').
Proof.
  intros HI Hn Ha. destruct (store_append_unstable_ok rw l HI Hn) as (st2 & Ha2 & Hr & Habs & _ & Hsk & _).
  rewrite Ha in Ha2. inversion Ha2; subst st2. splits; auto.
Qed.

Lemma apply_snapshot_ok_inv m s st' :
  SInv m -> apply_snapshot m s = Ok (st', SOk tt) -> first_of m <= s_index s.
Proof.
  intros Hs H. destruct (N.le_gt_cases (first_of m) (s_index s)) as [Hle|Hgt]; [exact Hle|].
  rewrite (apply_snapshot_out_of_date m s Hs Hgt) in H. discriminate.
Qed.

(* D3: the pending snapshot: [store_apply_snapshot_ok] *)
Lemma write_snapshot_pres rw l s st' :
  RepInv rw l -> u_snapshot (unst l) = Some s -> apply_snapshot (store l) s = Ok (st', SOk tt) ->
  RepInv rw (set_store l st') /\ abs (set_store l st') = abs l /\ snap_written (set_store l st')
  /\ entries st' = [].
Proof.
  intros HI Hsn Ha.
  pose proof (apply_snapshot_ok_inv _ _ _ (ri_store rw l HI) Ha) as Hf.
  destruct (store_apply_snapshot_ok rw l s HI Hsn Hf) as (Ha2 & Hr & Habs & A & B & C0 & D).
  rewrite Ha in Ha2. inversion Ha2 as [E]. rewrite <- E in *. splits; auto.
  unfold snap_written. cbn [set_store store unst]. rewrite Hsn. splits; auto.
Qed.

(* D4: the unstable entries that follow a pending snapshot already applied to the storage *)
Lemma write_entries_after_snapshot_pres rw l s st' :
  RepInv rw l -> u_snapshot (unst l) = Some s -> snap_written l ->
  append (store l) (u_entries (unst l)) = Ok st' ->
  RepInv rw (set_store l st') /\ abs (set_store l st') = abs l /\ snap_written (set_store l st')
  /\ entries st' = u_entries (unst l).
Proof.
  intros HI Hsn Hw Ha. unfold snap_written in Hw. rewrite Hsn in Hw. destruct Hw as (W1 & W2 & W3 & W4).
  destruct (u_entries (unst l)) as [|e0 t] eqn:Eu.
  - cbn in Ha. inversion Ha; subst st'.
    replace (set_store l (store l)) with l by (destruct l; reflexivity).
    splits; auto. unfold snap_written. rewrite Hsn, Eu. splits; auto.
  - pose proof HI as HI0. destruct HI0 as [Hs Hq Hct Hsh Hp Hcm Hap Hb]. rewrite Hsn in Hsh.
    destruct Hsh as [Ho Hsc]. rewrite Eu in Hct.
    assert (Hi0 : e_index e0 = u_offset (unst l)) by (destruct Hct; assumption).
    assert (Hbd : s_index s + N.of_nat (length (e0 :: t)) < u64_max).
    { unfold abs, ll_last in Hb. rewrite Hsn, Eu in Hb. cbn [ll_base ll_ents] in Hb. exact Hb. }
    pose proof (first_le_next (store l)) as Hfn.
    destruct (append_ok (store l) e0 t Hs ltac:(rewrite Hi0; exact Hct) ltac:(lia) ltac:(lia))
      as (Ha2 & Hs' & Hf').
    rewrite Ha in Ha2. injection Ha2 as E.
    assert (Hent : entries st' = e0 :: t).
    { rewrite E. cbn [entries set_entries]. replace (N.to_nat (e_index e0 - first_of (store l))) with O by lia.
      reflexivity. }
    assert (Hf2 : first_of st' = first_of (store l)) by (rewrite E; exact Hf').
    assert (Habs : abs (set_store l st') = abs l).
    { unfold abs. cbn [set_store unst]. rewrite Hsn. reflexivity. }
    splits; auto.
    + constructor; rewrite ?Habs; cbn [set_store store unst committed persisted applied]; rewrite ?Hsn, ?Eu; auto.
      * rewrite E. exact Hs'.
      * rewrite E. exact Hq.
      * destruct Hp as [Hp1 Hp2]. split; [exact Hp1|]. unfold next_of. rewrite Hf2, Hent. cbn [length] in *. lia.
    + unfold snap_written. cbn [set_store store unst]. rewrite Hsn, Eu.
      splits; try (rewrite E; assumption); [congruence|discriminate].
Qed.

(* D5: compaction at or below applied: [store_compact_ok] / [store_compact_noop] *)
Lemma write_compact_pres rw l ci st' :
  RepInv rw l -> u_snapshot (unst l) = None -> applied l <= committed l ->
  ci <= applied l -> ci <= u_offset (unst l) -> ci < next_of (store l) ->
  compact (store l) ci = Ok st' ->
  RepInv rw (set_store l st') /\ last_index (set_store l st') = last_index l
  /\ preserves_upto (committed l) (abs l) (abs (set_store l st')).
Proof.
  intros HI Hn Hac Hca Hco Hcn Hc.
  assert (HF : RepInv false l) by (apply RepInv_close_window; [apply (RepInv_true rw); exact HI|exact Hac]).
  destruct (N.le_gt_cases ci (first_of (store l))) as [Hle|Hgt].
  - rewrite (store_compact_noop false l ci HF Hle) in Hc. inversion Hc; subst st'.
    replace (set_store l (store l)) with l by (destruct l; reflexivity).
    splits; auto. apply preserves_refl. reflexivity.
  - destruct (store_compact_ok l ci HF Hn Hgt Hca Hco Hcn) as (st2 & Hc2 & Hr & Habs & _).
    rewrite Hc in Hc2. inversion Hc2; subst st2. splits.
    + apply RepInv_any. exact Hr.
    + rewrite (abs_last false _ Hr), (abs_last false _ HF), Habs. unfold ll_last. cbn [ll_base ll_ents].
      rewrite skipn_length. unfold abs. rewrite Hn. cbn [ll_base ll_ents].
      destruct HF as [Hs _ _ Hsh _ _ _ _]. rewrite Hn in Hsh. destruct Hsh as (Hr0 & _ & _).
      rewrite app_length, (stable_part_length l Hr0). pose proof (first_pos _ Hs). lia.
    + eapply committed_immutable_compact; eassumption.
Qed.

(* the writes of the Ready contract, as one relation on (log, new store) *)
Inductive store_write (l : raft_log) : MemStorage.mem -> Prop :=
| SW_meta m' :
    entries m' = entries (store l) -> snap_index m' = snap_index (store l) ->
    snap_term m' = snap_term (store l) -> trig_log m' = trig_log (store l) -> store_write l m'
| SW_entries st' :
    u_snapshot (unst l) = None -> append (store l) (u_entries (unst l)) = Ok st' -> store_write l st'
| SW_snapshot s st' :
    u_snapshot (unst l) = Some s -> apply_snapshot (store l) s = Ok (st', SOk tt) -> store_write l st'
| SW_entries_after_snapshot s st' :
    u_snapshot (unst l) = Some s -> snap_written l ->
    append (store l) (u_entries (unst l)) = Ok st' -> store_write l st'
| SW_compact ci st' :
    u_snapshot (unst l) = None -> applied l <= committed l ->
    ci <= applied l -> ci <= u_offset (unst l) -> ci < next_of (store l) ->
    compact (store l) ci = Ok st' -> store_write l st'.

Theorem store_write_pres rw l st' :
  store_write l st' -> RepInv rw l ->
  RepInv rw (set_store l st') /\ last_index (set_store l st') = last_index l
  /\ preserves_upto (committed l) (abs l) (abs (set_store l st')).
Proof.
  intros W HI.
  assert (Hsame : forall st', RepInv rw (set_store l st') -> abs (set_store l st') = abs l ->
            RepInv rw (set_store l st') /\ last_index (set_store l st') = last_index l
            /\ preserves_upto (committed l) (abs l) (abs (set_store l st'))).
  { intros st2 Hr Habs. splits; auto.
    - rewrite (abs_last rw _ Hr), Habs. symmetry. apply (abs_last rw). exact HI.
    - apply preserves_refl. exact Habs. }
  destruct W.
  - destruct (write_meta_pres rw l m' H H0 H1 H2 HI) as [A B]. auto.
  - destruct (write_entries_pres rw l st' HI H H0) as (A & B & _). auto.
  - destruct (write_snapshot_pres rw l s st' HI H H0) as (A & B & _). auto.
  - destruct (write_entries_after_snapshot_pres rw l s st' HI H H0 H1) as (A & B & _). auto.
  - eapply write_compact_pres; eassumption.
Qed.

(* ---- at node level: what a Ready told the application to write ---- *)
Definition set_store_node (n : rawnode) (m : MemStorage.mem) : rawnode :=
  n <| rn_raft := (rn_raft n) <| r_log := set_store (r_log (rn_raft n)) m |> |>.

Lemma exec_set_store n m : exec n (OSetStore m) = Ok (set_store_node n m, no_out).
Proof. reflexivity. Qed.

Theorem set_store_pres rw n m :
  store_write (nlog n) m -> NLI rw n -> NLI rw (set_store_node n m).
Proof. intros W HI. exact (proj1 (store_write_pres rw _ _ W HI)). Qed.

(* the application persists a Ready: applies its snapshot (when not empty), then
   appends its entries; None = the storage refused the snapshot (out of date) *)
Definition write_ready (st : MemStorage.mem) (rd : ready) : Res (option MemStorage.mem) :=
  if s_index (rd_snapshot rd) =? 0 then st' <- append st (rd_entries rd) ;; Ok (Some st')
  else
    r <- apply_snapshot st (rd_snapshot rd) ;;
    match snd r with
    | SErr _ => Ok None
    | SOk _ => st' <- append (fst r) (rd_entries rd) ;; Ok (Some st')
    end.

Lemma last_snoc {A} (l : list A) x d : List.last (l ++ [x]) d = x.
Proof. apply last_last. Qed.

Lemma fold_records_single rr number :
  snd (fold_records [rr] number 0 0 0)
  = if number <? rr_number rr then 0
    else match rr_snapshot rr with Some (i, _) => i | None => 0 end.
Proof.
  cbn [fold_records]. destruct (number <? rr_number rr); [reflexivity|].
  destruct (rr_snapshot rr) as [[i t]|]; destruct (rr_last_entry rr) as [[a b]|]; reflexivity.
Qed.

(* (2): the Ready is written as told => the invariant holds across the write and the
   preconditions of advance / advance_append / advance_append_async are met *)
Theorem ready_write_pres rw n n1 rd st' :
  rn_ready n = Ok (n1, rd) -> NLI rw n ->
  (forall s, u_snapshot (unst (nlog n)) = Some s -> s_index s <> 0) ->
  write_ready (store (nlog n)) rd = Ok (Some st') ->
  let n2 := set_store_node n1 st' in
  NLI rw n2 /\ abs (nlog n2) = abs (nlog n) /\ commit_pre n2
  /\ (rn_records n = [] -> persist_pre n2 (rn_max_number n2)).
Proof.
  intros H HI Hs0 Hw n2.
  destruct (ready_entries_are_unstable _ _ _ H)
    as (Eents & _ & _ & Emax & _ & _ & _ & _ & Esnap & (recs & Hrecs & _ & Erec) & _ & _ & Elog & _).
  fold (nlog n1) in Elog. fold (nlog n) in Elog, Eents, Esnap, Erec.
  assert (Hrec2 : rn_records n2 = rn_records n1) by reflexivity.
  assert (Hmax2 : rn_max_number n2 = rn_max_number n1) by reflexivity.
  assert (Hlog2 : nlog n2 = set_store (nlog n) st') by (unfold n2, nlog, set_store_node; cbn; fold (nlog n1); rewrite Elog; reflexivity).
  unfold NLI, LI in *. fold (nlog n) in HI. fold (nlog n2).
  assert (Hsingle : rn_records n = [] -> recs = []).
  { intros E. unfold ready_records in Hrecs. destruct (_ && _); [apply Hrecs|rewrite E in Hrecs; exact Hrecs]. }
  unfold write_ready in Hw. rewrite Esnap, Eents in Hw.
  unfold commit_pre, persist_pre. rewrite Hrec2, Hmax2, Erec, last_snoc, Hlog2, Emax.
  cbn [rr_snapshot rr_last_entry].
  destruct (u_snapshot (unst (nlog n))) as [s|] eqn:Es.
  - (* snapshot (and possibly entries after it) *)
    specialize (Hs0 s eq_refl). destruct (s_index s =? 0) eqn:E0; [lia|].
    inv_bind Hw. destruct x as [st1 res]. cbn [fst snd] in Hw. destruct res as [[]|e]; [|discriminate].
    inv_bind Hw. inversion Hw; subst x; clear Hw.
    destruct (write_snapshot_pres rw _ _ _ HI Es Hx) as (A1 & B1 & C1 & _).
    assert (Es1 : u_snapshot (unst (set_store (nlog n) st1)) = Some s) by exact Es.
    destruct (write_entries_after_snapshot_pres rw _ _ _ A1 Es1 C1 Hx0) as (A2 & B2 & C2 & D2).
    change (set_store (set_store (nlog n) st1) st') with (set_store (nlog n) st') in *.
    cbn [set_store unst] in D2.
    splits; auto.
    + congruence.
    + intros _. unfold ents_written. cbn [set_store store unst].
      unfold snap_written in C2. cbn [set_store store unst] in C2. rewrite Es in C2.
      destruct C2 as (_ & _ & Hf & _).
      pose proof (ri_shape rw _ HI) as Hsh. rewrite Es in Hsh. destruct Hsh as [Ho _].
      rewrite Hf, Ho. replace (N.to_nat (s_index s + 1 - (s_index s + 1))) with O by lia. exact D2.
    + intros Er. rewrite (Hsingle Er). cbn [app]. rewrite fold_records_single. cbn [rr_number rr_snapshot option_map].
      rewrite N.ltb_irrefl. intros _.
      unfold snap_written in C2. cbn [set_store store unst] in C2. rewrite Es in C2.
      destruct C2 as (_ & _ & Hf & _). cbn [set_store store].
      pose proof (first_le_next st'). lia.
  - (* entries only *)
    cbn [snap_default s_index] in Hw. change (0 =? 0) with true in Hw. cbn match in Hw.
    inv_bind Hw. inversion Hw; subst x; clear Hw.
    destruct (write_entries_pres rw _ _ HI Es Hx) as (A & B & C0).
    splits; auto.
    + intros Hc. cbn [option_map] in Hc. congruence.
    + intros Er. rewrite (Hsingle Er). cbn [app]. rewrite fold_records_single. cbn [rr_number rr_snapshot option_map].
      rewrite N.ltb_irrefl. intros Hp. lia.
Qed.

(* the write itself cannot panic and is not refused, provided the storage is not
   ahead of the pending snapshot *)
Theorem write_ready_total rw n n1 rd :
  rn_ready n = Ok (n1, rd) -> NLI rw n ->
  (forall s, u_snapshot (unst (nlog n)) = Some s ->
     s_index s <> 0 /\ first_of (store (nlog n)) <= s_index s) ->
  exists st', write_ready (store (nlog n)) rd = Ok (Some st').
Proof.
  intros H HI Hs0.
  destruct (ready_entries_are_unstable _ _ _ H) as (Eents & _ & _ & _ & _ & _ & _ & _ & Esnap & _).
  fold (nlog n) in Eents, Esnap. unfold NLI, LI in HI. fold (nlog n) in HI.
  unfold write_ready. rewrite Esnap, Eents.
  destruct (u_snapshot (unst (nlog n))) as [s|] eqn:Es.
  - destruct (Hs0 s eq_refl) as [Hz Hf]. destruct (s_index s =? 0) eqn:E0; [lia|].
    destruct (store_apply_snapshot_ok rw _ s HI Es Hf) as (Ha & Hr & _ & A & B & C0 & D).
    rewrite Ha. cbn [bind fst snd].
    set (l1 := set_store (nlog n) (apply_snapshot_result (store (nlog n)) s)) in *.
    destruct (u_entries (unst (nlog n))) as [|e0 t] eqn:Eu; [cbn; eauto|].
    pose proof (ri_contig rw _ HI) as Hct. rewrite Eu in Hct.
    pose proof (ri_shape rw _ HI) as Hsh. rewrite Es in Hsh. destruct Hsh as [Ho _].
    assert (Hi0 : e_index e0 = u_offset (unst (nlog n))) by (destruct Hct; assumption).
    pose proof (ri_bound rw _ HI) as Hb. unfold abs, ll_last in Hb. rewrite Es, Eu in Hb. cbn [ll_base ll_ents] in Hb.
    pose proof (first_le_next (apply_snapshot_result (store (nlog n)) s)) as Hfn.
    destruct (append_ok (apply_snapshot_result (store (nlog n)) s) e0 t (ri_store rw _ Hr)
                ltac:(rewrite Hi0; exact Hct) ltac:(lia) ltac:(lia)) as (Ha2 & _).
    rewrite Ha2. cbn [bind]. eauto.
  - cbn [snap_default s_index]. change (0 =? 0) with true. cbn match.
    destruct (store_append_unstable_ok rw _ HI Es) as (st' & Ha & _). rewrite Ha. cbn [bind]. eauto.
Qed.

(* the synchronous cycle: ready, write, advance_append / advance *)
Theorem ready_write_advance_append rw n n1 rd st' n3 lr :
  rn_ready n = Ok (n1, rd) -> NLI rw n -> rn_records n = [] ->
  (forall s, u_snapshot (unst (nlog n)) = Some s -> s_index s <> 0) ->
  write_ready (store (nlog n)) rd = Ok (Some st') ->
  rn_advance_append (set_store_node n1 st') rd = Ok (n3, lr) ->
  NLI rw n3 /\ abs (nlog n3) = abs (nlog n).
Proof.
  intros H HI Er Hs0 Hw Ha.
  destruct (ready_write_pres rw _ _ _ _ H HI Hs0 Hw) as (A & B & C0 & D).
  destruct (rn_advance_append_pres rw _ _ _ _ Ha (conj C0 (D Er)) A) as (A3 & B3 & _).
  split; [exact A3|congruence].
Qed.

(* ... and it leaves no outstanding record, so the cycle can be repeated *)
Theorem sync_cycle_records n n1 rd st' n3 lr :
  rn_ready n = Ok (n1, rd) -> rn_records n = [] ->
  rn_advance_append (set_store_node n1 st') rd = Ok (n3, lr) -> rn_records n3 = [].
Proof.
  intros H Er Ha.
  destruct (ready_entries_are_unstable _ _ _ H)
    as (_ & _ & _ & Emax & _ & _ & _ & _ & _ & (recs & Hrecs & _ & Erec) & _).
  assert (Hr0 : recs = []).
  { unfold ready_records in Hrecs. destruct (_ && _); [apply Hrecs|rewrite Er in Hrecs; exact Hrecs]. }
  destruct (rn_advance_append_inv _ _ _ _ Ha) as (m1 & m2 & m3 & lr3 & H1 & H2 & H3 & _ & _ & _ & _ & Hn' & _).
  destruct (commit_ready_stabilises _ _ _ H1) as (_ & _ & _ & E1).
  destruct (on_persist_ready_spec _ _ _ H2) as (i & t & si & r1 & _ & E2 & _).
  destruct (gen_light_ready_spec _ _ _ H3) as (oe & k & _ & _ & E3 & _).
  assert (A3 : rn_records n3 = rn_records m3) by (subst n3; reflexivity).
  assert (A2 : rn_records m3 = rn_records m2) by (rewrite E3; reflexivity).
  destruct (commit_prev_frame (set_store_node n1 st') rd) as (_ & F2 & F3 & _).
  assert (A1 : rn_records m1 = rn_records n1 /\ rn_max_number m1 = rn_max_number n1).
  { rewrite E1. split; [exact F2|exact F3]. }
  destruct A1 as [A1 A1'].
  rewrite A3, A2, E2, A1, A1', Erec, Emax, Hr0. cbn [app drop_le rr_number].
  rewrite N.ltb_irrefl. reflexivity.
Qed.

(* ================================================================== *)
(* Part E. Traces over C07's op alphabet                                *)
(* ================================================================== *)

(* the caller-side contract of one call, at the state it is made in *)
Definition op_wf (n : rawnode) (o : op) : Prop :=
  match o with
  | OStep m => msg_wf (nlast n) m
  | OTick | OCampaign | OPropose _ _ | OProposeCC _ _ _ _ => nroom 1 n
  | OAdvance _ => advance_pre n /\ nroom 1 n
  | OAdvanceAppend _ => advance_pre n
  | OAdvanceAppendAsync _ => commit_pre n
  | OOnPersistReady k => persist_pre n k
  | OAdvanceApply | OAdvanceApplyTo _ => is_leader (rn_raft n) = true -> nroom 1 n
  | OSetStore m => store_write (nlog n) m
  | OApplyCC _ | OPing | OReady | OReportUnreachable _ | OReportSnapshot _ _
  | ORequestSnapshot | OTransferLeader _ | OReadIndex _ => True
  end.

Theorem exec_pres rw n o n' ot :
  exec n o = Ok (n', ot) -> op_wf n o -> NLI rw n -> NLI rw n'.
Proof.
  intros H W HI. destruct o; cbn [exec op_wf] in H, W; unfold quiet, quiet1 in H;
    try (inv_bind H; inversion H; subst; clear H).
  - destruct x as [n1 c]. eapply rn_step_pres; eassumption.
  - destruct x as [n1 c]. eapply rn_tick_pres; eassumption.
  - destruct x as [n1 c]. eapply rn_campaign_pres; eassumption.
  - destruct x as [n1 c]. eapply rn_propose_pres; eassumption.
  - destruct x as [n1 c]. eapply rn_propose_conf_change_pres; eassumption.
  - destruct x as [n1 c]. eapply rn_apply_conf_change_pres; eassumption.
  - eapply NLI_same; [eapply rn_ping_log; exact Hx|exact HI].
  - destruct x as [n1 rd]. eapply NLI_same; [eapply rn_ready_log; exact Hx|exact HI].
  - destruct x as [n1 lr]. destruct W. eapply rn_advance_pres; eassumption.
  - destruct x as [n1 lr]. exact (proj1 (rn_advance_append_pres rw _ _ _ _ Hx W HI)).
  - eapply rn_advance_append_async_pres; eassumption.
  - exact (proj1 (rn_on_persist_ready_pres rw _ _ _ Hx W HI)).
  - eapply rn_advance_apply_pres; eassumption.
  - eapply rn_advance_apply_to_pres; eassumption.
  - eapply rn_report_unreachable_pres; eassumption.
  - eapply rn_report_snapshot_pres; eassumption.
  - destruct x as [n1 c]. eapply NLI_same; [eapply rn_request_snapshot_log; exact Hx|exact HI].
  - eapply rn_transfer_leader_pres; eassumption.
  - eapply rn_read_index_pres; eassumption.
  - inversion H; subst. eapply set_store_pres; eassumption.
Qed.

(* any sequence of contract-abiding calls *)
Inductive wrun : rawnode -> rawnode -> Prop :=
| wrun_nil n : wrun n n
| wrun_cons n o n1 ot n' : op_wf n o -> exec n o = Ok (n1, ot) -> wrun n1 n' -> wrun n n'.

Theorem wrun_pres rw n n' : wrun n n' -> NLI rw n -> NLI rw n'.
Proof.
  intros R. induction R as [|n o n1 ot n' W E R IH]; intros HI; [exact HI|].
  apply IH. eapply exec_pres; eassumption.
Qed.

(* what the invariant says in terms of the indexes *)
Theorem NLI_bounds rw n :
  NLI rw n ->
  committed (nlog n) <= last_index (nlog n) /\ last_index (nlog n) < u64_max
  /\ persisted (nlog n) <= storage_last_index (store (nlog n))
  /\ persisted (nlog n) <= last_index (nlog n)
  /\ (rw = false -> applied (nlog n) <= committed (nlog n)).
Proof.
  unfold NLI, LI, nlog. intros H. splits.
  - eapply RepInv_committed_le_last; exact H.
  - eapply RepInv_last_bound; exact H.
  - eapply persisted_le_storage_last; exact H.
  - eapply RepInv_persisted_le_last; exact H.
  - exact (ri_applied rw _ H).
Qed.

(* the restart window closes as soon as applied <= committed, and stays closed *)
Theorem window_closes n n' :
  NLI true n -> applied (nlog n) <= committed (nlog n) -> wrun n n' ->
  NLI false n' /\ applied (nlog n') <= committed (nlog n').
Proof.
  intros HI Ha R.
  assert (HF : NLI false n) by (apply RepInv_close_window; assumption).
  pose proof (wrun_pres false _ _ R HF) as H'. split; [exact H'|].
  exact (ri_applied false _ H' eq_refl).
Qed.

(* (3b) from RawNode::new over a well-formed store: the invariant and its index
   bounds hold at every point of every contract-abiding trace *)
Theorem trace_from_new c st sa dr n0 n :
  rn_new c st sa dr = Ok (inr n0) -> SInv st -> trig_log st = false -> wrun n0 n ->
  NLogOK n
  /\ committed (nlog n) <= last_index (nlog n) /\ last_index (nlog n) < u64_max
  /\ persisted (nlog n) <= storage_last_index (store (nlog n))
  /\ (c_applied c = 0 -> applied (nlog n) <= committed (nlog n)).
Proof.
  intros H Hs Hq R. destruct (rn_new_pres _ _ _ _ _ H Hs Hq) as (A & B & _).
  pose proof (wrun_pres true _ _ R A) as HT.
  destruct (NLI_bounds true n HT) as (B1 & B2 & B3 & _).
  splits; auto.
  - exists true. exact HT.
  - intros Hz. exact (ri_applied false _ (wrun_pres false _ _ R (B Hz)) eq_refl).
Qed.

(* with a restart at Config.applied > 0 the clause applied <= committed holds from the
   first state on in which it holds *)
Theorem trace_from_new_window c st sa dr n0 n1 n :
  rn_new c st sa dr = Ok (inr n0) -> SInv st -> trig_log st = false ->
  wrun n0 n1 -> applied (nlog n1) <= committed (nlog n1) -> wrun n1 n ->
  applied (nlog n) <= committed (nlog n) /\ committed (nlog n) <= last_index (nlog n).
Proof.
  intros H Hs Hq R1 Ha R2. destruct (rn_new_pres _ _ _ _ _ H Hs Hq) as (A & _).
  pose proof (wrun_pres true _ _ R1 A) as H1.
  destruct (window_closes _ _ H1 Ha R2) as [HF Hb]. split; [exact Hb|].
  exact (proj1 (NLI_bounds false n HF)).
Qed.

(* ---------------- (3c) C07 hand-out without the RepInv hypothesis ---------------- *)

(* what remains of C07's [handout_pre] once RepInv comes from the trace: the
   hand-out cursor is a proper u64 and nothing was compacted beyond it *)
Definition handout_side (l : raft_log) (since : N) : Prop :=
  since < u64_max /\ ll_first (abs l) <= since + 1.

Definition op_pre_node (n : rawnode) (o : op) : Prop :=
  op_wf n o /\
  match o with
  | OReady => handout_side (nlog n) (ready_since n)
  | OAdvance rd | OAdvanceAppend rd =>
      forall n1 n2, commit_ready n rd = Ok n1 ->
                    rn_on_persist_ready n1 (rn_max_number n1) = Ok n2 ->
                    handout_side (nlog n2) (rn_commit_since_index n2)
  | _ => True
  end.

Lemma op_pre_node_op_pre rw n o : NLI rw n -> op_pre_node n o -> op_pre n o.
Proof.
  intros HI [W S]. destruct o; cbn [op_pre]; try exact I.
  - destruct S as [S1 S2]. split; [exists rw; exact HI|split; assumption].
  - cbn [op_wf] in W. destruct W as [[P1 P2] _]. intros n1 n2 H1 H2.
    destruct (S n1 n2 H1 H2) as [S1 S2].
    destruct (commit_ready_pres rw _ _ _ H1 P1 HI) as (A1 & _ & C1 & (_ & D2 & _) & E1 & F1).
    assert (P2' : persist_pre n1 (rn_max_number n1)).
    { unfold persist_pre in *. rewrite E1, F1, D2, C1. exact P2. }
    destruct (rn_on_persist_ready_pres rw _ _ _ H2 P2' A1) as (A2 & _).
    split; [exists rw; exact A2|split; assumption].
  - cbn [op_wf] in W. destruct W as [P1 P2]. intros n1 n2 H1 H2.
    destruct (S n1 n2 H1 H2) as [S1 S2].
    destruct (commit_ready_pres rw _ _ _ H1 P1 HI) as (A1 & _ & C1 & (_ & D2 & _) & E1 & F1).
    assert (P2' : persist_pre n1 (rn_max_number n1)).
    { unfold persist_pre in *. rewrite E1, F1, D2, C1. exact P2. }
    destruct (rn_on_persist_ready_pres rw _ _ _ H2 P2' A1) as (A2 & _).
    split; [exists rw; exact A2|split; assumption].
Qed.

Inductive nrun : rawnode -> hist -> rawnode -> hist -> Prop :=
| nrun_nil n h : nrun n h n h
| nrun_cons n h o n1 ot n' h' :
    op_pre_node n o -> exec n o = Ok (n1, ot) -> nrun n1 (hist_step h ot) n' h' -> nrun n h n' h'.

Theorem handout_contiguous_node rw n h n' h' :
  NLI rw n -> Hist n h -> nrun n h n' h' -> Hist n' h' /\ NLI rw n'.
Proof.
  intros HI HH R. induction R as [|n h o n1 ot n' h' Hp He R IH]; [split; assumption|].
  apply IH.
  - eapply exec_pres; [exact He|exact (proj1 Hp)|exact HI].
  - eapply handout_exec; [exact HH|eapply op_pre_node_op_pre; eassumption|exact He].
Qed.

Theorem handout_contiguous_from_new c st sa dr n0 n h :
  rn_new c st sa dr = Ok (inr n0) -> SInv st -> trig_log st = false ->
  nrun n0 (c_applied c, []) n h -> Hist n h /\ NLogOK n.
Proof.
  intros H Hs Hq R. destruct (rn_new_pres _ _ _ _ _ H Hs Hq) as (A & _).
  destruct (handout_contiguous_node true _ _ _ _ A (handout_init _ _ _ _ _ H) R) as [B C0].
  split; [exact B|exists true; exact C0].
Qed.

(* ---------------- (3c) C13 append_entries_contiguous ---------------- *)
Theorem append_entries_contiguous_node r to pr ae r' pr' m :
  LogOK r -> r_batch_append r = false ->
  maybe_send_append r to pr ae = Ok (r', pr', true) ->
  r_msgs r' = r_msgs r ++ [m] -> m_type m = MsgAppend ->
  contiguous_from (m_index m + 1) (m_entries m) /\
  from_log (r_log r) (m_index m + 1) (m_entries m) /\
  (r_max_msg_size r <> NO_LIMIT ->
     total_size entry_size (m_entries m) <= r_max_msg_size r \/ length (m_entries m) = 1%nat).
Proof.
  intros [rw HI]. apply append_entries_contiguous. eapply RepInv_LogInv; exact HI.
Qed.

Theorem append_entries_contiguous_from_new c st sa dr n0 n to pr ae r' pr' m :
  rn_new c st sa dr = Ok (inr n0) -> SInv st -> trig_log st = false -> wrun n0 n ->
  r_batch_append (rn_raft n) = false ->
  maybe_send_append (rn_raft n) to pr ae = Ok (r', pr', true) ->
  r_msgs r' = r_msgs (rn_raft n) ++ [m] -> m_type m = MsgAppend ->
  contiguous_from (m_index m + 1) (m_entries m) /\
  from_log (nlog n) (m_index m + 1) (m_entries m).
Proof.
  intros H Hs Hq R Hb Hm Hms Ht.
  destruct (trace_from_new _ _ _ _ _ _ H Hs Hq R) as (A & _).
  destruct (append_entries_contiguous_node _ _ _ _ _ _ _ A Hb Hm Hms Ht) as (B & C0 & _).
  split; assumption.
Qed.

(* ================================================================== *)
(* The definitions used in the statements, spelled out (for Props/)      *)
(* ================================================================== *)
Lemma LI_def rw r : LI rw r <-> RepInv rw (r_log r).
Proof. reflexivity. Qed.

Lemma NLI_def rw n : NLI rw n <-> RepInv rw (r_log (rn_raft n)).
Proof. reflexivity. Qed.

Lemma NLogOK_def n : NLogOK n <-> exists rw, RepInv rw (r_log (rn_raft n)).
Proof. reflexivity. Qed.

Lemma room_def k r : room k r <-> last_index (r_log r) + k < u64_max.
Proof. reflexivity. Qed.

Lemma nroom_def k n : nroom k n <-> last_index (r_log (rn_raft n)) + k < u64_max.
Proof. reflexivity. Qed.

Lemma nlog_def n : nlog n = r_log (rn_raft n).
Proof. reflexivity. Qed.

Lemma nlast_def n : nlast n = last_index (r_log (rn_raft n)).
Proof. reflexivity. Qed.

Lemma append_wf_def m :
  append_wf m <->
  contiguous_from (m_index m + 1) (m_entries m)
  /\ m_index m + N.of_nat (length (m_entries m)) < u64_max.
Proof. reflexivity. Qed.

Lemma msg_wf_def li m :
  msg_wf li m <->
  (((m_type m =? MsgHup) || (m_type m =? MsgTimeoutNow) || (m_type m =? MsgRequestVoteResponse)
    || (m_type m =? MsgRequestPreVoteResponse)) = true -> li + 1 < u64_max)
  /\ (m_type m = MsgPropose -> li + N.of_nat (length (m_entries m)) < u64_max)
  /\ (m_type m = MsgAppend -> append_wf m)
  /\ (m_type m = MsgSnapshot -> s_index (m_snapshot m) < u64_max).
Proof. reflexivity. Qed.

Lemma snap_written_def l :
  snap_written l <->
  match u_snapshot (unst l) with
  | Some s => snap_index (store l) = s_index s /\ snap_term (store l) = s_term s
              /\ first_of (store l) = s_index s + 1
              /\ (u_entries (unst l) = [] -> entries (store l) = [])
  | None => True
  end.
Proof. reflexivity. Qed.

Lemma ents_written_def l :
  ents_written l <->
  skipn (N.to_nat (u_offset (unst l) - first_of (store l))) (entries (store l)) = u_entries (unst l).
Proof. reflexivity. Qed.

Lemma commit_pre_def n :
  commit_pre n <->
  (rr_snapshot (List.last (rn_records n) (mkRR 0 None None false)) <> None -> snap_written (r_log (rn_raft n)))
  /\ (rr_last_entry (List.last (rn_records n) (mkRR 0 None None false)) <> None -> ents_written (r_log (rn_raft n))).
Proof. reflexivity. Qed.

Lemma persist_pre_def n number :
  persist_pre n number <->
  (persisted (r_log (rn_raft n)) < snd (fold_records (rn_records n) number 0 0 0) ->
   snd (fold_records (rn_records n) number 0 0 0) < next_of (store (r_log (rn_raft n)))).
Proof. reflexivity. Qed.

Lemma advance_pre_def n : advance_pre n <-> commit_pre n /\ persist_pre n (rn_max_number n).
Proof. reflexivity. Qed.

Lemma op_wf_def n o :
  op_wf n o <->
  match o with
  | OStep m => msg_wf (last_index (r_log (rn_raft n))) m
  | OTick | OCampaign | OPropose _ _ | OProposeCC _ _ _ _ => nroom 1 n
  | OAdvance _ => advance_pre n /\ nroom 1 n
  | OAdvanceAppend _ => advance_pre n
  | OAdvanceAppendAsync _ => commit_pre n
  | OOnPersistReady k => persist_pre n k
  | OAdvanceApply | OAdvanceApplyTo _ => is_leader (rn_raft n) = true -> nroom 1 n
  | OSetStore m => store_write (r_log (rn_raft n)) m
  | OApplyCC _ | OPing | OReady | OReportUnreachable _ | OReportSnapshot _ _
  | ORequestSnapshot | OTransferLeader _ | OReadIndex _ => True
  end.
Proof. destruct o; reflexivity. Qed.

Lemma store_write_iff l st' :
  store_write l st' <->
  (entries st' = entries (store l) /\ snap_index st' = snap_index (store l)
   /\ snap_term st' = snap_term (store l) /\ trig_log st' = trig_log (store l))
  \/ (u_snapshot (unst l) = None /\ append (store l) (u_entries (unst l)) = Ok st')
  \/ (exists s, u_snapshot (unst l) = Some s /\ apply_snapshot (store l) s = Ok (st', SOk tt))
  \/ (exists s, u_snapshot (unst l) = Some s /\ snap_written l
                 /\ append (store l) (u_entries (unst l)) = Ok st')
  \/ (exists ci, u_snapshot (unst l) = None /\ applied l <= committed l /\ ci <= applied l
                  /\ ci <= u_offset (unst l) /\ ci < next_of (store l)
                  /\ compact (store l) ci = Ok st').
Proof.
  split.
  - intros W. destruct W.
    + left. auto.
    + right; left. auto.
    + right; right; left. eauto.
    + right; right; right; left. eauto.
    + right; right; right; right. exists ci. auto 10.
  - intros [(A & B & C0 & D)|[(A & B)|[(s & A & B)|[(s & A & B & C0)|(ci & A & B & C0 & D & E & F)]]]].
    + apply SW_meta; assumption.
    + apply SW_entries; assumption.
    + eapply SW_snapshot; eassumption.
    + eapply SW_entries_after_snapshot; eassumption.
    + eapply SW_compact; eassumption.
Qed.

Lemma set_store_node_def n m :
  set_store_node n m = n <| rn_raft := (rn_raft n) <| r_log := set_store (r_log (rn_raft n)) m |> |>.
Proof. reflexivity. Qed.

Lemma write_ready_def st rd :
  write_ready st rd =
  if s_index (rd_snapshot rd) =? 0 then st' <- append st (rd_entries rd) ;; Ok (Some st')
  else
    r <- apply_snapshot st (rd_snapshot rd) ;;
    match snd r with
    | SErr _ => Ok None
    | SOk _ => st' <- append (fst r) (rd_entries rd) ;; Ok (Some st')
    end.
Proof. reflexivity. Qed.

Lemma wrun_iff n n' :
  wrun n n' <->
  n' = n \/ exists o n1 ot, op_wf n o /\ exec n o = Ok (n1, ot) /\ wrun n1 n'.
Proof.
  split.
  - intros R. destruct R; [left; reflexivity|right; eauto 10].
  - intros [->|(o & n1 & ot & A & B & C0)]; [constructor|econstructor; eassumption].
Qed.

Lemma handout_side_def l since :
  handout_side l since <-> since < u64_max /\ ll_first (abs l) <= since + 1.
Proof. reflexivity. Qed.

Lemma op_pre_node_def n o :
  op_pre_node n o <->
  op_wf n o /\
  match o with
  | OReady => handout_side (r_log (rn_raft n)) (ready_since n)
  | OAdvance rd | OAdvanceAppend rd =>
      forall n1 n2, commit_ready n rd = Ok n1 ->
                    rn_on_persist_ready n1 (rn_max_number n1) = Ok n2 ->
                    handout_side (r_log (rn_raft n2)) (rn_commit_since_index n2)
  | _ => True
  end.
Proof. reflexivity. Qed.

Lemma nrun_iff n h n' h' :
  nrun n h n' h' <->
  (n' = n /\ h' = h)
  \/ exists o n1 ot, op_pre_node n o /\ exec n o = Ok (n1, ot) /\ nrun n1 (hist_step h ot) n' h'.
Proof.
  split.
  - intros R. destruct R; [left; split; reflexivity|right; eauto 10].
  - intros [[-> ->]|(o & n1 & ot & A & B & C0)]; [constructor|econstructor; eassumption].
Qed.

(* ================================================================== *)
(* Samples: non-vacuity of the trace theorems, and witnesses that the    *)
(* caller-side preconditions are needed (each violates RepInv)           *)
(* ================================================================== *)
Module RepInvSamples.
  Import Samples.

  Lemma store0_inv : SInv store0.
  Proof. unfold MemStorageProofs.RepInv, next_of, first_of, store0, u64_max. cbn. repeat split; lia. Qed.

  Lemma node0_new : rn_new cfg store0 None [15; 15; 15; 15] = Ok (inr node0).
  Proof. vm_compute. reflexivity. Qed.

  Lemma node0_inv : NLI false node0.
  Proof. destruct (rn_new_pres _ _ _ _ _ node0_new store0_inv eq_refl) as (_ & H & _). apply H. reflexivity. Qed.

  (* a single voter: campaign (becomes leader, appends the empty entry), Ready, the
     application appends the Ready's entries, advance_append *)
  Example ex_leader_trace : wrun node0 node3.
  Proof.
    eapply (wrun_cons node0 OCampaign node1); [vm_compute; reflexivity|vm_compute; reflexivity|].
    eapply (wrun_cons node1 OReady (fst ready1)); [exact I|vm_compute; reflexivity|].
    eapply (wrun_cons (fst ready1) (OSetStore store1) node2).
    { apply SW_entries; [reflexivity|vm_compute; reflexivity]. }
    { reflexivity. }
    eapply (wrun_cons node2 (OAdvanceAppend (snd ready1)) node3).
    { split.
      - split; [intros C; vm_compute in C; congruence|intros _; vm_compute; reflexivity].
      - unfold persist_pre. vm_compute. intros C; discriminate. }
    { vm_compute. reflexivity. }
    constructor.
  Qed.

  Example ex_leader_inv :
    NLI false node3 /\ committed (nlog node3) = 1 /\ last_index (nlog node3) = 1
    /\ persisted (nlog node3) = 1.
  Proof. split; [exact (wrun_pres false _ _ ex_leader_trace node0_inv)|]. vm_compute. repeat split. Qed.

  (* a follower of a three-voter group: MsgAppend with two entries, Ready, write,
     advance; then MsgSnapshot at index 5, Ready, apply the snapshot, advance *)
  Definition store3 : MemStorage.mem :=
    match MemStorage.new_with_conf_state (cs_from [1;2;3] []) with Ok m => m | Panic _ => MemStorage.new end.

  Definition f0 : rawnode.
  Proof.
    let x := eval vm_compute in (rn_new cfg store3 None [15; 15; 15; 15]) in
    match x with Ok (inr ?n) => exact n end.
  Defined.

  Definition app1 : msg :=
    msg_default <| m_type := MsgAppend |> <| m_from := 2 |> <| m_to := 1 |> <| m_term := 1 |>
      <| m_entries := [mkEntry 0 1 1 [] []; mkEntry 0 1 2 [7] []] |> <| m_commit := 1 |>.

  Definition f1 : rawnode. Proof. from_ok (x <- exec f0 (OStep app1) ;; Ok (fst x)). Defined.
  Definition rd1 : rawnode * ready. Proof. from_ok (rn_ready f1). Defined.
  Definition st1 : MemStorage.mem.
  Proof.
    let x := eval vm_compute in (write_ready (store (nlog f1)) (snd rd1)) in
    match x with Ok (Some ?n) => exact n end.
  Defined.
  Definition f2 : rawnode := set_store_node (fst rd1) st1.
  Definition f3 : rawnode. Proof. from_ok (x <- rn_advance f2 (snd rd1) ;; Ok (fst x)). Defined.

  Definition snapm : msg :=
    msg_default <| m_type := MsgSnapshot |> <| m_from := 2 |> <| m_to := 1 |> <| m_term := 1 |>
      <| m_snapshot := mkSnap 5 1 (cs_from [1;2;3] []) |>.

  Definition f4 : rawnode. Proof. from_ok (x <- exec f3 (OStep snapm) ;; Ok (fst x)). Defined.
  Definition rd2 : rawnode * ready. Proof. from_ok (rn_ready f4). Defined.
  Definition st2 : MemStorage.mem.
  Proof.
    let x := eval vm_compute in (write_ready (store (nlog f4)) (snd rd2)) in
    match x with Ok (Some ?n) => exact n end.
  Defined.
  Definition f5 : rawnode := set_store_node (fst rd2) st2.
  Definition f6 : rawnode. Proof. from_ok (x <- rn_advance f5 (snd rd2) ;; Ok (fst x)). Defined.

  Lemma store3_inv : SInv store3.
  Proof. unfold MemStorageProofs.RepInv, next_of, first_of, store3, u64_max. cbn. repeat split; lia. Qed.

  Lemma f0_new : rn_new cfg store3 None [15; 15; 15; 15] = Ok (inr f0).
  Proof. vm_compute. reflexivity. Qed.

  Lemma f0_inv : NLI false f0.
  Proof. destruct (rn_new_pres _ _ _ _ _ f0_new store3_inv eq_refl) as (_ & H & _). apply H. reflexivity. Qed.

  Lemma app1_wf : msg_wf (nlast f0) app1.
  Proof.
    unfold msg_wf. split; [|split; [|split]]; intros E; try (vm_compute in E; discriminate E).
    unfold append_wf. cbn. repeat split; lia.
  Qed.

  Example ex_follower_trace : wrun f0 f6.
  Proof.
    eapply (wrun_cons f0 (OStep app1) f1); [exact app1_wf|vm_compute; reflexivity|].
    eapply (wrun_cons f1 OReady (fst rd1)); [exact I|vm_compute; reflexivity|].
    eapply (wrun_cons (fst rd1) (OSetStore st1) f2).
    { apply SW_entries; [reflexivity|vm_compute; reflexivity]. }
    { reflexivity. }
    eapply (wrun_cons f2 (OAdvance (snd rd1)) f3).
    { split; [split|].
      - split; [intros C; vm_compute in C; congruence|intros _; vm_compute; reflexivity].
      - unfold persist_pre. vm_compute. intros C; discriminate.
      - vm_compute. reflexivity. }
    { vm_compute. reflexivity. }
    eapply (wrun_cons f3 (OStep snapm) f4).
    { unfold msg_wf. split; [|split; [|split]]; intros E; try (vm_compute in E; discriminate E).
      vm_compute. reflexivity. }
    { vm_compute. reflexivity. }
    eapply (wrun_cons f4 OReady (fst rd2)); [exact I|vm_compute; reflexivity|].
    eapply (wrun_cons (fst rd2) (OSetStore st2) f5).
    { apply SW_snapshot with (s := mkSnap 5 1 (cs_from [1;2;3] [])); [reflexivity|vm_compute; reflexivity]. }
    { reflexivity. }
    eapply (wrun_cons f5 (OAdvance (snd rd2)) f6).
    { split; [split|].
      - split; [intros _; vm_compute; repeat split|intros C; vm_compute in C; congruence].
      - unfold persist_pre. vm_compute. intros _; reflexivity.
      - vm_compute. reflexivity. }
    { vm_compute. reflexivity. }
    constructor.
  Qed.

  Example ex_follower_inv :
    NLI false f6 /\ committed (nlog f6) = 5 /\ last_index (nlog f6) = 5
    /\ applied (nlog f6) = 5 /\ persisted (nlog f6) = 5.
  Proof. split; [exact (wrun_pres false _ _ ex_follower_trace f0_inv)|]. vm_compute. repeat split. Qed.

  (* the restart window: Config.applied = 3 over an empty store *)
  Definition cfg_a3 : config :=
    mkCfg 1 10 1 3 1000 8 false false 0 0 0 false false 0%Z u64_max u64_max 0 false.
  Definition w0 : rawnode.
  Proof.
    let x := eval vm_compute in (rn_new cfg_a3 store0 None [15; 15; 15; 15]) in
    match x with Ok (inr ?n) => exact n end.
  Defined.

  Example restart_window_open :
    rn_new cfg_a3 store0 None [15; 15; 15; 15] = Ok (inr w0)
    /\ NLI true w0 /\ ~ NLI false w0 /\ applied (nlog w0) = 3 /\ committed (nlog w0) = 0.
  Proof.
    assert (E : rn_new cfg_a3 store0 None [15; 15; 15; 15] = Ok (inr w0)) by (vm_compute; reflexivity).
    split; [exact E|]. split; [exact (proj1 (rn_new_pres _ _ _ _ _ E store0_inv eq_refl))|].
    split; [|split; reflexivity].
    intros H. pose proof (ri_applied false _ H eq_refl) as S. vm_compute in S. apply S. reflexivity.
  Qed.

  (* ---- the preconditions are needed ---- *)

  (* commit_pre: stabilising before the storage write (advance_append_async straight
     after ready) makes the unstable entry vanish from the log *)
  Lemma ready1_inv : NLI false (fst ready1).
  Proof.
    eapply NLI_same; [eapply (rn_ready_log node1 (fst ready1) (snd ready1)); vm_compute; reflexivity|].
    eapply (exec_pres false node0 OCampaign node1 no_out); [vm_compute; reflexivity|vm_compute; reflexivity|].
    exact node0_inv.
  Qed.

  Theorem commit_ready_unwritten_refuted :
    exists n', NLI false (fst ready1)
      /\ rn_advance_append_async (fst ready1) (snd ready1) = Ok n'
      /\ last_index (nlog (fst ready1)) = 1 /\ last_index (nlog n') = 0
      /\ ~ NLogOK n'.
  Proof.
    eexists. split; [exact ready1_inv|]. split; [vm_compute; reflexivity|].
    split; [reflexivity|]. split; [reflexivity|].
    intros [rw H]. pose proof (ri_shape rw _ H) as S. vm_compute in S.
    destruct S as ((_ & S) & _). apply S. reflexivity.
  Qed.

  (* persist_pre: acknowledging a Ready whose snapshot has not reached the storage
     moves persisted beyond the storage's last index *)
  Definition snap_rd : rawnode * ready. Proof. from_ok (rn_ready node_snap). Defined.

  Lemma snap_rd_inv : NLI false (fst snap_rd).
  Proof.
    eapply NLI_same; [eapply (rn_ready_log node_snap (fst snap_rd) (snd snap_rd)); vm_compute; reflexivity|].
    unfold NLI, LI.
    assert (E : log_restore (r_log (rn_raft node0)) (mkSnap 5 1 (cs_from [1] []))
                = Ok (r_log (rn_raft node_snap))) by (vm_compute; reflexivity).
    refine (proj1 (log_restore_pres false _ _ _ E node0_inv _)). vm_compute. reflexivity.
  Qed.

  Theorem persist_unwritten_snapshot_refuted :
    exists n', NLI false (fst snap_rd)
      /\ rn_on_persist_ready (fst snap_rd) (rd_number (snd snap_rd)) = Ok n'
      /\ persisted (nlog n') = 5 /\ storage_last_index (store (nlog n')) = 0
      /\ ~ NLogOK n'.
  Proof.
    eexists. split; [exact snap_rd_inv|]. split; [vm_compute; reflexivity|].
    split; [reflexivity|]. split; [reflexivity|].
    intros [rw H]. pose proof (ri_persisted rw _ H) as S. vm_compute in S.
    destruct S as (_ & S). discriminate S.
  Qed.

  (* msg_wf: the model (like the Rust) does not validate a MsgAppend: entries with a
     gap in their indexes are stored as they are *)
  Definition gapm : msg :=
    msg_default <| m_type := MsgAppend |> <| m_from := 2 |> <| m_to := 1 |> <| m_term := 1 |>
      <| m_entries := [mkEntry 0 1 1 [] []; mkEntry 0 1 3 [] []] |>.

  Theorem append_gap_refuted :
    exists n' c, NLI false f0 /\ rn_step f0 gapm = Ok (n', c)
      /\ u_entries (unst (nlog n')) = [mkEntry 0 1 1 [] []; mkEntry 0 1 3 [] []] /\ ~ NLogOK n'.
  Proof.
    eexists. eexists. split; [exact f0_inv|]. split; [vm_compute; reflexivity|]. split; [reflexivity|].
    intros [rw H]. pose proof (ri_contig rw _ H) as S. vm_compute in S.
    destruct S as (_ & S & _). discriminate S.
  Qed.

  (* room: at last_index = u64::MAX - 1 the new leader's empty entry gets index
     u64::MAX, outside RepInv's bound (the model numbers entries without an overflow check) *)
  Definition store_hi : MemStorage.mem :=
    mkMem hs_default (cs_from [1] []) [] (u64_max - 1) 1 false false None.

  Lemma store_hi_inv : SInv store_hi.
  Proof. unfold MemStorageProofs.RepInv, next_of, first_of, store_hi, u64_max. cbn. repeat split; lia. Qed.

  Definition h0 : rawnode.
  Proof.
    let x := eval vm_compute in (rn_new cfg store_hi None [15; 15; 15; 15]) in
    match x with Ok (inr ?n) => exact n end.
  Defined.

  Theorem room_needed :
    exists n' c, NLI false h0 /\ last_index (nlog h0) = u64_max - 1
      /\ rn_campaign h0 = Ok (n', c) /\ last_index (nlog n') = u64_max /\ ~ NLogOK n'.
  Proof.
    assert (E : rn_new cfg store_hi None [15; 15; 15; 15] = Ok (inr h0)) by (vm_compute; reflexivity).
    eexists. eexists. split.
    { destruct (rn_new_pres _ _ _ _ _ E store_hi_inv eq_refl) as (_ & H & _). apply H. reflexivity. }
    split; [reflexivity|]. split; [vm_compute; reflexivity|]. split; [reflexivity|].
    intros [rw H]. pose proof (RepInv_last_bound rw _ H) as S. vm_compute in S. discriminate S.
  Qed.
End RepInvSamples.

(* ================================================================== *)
(* Part F. Every queued MsgAppend is a contiguous batch                  *)
(* ================================================================== *)
(* C13's append_entries_contiguous / maybe_send_append_batched_wf speak about one call
   of maybe_send_append under the log invariant.  With LI available at every
   intermediate state this becomes an invariant of the outbound queue:
   [AppOK r]: every MsgAppend in r_msgs has its entries numbered consecutively from
   m_index + 1 (batching on or off). *)
Definition app_ok (m : msg) : Prop :=
  m_type m = MsgAppend -> contiguous_from (m_index m + 1) (m_entries m).
Definition AppOK (r : raft) : Prop := Forall app_ok (r_msgs r).

(* for the functions that leave the log alone *)
Definition AL (r : raft) : Prop := LogInv (r_log r) /\ AppOK r.

Lemma LI_LogInv rw r : LI rw r -> LogInv (r_log r).
Proof. apply RepInv_LogInv. Qed.

Lemma AppOK_same r r' : r_msgs r' = r_msgs r -> AppOK r -> AppOK r'.
Proof. unfold AppOK. intros ->. exact (fun H => H). Qed.

Lemma AL_same r r' : r_log r' = r_log r -> r_msgs r' = r_msgs r -> AL r -> AL r'.
Proof. unfold AL, AppOK. intros -> ->. exact (fun H => H). Qed.

Lemma AppOK_snoc (r : raft) m : app_ok m -> AppOK r -> AppOK (r <| r_msgs := r_msgs r ++ [m] |>).
Proof.
  intros Hm H. unfold AppOK. cbn. apply Forall_app. split; [exact H|]. constructor; [exact Hm|constructor].
Qed.

Lemma send_AppOK r m r' : send r m = Ok r' -> app_ok m -> AppOK r -> AppOK r'.
Proof.
  intros H Hm HI. destruct (send_exact _ _ _ H) as (m' & -> & Ht & _ & _ & Hi & He & _).
  apply AppOK_snoc; [|exact HI]. unfold app_ok in *. rewrite Ht, Hi, He. exact Hm.
Qed.

Lemma send_AL r m r' : send r m = Ok r' -> app_ok m -> AL r -> AL r'.
Proof.
  intros H Hm [A B]. split; [rewrite (send_log _ _ _ H); exact A|eapply send_AppOK; eassumption].
Qed.

Lemma na_ok m : m_type m <> MsgAppend -> app_ok m.
Proof. intros H E. contradiction. Qed.

Ltac na := apply na_ok; cbn; discriminate.

Lemma maybe_send_append_AL r to pr ae r' pr' b :
  maybe_send_append r to pr ae = Ok (r', pr', b) -> AL r -> AL r'.
Proof.
  intros H [HL HA]. split; [rewrite (maybe_send_append_log _ _ _ _ _ _ _ H); exact HL|].
  destruct (maybe_send_append_cases _ _ _ _ _ _ _ H) as [(_ & -> & _)|(_ & _ & C)]; [exact HA|].
  destruct C as [(_ & s & _ & _ & -> & _)|[(_ & Hnx & t & ents & _ & He & _ & -> & _)|
                 (_ & _ & Hnx & t & ents & msgs' & _ & He & _ & Hb & ->)]].
  - apply AppOK_snoc; [na|exact HA].
  - apply AppOK_snoc; [|exact HA]. intros _. cbn.
    destruct (log_entries_spec _ _ _ _ HL He) as (Hc & _).
    replace (next_idx pr - 1 + 1) with (next_idx pr) by lia. exact Hc.
  - destruct (log_entries_spec _ _ _ _ HL He) as (Hc & Hf & _).
    destruct (try_batching_contiguous _ _ _ _ _ _ _ _ Hb Hc Hf)
      as (pre & m & post & A & _ & Ht & _ & F & _ & _ & _ & K & _).
    unfold AppOK in *. cbn. rewrite F. rewrite A in HA.
    apply Forall_app in HA. destruct HA as [HA1 HA2]. inversion HA2 as [|? ? Hm HA3]; subst.
    apply Forall_app. split; [exact HA1|]. constructor; [|exact HA3].
    intros _. change (m_index (merged r m ents)) with (m_index m).
    destruct ents as [|e0 et].
    + change (m_entries (merged r m [])) with (m_entries m ++ []). rewrite app_nil_r. exact (Hm Ht).
    + exact (proj2 (K ltac:(discriminate) (Hm Ht))).
Qed.

Lemma put_pr_AL r id p : AL r -> AL (put_pr r id p).
Proof. exact (fun H => H). Qed.

Lemma send_append_to_AL r to r' : send_append_to r to = Ok r' -> AL r -> AL r'.
Proof.
  unfold send_append_to. intros H HI. destruct (get_pr r to); [|discriminate].
  inv_bind H. destruct x as [[r1 pr1] b]. inversion H; subst.
  apply put_pr_AL. eapply maybe_send_append_AL; eassumption.
Qed.

Lemma send_append_aggressively_loop_AL fuel : forall r to pr r' pr',
  send_append_aggressively_loop fuel r to pr = Ok (r', pr') -> AL r -> AL r'.
Proof.
  induction fuel as [|f IH]; intros r to pr r' pr' H HI; cbn [send_append_aggressively_loop] in H;
    [discriminate|].
  inv_bind H. destruct x as [[r1 pr1] b]. pose proof (maybe_send_append_AL _ _ _ _ _ _ _ Hx HI) as H1.
  destruct b; [eapply IH; eassumption|inversion H; subst; exact H1].
Qed.

Lemma send_append_aggressively_AL r to r' : send_append_aggressively r to = Ok r' -> AL r -> AL r'.
Proof.
  unfold send_append_aggressively. intros H HI. destruct (get_pr r to); [|discriminate].
  inv_bind H. destruct x as [r1 pr1]. inversion H; subst.
  apply put_pr_AL. eapply send_append_aggressively_loop_AL; eassumption.
Qed.

Lemma for_each_peer_AL (f : raft -> N -> Res raft) :
  (forall r id r', f r id = Ok r' -> AL r -> AL r') ->
  forall ids self r r', for_each_peer ids self f r = Ok r' -> AL r -> AL r'.
Proof.
  intros Hf ids self. induction ids as [|id rest IH]; intros r r' H HI; cbn [for_each_peer] in H.
  - inversion H; subst. exact HI.
  - destruct (id =? self); [eapply IH; eassumption|].
    inv_bind H. eapply IH; [exact H|]. eapply Hf; eassumption.
Qed.

Lemma bcast_append_AL r r' : bcast_append r = Ok r' -> AL r -> AL r'.
Proof. unfold bcast_append. apply for_each_peer_AL. apply send_append_to_AL. Qed.

Lemma send_heartbeat_AL r to pr ctx r' : send_heartbeat r to pr ctx = Ok r' -> AL r -> AL r'.
Proof.
  unfold send_heartbeat. intros H HI. eapply send_AL; [exact H| |exact HI].
  destruct ctx; na.
Qed.

Lemma bcast_heartbeat_with_ctx_AL r ctx r' : bcast_heartbeat_with_ctx r ctx = Ok r' -> AL r -> AL r'.
Proof.
  unfold bcast_heartbeat_with_ctx. apply for_each_peer_AL.
  intros r0 id r1 H HI. destruct (get_pr r0 id); [eapply send_heartbeat_AL; eassumption|discriminate].
Qed.

Lemma bcast_heartbeat_AL r r' : bcast_heartbeat r = Ok r' -> AL r -> AL r'.
Proof. unfold bcast_heartbeat. apply bcast_heartbeat_with_ctx_AL. Qed.

Lemma send_timeout_now_AL r to r' : send_timeout_now r to = Ok r' -> AL r -> AL r'.
Proof. unfold send_timeout_now. intros H HI. eapply send_AL; [exact H|na|exact HI]. Qed.

Lemma send_request_snapshot_AL r r' : send_request_snapshot r = Ok r' -> AL r -> AL r'.
Proof.
  unfold send_request_snapshot. intros H HI. inv_bind H. destruct x; [|discriminate].
  eapply send_AL; [exact H|na|exact HI].
Qed.

Lemma send_vote_requests_AL ids : forall r vm t cm ct tr r',
  vm <> MsgAppend -> send_vote_requests ids r vm t cm ct tr = Ok r' -> AL r -> AL r'.
Proof.
  induction ids as [|id rest IH]; intros r vm t cm ct tr r' Hvm H HI; cbn [send_vote_requests] in H.
  - inversion H; subst. exact HI.
  - destruct (id =? r_id r); [eapply IH; eassumption|].
    inv_bind H. inv_bind H. eapply IH; [exact Hvm|exact H|].
    eapply send_AL; [exact Hx0| |exact HI]. apply na_ok. destruct tr; cbn; exact Hvm.
Qed.

Lemma handle_ready_read_index_AL r req i r' om :
  handle_ready_read_index r req i = Ok (r', om) ->
  AL r -> AL r' /\ (forall m, om = Some m -> m_type m = MsgReadIndexResp).
Proof.
  unfold handle_ready_read_index. intros H HI.
  destruct ((m_from req =? INVALID_ID) || (m_from req =? r_id r)).
  - inv_bind H. inversion H; subst. split; [exact HI|intros m E; discriminate].
  - inversion H; subst. split; [exact HI|]. intros m E. inversion E; reflexivity.
Qed.

Lemma respond_reads_AL rss : forall r r', respond_reads r rss = Ok r' -> AL r -> AL r'.
Proof.
  induction rss as [|rs rest IH]; intros r r' H HI; cbn [respond_reads] in H.
  - inversion H; subst. exact HI.
  - inv_bind H. destruct x as [r1 om]. inv_bind H. eapply IH; [exact H|].
    destruct (handle_ready_read_index_AL _ _ _ _ _ Hx HI) as [H1 Hom].
    destruct om as [mm|]; [|inversion Hx0; subst; exact H1].
    eapply send_AL; [exact Hx0| |exact H1]. apply na_ok. rewrite (Hom mm eq_refl). discriminate.
Qed.

Lemma reset_AL r t r' : reset r t = Ok r' -> AL r -> AL r'.
Proof. intros H. destruct (reset_msgs_log _ _ _ H) as [A B]. apply AL_same; assumption. Qed.

Lemma handle_transfer_leader_AL r m r' : handle_transfer_leader r m = Ok r' -> AL r -> AL r'.
Proof.
  unfold handle_transfer_leader. intros H HI.
  destruct (get_pr r (m_from m)); [|inversion H; subst; exact HI].
  destruct (IdSet.mem (m_from m) (learners (conf_of r))); [inversion H; subst; exact HI|].
  assert (Hcont : forall ra, AL ra ->
    (if m_from m =? r_id ra then Ok ra else
       match get_pr (ra <| r_election_elapsed := 0 |> <| r_lead_transferee := Some (m_from m) |>) (m_from m) with
       | None => Panic site_pr_unwrap
       | Some pr =>
           if matched pr =? last_index (r_log (ra <| r_election_elapsed := 0 |> <| r_lead_transferee := Some (m_from m) |>))
           then send_timeout_now (ra <| r_election_elapsed := 0 |> <| r_lead_transferee := Some (m_from m) |>) (m_from m)
           else
             y <- maybe_send_append (ra <| r_election_elapsed := 0 |> <| r_lead_transferee := Some (m_from m) |>) (m_from m) pr true ;;
             let '(r', pr', _) := y in Ok (put_pr r' (m_from m) pr')
       end) = Ok r' -> AL r').
  { intros ra Hra Hc. destruct (m_from m =? r_id ra). { inversion Hc; subst; exact Hra. }
    assert (Hset : AL (ra <| r_election_elapsed := 0 |> <| r_lead_transferee := Some (m_from m) |>))
      by exact Hra.
    match type of Hc with match ?g with _ => _ end = _ => destruct g end; [|discriminate].
    match type of Hc with (if ?c then _ else _) = _ => destruct c end.
    - eapply send_timeout_now_AL; eassumption.
    - inv_bind Hc. destruct x as [[rb pb] bb]. inversion Hc; subst.
      apply put_pr_AL. eapply maybe_send_append_AL; eassumption. }
  destruct (r_lead_transferee r) as [last|].
  - destruct (last =? m_from m); [inversion H; subst; exact HI|].
    eapply Hcont; [|exact H]. exact HI.
  - eapply Hcont; [exact HI|exact H].
Qed.

Lemma handle_heartbeat_response_AL r m r' : handle_heartbeat_response r m = Ok r' -> AL r -> AL r'.
Proof.
  unfold handle_heartbeat_response. intros H HI.
  destruct (get_pr r (m_from m)) as [pr0|]; [|inversion H; subst; exact HI].
  inv_bind H. inv_bind H.
  assert (H1 : AL x0).
  { match type of Hx0 with (if ?c then _ else _) = _ => destruct c end.
    - inv_bind Hx0. destruct x1 as [[ra pa] ba]. inversion Hx0; subst.
      apply put_pr_AL. eapply maybe_send_append_AL; eassumption.
    - inversion Hx0; subst. exact HI. }
  match type of H with (if ?c then _ else _) = _ => destruct c end; [inversion H; subst; exact H1|].
  destruct (ro_recv_ack (r_read_only x0) (m_from m) (m_context m)) as [ro' acks].
  destruct acks as [a|]; [|inversion H; subst; exact H1].
  match type of H with (if ?c then _ else _) = _ => destruct c end; [|inversion H; subst; exact H1].
  inv_bind H. destruct x1 as [ro2 rss]. eapply respond_reads_AL; [exact H|]. exact H1.
Qed.

(* ---- the functions that change the log: AppOK from LI at the intermediate states ---- *)
Lemma LI_AL rw r : LI rw r -> AppOK r -> AL r.
Proof. intros H A. split; [eapply LI_LogInv; exact H|exact A]. Qed.

Lemma maybe_commit_msgs r r' b : maybe_commit r = Ok (r', b) -> r_msgs r' = r_msgs r.
Proof.
  unfold maybe_commit. intros H. inv_bind H. destruct x as [l' b'].
  destruct b'; [destruct (get_pr r (r_id r))|]; inversion H; reflexivity.
Qed.

Lemma become_follower_AppOK r t l r' : become_follower r t l = Ok r' -> AppOK r -> AppOK r'.
Proof. intros H. apply AppOK_same. exact (proj1 (become_follower_msgs_log _ _ _ _ H)). Qed.

Lemma become_leader_AppOK r r' : become_leader r = Ok r' -> AppOK r -> AppOK r'.
Proof.
  intros H. apply AppOK_same.
  destruct (become_leader_spec _ _ H) as (_ & _ & _ & _ & _ & _ & _ & E & _). exact E.
Qed.

Lemma become_candidate_msgs r r' : become_candidate r = Ok r' -> r_msgs r' = r_msgs r.
Proof.
  unfold become_candidate. intros H. destruct (is_leader r); [discriminate|].
  inv_bind H. inversion H; subst. cbn. exact (proj1 (reset_msgs_log _ _ _ Hx)).
Qed.

Lemma become_pre_candidate_msgs r r' : become_pre_candidate r = Ok r' -> r_msgs r' = r_msgs r.
Proof.
  unfold become_pre_candidate. intros H. destruct (is_leader r); [discriminate|]. inversion H; reflexivity.
Qed.

Lemma poll_gen_AppOK rw rc r from v r' res :
  (forall ra ra', rc ra = Ok ra' -> LI rw ra -> room 1 ra -> AppOK ra -> AppOK ra') ->
  poll_gen rc r from v = Ok (r', res) -> LI rw r -> room 1 r -> AppOK r -> AppOK r'.
Proof.
  unfold poll_gen. intros Hrc H HI Hroom HA.
  set (r0 := r <| r_prs := (r_prs r) <| t_votes := Quorum.record_vote (t_votes (r_prs r)) from v |> |>) in *.
  assert (H0 : LI rw r0) by exact HI. assert (Hr0 : room 1 r0) by exact Hroom.
  assert (A0 : AppOK r0) by exact HA. clearbody r0.
  destruct (Quorum.tracker_vote_result _ _ _).
  - inversion H; subst. exact A0.
  - inv_bind H. inversion H; subst. eapply become_follower_AppOK; eassumption.
  - destruct (role_eqb (r_state r0) PreCandidate).
    + inv_bind H. inversion H; subst. eapply Hrc; eassumption.
    + inv_bind H. inv_bind H. inversion H; subst.
      refine (proj2 (bcast_append_AL _ _ Hx0 (LI_AL rw _ _ _))).
      * eapply become_leader_pres; eassumption.
      * eapply become_leader_AppOK; eassumption.
Qed.

Lemma campaign_real_AppOK rw tr r r' :
  campaign_real tr r = Ok r' -> LI rw r -> room 1 r -> AppOK r -> AppOK r'.
Proof.
  unfold campaign_real. intros H HI Hroom HA. inv_bind H.
  pose proof (become_candidate_log _ _ Hx) as El. pose proof (become_candidate_msgs _ _ Hx) as Em.
  inv_bind H. destruct x0 as [r2 res].
  assert (H1 : LI rw x) by (eapply LI_same; eassumption).
  assert (R1 : room 1 x) by (eapply room_same; [|exact Hroom]; rewrite El; reflexivity).
  assert (A1 : AppOK x) by (eapply AppOK_same; eassumption).
  assert (H2 : LI rw r2).
  { eapply poll_gen_pres; [|exact Hx0|exact H1|exact R1]. intros ra ra' Hp; discriminate. }
  assert (A2 : AppOK r2).
  { eapply poll_gen_AppOK; [|exact Hx0|exact H1|exact R1|exact A1]. intros ra ra' Hp; discriminate. }
  destruct res.
  - inv_bind H. refine (proj2 (send_vote_requests_AL _ _ _ _ _ _ _ _ _ H (LI_AL rw _ H2 A2))). discriminate.
  - inv_bind H. refine (proj2 (send_vote_requests_AL _ _ _ _ _ _ _ _ _ H (LI_AL rw _ H2 A2))). discriminate.
  - inversion H; subst. exact A2.
Qed.

Lemma poll_AppOK rw r from v r' res :
  poll r from v = Ok (r', res) -> LI rw r -> room 1 r -> AppOK r -> AppOK r'.
Proof. unfold poll. apply poll_gen_AppOK. intros ra ra'. apply campaign_real_AppOK. Qed.

Lemma campaign_pre_AppOK rw r r' :
  campaign_pre r = Ok r' -> LI rw r -> room 1 r -> AppOK r -> AppOK r'.
Proof.
  unfold campaign_pre. intros H HI Hroom HA. inv_bind H.
  pose proof (become_pre_candidate_log _ _ Hx) as El. pose proof (become_pre_candidate_msgs _ _ Hx) as Em.
  inv_bind H. destruct x0 as [r2 res].
  assert (H1 : LI rw x) by (eapply LI_same; eassumption).
  assert (R1 : room 1 x) by (eapply room_same; [|exact Hroom]; rewrite El; reflexivity).
  assert (A1 : AppOK x) by (eapply AppOK_same; eassumption).
  pose proof (poll_pres rw _ _ _ _ _ Hx0 H1 R1) as H2.
  pose proof (poll_AppOK rw _ _ _ _ _ Hx0 H1 R1 A1) as A2.
  destruct res.
  - inv_bind H. refine (proj2 (send_vote_requests_AL _ _ _ _ _ _ _ _ _ H (LI_AL rw _ H2 A2))). discriminate.
  - inv_bind H. refine (proj2 (send_vote_requests_AL _ _ _ _ _ _ _ _ _ H (LI_AL rw _ H2 A2))). discriminate.
  - inversion H; subst. exact A2.
Qed.

Lemma hup_AppOK rw r tl r' : hup r tl = Ok r' -> LI rw r -> room 1 r -> AppOK r -> AppOK r'.
Proof.
  intros H HI Hroom HA. apply hup_spec in H.
  destruct H as [[_ ->]|[(_ & _ & ->)|[(_ & _ & _ & ->)|(_ & _ & _ & Hc)]]]; try exact HA.
  unfold hup_campaign in Hc. destruct tl; [eapply campaign_real_AppOK; eassumption|].
  destruct (r_pre_vote r); [eapply campaign_pre_AppOK|eapply campaign_real_AppOK]; eassumption.
Qed.

Lemma maybe_commit_by_vote_AppOK r m r' : maybe_commit_by_vote r m = Ok r' -> AppOK r -> AppOK r'.
Proof. intros H. apply AppOK_same. eapply maybe_commit_by_vote_msgs; exact H. Qed.

Lemma handle_append_entries_AppOK rw r m r' :
  handle_append_entries r m = Ok r' -> LI rw r -> AppOK r -> AppOK r'.
Proof.
  unfold handle_append_entries. intros H HI HA.
  destruct (negb (r_pending_request_snapshot r =? INVALID_INDEX)).
  { exact (proj2 (send_request_snapshot_AL _ _ H (LI_AL rw _ HI HA))). }
  destruct (m_index m <? committed (r_log r)).
  { eapply send_AppOK; [exact H|na|exact HA]. }
  inv_bind H. destruct x as [l' res].
  destruct res as [[a b]|].
  - eapply send_AppOK; [exact H|na|exact HA].
  - inv_bind H. destruct x as [hi [ht|]]; [|discriminate].
    eapply send_AppOK; [exact H|na|exact HA].
Qed.

Lemma handle_heartbeat_AppOK rw r m r' :
  handle_heartbeat r m = Ok r' -> LI rw r -> AppOK r -> AppOK r'.
Proof.
  unfold handle_heartbeat. intros H HI HA. inv_bind H.
  destruct (commit_to_pres rw _ _ _ Hx HI) as [A _].
  match type of H with (if ?c then _ else _) = _ => destruct c end.
  - match type of H with send_request_snapshot ?ra = _ =>
      assert (Ha : LI rw ra) by exact A; assert (Hb : AppOK ra) by exact HA end.
    exact (proj2 (send_request_snapshot_AL _ _ H (LI_AL rw _ Ha Hb))).
  - eapply send_AppOK; [exact H|na|exact HA].
Qed.

Lemma post_conf_change_AppOK rw r r' cs :
  post_conf_change r = Ok (r', cs) -> LI rw r -> AppOK r -> AppOK r'.
Proof.
  unfold post_conf_change. intros H HI HA.
  set (r0 := r <| r_promotable := voters_contains (conf_of r) (r_id r) |>) in *.
  assert (H0 : LI rw r0) by exact HI. assert (A0 : AppOK r0) by exact HA. clearbody r0.
  match type of H with (if ?c then _ else _) = _ => destruct c end; [inversion H; subst; exact A0|].
  match type of H with (if ?c then _ else _) = _ => destruct c end; [inversion H; subst; exact A0|].
  inv_bind H. destruct x as [r1 b].
  destruct (maybe_commit_pres rw _ _ _ Hx H0) as [H1 _].
  assert (A1 : AppOK r1) by (eapply AppOK_same; [eapply maybe_commit_msgs; exact Hx|exact A0]).
  inv_bind H.
  assert (L2 : AL x).
  { destruct b; [eapply bcast_append_AL; [exact Hx0|exact (LI_AL rw _ H1 A1)]|].
    revert Hx0. intros Hx0. eapply for_each_peer_AL; [|exact Hx0|exact (LI_AL rw _ H1 A1)].
    intros ra id ra' Hf Ha. cbv beta in Hf. destruct (get_pr ra id); [|discriminate].
    inv_bind Hf. destruct x0 as [[rb pb] bb]. inversion Hf; subst.
    apply put_pr_AL. eapply maybe_send_append_AL; eassumption. }
  inv_bind H.
  assert (L3 : AL x0).
  { destruct (ro_last_pending_request_ctx (r_read_only x)); [|inversion Hx1; subst; exact L2].
    destruct (ro_recv_ack (r_read_only x) (r_id x) l) as [ro' acks].
    destruct acks as [a|]; [|inversion Hx1; subst; exact L2].
    match type of Hx1 with (if ?c then _ else _) = _ => destruct c end; [|inversion Hx1; subst; exact L2].
    inv_bind Hx1. destruct x1 as [ro2 rss]. eapply respond_reads_AL; [exact Hx1|exact L2]. }
  inversion H; subst. destruct L3 as [_ A3].
  destruct (r_lead_transferee x0); [|exact A3].
  destruct (negb (voters_contains (conf_of x0) n)); exact A3.
Qed.

Lemma restore_AppOK rw r s r' b :
  restore r s = Ok (r', b) -> s_index s < u64_max -> LI rw r -> AppOK r -> AppOK r'.
Proof.
  unfold restore. intros H Hb HI HA.
  destruct (s_index s <? committed (r_log r)); [inversion H; subst; exact HA|].
  destruct (negb (role_eqb (r_state r) Follower)).
  { inv_bind H. inversion H; subst. eapply become_follower_AppOK; eassumption. }
  match type of H with (if ?c then _ else _) = _ => destruct c end; [inversion H; subst; exact HA|].
  inv_bind H.
  match type of H with (if ?c then _ else _) = _ => destruct c end.
  { inv_bind H. inversion H; subst. exact HA. }
  inv_bind H.
  destruct (log_restore_pres rw _ _ _ Hx0 HI Hb) as (A & _).
  destruct (ConfChange.restore empty_tracker (s_cs s)) as [[c' ids']|e]; [|discriminate].
  inv_bind H. destruct x1 as [r1 new_cs].
  match type of Hx1 with post_conf_change ?ra = _ =>
    assert (Ha : LI rw ra) by exact A; assert (Hm : AppOK ra) by exact HA end.
  pose proof (post_conf_change_AppOK rw _ _ _ Hx1 Ha Hm) as A1.
  match type of H with (if ?c then _ else _) = _ => destruct c end; [discriminate|].
  destruct (get_pr r1 (r_id r1)) as [pr|]; [|discriminate].
  destruct (next_idx pr =? 0); [discriminate|]. inversion H; subst. exact A1.
Qed.

Lemma handle_snapshot_AppOK rw r m r' :
  handle_snapshot r m = Ok r' -> s_index (m_snapshot m) < u64_max -> LI rw r -> AppOK r -> AppOK r'.
Proof.
  unfold handle_snapshot. intros H Hb HI HA. inv_bind H. destruct x as [r1 ok].
  pose proof (restore_AppOK rw _ _ _ _ Hx Hb HI HA) as A1.
  destruct ok; (eapply send_AppOK; [exact H|na|exact A1]).
Qed.

Lemma handle_append_response_AppOK rw r m r' :
  handle_append_response r m = Ok r' -> LI rw r -> AppOK r -> AppOK r'.
Proof.
  unfold handle_append_response. intros H HI HA. inv_bind H. clear Hx.
  destruct (get_pr r (m_from m)) as [pr|]; [|inversion H; subst; exact HA].
  destruct (m_reject m).
  { destruct (maybe_decr_to _ _ _ _) as [pr1 dec]. destruct dec.
    - match type of H with send_append_to ?ra _ = _ =>
        assert (Ha : AL ra) by exact (LI_AL rw _ HI HA) end.
      exact (proj2 (send_append_to_AL _ _ _ H Ha)).
    - inversion H; subst. exact HA. }
  destruct (maybe_update _ _) as [pr1 upd]. destruct upd; cbn [negb] in H.
  2:{ inversion H; subst. exact HA. }
  inv_bind H. clear Hx. inv_bind H. destruct x1 as [r1 cmt].
  match type of Hx with maybe_commit ?ra = _ =>
    assert (Ha : LI rw ra) by exact HI; assert (Hm : AppOK ra) by exact HA end.
  destruct (maybe_commit_pres rw _ _ _ Hx Ha) as [H1 _].
  assert (A1 : AppOK r1) by (eapply AppOK_same; [eapply maybe_commit_msgs; exact Hx|exact Hm]).
  pose proof (LI_AL rw _ H1 A1) as L1.
  inv_bind H. inv_bind H.
  assert (L2 : AL x1).
  { destruct cmt.
    - destruct (should_bcast_commit r1); [eapply bcast_append_AL; eassumption|].
      inversion Hx0; subst; exact L1.
    - destruct (is_paused _); [eapply send_append_to_AL; eassumption|].
      inversion Hx0; subst; exact L1. }
  pose proof (send_append_aggressively_AL _ _ _ Hx1 L2) as L3.
  destruct (r_lead_transferee x2); [|inversion H; subst; exact (proj2 L3)].
  destruct (n =? m_from m); [|inversion H; subst; exact (proj2 L3)].
  destruct (get_pr x2 (m_from m)); [|discriminate].
  destruct (matched p =? last_index (r_log x2)); [exact (proj2 (send_timeout_now_AL _ _ _ H L3))|].
  inversion H; subst; exact (proj2 L3).
Qed.

Lemma step_leader_AppOK rw r m r' c :
  step_leader r m = Ok (r', c) -> msg_wf (last_index (r_log r)) m -> LI rw r -> AppOK r -> AppOK r'.
Proof.
  unfold step_leader. intros H (_ & Wp & _ & _) HI HA.
  pose proof (LI_AL rw _ HI HA) as L0.
  destruct (m_type m =? MsgBeat).
  { inv_bind H. inversion H; subst. exact (proj2 (bcast_heartbeat_AL _ _ Hx L0)). }
  destruct (m_type m =? MsgCheckQuorum).
  { destruct (quorum_recently_active (r_prs r) (r_id r)) as [prs' active] eqn:Eq.
    destruct active; cbn [negb] in H.
    - inversion H; subst. exact HA.
    - inv_bind H. inversion H; subst. eapply become_follower_AppOK; [exact Hx|exact HA]. }
  destruct (m_type m =? MsgPropose) eqn:Ep.
  { apply N.eqb_eq in Ep. specialize (Wp Ep).
    destruct (m_entries m) as [|e0 es] eqn:Ee; [discriminate|]. rewrite <- Ee in *.
    destruct (get_pr r (r_id r)); [|inversion H; subst; exact HA].
    destruct (r_lead_transferee r); [inversion H; subst; exact HA|].
    dfilter H. pose proof (filter_frame_fields _ _ _ _ _ _ _ F) as (El & _ & _ & _ & _ & _ & Em).
    pose proof (filter_length _ _ _ _ _ _ _ F) as Hlen.
    assert (H1 : LI rw a) by (eapply LI_same; eassumption).
    assert (A1 : AppOK a) by (eapply AppOK_same; eassumption).
    destruct c0; cbn [negb] in H; [|inversion H; subst; exact A1].
    inv_bind H. destruct x as [r2 appended].
    destruct (append_entry_pres rw _ _ _ _ Hx H1) as (H2 & _).
    { unfold room. rewrite El, Hlen. exact Wp. }
    destruct (append_entry_spec _ _ _ _ Hx) as (_ & Em2 & _).
    assert (A2 : AppOK r2) by (eapply AppOK_same; eassumption).
    destruct appended; cbn [negb] in H.
    - inv_bind H. inversion H; subst. exact (proj2 (bcast_append_AL _ _ Hx0 (LI_AL rw _ H2 A2))).
    - inversion H; subst. exact A2. }
  destruct (m_type m =? MsgReadIndex).
  { inv_bind H. destruct (negb x); [inversion H; subst; exact HA|].
    assert (Hans : forall ra c',
      (x0 <- handle_ready_read_index r m (committed (r_log r)) ;;
       let '(r1, om) := x0 in
       r2 <- match om with Some mm => send r1 mm | None => Ok r1 end ;; Ok (r2, E_OK)) = Ok (ra, c') ->
      AppOK ra).
    { intros ra c' Ha. inv_bind Ha. destruct x0 as [r1 om]. inv_bind Ha. inversion Ha; subst.
      destruct (handle_ready_read_index_AL _ _ _ _ _ Hx0 L0) as [[_ A1] Hom].
      destruct om as [mm|]; [|inversion Hx1; subst; exact A1].
      eapply send_AppOK; [exact Hx1| |exact A1]. apply na_ok. rewrite (Hom mm eq_refl). discriminate. }
    match type of H with (if ?c then _ else _) = _ => destruct c end; [eapply Hans; exact H|].
    destruct (ro_option (r_read_only r) =? 0); [|eapply Hans; exact H].
    inv_bind H. inv_bind H. inv_bind H. inversion H; subst.
    match type of Hx2 with bcast_heartbeat_with_ctx ?ra _ = _ => assert (La : AL ra) by exact L0 end.
    exact (proj2 (bcast_heartbeat_with_ctx_AL _ _ _ Hx2 La)). }
  destruct (m_type m =? MsgAppendResponse).
  { inv_bind H. inversion H; subst. eapply handle_append_response_AppOK; eassumption. }
  destruct (m_type m =? MsgHeartbeatResponse).
  { inv_bind H. inversion H; subst. exact (proj2 (handle_heartbeat_response_AL _ _ _ Hx L0)). }
  destruct (m_type m =? MsgSnapStatus).
  { inv_bind H. inversion H; subst. eapply AppOK_same; [|exact HA].
    unfold handle_snapshot_status in Hx. destruct (get_pr r (m_from m)); [|inversion Hx; reflexivity].
    destruct (negb _); inversion Hx; reflexivity. }
  destruct (m_type m =? MsgUnreachable).
  { inv_bind H. inversion H; subst. eapply AppOK_same; [|exact HA].
    unfold handle_unreachable in Hx. destruct (get_pr r (m_from m)); inversion Hx; [|reflexivity].
    destruct (pstate_eqb _ _); reflexivity. }
  destruct (m_type m =? MsgTransferLeader).
  { inv_bind H. inversion H; subst. exact (proj2 (handle_transfer_leader_AL _ _ _ Hx L0)). }
  inversion H; subst. exact HA.
Qed.

Lemma step_candidate_AppOK rw r m r' c :
  step_candidate r m = Ok (r', c) -> msg_wf (last_index (r_log r)) m -> LI rw r -> AppOK r -> AppOK r'.
Proof.
  unfold step_candidate. intros H (We & _ & Wa & Ws) HI HA.
  destruct (m_type m =? MsgPropose). { inversion H; subst. exact HA. }
  match type of H with (if ?c then _ else _) = _ => destruct c eqn:E1 end.
  { destruct (negb (r_term r =? m_term m)); [discriminate|].
    inv_bind H. destruct (become_follower_pres rw _ _ _ _ Hx HI) as [H1 L1].
    pose proof (become_follower_AppOK _ _ _ _ Hx HA) as A1.
    inv_bind H. inversion H; subst.
    destruct (m_type m =? MsgAppend) eqn:Ea; [eapply handle_append_entries_AppOK; eassumption|].
    destruct (m_type m =? MsgHeartbeat) eqn:Eh; [eapply handle_heartbeat_AppOK; eassumption|].
    cbn [orb] in E1. apply N.eqb_eq in E1.
    eapply handle_snapshot_AppOK; [exact Hx0|exact (Ws E1)|exact H1|exact A1]. }
  match type of H with (if ?c then _ else _) = _ => destruct c eqn:E2 end.
  2:{ inversion H; subst. exact HA. }
  match type of H with (if ?c then _ else _) = _ => destruct c end.
  { inversion H; subst. exact HA. }
  inv_bind H. destruct x as [r1 res]. inv_bind H. inversion H; subst. cbn [fst] in Hx0.
  specialize (We (elect_type_vote_resp _ E2)).
  eapply maybe_commit_by_vote_AppOK; [exact Hx0|]. eapply poll_AppOK; eassumption.
Qed.

Lemma step_follower_AppOK rw r m r' c :
  step_follower r m = Ok (r', c) -> msg_wf (last_index (r_log r)) m -> LI rw r -> AppOK r -> AppOK r'.
Proof.
  unfold step_follower. intros H (We & _ & Wa & Ws) HI HA.
  destruct (m_type m =? MsgPropose) eqn:E1.
  { destruct (r_leader_id r =? INVALID_ID); [inversion H; subst; exact HA|].
    destruct (r_disable_proposal_forwarding r); [inversion H; subst; exact HA|].
    inv_bind H. inversion H; subst. eapply send_AppOK; [exact Hx| |exact HA].
    apply na_ok. cbn. apply N.eqb_eq in E1. rewrite E1. discriminate. }
  destruct (m_type m =? MsgAppend) eqn:Ea.
  { inv_bind H. inversion H; subst. eapply handle_append_entries_AppOK; [exact Hx|exact HI|exact HA]. }
  destruct (m_type m =? MsgHeartbeat).
  { inv_bind H. inversion H; subst. eapply handle_heartbeat_AppOK; [exact Hx|exact HI|exact HA]. }
  destruct (m_type m =? MsgSnapshot) eqn:Es.
  { apply N.eqb_eq in Es. inv_bind H. inversion H; subst.
    eapply handle_snapshot_AppOK; [exact Hx|exact (Ws Es)|exact HI|exact HA]. }
  destruct (m_type m =? MsgTransferLeader) eqn:Et.
  { destruct (r_leader_id r =? INVALID_ID); [inversion H; subst; exact HA|].
    inv_bind H. inversion H; subst. eapply send_AppOK; [exact Hx| |exact HA].
    apply na_ok. cbn. apply N.eqb_eq in Et. rewrite Et. discriminate. }
  destruct (m_type m =? MsgTimeoutNow) eqn:Etn.
  { destruct (r_promotable r); [|inversion H; subst; exact HA].
    inv_bind H. inversion H; subst. eapply hup_AppOK; [exact Hx|exact HI| |exact HA].
    apply We. unfold elect_type. rewrite Etn. rewrite ?orb_true_r. reflexivity. }
  destruct (m_type m =? MsgReadIndex) eqn:Er.
  { destruct (r_leader_id r =? INVALID_ID); [inversion H; subst; exact HA|].
    inv_bind H. inversion H; subst. eapply send_AppOK; [exact Hx| |exact HA].
    apply na_ok. cbn. apply N.eqb_eq in Er. rewrite Er. discriminate. }
  destruct (m_type m =? MsgReadIndexResp).
  { destruct (m_entries m) as [|e [|e2 es]]; try (inversion H; subst; exact HA).
    inv_bind H. inversion H; subst. exact HA. }
  inversion H; subst. exact HA.
Qed.

Lemma vote_resp_not_append t rt : vote_resp_msg_type t = Ok rt -> rt <> MsgAppend.
Proof.
  unfold vote_resp_msg_type. destruct (t =? MsgRequestVote); [intros H; inversion H; discriminate|].
  destruct (t =? MsgRequestPreVote); [intros H; inversion H; discriminate|discriminate].
Qed.

Lemma step_body_AppOK rw r m r' c :
  step_body r m = Ok (r', c) -> msg_wf (last_index (r_log r)) m -> LI rw r -> AppOK r -> AppOK r'.
Proof.
  unfold step_body. intros H W HI HA.
  destruct (m_type m =? MsgHup) eqn:Eh.
  { inv_bind H. inversion H; subst. eapply hup_AppOK; [exact Hx|exact HI| |exact HA].
    apply (proj1 W). unfold elect_type. rewrite Eh. reflexivity. }
  match type of H with (if ?c then _ else _) = _ => destruct c end.
  { inv_bind H. inv_bind H. apply vote_resp_not_append in Hx0.
    match type of H with (if ?c then _ else _) = _ => destruct c end.
    - inv_bind H.
      assert (A1 : AppOK x1) by (eapply send_AppOK; [exact Hx1|apply na_ok; cbn; exact Hx0|exact HA]).
      destruct (m_type m =? MsgRequestVote); inversion H; subst; exact A1.
    - inv_bind H. inv_bind H. inv_bind H. inversion H; subst.
      eapply maybe_commit_by_vote_AppOK; [exact Hx3|].
      eapply send_AppOK; [exact Hx2|apply na_ok; cbn; exact Hx0|exact HA]. }
  unfold step_role in H. destruct (r_state r).
  - eapply step_follower_AppOK; eassumption.
  - eapply step_candidate_AppOK; eassumption.
  - eapply step_leader_AppOK; eassumption.
  - eapply step_candidate_AppOK; eassumption.
Qed.

Theorem step_AppOK rw r m r' c :
  step r m = Ok (r', c) -> msg_wf (last_index (r_log r)) m -> LI rw r -> AppOK r -> AppOK r'.
Proof.
  intros H W HI HA. rewrite step_decompose in H. inv_bind H.
  assert (Hpro : match x with
                 | inl (r1, _) => AppOK r1
                 | inr r1 => AppOK r1 /\ LI rw r1 /\ last_index (r_log r1) = last_index (r_log r)
                 end).
  { clear H. unfold step_prologue in Hx.
    destruct (m_term m =? 0); [inversion Hx; subst; auto|].
    destruct (r_term r <? m_term m).
    - match type of Hx with (if ?c then _ else _) = _ => destruct c end; [inversion Hx; subst; exact HA|].
      match type of Hx with (if ?c then _ else _) = _ => destruct c end; [inversion Hx; subst; auto|].
      match type of Hx with (if ?c then _ else _) = _ => destruct c end;
        inv_bind Hx; inversion Hx; subst;
        (split; [eapply become_follower_AppOK; eassumption|eapply become_follower_pres; eassumption]).
    - destruct (m_term m <? r_term r); [|inversion Hx; subst; auto].
      match type of Hx with (if ?c then _ else _) = _ => destruct c end.
      + inv_bind Hx. inversion Hx; subst. eapply send_AppOK; [exact Hx0|na|exact HA].
      + match type of Hx with (if ?c then _ else _) = _ => destruct c end.
        * inv_bind Hx. inversion Hx; subst. eapply send_AppOK; [exact Hx0|na|exact HA].
        * inversion Hx; subst. exact HA. }
  destruct x as [[r1 c1]|r1].
  - inversion H; subst. exact Hpro.
  - destruct Hpro as (A1 & H1 & L1). eapply step_body_AppOK; [exact H| |exact H1|exact A1].
    rewrite L1. exact W.
Qed.

Theorem tick_AppOK rw r r' b : tick r = Ok (r', b) -> LI rw r -> room 1 r -> AppOK r -> AppOK r'.
Proof.
  unfold tick. intros H HI Hroom HA.
  assert (Hel : forall ra b', tick_election r = Ok (ra, b') -> AppOK ra).
  { unfold tick_election. intros ra b' He.
    match type of He with (if ?c then _ else _) = _ => destruct c end; [inversion He; subst; exact HA|].
    inv_bind He. inversion He; subst. destruct x as [r1 c]. cbn [fst].
    eapply step_AppOK; [exact Hx| |exact HI|exact HA].
    unfold msg_wf. cbn. splits; try (intros E; discriminate). intros _. exact Hroom. }
  assert (Hhb : forall ra b', tick_heartbeat r = Ok (ra, b') -> AppOK ra).
  { unfold tick_heartbeat. intros ra b' He. inv_bind He. destruct x as [r1 hr].
    assert (H1 : LI rw r1 /\ AppOK r1).
    { match type of Hx with (if ?c then _ else _) = _ => destruct c end; [|inversion Hx; subst; split; assumption].
      inv_bind Hx. destruct x as [rb hb]. inversion Hx; subst.
      assert (Hb : LI rw rb /\ AppOK rb).
      { destruct (r_check_quorum _); [|inversion Hx0; subst; split; assumption].
        inv_bind Hx0. inversion Hx0; subst. destruct x as [rc cc]. cbn [fst].
        assert (Wc : msg_wf (last_index (r_log (r <| r_heartbeat_elapsed := r_heartbeat_elapsed r + 1 |>
               <| r_election_elapsed := r_election_elapsed r + 1 |> <| r_election_elapsed := 0 |>)))
               (new_message INVALID_ID MsgCheckQuorum (Some (r_id (r <| r_heartbeat_elapsed := r_heartbeat_elapsed r + 1 |>
               <| r_election_elapsed := r_election_elapsed r + 1 |> <| r_election_elapsed := 0 |>))))).
        { apply msg_wf_plain; cbn; [reflexivity|discriminate|discriminate|discriminate]. }
        split; [eapply step_pres; [exact Hx1|exact Wc|exact HI]|eapply step_AppOK; [exact Hx1|exact Wc|exact HI|exact HA]]. }
      match goal with |- LI rw (if ?c then _ else _) /\ _ => destruct c end; exact Hb. }
    destruct H1 as [H1 A1].
    destruct (negb (is_leader r1)); [inversion He; subst; exact A1|].
    match type of He with (if ?c then _ else _) = _ => destruct c end; [|inversion He; subst; exact A1].
    inv_bind He. inversion He; subst. destruct x as [rb cb]. cbn [fst].
    eapply step_AppOK; [exact Hx0| |exact H1|exact A1].
    apply msg_wf_plain; cbn; [reflexivity|discriminate|discriminate|discriminate]. }
  destruct (r_state r); first [eapply Hel; exact H|eapply Hhb; exact H].
Qed.

Theorem on_persist_entries_AppOK rw r i t r' :
  on_persist_entries r i t = Ok r' -> LI rw r -> AppOK r -> AppOK r'.
Proof.
  unfold on_persist_entries. intros H HI HA. inv_bind H. destruct x as [l' upd].
  destruct (maybe_persist_pres rw _ _ _ _ _ Hx HI) as [A B].
  match type of H with (if ?c then _ else _) = _ => destruct c end; [|inversion H; subst; exact HA].
  match type of H with (match ?g with _ => _ end) = _ => destruct g as [pr|] end;
    [|inversion H; subst; exact HA].
  destruct (maybe_update pr i) as [pr' u]. destruct u; [|inversion H; subst; exact HA].
  inv_bind H. destruct x as [r1 c].
  match type of Hx0 with maybe_commit ?ra = _ =>
    assert (Ha : LI rw ra) by exact A; assert (Hm : AppOK ra) by exact HA end.
  destruct (maybe_commit_pres rw _ _ _ Hx0 Ha) as [H1 _].
  assert (A1 : AppOK r1) by (eapply AppOK_same; [eapply maybe_commit_msgs; exact Hx0|exact Hm]).
  match type of H with (if ?c then _ else _) = _ => destruct c end.
  - exact (proj2 (bcast_append_AL _ _ H (LI_AL rw _ H1 A1))).
  - inversion H; subst. exact A1.
Qed.

Theorem commit_apply_AppOK r a r' : commit_apply r a = Ok r' -> AppOK r -> AppOK r'.
Proof.
  unfold commit_apply, commit_apply_internal. cbn [negb]. intros H. apply AppOK_same.
  inv_bind H.
  match type of H with (if ?c then _ else _) = _ => destruct c end; [|inversion H; reflexivity].
  inv_bind H. destruct x0 as [r1 ok]. destruct ok; cbn [negb] in H; [|discriminate].
  inversion H; subst. cbn. destruct (append_entry_spec _ _ _ _ Hx0) as (_ & Em & _). exact Em.
Qed.

Theorem raft_apply_conf_change_AppOK rw r cc r' ocs :
  raft_apply_conf_change r cc = Ok (r', ocs) -> LI rw r -> AppOK r -> AppOK r'.
Proof.
  unfold raft_apply_conf_change. intros H HI HA.
  match type of H with (match ?g with _ => _ end) = _ => destruct g as [[c' chs]|e] end.
  - inv_bind H. destruct x as [r1 cs]. inversion H; subst. cbn [fst].
    match type of Hx with post_conf_change ?ra = _ =>
      assert (Ha : LI rw ra) by exact HI; assert (Hm : AppOK ra) by exact HA end.
    exact (post_conf_change_AppOK rw _ _ _ Hx Ha Hm).
  - inversion H; subst. exact HA.
Qed.

(* ---- RawNode: the queue is emptied by ready / light ready, otherwise as above ---- *)
Definition NAppOK (n : rawnode) : Prop := AppOK (rn_raft n).

Theorem exec_AppOK rw n o n' ot :
  exec n o = Ok (n', ot) -> op_wf n o -> NLI rw n -> NAppOK n -> NAppOK n'.
Proof.
  intros H W HI HA. unfold NAppOK in *.
  assert (Hglr : forall na nb lr, gen_light_ready na = Ok (nb, lr) -> AppOK (rn_raft nb)).
  { intros na nb lr Hg. destruct (gen_light_ready_spec _ _ _ Hg) as (oe & k & _ & _ & -> & _).
    unfold AppOK. cbn. constructor. }
  assert (Hstep : forall m x, step (rn_raft n) m = Ok x -> msg_wf (nlast n) m -> AppOK (fst x)).
  { intros m [r1 c1] Hs Wm. cbn [fst]. eapply step_AppOK; eassumption. }
  assert (Hplain : forall m x, step (rn_raft n) m = Ok x ->
            elect_type (m_type m) = false -> m_type m <> MsgPropose -> m_type m <> MsgAppend ->
            m_type m <> MsgSnapshot -> AppOK (fst x)).
  { intros m x Hs A B C0 D. eapply Hstep; [exact Hs|apply msg_wf_plain; assumption]. }
  destruct o; cbn [exec op_wf] in H, W; unfold quiet, quiet1 in H;
    try (inv_bind H; inversion H; subst; clear H).
  - (* step *)
    unfold rn_step, lift2 in Hx. destruct (is_local_msg (m_type m)); [inversion Hx; subst; exact HA|].
    match type of Hx with (if ?c then _ else _) = _ => destruct c end; [|inversion Hx; subst; exact HA].
    inv_bind Hx. inversion Hx; subst. cbn. eapply Hstep; eassumption.
  - unfold rn_tick in Hx. inv_bind Hx. destruct x0 as [r1 b1]. inversion Hx; subst. cbn.
    eapply tick_AppOK; eassumption.
  - unfold rn_campaign, lift2 in Hx. inv_bind Hx. inversion Hx; subst. cbn.
    eapply Hstep; [exact Hx0|]. unfold msg_wf. cbn. splits; try (intros E; discriminate). intros _. exact W.
  - unfold rn_propose, lift2 in Hx. inv_bind Hx. inversion Hx; subst. cbn.
    eapply Hstep; [exact Hx0|]. unfold msg_wf. cbn. splits; try (intros E; discriminate). intros _. exact W.
  - unfold rn_propose_conf_change, lift2 in Hx. inv_bind Hx. inversion Hx; subst. cbn.
    eapply Hstep; [exact Hx0|]. unfold msg_wf. cbn. splits; try (intros E; discriminate). intros _. exact W.
  - unfold rn_apply_conf_change in Hx. inv_bind Hx. destruct x0 as [r1 o1]. inversion Hx; subst. cbn.
    eapply raft_apply_conf_change_AppOK; eassumption.
  - unfold rn_ping, lift, ping in Hx. inv_bind Hx. inversion Hx; subst. cbn.
    destruct (is_leader (rn_raft n)); [|inversion Hx0; subst; exact HA].
    exact (proj2 (bcast_heartbeat_AL _ _ Hx0 (LI_AL rw _ HI HA))).
  - (* ready *)
    destruct x as [n1 rd]. cbn [fst].
    destruct (ready_entries_are_unstable _ _ _ Hx) as (_ & _ & _ & _ & _ & _ & _ & _ & _ & _ & _ & _ & _ & _ & E).
    unfold AppOK. rewrite E. constructor.
  - (* advance *)
    destruct x as [n1 lr]. cbn [fst]. unfold rn_advance in Hx. inv_bind Hx. destruct x as [n2 lr2].
    cbn [fst snd] in Hx. inv_bind Hx. inversion Hx; subst.
    destruct (rn_advance_append_inv _ _ _ _ Hx0) as (m1 & m2 & m3 & lr3 & _ & _ & H3 & _ & _ & _ & _ & Hn' & _).
    unfold rn_advance_apply_to, lift in Hx1. inv_bind Hx1. inversion Hx1; subst. cbn.
    eapply commit_apply_AppOK; [exact Hx2|]. cbn. eapply Hglr; exact H3.
  - destruct x as [n1 lr]. cbn [fst].
    destruct (rn_advance_append_inv _ _ _ _ Hx) as (m1 & m2 & m3 & lr3 & _ & _ & H3 & _ & _ & _ & _ & Hn' & _).
    subst n1. cbn. eapply Hglr; exact H3.
  - unfold rn_advance_append_async in Hx. destruct (commit_ready_stabilises _ _ _ Hx) as (_ & _ & _ & ->).
    cbn. destruct (commit_prev_frame n rd) as (F1 & _). exact HA.
  - (* on_persist_ready *)
    unfold rn_on_persist_ready in Hx. unfold persist_pre, nlog in W.
    destruct (fold_records (rn_records n) number 0 0 0) as [[[recs i] t] si]. cbn [snd] in W.
    apply bind_ok in Hx. destruct Hx as (ra & Ha & Hx). apply bind_ok in Hx. destruct Hx as (rb & Hb & Hx).
    inversion Hx; subst. cbn.
    assert (H1 : LI rw ra /\ AppOK ra).
    { destruct (negb (si =? 0)); [|inversion Ha; subst ra; split; [exact HI|exact HA]].
      split.
      - exact (proj1 (on_persist_snap_pres rw _ _ _ Ha HI W)).
      - unfold on_persist_snap in Ha. inv_bind Ha. inversion Ha; subst ra. exact HA. }
    destruct H1 as [H1 A1].
    destruct (negb (i =? 0)); [|inversion Hb; subst rb; exact A1].
    eapply on_persist_entries_AppOK; eassumption.
  - unfold rn_advance_apply, rn_advance_apply_to, lift in Hx. inv_bind Hx. inversion Hx; subst. cbn.
    eapply commit_apply_AppOK; eassumption.
  - unfold rn_advance_apply_to, lift in Hx. inv_bind Hx. inversion Hx; subst. cbn.
    eapply commit_apply_AppOK; eassumption.
  - unfold rn_report_unreachable in Hx. inv_bind Hx. inversion Hx; subst. cbn.
    eapply Hplain; [exact Hx0| | | |]; cbn; (reflexivity || discriminate).
  - unfold rn_report_snapshot in Hx. inv_bind Hx. inversion Hx; subst. cbn.
    eapply Hplain; [exact Hx0| | | |]; cbn; (reflexivity || discriminate).
  - unfold rn_request_snapshot, lift2, request_snapshot in Hx. inv_bind Hx. inversion Hx; subst. cbn.
    destruct (is_leader (rn_raft n)); [inversion Hx0; subst; exact HA|].
    destruct (r_leader_id (rn_raft n) =? INVALID_ID); [inversion Hx0; subst; exact HA|].
    match type of Hx0 with (if ?c then _ else _) = _ => destruct c end; [inversion Hx0; subst; exact HA|].
    destruct (negb _); [inversion Hx0; subst; exact HA|].
    inv_bind Hx0. destruct x; [|discriminate].
    destruct (r_term (rn_raft n) =? a); [|inversion Hx0; subst; exact HA].
    inv_bind Hx0. inversion Hx0; subst. cbn.
    match type of Hx2 with send_request_snapshot ?ra = _ =>
      assert (La : AL ra) by exact (LI_AL rw _ HI HA) end.
    exact (proj2 (send_request_snapshot_AL _ _ Hx2 La)).
  - unfold rn_transfer_leader in Hx. inv_bind Hx. inversion Hx; subst. cbn.
    eapply Hplain; [exact Hx0| | | |]; cbn; (reflexivity || discriminate).
  - unfold rn_read_index in Hx. inv_bind Hx. inversion Hx; subst. cbn.
    eapply Hplain; [exact Hx0| | | |]; cbn; (reflexivity || discriminate).
  - inversion H; subst. exact HA.
Qed.

Theorem wrun_AppOK rw n n' : wrun n n' -> NLI rw n -> NAppOK n -> NAppOK n'.
Proof.
  intros R. induction R as [|n o n1 ot n' W E R IH]; intros HI HA; [exact HA|].
  apply IH; [eapply exec_pres; eassumption|eapply exec_AppOK; eassumption].
Qed.

Lemma raft_new_msgs c st sa dr r : raft_new c st sa dr = Ok (inr r) -> r_msgs r = [].
Proof.
  unfold raft_new. intros H.
  destruct (negb (cfg_validate c)); [discriminate|].
  apply bind_ok in H. destruct H as (l & Hl & H).
  destruct (ConfChange.restore empty_tracker (cs st)) as [[c' ids']|e]; [|discriminate].
  rewrite post_conf_change_nonleader in H by reflexivity. cbn [bind] in H.
  match type of H with (if ?c then _ else _) = _ => destruct c end; [discriminate|].
  apply bind_ok in H. destruct H as (r3 & H3 & H).
  apply bind_ok in H. destruct H as (r4 & H4 & H).
  apply bind_ok in H. destruct H as (r5 & H5 & H).
  apply bind_ok in H. destruct H as (lt & _ & H). inversion H; subst r.
  rewrite (proj1 (become_follower_msgs_log _ _ _ _ H5)).
  assert (E3 : r_msgs r3 = []).
  { destruct (hs_eqb (hs st) hs_default); [inversion H3; reflexivity|].
    unfold load_state in H3.
    match type of H3 with (if ?c then _ else _) = _ => destruct c end; [discriminate|].
    inversion H3; reflexivity. }
  assert (E4 : r_msgs r4 = r_msgs r3).
  { destruct (0 <? c_applied c); [|inversion H4; reflexivity].
    unfold commit_apply_internal in H4. cbn [negb] in H4.
    destruct (c_applied c =? 0); [discriminate|]. cbn [bind] in H4.
    match type of H4 with (if ?c then _ else _) = _ => destruct c end; [|inversion H4; reflexivity].
    apply bind_ok in H4. destruct H4 as ([r1 ok] & Ha & H4). destruct ok; cbn [negb] in H4; [|discriminate].
    inversion H4; subst r4. cbn. destruct (append_entry_spec _ _ _ _ Ha) as (_ & Em & _). exact Em. }
  congruence.
Qed.

(* every MsgAppend a node ever holds in its outbound queue (hence every one a Ready or
   LightReady hands to the application) is a contiguous batch *)
Theorem append_msgs_contiguous_from_new c st sa dr n0 n m :
  rn_new c st sa dr = Ok (inr n0) -> SInv st -> trig_log st = false -> wrun n0 n ->
  In m (r_msgs (rn_raft n)) -> m_type m = MsgAppend ->
  contiguous_from (m_index m + 1) (m_entries m).
Proof.
  intros H Hs Hq R Hin Ht.
  destruct (rn_new_pres _ _ _ _ _ H Hs Hq) as (A & _).
  assert (A0 : NAppOK n0).
  { unfold NAppOK, AppOK. unfold rn_new in H. destruct (c_id c =? 0); [discriminate|].
    inv_bind H. destruct x as [e|r]; inversion H; subst. cbn.
    rewrite (raft_new_msgs _ _ _ _ _ Hx). constructor. }
  pose proof (wrun_AppOK true _ _ R A A0) as HA. unfold NAppOK, AppOK in HA.
  rewrite Forall_forall in HA. exact (HA m Hin Ht).
Qed.

(* ---- the messages actually handed to the application ---- *)
Theorem ready_msgs_ok n n1 rd :
  rn_ready n = Ok (n1, rd) -> NAppOK n -> Forall app_ok (lr_messages (rd_light rd)).
Proof.
  intros H HA. destruct (rn_ready_light _ _ _ H) as (oe & k & _ & _ & E & _). rewrite E. exact HA.
Qed.

Lemma commit_ready_msgs n rd n' : commit_ready n rd = Ok n' -> r_msgs (rn_raft n') = r_msgs (rn_raft n).
Proof.
  intros H. destruct (commit_ready_stabilises _ _ _ H) as (_ & _ & _ & ->). reflexivity.
Qed.

Lemma rn_on_persist_ready_AppOK rw n number n' :
  rn_on_persist_ready n number = Ok n' -> persist_pre n number -> NLI rw n -> NAppOK n -> NAppOK n'.
Proof.
  intros H W HI HA.
  assert (E : exec n (OOnPersistReady number) = Ok (n', no_out)) by (cbn; rewrite H; reflexivity).
  exact (exec_AppOK rw _ _ _ _ E W HI HA).
Qed.

Theorem advance_append_msgs_ok rw n rd n' lr :
  rn_advance_append n rd = Ok (n', lr) -> advance_pre n -> NLI rw n -> NAppOK n ->
  Forall app_ok (lr_messages lr).
Proof.
  intros H [P1 P2] HI HA.
  destruct (rn_advance_append_inv _ _ _ _ H) as (n1 & n2 & n3 & lr3 & H1 & H2 & H3 & _ & _ & _ & _ & _ & Hl).
  destruct (commit_ready_pres rw _ _ _ H1 P1 HI) as (A1 & _ & C1 & (_ & D2 & _) & E1 & F1).
  assert (P2' : persist_pre n1 (rn_max_number n1)).
  { unfold persist_pre in *. rewrite E1, F1, D2, C1. exact P2. }
  assert (HA1 : NAppOK n1) by (unfold NAppOK; eapply AppOK_same; [eapply commit_ready_msgs; exact H1|exact HA]).
  pose proof (rn_on_persist_ready_AppOK rw _ _ _ H2 P2' A1 HA1) as HA2.
  destruct (gen_light_ready_spec _ _ _ H3) as (oe & k & _ & E3 & _).
  subst lr. cbn [lr_messages]. rewrite E3. cbn [lr_messages]. exact HA2.
Qed.

Theorem advance_msgs_ok rw n rd n' lr :
  rn_advance n rd = Ok (n', lr) -> advance_pre n -> NLI rw n -> NAppOK n ->
  Forall app_ok (lr_messages lr).
Proof.
  unfold rn_advance. intros H P HI HA. inv_bind H. destruct x as [n1 lr1]. cbn [fst snd] in H.
  inv_bind H. inversion H; subst. eapply advance_append_msgs_ok; eassumption.
Qed.

(* from RawNode::new: every MsgAppend in the messages of any Ready or LightReady is a
   contiguous batch *)
Theorem handed_append_msgs_contiguous_from_new c st sa dr n0 n :
  rn_new c st sa dr = Ok (inr n0) -> SInv st -> trig_log st = false -> wrun n0 n ->
  (forall n1 rd, rn_ready n = Ok (n1, rd) -> Forall app_ok (lr_messages (rd_light rd)))
  /\ (forall rd n1 lr, advance_pre n -> rn_advance_append n rd = Ok (n1, lr) -> Forall app_ok (lr_messages lr))
  /\ (forall rd n1 lr, advance_pre n -> rn_advance n rd = Ok (n1, lr) -> Forall app_ok (lr_messages lr)).
Proof.
  intros H Hs Hq R.
  destruct (rn_new_pres _ _ _ _ _ H Hs Hq) as (A & _).
  assert (A0 : NAppOK n0).
  { unfold NAppOK, AppOK. unfold rn_new in H. destruct (c_id c =? 0); [discriminate|].
    inv_bind H. destruct x as [e|r]; inversion H; subst. cbn.
    rewrite (raft_new_msgs _ _ _ _ _ Hx). constructor. }
  pose proof (wrun_AppOK true _ _ R A A0) as HA. pose proof (wrun_pres true _ _ R A) as HI.
  splits.
  - intros n1 rd Hr. eapply ready_msgs_ok; eassumption.
  - intros rd n1 lr P Ha. eapply advance_append_msgs_ok; eassumption.
  - intros rd n1 lr P Ha. eapply advance_msgs_ok; eassumption.
Qed.

Lemma app_ok_def m :
  app_ok m <-> (m_type m = MsgAppend -> contiguous_from (m_index m + 1) (m_entries m)).
Proof. reflexivity. Qed.

Lemma AppOK_def r : AppOK r <-> Forall app_ok (r_msgs r).
Proof. reflexivity. Qed.

Lemma NAppOK_def n : NAppOK n <-> Forall app_ok (r_msgs (rn_raft n)).
Proof. reflexivity. Qed.

Lemma AL_def r : AL r <-> LogInv (r_log r) /\ Forall app_ok (r_msgs r).
Proof. reflexivity. Qed.

Module AppSamples.
  Import Samples RepInvSamples.
  (* the three-voter node campaigns, one grant makes it leader: it queues a MsgAppend
     with its empty entry for each peer *)
  Definition g1 : rawnode. Proof. from_ok (x <- exec f0 OCampaign ;; Ok (fst x)). Defined.
  Definition vresp : msg :=
    msg_default <| m_type := MsgRequestVoteResponse |> <| m_from := 2 |> <| m_to := 1 |> <| m_term := 1 |>.
  Definition g2 : rawnode. Proof. from_ok (x <- exec g1 (OStep vresp) ;; Ok (fst x)). Defined.

  Example ex_election_trace : wrun f0 g2.
  Proof.
    eapply (wrun_cons f0 OCampaign g1); [vm_compute; reflexivity|vm_compute; reflexivity|].
    eapply (wrun_cons g1 (OStep vresp) g2).
    { unfold msg_wf. split; [|split; [|split]]; intros E; try (vm_compute in E; discriminate E).
      vm_compute. reflexivity. }
    { vm_compute. reflexivity. }
    constructor.
  Qed.

  Example ex_election_appends :
    is_leader (rn_raft g2) = true
    /\ map (fun m => (m_type m, m_to m, m_index m, map e_index (m_entries m)))
           (filter (fun m => m_type m =? MsgAppend) (r_msgs (rn_raft g2)))
       = [(MsgAppend, 2, 0, [1]); (MsgAppend, 3, 0, [1])]
    /\ NAppOK g2.
  Proof.
    split; [reflexivity|]. split; [reflexivity|].
    refine (wrun_AppOK false _ _ ex_election_trace f0_inv _). unfold NAppOK, AppOK. vm_compute. constructor.
  Qed.
End AppSamples.

(* ================================================================== *)
(* Part G. The hand-out cursor stays a proper u64                        *)
(* ================================================================== *)
(* the first half of [handout_side] is itself an invariant (given Config.applied <
   u64::MAX): commit_since_index only moves to the index of a handed-out entry or of a
   pending snapshot, both at most committed <= last_index < u64::MAX *)
Definition CsiOK (n : rawnode) : Prop := rn_commit_since_index n < u64_max.

Lemma last_In {A} (l : list A) d : l <> [] -> In (List.last l d) l.
Proof.
  induction l as [|a [|b t] IH]; intros H; [congruence|left; reflexivity|].
  right. apply IH. discriminate.
Qed.

Lemma gen_light_ready_CsiOK rw n n' lr :
  gen_light_ready n = Ok (n', lr) -> NLI rw n -> CsiOK n -> CsiOK n'.
Proof.
  intros H HI Hc. unfold CsiOK in *.
  destruct (commit_since_monotone_light _ _ _ H) as (_ & A & B).
  destruct (lr_committed_entries lr) as [|e t] eqn:E; [rewrite (A eq_refl); exact Hc|].
  destruct (B ltac:(discriminate)) as [B1 _]. rewrite B1.
  destruct (handout_bound rw n n' lr HI Hc H) as (_ & _ & Hin & _).
  destruct (Hin (List.last (lr_committed_entries lr) entry_default)) as (_ & Hle & _).
  { apply last_In. rewrite E. discriminate. }
  rewrite E in Hle. pose proof (RepInv_committed_le_last rw _ HI). pose proof (RepInv_last_bound rw _ HI). lia.
Qed.

Lemma ready_since_bound rw n : NLI rw n -> CsiOK n -> ready_since n < u64_max.
Proof.
  intros HI Hc. unfold ready_since. pose proof (ri_shape rw _ HI) as Hsh.
  destruct (u_snapshot (unst (r_log (rn_raft n)))) as [s|]; [|exact Hc].
  destruct Hsh as [_ Hs]. pose proof (RepInv_committed_le_last rw _ HI). pose proof (RepInv_last_bound rw _ HI). lia.
Qed.

Lemma rn_ready_CsiOK rw n n' rd : rn_ready n = Ok (n', rd) -> NLI rw n -> CsiOK n -> CsiOK n'.
Proof.
  intros H HI Hc.
  destruct (rn_ready_inv _ _ _ H) as (recs & snap & csi & rec_snap & ms2 & n2 & light & _ & Hsnap & Hgl & Hn' & _).
  assert (Hcsi : csi = ready_since n).
  { unfold ready_snap in Hsnap. unfold ready_since.
    destruct (u_snapshot (unst (r_log (rn_raft n)))); [|inversion Hsnap; reflexivity].
    destruct Hsnap as (_ & _ & E). inversion E; reflexivity. }
  subst csi n'. change (CsiOK n2).
  eapply (gen_light_ready_CsiOK rw); [exact Hgl|exact HI|].
  unfold CsiOK. cbn. eapply ready_since_bound; eassumption.
Qed.

Theorem exec_CsiOK rw n o n' ot :
  exec n o = Ok (n', ot) -> op_wf n o -> NLI rw n -> CsiOK n -> CsiOK n'.
Proof.
  intros H W HI Hc.
  assert (Haa : forall rd n1 lr, advance_pre n -> rn_advance_append n rd = Ok (n1, lr) -> CsiOK n1).
  { intros rd n1 lr [P1 P2] Ha.
    destruct (rn_advance_append_inv _ _ _ _ Ha) as (m1 & m2 & m3 & lr3 & H1 & H2 & H3 & _ & _ & _ & _ & Hn' & _).
    destruct (commit_ready_pres rw _ _ _ H1 P1 HI) as (A1 & _ & C1 & (_ & D2 & _) & E1 & F1).
    assert (P2' : persist_pre m1 (rn_max_number m1)).
    { unfold persist_pre in *. rewrite E1, F1, D2, C1. exact P2. }
    destruct (rn_on_persist_ready_pres rw _ _ _ H2 P2' A1) as (A2 & _).
    assert (C2 : CsiOK m2).
    { unfold CsiOK. rewrite (on_persist_ready_csi _ _ _ H2), (commit_ready_csi _ _ _ H1). exact Hc. }
    pose proof (gen_light_ready_CsiOK rw _ _ _ H3 A2 C2) as C3. subst n1. exact C3. }
  destruct o;
    try (match type of H with exec _ ?o = _ =>
           destruct (quiet_ops_csi n o n' ot I H) as [_ E] end; unfold CsiOK; rewrite E; exact Hc).
  - cbn [exec] in H. inv_bind H. destruct x as [n1 rd]. inversion H; subst. cbn [fst].
    eapply rn_ready_CsiOK; eassumption.
  - cbn [exec op_wf] in H, W. inv_bind H. destruct x as [n1 lr]. inversion H; subst. cbn [fst].
    unfold rn_advance in Hx. inv_bind Hx. destruct x as [n2 lr2]. cbn [fst snd] in Hx.
    inv_bind Hx. inversion Hx; subst. unfold rn_advance_apply_to in Hx1.
    unfold CsiOK. rewrite (lift_csi _ _ _ Hx1). eapply Haa; [exact (proj1 W)|exact Hx0].
  - cbn [exec op_wf] in H, W. inv_bind H. destruct x as [n1 lr]. inversion H; subst. cbn [fst].
    eapply Haa; eassumption.
Qed.

(* what is left as a caller-side condition at the hand-out points *)
Definition op_pre_node2 (n : rawnode) (o : op) : Prop :=
  op_wf n o /\
  match o with
  | OReady => ll_first (abs (nlog n)) <= ready_since n + 1
  | OAdvance rd | OAdvanceAppend rd =>
      forall n1 n2, commit_ready n rd = Ok n1 ->
                    rn_on_persist_ready n1 (rn_max_number n1) = Ok n2 ->
                    ll_first (abs (nlog n2)) <= rn_commit_since_index n2 + 1
  | _ => True
  end.

Lemma op_pre_node2_node rw n o : NLI rw n -> CsiOK n -> op_pre_node2 n o -> op_pre_node n o.
Proof.
  intros HI Hc [W S]. split; [exact W|]. destruct o; try exact I.
  - split; [eapply ready_since_bound; eassumption|exact S].
  - intros n1 n2 H1 H2. split; [|exact (S n1 n2 H1 H2)].
    rewrite (on_persist_ready_csi _ _ _ H2), (commit_ready_csi _ _ _ H1). exact Hc.
  - intros n1 n2 H1 H2. split; [|exact (S n1 n2 H1 H2)].
    rewrite (on_persist_ready_csi _ _ _ H2), (commit_ready_csi _ _ _ H1). exact Hc.
Qed.

Inductive nrun2 : rawnode -> hist -> rawnode -> hist -> Prop :=
| nrun2_nil n h : nrun2 n h n h
| nrun2_cons n h o n1 ot n' h' :
    op_pre_node2 n o -> exec n o = Ok (n1, ot) -> nrun2 n1 (hist_step h ot) n' h' -> nrun2 n h n' h'.

Theorem handout_contiguous_node2 rw n h n' h' :
  NLI rw n -> CsiOK n -> Hist n h -> nrun2 n h n' h' -> Hist n' h' /\ NLI rw n' /\ CsiOK n'.
Proof.
  intros HI Hc HH R. induction R as [|n h o n1 ot n' h' Hp He R IH]; [splits; assumption|].
  apply IH.
  - eapply exec_pres; [exact He|exact (proj1 Hp)|exact HI].
  - eapply exec_CsiOK; [exact He|exact (proj1 Hp)|exact HI|exact Hc].
  - eapply handout_exec; [exact HH| |exact He].
    eapply op_pre_node_op_pre; [exact HI|]. eapply op_pre_node2_node; eassumption.
Qed.

Theorem handout_contiguous_from_new2 c st sa dr n0 n h :
  rn_new c st sa dr = Ok (inr n0) -> SInv st -> trig_log st = false -> c_applied c < u64_max ->
  nrun2 n0 (c_applied c, []) n h -> Hist n h /\ NLogOK n /\ rn_commit_since_index n < u64_max.
Proof.
  intros H Hs Hq Ha R. destruct (rn_new_pres _ _ _ _ _ H Hs Hq) as (A & _).
  assert (C0 : CsiOK n0).
  { unfold CsiOK. unfold rn_new in H. destruct (c_id c =? 0); [discriminate|].
    inv_bind H. destruct x as [e|r]; inversion H; subst. exact Ha. }
  destruct (handout_contiguous_node2 true _ _ _ _ A C0 (handout_init _ _ _ _ _ H) R) as (B & D & E).
  splits; [exact B|exists true; exact D|exact E].
Qed.

Lemma op_pre_node2_def n o :
  op_pre_node2 n o <->
  op_wf n o /\
  match o with
  | OReady => ll_first (abs (r_log (rn_raft n))) <= ready_since n + 1
  | OAdvance rd | OAdvanceAppend rd =>
      forall n1 n2, commit_ready n rd = Ok n1 ->
                    rn_on_persist_ready n1 (rn_max_number n1) = Ok n2 ->
                    ll_first (abs (r_log (rn_raft n2))) <= rn_commit_since_index n2 + 1
  | _ => True
  end.
Proof. reflexivity. Qed.

Lemma nrun2_iff n h n' h' :
  nrun2 n h n' h' <->
  (n' = n /\ h' = h)
  \/ exists o n1 ot, op_pre_node2 n o /\ exec n o = Ok (n1, ot) /\ nrun2 n1 (hist_step h ot) n' h'.
Proof.
  split.
  - intros R. destruct R; [left; split; reflexivity|right; eauto 10].
  - intros [[-> ->]|(o & n1 & ot & A & B & C0)]; [constructor|econstructor; eassumption].
Qed.

Lemma CsiOK_def n : CsiOK n <-> rn_commit_since_index n < u64_max.
Proof. reflexivity. Qed.

Module HandoutSamples.
  Import Samples RepInvSamples.
  (* the single-voter trace of ex_leader_trace as a hand-out run: the empty entry (1,1)
     is handed out by advance_append, right after Config.applied = 0 *)
  Example ex_handout_run : nrun2 node0 (0, []) node3 (0, [e1]).
  Proof.
    eapply (nrun2_cons node0 _ OCampaign node1).
    { split; [vm_compute; reflexivity|exact I]. }
    { vm_compute. reflexivity. }
    eapply (nrun2_cons node1 _ OReady (fst ready1)).
    { split; [exact I|]. vm_compute. discriminate. }
    { vm_compute. reflexivity. }
    eapply (nrun2_cons (fst ready1) _ (OSetStore store1) node2).
    { split; [|exact I]. apply SW_entries; [reflexivity|vm_compute; reflexivity]. }
    { reflexivity. }
    eapply (nrun2_cons node2 _ (OAdvanceAppend (snd ready1)) node3).
    { split.
      - split.
        + split; [intros C; vm_compute in C; congruence|intros _; vm_compute; reflexivity].
        + unfold persist_pre. vm_compute. intros C; discriminate.
      - intros n1 n2 H1 H2. vm_compute in H1. inversion H1; subst n1; clear H1.
        vm_compute in H2. inversion H2; subst n2; clear H2. vm_compute. discriminate. }
    { vm_compute. reflexivity. }
    vm_compute. apply nrun2_nil.
  Qed.
End HandoutSamples.

(* ---- persist_pre is automatic while no outstanding record carries a snapshot ---- *)
Lemma fold_records_no_snapshot recs : forall number i t si,
  (forall rr, In rr recs -> rr_snapshot rr = None) ->
  snd (fold_records recs number i t si) = si.
Proof.
  induction recs as [|rr rest IH]; intros number i t si Hn; cbn [fold_records]; [reflexivity|].
  destruct (number <? rr_number rr); [reflexivity|].
  rewrite (Hn rr (or_introl eq_refl)).
  destruct (rr_last_entry rr) as [[a b]|]; apply IH; intros r Hr; apply Hn; right; exact Hr.
Qed.

Theorem persist_pre_no_snapshot n number :
  (forall rr, In rr (rn_records n) -> rr_snapshot rr = None) -> persist_pre n number.
Proof.
  intros Hn. unfold persist_pre. rewrite (fold_records_no_snapshot _ _ _ _ _ Hn). intros H. lia.
Qed.
