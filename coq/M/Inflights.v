(* Model of /repo/src/tracker/inflights.rs (struct Inflights), debug-build
   semantics: every panic!/assert!/debug_assert!/slice-index failure is a
   [Panic site] value.  [allocated] models [buffer.capacity() > 0]
   ([Vec::with_capacity n] allocates iff n > 0, [vec![]] never does). *)
From RV Require Import Base.Prelude.

Record inflights := mkInf {
  start : nat;
  count : nat;
  buffer : list N;
  cap : nat;
  incoming_cap : option nat;
  allocated : bool
}.

Definition site_add_full : site := 1801%N.          (* panic!("cannot add into a full inflights") *)
Definition site_add_dbg_count : site := 1802%N.     (* debug_assert_eq!(self.count, 0) *)
Definition site_add_dbg_start : site := 1803%N.     (* debug_assert_eq!(self.start, 0) *)
Definition site_add_dbg_incoming : site := 1804%N.  (* debug_assert!(self.incoming_cap.is_none()) *)
Definition site_add_next : site := 1805%N.          (* assert!(next <= self.buffer.len()) *)
Definition site_setcap_dbg_len : site := 1806%N.    (* debug_assert_eq!(self.cap, self.buffer.len()) *)
Definition site_setcap_slice : site := 1807%N.      (* self.buffer[self.start..] / [0..n] out of range *)
Definition site_free_index : site := 1808%N.        (* self.buffer[idx] out of range in free_to *)
Definition site_first_index : site := 1809%N.       (* self.buffer[self.start] in free_first_one *)
Definition site_count_underflow : site := 1810%N.   (* usize subtraction underflow *)

Definition new (c : nat) : inflights :=
  mkInf 0 0 [] c None (0 <? c).

Definition full (s : inflights) : bool :=
  (count s =? cap s) ||
  match incoming_cap s with Some c => c <=? count s | None => false end.

Definition set_cap (s : inflights) (ic : nat) : Res inflights :=
  match Nat.compare (cap s) ic with
  | Eq => Ok (mkInf (start s) (count s) (buffer s) (cap s) None (allocated s))
  | Lt =>
      if start s + count s <=? cap s then
        (* buffer.reserve(..) only when already allocated: no visible change *)
        Ok (mkInf (start s) (count s) (buffer s) ic None (allocated s))
      else
        if negb (cap s =? length (buffer s)) then Panic site_setcap_dbg_len
        else if length (buffer s) <? start s then Panic site_setcap_slice
        else if cap s <? start s then Panic site_count_underflow
        else if count s <? cap s - start s then Panic site_count_underflow
        else if length (buffer s) <? count s - (cap s - start s) then Panic site_setcap_slice
        else
          let buf := skipn (start s) (buffer s)
                     ++ firstn (count s - (cap s - start s)) (buffer s) in
          Ok (mkInf 0 (count s) buf ic None (0 <? ic))
  | Gt =>
      if count s =? 0 then
        Ok (mkInf 0 0 (if allocated s then [] else buffer s) ic None
                  (if allocated s then 0 <? ic else false))
      else
        Ok (mkInf (start s) (count s) (buffer s) (cap s) (Some ic) (allocated s))
  end.

Definition add (s : inflights) (x : N) : Res inflights :=
  if full s then Panic site_add_full else
  s1 <- (if allocated s then Ok s
         else if negb (count s =? 0) then Panic site_add_dbg_count
         else if negb (start s =? 0) then Panic site_add_dbg_start
         else match incoming_cap s with
              | Some _ => Panic site_add_dbg_incoming
              | None => Ok (mkInf (start s) (count s) [] (cap s) None (0 <? cap s))
              end) ;;
  let next0 := start s1 + count s1 in
  let next := if cap s1 <=? next0 then next0 - cap s1 else next0 in
  if length (buffer s1) <? next then Panic site_add_next else
  let buf := if next =? length (buffer s1) then buffer s1 ++ [x]
             else upd (buffer s1) next x in
  Ok (mkInf (start s1) (S (count s1)) buf (cap s1) (incoming_cap s1) (allocated s1)).

(* The while loop of free_to: [fuel] = count - i remaining iterations.
   Returns (i, idx). *)
Fixpoint free_loop (buf : list N) (c : nat) (to : N) (fuel i ix : nat)
  : Res (nat * nat) :=
  match fuel with
  | O => Ok (i, ix)
  | S fuel' =>
      b <- idx buf ix site_free_index ;;
      if (to <? b)%N then Ok (i, ix)
      else
        let ix1 := S ix in
        let ix2 := if c <=? ix1 then ix1 - c else ix1 in
        free_loop buf c to fuel' (S i) ix2
  end.

Definition free_to (s : inflights) (to : N) : Res inflights :=
  if count s =? 0 then Ok s else
  b0 <- idx (buffer s) (start s) site_free_index ;;
  if (to <? b0)%N then Ok s else
  r <- free_loop (buffer s) (cap s) to (count s) 0 (start s) ;;
  let '(i, ix) := r in
  let cnt := count s - i in
  if cnt =? 0 then
    match incoming_cap s with
    | Some ic => Ok (mkInf 0 0 [] ic None (0 <? ic))
    | None => Ok (mkInf ix 0 (buffer s) (cap s) None (allocated s))
    end
  else Ok (mkInf ix cnt (buffer s) (cap s) (incoming_cap s) (allocated s)).

Definition free_first_one (s : inflights) : Res inflights :=
  if 0 <? count s then
    b <- idx (buffer s) (start s) site_first_index ;;
    free_to s b
  else Ok s.

Definition reset (s : inflights) : inflights :=
  mkInf 0 0 [] (match incoming_cap s with Some c => c | None => cap s end) None false.

Definition maybe_free_buffer (s : inflights) : inflights :=
  if count s =? 0 then mkInf 0 0 [] (cap s) (incoming_cap s) false else s.

(* Operations as data, for histories. *)
Inductive op :=
| OAdd (x : N) | OFreeTo (x : N) | OFreeFirst | OReset | OSetCap (c : nat) | OMaybeFree.

Definition step (s : inflights) (o : op) : Res inflights :=
  match o with
  | OAdd x => add s x
  | OFreeTo x => free_to s x
  | OFreeFirst => free_first_one s
  | OReset => Ok (reset s)
  | OSetCap c => set_cap s c
  | OMaybeFree => Ok (maybe_free_buffer s)
  end.

(* A history: run a list of operations, stopping at the first panic. *)
Fixpoint run (s : inflights) (ops : list op) : Res inflights :=
  match ops with
  | [] => Ok s
  | o :: rest => s' <- step s o ;; run s' rest
  end.
