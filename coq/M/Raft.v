(* Model of /repo/src/raft.rs (Raft<MemStorage>, RaftCore, UncommittedState),
   /repo/src/read_only.rs and the ProgressTracker of /repo/src/tracker.rs.
   One Gallina function per Rust function; debug-build semantics; panics are
   [Panic site] values.  The randomized election timeout is an oracle: every
   [reset] consumes the next element of [r_draws] (the values the real
   thread_rng produced, recorded by hook H2).  Hash-map iteration order is not
   modelled: loops over the progress map run in increasing id order, and every
   comparison with the implementation sorts outbound messages by destination
   (stable), which is the only place the order shows.  No proofs here. *)
From RV Require Import Base.Prelude Base.IdSet M.Util M.Proto M.MemStorage M.Inflights
  M.Progress M.RaftLog M.Quorum M.ConfChange M.Msg.
From RecordUpdate Require Import RecordSet.
Import RecordSetNotations.

Local Open Scope N_scope.

(* ------------------------------------------------------------------ *)
(* sites *)
Definition site_send_vote_term0 : site := 2001.      (* "term should be set when sending" *)
Definition site_send_term_set : site := 2002.        (* "term should not be set when sending" *)
Definition site_snapshot_err : site := 2003.         (* "unexpected error: {:?}" in prepare_send_snapshot *)
Definition site_snapshot_empty : site := 2004.       (* "need non-empty snapshot" *)
Definition site_self_progress : site := 2005.        (* prs.get_mut(self_id).unwrap() *)
Definition site_commit_apply_assert : site := 2006.  (* assert!(applied > 0) *)
Definition site_autoleave_dropped : site := 2007.    (* "appending an empty EntryConfChangeV2 should never be dropped" *)
Definition site_candidate_from_leader : site := 2008. (* "invalid transition [leader -> candidate]" *)
Definition site_precandidate_from_leader : site := 2009. (* "invalid transition [leader -> pre-candidate]" *)
Definition site_leader_from_follower : site := 2010. (* "invalid transition [follower -> leader]" *)
Definition site_leader_persisted : site := 2011.     (* assert_eq!(last_index, self.raft_log.persisted) *)
Definition site_leader_noop_dropped : site := 2012.  (* "appending an empty entry should never be dropped" *)
Definition site_scan_error : site := 2013.           (* "error scanning unapplied entries" *)
Definition site_empty_prop : site := 2014.           (* "stepped empty MsgProp" *)
Definition site_hint_term : site := 2015.            (* "term({index}) must be valid" *)
Definition site_restore_conf : site := 2016.         (* "unable to restore config" *)
Definition site_restore_mismatch : site := 2017.     (* "invalid restore: {:?} != {:?}" *)
Definition site_load_state : site := 2018.           (* "hs.commit {} is out of range" *)
Definition site_req_snap_term : site := 2019.        (* raft_log.term(..).unwrap() *)
Definition site_read_entries0 : site := 2020.        (* m.entries[0] / take_entries()[0] out of range *)
Definition site_ro_missing : site := 2021.           (* "cannot find correspond read state from pending map" *)
Definition site_vote_resp_type : site := 2022.       (* "Not a vote message" *)
Definition site_candidate_term : site := 2023.       (* debug_assert_eq!(self.term, m.term) *)
Definition site_draws : site := 2024.                (* model: election-timeout oracle exhausted *)
Definition site_fuel : site := 2025.                 (* model: loop fuel exhausted (never reached) *)
Definition site_next_idx_underflow : site := 2026.   (* pr.next_idx - 1 underflow *)
Definition site_pr_unwrap : site := 2027.            (* prs.get_mut(id).unwrap() on a missing peer *)
Definition site_set_rand_timeout : site := 2028.     (* assert!(min <= t && t < max) *)
Definition site_assign_group : site := 2029.         (* assert!( group_id > 0 ) *)

(* step / API result codes (Result<()>) *)
Definition E_OK : N := 0.
Definition E_PROPOSAL_DROPPED : N := 1.
Definition E_STEP_LOCAL_MSG : N := 2.
Definition E_STEP_PEER_NOT_FOUND : N := 3.
Definition E_REQUEST_SNAPSHOT_DROPPED : N := 4.
Definition E_CONF_CHANGE : N := 5.

(* ------------------------------------------------------------------ *)
(* records *)
Inductive role := Follower | Candidate | Leader | PreCandidate.

Definition role_eqb (a b : role) : bool :=
  match a, b with
  | Follower, Follower | Candidate, Candidate | Leader, Leader | PreCandidate, PreCandidate => true
  | _, _ => false
  end.

Record read_state := mkRS { rs_index : N; rs_ctx : list N }.

Record read_index_status := mkRIS { ris_req : msg; ris_index : N; ris_acks : idset }.

Record read_only := mkRO {
  ro_option : N;                                         (* 0 Safe, 1 LeaseBased *)
  ro_pending : list (list N * read_index_status);        (* pending_read_index, keyed by ctx *)
  ro_queue : list (list N)                               (* read_index_queue *)
}.

Record tracker := mkTr {
  t_progress : list (N * progress);   (* sorted by id *)
  t_conf : conf;
  t_votes : list (N * bool);
  t_max_inflight : nat;
  t_group_commit : bool
}.

Record raft := mkRaft {
  r_term : N;
  r_vote : N;
  r_id : N;
  r_read_states : list read_state;
  r_log : raft_log;
  r_max_inflight : nat;
  r_max_msg_size : N;
  r_pending_request_snapshot : N;
  r_state : role;
  r_promotable : bool;
  r_leader_id : N;
  r_lead_transferee : option N;
  r_pending_conf_index : N;
  r_read_only : read_only;
  r_election_elapsed : N;
  r_heartbeat_elapsed : N;
  r_check_quorum : bool;
  r_pre_vote : bool;
  r_skip_bcast_commit : bool;
  r_batch_append : bool;
  r_disable_proposal_forwarding : bool;
  r_heartbeat_timeout : N;
  r_election_timeout : N;
  r_randomized_election_timeout : N;
  r_min_election_timeout : N;
  r_max_election_timeout : N;
  r_priority : Z;
  r_max_uncommitted_size : N;
  r_uncommitted_size : N;
  r_last_log_tail_index : N;
  r_max_committed_size_per_ready : N;
  r_prs : tracker;
  r_msgs : list msg;
  r_draws : list N;         (* oracle: election timeouts drawn by thread_rng, in order *)
  (* Storage::snapshot semantics: None = MemStorage's own (test scaffolding: built at
     hard_state.commit, index bumped to the requested one); Some a = the simulated
     application's storage (harness SimStorage): the snapshot is taken at the
     application's applied index [a] and is temporarily unavailable while a < request *)
  r_snap_app : option N
}.

#[export] Instance eta_tracker : Settable _ :=
  settable! mkTr <t_progress; t_conf; t_votes; t_max_inflight; t_group_commit>.

#[export] Instance eta_raft : Settable _ :=
  settable! mkRaft <r_term; r_vote; r_id; r_read_states; r_log; r_max_inflight; r_max_msg_size;
    r_pending_request_snapshot; r_state; r_promotable; r_leader_id; r_lead_transferee;
    r_pending_conf_index; r_read_only; r_election_elapsed; r_heartbeat_elapsed; r_check_quorum;
    r_pre_vote; r_skip_bcast_commit; r_batch_append; r_disable_proposal_forwarding;
    r_heartbeat_timeout; r_election_timeout; r_randomized_election_timeout;
    r_min_election_timeout; r_max_election_timeout; r_priority; r_max_uncommitted_size;
    r_uncommitted_size; r_last_log_tail_index; r_max_committed_size_per_ready; r_prs; r_msgs;
    r_draws; r_snap_app>.

(* ------------------------------------------------------------------ *)
(* progress map (sorted association list) *)
Fixpoint pget (m : list (N * progress)) (id : N) : option progress :=
  match m with
  | [] => None
  | (k, p) :: t => if k =? id then Some p else pget t id
  end.

Fixpoint pput (m : list (N * progress)) (id : N) (p : progress) : list (N * progress) :=
  match m with
  | [] => [(id, p)]
  | (k, q) :: t =>
      if id <? k then (id, p) :: m
      else if id =? k then (id, p) :: t
      else (k, q) :: pput t id p
  end.

Fixpoint pdel (m : list (N * progress)) (id : N) : list (N * progress) :=
  match m with
  | [] => []
  | (k, q) :: t => if k =? id then pdel t id else (k, q) :: pdel t id
  end.

Definition pids (m : list (N * progress)) : idset := map fst m.

Definition get_pr (r : raft) (id : N) : option progress := pget (t_progress (r_prs r)) id.

Definition put_pr (r : raft) (id : N) (p : progress) : raft :=
  r <| r_prs := (r_prs r) <| t_progress := pput (t_progress (r_prs r)) id p |> |>.

Definition set_conf_prs (r : raft) (c : conf) (m : list (N * progress)) : raft :=
  r <| r_prs := (r_prs r) <| t_conf := c |> <| t_progress := m |> |>.

Definition conf_of (r : raft) : conf := t_conf (r_prs r).

Definition voters_contains (c : conf) (id : N) : bool :=
  IdSet.mem id (incoming c) || IdSet.mem id (outgoing c).

Definition voter_ids (c : conf) : idset := IdSet.union (incoming c) (outgoing c).

(* ProgressTracker::maximal_committed_index *)
Definition prs_maximal_committed_index (t : tracker) : N * bool :=
  Quorum.maximal_committed_index (t_group_commit t) (incoming (t_conf t)) (outgoing (t_conf t))
    (map (fun kp => (fst kp, (matched (snd kp), commit_group_id (snd kp)))) (t_progress t)).

(* ProgressTracker::has_quorum *)
Definition prs_has_quorum (t : tracker) (s : idset) : bool :=
  Quorum.has_quorum (incoming (t_conf t)) (outgoing (t_conf t)) s.

(* ProgressTracker::quorum_recently_active *)
Definition quorum_recently_active (t : tracker) (perspective_of : N) : tracker * bool :=
  let active := map fst (filter (fun kp => (fst kp =? perspective_of) || recent_active (snd kp))
                                (t_progress t)) in
  let m' := map (fun kp => (fst kp, set_recent_active (snd kp) (fst kp =? perspective_of)))
                (t_progress t) in
  (t <| t_progress := m' |>, prs_has_quorum t active).

(* ProgressTracker::apply_conf: Add inserts a fresh, recently active Progress
   (replacing any existing one), Remove deletes *)
Fixpoint apply_changes (m : list (N * progress)) (chs : changes) (next_idx : N) (mi : nat)
  : list (N * progress) :=
  match chs with
  | [] => m
  | (id, MAdd) :: rest =>
      apply_changes (pput m id (set_recent_active (pr_new next_idx mi) true)) rest next_idx mi
  | (id, MRemove) :: rest => apply_changes (pdel m id) rest next_idx mi
  end.

(* ------------------------------------------------------------------ *)
(* ReadOnly *)
Fixpoint ro_find (p : list (list N * read_index_status)) (ctx : list N) : option read_index_status :=
  match p with
  | [] => None
  | (k, v) :: t => if list_eqb k ctx then Some v else ro_find t ctx
  end.

Fixpoint ro_remove (p : list (list N * read_index_status)) (ctx : list N) :=
  match p with
  | [] => []
  | (k, v) :: t => if list_eqb k ctx then t else (k, v) :: ro_remove t ctx
  end.

Fixpoint ro_update (p : list (list N * read_index_status)) (ctx : list N) (v : read_index_status) :=
  match p with
  | [] => []
  | (k, w) :: t => if list_eqb k ctx then (k, v) :: t else (k, w) :: ro_update t ctx v
  end.

Definition ro_new (opt : N) : read_only := mkRO opt [] [].

Definition first_entry_data (m : msg) : Res (list N) :=
  match m_entries m with
  | e :: _ => Ok (e_data e)
  | [] => Panic site_read_entries0
  end.

(* ReadOnly::add_request *)
Definition ro_add_request (ro : read_only) (index : N) (req : msg) (self_id : N) : Res read_only :=
  ctx <- first_entry_data req ;;
  match ro_find (ro_pending ro) ctx with
  | Some _ => Ok ro
  | None => Ok (mkRO (ro_option ro)
                     (ro_pending ro ++ [(ctx, mkRIS req index [self_id])])
                     (ro_queue ro ++ [ctx]))
  end.

(* ReadOnly::recv_ack *)
Definition ro_recv_ack (ro : read_only) (id : N) (ctx : list N) : read_only * option idset :=
  match ro_find (ro_pending ro) ctx with
  | Some rs =>
      let acks := IdSet.insert id (ris_acks rs) in
      (mkRO (ro_option ro) (ro_update (ro_pending ro) ctx (mkRIS (ris_req rs) (ris_index rs) acks))
            (ro_queue ro), Some acks)
  | None => (ro, None)
  end.

(* position of ctx in the queue; every element visited must be in the pending map *)
Fixpoint ro_position (ro : read_only) (q : list (list N)) (ctx : list N) (i : nat) : Res (option nat) :=
  match q with
  | [] => Ok None
  | x :: t =>
      match ro_find (ro_pending ro) x with
      | None => Panic site_ro_missing
      | Some _ => if list_eqb x ctx then Ok (Some i) else ro_position ro t ctx (S i)
      end
  end.

Fixpoint ro_pop (ro : read_only) (k : nat) (acc : list read_index_status)
  : Res (read_only * list read_index_status) :=
  match k with
  | O => Ok (ro, acc)
  | S k' =>
      match ro_queue ro with
      | [] => Panic site_ro_missing
      | x :: t =>
          match ro_find (ro_pending ro) x with
          | None => Panic site_ro_missing
          | Some st => ro_pop (mkRO (ro_option ro) (ro_remove (ro_pending ro) x) t) k' (acc ++ [st])
          end
      end
  end.

(* ReadOnly::advance *)
Definition ro_advance (ro : read_only) (ctx : list N) : Res (read_only * list read_index_status) :=
  p <- ro_position ro (ro_queue ro) ctx 0 ;;
  match p with
  | Some i => ro_pop ro (S i) []
  | None => Ok (ro, [])
  end.

Definition ro_last_pending_request_ctx (ro : read_only) : option (list N) :=
  match ro_queue ro with [] => None | _ => Some (List.last (ro_queue ro) []) end.

(* ------------------------------------------------------------------ *)
(* small accessors *)
Definition is_leader (r : raft) : bool := role_eqb (r_state r) Leader.

Definition hard_state_of (r : raft) : hard_state := mkHS (r_term r) (r_vote r) (committed (r_log r)).

Definition has_pending_conf (r : raft) : bool := applied (r_log r) <? r_pending_conf_index r.

Definition should_bcast_commit (r : raft) : bool := negb (r_skip_bcast_commit r) || has_pending_conf r.

Definition is_vote_type (t : N) : bool :=
  (t =? MsgRequestVote) || (t =? MsgRequestPreVote) ||
  (t =? MsgRequestVoteResponse) || (t =? MsgRequestPreVoteResponse).

Definition vote_resp_msg_type (t : N) : Res N :=
  if t =? MsgRequestVote then Ok MsgRequestVoteResponse
  else if t =? MsgRequestPreVote then Ok MsgRequestPreVoteResponse
  else Panic site_vote_resp_type.

Definition sres_is_ok_eq (x : sres N) (t : N) : bool := term_ok_eq x t.

Definition commit_to_current_term (r : raft) : Res bool :=
  x <- RaftLog.term (r_log r) (committed (r_log r)) ;; Ok (term_ok_eq x (r_term r)).

Definition apply_to_current_term (r : raft) : Res bool :=
  x <- RaftLog.term (r_log r) (applied (r_log r)) ;; Ok (term_ok_eq x (r_term r)).

(* ------------------------------------------------------------------ *)
(* RaftCore::send *)
Definition send (r : raft) (m : msg) : Res raft :=
  let m := if m_from m =? INVALID_ID then m <| m_from := r_id r |> else m in
  m1 <- (if is_vote_type (m_type m) then
           (if m_term m =? 0 then Panic site_send_vote_term0 else Ok m)
         else
           if negb (m_term m =? 0) then Panic site_send_term_set
           else if negb (m_type m =? MsgPropose) && negb (m_type m =? MsgReadIndex)
                then Ok (m <| m_term := r_term r |>) else Ok m) ;;
  let m2 := if (m_type m1 =? MsgRequestVote) || (m_type m1 =? MsgRequestPreVote) then
              (if (0 <? r_priority r)%Z then m1 <| m_deprecated_priority := Z.to_N (r_priority r) |> else m1)
                <| m_priority := r_priority r |>
            else m1 in
  Ok (r <| r_msgs := r_msgs r ++ [m2] |>).

(* RaftLog::snapshot over the configured storage *)
Definition raft_snapshot (r : raft) (request_index to : N) : Res (sres snapshot) :=
  match r_snap_app r with
  | None => log_snapshot (r_log r) request_index to
  | Some a =>
      let from_store :=
        if (a <? request_index) || (a =? 0) then Ok (SErr SnapshotTemporarilyUnavailable) else
        t <- storage_term (store (r_log r)) a ;;
        match t with
        | SOk t => Ok (SOk (mkSnap a t (cs (store (r_log r)))))
        | SErr _ => Ok (SErr SnapshotTemporarilyUnavailable)
        end in
      match u_snapshot (unst (r_log r)) with
      | Some s => if request_index <=? s_index s then Ok (SOk s) else from_store
      | None => from_store
      end
  end.

(* RaftCore::prepare_send_snapshot: None = false *)
Definition prepare_send_snapshot (r : raft) (m : msg) (pr : progress) (to : N)
  : Res (option (msg * progress)) :=
  if negb (recent_active pr) then Ok None else
  let m := m <| m_type := MsgSnapshot |> in
  sr <- raft_snapshot r (pending_request_snapshot pr) to ;;
  match sr with
  | SErr SnapshotTemporarilyUnavailable => Ok None
  | SErr _ => Panic site_snapshot_err
  | SOk s =>
      if s_index s =? 0 then Panic site_snapshot_empty else
      Ok (Some (m <| m_snapshot := s |>, become_snapshot pr (s_index s)))
  end.

(* RaftCore::prepare_send_entries *)
Definition prepare_send_entries (r : raft) (m : msg) (pr : progress) (t : N) (ents : list entry)
  : Res (msg * progress) :=
  if next_idx pr =? 0 then Panic site_next_idx_underflow else
  let m := m <| m_type := MsgAppend |> <| m_index := next_idx pr - 1 |> <| m_log_term := t |>
             <| m_entries := ents |> <| m_commit := committed (r_log r) |> in
  match ents with
  | [] => Ok (m, pr)
  | _ =>
      let last := e_index (List.last ents entry_default) in
      pr' <- update_state pr last ;; Ok (m, pr')
  end.

(* util::is_continuous_ents *)
Definition is_continuous_ents (m : msg) (ents : list entry) : bool :=
  match ents with
  | e0 :: _ =>
      (* an empty message is anchored at its index: the entries must follow it *)
      let anchor := match m_entries m with
                    | [] => m_index m
                    | _ => e_index (List.last (m_entries m) entry_default)
                    end in
      anchor + 1 =? e_index e0
  | [] => true
  end.

(* RaftCore::try_batching: result = (msgs', pr', is_batched) *)
Fixpoint try_batching (r : raft) (to : N) (msgs : list msg) (pr : progress) (ents : list entry)
  : Res (list msg * progress * bool) :=
  match msgs with
  | [] => Ok ([], pr, false)
  | m :: rest =>
      if (m_type m =? MsgAppend) && (m_to m =? to) then
        match ents with
        | [] => Ok ((m <| m_commit := committed (r_log r) |>) :: rest, pr, true)
        | _ =>
            if negb (is_continuous_ents m ents) then Ok (msgs, pr, false) else
            let batched := m_entries m ++ ents in
            let last_idx := e_index (List.last batched entry_default) in
            pr' <- update_state pr last_idx ;;
            Ok ((m <| m_entries := batched |> <| m_commit := committed (r_log r) |>) :: rest, pr', true)
        end
      else
        x <- try_batching r to rest pr ents ;;
        let '(rest', pr', b) := x in Ok (m :: rest', pr', b)
  end.

(* RaftCore::maybe_send_append *)
Definition maybe_send_append (r : raft) (to : N) (pr : progress) (allow_empty : bool)
  : Res (raft * progress * bool) :=
  if is_paused pr then Ok (r, pr, false) else
  let m := msg_default <| m_to := to |> in
  let send_snapshot :=
    x <- prepare_send_snapshot r m pr to ;;
    match x with
    | None => Ok (r, pr, false)
    | Some (m', pr') => r' <- send r m' ;; Ok (r', pr', true)
    end in
  if negb (pending_request_snapshot pr =? INVALID_INDEX) then send_snapshot else
  ents <- log_entries (r_log r) (next_idx pr) (Some (r_max_msg_size r)) ;;
  if negb allow_empty && match ents with SOk (_ :: _) => false | _ => true end
  then Ok (r, pr, false) else
  if next_idx pr =? 0 then Panic site_next_idx_underflow else
  t <- RaftLog.term (r_log r) (next_idx pr - 1) ;;
  match t, ents with
  | SOk t, SOk ents =>
      x <- (if r_batch_append r then try_batching r to (r_msgs r) pr ents
            else Ok (r_msgs r, pr, false)) ;;
      let '(msgs', pr', batched) := x in
      if batched then Ok (r <| r_msgs := msgs' |>, pr', true) else
      y <- prepare_send_entries r m pr t ents ;;
      let '(m', pr'') := y in
      r' <- send r m' ;; Ok (r', pr'', true)
  | _, SErr LogTemporarilyUnavailable => Ok (r, pr, false)
  | _, _ => send_snapshot
  end.

(* Raft::send_append(to): pr = prs.get_mut(to).unwrap() *)
Definition send_append_to (r : raft) (to : N) : Res raft :=
  match get_pr r to with
  | None => Panic site_pr_unwrap
  | Some pr =>
      x <- maybe_send_append r to pr true ;;
      let '(r', pr', _) := x in Ok (put_pr r' to pr')
  end.

Fixpoint send_append_aggressively_loop (fuel : nat) (r : raft) (to : N) (pr : progress)
  : Res (raft * progress) :=
  match fuel with
  | O => Panic site_fuel
  | S f =>
      x <- maybe_send_append r to pr false ;;
      let '(r', pr', b) := x in
      if b then send_append_aggressively_loop f r' to pr' else Ok (r', pr')
  end.

Definition send_append_aggressively (r : raft) (to : N) : Res raft :=
  match get_pr r to with
  | None => Panic site_pr_unwrap
  | Some pr =>
      let fuel := S (S (S (N.to_nat (last_index (r_log r) + 1 - next_idx pr)))) in
      x <- send_append_aggressively_loop fuel r to pr ;;
      let '(r', pr') := x in Ok (put_pr r' to pr')
  end.

(* RaftCore::send_heartbeat *)
Definition send_heartbeat (r : raft) (to : N) (pr : progress) (ctx : option (list N)) : Res raft :=
  let m := msg_default <| m_to := to |> <| m_type := MsgHeartbeat |>
             <| m_commit := N.min (matched pr) (committed (r_log r)) |> in
  let m := match ctx with Some c => m <| m_context := c |> | None => m end in
  send r m.

Fixpoint for_each_peer (ids : list N) (self : N) (f : raft -> N -> Res raft) (r : raft) : Res raft :=
  match ids with
  | [] => Ok r
  | id :: rest =>
      if id =? self then for_each_peer rest self f r
      else r' <- f r id ;; for_each_peer rest self f r'
  end.

Definition bcast_append (r : raft) : Res raft :=
  for_each_peer (pids (t_progress (r_prs r))) (r_id r) send_append_to r.

Definition bcast_heartbeat_with_ctx (r : raft) (ctx : option (list N)) : Res raft :=
  for_each_peer (pids (t_progress (r_prs r))) (r_id r)
    (fun r id => match get_pr r id with
                 | Some pr => send_heartbeat r id pr ctx
                 | None => Panic site_pr_unwrap
                 end) r.

Definition bcast_heartbeat (r : raft) : Res raft :=
  bcast_heartbeat_with_ctx r (ro_last_pending_request_ctx (r_read_only r)).

(* Raft::maybe_commit *)
Definition maybe_commit (r : raft) : Res (raft * bool) :=
  let mci := fst (prs_maximal_committed_index (r_prs r)) in
  x <- RaftLog.maybe_commit (r_log r) mci (r_term r) ;;
  let '(l', b) := x in
  if b then
    (* a leader that has removed itself is no longer tracked *)
    match get_pr r (r_id r) with
    | None => Ok (r <| r_log := l' |>, true)
    | Some pr => Ok (put_pr (r <| r_log := l' |>) (r_id r) (update_committed pr (committed l')), true)
    end
  else Ok (r <| r_log := l' |>, false).

(* UncommittedState *)
Definition data_size (ents : list entry) : N :=
  fold_right (fun e acc => N.of_nat (length (e_data e)) + acc) 0 ents.

Definition maybe_increase_uncommitted_size (r : raft) (ents : list entry) : raft * bool :=
  if r_max_uncommitted_size r =? u64_max then (r, true) else
  let size := data_size ents in
  if (size =? 0) || (r_uncommitted_size r =? 0)
     || (size + r_uncommitted_size r <=? r_max_uncommitted_size r)
  then (r <| r_uncommitted_size := r_uncommitted_size r + size |>, true)
  else (r, false).

Fixpoint skip_le_tail (ents : list entry) (tail : N) : list entry :=
  match ents with
  | [] => []
  | e :: t => if e_index e <=? tail then skip_le_tail t tail else ents
  end.

(* Raft::reduce_uncommitted_size (incl. the leader check) *)
Definition reduce_uncommitted_size (r : raft) (ents : list entry) : raft :=
  if negb (is_leader r) then r else
  if (r_max_uncommitted_size r =? u64_max) || match ents with [] => true | _ => false end then r else
  let size := data_size (skip_le_tail ents (r_last_log_tail_index r)) in
  if r_uncommitted_size r <? size then r <| r_uncommitted_size := 0 |>
  else r <| r_uncommitted_size := r_uncommitted_size r - size |>.

(* Raft::append_entry *)
Fixpoint stamp (ents : list entry) (t next : N) : list entry :=
  match ents with
  | [] => []
  | e :: rest => mkEntry (e_type e) t next (e_data e) (e_context e) :: stamp rest t (next + 1)
  end.

Definition append_entry (r : raft) (es : list entry) : Res (raft * bool) :=
  let '(r1, ok) := maybe_increase_uncommitted_size r es in
  if negb ok then Ok (r1, false) else
  let li := last_index (r_log r1) in
  x <- log_append (r_log r1) (stamp es (r_term r1) (li + 1)) ;;
  Ok (r1 <| r_log := fst x |>, true).

(* Raft::reset *)
Definition reset (r : raft) (t : N) : Res raft :=
  let r := if negb (r_term r =? t) then r <| r_term := t |> <| r_vote := INVALID_ID |> else r in
  match r_draws r with
  | [] => Panic site_draws
  | d :: ds =>
      let r := r <| r_leader_id := INVALID_ID |> <| r_randomized_election_timeout := d |>
                 <| r_draws := ds |> <| r_election_elapsed := 0 |> <| r_heartbeat_elapsed := 0 |>
                 <| r_lead_transferee := None |>
                 <| r_prs := (r_prs r) <| t_votes := [] |> |>
                 <| r_pending_conf_index := 0 |>
                 <| r_read_only := ro_new (ro_option (r_read_only r)) |>
                 <| r_pending_request_snapshot := INVALID_INDEX |> in
      let li := last_index (r_log r) in
      let m' := map (fun kp =>
                       let p := pr_reset (snd kp) (li + 1) in
                       (fst kp, if fst kp =? r_id r
                                then set_committed_index (set_matched p (persisted (r_log r)))
                                                         (committed (r_log r))
                                else p)) (t_progress (r_prs r)) in
      Ok (r <| r_prs := (r_prs r) <| t_progress := m' |> |>)
  end.

(* Raft::become_follower *)
Definition become_follower (r : raft) (t leader : N) : Res raft :=
  let prs := r_pending_request_snapshot r in
  r1 <- reset r t ;;
  Ok (r1 <| r_leader_id := leader |> <| r_state := Follower |>
         <| r_pending_request_snapshot := prs |>
         <| r_log := set_limit (r_log r1) 0 |>).

Definition become_candidate (r : raft) : Res raft :=
  if is_leader r then Panic site_candidate_from_leader else
  r1 <- reset r (r_term r + 1) ;;
  Ok (r1 <| r_vote := r_id r1 |> <| r_state := Candidate |>).

Definition become_pre_candidate (r : raft) : Res raft :=
  if is_leader r then Panic site_precandidate_from_leader else
  Ok (r <| r_state := PreCandidate |> <| r_prs := (r_prs r) <| t_votes := [] |> |>
        <| r_leader_id := INVALID_ID |>).

Definition become_leader (r : raft) : Res raft :=
  if role_eqb (r_state r) Follower then Panic site_leader_from_follower else
  r1 <- reset r (r_term r) ;;
  let r2 := r1 <| r_leader_id := r_id r1 |> <| r_state := Leader |> in
  let li := last_index (r_log r2) in
  (* no assertion li = persisted any more (fix 19c179c): a single voter may lead with an unpersisted tail *)
  let r3 := r2 <| r_uncommitted_size := 0 |> <| r_last_log_tail_index := li |> in
  match get_pr r3 (r_id r3) with
  | None => Panic site_self_progress
  | Some pr =>
      let r4 := put_pr r3 (r_id r3) (become_replicate pr) in
      let r5 := r4 <| r_pending_conf_index := li |> in
      x <- append_entry r5 [entry_default] ;;
      let '(r6, ok) := x in
      if ok then Ok r6 else Panic site_leader_noop_dropped
  end.

(* Raft::poll, parametric in what a winning pre-candidate does next *)
Definition poll_gen (real_campaign : raft -> Res raft) (r : raft) (from : N) (vote : bool)
  : Res (raft * vote_res) :=
  let votes' := Quorum.record_vote (t_votes (r_prs r)) from vote in
  let r := r <| r_prs := (r_prs r) <| t_votes := votes' |> |> in
  let res := Quorum.tracker_vote_result (incoming (conf_of r)) (outgoing (conf_of r)) votes' in
  match res with
  | VoteWon =>
      if role_eqb (r_state r) PreCandidate then
        r' <- real_campaign r ;; Ok (r', res)
      else
        r1 <- become_leader r ;; r2 <- bcast_append r1 ;; Ok (r2, res)
  | VoteLost => r' <- become_follower r (r_term r) INVALID_ID ;; Ok (r', res)
  | VotePending => Ok (r, res)
  end.

(* the vote-request loop of campaign *)
Fixpoint send_vote_requests (ids : list N) (r : raft) (vote_msg t cmt cmt_term : N)
         (transfer : bool) : Res raft :=
  match ids with
  | [] => Ok r
  | id :: rest =>
      if id =? r_id r then send_vote_requests rest r vote_msg t cmt cmt_term transfer else
      lt <- last_term (r_log r) ;;
      let m := (new_message id vote_msg None) <| m_term := t |>
                 <| m_index := last_index (r_log r) |> <| m_log_term := lt |>
                 <| m_commit := cmt |> <| m_commit_term := cmt_term |> in
      let m := if transfer then m <| m_context := CAMPAIGN_TRANSFER |> else m in
      r' <- send r m ;;
      send_vote_requests rest r' vote_msg t cmt cmt_term transfer
  end.

(* campaign with CAMPAIGN_ELECTION / CAMPAIGN_TRANSFER *)
Definition campaign_real (transfer : bool) (r : raft) : Res raft :=
  r1 <- become_candidate r ;;
  x <- poll_gen (fun _ => Panic site_fuel) r1 (r_id r1) true ;;
  let '(r2, res) := x in
  match res with
  | VoteWon => Ok r2
  | _ =>
      ci <- commit_info (r_log r2) ;;
      send_vote_requests (voter_ids (conf_of r2)) r2 MsgRequestVote (r_term r2) (fst ci) (snd ci)
                         transfer
  end.

Definition poll (r : raft) (from : N) (vote : bool) : Res (raft * vote_res) :=
  poll_gen (campaign_real false) r from vote.

(* campaign with CAMPAIGN_PRE_ELECTION *)
Definition campaign_pre (r : raft) : Res raft :=
  r1 <- become_pre_candidate r ;;
  x <- poll r1 (r_id r1) true ;;
  let '(r2, res) := x in
  match res with
  | VoteWon => Ok r2
  | _ =>
      ci <- commit_info (r_log r2) ;;
      send_vote_requests (voter_ids (conf_of r2)) r2 MsgRequestPreVote (r_term r1 + 1)
                         (fst ci) (snd ci) false
  end.

(* Raft::has_unapplied_conf_changes *)
Definition has_unapplied_conf_changes (r : raft) (lo hi : N) : Res bool :=
  if committed (r_log r) <=? applied (r_log r) then Ok false else
  scan_conf (r_log r) (S (N.to_nat (hi - lo))) lo hi (r_max_committed_size_per_ready r).

(* Raft::hup *)
Definition hup (r : raft) (transfer_leader : bool) : Res raft :=
  if is_leader r then Ok r else
  (* only a voter of its own configuration campaigns (fix 8deb47c) *)
  if negb (r_promotable r) then Ok r else
  (* below the first index everything is covered by the snapshot (fix a8252b4): the scan starts there *)
  low <- match u_maybe_first_index (unst (r_log r)) with
         | Some i => Ok i
         | None => fi <- first_index (r_log r) ;; Ok (N.max (applied (r_log r) + 1) fi)
         end ;;
  let high := committed (r_log r) + 1 in
  b <- has_unapplied_conf_changes r low high ;;
  if b then Ok r else
  if transfer_leader then campaign_real true r
  else if r_pre_vote r then campaign_pre r
  else campaign_real false r.

(* Raft::maybe_commit_by_vote *)
Definition maybe_commit_by_vote (r : raft) (m : msg) : Res raft :=
  if (m_commit m =? 0) || (m_commit_term m =? 0) then Ok r else
  let last_commit := committed (r_log r) in
  if (m_commit m <=? last_commit) || is_leader r then Ok r else
  x <- RaftLog.maybe_commit (r_log r) (m_commit m) (m_commit_term m) ;;
  let '(l', b) := x in
  let r := r <| r_log := l' |> in
  if negb b then Ok r else
  if negb (role_eqb (r_state r) Candidate) && negb (role_eqb (r_state r) PreCandidate) then Ok r else
  c <- has_unapplied_conf_changes r (last_commit + 1) (committed (r_log r) + 1) ;;
  if c then become_follower r (r_term r) INVALID_ID else Ok r.

(* Raft::handle_ready_read_index: (raft, Some message to send) *)
Definition handle_ready_read_index (r : raft) (req : msg) (index : N) : Res (raft * option msg) :=
  if (m_from req =? INVALID_ID) || (m_from req =? r_id r) then
    d <- first_entry_data req ;;
    Ok (r <| r_read_states := r_read_states r ++ [mkRS index d] |>, None)
  else
    Ok (r, Some (msg_default <| m_type := MsgReadIndexResp |> <| m_to := m_from req |>
                   <| m_index := index |> <| m_entries := m_entries req |>)).

Fixpoint respond_reads (r : raft) (rss : list read_index_status) : Res raft :=
  match rss with
  | [] => Ok r
  | rs :: rest =>
      x <- handle_ready_read_index r (ris_req rs) (ris_index rs) ;;
      let '(r1, om) := x in
      r2 <- match om with Some m => send r1 m | None => Ok r1 end ;;
      respond_reads r2 rest
  end.

Definition send_timeout_now (r : raft) (to : N) : Res raft :=
  send r (new_message to MsgTimeoutNow None).

(* Raft::send_request_snapshot *)
Definition send_request_snapshot (r : raft) : Res raft :=
  let hint := last_index (r_log r) in
  t <- RaftLog.term (r_log r) hint ;;
  match t with
  | SErr _ => Panic site_req_snap_term
  | SOk t =>
      send r (msg_default <| m_type := MsgAppendResponse |> <| m_index := committed (r_log r) |>
                <| m_reject := true |> <| m_reject_hint := hint |> <| m_to := r_leader_id r |>
                <| m_request_snapshot := r_pending_request_snapshot r |> <| m_log_term := t |>)
  end.

(* Raft::handle_append_entries *)
Definition handle_append_entries (r : raft) (m : msg) : Res raft :=
  if negb (r_pending_request_snapshot r =? INVALID_INDEX) then send_request_snapshot r else
  if m_index m <? committed (r_log r) then
    send r (msg_default <| m_type := MsgAppendResponse |> <| m_to := m_from m |>
              <| m_index := committed (r_log r) |> <| m_commit := committed (r_log r) |>)
  else
    let to_send := msg_default <| m_to := m_from m |> <| m_type := MsgAppendResponse |> in
    x <- maybe_append (r_log r) (m_index m) (m_log_term m) (m_commit m) (m_entries m) ;;
    let '(l', res) := x in
    let r := r <| r_log := l' |> in
    match res with
    | Some (_, last_idx) =>
        send r (to_send <| m_index := last_idx |> <| m_commit := committed (r_log r) |>)
    | None =>
        let hint_index := N.min (m_index m) (last_index (r_log r)) in
        y <- find_conflict_by_term (r_log r) hint_index (m_log_term m) ;;
        match y with
        | (_, None) => Panic site_hint_term
        | (hi, Some ht) =>
            send r (to_send <| m_index := m_index m |> <| m_reject := true |>
                      <| m_reject_hint := hi |> <| m_log_term := ht |>
                      <| m_commit := committed (r_log r) |>)
        end
    end.

(* Raft::handle_heartbeat *)
Definition handle_heartbeat (r : raft) (m : msg) : Res raft :=
  l' <- RaftLog.commit_to (r_log r) (m_commit m) ;;
  let r := r <| r_log := l' |> in
  if negb (r_pending_request_snapshot r =? INVALID_INDEX) then send_request_snapshot r else
  send r (msg_default <| m_type := MsgHeartbeatResponse |> <| m_to := m_from m |>
            <| m_context := m_context m |> <| m_commit := committed (r_log r) |>).

(* fresh progress for every tracked id after confchange::restore on a cleared tracker *)
Definition fresh_progress (ids : idset) (next_idx : N) (mi : nat) : list (N * progress) :=
  map (fun id => (id, set_recent_active (pr_new next_idx mi) true)) ids.

(* Raft::post_conf_change *)
Definition post_conf_change (r : raft) : Res (raft * conf_state) :=
  let cs := to_conf_state (conf_of r) in
  let is_voter := voters_contains (conf_of r) (r_id r) in
  let r := r <| r_promotable := is_voter |> in
  if negb is_voter && is_leader r then Ok (r, cs) else
  if negb (is_leader r) || match cs_voters cs with [] => true | _ => false end then Ok (r, cs) else
  x <- maybe_commit r ;;
  let '(r1, b) := x in
  r2 <- (if b then bcast_append r1
         else for_each_peer (pids (t_progress (r_prs r1))) (r_id r1)
                (fun r id => match get_pr r id with
                             | None => Panic site_pr_unwrap
                             | Some pr =>
                                 y <- maybe_send_append r id pr false ;;
                                 let '(r', pr', _) := y in Ok (put_pr r' id pr')
                             end) r1) ;;
  r3 <- match ro_last_pending_request_ctx (r_read_only r2) with
        | None => Ok r2
        | Some ctx =>
            let '(ro', acks) := ro_recv_ack (r_read_only r2) (r_id r2) ctx in
            let r2' := r2 <| r_read_only := ro' |> in
            match acks with
            | Some a =>
                if prs_has_quorum (r_prs r2') a then
                  z <- ro_advance (r_read_only r2') ctx ;;
                  let '(ro2, rss) := z in
                  respond_reads (r2' <| r_read_only := ro2 |>) rss
                else Ok r2'
            | None => Ok r2'
            end
        end ;;
  let r4 := match r_lead_transferee r3 with
            | Some e => if negb (voters_contains (conf_of r3) e)
                        then r3 <| r_lead_transferee := None |> else r3
            | None => r3
            end in
  Ok (r4, cs).

(* Raft::restore *)
Definition restore (r : raft) (s : snapshot) : Res (raft * bool) :=
  if s_index s <? committed (r_log r) then Ok (r, false) else
  if negb (role_eqb (r_state r) Follower) then
    r' <- become_follower r (r_term r + 1) INVALID_INDEX ;; Ok (r', false)
  else
  let cs := s_cs s in
  if negb (IdSet.mem (r_id r) (cs_voters cs) || IdSet.mem (r_id r) (cs_learners cs)
           || IdSet.mem (r_id r) (cs_voters_outgoing cs))
  then Ok (r, false) else
  mt <- match_term (r_log r) (s_index s) (s_term s) ;;
  if ((r_pending_request_snapshot r =? INVALID_INDEX) || (s_index s <? r_pending_request_snapshot r)) && mt then
    l' <- RaftLog.commit_to (r_log r) (s_index s) ;; Ok (r <| r_log := l' |>, false)
  else
  l' <- log_restore (r_log r) s ;;
  let r := r <| r_log := l' |> in
  let li := last_index (r_log r) in
  match ConfChange.restore empty_tracker cs with
  | RErr _ => Panic site_restore_conf
  | ROk (c', ids') =>
      let r := set_conf_prs (r <| r_prs := (r_prs r) <| t_votes := [] |> |>) c'
                            (fresh_progress ids' li (t_max_inflight (r_prs r))) in
      x <- post_conf_change r ;;
      let '(r1, new_cs) := x in
      if negb (conf_state_eq cs new_cs) then Panic site_restore_mismatch else
      match get_pr r1 (r_id r1) with
      | None => Panic site_self_progress
      | Some pr =>
          if next_idx pr =? 0 then Panic site_next_idx_underflow else
          let r2 := put_pr r1 (r_id r1) (fst (maybe_update pr (next_idx pr - 1))) in
          Ok (r2 <| r_pending_request_snapshot := INVALID_INDEX |>, true)
      end
  end.

(* Raft::handle_snapshot *)
Definition handle_snapshot (r : raft) (m : msg) : Res raft :=
  x <- restore r (m_snapshot m) ;;
  let '(r1, ok) := x in
  let to_send := msg_default <| m_type := MsgAppendResponse |> <| m_to := m_from m |> in
  if ok then send r1 (to_send <| m_index := last_index (r_log r1) |>)
  else send r1 (to_send <| m_index := committed (r_log r1) |>).

(* ------------------------------------------------------------------ *)
(* leader handlers *)
Definition handle_append_response (r : raft) (m : msg) : Res raft :=
  npi <- (if m_reject m && (0 <? m_log_term m) then
            x <- find_conflict_by_term (r_log r) (m_reject_hint m) (m_log_term m) ;; Ok (fst x)
          else Ok (m_reject_hint m)) ;;
  match get_pr r (m_from m) with
  | None => Ok r
  | Some pr =>
      let pr := update_committed (set_recent_active pr true) (m_commit m) in
      if m_reject m then
        let '(pr1, dec) := maybe_decr_to pr (m_index m) npi (m_request_snapshot m) in
        if dec then
          let pr2 := if pstate_eqb (pr_state pr1) Replicate then become_probe pr1 else pr1 in
          send_append_to (put_pr r (m_from m) pr2) (m_from m)
        else Ok (put_pr r (m_from m) pr1)
      else
        let old_paused := is_paused pr in
        let '(pr1, upd) := maybe_update pr (m_index m) in
        if negb upd then Ok (put_pr r (m_from m) pr1) else
        pr2 <- match pr_state pr1 with
               | Probe => Ok (become_replicate pr1)
               | Snapshot => Ok (if is_snapshot_caught_up pr1 then become_probe pr1 else pr1)
               | Replicate => i <- Inflights.free_to (ins pr1) (m_index m) ;; Ok (set_ins pr1 i)
               end ;;
        let r := put_pr r (m_from m) pr2 in
        x <- maybe_commit r ;;
        let '(r1, cmt) := x in
        r2 <- (if cmt then (if should_bcast_commit r1 then bcast_append r1 else Ok r1)
               else if old_paused then send_append_to r1 (m_from m) else Ok r1) ;;
        r3 <- send_append_aggressively r2 (m_from m) ;;
        match r_lead_transferee r3 with
        | Some t =>
            if t =? m_from m then
              match get_pr r3 (m_from m) with
              | None => Panic site_pr_unwrap
              | Some p => if matched p =? last_index (r_log r3) then send_timeout_now r3 (m_from m)
                          else Ok r3
              end
            else Ok r3
        | None => Ok r3
        end
  end.

Definition handle_heartbeat_response (r : raft) (m : msg) : Res raft :=
  match get_pr r (m_from m) with
  | None => Ok r
  | Some pr =>
      let pr := resume (set_recent_active (update_committed pr (m_commit m)) true) in
      pr1 <- (if pstate_eqb (pr_state pr) Replicate && Inflights.full (ins pr) then
                i <- Inflights.free_first_one (ins pr) ;; Ok (set_ins pr i)
              else Ok pr) ;;
      x <- (if (matched pr1 <? last_index (r_log r))
               || negb (pending_request_snapshot pr1 =? INVALID_INDEX) then
              y <- maybe_send_append r (m_from m) pr1 true ;;
              let '(r', pr', _) := y in Ok (put_pr r' (m_from m) pr')
            else Ok (put_pr r (m_from m) pr1)) ;;
      let r1 := x in
      if negb (ro_option (r_read_only r1) =? 0) || match m_context m with [] => true | _ => false end
      then Ok r1 else
      let '(ro', acks) := ro_recv_ack (r_read_only r1) (m_from m) (m_context m) in
      let r2 := r1 <| r_read_only := ro' |> in
      match acks with
      | Some a =>
          if prs_has_quorum (r_prs r2) a then
            z <- ro_advance (r_read_only r2) (m_context m) ;;
            let '(ro2, rss) := z in
            respond_reads (r2 <| r_read_only := ro2 |>) rss
          else Ok r2
      | None => Ok r2
      end
  end.

Definition handle_transfer_leader (r : raft) (m : msg) : Res raft :=
  match get_pr r (m_from m) with
  | None => Ok r
  | Some _ =>
      let from := m_from m in
      if IdSet.mem from (learners (conf_of r)) then Ok r else
      let cont (r : raft) :=
        if from =? r_id r then Ok r else
        let r := r <| r_election_elapsed := 0 |> <| r_lead_transferee := Some from |> in
        match get_pr r from with
        | None => Panic site_pr_unwrap
        | Some pr =>
            if matched pr =? last_index (r_log r) then send_timeout_now r from
            else
              y <- maybe_send_append r from pr true ;;
              let '(r', pr', _) := y in Ok (put_pr r' from pr')
        end in
      match r_lead_transferee r with
      | Some last => if last =? from then Ok r else cont (r <| r_lead_transferee := None |>)
      | None => cont r
      end
  end.

Definition handle_snapshot_status (r : raft) (m : msg) : Res raft :=
  match get_pr r (m_from m) with
  | None => Ok r
  | Some pr =>
      if negb (pstate_eqb (pr_state pr) Snapshot) then Ok r else
      let pr1 := if m_reject m then become_probe (snapshot_failure pr) else become_probe pr in
      Ok (put_pr r (m_from m) (set_pending_request_snapshot (pause pr1) INVALID_INDEX))
  end.

Definition handle_unreachable (r : raft) (m : msg) : Res raft :=
  match get_pr r (m_from m) with
  | None => Ok r
  | Some pr => Ok (if pstate_eqb (pr_state pr) Replicate then put_pr r (m_from m) (become_probe pr) else r)
  end.

(* the conf-change filter of MsgPropose: entry i of the proposal with oracle info *)
Fixpoint filter_conf_changes (r : raft) (ents : list entry) (info : list N) (i : N)
  : raft * list entry * bool (* false = decode error => ProposalDropped *) :=
  match ents with
  | [] => (r, [], true)
  | e :: rest =>
      let ci := match info with c :: _ => c | [] => 0 end in
      let info' := match info with _ :: t => t | [] => [] end in
      if negb (is_conf_entry e) then
        let '(r', rest', ok) := filter_conf_changes r rest info' (i + 1) in (r', e :: rest', ok)
      else if ci =? 1 then (r, ents, false)
      else
        let want_leave := negb (ci =? 3) in
        let already_joint := ConfChange.joint (conf_of r) in
        let refuse := has_pending_conf r || (already_joint && negb want_leave)
                      || (negb already_joint && want_leave) in
        if refuse then
          let '(r', rest', ok) := filter_conf_changes r rest info' (i + 1) in
          (r', entry_default :: rest', ok)
        else
          let r1 := r <| r_pending_conf_index := last_index (r_log r) + i + 1 |> in
          let '(r', rest', ok) := filter_conf_changes r1 rest info' (i + 1) in
          (r', e :: rest', ok)
  end.

Definition step_leader (r : raft) (m : msg) : Res (raft * N) :=
  let t := m_type m in
  if t =? MsgBeat then r' <- bcast_heartbeat r ;; Ok (r', E_OK)
  else if t =? MsgCheckQuorum then
    let '(prs', active) := quorum_recently_active (r_prs r) (r_id r) in
    let r := r <| r_prs := prs' |> in
    if negb active then r' <- become_follower r (r_term r) INVALID_ID ;; Ok (r', E_OK)
    else Ok (r, E_OK)
  else if t =? MsgPropose then
    match m_entries m with
    | [] => Panic site_empty_prop
    | _ =>
        match get_pr r (r_id r) with
        | None => Ok (r, E_PROPOSAL_DROPPED)
        | Some _ =>
            match r_lead_transferee r with
            | Some _ => Ok (r, E_PROPOSAL_DROPPED)
            | None =>
                let '(r1, ents, ok) := filter_conf_changes r (m_entries m) (m_ccinfo m) 0 in
                if negb ok then Ok (r1, E_PROPOSAL_DROPPED) else
                x <- append_entry r1 ents ;;
                let '(r2, appended) := x in
                if negb appended then Ok (r2, E_PROPOSAL_DROPPED) else
                r3 <- bcast_append r2 ;; Ok (r3, E_OK)
            end
        end
    end
  else if t =? MsgReadIndex then
    c <- commit_to_current_term r ;;
    if negb c then Ok (r, E_OK) else
    (* the lone voter answers at once only if it is this node (fix 6a9ae91) *)
    let singleton := match incoming (conf_of r), outgoing (conf_of r) with
                     | [_], [] => r_promotable r | _, _ => false end in
    let answer_now :=
      x <- handle_ready_read_index r m (committed (r_log r)) ;;
      let '(r1, om) := x in
      r2 <- match om with Some mm => send r1 mm | None => Ok r1 end ;; Ok (r2, E_OK) in
    if singleton then answer_now else
    if ro_option (r_read_only r) =? 0 then
      ctx <- first_entry_data m ;;
      ro' <- ro_add_request (r_read_only r) (committed (r_log r)) m (r_id r) ;;
      r' <- bcast_heartbeat_with_ctx (r <| r_read_only := ro' |>) (Some ctx) ;; Ok (r', E_OK)
    else answer_now
  else if t =? MsgAppendResponse then r' <- handle_append_response r m ;; Ok (r', E_OK)
  else if t =? MsgHeartbeatResponse then r' <- handle_heartbeat_response r m ;; Ok (r', E_OK)
  else if t =? MsgSnapStatus then r' <- handle_snapshot_status r m ;; Ok (r', E_OK)
  else if t =? MsgUnreachable then r' <- handle_unreachable r m ;; Ok (r', E_OK)
  else if t =? MsgTransferLeader then r' <- handle_transfer_leader r m ;; Ok (r', E_OK)
  else Ok (r, E_OK).

Definition step_candidate (r : raft) (m : msg) : Res (raft * N) :=
  let t := m_type m in
  if t =? MsgPropose then Ok (r, E_PROPOSAL_DROPPED)
  else if (t =? MsgAppend) || (t =? MsgHeartbeat) || (t =? MsgSnapshot) then
    if negb (r_term r =? m_term m) then Panic site_candidate_term else
    r1 <- become_follower r (m_term m) (m_from m) ;;
    r2 <- (if t =? MsgAppend then handle_append_entries r1 m
           else if t =? MsgHeartbeat then handle_heartbeat r1 m
           else handle_snapshot r1 m) ;;
    Ok (r2, E_OK)
  else if (t =? MsgRequestPreVoteResponse) || (t =? MsgRequestVoteResponse) then
    if (role_eqb (r_state r) PreCandidate && negb (t =? MsgRequestPreVoteResponse))
       || (role_eqb (r_state r) Candidate && negb (t =? MsgRequestVoteResponse))
    then Ok (r, E_OK) else
    x <- poll r (m_from m) (negb (m_reject m)) ;;
    r2 <- maybe_commit_by_vote (fst x) m ;; Ok (r2, E_OK)
  else Ok (r, E_OK).

Definition step_follower (r : raft) (m : msg) : Res (raft * N) :=
  let t := m_type m in
  if t =? MsgPropose then
    if r_leader_id r =? INVALID_ID then Ok (r, E_PROPOSAL_DROPPED)
    else if r_disable_proposal_forwarding r then Ok (r, E_PROPOSAL_DROPPED)
    else r' <- send r (m <| m_to := r_leader_id r |>) ;; Ok (r', E_OK)
  else if t =? MsgAppend then
    r' <- handle_append_entries (r <| r_election_elapsed := 0 |> <| r_leader_id := m_from m |>) m ;;
    Ok (r', E_OK)
  else if t =? MsgHeartbeat then
    r' <- handle_heartbeat (r <| r_election_elapsed := 0 |> <| r_leader_id := m_from m |>) m ;;
    Ok (r', E_OK)
  else if t =? MsgSnapshot then
    r' <- handle_snapshot (r <| r_election_elapsed := 0 |> <| r_leader_id := m_from m |>) m ;;
    Ok (r', E_OK)
  else if t =? MsgTransferLeader then
    if r_leader_id r =? INVALID_ID then Ok (r, E_OK)
    else r' <- send r (m <| m_to := r_leader_id r |>) ;; Ok (r', E_OK)
  else if t =? MsgTimeoutNow then
    if r_promotable r then r' <- hup r true ;; Ok (r', E_OK) else Ok (r, E_OK)
  else if t =? MsgReadIndex then
    if r_leader_id r =? INVALID_ID then Ok (r, E_OK)
    else r' <- send r (m <| m_to := r_leader_id r |>) ;; Ok (r', E_OK)
  else if t =? MsgReadIndexResp then
    match m_entries m with
    | [e] =>
        let r1 := r <| r_read_states := r_read_states r ++ [mkRS (m_index m) (e_data e)] |> in
        x <- RaftLog.maybe_commit (r_log r1) (m_index m) (m_term m) ;;
        Ok (r1 <| r_log := fst x |>, E_OK)
    | _ => Ok (r, E_OK)
    end
  else Ok (r, E_OK).

(* Raft::step *)
Definition step (r : raft) (m : msg) : Res (raft * N) :=
  let t := m_type m in
  (* message term handling; inr = continue with the state, inl = return *)
  pre <- (if m_term m =? 0 then Ok (inr r)
          else if r_term r <? m_term m then
            let is_vote_req := (t =? MsgRequestVote) || (t =? MsgRequestPreVote) in
            let force := list_eqb (m_context m) CAMPAIGN_TRANSFER in
            let in_lease := r_check_quorum r && negb (r_leader_id r =? INVALID_ID)
                            && (r_election_elapsed r <? r_election_timeout r) in
            if is_vote_req && negb force && in_lease then Ok (inl (r, E_OK))
            else if (t =? MsgRequestPreVote)
                    || ((t =? MsgRequestPreVoteResponse) && negb (m_reject m))
            then Ok (inr r)
            else if (t =? MsgAppend) || (t =? MsgHeartbeat) || (t =? MsgSnapshot)
            then r' <- become_follower r (m_term m) (m_from m) ;; Ok (inr r')
            else r' <- become_follower r (m_term m) INVALID_ID ;; Ok (inr r')
          else if m_term m <? r_term r then
            if (r_check_quorum r || r_pre_vote r) && ((t =? MsgHeartbeat) || (t =? MsgAppend)) then
              r' <- send r (new_message (m_from m) MsgAppendResponse None) ;; Ok (inl (r', E_OK))
            else if t =? MsgRequestPreVote then
              r' <- send r ((new_message (m_from m) MsgRequestPreVoteResponse None)
                              <| m_term := r_term r |> <| m_reject := true |>) ;;
              Ok (inl (r', E_OK))
            else Ok (inl (r, E_OK))
          else Ok (inr r)) ;;
  match pre with
  | inl ret => Ok ret
  | inr r =>
      if t =? MsgHup then r' <- hup r false ;; Ok (r', E_OK)
      else if (t =? MsgRequestVote) || (t =? MsgRequestPreVote) then
        let can_vote := (r_vote r =? m_from m)
                        || ((r_vote r =? INVALID_ID) && (r_leader_id r =? INVALID_ID))
                        || ((t =? MsgRequestPreVote) && (r_term r <? m_term m)) in
        utd <- is_up_to_date (r_log r) (m_index m) (m_log_term m) ;;
        rt <- vote_resp_msg_type t ;;
        if can_vote && utd
           && ((last_index (r_log r) <? m_index m) || (r_priority r <=? get_priority m)%Z)
        then
          r1 <- send r ((new_message (m_from m) rt None) <| m_reject := false |>
                          <| m_term := m_term m |>) ;;
          if t =? MsgRequestVote
          then Ok (r1 <| r_election_elapsed := 0 |> <| r_vote := m_from m |>, E_OK)
          else Ok (r1, E_OK)
        else
          ci <- commit_info (r_log r) ;;
          r1 <- send r ((new_message (m_from m) rt None) <| m_reject := true |>
                          <| m_term := r_term r |> <| m_commit := fst ci |>
                          <| m_commit_term := snd ci |>) ;;
          r2 <- maybe_commit_by_vote r1 m ;; Ok (r2, E_OK)
      else
        match r_state r with
        | PreCandidate | Candidate => step_candidate r m
        | Follower => step_follower r m
        | Leader => step_leader r m
        end
  end.

(* ------------------------------------------------------------------ *)
(* ticks *)
Definition pass_election_timeout (r : raft) : bool :=
  r_randomized_election_timeout r <=? r_election_elapsed r.

Definition tick_election (r : raft) : Res (raft * bool) :=
  let r := r <| r_election_elapsed := r_election_elapsed r + 1 |> in
  if negb (pass_election_timeout r) || negb (r_promotable r) then Ok (r, false) else
  let r := r <| r_election_elapsed := 0 |> in
  x <- step r (new_message INVALID_ID MsgHup (Some (r_id r))) ;; Ok (fst x, true).

Definition tick_heartbeat (r : raft) : Res (raft * bool) :=
  let r := r <| r_heartbeat_elapsed := r_heartbeat_elapsed r + 1 |>
             <| r_election_elapsed := r_election_elapsed r + 1 |> in
  x <- (if r_election_timeout r <=? r_election_elapsed r then
          let r := r <| r_election_elapsed := 0 |> in
          y <- (if r_check_quorum r then
                  z <- step r (new_message INVALID_ID MsgCheckQuorum (Some (r_id r))) ;;
                  Ok (fst z, true)
                else Ok (r, false)) ;;
          let '(r1, hr) := y in
          let r2 := if is_leader r1 && match r_lead_transferee r1 with Some _ => true | None => false end
                    then r1 <| r_lead_transferee := None |> else r1 in
          Ok (r2, hr)
        else Ok (r, false)) ;;
  let '(r1, has_ready) := x in
  if negb (is_leader r1) then Ok (r1, has_ready) else
  if r_heartbeat_timeout r1 <=? r_heartbeat_elapsed r1 then
    let r2 := r1 <| r_heartbeat_elapsed := 0 |> in
    z <- step r2 (new_message INVALID_ID MsgBeat (Some (r_id r2))) ;; Ok (fst z, true)
  else Ok (r1, has_ready).

Definition tick (r : raft) : Res (raft * bool) :=
  match r_state r with
  | Leader => tick_heartbeat r
  | _ => tick_election r
  end.

(* ------------------------------------------------------------------ *)
(* persistence notifications, apply, conf change, misc API *)

Definition on_persist_entries (r : raft) (index t : N) : Res raft :=
  x <- maybe_persist (r_log r) index t ;;
  let '(l', upd) := x in
  let r := r <| r_log := l' |> in
  if upd && is_leader r then
    match get_pr r (r_id r) with
    | None => Ok r   (* a leader that has removed itself is no longer tracked *)
    | Some pr =>
        let '(pr', u) := maybe_update pr index in
        let r := put_pr r (r_id r) pr' in
        if u then
          y <- maybe_commit r ;;
          let '(r1, c) := y in
          if c && should_bcast_commit r1 then bcast_append r1 else Ok r1
        else Ok r
    end
  else Ok r.

Definition on_persist_snap (r : raft) (index : N) : Res raft :=
  x <- maybe_persist_snap (r_log r) index ;; Ok (r <| r_log := fst x |>).

Definition commit_apply_internal (r : raft) (app : N) (skip_check : bool) : Res raft :=
  let old_applied := applied (r_log r) in
  l' <- (if negb skip_check then applied_to (r_log r) app
         else if app =? 0 then Panic site_commit_apply_assert
         else Ok (applied_to_unchecked (r_log r) app)) ;;
  let r := r <| r_log := l' |> in
  if auto_leave (conf_of r) && (old_applied <=? r_pending_conf_index r)
     && (r_pending_conf_index r <=? app) && is_leader r
  then
    x <- append_entry r [mkEntry EntryConfChangeV2 0 0 [] []] ;;
    let '(r1, ok) := x in
    if negb ok then Panic site_autoleave_dropped else
    Ok (r1 <| r_pending_conf_index := last_index (r_log r1) |>)
  else Ok r.

Definition commit_apply (r : raft) (app : N) : Res raft := commit_apply_internal r app false.

(* Raft::apply_conf_change: Err leaves everything untouched *)
Definition raft_apply_conf_change (r : raft) (cc : ccv2) : Res (raft * option conf_state) :=
  let base := pids (t_progress (r_prs r)) in
  let res := if v2_leave_joint cc then ConfChange.leave_joint (conf_of r) base
             else match v2_enter_joint cc with
                  | Some al => ConfChange.enter_joint al (conf_of r) base (v2_changes cc)
                  | None => ConfChange.simple (conf_of r) base (v2_changes cc)
                  end in
  match res with
  | RErr _ => Ok (r, None)
  | ROk (c', chs) =>
      let m' := apply_changes (t_progress (r_prs r)) chs (last_index (r_log r))
                              (t_max_inflight (r_prs r)) in
      x <- post_conf_change (set_conf_prs r c' m') ;;
      Ok (fst x, Some (snd x))
  end.

Definition load_state (r : raft) (hs : hard_state) : Res raft :=
  if (hs_commit hs <? committed (r_log r)) || (last_index (r_log r) <? hs_commit hs)
  then Panic site_load_state
  else Ok (r <| r_log := RaftLog.set_committed (r_log r) (hs_commit hs) |>
             <| r_term := hs_term hs |> <| r_vote := hs_vote hs |>).

Definition request_snapshot (r : raft) : Res (raft * N) :=
  if is_leader r then Ok (r, E_REQUEST_SNAPSHOT_DROPPED)
  else if r_leader_id r =? INVALID_ID then Ok (r, E_REQUEST_SNAPSHOT_DROPPED)
  else if match u_snapshot (unst (r_log r)) with Some _ => true | None => false end
  then Ok (r, E_REQUEST_SNAPSHOT_DROPPED)
  else if negb (r_pending_request_snapshot r =? INVALID_INDEX) then Ok (r, E_REQUEST_SNAPSHOT_DROPPED)
  else
    let ri := last_index (r_log r) in
    t <- RaftLog.term (r_log r) ri ;;
    match t with
    | SErr _ => Panic site_req_snap_term
    | SOk rt =>
        if r_term r =? rt then
          r' <- send_request_snapshot (r <| r_pending_request_snapshot := ri |>) ;; Ok (r', E_OK)
        else Ok (r, E_REQUEST_SNAPSHOT_DROPPED)
    end.

Definition ping (r : raft) : Res raft := if is_leader r then bcast_heartbeat r else Ok r.

Definition adjust_max_inflight_msgs (r : raft) (target : N) (cap : nat) : Res raft :=
  match get_pr r target with
  | None => Ok r
  | Some pr => i <- Inflights.set_cap (ins pr) cap ;; Ok (put_pr r target (set_ins pr i))
  end.

Definition maybe_free_inflight_buffers (r : raft) : raft :=
  r <| r_prs := (r_prs r) <| t_progress :=
         map (fun kp => (fst kp, set_ins (snd kp) (Inflights.maybe_free_buffer (ins (snd kp)))))
             (t_progress (r_prs r)) |> |>.

Definition set_max_apply_unpersisted_log_limit (r : raft) (limit : N) : raft :=
  r <| r_log := set_limit (r_log r) limit |>.

Definition enable_group_commit (r : raft) (enable : bool) : Res raft :=
  let r := r <| r_prs := (r_prs r) <| t_group_commit := enable |> |> in
  if is_leader r && negb enable then
    x <- maybe_commit r ;; if snd x then bcast_append (fst x) else Ok (fst x)
  else Ok r.

Fixpoint assign_groups (m : list (N * progress)) (ids : list (N * N)) : Res (list (N * progress)) :=
  match ids with
  | [] => Ok m
  | (peer, g) :: rest =>
      if g =? 0 then Panic site_assign_group else
      match pget m peer with
      | Some pr => assign_groups (pput m peer (set_commit_group_id pr g)) rest
      | None => assign_groups m rest
      end
  end.

Definition assign_commit_groups (r : raft) (ids : list (N * N)) : Res raft :=
  m' <- assign_groups (t_progress (r_prs r)) ids ;;
  let r := r <| r_prs := (r_prs r) <| t_progress := m' |> |> in
  if is_leader r && t_group_commit (r_prs r) then
    x <- maybe_commit r ;; if snd x then bcast_append (fst x) else Ok (fst x)
  else Ok r.

(* ------------------------------------------------------------------ *)
(* Config and Raft::new *)
Record config := mkCfg {
  c_id : N;
  c_election_tick : N;
  c_heartbeat_tick : N;
  c_applied : N;
  c_max_size_per_msg : N;
  c_max_inflight_msgs : nat;
  c_check_quorum : bool;
  c_pre_vote : bool;
  c_min_election_tick : N;
  c_max_election_tick : N;
  c_read_only_option : N;          (* 0 Safe, 1 LeaseBased *)
  c_skip_bcast_commit : bool;
  c_batch_append : bool;
  c_priority : Z;
  c_max_uncommitted_size : N;
  c_max_committed_size_per_ready : N;
  c_max_apply_unpersisted_log_limit : N;
  c_disable_proposal_forwarding : bool
}.

Definition E_CONFIG_INVALID : N := 6.

Definition cfg_min_election_tick (c : config) : N :=
  if c_min_election_tick c =? 0 then c_election_tick c else c_min_election_tick c.
Definition cfg_max_election_tick (c : config) : N :=
  if c_max_election_tick c =? 0 then 2 * c_election_tick c else c_max_election_tick c.

(* Config::validate: true = Ok *)
Definition cfg_validate (c : config) : bool :=
  negb (c_id c =? INVALID_ID)
  && negb (c_heartbeat_tick c =? 0)
  && (c_heartbeat_tick c <? c_election_tick c)
  && (c_election_tick c <=? cfg_min_election_tick c)
  && (cfg_min_election_tick c <? cfg_max_election_tick c)
  && negb (Nat.eqb (c_max_inflight_msgs c) 0)
  && negb ((c_read_only_option c =? 1) && negb (c_check_quorum c))
  && (c_max_size_per_msg c <=? c_max_uncommitted_size c).

(* Raft::new over a MemStorage model [st] ([snap_app]: see r_snap_app).
   Result: Panic | Ok (inl error code) | Ok (inr raft). *)
Definition raft_new (c : config) (st : MemStorage.mem) (snap_app : option N) (draws : list N)
  : Res (N + raft) :=
  if negb (cfg_validate c) then Ok (inl E_CONFIG_INVALID) else
  let hs0 := MemStorage.hs st in
  let cs0 := MemStorage.cs st in
  l <- log_new st (c_max_apply_unpersisted_log_limit c) ;;
  let r0 := mkRaft 0 0 (c_id c) [] l (c_max_inflight_msgs c) (c_max_size_per_msg c) INVALID_INDEX
                   Follower false 0 None 0 (ro_new (c_read_only_option c)) 0 0
                   (c_check_quorum c) (c_pre_vote c) (c_skip_bcast_commit c) (c_batch_append c)
                   (c_disable_proposal_forwarding c) (c_heartbeat_tick c) (c_election_tick c) 0
                   (cfg_min_election_tick c) (cfg_max_election_tick c) (c_priority c)
                   (c_max_uncommitted_size c) 0 0 (c_max_committed_size_per_ready c)
                   (mkTr [] empty_conf [] (c_max_inflight_msgs c) false) [] draws snap_app in
  match ConfChange.restore empty_tracker cs0 with
  | RErr _ => Ok (inl E_CONF_CHANGE)
  | ROk (c', ids') =>
      let r1 := set_conf_prs r0 c' (fresh_progress ids' (last_index l) (c_max_inflight_msgs c)) in
      x <- post_conf_change r1 ;;
      let '(r2, new_cs) := x in
      if negb (conf_state_eq new_cs cs0) then Panic site_restore_mismatch else
      r3 <- (if hs_eqb hs0 hs_default then Ok r2 else load_state r2 hs0) ;;
      r4 <- (if 0 <? c_applied c then commit_apply_internal r3 (c_applied c) true else Ok r3) ;;
      r5 <- become_follower r4 (r_term r4) INVALID_ID ;;
      _ <- last_term (r_log r5) ;;      (* evaluated for the "newRaft" log line *)
      Ok (inr r5)
  end.
