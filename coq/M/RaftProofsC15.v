(* C15 — snapshot install, fast-forward, snapshot sending and resumption, log
   compaction: per-step theorems about M/Raft.v, M/RaftLog.v, M/MemStorage.v.
   The models are taken as given (no model file is edited). *)
From RV Require Import Base.Prelude Base.IdSet Base.IdSetProofs M.Util M.Proto M.MemStorage
  M.MemStorageProofs M.Inflights M.Progress M.RaftLog M.Quorum M.ConfChange M.ConfChangeSpec
  M.ConfChangeProofs M.Msg M.Raft M.RaftProofs.
From RecordUpdate Require Import RecordSet.
Import RecordSetNotations.

Local Open Scope N_scope.

(* ------------------------------------------------------------------ *)
(* small helpers *)

Ltac case_if H :=
  match type of H with
  | (if ?c then _ else _) = _ => let E := fresh "E" in destruct c eqn:E
  end.

Lemma role_eqb_follower x : role_eqb x Follower = true -> x = Follower.
Proof. destruct x; cbn; congruence. Qed.

Lemma role_eqb_follower_false x : role_eqb x Follower = false -> x <> Follower.
Proof. destruct x; cbn; congruence. Qed.

Lemma set_committed_same l : RaftLog.set_committed l (committed l) = l.
Proof. destruct l; reflexivity. Qed.

(* progress map lookups; no sortedness is needed *)
Lemma pget_pput_same m id p : pget (pput m id p) id = Some p.
Proof.
  induction m as [|[k q] t IH]; cbn [pput pget].
  - rewrite N.eqb_refl. reflexivity.
  - destruct (id <? k) eqn:E1; cbn [pget].
    + rewrite N.eqb_refl. reflexivity.
    + destruct (id =? k) eqn:E2; cbn [pget].
      * rewrite N.eqb_refl. reflexivity.
      * rewrite N.eqb_sym, E2. exact IH.
Qed.

Lemma pget_pput_other m id p id' : id' <> id -> pget (pput m id p) id' = pget m id'.
Proof.
  intros Hne. induction m as [|[k q] t IH]; cbn [pput pget].
  - destruct (id =? id') eqn:E; [apply N.eqb_eq in E; congruence|reflexivity].
  - destruct (id <? k) eqn:E1; cbn [pget].
    + destruct (id =? id') eqn:E; [apply N.eqb_eq in E; congruence|reflexivity].
    + destruct (id =? k) eqn:E2; cbn [pget].
      * apply N.eqb_eq in E2. subst k.
        destruct (id =? id') eqn:E; [apply N.eqb_eq in E; congruence|reflexivity].
      * destruct (k =? id'); [reflexivity|exact IH].
Qed.

Lemma pids_pput_mem m id p x : IdSet.mem x (pids (pput m id p)) = (x =? id) || IdSet.mem x (pids m).
Proof.
  induction m as [|[k q] t IH]; cbn [pput pids map fst IdSet.mem].
  - reflexivity.
  - destruct (id <? k) eqn:E1; cbn [map fst IdSet.mem]; [reflexivity|].
    destruct (id =? k) eqn:E2; cbn [map fst IdSet.mem].
    + apply N.eqb_eq in E2. subst k. clear IH. cbn [IdSet.mem]. destruct (x =? id); reflexivity.
    + unfold pids in IH. rewrite IH. destruct (x =? id), (x =? k); reflexivity.
Qed.

Definition fresh_pr (next : N) (mi : nat) : progress := set_recent_active (pr_new next mi) true.

Lemma pget_fresh ids n mi id :
  pget (fresh_progress ids n mi) id = if IdSet.mem id ids then Some (fresh_pr n mi) else None.
Proof.
  induction ids as [|k t IH]; cbn [fresh_progress map pget IdSet.mem]; [reflexivity|].
  rewrite (N.eqb_sym k id). destruct (id =? k); cbn [orb]; [reflexivity|exact IH].
Qed.

Lemma pids_fresh ids n mi : pids (fresh_progress ids n mi) = ids.
Proof.
  unfold pids, fresh_progress. rewrite map_map. cbn [fst]. apply map_id.
Qed.

(* ------------------------------------------------------------------ *)
(* send of a plain (non-vote, non-proposal) message with unset from/term *)
Lemma send_plain r m :
  m_from m = 0 -> m_term m = 0 -> is_vote_type (m_type m) = false ->
  (m_type m =? MsgPropose) = false -> (m_type m =? MsgReadIndex) = false ->
  send r m = Ok (r <| r_msgs := r_msgs r ++ [m <| m_from := r_id r |> <| m_term := r_term r |>] |>).
Proof.
  intros Hf Ht Hv Hp Hr. destruct m as [ty to fr te lt ix en cm ct sn rs rj rh cx dp pri cc].
  cbn in Hf, Ht, Hp, Hr. cbn [m_type] in Hv. subst.
  unfold send. cbn -[is_vote_type]. change (0 =? INVALID_ID) with true. cbn -[is_vote_type].
  rewrite Hv. change (0 =? 0) with true. cbn -[is_vote_type]. rewrite Hp, Hr. cbn -[is_vote_type].
  unfold is_vote_type in Hv.
  apply orb_false_elim in Hv. destruct Hv as [Hv _].
  apply orb_false_elim in Hv. destruct Hv as [Hv _].
  apply orb_false_elim in Hv. destruct Hv as [Hv1 Hv2].
  rewrite Hv1, Hv2. cbn. reflexivity.
Qed.

(* ------------------------------------------------------------------ *)
(* reset / become_follower at a different term: the exact effect we need *)
Lemma reset_effect r t r' :
  reset r t = Ok r' ->
  r_term r' = t /\ (t <> r_term r -> r_vote r' = INVALID_ID) /\
  r_leader_id r' = INVALID_ID /\ r_state r' = r_state r /\ r_log r' = r_log r /\
  r_msgs r' = r_msgs r /\ r_id r' = r_id r /\ conf_of r' = conf_of r /\
  r_pending_request_snapshot r' = INVALID_INDEX /\ r_lead_transferee r' = None /\
  r_election_elapsed r' = 0 /\ r_promotable r' = r_promotable r /\
  pids (t_progress (r_prs r')) = pids (t_progress (r_prs r)).
Proof.
  unfold reset. intros H.
  destruct (negb (r_term r =? t)) eqn:E; cbn in H;
  match type of H with match ?d with _ => _ end = _ => destruct d end;
    try discriminate; inversion H; subst; cbn;
    (repeat split; try reflexivity);
    try (apply negb_false_iff in E; apply N.eqb_eq in E; congruence);
    try (intros; congruence);
    unfold pids; rewrite map_map; cbn [fst]; reflexivity.
Qed.

Lemma become_follower_effect r t lead r' :
  become_follower r t lead = Ok r' ->
  r_term r' = t /\ (t <> r_term r -> r_vote r' = INVALID_ID) /\
  r_leader_id r' = lead /\ r_state r' = Follower /\ r_log r' = set_limit (r_log r) 0 /\
  r_msgs r' = r_msgs r /\ r_id r' = r_id r /\ conf_of r' = conf_of r /\
  r_pending_request_snapshot r' = r_pending_request_snapshot r /\
  r_promotable r' = r_promotable r /\
  pids (t_progress (r_prs r')) = pids (t_progress (r_prs r)).
Proof.
  unfold become_follower. intros H. inv_bind H. inversion H; subst. cbn.
  apply reset_effect in Hx.
  destruct Hx as (A & B & C0 & D & E & F & G & I & J & K & L & M0 & O).
  rewrite E. repeat split; assumption.
Qed.

(* ------------------------------------------------------------------ *)
(* post_conf_change on a non-leader only recomputes [promotable] *)
Lemma post_conf_change_nonleader r :
  is_leader r = false ->
  post_conf_change r =
  Ok (r <| r_promotable := voters_contains (conf_of r) (r_id r) |>, to_conf_state (conf_of r)).
Proof.
  intros Hl. unfold post_conf_change.
  change (is_leader (r <| r_promotable := voters_contains (conf_of r) (r_id r) |>))
    with (is_leader r).
  rewrite Hl. rewrite andb_false_r. cbn [negb orb]. reflexivity.
Qed.

(* ------------------------------------------------------------------ *)
(* Raft::restore *)

(* the snapshot cannot be the answer to a request of this node: none is pending, or
   the snapshot is below the requested index (repo commit 5a0d8a9) *)
Definition unrequested (r : raft) (s : snapshot) : bool :=
  (r_pending_request_snapshot r =? INVALID_INDEX) || (s_index s <? r_pending_request_snapshot r).

Lemma unrequested_true r s :
  unrequested r s = true <->
  (r_pending_request_snapshot r = 0 \/ s_index s < r_pending_request_snapshot r).
Proof. unfold unrequested, INVALID_INDEX. lia. Qed.

Lemma unrequested_false r s :
  unrequested r s = false <->
  (r_pending_request_snapshot r <> 0 /\ r_pending_request_snapshot r <= s_index s).
Proof. unfold unrequested, INVALID_INDEX. lia. Qed.

Definition snap_member (r : raft) (s : snapshot) : bool :=
  IdSet.mem (r_id r) (cs_voters (s_cs s)) || IdSet.mem (r_id r) (cs_learners (s_cs s))
  || IdSet.mem (r_id r) (cs_voters_outgoing (s_cs s)).

(* RaftLog::restore, explicit *)
Definition restored_log (l : raft_log) (s : snapshot) : raft_log :=
  mkLog (store l) (mkUn (Some s) [] 0 (s_index s + 1)) (s_index s)
        (N.min (persisted l) (committed l)) (applied l) (max_apply_unpersisted_log_limit l).

Lemma log_restore_eq l s l' : log_restore l s = Ok l' -> l' = restored_log l s.
Proof.
  unfold log_restore. intros H. case_if H; [discriminate|]. inversion H; subst; clear H.
  unfold restored_log, set_unst, RaftLog.set_committed, u_restore.
  destruct (committed l <? persisted l) eqn:E1; cbn.
  - f_equal. lia.
  - f_equal. lia.
Qed.

(* the progress the node keeps for itself after an install *)
Definition self_pr (s : snapshot) (mi : nat) : progress :=
  set_matched (fresh_pr (s_index s) mi) (s_index s - 1).

(* the state after a successful install, in closed form *)
Definition installed (r : raft) (s : snapshot) (c' : conf) (ids' : idset) : raft :=
  r <| r_log := restored_log (r_log r) s |>
    <| r_prs := mkTr (pput (fresh_progress ids' (s_index s) (t_max_inflight (r_prs r)))
                           (r_id r) (self_pr s (t_max_inflight (r_prs r))))
                     c' [] (t_max_inflight (r_prs r)) (t_group_commit (r_prs r)) |>
    <| r_promotable := voters_contains c' (r_id r) |>
    <| r_pending_request_snapshot := INVALID_INDEX |>.

Lemma maybe_update_fresh n mi :
  n <> 0 -> fst (maybe_update (fresh_pr n mi) (n - 1)) = set_matched (fresh_pr n mi) (n - 1).
Proof.
  intros Hn. unfold maybe_update, fresh_pr, pr_new, set_recent_active. cbn [matched].
  destruct (0 <? n - 1) eqn:E; cbn.
  - destruct (n <? n - 1 + 1) eqn:E2; [lia|]. reflexivity.
  - destruct (n <? n - 1 + 1) eqn:E2; [lia|]. cbn.
    assert (H0 : n - 1 = 0) by lia. rewrite H0. reflexivity.
Qed.

(* Inversion of a successful install: every guard, and the closed form *)
Lemma restore_true_inv r s r' :
  restore r s = Ok (r', true) ->
  committed (r_log r) <= s_index s /\ r_state r = Follower /\ snap_member r s = true /\
  (exists mt, match_term (r_log r) (s_index s) (s_term s) = Ok mt /\
              (unrequested r s && mt) = false) /\
  s_index s <> 0 /\
  exists c' ids', ConfChange.restore empty_tracker (s_cs s) = ROk (c', ids') /\
    conf_state_eq (s_cs s) (to_conf_state c') = true /\
    IdSet.mem (r_id r) ids' = true /\
    r' = installed r s c' ids'.
Proof.
  unfold restore. intros H.
  case_if H; [inversion H|].
  case_if H; [inv_bind H; inversion H|].
  apply negb_false_iff in E0. apply role_eqb_follower in E0.
  case_if H; [inversion H|]. apply negb_false_iff in E1.
  inv_bind H. rename x into mt.
  case_if H; [inv_bind H; inversion H|].
  inv_bind H. apply log_restore_eq in Hx0. subst x.
  destruct (ConfChange.restore empty_tracker (s_cs s)) as [[c' ids']|e] eqn:ER; [|discriminate].
  rewrite post_conf_change_nonleader in H
    by (unfold is_leader; cbn; rewrite E0; reflexivity).
  cbn [bind] in H.
  case_if H; [discriminate|]. apply negb_false_iff in E3.
  match type of H with match ?g with _ => _ end = _ => destruct g as [pr|] eqn:EG end;
    [|discriminate].
  case_if H; [discriminate|].
  (* the node's own progress is the fresh one *)
  unfold get_pr in EG. cbn in EG. rewrite pget_fresh in EG.
  destruct (IdSet.mem (r_id r) ids') eqn:EM; [|discriminate].
  inversion EG; subst pr; clear EG.
  assert (Hli : last_index (restored_log (r_log r) s) = s_index s) by reflexivity.
  cbn in E4. apply N.eqb_neq in E4.
  split; [lia|]. split; [exact E0|]. split; [exact E1|].
  split; [exists mt; split; [exact Hx|exact E2]|].
  split; [exact E4|].
  exists c', ids'. split; [reflexivity|]. split; [exact E3|]. split; [exact EM|].
  change (next_idx (fresh_pr (s_index s) (t_max_inflight (r_prs r)))) with (s_index s) in H.
  rewrite (maybe_update_fresh (s_index s) _ E4) in H.
  injection H as H. subst r'. reflexivity.
Qed.

(* the log after an install *)
Lemma restored_log_facts l s :
  let l' := restored_log l s in
  committed l' = s_index s /\ u_snapshot (unst l') = Some s /\ u_entries (unst l') = [] /\
  u_offset (unst l') = s_index s + 1 /\ last_index l' = s_index s /\
  RaftLog.first_index l' = Ok (s_index s + 1) /\
  RaftLog.term l' (s_index s) = Ok (SOk (s_term s)) /\
  (forall i, i <> s_index s -> RaftLog.term l' i = Ok (SOk 0)) /\
  persisted l' = N.min (persisted l) (committed l) /\ applied l' = applied l /\
  store l' = store l /\ max_apply_unpersisted_log_limit l' = max_apply_unpersisted_log_limit l.
Proof.
  cbn zeta. repeat split; try reflexivity.
  - unfold RaftLog.term. change (RaftLog.first_index (restored_log l s)) with (Ok (s_index s + 1)).
    cbn [bind]. destruct (s_index s + 1 =? 0) eqn:E0; [lia|].
    change (last_index (restored_log l s)) with (s_index s).
    destruct ((s_index s <? s_index s + 1 - 1) || (s_index s <? s_index s)) eqn:E1; [lia|].
    unfold u_maybe_term. cbn [unst restored_log u_offset u_snapshot].
    destruct (s_index s <? s_index s + 1) eqn:E2; [|lia].
    rewrite N.eqb_refl. reflexivity.
  - intros i Hi. unfold RaftLog.term.
    change (RaftLog.first_index (restored_log l s)) with (Ok (s_index s + 1)).
    cbn [bind]. destruct (s_index s + 1 =? 0) eqn:E0; [lia|].
    change (last_index (restored_log l s)) with (s_index s).
    destruct ((i <? s_index s + 1 - 1) || (s_index s <? i)) eqn:E1; [reflexivity|lia].
Qed.

(* 1. restore_guard *)
Theorem restore_guard r s r' :
  restore r s = Ok (r', true) ->
  committed (r_log r) <= s_index s /\ r_state r = Follower /\
  (IdSet.mem (r_id r) (cs_voters (s_cs s)) = true \/ IdSet.mem (r_id r) (cs_learners (s_cs s)) = true
   \/ IdSet.mem (r_id r) (cs_voters_outgoing (s_cs s)) = true) /\
  ~ ((r_pending_request_snapshot r = 0 \/ s_index s < r_pending_request_snapshot r) /\
     match_term (r_log r) (s_index s) (s_term s) = Ok true) /\
  s_index s <> 0.
Proof.
  intros H. apply restore_true_inv in H.
  destruct H as (A & B & C0 & (mt & D1 & D2) & E & _).
  split; [exact A|]. split; [exact B|]. split.
  { unfold snap_member in C0. apply orb_prop in C0. destruct C0 as [C0|C0]; [|auto].
    apply orb_prop in C0. destruct C0; auto. }
  split; [|exact E].
  intros [P Q]. rewrite Q in D1. inversion D1; subst mt.
  apply unrequested_true in P. rewrite P in D2. discriminate.
Qed.

(* 2. restore_effect: the closed form and its consequences *)
Theorem restore_effect r s r' :
  restore r s = Ok (r', true) ->
  exists c' ids',
    ConfChange.restore empty_tracker (s_cs s) = ROk (c', ids') /\
    conf_state_eq (s_cs s) (to_conf_state c') = true /\
    (* everything, in closed form: only log, tracker, promotable and the request flag change *)
    r' = installed r s c' ids' /\
    (* log *)
    committed (r_log r') = s_index s /\
    unst (r_log r') = mkUn (Some s) [] 0 (s_index s + 1) /\
    last_index (r_log r') = s_index s /\
    RaftLog.first_index (r_log r') = Ok (s_index s + 1) /\
    RaftLog.term (r_log r') (s_index s) = Ok (SOk (s_term s)) /\
    persisted (r_log r') = N.min (persisted (r_log r)) (committed (r_log r)) /\
    applied (r_log r') = applied (r_log r) /\
    store (r_log r') = store (r_log r) /\
    (* configuration and progress *)
    conf_of r' = c' /\
    t_votes (r_prs r') = [] /\
    (forall id, get_pr r' id =
       if id =? r_id r then Some (self_pr s (t_max_inflight (r_prs r)))
       else if IdSet.mem id ids' then Some (fresh_pr (s_index s) (t_max_inflight (r_prs r)))
       else None) /\
    (forall id, IdSet.mem id (pids (t_progress (r_prs r'))) = is_member c' id) /\
    IdSet.mem (r_id r) ids' = true /\
    r_promotable r' = voters_contains c' (r_id r) /\
    r_pending_request_snapshot r' = 0 /\
    (* frame *)
    r_term r' = r_term r /\ r_vote r' = r_vote r /\ r_state r' = Follower /\
    r_leader_id r' = r_leader_id r /\ r_id r' = r_id r /\ r_msgs r' = r_msgs r.
Proof.
  intros H. apply restore_true_inv in H.
  destruct H as (A & B & C0 & _ & E & c' & ids' & R & Q & M0 & ->).
  exists c', ids'. split; [exact R|]. split; [exact Q|]. split; [reflexivity|].
  pose proof (restore_valid _ _ R) as [V _]. cbn [fst snd] in V.
  repeat split; try reflexivity.
  - change (r_log (installed r s c' ids')) with (restored_log (r_log r) s).
    apply restored_log_facts.
  - intros id. unfold get_pr. cbn.
    destruct (id =? r_id r) eqn:Ei.
    + apply N.eqb_eq in Ei. subst id. apply pget_pput_same.
    + apply N.eqb_neq in Ei. rewrite pget_pput_other by exact Ei. apply pget_fresh.
  - intros id. cbn. rewrite pids_pput_mem, pids_fresh.
    rewrite <- (vb_prs _ _ V id).
    destruct (id =? r_id r) eqn:Ei; [|reflexivity].
    apply N.eqb_eq in Ei. subst id. rewrite M0. reflexivity.
  - exact M0.
  - cbn. exact B.
Qed.

(* 3. restore_fastforward *)
Lemma restore_fastforward_eq r s :
  committed (r_log r) <= s_index s -> r_state r = Follower -> snap_member r s = true ->
  (r_pending_request_snapshot r = 0 \/ s_index s < r_pending_request_snapshot r) ->
  match_term (r_log r) (s_index s) (s_term s) = Ok true ->
  restore r s = (l' <- RaftLog.commit_to (r_log r) (s_index s) ;; Ok (r <| r_log := l' |>, false)).
Proof.
  intros A B C0 D E. unfold restore.
  destruct (s_index s <? committed (r_log r)) eqn:E0; [lia|].
  rewrite B. cbn [role_eqb negb].
  unfold snap_member in C0. rewrite C0. cbn [negb].
  rewrite E. cbn [bind]. apply unrequested_true in D. unfold unrequested in D. rewrite D.
  reflexivity.
Qed.

Theorem restore_fastforward r s :
  committed (r_log r) <= s_index s -> r_state r = Follower -> snap_member r s = true ->
  (r_pending_request_snapshot r = 0 \/ s_index s < r_pending_request_snapshot r) ->
  match_term (r_log r) (s_index s) (s_term s) = Ok true ->
  (s_index s <= last_index (r_log r) \/ s_index s = committed (r_log r) ->
   restore r s = Ok (r <| r_log := RaftLog.set_committed (r_log r) (s_index s) |>, false)) /\
  (last_index (r_log r) < s_index s -> committed (r_log r) < s_index s ->
   restore r s = Panic site_l_commit_range).
Proof.
  intros A B C0 D E. rewrite (restore_fastforward_eq r s A B C0 D E).
  unfold RaftLog.commit_to. split.
  - intros L. destruct (s_index s <=? committed (r_log r)) eqn:E1.
    + assert (Heq : s_index s = committed (r_log r)) by lia.
      rewrite Heq, set_committed_same. reflexivity.
    + destruct (last_index (r_log r) <? s_index s) eqn:E2; [lia|]. reflexivity.
  - intros L1 L2. destruct (s_index s <=? committed (r_log r)) eqn:E1; [lia|].
    destruct (last_index (r_log r) <? s_index s) eqn:E2; [reflexivity|lia].
Qed.

(* 4. restore_rejects *)
Theorem restore_rejects_stale r s :
  s_index s < committed (r_log r) -> restore r s = Ok (r, false).
Proof.
  intros H. unfold restore. destruct (s_index s <? committed (r_log r)) eqn:E; [reflexivity|lia].
Qed.

Theorem restore_rejects_nonfollower r s :
  committed (r_log r) <= s_index s -> r_state r <> Follower ->
  restore r s = (r' <- become_follower r (r_term r + 1) INVALID_ID ;; Ok (r', false)) /\
  forall r' b, restore r s = Ok (r', b) ->
    b = false /\ r_state r' = Follower /\ r_term r' = r_term r + 1 /\ r_vote r' = INVALID_ID /\
    r_leader_id r' = INVALID_ID /\ r_log r' = set_limit (r_log r) 0 /\ r_msgs r' = r_msgs r /\
    conf_of r' = conf_of r /\ r_pending_request_snapshot r' = r_pending_request_snapshot r.
Proof.
  intros A B.
  assert (Heq : restore r s = (r' <- become_follower r (r_term r + 1) INVALID_ID ;; Ok (r', false))).
  { unfold restore. destruct (s_index s <? committed (r_log r)) eqn:E; [lia|].
    destruct (role_eqb (r_state r) Follower) eqn:E1;
      [apply role_eqb_follower in E1; congruence|]. reflexivity. }
  split; [exact Heq|]. intros r' b H. rewrite Heq in H. inv_bind H. inversion H; subst; clear H.
  apply become_follower_effect in Hx.
  destruct Hx as (T & V & L & S & G & M0 & _ & C0 & P & _).
  split; [reflexivity|]. split; [exact S|]. split; [exact T|].
  split; [apply V; lia|]. repeat split; assumption.
Qed.

Theorem restore_rejects_nonmember r s :
  committed (r_log r) <= s_index s -> r_state r = Follower -> snap_member r s = false ->
  restore r s = Ok (r, false).
Proof.
  intros A B C0. unfold restore.
  destruct (s_index s <? committed (r_log r)) eqn:E; [lia|].
  rewrite B. cbn [role_eqb negb]. unfold snap_member in C0. rewrite C0. reflexivity.
Qed.

(* the install path can only answer true *)
Lemma restore_install_path r s r' b :
  committed (r_log r) <= s_index s -> r_state r = Follower -> snap_member r s = true ->
  (forall mt, match_term (r_log r) (s_index s) (s_term s) = Ok mt ->
              unrequested r s && mt = false) ->
  restore r s = Ok (r', b) -> b = true.
Proof.
  intros A B C0 D H. unfold restore in H.
  destruct (s_index s <? committed (r_log r)) eqn:E; [lia|].
  rewrite B in H. cbn [role_eqb negb] in H. unfold snap_member in C0. rewrite C0 in H.
  cbn [negb] in H. inv_bind H. specialize (D _ Hx). unfold unrequested in D. rewrite D in H.
  inv_bind H.
  destruct (ConfChange.restore empty_tracker (s_cs s)) as [[c' ids']|e]; [|discriminate].
  apply bind_ok in H; destruct H as ([r1 ncs] & Hpc & H).
  case_if H; [discriminate|].
  destruct (get_pr r1 (r_id r1)); [|discriminate].
  case_if H; [discriminate|]. inversion H. reflexivity.
Qed.

(* A snapshot that can answer the node's own request (request pending and the snapshot
   is not below the requested index) is installed whenever it passes the guards, whether
   or not it matches the log (never fast-forwarded); the log then ends at the snapshot. *)
Theorem restore_requested_installs r s r' b :
  committed (r_log r) <= s_index s -> r_state r = Follower -> snap_member r s = true ->
  r_pending_request_snapshot r <> 0 -> r_pending_request_snapshot r <= s_index s ->
  restore r s = Ok (r', b) ->
  b = true /\ last_index (r_log r') = s_index s /\ u_entries (unst (r_log r')) = [] /\
  committed (r_log r') = s_index s.
Proof.
  intros A B C0 D D' H.
  assert (Hb : b = true).
  { eapply restore_install_path; try eassumption. intros mt _.
    rewrite (proj2 (unrequested_false r s) (conj D D')). reflexivity. }
  subst b. split; [reflexivity|].
  apply restore_true_inv in H. destruct H as (_ & _ & _ & _ & _ & c' & ids' & _ & _ & _ & ->).
  repeat split; reflexivity.
Qed.

(* complete classification of the results of restore *)
Lemma restore_cases r s r' b :
  restore r s = Ok (r', b) ->
  (b = false /\ r' = r /\
     (s_index s < committed (r_log r) \/
      (committed (r_log r) <= s_index s /\ r_state r = Follower /\ snap_member r s = false)))
  \/ (b = false /\ committed (r_log r) <= s_index s /\ r_state r <> Follower /\
      become_follower r (r_term r + 1) INVALID_ID = Ok r')
  \/ (b = false /\ committed (r_log r) <= s_index s /\ r_state r = Follower /\
      snap_member r s = true /\
      (r_pending_request_snapshot r = 0 \/ s_index s < r_pending_request_snapshot r) /\
      match_term (r_log r) (s_index s) (s_term s) = Ok true /\
      r' = r <| r_log := RaftLog.set_committed (r_log r) (s_index s) |>)
  \/ (b = true /\ exists c' ids', r' = installed r s c' ids').
Proof.
  intros H.
  destruct (s_index s <? committed (r_log r)) eqn:E.
  { rewrite restore_rejects_stale in H by lia. inversion H; subst. left. split; [reflexivity|]. split; [reflexivity|]. left. lia. }
  assert (A : committed (r_log r) <= s_index s) by lia.
  destruct (role_eqb (r_state r) Follower) eqn:E1.
  2:{ apply role_eqb_follower_false in E1.
      destruct (restore_rejects_nonfollower r s A E1) as [Heq _]. rewrite Heq in H.
      inv_bind H. inversion H; subst. right. left. auto. }
  apply role_eqb_follower in E1.
  destruct (snap_member r s) eqn:E2.
  2:{ rewrite restore_rejects_nonmember in H by assumption. inversion H; subst. left. split; [reflexivity|]. split; [reflexivity|]. right. auto. }
  destruct b.
  { right. right. right. split; [reflexivity|]. apply restore_true_inv in H.
    destruct H as (_ & _ & _ & _ & _ & c' & ids' & _ & _ & _ & ->). eauto. }
  right. right. left.
  destruct (match_term (r_log r) (s_index s) (s_term s)) as [mt|st] eqn:EM.
  2:{ unfold restore in H. rewrite E in H. rewrite E1 in H. cbn [role_eqb negb] in H.
      unfold snap_member in E2. rewrite E2 in H. cbn [negb] in H. rewrite EM in H. discriminate. }
  destruct (unrequested r s && mt) eqn:EU.
  2:{ assert (X : false = true); [|discriminate].
      eapply (restore_install_path r s r' false A E1 E2); [|exact H].
      intros mt' Hmt. rewrite EM in Hmt. inversion Hmt; subst. exact EU. }
  apply andb_prop in EU. destruct EU as [EU ->]. apply unrequested_true in EU.
  destruct (restore_fastforward r s A E1 E2 EU EM) as [F1 F2].
  destruct (s_index s <=? last_index (r_log r)) eqn:EL.
  - rewrite F1 in H by lia. inversion H; subst. repeat split; auto.
  - destruct (N.eq_dec (s_index s) (committed (r_log r))) as [Q|Q].
    + rewrite F1 in H by (right; exact Q). inversion H; subst. repeat split; auto.
    + rewrite F2 in H by lia. discriminate.
Qed.

(* A snapshot below the requested index that matches the local log is treated as
   unrequested (repo commit 5a0d8a9): every Ok result is "false" and changes nothing but
   the commit index; nothing is discarded.  The Ok result exists whenever the snapshot
   index is within the log. *)
Theorem matching_snapshot_below_request_discards_nothing r s :
  committed (r_log r) <= s_index s -> r_state r = Follower -> snap_member r s = true ->
  s_index s < r_pending_request_snapshot r ->
  match_term (r_log r) (s_index s) (s_term s) = Ok true ->
  (forall r' b, restore r s = Ok (r', b) ->
     b = false /\ r' = r <| r_log := RaftLog.set_committed (r_log r) (s_index s) |>) /\
  (s_index s <= last_index (r_log r) ->
   restore r s = Ok (r <| r_log := RaftLog.set_committed (r_log r) (s_index s) |>, false)).
Proof.
  intros A B C0 D E.
  destruct (restore_fastforward r s A B C0 (or_intror D) E) as [F1 F2].
  split; [|intros L; apply F1; left; exact L].
  intros r' b H.
  destruct (s_index s <=? last_index (r_log r)) eqn:EL.
  - rewrite F1 in H by lia. inversion H; subst. auto.
  - destruct (N.eq_dec (s_index s) (committed (r_log r))) as [Q|Q].
    + rewrite F1 in H by (right; exact Q). inversion H; subst. auto.
    + rewrite F2 in H by lia. discriminate.
Qed.

Lemma restore_msgs r s r' b : restore r s = Ok (r', b) -> r_msgs r' = r_msgs r /\ r_id r' = r_id r.
Proof.
  intros H. apply restore_cases in H.
  destruct H as [(_ & -> & _)|[(_ & _ & _ & H)|[(_ & _ & _ & _ & _ & _ & ->)|(_ & c' & ids' & ->)]]];
    try (split; reflexivity).
  apply become_follower_effect in H. destruct H as (_ & _ & _ & _ & _ & M0 & I & _). auto.
Qed.

(* 5. handle_snapshot_reply *)
Theorem handle_snapshot_reply r m r' :
  handle_snapshot r m = Ok r' ->
  exists r1 ok,
    restore r (m_snapshot m) = Ok (r1, ok) /\
    r_msgs r1 = r_msgs r /\
    r' = r1 <| r_msgs := r_msgs r ++
           [msg_default <| m_type := MsgAppendResponse |> <| m_to := m_from m |>
              <| m_index := if ok then last_index (r_log r1) else committed (r_log r1) |>
              <| m_from := r_id r |> <| m_term := r_term r1 |>] |>.
Proof.
  unfold handle_snapshot. intros H. inv_bind H. destruct x as [r1 ok].
  exists r1, ok. split; [exact Hx|].
  destruct (restore_msgs _ _ _ _ Hx) as [Hm Hi]. split; [exact Hm|].
  destruct ok; rewrite send_plain in H by reflexivity; inversion H; subst; clear H;
    rewrite Hm, Hi; reflexivity.
Qed.

(* ------------------------------------------------------------------ *)
(* F2 witness state: a follower that has requested a snapshot (pending = 5) receives a
   duplicated OLDER snapshot (4) that matches its log.  Before repo commit 5a0d8a9 it
   was installed and entry 5 was lost; see the regression guard below. *)
Definition w_ent (i : N) : entry := mkEntry 0 1 i [] [].
Definition w_cs : conf_state := mkCS [1; 2; 3] [] [] [] false.
Definition w_store : MemStorage.mem :=
  mkMem (mkHS 1 1 4) w_cs [w_ent 1; w_ent 2; w_ent 3; w_ent 4; w_ent 5] 0 0 false false None.
Definition w_log : raft_log := mkLog w_store (u_new 6) 4 5 4 0.
Definition w_prs : tracker :=
  mkTr [(1, fresh_pr 6 256); (2, fresh_pr 6 256); (3, fresh_pr 6 256)]
       (mkConf [1; 2; 3] [] [] [] false) [] 256 false.
(* follower 2 at term 1, leader 1; log 1..5 all persisted, committed = applied = 4 *)
Definition w_follower : raft :=
  mkRaft 1 1 2 [] w_log 256 1000 0 Follower true 1 None 0 (ro_new 0) 0 0 false false false false
         false 1 10 15 10 20 0%Z u64_max 0 0 u64_max w_prs [] [] None.
Definition w_snap : snapshot := mkSnap 4 1 w_cs.
Definition w_msg : msg :=
  msg_default <| m_type := MsgSnapshot |> <| m_to := 2 |> <| m_from := 1 |> <| m_term := 1 |>
              <| m_snapshot := w_snap |>.

(* the application asks for a snapshot: accepted, pending_request_snapshot = 5 *)
Definition w_requested : raft :=
  match request_snapshot w_follower with Ok (r, _) => r | Panic _ => w_follower end.

Lemma w_requested_ok :
  exists r1, request_snapshot w_follower = Ok (r1, E_OK) /\ w_requested = r1 /\
    r_pending_request_snapshot r1 = 5 /\ r_log r1 = w_log.
Proof. eexists. split; [vm_compute; reflexivity|]. split; vm_compute; auto. Qed.

(* REGRESSION GUARD for F2 (fixed by repo commit 5a0d8a9).  In exactly the state that
   used to lose entry 5 — request pending at 5, duplicated older snapshot (4, matching
   term) — restore now answers false and only fast-forwards: the log is unchanged. *)
Theorem requested_stale_snapshot_keeps_log :
  let r := w_requested in
  let s := w_snap in
  r_state r = Follower /\ r_pending_request_snapshot r = 5 /\
  last_index (r_log r) = 5 /\ persisted (r_log r) = 5 /\ committed (r_log r) = 4 /\
  s_index s = 4 /\ match_term (r_log r) (s_index s) (s_term s) = Ok true /\
  RaftLog.term (r_log r) 5 = Ok (SOk 1) /\
  exists r', restore r s = Ok (r', false) /\
    r_log r' = r_log r /\ last_index (r_log r') = 5 /\ RaftLog.term (r_log r') 5 = Ok (SOk 1) /\
    persisted (r_log r') = 5 /\ u_snapshot (unst (r_log r')) = None /\
    r_pending_request_snapshot r' = 5.
Proof.
  cbn zeta. repeat (split; [vm_compute; reflexivity|]).
  eexists. split; [vm_compute; reflexivity|]. repeat split; vm_compute; reflexivity.
Qed.

(* the same through the public step function: the reply carries the commit index *)
Theorem requested_stale_snapshot_keeps_log_step :
  exists r' mm,
    step w_requested w_msg = Ok (r', E_OK) /\
    last_index (r_log w_requested) = 5 /\ last_index (r_log r') = 5 /\
    r_log r' = r_log w_requested /\
    r_msgs r' = r_msgs w_requested ++ [mm] /\
    m_type mm = MsgAppendResponse /\ m_index mm = 4 /\ m_reject mm = false.
Proof.
  eexists. eexists. split; [vm_compute; reflexivity|]. repeat split; vm_compute; reflexivity.
Qed.

(* positive examples: a snapshot at or above the requested index IS installed *)
Theorem requested_snapshot_at_request_installed :
  let r := w_requested in
  let s := mkSnap 5 1 w_cs in
  match_term (r_log r) (s_index s) (s_term s) = Ok true /\
  exists r', restore r s = Ok (r', true) /\
    last_index (r_log r') = 5 /\ committed (r_log r') = 5 /\
    u_snapshot (unst (r_log r')) = Some s /\ r_pending_request_snapshot r' = 0.
Proof.
  cbn zeta. split; [vm_compute; reflexivity|].
  eexists. split; [vm_compute; reflexivity|]. repeat split; vm_compute; reflexivity.
Qed.

Theorem requested_snapshot_above_request_installed :
  let r := w_requested in
  let s := mkSnap 6 1 w_cs in
  exists r', restore r s = Ok (r', true) /\
    last_index (r_log r') = 6 /\ committed (r_log r') = 6 /\
    RaftLog.term (r_log r') 6 = Ok (SOk 1) /\
    u_snapshot (unst (r_log r')) = Some s /\ r_pending_request_snapshot r' = 0.
Proof.
  cbn zeta. eexists. split; [vm_compute; reflexivity|]. repeat split; vm_compute; reflexivity.
Qed.

(* without a pending request the very same message also only fast-forwards *)
Theorem unrequested_snapshot_keeps_log :
  exists r',
    step w_follower w_msg = Ok (r', E_OK) /\
    last_index (r_log r') = 5 /\ committed (r_log r') = 4 /\ r_log r' = r_log w_follower.
Proof. eexists. split; [vm_compute; reflexivity|]. repeat split; vm_compute; reflexivity. Qed.

(* ------------------------------------------------------------------ *)
(* 6. when does the leader send a snapshot *)

Definition snaps (l : list msg) : list msg := filter (fun x => m_type x =? MsgSnapshot) l.

Lemma snaps_app a b : snaps (a ++ b) = snaps a ++ snaps b.
Proof. apply filter_app. Qed.

Lemma try_batching_snaps r to msgs pr ents msgs' pr' b :
  try_batching r to msgs pr ents = Ok (msgs', pr', b) -> snaps msgs' = snaps msgs.
Proof.
  revert msgs' pr' b. induction msgs as [|m rest IH]; intros msgs' pr' b H; cbn [try_batching] in H.
  - inversion H. reflexivity.
  - destruct ((m_type m =? MsgAppend) && (m_to m =? to)) eqn:E.
    + apply andb_prop in E. destruct E as [E _]. apply N.eqb_eq in E.
      assert (Hs : forall m2, m_type m2 = m_type m -> snaps (m2 :: rest) = snaps (m :: rest)).
      { intros m2 H2. unfold snaps. cbn [filter]. rewrite H2, E. reflexivity. }
      destruct ents as [|e0 et].
      * inversion H; subst. apply Hs. reflexivity.
      * case_if H; [inversion H; reflexivity|].
        inv_bind H. inversion H; subst. apply Hs. reflexivity.
    + inv_bind H. destruct x as [[rest' pr1] b1]. inversion H; subst.
      specialize (IH _ _ _ Hx). unfold snaps in *. cbn [filter]. rewrite IH. reflexivity.
Qed.

Definition needed_unavailable (r : raft) (pr : progress) : Prop :=
  (exists e, log_entries (r_log r) (next_idx pr) (Some (r_max_msg_size r)) = Ok (SErr e) /\
             e <> LogTemporarilyUnavailable) \/
  (exists e, RaftLog.term (r_log r) (next_idx pr - 1) = Ok (SErr e)).

(* the snapshot branch of maybe_send_append *)
Lemma send_snapshot_branch r to pr r' pr' b :
  (x <- prepare_send_snapshot r (msg_default <| m_to := to |>) pr to ;;
   match x with
   | None => Ok (r, pr, false)
   | Some (m', pr1) => r1 <- send r m' ;; Ok (r1, pr1, true)
   end) = Ok (r', pr', b) ->
  (b = false /\ r' = r /\ pr' = pr) \/
  (b = true /\ recent_active pr = true /\
   exists sn, raft_snapshot r (pending_request_snapshot pr) to = Ok (SOk sn) /\
     s_index sn <> 0 /\ pr' = become_snapshot pr (s_index sn) /\
     r' = r <| r_msgs := r_msgs r ++
            [msg_default <| m_to := to |> <| m_type := MsgSnapshot |> <| m_snapshot := sn |>
               <| m_from := r_id r |> <| m_term := r_term r |>] |>).
Proof.
  intros H. inv_bind H. unfold prepare_send_snapshot in Hx.
  destruct (recent_active pr) eqn:Ea; cbn [negb] in Hx.
  2:{ inversion Hx; subst. inversion H; subst. left. auto. }
  inv_bind Hx. destruct x0 as [sn|e].
  - case_if Hx; [discriminate|]. inversion Hx; subst; clear Hx.
    inv_bind H. inversion H; subst; clear H.
    rewrite send_plain in Hx by reflexivity. inversion Hx; subst; clear Hx.
    right. split; [reflexivity|]. split; [reflexivity|].
    exists sn. split; [exact Hx0|]. split; [apply N.eqb_neq; exact E|]. split; reflexivity.
  - destruct e; try discriminate. inversion Hx; subst. inversion H; subst. left. auto.
Qed.

Theorem snapshot_send_guard r to pr ae r' pr' b :
  maybe_send_append r to pr ae = Ok (r', pr', b) ->
  (* no MsgSnapshot is added or removed ... *)
  snaps (r_msgs r') = snaps (r_msgs r) \/
  (* ... or exactly one is appended, under the guard *)
  (b = true /\ is_paused pr = false /\ recent_active pr = true /\
   (pending_request_snapshot pr <> 0 \/ needed_unavailable r pr) /\
   exists sn, raft_snapshot r (pending_request_snapshot pr) to = Ok (SOk sn) /\
     s_index sn <> 0 /\
     pr' = become_snapshot pr (s_index sn) /\
     pr_state pr' = Snapshot /\ pending_snapshot pr' = s_index sn /\
     r' = r <| r_msgs := r_msgs r ++
            [msg_default <| m_to := to |> <| m_type := MsgSnapshot |> <| m_snapshot := sn |>
               <| m_from := r_id r |> <| m_term := r_term r |>] |>).
Proof.
  unfold maybe_send_append. intros H.
  destruct (is_paused pr) eqn:Ep; [inversion H; left; reflexivity|].
  assert (Hsnap : forall r' pr' b,
    (x <- prepare_send_snapshot r (msg_default <| m_to := to |>) pr to ;;
     match x with
     | None => Ok (r, pr, false)
     | Some (m', pr1) => r1 <- send r m' ;; Ok (r1, pr1, true)
     end) = Ok (r', pr', b) ->
    (pending_request_snapshot pr <> 0 \/ needed_unavailable r pr) ->
    snaps (r_msgs r') = snaps (r_msgs r) \/
    (b = true /\ false = false /\ recent_active pr = true /\
     (pending_request_snapshot pr <> 0 \/ needed_unavailable r pr) /\
     exists sn, raft_snapshot r (pending_request_snapshot pr) to = Ok (SOk sn) /\
       s_index sn <> 0 /\
       pr' = become_snapshot pr (s_index sn) /\
       pr_state pr' = Snapshot /\ pending_snapshot pr' = s_index sn /\
       r' = r <| r_msgs := r_msgs r ++
              [msg_default <| m_to := to |> <| m_type := MsgSnapshot |> <| m_snapshot := sn |>
                 <| m_from := r_id r |> <| m_term := r_term r |>] |>)).
  { intros r2 pr2 b2 H2 G. apply send_snapshot_branch in H2.
    destruct H2 as [(_ & -> & _)|(-> & A & sn & B & C0 & -> & ->)]; [left; reflexivity|].
    right. split; [reflexivity|]. split; [reflexivity|]. split; [exact A|]. split; [exact G|].
    exists sn. repeat split; assumption. }
  destruct (pending_request_snapshot pr =? INVALID_INDEX) eqn:Eq; cbn [negb] in H.
  2:{ apply Hsnap; [exact H|]. left. apply N.eqb_neq. exact Eq. }
  inv_bind H. rename x into ents. rename Hx into Hents.
  case_if H; [inversion H; left; reflexivity|].
  case_if H; [discriminate|].
  inv_bind H. rename x into t. rename Hx into Hterm.
  destruct t as [t|et]; destruct ents as [ents|ee].
  - (* entries path: nothing of type MsgSnapshot changes *)
    left. inv_bind H. destruct x as [[msgs' pr1] batched].
    assert (Hb : snaps msgs' = snaps (r_msgs r)).
    { destruct (r_batch_append r).
      - eapply try_batching_snaps; exact Hx.
      - inversion Hx; reflexivity. }
    destruct batched.
    + inversion H; subst. cbn. exact Hb.
    + inv_bind H. destruct x as [m' pr2]. inv_bind H. inversion H; subst; clear H.
      apply send_msgs in Hx1. destruct Hx1 as (m2 & A & B & _).
      rewrite A, snaps_app. unfold snaps at 2. cbn [filter]. rewrite B.
      assert (Ht : m_type m' = MsgAppend).
      { unfold prepare_send_entries in Hx0. case_if Hx0; [discriminate|].
        destruct ents; [inversion Hx0; reflexivity|].
        inv_bind Hx0. inversion Hx0; reflexivity. }
      rewrite Ht. change (MsgAppend =? MsgSnapshot) with false. rewrite app_nil_r. reflexivity.
  - destruct ee; try (apply Hsnap; [exact H|]; right; left; eexists; split; [exact Hents|discriminate]).
    inversion H; left; reflexivity.
  - apply Hsnap; [exact H|]. right. right. eexists. exact Hterm.
  - destruct ee; try (apply Hsnap; [exact H|]; right; left; eexists; split; [exact Hents|discriminate]).
    inversion H; left; reflexivity.
Qed.

(* the only storage errors log_entries can answer *)
Lemma log_entries_err l i max e :
  log_entries l i max = Ok (SErr e) -> e = Compacted \/ e = LogTemporarilyUnavailable.
Proof.
  unfold log_entries. intros H. case_if H; [discriminate|]. case_if H; [discriminate|].
  unfold slice in H. inv_bind H. destruct x as [e0|].
  - inversion H; subst. unfold must_check_outofbounds in Hx.
    case_if Hx; [discriminate|]. inv_bind Hx. case_if Hx; [inversion Hx; auto|].
    case_if Hx; [discriminate|]. case_if Hx; discriminate.
  - case_if H; [discriminate|]. inv_bind H. destruct x as [early|ents].
    + inversion H; subst; clear H. case_if Hx0; [|discriminate].
      inv_bind Hx0. destruct x as [ents|e1].
      * case_if Hx0; inversion Hx0.
      * destruct e1; inversion Hx0; auto.
    + inv_bind H. discriminate.
Qed.

Corollary snapshot_send_guard_compacted r pr :
  needed_unavailable r pr ->
  log_entries (r_log r) (next_idx pr) (Some (r_max_msg_size r)) = Ok (SErr Compacted) \/
  (exists e, RaftLog.term (r_log r) (next_idx pr - 1) = Ok (SErr e)).
Proof.
  intros [(e & H & Hne)|H]; [left|right; exact H].
  destruct (log_entries_err _ _ _ _ H) as [->| ->]; [exact H|congruence].
Qed.

(* ------------------------------------------------------------------ *)
(* 7. resuming replication after a snapshot *)

(* the progress after a snapshot status report *)
Definition resumed_pr (pr : progress) (failure : bool) : progress :=
  mkPr (matched pr)
       (if failure then matched pr + 1 else N.max (matched pr + 1) (pending_snapshot pr + 1))
       Probe true 0 0 (recent_active pr) (Inflights.reset (ins pr))
       (commit_group_id pr) (Progress.committed_index pr).

Theorem snapshot_resume r m :
  handle_snapshot_status r m =
  Ok (match get_pr r (m_from m) with
      | None => r
      | Some pr =>
          match pr_state pr with
          | Snapshot => put_pr r (m_from m) (resumed_pr pr (m_reject m))
          | _ => r
          end
      end).
Proof.
  unfold handle_snapshot_status. destruct (get_pr r (m_from m)) as [pr|]; [|reflexivity].
  destruct (pr_state pr) eqn:Es; cbn [pstate_eqb negb]; try reflexivity.
  unfold resumed_pr. destruct (m_reject m).
  - unfold become_probe, snapshot_failure. cbn [pr_state set_pending_snapshot]. rewrite Es.
    cbn. rewrite N.max_l by lia. reflexivity.
  - unfold become_probe. rewrite Es. reflexivity.
Qed.

(* through step: MsgSnapStatus is a local message (term 0) handled by the leader only *)
Theorem snapshot_resume_step r m :
  m_type m = MsgSnapStatus -> m_term m = 0 -> r_state r = Leader ->
  step r m = (r' <- handle_snapshot_status r m ;; Ok (r', E_OK)).
Proof.
  intros Ht H0 Hl. unfold step. rewrite H0. change (0 =? 0) with true. cbn [bind].
  rewrite Ht, Hl.
  change (MsgSnapStatus =? MsgHup) with false.
  change (MsgSnapStatus =? MsgRequestVote) with false.
  change (MsgSnapStatus =? MsgRequestPreVote) with false.
  cbn [orb]. unfold step_leader. rewrite Ht.
  change (MsgSnapStatus =? MsgBeat) with false.
  change (MsgSnapStatus =? MsgCheckQuorum) with false.
  change (MsgSnapStatus =? MsgPropose) with false.
  change (MsgSnapStatus =? MsgReadIndex) with false.
  change (MsgSnapStatus =? MsgAppendResponse) with false.
  change (MsgSnapStatus =? MsgHeartbeatResponse) with false.
  change (MsgSnapStatus =? MsgSnapStatus) with true.
  reflexivity.
Qed.

Theorem snapshot_status_nonleader r m :
  m_type m = MsgSnapStatus -> m_term m = 0 -> r_state r <> Leader -> step r m = Ok (r, E_OK).
Proof.
  intros Ht H0 Hl. unfold step. rewrite H0. change (0 =? 0) with true. cbn [bind].
  rewrite Ht.
  change (MsgSnapStatus =? MsgHup) with false.
  change (MsgSnapStatus =? MsgRequestVote) with false.
  change (MsgSnapStatus =? MsgRequestPreVote) with false.
  cbn [orb]. destruct (r_state r); try congruence;
    unfold step_candidate, step_follower; rewrite Ht; reflexivity.
Qed.

(* the part of handle_append_response that follows the progress update of a
   successful, advancing acknowledgement (verbatim tail of the model function) *)
Definition ack_tail (r : raft) (m : msg) (old_paused : bool) : Res raft :=
  x <- maybe_commit r ;;
  let '(r1, cmt) := x in
  r2 <- (if cmt then (if should_bcast_commit r1 then bcast_append r1 else Ok r1)
         else if old_paused then send_append_to r1 (m_from m) else Ok r1) ;;
  r3 <- send_append_aggressively r2 (m_from m) ;;
  match r_lead_transferee r3 with
  | Some t =>
      if t =? m_from m then
        match get_pr r3 (m_from m) with
        | None => Panic site_pr_unwrap
        | Some p => if matched p =? last_index (r_log r3) then send_timeout_now r3 (m_from m)
                    else Ok r3
        end
      else Ok r3
  | None => Ok r3
  end.

(* progress of a peer in Snapshot state after an acknowledgement of [idx] *)
Definition acked_snapshot_pr (pr0 : progress) (cmt idx : N) : progress :=
  let ci := if Progress.committed_index pr0 <? cmt then cmt else Progress.committed_index pr0 in
  if pending_snapshot pr0 <=? idx then
    (* caught up: probe right after the acknowledged index *)
    mkPr idx (idx + 1) Probe false 0 (pending_request_snapshot pr0) true
         (Inflights.reset (ins pr0)) (commit_group_id pr0) ci
  else
    (* still waiting for the snapshot to be applied *)
    mkPr idx (N.max (next_idx pr0) (idx + 1)) Snapshot false (pending_snapshot pr0)
         (pending_request_snapshot pr0) true (ins pr0) (commit_group_id pr0) ci.

Lemma acked_snapshot_pr_eq pr0 cmt idx :
  pr_state pr0 = Snapshot -> matched pr0 < idx ->
  let pr := update_committed (set_recent_active pr0 true) cmt in
  exists p1, maybe_update pr idx = (p1, true) /\ is_paused pr = true /\ pr_state p1 = Snapshot /\
    (if is_snapshot_caught_up p1 then become_probe p1 else p1) = acked_snapshot_pr pr0 cmt idx.
Proof.
  intros Hs Hm. destruct pr0 as [ma ne st pa ps prs ra inn cg ci]. cbn in Hs, Hm. subst st.
  cbn zeta.
  set (pr := update_committed (set_recent_active (mkPr ma ne Snapshot pa ps prs ra inn cg ci) true) cmt).
  exists (fst (maybe_update pr idx)).
  assert (Hpr : pr = mkPr ma ne Snapshot pa ps prs true inn cg (if ci <? cmt then cmt else ci)).
  { subst pr. unfold update_committed, set_recent_active. cbn [Progress.committed_index].
    destruct (ci <? cmt); reflexivity. }
  unfold acked_snapshot_pr. cbn [Progress.committed_index pending_snapshot ins
    pending_request_snapshot commit_group_id next_idx].
  rewrite Hpr. clear Hpr pr. generalize (if ci <? cmt then cmt else ci). intros ci'.
  unfold maybe_update. cbn [matched]. destruct (ma <? idx) eqn:E1; [|lia].
  unfold resume, set_matched, set_paused. cbn -[N.max].
  destruct (ne <? idx + 1) eqn:E3; cbn -[N.max].
  - split; [reflexivity|]. split; [reflexivity|]. split; [reflexivity|].
    unfold is_snapshot_caught_up, become_probe. cbn -[N.max].
    destruct (ps <=? idx) eqn:E4; cbn -[N.max].
    + replace (N.max (idx + 1) (ps + 1)) with (idx + 1) by lia. reflexivity.
    + replace (N.max ne (idx + 1)) with (idx + 1) by lia. reflexivity.
  - split; [reflexivity|]. split; [reflexivity|]. split; [reflexivity|].
    unfold is_snapshot_caught_up, become_probe. cbn -[N.max].
    destruct (ps <=? idx) eqn:E4; cbn -[N.max].
    + replace (N.max (idx + 1) (ps + 1)) with (idx + 1) by lia. reflexivity.
    + replace (N.max ne (idx + 1)) with ne by lia. reflexivity.
Qed.

Theorem snapshot_ack r m pr0 :
  get_pr r (m_from m) = Some pr0 -> pr_state pr0 = Snapshot -> m_reject m = false ->
  (matched pr0 < m_index m ->
   handle_append_response r m =
   ack_tail (put_pr r (m_from m) (acked_snapshot_pr pr0 (m_commit m) (m_index m))) m true) /\
  (m_index m <= matched pr0 ->
   exists pr1, handle_append_response r m = Ok (put_pr r (m_from m) pr1) /\
     pr_state pr1 = Snapshot /\ pending_snapshot pr1 = pending_snapshot pr0 /\
     matched pr1 = matched pr0).
Proof.
  intros Hg Hs Hr. unfold handle_append_response. rewrite Hr. cbn [andb bind]. rewrite Hg.
  split; intros Hm.
  - destruct (acked_snapshot_pr_eq pr0 (m_commit m) (m_index m) Hs Hm) as (p1 & A & B & C0 & D).
    rewrite A. cbn [negb]. rewrite C0. cbn [bind]. rewrite D, B. reflexivity.
  - unfold maybe_update.
    assert (E1 : (matched (update_committed (set_recent_active pr0 true) (m_commit m)) <? m_index m)
                 = false).
    { unfold update_committed. destruct (_ <? m_commit m); cbn; lia. }
    rewrite E1. cbn [negb]. eexists. split; [reflexivity|].
    unfold update_committed. destruct (_ <? m_commit m); destruct (_ <? m_index m + 1); cbn; auto.
Qed.

(* Progress level: is_snapshot_caught_up => Probe right after [matched] *)
Lemma caught_up_probe pr :
  is_snapshot_caught_up pr = true ->
  pr_state (become_probe pr) = Probe /\ next_idx (become_probe pr) = matched pr + 1 /\
  pending_snapshot (become_probe pr) = 0 /\ matched (become_probe pr) = matched pr /\
  is_paused (become_probe pr) = false.
Proof.
  unfold is_snapshot_caught_up. intros H. apply andb_prop in H. destruct H as [H1 H2].
  unfold become_probe. destruct (pr_state pr); try discriminate. cbn.
  repeat split; try reflexivity. lia.
Qed.

(* ------------------------------------------------------------------ *)
(* 8. compaction is transparent above the compaction point *)

Lemma skipn_skipn' {A} (l : list A) a b : skipn a (skipn b l) = skipn (b + a) l.
Proof.
  revert l. induction b as [|b IH]; intros l; [reflexivity|].
  destruct l as [|x t]; [rewrite !skipn_nil; reflexivity|]. cbn [skipn Nat.add]. apply IH.
Qed.

Section Compaction.
  Variable m : MemStorage.mem.
  Variable ci : N.
  Hypothesis HI : RepInv m.
  Hypothesis H1 : first_of m < ci.
  Hypothesis H2 : ci < next_of m.

  Let k := N.to_nat (ci - first_of m).
  Let m' := set_entries m (skipn k (entries m)).

  Lemma cpt_compact : compact m ci = Ok m' /\ RepInv m' /\ first_of m' = ci.
  Proof. exact (compact_ok m ci HI H1 H2). Qed.

  Lemma cpt_next : next_of m' = next_of m.
  Proof.
    destruct cpt_compact as (_ & _ & Hf). unfold next_of. rewrite Hf.
    subst m'. cbn [entries set_entries]. rewrite skipn_length.
    unfold next_of in H2. subst k. lia.
  Qed.

  Lemma cpt_last_index : MemStorage.last_index m' = MemStorage.last_index m.
  Proof.
    destruct cpt_compact as (_ & HI' & _).
    pose proof (last_index_next m HI). pose proof (last_index_next m' HI').
    pose proof cpt_next. lia.
  Qed.

  Lemma cpt_entry_at i : ci <= i -> entry_at m' i = entry_at m i.
  Proof.
    intros Hi. destruct cpt_compact as (_ & _ & Hf). unfold entry_at. rewrite Hf.
    destruct (i <? ci) eqn:E1; [lia|]. destruct (i <? first_of m) eqn:E2; [lia|].
    subst m'. cbn [entries set_entries]. rewrite nth_error_skipn'. f_equal. subst k. lia.
  Qed.

  Lemma cpt_storage_term i : ci <= i -> storage_term m' i = storage_term m i.
  Proof.
    intros Hi. destruct cpt_compact as (_ & HI' & Hf).
    rewrite (term_spec m' i HI'), (term_spec m i HI), Hf, (cpt_entry_at i Hi).
    change (snap_index m') with (snap_index m). change (snap_term m') with (snap_term m).
    destruct HI as (_ & Hs & _).
    destruct (i =? snap_index m) eqn:E0; [lia|].
    destruct (i <? ci) eqn:E1; [lia|]. destruct (i <? first_of m) eqn:E2; [lia|]. reflexivity.
  Qed.

  Lemma cpt_storage_entries lo hi max ctx :
    ci <= lo -> lo <= hi ->
    (r <- storage_entries m' lo hi max ctx ;; Ok (snd r)) =
    (r <- storage_entries m lo hi max ctx ;; Ok (snd r)).
  Proof.
    intros Hlo Hhi. destruct cpt_compact as (_ & HI' & Hf).
    unfold storage_entries. rewrite (first_index_ok m' HI'), (first_index_ok m HI), Hf.
    cbn [bind]. rewrite cpt_last_index.
    destruct (lo <? ci) eqn:E1; [lia|]. destruct (lo <? first_of m) eqn:E2; [lia|].
    destruct (MemStorage.last_index m =? u64_max); [reflexivity|].
    destruct (MemStorage.last_index m + 1 <? hi); [reflexivity|].
    change (trig_log m') with (trig_log m).
    destruct (trig_log m && can_async ctx); [reflexivity|].
    cbn [bind].
    assert (Hk : (k <= length (entries m))%nat) by (unfold next_of in H2; subst k; lia).
    destruct (hi <? ci) eqn:E3; [lia|]. destruct (hi <? first_of m) eqn:E4; [lia|].
    destruct (N.to_nat (hi - ci) <? N.to_nat (lo - ci))%nat eqn:E5; [lia|].
    destruct (N.to_nat (hi - first_of m) <? N.to_nat (lo - first_of m))%nat eqn:E6; [lia|].
    subst m'. cbn [entries set_entries].
    assert (Hlen : length (skipn k (entries m)) = (length (entries m) - k)%nat)
      by apply skipn_length.
    destruct (length (skipn k (entries m)) <? N.to_nat (hi - ci))%nat eqn:E7;
      destruct (length (entries m) <? N.to_nat (hi - first_of m))%nat eqn:E8;
      try reflexivity; try (exfalso; subst k; lia).
    cbn [bind snd]. rewrite skipn_skipn'.
    replace (k + N.to_nat (lo - ci))%nat with (N.to_nat (lo - first_of m)) by (subst k; lia).
    replace (N.to_nat (hi - ci) - N.to_nat (lo - ci))%nat
      with (N.to_nat (hi - first_of m) - N.to_nat (lo - first_of m))%nat by lia.
    reflexivity.
  Qed.

  (* RaftLog level *)
  Variable l : raft_log.
  Hypothesis Hst : store l = m.
  Let l' := set_store l m'.

  Lemma cpt_log_last_index : last_index l' = last_index l.
  Proof.
    unfold last_index. subst l'. cbn [unst set_store store].
    destruct (u_maybe_last_index (unst l)); [reflexivity|].
    unfold storage_last_index. rewrite Hst. apply cpt_last_index.
  Qed.

  Lemma cpt_log_first_index :
    RaftLog.first_index l' = match u_maybe_first_index (unst l) with
                             | Some i => Ok i
                             | None => Ok ci
                             end /\
    RaftLog.first_index l = match u_maybe_first_index (unst l) with
                            | Some i => Ok i
                            | None => Ok (first_of m)
                            end.
  Proof.
    destruct cpt_compact as (_ & HI' & Hf).
    unfold RaftLog.first_index. subst l'. cbn [unst set_store store].
    destruct (u_maybe_first_index (unst l)); [split; reflexivity|].
    unfold storage_first_index. rewrite Hst, (first_index_ok m' HI'), (first_index_ok m HI), Hf.
    split; reflexivity.
  Qed.

  Lemma cpt_log_term i : ci <= i -> RaftLog.term l' i = RaftLog.term l i.
  Proof.
    intros Hi. unfold RaftLog.term. destruct cpt_log_first_index as [F' F]. rewrite F', F.
    rewrite cpt_log_last_index.
    change (unst l') with (unst l). change (store l') with m'. rewrite Hst.
    rewrite (cpt_storage_term i Hi).
    destruct (u_maybe_first_index (unst l)) as [fi|]; [reflexivity|].
    cbn [bind]. pose proof (first_pos m HI).
    destruct (ci =? 0) eqn:E1; [lia|]. destruct (first_of m =? 0) eqn:E2; [lia|].
    destruct (i <? ci - 1) eqn:E3; [lia|]. destruct (i <? first_of m - 1) eqn:E4; [lia|].
    reflexivity.
  Qed.

  Lemma cpt_log_slice lo hi max :
    ci <= lo -> ci <= last_index l + 1 ->
    RaftLog.slice l' lo hi max = RaftLog.slice l lo hi max.
  Proof.
    intros Hlo Hla. unfold RaftLog.slice.
    assert (Hmc : must_check_outofbounds l' lo hi = must_check_outofbounds l lo hi).
    { unfold must_check_outofbounds. destruct cpt_log_first_index as [F' F]. rewrite F', F.
      rewrite cpt_log_last_index.
      destruct (hi <? lo); [reflexivity|].
      destruct (u_maybe_first_index (unst l)) as [fi|]; [reflexivity|]. cbn [bind].
      destruct (lo <? ci) eqn:E1; [lia|]. destruct (lo <? first_of m) eqn:E2; [lia|].
      destruct (last_index l + 1 <? ci) eqn:E3; [lia|].
      destruct (last_index l + 1 <? first_of m) eqn:E4; [lia|].
      cbn [orb].
      replace (ci + (last_index l + 1 - ci)) with (last_index l + 1) by lia.
      replace (first_of m + (last_index l + 1 - first_of m)) with (last_index l + 1) by lia.
      reflexivity. }
    rewrite Hmc.
    destruct (must_check_outofbounds l lo hi) as [[e|]|s] eqn:Emc; cbn [bind]; try reflexivity.
    destruct (lo =? hi) eqn:Eeq; [reflexivity|].
    change (unst l') with (unst l).
    assert (Hhi : lo <= hi).
    { unfold must_check_outofbounds in Emc. destruct (hi <? lo) eqn:E; [discriminate|lia]. }
    destruct (lo <? u_offset (unst l)) eqn:Eoff; [|reflexivity].
    unfold store_entries. change (store l') with m'. rewrite Hst.
    rewrite (cpt_storage_entries lo (N.min hi (u_offset (unst l))) max (CtxEmpty false) Hlo
               ltac:(lia)).
    reflexivity.
  Qed.

  Lemma cpt_log_entries i max :
    ci <= i -> ci <= last_index l + 1 -> log_entries l' i max = log_entries l i max.
  Proof.
    intros Hi Hla. unfold log_entries. rewrite cpt_log_last_index.
    destruct (last_index l <? i); [reflexivity|].
    destruct (last_index l =? u64_max); [reflexivity|]. apply cpt_log_slice; assumption.
  Qed.
End Compaction.

Theorem compaction_transparent l ci :
  RepInv (store l) -> first_of (store l) < ci -> ci < next_of (store l) ->
  ci <= applied l -> applied l <= last_index l ->
  exists m', compact (store l) ci = Ok m' /\ RepInv m' /\ first_of m' = ci /\
    let l' := set_store l m' in
    committed l' = committed l /\ applied l' = applied l /\ persisted l' = persisted l /\
    unst l' = unst l /\ last_index l' = last_index l /\
    RaftLog.first_index l' = match u_maybe_first_index (unst l) with
                             | Some i => Ok i | None => Ok ci end /\
    (forall i, ci <= i -> RaftLog.term l' i = RaftLog.term l i) /\
    (forall lo hi max, ci <= lo -> RaftLog.slice l' lo hi max = RaftLog.slice l lo hi max) /\
    (forall i max, ci <= i -> log_entries l' i max = log_entries l i max).
Proof.
  intros HI H1 H2 Ha Hal.
  destruct (cpt_compact (store l) ci HI H1 H2) as (A & B & C0).
  eexists. split; [exact A|]. split; [exact B|]. split; [exact C0|].
  cbn zeta. repeat split.
  - exact (cpt_log_last_index (store l) ci HI H1 H2 l eq_refl).
  - exact (proj1 (cpt_log_first_index (store l) ci HI H1 H2 l eq_refl)).
  - intros i Hi. exact (cpt_log_term (store l) ci HI H1 H2 l eq_refl i Hi).
  - intros lo hi max Hlo. apply (cpt_log_slice (store l) ci HI H1 H2 l eq_refl); [exact Hlo|lia].
  - intros i max Hi. apply (cpt_log_entries (store l) ci HI H1 H2 l eq_refl); [exact Hi|lia].
Qed.

(* compaction at or below the first index is a no-op *)
Theorem compaction_noop l ci :
  RepInv (store l) -> ci <= first_of (store l) -> compact (store l) ci = Ok (store l).
Proof. intros HI H. apply compact_noop; assumption. Qed.

Lemma requested_stale_snapshot_keeps_log_step_full :
  exists r1 r' mm,
    request_snapshot w_follower = Ok (r1, E_OK) /\
    step r1 w_msg = Ok (r', E_OK) /\
    last_index (r_log r1) = 5 /\ last_index (r_log r') = 5 /\
    r_log r' = r_log r1 /\
    r_msgs r' = r_msgs r1 ++ [mm] /\
    m_type mm = MsgAppendResponse /\ m_index mm = 4 /\ m_reject mm = false.
Proof.
  destruct w_requested_ok as (r1 & A & B & _).
  destruct requested_stale_snapshot_keeps_log_step as (r' & mm & C0 & D).
  exists r1, r', mm. rewrite <- B. split; [rewrite B; exact A|]. split; [exact C0|exact D].
Qed.

(* example states used by the non-vacuity Examples in Props/C15.v *)
Definition ex_leader : raft :=
  let st := mkMem (mkHS 1 1 5) w_cs [w_ent 4; w_ent 5] 3 1 false false None in
  mkRaft 1 1 1 [] (mkLog st (u_new 6) 5 5 5 0) 256 1000 0 Leader true 1 None 0 (ro_new 0) 0 0
         false false false false false 1 10 15 10 20 0%Z u64_max 0 5 u64_max
         (mkTr [(1, mkPr 5 6 Replicate false 0 0 true (Inflights.new 256) 0 5);
                (2, mkPr 0 2 Probe false 0 0 true (Inflights.new 256) 0 0);
                (3, mkPr 5 6 Replicate false 0 0 true (Inflights.new 256) 0 5)]
               (mkConf [1; 2; 3] [] [] [] false) [] 256 false) [] [] None.

