(* C08 — ReadIndex (Safe mode): node-level mechanism theorems about M/Raft.v
   (ReadOnly bookkeeping, the own-term-commit gate, recording the commit index,
   the quorum check on heartbeat responses, routing of the answer, reset drops
   pending reads, heartbeat context echo, commit monotonicity).
   The cluster-level linearizability statement is NOT proved here (protocol level).
   Pinned statements are in Props/C08.v.  No model file is edited. *)
From RV Require Import Base.Prelude Base.IdSet Base.IdSetProofs M.Util M.Proto M.MemStorage
  M.Inflights M.Progress M.RaftLog M.Quorum M.ConfChange M.Msg M.Raft M.RawNode
  M.RaftProofs M.RaftProofsC15 M.RaftProofsC09.
From RecordUpdate Require Import RecordSet.
Import RecordSetNotations.

Local Open Scope N_scope.

(* ================================================================== *)
(* 1. the ReadOnly data structure                                      *)
(* ================================================================== *)

Lemma list_eqb_eq a : forall b, list_eqb a b = true <-> a = b.
Proof.
  induction a as [|x a IH]; intros [|y b]; cbn [list_eqb]; split; intros H;
    try reflexivity; try discriminate.
  - apply andb_prop in H. destruct H as [H1 H2]. apply N.eqb_eq in H1. apply IH in H2. congruence.
  - inversion H; subst. rewrite N.eqb_refl. cbn. apply IH. reflexivity.
Qed.

Lemma list_eqb_refl a : list_eqb a a = true.
Proof. apply list_eqb_eq. reflexivity. Qed.

Lemma list_eqb_neq a b : list_eqb a b = false <-> a <> b.
Proof.
  split.
  - intros H E. apply list_eqb_eq in E. congruence.
  - intros H. destruct (list_eqb a b) eqn:E; [|reflexivity]. apply list_eqb_eq in E. contradiction.
Qed.

Lemma list_eqb_sym a b : list_eqb a b = list_eqb b a.
Proof.
  destruct (list_eqb a b) eqn:E.
  - apply list_eqb_eq in E. subst. symmetry. apply list_eqb_refl.
  - apply list_eqb_neq in E. symmetry. apply list_eqb_neq. congruence.
Qed.

Definition ro_keys (ro : read_only) : list (list N) := map fst (ro_pending ro).

(* representation invariant of ReadOnly: the queue has no duplicates, the pending
   map has one entry per key (it is a HashMap in the Rust), and the keys of the
   map are exactly the queued contexts *)
Definition RoInv (ro : read_only) : Prop :=
  NoDup (ro_queue ro) /\ NoDup (ro_keys ro) /\
  (forall c, In c (ro_queue ro) <-> In c (ro_keys ro)).

Lemma RoInv_new opt : RoInv (ro_new opt).
Proof. repeat split; try constructor; intros []. Qed.

(* --- ro_find / ro_update / ro_remove --- *)

Lemma ro_find_Some_In p c v : ro_find p c = Some v -> In (c, v) p.
Proof.
  induction p as [|[k w] t IH]; cbn [ro_find]; [discriminate|].
  destruct (list_eqb k c) eqn:E.
  - intros H. inversion H; subst. apply list_eqb_eq in E. subst. left. reflexivity.
  - intros H. right. apply IH. exact H.
Qed.

Lemma ro_find_None p c : ro_find p c = None <-> ~ In c (map fst p).
Proof.
  induction p as [|[k w] t IH]; cbn [ro_find map fst In].
  - split; [intros _ []|reflexivity].
  - destruct (list_eqb k c) eqn:E.
    + apply list_eqb_eq in E. subst. split; [discriminate|]. intros H. exfalso. apply H. left. reflexivity.
    + apply list_eqb_neq in E. rewrite IH. split; intros H; [intros [A|A]; [contradiction|apply H; exact A]|].
      intros A. apply H. right. exact A.
Qed.

Lemma ro_find_In_keys p c : In c (map fst p) -> exists v, ro_find p c = Some v.
Proof.
  intros H. destruct (ro_find p c) eqn:E; [eauto|]. apply ro_find_None in E. contradiction.
Qed.

Lemma ro_find_Some_keys p c v : ro_find p c = Some v -> In c (map fst p).
Proof. intros H. apply ro_find_Some_In in H. apply (in_map fst) in H. exact H. Qed.

Lemma ro_find_app p q c :
  ro_find (p ++ q) c = match ro_find p c with Some v => Some v | None => ro_find q c end.
Proof.
  induction p as [|[k w] t IH]; cbn [app ro_find]; [reflexivity|].
  destruct (list_eqb k c); [reflexivity|exact IH].
Qed.

Lemma ro_keys_update p c v : map fst (ro_update p c v) = map fst p.
Proof.
  induction p as [|[k w] t IH]; cbn [ro_update map fst]; [reflexivity|].
  destruct (list_eqb k c); cbn [map fst]; [reflexivity|]. rewrite IH. reflexivity.
Qed.

Lemma ro_find_update p c v c' :
  ro_find (ro_update p c v) c' =
  if list_eqb c c' then match ro_find p c with Some _ => Some v | None => None end
  else ro_find p c'.
Proof.
  induction p as [|[k w] t IH]; cbn [ro_update ro_find].
  - destruct (list_eqb c c'); reflexivity.
  - destruct (list_eqb k c) eqn:E1; cbn [ro_find].
    + apply list_eqb_eq in E1. subst k. destruct (list_eqb c c'); reflexivity.
    + rewrite IH. destruct (list_eqb c c') eqn:E2; [|reflexivity].
      apply list_eqb_eq in E2. subst c'. rewrite E1. reflexivity.
Qed.

Lemma ro_update_In p c v k w :
  In (k, w) (ro_update p c v) -> In (k, w) p \/ (k = c /\ w = v /\ exists w0, In (c, w0) p).
Proof.
  induction p as [|[k0 w0] t IH]; cbn [ro_update]; [intros []|].
  destruct (list_eqb k0 c) eqn:E.
  - apply list_eqb_eq in E. subst k0. intros [H|H].
    + inversion H; subst. right. split; [reflexivity|]. split; [reflexivity|]. exists w0. left. reflexivity.
    + left. right. exact H.
  - intros [H|H]; [left; left; exact H|]. apply IH in H. destruct H as [H|(A & B & w1 & D)].
    + left. right. exact H.
    + right. split; [exact A|]. split; [exact B|]. exists w1. right. exact D.
Qed.

Lemma ro_remove_In p c k w : In (k, w) (ro_remove p c) -> In (k, w) p.
Proof.
  induction p as [|[k0 w0] t IH]; cbn [ro_remove]; [intros []|].
  destruct (list_eqb k0 c); [intros H; right; exact H|].
  intros [H|H]; [left; exact H|right; apply IH; exact H].
Qed.

Lemma ro_find_remove_other p c c' : c' <> c -> ro_find (ro_remove p c) c' = ro_find p c'.
Proof.
  intros Hne. induction p as [|[k w] t IH]; cbn [ro_remove ro_find]; [reflexivity|].
  destruct (list_eqb k c) eqn:E1.
  - apply list_eqb_eq in E1. subst k.
    destruct (list_eqb c c') eqn:E2; [apply list_eqb_eq in E2; congruence|reflexivity].
  - cbn [ro_find]. rewrite IH. reflexivity.
Qed.

Lemma ro_keys_remove_In p c c' : In c' (map fst (ro_remove p c)) -> In c' (map fst p).
Proof.
  induction p as [|[k w] t IH]; cbn [ro_remove map fst]; [intros []|].
  destruct (list_eqb k c); cbn [map fst In]; [intros H; right; exact H|].
  intros [H|H]; [left; exact H|right; apply IH; exact H].
Qed.

Lemma ro_keys_remove_NoDup p c :
  NoDup (map fst p) ->
  NoDup (map fst (ro_remove p c)) /\
  (forall c', In c' (map fst (ro_remove p c)) <-> In c' (map fst p) /\ c' <> c).
Proof.
  induction p as [|[k w] t IH]; cbn [ro_remove map fst]; intros Hnd.
  - split; [constructor|]. intros c'. split; [intros []|intros [[] _]].
  - inversion Hnd as [|? ? Hk Ht]; subst. destruct (list_eqb k c) eqn:E.
    + apply list_eqb_eq in E. subst k. split; [exact Ht|]. intros c'. cbn [In]. split.
      * intros H. split; [right; exact H|]. intros ->. contradiction.
      * intros [[A|A] B]; [congruence|exact A].
    + apply list_eqb_neq in E. destruct (IH Ht) as [N1 N2]. cbn [map fst]. split.
      * constructor; [|exact N1]. intros A. apply N2 in A. destruct A as [A _]. contradiction.
      * intros c'. cbn [In]. rewrite N2. split.
        -- intros [A|[A B]]; [subst; split; [left; reflexivity|exact E]|split; [right; exact A|exact B]].
        -- intros [[A|A] B]; [left; exact A|right; split; assumption].
Qed.

Lemma ro_find_remove_same p c : NoDup (map fst p) -> ro_find (ro_remove p c) c = None.
Proof.
  intros H. apply ro_find_None. intros A. apply (ro_keys_remove_NoDup p c H) in A.
  destruct A as [_ A]. apply A. reflexivity.
Qed.

(* --- ReadOnly::add_request --- *)

(* add_request on a context that is already pending changes nothing; otherwise the
   request is appended at the back of the queue with the given index and acks = {self} *)
Theorem ro_add_request_spec ro idx req self ro' :
  ro_add_request ro idx req self = Ok ro' ->
  exists e rest, m_entries req = e :: rest /\
    ((exists st, ro_find (ro_pending ro) (e_data e) = Some st /\ ro' = ro) \/
     (ro_find (ro_pending ro) (e_data e) = None /\
      ro' = mkRO (ro_option ro)
                 (ro_pending ro ++ [(e_data e, mkRIS req idx [self])])
                 (ro_queue ro ++ [e_data e]))).
Proof.
  unfold ro_add_request, first_entry_data. intros H.
  destruct (m_entries req) as [|e rest]; [discriminate|]. cbn [bind] in H.
  exists e, rest. split; [reflexivity|].
  destruct (ro_find (ro_pending ro) (e_data e)) as [st|] eqn:E; inversion H; subst.
  - left. exists st. split; reflexivity.
  - right. split; reflexivity.
Qed.

Theorem ro_add_request_idempotent ro idx req self e rest st :
  m_entries req = e :: rest -> ro_find (ro_pending ro) (e_data e) = Some st ->
  ro_add_request ro idx req self = Ok ro.
Proof.
  intros He Hf. unfold ro_add_request, first_entry_data. rewrite He. cbn [bind]. rewrite Hf. reflexivity.
Qed.

Lemma NoDup_snoc {T} (l : list T) x : NoDup l -> ~ In x l -> NoDup (l ++ [x]).
Proof.
  induction l as [|y l IH]; cbn [app]; intros Hnd Hx.
  - constructor; [intros []|constructor].
  - inversion Hnd; subst. constructor.
    + rewrite in_app_iff. intros [A|[A|[]]]; [contradiction|]. apply Hx. left. symmetry. exact A.
    + apply IH; [assumption|]. intros A. apply Hx. right. exact A.
Qed.

Theorem ro_add_request_RoInv ro idx req self ro' :
  ro_add_request ro idx req self = Ok ro' -> RoInv ro -> RoInv ro'.
Proof.
  intros H Hinv. apply ro_add_request_spec in H.
  destruct H as (e & rest & _ & [(st & _ & ->)|(Hn & ->)]); [exact Hinv|].
  destruct Hinv as (Hq & Hk & Hqk). apply ro_find_None in Hn.
  assert (Hnq : ~ In (e_data e) (ro_queue ro)) by (intros A; apply Hqk in A; contradiction).
  unfold RoInv, ro_keys. cbn [ro_queue ro_pending]. rewrite map_app. cbn [map fst].
  split; [|split].
  - apply NoDup_snoc; assumption.
  - apply NoDup_snoc; assumption.
  - intros c. rewrite !in_app_iff. unfold ro_keys in Hqk. rewrite Hqk. reflexivity.
Qed.

(* --- ReadOnly::recv_ack --- *)

Definition add_ack (id : N) (rs : read_index_status) : read_index_status :=
  mkRIS (ris_req rs) (ris_index rs) (IdSet.insert id (ris_acks rs)).

(* recv_ack only adds [id] to the ack set of [ctx]: queue, option, keys, every other
   entry, and the request and recorded index of every entry are untouched *)
Theorem ro_recv_ack_spec ro id ctx :
  let ro' := fst (ro_recv_ack ro id ctx) in
  snd (ro_recv_ack ro id ctx) =
    option_map (fun rs => IdSet.insert id (ris_acks rs)) (ro_find (ro_pending ro) ctx) /\
  ro_option ro' = ro_option ro /\ ro_queue ro' = ro_queue ro /\ ro_keys ro' = ro_keys ro /\
  (forall c, ro_find (ro_pending ro') c =
             if list_eqb ctx c then option_map (add_ack id) (ro_find (ro_pending ro) ctx)
             else ro_find (ro_pending ro) c).
Proof.
  unfold ro_recv_ack. destruct (ro_find (ro_pending ro) ctx) as [rs|] eqn:E; cbn [fst snd option_map].
  - cbn [ro_option ro_queue]. unfold ro_keys. cbn [ro_pending]. rewrite ro_keys_update.
    repeat split. intros c. rewrite ro_find_update, E. reflexivity.
  - repeat split. intros c. destruct (list_eqb ctx c) eqn:E2; [|reflexivity].
    apply list_eqb_eq in E2. subst c. exact E.
Qed.

Lemma ro_recv_ack_None ro id ctx :
  ro_find (ro_pending ro) ctx = None -> ro_recv_ack ro id ctx = (ro, None).
Proof. unfold ro_recv_ack. intros ->. reflexivity. Qed.

(* the recorded index and request of any context are never changed by recv_ack *)
Theorem ro_recv_ack_keeps_index ro id ctx c :
  option_map ris_index (ro_find (ro_pending (fst (ro_recv_ack ro id ctx))) c)
    = option_map ris_index (ro_find (ro_pending ro) c) /\
  option_map ris_req (ro_find (ro_pending (fst (ro_recv_ack ro id ctx))) c)
    = option_map ris_req (ro_find (ro_pending ro) c).
Proof.
  destruct (ro_recv_ack_spec ro id ctx) as (_ & _ & _ & _ & Hf). rewrite Hf.
  destruct (list_eqb ctx c) eqn:E; [|split; reflexivity].
  apply list_eqb_eq in E. subst c. destruct (ro_find (ro_pending ro) ctx); split; reflexivity.
Qed.

Theorem ro_recv_ack_RoInv ro id ctx : RoInv ro -> RoInv (fst (ro_recv_ack ro id ctx)).
Proof.
  destruct (ro_recv_ack_spec ro id ctx) as (_ & _ & Hq & Hk & _).
  unfold RoInv. rewrite Hq, Hk. auto.
Qed.

(* every entry of the pending map after recv_ack is an entry before, up to its ack set *)
Lemma ro_recv_ack_In ro id ctx c st' :
  In (c, st') (ro_pending (fst (ro_recv_ack ro id ctx))) ->
  exists st, In (c, st) (ro_pending ro) /\ ris_req st = ris_req st' /\ ris_index st = ris_index st'.
Proof.
  unfold ro_recv_ack. destruct (ro_find (ro_pending ro) ctx) as [rs|] eqn:E; cbn [fst ro_pending].
  - intros H. apply ro_update_In in H. destruct H as [H|(A & B & w0 & D)].
    + exists st'. auto.
    + subst. apply ro_find_Some_In in E. exists rs. auto.
  - intros H. exists st'. auto.
Qed.

(* --- ReadOnly::advance --- *)

Lemma ro_position_spec ro ctx : forall q i,
  (forall x, In x q -> exists v, ro_find (ro_pending ro) x = Some v) ->
  (~ In ctx q -> ro_position ro q ctx i = Ok None) /\
  (forall pre post, q = pre ++ ctx :: post -> ~ In ctx pre ->
     ro_position ro q ctx i = Ok (Some (i + length pre)%nat)).
Proof.
  induction q as [|x t IH]; intros i Hall.
  - split; [reflexivity|]. intros [|? ?] post H; discriminate.
  - cbn [ro_position]. destruct (Hall x (or_introl eq_refl)) as [v Hv]. rewrite Hv.
    assert (Hall' : forall y, In y t -> exists v, ro_find (ro_pending ro) y = Some v)
      by (intros y Hy; apply Hall; right; exact Hy).
    destruct (IH (S i) Hall') as [IH1 IH2]. split.
    + intros Hn. destruct (list_eqb x ctx) eqn:E.
      * apply list_eqb_eq in E. exfalso. apply Hn. left. exact E.
      * apply IH1. intros A. apply Hn. right. exact A.
    + intros pre post Hq Hpre. destruct pre as [|p pre]; cbn [app] in Hq; inversion Hq; subst.
      * rewrite list_eqb_refl. cbn [length]. rewrite Nat.add_0_r. reflexivity.
      * assert (E : list_eqb p ctx = false).
        { apply list_eqb_neq. intros ->. apply Hpre. left. reflexivity. }
        rewrite E. rewrite (IH2 pre post eq_refl).
        -- cbn [length]. f_equal. f_equal. lia.
        -- intros A. apply Hpre. right. exact A.
Qed.

(* the position scan only says "found" for an element of the queue *)
Lemma ro_position_Some ro ctx : forall q i k,
  ro_position ro q ctx i = Ok (Some k) -> In ctx q /\ (i <= k < i + length q)%nat.
Proof.
  induction q as [|x t IH]; intros i k H; cbn [ro_position] in H; [discriminate|].
  destruct (ro_find (ro_pending ro) x); [|discriminate].
  destruct (list_eqb x ctx) eqn:E.
  - apply list_eqb_eq in E. inversion H; subst. split; [left; reflexivity|]. cbn [length]. lia.
  - apply IH in H. destruct H as [A B]. split; [right; exact A|]. cbn [length]. lia.
Qed.

Lemma ro_pop_spec : forall k ro acc,
  RoInv ro -> (k <= length (ro_queue ro))%nat ->
  exists ro' sts, ro_pop ro k acc = Ok (ro', acc ++ sts) /\
    ro_option ro' = ro_option ro /\
    ro_queue ro' = skipn k (ro_queue ro) /\
    map Some sts = map (ro_find (ro_pending ro)) (firstn k (ro_queue ro)) /\
    (forall c, In c (firstn k (ro_queue ro)) -> ro_find (ro_pending ro') c = None) /\
    (forall c, ~ In c (firstn k (ro_queue ro)) -> ro_find (ro_pending ro') c = ro_find (ro_pending ro) c) /\
    RoInv ro'.
Proof.
  induction k as [|k IH]; intros ro acc Hinv Hlen.
  - exists ro, []. cbn [ro_pop skipn firstn map]. rewrite app_nil_r. repeat split; auto; try apply Hinv.
    intros c [].
  - cbn [ro_pop]. destruct (ro_queue ro) as [|x t] eqn:Eq; [cbn in Hlen; lia|].
    destruct Hinv as (Hq & Hk & Hqk). rewrite Eq in Hq, Hqk.
    assert (Hx : In x (ro_keys ro)) by (apply Hqk; left; reflexivity).
    destruct (ro_find_In_keys _ _ Hx) as [st Hst]. rewrite Hst.
    inversion Hq as [|? ? Hxt Hnt]; subst.
    set (ro1 := mkRO (ro_option ro) (ro_remove (ro_pending ro) x) t).
    destruct (ro_keys_remove_NoDup (ro_pending ro) x Hk) as [N1 N2].
    assert (Hinv1 : RoInv ro1).
    { unfold RoInv, ro_keys, ro1. cbn [ro_queue ro_pending]. split; [exact Hnt|]. split; [exact N1|].
      intros c. rewrite N2. unfold ro_keys in Hqk. rewrite <- Hqk. cbn [In]. split.
      - intros A. split; [right; exact A|]. intros ->. contradiction.
      - intros [[A|A] B]; [congruence|exact A]. }
    assert (Hlen1 : (k <= length (ro_queue ro1))%nat) by (cbn in Hlen |- *; lia).
    destruct (IH ro1 (acc ++ [st]) Hinv1 Hlen1) as (ro' & sts & Hp & Ho & Hq' & Hm & Hnone & Hsame & Hinv').
    exists ro', (st :: sts). rewrite <- app_assoc in Hp. cbn [app] in Hp.
    cbn [ro_queue ro_pending ro_option] in *. cbn [skipn firstn map].
    split; [exact Hp|]. split; [exact Ho|]. split; [exact Hq'|]. split; [|split; [|split]].
    + rewrite Hst. f_equal. rewrite Hm. apply map_ext_in. intros c Hc.
      apply ro_find_remove_other. intros ->. apply Hxt. apply (In_firstn_in _ _ _ Hc).
    + intros c [A|A].
      * subst c. destruct (in_dec (list_eq_dec N.eq_dec) x (firstn k t)) as [B|B].
        -- apply Hnone. exact B.
        -- rewrite (Hsame _ B). apply ro_find_remove_same. exact Hk.
      * apply Hnone. exact A.
    + intros c Hc. rewrite Hsame; [|intros A; apply Hc; right; exact A].
      apply ro_find_remove_other. intros ->. apply Hc. left. reflexivity.
    + exact Hinv'.
Qed.

Lemma firstn_app_len {T} (a b : list T) x : firstn (S (length a)) (a ++ x :: b) = a ++ [x].
Proof. induction a as [|y a IH]; cbn [length app firstn]; [reflexivity|]. f_equal. exact IH. Qed.

Lemma skipn_app_len {T} (a b : list T) x : skipn (S (length a)) (a ++ x :: b) = b.
Proof. induction a as [|y a IH]; cbn [length app skipn]; [reflexivity|exact IH]. Qed.

Lemma RoInv_all_found ro : RoInv ro ->
  forall x, In x (ro_queue ro) -> exists v, ro_find (ro_pending ro) x = Some v.
Proof. intros (_ & _ & H) x Hx. apply ro_find_In_keys. apply H. exact Hx. Qed.

(* advance(ctx): if ctx is not queued nothing changes; if it is queued at position
   |pre|, exactly the first |pre|+1 requests are popped, in order, and their statuses
   are returned in order (an acknowledged later request releases all earlier ones) *)
Theorem ro_advance_spec ro ctx : RoInv ro ->
  (~ In ctx (ro_queue ro) -> ro_advance ro ctx = Ok (ro, [])) /\
  (forall pre post, ro_queue ro = pre ++ ctx :: post ->
     exists ro' rss, ro_advance ro ctx = Ok (ro', rss) /\
       ro_option ro' = ro_option ro /\ ro_queue ro' = post /\
       map Some rss = map (ro_find (ro_pending ro)) (pre ++ [ctx]) /\
       (forall c, In c (pre ++ [ctx]) -> ro_find (ro_pending ro') c = None) /\
       (forall c, ~ In c (pre ++ [ctx]) -> ro_find (ro_pending ro') c = ro_find (ro_pending ro) c) /\
       RoInv ro').
Proof.
  intros Hinv. pose proof (RoInv_all_found ro Hinv) as Hall.
  destruct (ro_position_spec ro ctx (ro_queue ro) 0%nat Hall) as [P1 P2]. split.
  - intros Hn. unfold ro_advance. rewrite (P1 Hn). reflexivity.
  - intros pre post Hq.
    assert (Hpre : ~ In ctx pre).
    { destruct Hinv as (Hnd & _). rewrite Hq in Hnd. apply NoDup_remove_2 in Hnd.
      intros A. apply Hnd. apply in_or_app. left. exact A. }
    unfold ro_advance. rewrite (P2 pre post Hq Hpre). cbn [bind Nat.add].
    assert (Hlen : (S (length pre) <= length (ro_queue ro))%nat).
    { rewrite Hq, app_length. cbn [length]. lia. }
    destruct (ro_pop_spec (S (length pre)) ro [] Hinv Hlen)
      as (ro' & sts & Hp & Ho & Hq' & Hm & Hnone & Hsame & Hinv').
    cbn [app] in Hp. rewrite Hq, firstn_app_len in Hm, Hnone, Hsame. rewrite Hq, skipn_app_len in Hq'.
    exists ro', sts. split; [exact Hp|]. split; [exact Ho|]. split; [exact Hq'|].
    split; [exact Hm|]. split; [exact Hnone|]. split; [exact Hsame|exact Hinv'].
Qed.

(* under the representation invariant advance never panics *)
Theorem ro_advance_no_panic ro ctx : RoInv ro -> exists x, ro_advance ro ctx = Ok x.
Proof.
  intros Hinv. destruct (ro_advance_spec ro ctx Hinv) as [A B].
  destruct (in_dec (list_eq_dec N.eq_dec) ctx (ro_queue ro)) as [Hin|Hn].
  - apply in_split in Hin. destruct Hin as (pre & post & Hq).
    destruct (B pre post Hq) as (ro' & rss & H & _). eauto.
  - eauto.
Qed.

Theorem ro_advance_never_ro_missing ro ctx : RoInv ro -> ro_advance ro ctx <> Panic site_ro_missing.
Proof. intros H. destruct (ro_advance_no_panic ro ctx H) as [x ->]. discriminate. Qed.

Theorem ro_advance_RoInv ro ctx ro' rss : ro_advance ro ctx = Ok (ro', rss) -> RoInv ro -> RoInv ro'.
Proof.
  intros H Hinv. destruct (ro_advance_spec ro ctx Hinv) as [A B].
  destruct (in_dec (list_eq_dec N.eq_dec) ctx (ro_queue ro)) as [Hin|Hn].
  - apply in_split in Hin. destruct Hin as (pre & post & Hq).
    destruct (B pre post Hq) as (ro1 & rss1 & H1 & _ & _ & _ & _ & _ & Hi). congruence.
  - rewrite (A Hn) in H. inversion H; subst. exact Hinv.
Qed.

(* facts about an Ok result of advance that need no invariant *)
Lemma ro_pop_sub : forall k ro acc ro' out,
  ro_pop ro k acc = Ok (ro', out) ->
  exists sts, out = acc ++ sts /\ length sts = k /\
    (forall st, In st sts -> exists c, In c (ro_queue ro) /\ In (c, st) (ro_pending ro)) /\
    (forall c st, In (c, st) (ro_pending ro') -> In (c, st) (ro_pending ro)) /\
    ro_option ro' = ro_option ro /\ ro_queue ro' = skipn k (ro_queue ro).
Proof.
  induction k as [|k IH]; intros ro acc ro' out H; cbn [ro_pop] in H.
  - inversion H; subst. exists []. rewrite app_nil_r. repeat split; auto. intros st [].
  - destruct (ro_queue ro) as [|x t] eqn:Eq; [discriminate|].
    destruct (ro_find (ro_pending ro) x) as [st|] eqn:Ef; [|discriminate].
    apply IH in H. destruct H as (sts & -> & Hl & Hin & Hsub & Ho & Hq).
    cbn [ro_queue ro_pending ro_option] in *.
    exists (st :: sts). rewrite <- app_assoc. cbn [app length skipn]. repeat split; auto.
    + intros st' [A|A].
      * subst st'. exists x. split; [left; reflexivity|]. apply ro_find_Some_In. exact Ef.
      * destruct (Hin st' A) as (c & Hc1 & Hc2). exists c. split; [right; exact Hc1|].
        eapply ro_remove_In; exact Hc2.
    + intros c st' A. eapply ro_remove_In. apply Hsub. exact A.
Qed.

Theorem ro_advance_sub ro ctx ro' rss :
  ro_advance ro ctx = Ok (ro', rss) ->
  ro_option ro' = ro_option ro /\
  (forall st, In st rss -> exists c, In c (ro_queue ro) /\ In (c, st) (ro_pending ro)) /\
  (forall c st, In (c, st) (ro_pending ro') -> In (c, st) (ro_pending ro)) /\
  (rss <> [] -> In ctx (ro_queue ro)) /\
  (exists k, ro_queue ro' = skipn k (ro_queue ro) /\ length rss = k).
Proof.
  unfold ro_advance. intros H. inv_bind H. destruct x as [i|].
  - apply ro_position_Some in Hx. destruct Hx as [Hin _].
    apply ro_pop_sub in H. destruct H as (sts & E & Hl & A & B & C0 & D). cbn [app] in E. subst sts.
    repeat split; auto. exists (S i). split; assumption.
  - inversion H; subst. repeat split; auto.
    + intros st [].
    + intros A. contradiction.
    + exists 0%nat. split; reflexivity.
Qed.

(* ro_last_pending_request_ctx is the back of the queue *)
Lemma ro_last_pending_spec ro :
  ro_last_pending_request_ctx ro =
    match ro_queue ro with [] => None | _ => Some (List.last (ro_queue ro) []) end.
Proof. reflexivity. Qed.

Lemma ro_last_pending_In ro c : ro_last_pending_request_ctx ro = Some c -> In c (ro_queue ro).
Proof.
  unfold ro_last_pending_request_ctx. intros H.
  assert (Hne : ro_queue ro <> []) by (intros E; rewrite E in H; discriminate).
  assert (Hc : c = List.last (ro_queue ro) []).
  { destruct (ro_queue ro); [contradiction|]. inversion H. reflexivity. }
  subst c. destruct (exists_last Hne) as (l' & a & ->). rewrite last_last.
  apply in_or_app. right. left. reflexivity.
Qed.

(* ================================================================== *)
(* 2. frames                                                           *)
(* ================================================================== *)

Ltac cif H :=
  match type of H with
  | (if ?c then _ else _) = _ => let E := fresh "E" in destruct c eqn:E
  end.

(* the MsgReadIndexResp messages of an outbound queue *)
Definition is_rir (x : msg) : bool := m_type x =? MsgReadIndexResp.
Definition rir (l : list msg) : list msg := filter is_rir l.

Lemma rir_app a b : rir (a ++ b) = rir a ++ rir b.
Proof. apply filter_app. Qed.

(* light frame: what the helpers that only queue messages / update progress leave alone *)
Definition lf (r r' : raft) : Prop :=
  r_log r' = r_log r /\ r_read_only r' = r_read_only r /\ r_read_states r' = r_read_states r /\
  r_term r' = r_term r /\ r_id r' = r_id r /\ r_state r' = r_state r /\
  t_conf (r_prs r') = t_conf (r_prs r) /\ r_leader_id r' = r_leader_id r /\
  rir (r_msgs r') = rir (r_msgs r).

Lemma lf_refl r : lf r r.
Proof. repeat split. Qed.

Lemma lf_trans a b c : lf a b -> lf b c -> lf a c.
Proof. unfold lf. intuition congruence. Qed.

Ltac lf_solve := unfold lf; cbn; repeat split; try reflexivity; try congruence.

Lemma send_exact r m r' : send r m = Ok r' -> exists m', r' = r <| r_msgs := r_msgs r ++ [m'] |> /\
  m_type m' = m_type m /\ m_to m' = m_to m /\ m_context m' = m_context m /\
  m_index m' = m_index m /\ m_entries m' = m_entries m /\ m_reject m' = m_reject m.
Proof.
  unfold send. intros H. inv_bind H. inversion H; subst. eexists. split; [reflexivity|].
  assert (Hx1 : m_type x = m_type m /\ m_to x = m_to m /\ m_context x = m_context m /\
                m_index x = m_index m /\ m_entries x = m_entries m /\ m_reject x = m_reject m).
  { clear H. destruct (is_vote_type _).
    - destruct (m_term _ =? 0); inversion Hx; subst.
      destruct (m_from m =? INVALID_ID); cbn; auto 10.
    - destruct (negb _); [discriminate|].
      destruct (_ && _); inversion Hx; subst; destruct (m_from m =? INVALID_ID); cbn; auto 10. }
  destruct Hx1 as (A & B & C0 & D & E & F).
  destruct ((m_type x =? MsgRequestVote) || (m_type x =? MsgRequestPreVote));
    [destruct (0 <? r_priority r)%Z|]; cbn; auto 10.
Qed.

Lemma send_lf r m r' : send r m = Ok r' -> is_rir m = false -> lf r r'.
Proof.
  intros H Ht. apply send_exact in H. destruct H as (m' & -> & Hty & _).
  unfold lf. cbn. repeat split. rewrite rir_app. cbn [rir filter]. unfold is_rir in *.
  rewrite Hty, Ht. rewrite app_nil_r. reflexivity.
Qed.

Lemma put_pr_lf r id p : lf r (put_pr r id p).
Proof. lf_solve. Qed.

Lemma rir_cons_not m l : is_rir m = false -> rir (m :: l) = rir l.
Proof. intros H. unfold rir. cbn [filter]. rewrite H. reflexivity. Qed.

Lemma try_batching_rir r to : forall msgs pr ents msgs' pr' b,
  try_batching r to msgs pr ents = Ok (msgs', pr', b) -> rir msgs' = rir msgs.
Proof.
  induction msgs as [|m rest IH]; intros pr ents msgs' pr' b H; cbn [try_batching] in H.
  { inversion H; subst. reflexivity. }
  destruct ((m_type m =? MsgAppend) && (m_to m =? to)) eqn:E.
  - apply andb_prop in E. destruct E as [E _]. apply N.eqb_eq in E.
    assert (Hm : is_rir m = false) by (unfold is_rir; rewrite E; reflexivity).
    destruct ents as [|e0 ents].
    + inversion H; subst. rewrite !rir_cons_not; [reflexivity|exact Hm|exact Hm].
    + destruct (negb (is_continuous_ents m (e0 :: ents))); [inversion H; subst; reflexivity|].
      inv_bind H. inversion H; subst. rewrite !rir_cons_not; [reflexivity|exact Hm|exact Hm].
  - inv_bind H. destruct x as [[rest' pr1] b1]. inversion H; subst.
    apply IH in Hx. unfold rir in *. cbn [filter]. rewrite Hx. reflexivity.
Qed.

Lemma maybe_send_append_lf r to pr ae r' pr' b :
  maybe_send_append r to pr ae = Ok (r', pr', b) -> lf r r'.
Proof.
  unfold maybe_send_append. intros H.
  destruct (is_paused pr). { inversion H; subst. apply lf_refl. }
  assert (Hsnap :
    (x <- prepare_send_snapshot r (msg_default <| m_to := to |>) pr to ;;
     match x with
     | None => Ok (r, pr, false)
     | Some (m', pr'0) => r'0 <- send r m' ;; Ok (r'0, pr'0, true)
     end) = Ok (r', pr', b) -> lf r r').
  { intros Hs. inv_bind Hs. destruct x as [[m' p']|].
    - inv_bind Hs. inversion Hs; subst. eapply send_lf; [eassumption|].
      unfold prepare_send_snapshot in Hx. destruct (negb (recent_active pr)); [discriminate|].
      inv_bind Hx. destruct x as [s|e]; [|destruct e; discriminate].
      destruct (s_index s =? 0); [discriminate|]. inversion Hx; subst. reflexivity.
    - inversion Hs; subst. apply lf_refl. }
  destruct (negb (pending_request_snapshot pr =? INVALID_INDEX)). { apply Hsnap; exact H. }
  inv_bind H.
  cif H. { inversion H; subst. apply lf_refl. }
  destruct (next_idx pr =? 0); [discriminate|].
  inv_bind H.
  destruct x0 as [t|e1]; destruct x as [ents|e2].
  - inv_bind H. destruct x as [[msgs' pr1] batched].
    destruct batched.
    { inversion H; subst. unfold lf. cbn. repeat split.
      destruct (r_batch_append r); [eapply try_batching_rir; eassumption|discriminate]. }
    inv_bind H. destruct x as [m' pr2]. inv_bind H. inversion H; subst.
    eapply send_lf; [eassumption|].
    unfold prepare_send_entries in Hx2. destruct (next_idx pr =? 0); [discriminate|].
    destruct ents; [inversion Hx2; subst; reflexivity|].
    inv_bind Hx2. inversion Hx2; subst. reflexivity.
  - destruct e2; try (apply Hsnap; exact H). inversion H; subst. apply lf_refl.
  - apply Hsnap; exact H.
  - destruct e2; try (apply Hsnap; exact H). inversion H; subst. apply lf_refl.
Qed.

Lemma send_append_to_lf r to r' : send_append_to r to = Ok r' -> lf r r'.
Proof.
  unfold send_append_to. intros H. destruct (get_pr r to); [|discriminate].
  inv_bind H. destruct x as [[r1 pr1] b]. inversion H; subst.
  eapply lf_trans; [eapply maybe_send_append_lf; eassumption|apply put_pr_lf].
Qed.

Lemma send_append_aggressively_loop_lf fuel : forall r to pr r' pr',
  send_append_aggressively_loop fuel r to pr = Ok (r', pr') -> lf r r'.
Proof.
  induction fuel as [|f IH]; intros r to pr r' pr' H; [discriminate|].
  cbn [send_append_aggressively_loop] in H. inv_bind H. destruct x as [[r1 pr1] b].
  apply maybe_send_append_lf in Hx.
  destruct b.
  - eapply lf_trans; [exact Hx|eapply IH; eassumption].
  - inversion H; subst. exact Hx.
Qed.

Lemma send_append_aggressively_lf r to r' : send_append_aggressively r to = Ok r' -> lf r r'.
Proof.
  unfold send_append_aggressively. intros H. destruct (get_pr r to); [|discriminate].
  inv_bind H. destruct x as [r1 pr1]. inversion H; subst.
  eapply lf_trans; [eapply send_append_aggressively_loop_lf; eassumption|apply put_pr_lf].
Qed.

Lemma for_each_peer_lf (f : raft -> N -> Res raft) :
  (forall r id r', f r id = Ok r' -> lf r r') ->
  forall ids self r r', for_each_peer ids self f r = Ok r' -> lf r r'.
Proof.
  intros Hf. induction ids as [|id rest IH]; intros self r r' H.
  { inversion H; subst. apply lf_refl. }
  cbn [for_each_peer] in H. destruct (id =? self). { eapply IH; eassumption. }
  inv_bind H. eapply lf_trans; [eapply Hf; eassumption|eapply IH; eassumption].
Qed.

Lemma bcast_append_lf r r' : bcast_append r = Ok r' -> lf r r'.
Proof. unfold bcast_append. apply for_each_peer_lf. apply send_append_to_lf. Qed.

Lemma send_timeout_now_lf r to r' : send_timeout_now r to = Ok r' -> lf r r'.
Proof. unfold send_timeout_now. intros H. eapply send_lf; [exact H|reflexivity]. Qed.

Lemma send_request_snapshot_lf r r' : send_request_snapshot r = Ok r' -> lf r r'.
Proof.
  unfold send_request_snapshot. intros H. inv_bind H. destruct x; [|discriminate].
  eapply send_lf; [exact H|reflexivity].
Qed.

(* ================================================================== *)
(* 3. heartbeats carrying a read context                               *)
(* ================================================================== *)

(* the heartbeat the leader [r] queues for peer [to] with progress [pr] *)
Definition hb_msg (r : raft) (ctx : option (list N)) (to : N) (pr : progress) : msg :=
  (match ctx with
   | Some c => msg_default <| m_to := to |> <| m_type := MsgHeartbeat |>
                 <| m_commit := N.min (matched pr) (committed (r_log r)) |> <| m_context := c |>
   | None => msg_default <| m_to := to |> <| m_type := MsgHeartbeat |>
                 <| m_commit := N.min (matched pr) (committed (r_log r)) |>
   end) <| m_from := r_id r |> <| m_term := r_term r |>.

Lemma send_heartbeat_exact r to pr ctx :
  send_heartbeat r to pr ctx = Ok (r <| r_msgs := r_msgs r ++ [hb_msg r ctx to pr] |>).
Proof.
  unfold send_heartbeat, hb_msg. destruct ctx; apply send_plain; reflexivity.
Qed.

(* one heartbeat per tracked peer other than the node itself, in increasing id order *)
Definition hb_list (r : raft) (ctx : option (list N)) (ids : list N) : list msg :=
  flat_map (fun id => if id =? r_id r then []
                      else match get_pr r id with
                           | Some pr => [hb_msg r ctx id pr]
                           | None => []
                           end) ids.

Definition hb_fun (ctx : option (list N)) : raft -> N -> Res raft :=
  fun r id => match get_pr r id with
              | Some pr => send_heartbeat r id pr ctx
              | None => Panic site_pr_unwrap
              end.

Lemma set_msgs_same (r : raft) : r <| r_msgs := r_msgs r |> = r.
Proof. destruct r; reflexivity. Qed.

Lemma hb_loop_exact ctx : forall ids r0 ms r',
  for_each_peer ids (r_id r0) (hb_fun ctx) (r0 <| r_msgs := ms |>) = Ok r' ->
  r' = r0 <| r_msgs := ms ++ hb_list r0 ctx ids |> /\
  (forall id, In id ids -> id <> r_id r0 -> get_pr r0 id <> None).
Proof.
  induction ids as [|id rest IH]; intros r0 ms r' H.
  { cbn in H. inversion H; subst. cbn [hb_list flat_map]. rewrite app_nil_r. split; [reflexivity|].
    intros id []. }
  cbn [for_each_peer] in H. change (r_id (r0 <| r_msgs := ms |>)) with (r_id r0) in H.
  cbn [hb_list flat_map]. fold (hb_list r0 ctx rest).
  destruct (id =? r_id r0) eqn:E.
  - apply IH in H. cbn [app]. destruct H as [H1 H2]. split; [exact H1|].
    intros i [A|A] B; [subst; apply N.eqb_eq in E; contradiction|apply H2; assumption].
  - inv_bind H. unfold hb_fun in Hx.
    change (get_pr (r0 <| r_msgs := ms |>) id) with (get_pr r0 id) in Hx.
    destruct (get_pr r0 id) as [pr|] eqn:Eg; [|discriminate].
    rewrite send_heartbeat_exact in Hx. inversion Hx; subst. clear Hx.
    change (hb_msg (r0 <| r_msgs := ms |>) ctx id pr) with (hb_msg r0 ctx id pr) in H.
    match type of H with for_each_peer _ _ _ ?rr = _ =>
      change rr with (r0 <| r_msgs := ms ++ [hb_msg r0 ctx id pr] |>) in H end.
    apply IH in H. destruct H as [H1 H2]. rewrite <- app_assoc in H1. split; [exact H1|].
    intros i [A|A] B; [subst; congruence|apply H2; assumption].
Qed.

(* bcast_heartbeat_with_ctx only appends the heartbeats *)
Theorem bcast_heartbeat_with_ctx_exact r ctx r' :
  bcast_heartbeat_with_ctx r ctx = Ok r' ->
  r' = r <| r_msgs := r_msgs r ++ hb_list r ctx (pids (t_progress (r_prs r))) |>.
Proof.
  unfold bcast_heartbeat_with_ctx. fold (hb_fun ctx). intros H.
  rewrite <- (set_msgs_same r) in H at 3.
  change (r_id r) with (r_id r) in H. apply hb_loop_exact in H. apply H.
Qed.

Lemma pget_pids m id : In id (pids m) -> exists p, pget m id = Some p.
Proof.
  induction m as [|[k q] t IH]; cbn [pids map fst In pget]; [intros []|].
  intros [A|A].
  - subst. rewrite N.eqb_refl. eauto.
  - destruct (k =? id); [eauto|]. apply IH. exact A.
Qed.

(* every queued heartbeat has the shape the Safe read-index mechanism relies on *)
Lemma hb_list_shape r ctx ids x :
  In x (hb_list r ctx ids) ->
  m_type x = MsgHeartbeat /\ m_from x = r_id r /\ m_term x = r_term r /\
  m_context x = match ctx with Some c => c | None => [] end /\
  In (m_to x) ids /\ m_to x <> r_id r /\
  exists pr, get_pr r (m_to x) = Some pr /\ m_commit x = N.min (matched pr) (committed (r_log r)).
Proof.
  unfold hb_list. rewrite in_flat_map. intros (id & Hid & Hx).
  destruct (id =? r_id r) eqn:E; [destruct Hx|]. apply N.eqb_neq in E.
  destruct (get_pr r id) as [pr|] eqn:Eg; [|destruct Hx]. destruct Hx as [<-|[]].
  unfold hb_msg. destruct ctx; cbn; repeat split; auto; exists pr; auto.
Qed.

(* ... and there is exactly one per tracked peer other than the node itself *)
Lemma hb_list_dests r ctx :
  map m_to (hb_list r ctx (pids (t_progress (r_prs r))))
    = filter (fun id => negb (id =? r_id r)) (pids (t_progress (r_prs r))).
Proof.
  assert (G : forall ids, (forall id, In id ids -> In id (pids (t_progress (r_prs r)))) ->
              map m_to (hb_list r ctx ids) = filter (fun id => negb (id =? r_id r)) ids).
  { induction ids as [|id rest IH]; intros Hall; [reflexivity|].
    cbn [hb_list flat_map filter]. fold (hb_list r ctx rest). rewrite map_app.
    rewrite IH by (intros i Hi; apply Hall; right; exact Hi).
    destruct (id =? r_id r); cbn [negb map app]; [reflexivity|].
    destruct (pget_pids _ _ (Hall id (or_introl eq_refl))) as [p Hp].
    unfold get_pr. rewrite Hp. unfold hb_msg. destruct ctx; reflexivity. }
  apply G. auto.
Qed.

(* ================================================================== *)
(* 4. the term prologue of step, specialised                           *)
(* ================================================================== *)

Definition step_role (r : raft) (m : msg) : Res (raft * N) :=
  match r_state r with
  | PreCandidate | Candidate => step_candidate r m
  | Follower => step_follower r m
  | Leader => step_leader r m
  end.

(* a local (term 0) or same-term message that is neither MsgHup nor a vote request goes
   straight to the role handler *)
Lemma step_same_term r m :
  (m_term m = 0 \/ m_term m = r_term r) -> (m_type m =? MsgHup) = false ->
  (m_type m =? MsgRequestVote) || (m_type m =? MsgRequestPreVote) = false ->
  step r m = step_role r m.
Proof.
  intros Ht Hh Hv. unfold step, step_role.
  destruct (m_term m =? 0) eqn:E0.
  - cbn [bind]. rewrite Hh, Hv. reflexivity.
  - destruct Ht as [Ht|Ht]; [rewrite Ht in E0; discriminate|].
    replace (r_term r <? m_term m) with false by (symmetry; apply N.ltb_ge; lia).
    replace (m_term m <? r_term r) with false by (symmetry; apply N.ltb_ge; lia).
    cbn [bind]. rewrite Hh, Hv. reflexivity.
Qed.

(* a message from a lower term: at most an empty MsgAppendResponse (heartbeat / append under
   check_quorum or pre_vote) or a rejecting pre-vote response; the state is otherwise unchanged *)
Lemma step_lower_term r m :
  m_term m <> 0 -> m_term m < r_term r ->
  step r m =
    if (r_check_quorum r || r_pre_vote r) && ((m_type m =? MsgHeartbeat) || (m_type m =? MsgAppend)) then
      r' <- send r (new_message (m_from m) MsgAppendResponse None) ;; Ok (r', E_OK)
    else if m_type m =? MsgRequestPreVote then
      r' <- send r ((new_message (m_from m) MsgRequestPreVoteResponse None)
                      <| m_term := r_term r |> <| m_reject := true |>) ;;
      Ok (r', E_OK)
    else Ok (r, E_OK).
Proof.
  intros H0 Hlt. unfold step.
  assert (E0 : (m_term m =? 0) = false) by (apply N.eqb_neq; exact H0).
  assert (E1 : (r_term r <? m_term m) = false) by (apply N.ltb_ge; lia).
  assert (E2 : (m_term m <? r_term r) = true) by (apply N.ltb_lt; exact Hlt).
  rewrite E0, E1, E2.
  destruct ((r_check_quorum r || r_pre_vote r) && ((m_type m =? MsgHeartbeat) || (m_type m =? MsgAppend))).
  - destruct (send r (new_message (m_from m) MsgAppendResponse None)); reflexivity.
  - destruct (m_type m =? MsgRequestPreVote); [|reflexivity].
    destruct (send r _); reflexivity.
Qed.

(* ================================================================== *)
(* 5. the leader's MsgReadIndex handler                                *)
(* ================================================================== *)

(* the lone voter, and it is this node (fix 6a9ae91: [promotable] = "self is a voter") *)
Definition singleton_conf (r : raft) : bool :=
  match incoming (conf_of r), outgoing (conf_of r) with
  | [_], [] => r_promotable r
  | _, _ => false
  end.

Definition readindex_answer_now (r : raft) (m : msg) : Res (raft * N) :=
  x <- handle_ready_read_index r m (committed (r_log r)) ;;
  let '(r1, om) := x in
  r2 <- match om with Some mm => send r1 mm | None => Ok r1 end ;; Ok (r2, E_OK).

Definition step_leader_readindex (r : raft) (m : msg) : Res (raft * N) :=
  c <- commit_to_current_term r ;;
  if negb c then Ok (r, E_OK) else
  if singleton_conf r then readindex_answer_now r m else
  if ro_option (r_read_only r) =? 0 then
    ctx <- first_entry_data m ;;
    ro' <- ro_add_request (r_read_only r) (committed (r_log r)) m (r_id r) ;;
    r' <- bcast_heartbeat_with_ctx (r <| r_read_only := ro' |>) (Some ctx) ;; Ok (r', E_OK)
  else readindex_answer_now r m.

Lemma step_leader_readindex_eq r m :
  m_type m = MsgReadIndex -> step_leader r m = step_leader_readindex r m.
Proof. intros Ht. unfold step_leader. rewrite Ht. reflexivity. Qed.

Lemma step_readindex_leader r m :
  r_state r = Leader -> m_type m = MsgReadIndex -> (m_term m = 0 \/ m_term m = r_term r) ->
  step r m = step_leader_readindex r m.
Proof.
  intros Hs Ht Hterm. rewrite step_same_term; [|exact Hterm|rewrite Ht; reflexivity|rewrite Ht; reflexivity].
  unfold step_role. rewrite Hs. apply step_leader_readindex_eq. exact Ht.
Qed.

(* C08.2: a leader that has not yet committed an entry of its own term ignores MsgReadIndex:
   no read state, no message, nothing recorded *)
Theorem readindex_requires_own_term_commit_leader r m :
  m_type m = MsgReadIndex -> commit_to_current_term r = Ok false -> step_leader r m = Ok (r, E_OK).
Proof.
  intros Ht Hc. rewrite step_leader_readindex_eq by exact Ht.
  unfold step_leader_readindex. rewrite Hc. reflexivity.
Qed.

Theorem readindex_requires_own_term_commit r m :
  r_state r = Leader -> m_type m = MsgReadIndex -> m_term m <= r_term r ->
  commit_to_current_term r = Ok false -> step r m = Ok (r, E_OK).
Proof.
  intros Hs Ht Hterm Hc.
  destruct (N.eq_dec (m_term m) 0) as [E0|E0]; [|destruct (N.eq_dec (m_term m) (r_term r)) as [E1|E1]].
  - rewrite step_readindex_leader; auto. unfold step_leader_readindex. rewrite Hc. reflexivity.
  - rewrite step_readindex_leader; auto. unfold step_leader_readindex. rewrite Hc. reflexivity.
  - rewrite step_lower_term; [|exact E0|lia]. rewrite Ht.
    change (MsgReadIndex =? MsgHeartbeat) with false. change (MsgReadIndex =? MsgAppend) with false.
    change (MsgReadIndex =? MsgRequestPreVote) with false.
    rewrite andb_false_r. reflexivity.
Qed.

(* the read-only bookkeeping after a Safe MsgReadIndex for context [ctx] *)
Definition ro_after_request (r : raft) (m : msg) (ctx : list N) : read_only :=
  match ro_find (ro_pending (r_read_only r)) ctx with
  | Some _ => r_read_only r
  | None => mkRO (ro_option (r_read_only r))
                 (ro_pending (r_read_only r) ++ [(ctx, mkRIS m (committed (r_log r)) [r_id r])])
                 (ro_queue (r_read_only r) ++ [ctx])
  end.

(* C08.3: Safe option, not a singleton, committed in the own term: the request is recorded
   with the leader's current commit index and acks = {self} (unless the context is already
   pending: then nothing is recorded), one heartbeat carrying the context is queued for every
   other tracked peer, and NOTHING else changes *)
Theorem readindex_safe_records_commit_leader r m r' c :
  m_type m = MsgReadIndex -> commit_to_current_term r = Ok true ->
  singleton_conf r = false -> ro_option (r_read_only r) = 0 ->
  step_leader r m = Ok (r', c) ->
  c = E_OK /\ exists e rest, m_entries m = e :: rest /\
    r' = r <| r_read_only := ro_after_request r m (e_data e) |>
           <| r_msgs := r_msgs r ++ hb_list r (Some (e_data e)) (pids (t_progress (r_prs r))) |>.
Proof.
  intros Ht Hc Hsing Hopt H. rewrite step_leader_readindex_eq in H by exact Ht.
  unfold step_leader_readindex in H. rewrite Hc, Hsing, Hopt in H. cbn [bind negb] in H.
  change (0 =? 0) with true in H. cbn match in H.
  inv_bind H. inv_bind H. inv_bind H. inversion H; subst. split; [reflexivity|].
  apply ro_add_request_spec in Hx0. destruct Hx0 as (e & rest & He & Hro).
  unfold first_entry_data in Hx. rewrite He in Hx. inversion Hx; subst. clear Hx.
  exists e, rest. split; [exact He|].
  apply bcast_heartbeat_with_ctx_exact in Hx1. rewrite Hx1.
  unfold ro_after_request.
  destruct Hro as [(st & Hf & ->)|(Hf & ->)]; rewrite Hf; reflexivity.
Qed.

Theorem readindex_safe_records_commit r m r' c :
  r_state r = Leader -> m_type m = MsgReadIndex -> (m_term m = 0 \/ m_term m = r_term r) ->
  commit_to_current_term r = Ok true ->
  singleton_conf r = false -> ro_option (r_read_only r) = 0 ->
  step r m = Ok (r', c) ->
  c = E_OK /\ exists e rest, m_entries m = e :: rest /\
    r' = r <| r_read_only := ro_after_request r m (e_data e) |>
           <| r_msgs := r_msgs r ++ hb_list r (Some (e_data e)) (pids (t_progress (r_prs r))) |>.
Proof.
  intros Hs Ht Hterm Hc Hsing Hopt H.
  rewrite step_readindex_leader in H by assumption.
  rewrite <- step_leader_readindex_eq in H by exact Ht.
  eapply readindex_safe_records_commit_leader; eassumption.
Qed.

(* what the recorded entry is *)
Lemma ro_after_request_find r m ctx :
  match ro_find (ro_pending (r_read_only r)) ctx with
  | Some st => ro_find (ro_pending (ro_after_request r m ctx)) ctx = Some st
  | None => ro_find (ro_pending (ro_after_request r m ctx)) ctx
              = Some (mkRIS m (committed (r_log r)) [r_id r]) /\
            ro_queue (ro_after_request r m ctx) = ro_queue (r_read_only r) ++ [ctx]
  end.
Proof.
  unfold ro_after_request. destruct (ro_find (ro_pending (r_read_only r)) ctx) eqn:E; [exact E|].
  cbn [ro_pending ro_queue]. rewrite ro_find_app, E. cbn [ro_find]. rewrite list_eqb_refl. auto.
Qed.

Lemma ro_after_request_RoInv r m ctx :
  RoInv (r_read_only r) -> RoInv (ro_after_request r m ctx).
Proof.
  intros Hinv. unfold ro_after_request.
  destruct (ro_find (ro_pending (r_read_only r)) ctx) eqn:E; [exact Hinv|].
  destruct Hinv as (Hq & Hk & Hqk). apply ro_find_None in E.
  assert (Hnq : ~ In ctx (ro_queue (r_read_only r))) by (intros A; apply Hqk in A; contradiction).
  unfold RoInv, ro_keys. cbn [ro_queue ro_pending]. rewrite map_app. cbn [map fst].
  split; [apply NoDup_snoc; assumption|]. split; [apply NoDup_snoc; assumption|].
  intros c0. rewrite !in_app_iff. unfold ro_keys in Hqk. rewrite Hqk. reflexivity.
Qed.

(* C08.7 (contrast): with LeaseBased (or a single voter) the leader answers at once with its
   commit index, without any quorum round: C08 is a statement about Safe only *)
Theorem lease_based_no_quorum r m r' c :
  m_type m = MsgReadIndex -> commit_to_current_term r = Ok true ->
  (singleton_conf r = true \/ ro_option (r_read_only r) <> 0) ->
  step_leader r m = Ok (r', c) ->
  c = E_OK /\ r_read_only r' = r_read_only r /\
  ((m_from m = INVALID_ID \/ m_from m = r_id r) /\
   (exists e rest, m_entries m = e :: rest /\
      r' = r <| r_read_states := r_read_states r ++ [mkRS (committed (r_log r)) (e_data e)] |>)
   \/
   (m_from m <> INVALID_ID /\ m_from m <> r_id r) /\
   r' = r <| r_msgs := r_msgs r ++
            [msg_default <| m_type := MsgReadIndexResp |> <| m_to := m_from m |>
               <| m_index := committed (r_log r) |> <| m_entries := m_entries m |>
               <| m_from := r_id r |> <| m_term := r_term r |>] |>).
Proof.
  intros Ht Hc Hmode H. rewrite step_leader_readindex_eq in H by exact Ht.
  unfold step_leader_readindex in H. rewrite Hc in H. cbn [bind negb] in H.
  assert (Hnow : readindex_answer_now r m = Ok (r', c)).
  { destruct (singleton_conf r); [exact H|]. destruct Hmode as [Hm|Hm]; [discriminate|].
    apply N.eqb_neq in Hm. rewrite Hm in H. exact H. }
  clear H. unfold readindex_answer_now, handle_ready_read_index in Hnow.
  destruct ((m_from m =? INVALID_ID) || (m_from m =? r_id r)) eqn:E.
  - inv_bind Hnow. inv_bind Hx. inversion Hx; subst. clear Hx. cbn [bind] in Hnow.
    inversion Hnow; subst.
    split; [reflexivity|]. split; [reflexivity|]. left.
    split; [apply orb_prop in E; destruct E as [E|E]; apply N.eqb_eq in E; auto|].
    unfold first_entry_data in Hx0. destruct (m_entries m) as [|e rest]; [discriminate|].
    inversion Hx0; subst. exists e, rest. split; reflexivity.
  - cbn [bind] in Hnow. inv_bind Hnow. inversion Hnow; subst. clear Hnow.
    rewrite send_plain in Hx by reflexivity. inversion Hx; subst.
    split; [reflexivity|]. split; [reflexivity|]. right.
    apply orb_false_elim in E. destruct E as [E1 E2]. apply N.eqb_neq in E1, E2.
    split; [split; assumption|reflexivity].
Qed.

(* ================================================================== *)
(* 6. routing of an answer: handle_ready_read_index, respond_reads     *)
(* ================================================================== *)

Definition local_req (self : N) (req : msg) : bool :=
  (m_from req =? INVALID_ID) || (m_from req =? self).

(* the MsgReadIndexResp the leader [r] queues for a forwarded request *)
Definition rir_msg (r : raft) (req : msg) (idx : N) : msg :=
  msg_default <| m_type := MsgReadIndexResp |> <| m_to := m_from req |> <| m_index := idx |>
              <| m_entries := m_entries req |> <| m_from := r_id r |> <| m_term := r_term r |>.

(* C08.5 (leader side): a request issued on the node itself (from = 0 or self) is answered by a
   local read state and no message; a forwarded one by exactly one MsgReadIndexResp to its
   sender, with the index and the request's entries, and no read state *)
Theorem readindex_routing r req idx r' om :
  handle_ready_read_index r req idx = Ok (r', om) ->
  (local_req (r_id r) req = true /\ om = None /\
   exists e rest, m_entries req = e :: rest /\
     r' = r <| r_read_states := r_read_states r ++ [mkRS idx (e_data e)] |>) \/
  (local_req (r_id r) req = false /\ r' = r /\
   om = Some (msg_default <| m_type := MsgReadIndexResp |> <| m_to := m_from req |>
                <| m_index := idx |> <| m_entries := m_entries req |>) /\
   send r (msg_default <| m_type := MsgReadIndexResp |> <| m_to := m_from req |>
                <| m_index := idx |> <| m_entries := m_entries req |>)
     = Ok (r <| r_msgs := r_msgs r ++ [rir_msg r req idx] |>)).
Proof.
  unfold handle_ready_read_index. fold (local_req (r_id r) req). intros H.
  destruct (local_req (r_id r) req).
  - left. inv_bind H. inversion H; subst. split; [reflexivity|]. split; [reflexivity|].
    unfold first_entry_data in Hx. destruct (m_entries req) as [|e rest]; [discriminate|].
    inversion Hx; subst. exists e, rest. split; reflexivity.
  - right. inversion H; subst. split; [reflexivity|]. split; [reflexivity|]. split; [reflexivity|].
    rewrite send_plain by reflexivity. reflexivity.
Qed.

(* the read states / responses produced for a list of released statuses *)
Definition rr_states (self : N) (rss : list read_index_status) : list read_state :=
  flat_map (fun rs => if local_req self (ris_req rs)
                      then match m_entries (ris_req rs) with
                           | e :: _ => [mkRS (ris_index rs) (e_data e)]
                           | [] => []
                           end
                      else []) rss.

Definition rr_msgs (r : raft) (rss : list read_index_status) : list msg :=
  flat_map (fun rs => if local_req (r_id r) (ris_req rs) then []
                      else [rir_msg r (ris_req rs) (ris_index rs)]) rss.

Lemma set_rs_msgs_same (r : raft) :
  r <| r_read_states := r_read_states r ++ [] |> <| r_msgs := r_msgs r ++ [] |> = r.
Proof. rewrite !app_nil_r. destruct r; reflexivity. Qed.

Lemma respond_reads_exact rss : forall r r',
  respond_reads r rss = Ok r' ->
  r' = r <| r_read_states := r_read_states r ++ rr_states (r_id r) rss |>
         <| r_msgs := r_msgs r ++ rr_msgs r rss |>.
Proof.
  induction rss as [|rs rest IH]; intros r r' H.
  { cbn in H. inversion H; subst. cbn [rr_states rr_msgs flat_map]. symmetry. apply set_rs_msgs_same. }
  cbn [respond_reads] in H. inv_bind H. destruct x as [r1 om]. inv_bind H.
  apply readindex_routing in Hx.
  cbn [rr_states rr_msgs flat_map]. fold (rr_states (r_id r) rest). fold (rr_msgs r rest).
  destruct Hx as [(Hl & -> & e & rest0 & He & ->)|(Hl & -> & -> & Hs)]; rewrite Hl.
  - inversion Hx0; subst. clear Hx0. apply IH in H. rewrite H. rewrite He.
    cbn [app]. destruct r; cbn. rewrite <- app_assoc. reflexivity.
  - rewrite Hs in Hx0. inversion Hx0; subst. clear Hx0. apply IH in H. rewrite H.
    cbn [app]. destruct r; cbn. rewrite <- app_assoc. reflexivity.
Qed.

Lemma rr_msgs_all_rir r rss : rir (rr_msgs r rss) = rr_msgs r rss.
Proof.
  induction rss as [|rs rest IH]; [reflexivity|].
  cbn [rr_msgs flat_map]. fold (rr_msgs r rest). rewrite rir_app, IH.
  destruct (local_req (r_id r) (ris_req rs)); reflexivity.
Qed.

Lemma rr_states_In self rss x :
  In x (rr_states self rss) ->
  exists rs e rest, In rs rss /\ local_req self (ris_req rs) = true /\
    m_entries (ris_req rs) = e :: rest /\ x = mkRS (ris_index rs) (e_data e).
Proof.
  unfold rr_states. rewrite in_flat_map. intros (rs & Hin & Hx).
  destruct (local_req self (ris_req rs)) eqn:El; [|destruct Hx].
  destruct (m_entries (ris_req rs)) as [|e rest] eqn:Ee; [destruct Hx|].
  destruct Hx as [<-|[]]. exists rs, e, rest. auto.
Qed.

Lemma rr_msgs_In r rss x :
  In x (rr_msgs r rss) ->
  exists rs, In rs rss /\ local_req (r_id r) (ris_req rs) = false /\
    x = rir_msg r (ris_req rs) (ris_index rs).
Proof.
  unfold rr_msgs. rewrite in_flat_map. intros (rs & Hin & Hx).
  destruct (local_req (r_id r) (ris_req rs)) eqn:El; [destruct Hx|].
  destruct Hx as [<-|[]]. exists rs. auto.
Qed.

(* ================================================================== *)
(* 7. handle_heartbeat_response: a read is served only on a quorum     *)
(* ================================================================== *)

(* the read-index half of handle_heartbeat_response *)
Definition hbr_reads (r1 : raft) (m : msg) : Res raft :=
  if negb (ro_option (r_read_only r1) =? 0) || match m_context m with [] => true | _ => false end
  then Ok r1 else
  let '(ro', acks) := ro_recv_ack (r_read_only r1) (m_from m) (m_context m) in
  let r2 := r1 <| r_read_only := ro' |> in
  match acks with
  | Some a =>
      if prs_has_quorum (r_prs r2) a then
        z <- ro_advance (r_read_only r2) (m_context m) ;;
        let '(ro2, rss) := z in
        respond_reads (r2 <| r_read_only := ro2 |>) rss
      else Ok r2
  | None => Ok r2
  end.

Lemma hbr_split r m r' :
  handle_heartbeat_response r m = Ok r' ->
  (get_pr r (m_from m) = None /\ r' = r) \/
  (exists pr r1, get_pr r (m_from m) = Some pr /\ lf r r1 /\ hbr_reads r1 m = Ok r').
Proof.
  unfold handle_heartbeat_response. intros H.
  destruct (get_pr r (m_from m)) as [pr|]; [|inversion H; left; auto].
  right. inv_bind H. clear Hx. inv_bind H. exists pr, x0. split; [reflexivity|].
  split; [|exact H].
  cif Hx.
  - inv_bind Hx. destruct x1 as [[ra pa] ba]. inversion Hx; subst.
    eapply lf_trans; [eapply maybe_send_append_lf; eassumption|apply put_pr_lf].
  - inversion Hx; subst. apply put_pr_lf.
Qed.

Lemma prs_has_quorum_conf t t' s : t_conf t' = t_conf t -> prs_has_quorum t' s = prs_has_quorum t s.
Proof. unfold prs_has_quorum. intros ->. reflexivity. Qed.

(* what the read-index half does, exactly *)
Lemma hbr_reads_spec r1 m r' :
  hbr_reads r1 m = Ok r' ->
  let ro1 := fst (ro_recv_ack (r_read_only r1) (m_from m) (m_context m)) in
  (* not Safe, or no context: nothing *)
  ((ro_option (r_read_only r1) <> 0 \/ m_context m = []) /\ r' = r1) \/
  (* Safe, context not pending: nothing *)
  (ro_option (r_read_only r1) = 0 /\ m_context m <> [] /\
   ro_find (ro_pending (r_read_only r1)) (m_context m) = None /\ r' = r1) \/
  (* Safe, pending, no quorum yet: only the ack is recorded *)
  (ro_option (r_read_only r1) = 0 /\ m_context m <> [] /\
   exists rs, ro_find (ro_pending (r_read_only r1)) (m_context m) = Some rs /\
     prs_has_quorum (r_prs r1) (IdSet.insert (m_from m) (ris_acks rs)) = false /\
     r' = r1 <| r_read_only := ro1 |>) \/
  (* Safe, pending, quorum: advance and answer *)
  (ro_option (r_read_only r1) = 0 /\ m_context m <> [] /\
   exists rs ro2 rss, ro_find (ro_pending (r_read_only r1)) (m_context m) = Some rs /\
     prs_has_quorum (r_prs r1) (IdSet.insert (m_from m) (ris_acks rs)) = true /\
     ro_advance ro1 (m_context m) = Ok (ro2, rss) /\
     r' = r1 <| r_read_only := ro2 |>
             <| r_read_states := r_read_states r1 ++ rr_states (r_id r1) rss |>
             <| r_msgs := r_msgs r1 ++ rr_msgs r1 rss |>).
Proof.
  intros H ro1. subst ro1. unfold hbr_reads in H.
  destruct (ro_option (r_read_only r1) =? 0) eqn:Eo; cbn [negb orb] in H.
  2:{ inversion H; subst. left. split; [|reflexivity]. left. apply N.eqb_neq. exact Eo. }
  apply N.eqb_eq in Eo.
  destruct (m_context m) as [|c0 ctx0] eqn:Ec.
  { inversion H; subst. left. split; [|reflexivity]. right. reflexivity. }
  rewrite <- Ec in *. assert (Hne : m_context m <> []) by (rewrite Ec; discriminate).
  right.
  destruct (ro_recv_ack_spec (r_read_only r1) (m_from m) (m_context m)) as (Hs & _).
  destruct (ro_recv_ack (r_read_only r1) (m_from m) (m_context m)) as [ro' acks] eqn:Era.
  cbn [fst snd] in *.
  destruct (ro_find (ro_pending (r_read_only r1)) (m_context m)) as [rs|] eqn:Ef;
    cbn [option_map] in Hs; subst acks.
  2:{ left. rewrite ro_recv_ack_None in Era by exact Ef. inversion Era; subst.
      inversion H; subst. split; [exact Eo|]. split; [exact Hne|]. split; [reflexivity|].
      destruct r1; reflexivity. }
  right.
  change (r_prs (r1 <| r_read_only := ro' |>)) with (r_prs r1) in H.
  destruct (prs_has_quorum (r_prs r1) (IdSet.insert (m_from m) (ris_acks rs))) eqn:Eq.
  - right. split; [exact Eo|]. split; [exact Hne|].
    inv_bind H. destruct x as [ro2 rss]. cbn [r_read_only] in Hx.
    apply respond_reads_exact in H. exists rs, ro2, rss.
    split; [reflexivity|]. split; [exact Eq|]. split; [exact Hx|]. exact H.
  - left. split; [exact Eo|]. split; [exact Hne|]. exists rs.
    split; [reflexivity|]. split; [exact Eq|]. inversion H; subst. reflexivity.
Qed.

Lemma rr_msgs_ext r1 r rss : r_id r1 = r_id r -> r_term r1 = r_term r -> rr_msgs r1 rss = rr_msgs r rss.
Proof. intros Hi Ht. unfold rr_msgs, rir_msg. rewrite Hi, Ht. reflexivity. Qed.

(* the pending map after the ack of [m] has been recorded *)
Definition hbr_ack (r : raft) (m : msg) : read_only :=
  fst (ro_recv_ack (r_read_only r) (m_from m) (m_context m)).

(* C08.4: the statuses [served] released by a heartbeat response produce exactly the new read
   states (local requests) and the new MsgReadIndexResp messages (forwarded requests); nothing
   is served unless the option is Safe, the sender is tracked, the context is pending, and its
   ack set INCLUDING the sender is a quorum of the current configuration; the index handed out
   is the recorded one.  Log (hence commit index), term and role are untouched. *)
Theorem readindex_served_needs_quorum r m r' :
  handle_heartbeat_response r m = Ok r' ->
  exists served,
    r_read_states r' = r_read_states r ++ rr_states (r_id r) served /\
    rir (r_msgs r') = rir (r_msgs r) ++ rr_msgs r served /\
    r_log r' = r_log r /\ r_term r' = r_term r /\ r_state r' = r_state r /\ r_id r' = r_id r /\
    ((served = [] /\ r_read_only r' = r_read_only r /\
      (get_pr r (m_from m) = None \/ ro_option (r_read_only r) <> 0 \/ m_context m = [] \/
       ro_find (ro_pending (r_read_only r)) (m_context m) = None)) \/
     (served = [] /\ r_read_only r' = hbr_ack r m /\
      ro_option (r_read_only r) = 0 /\ m_context m <> [] /\ get_pr r (m_from m) <> None /\
      exists rs, ro_find (ro_pending (r_read_only r)) (m_context m) = Some rs /\
        prs_has_quorum (r_prs r) (IdSet.insert (m_from m) (ris_acks rs)) = false) \/
     (ro_option (r_read_only r) = 0 /\ m_context m <> [] /\ get_pr r (m_from m) <> None /\
      exists rs, ro_find (ro_pending (r_read_only r)) (m_context m) = Some rs /\
        prs_has_quorum (r_prs r) (IdSet.insert (m_from m) (ris_acks rs)) = true /\
        ro_advance (hbr_ack r m) (m_context m) = Ok (r_read_only r', served))).
Proof.
  intros H. apply hbr_split in H.
  destruct H as [(Hn & ->)|(pr & r1 & Hpr & Hlf & H)].
  { exists []. cbn [rr_states rr_msgs flat_map]. rewrite !app_nil_r.
    repeat (split; [reflexivity|]). left. auto. }
  assert (Htr : get_pr r (m_from m) <> None) by congruence.
  destruct Hlf as (Hl & Hro & Hrs & Ht & Hi & Hst & Hcf & _ & Hrir).
  apply hbr_reads_spec in H. cbv zeta in H. unfold hbr_ack.
  rewrite Hro in H.
  destruct H as [(Hc & ->)|[(Ho & Hne & Hf & ->)|[(Ho & Hne & rs & Hf & Hq & ->)|
                 (Ho & Hne & rs & ro2 & rss & Hf & Hq & Hadv & ->)]]].
  - exists []. cbn [rr_states rr_msgs flat_map]. rewrite !app_nil_r.
    repeat (split; [assumption|]). left. split; [reflexivity|]. split; [exact Hro|].
    destruct Hc as [Hc|Hc]; auto.
  - exists []. cbn [rr_states rr_msgs flat_map]. rewrite !app_nil_r.
    repeat (split; [assumption|]). left. split; [reflexivity|]. split; [exact Hro|]. auto.
  - exists []. cbn [rr_states rr_msgs flat_map]. rewrite !app_nil_r. cbn.
    repeat (split; [assumption|]). right. left. split; [reflexivity|]. split; [reflexivity|].
    split; [exact Ho|]. split; [exact Hne|]. split; [exact Htr|]. exists rs. split; [exact Hf|].
    rewrite <- (prs_has_quorum_conf _ _ _ Hcf). exact Hq.
  - exists rss. cbn. rewrite Hrs, Hi, rir_app, Hrir, rr_msgs_all_rir, (rr_msgs_ext r1 r rss Hi Ht).
    repeat (split; [assumption || reflexivity|]). right. right.
    split; [exact Ho|]. split; [exact Hne|]. split; [exact Htr|]. exists rs. split; [exact Hf|].
    split; [|exact Hadv]. rewrite <- (prs_has_quorum_conf _ _ _ Hcf). exact Hq.
Qed.

(* every served status is an entry of the leader's pending map as it was before the response
   (same request, same recorded index), of a queued context *)
Theorem readindex_served_recorded r m served ro2 :
  ro_advance (hbr_ack r m) (m_context m) = Ok (ro2, served) ->
  (forall st, In st served ->
     exists c st0, In c (ro_queue (r_read_only r)) /\ In (c, st0) (ro_pending (r_read_only r)) /\
       ris_req st0 = ris_req st /\ ris_index st0 = ris_index st) /\
  (served <> [] -> In (m_context m) (ro_queue (r_read_only r))) /\
  ro_option ro2 = ro_option (r_read_only r).
Proof.
  unfold hbr_ack. intros H. apply ro_advance_sub in H.
  destruct (ro_recv_ack_spec (r_read_only r) (m_from m) (m_context m)) as (_ & Ho & Hq & _).
  cbv zeta in Ho, Hq. destruct H as (Ho2 & Hin & _ & Hne & _). rewrite Hq in Hin, Hne.
  split; [|split; [exact Hne|congruence]].
  intros st Hst. destruct (Hin st Hst) as (c & Hc & Hp).
  apply ro_recv_ack_In in Hp. destruct Hp as (st0 & A & B & C0). exists c, st0. auto.
Qed.

(* with the representation invariant: exactly the queue prefix up to and including the
   acknowledged context is served, in order, each with its recorded request and index; the
   rest of the queue stays *)
Theorem readindex_served_prefix r m served ro2 :
  RoInv (r_read_only r) ->
  ro_advance (hbr_ack r m) (m_context m) = Ok (ro2, served) ->
  In (m_context m) (ro_queue (r_read_only r)) ->
  exists pre post,
    ro_queue (r_read_only r) = pre ++ m_context m :: post /\
    ro_queue ro2 = post /\ RoInv ro2 /\
    map (fun st => Some (ris_req st, ris_index st)) served
      = map (fun c => option_map (fun st => (ris_req st, ris_index st))
                                 (ro_find (ro_pending (r_read_only r)) c)) (pre ++ [m_context m]).
Proof.
  intros Hinv H Hin. unfold hbr_ack in H.
  pose proof (ro_recv_ack_RoInv _ (m_from m) (m_context m) Hinv) as Hinv1.
  destruct (ro_recv_ack_spec (r_read_only r) (m_from m) (m_context m)) as (_ & _ & Hq & _ & _).
  cbv zeta in Hq. apply in_split in Hin. destruct Hin as (pre & post & Hsplit).
  destruct (ro_advance_spec _ (m_context m) Hinv1) as [_ B].
  rewrite Hq in B. destruct (B pre post Hsplit) as (ro' & rss & Ha & _ & Hq' & Hm & _ & _ & Hinv').
  assert (Heq : ro' = ro2 /\ rss = served) by (rewrite Ha in H; inversion H; auto).
  destruct Heq as [-> ->]. exists pre, post. split; [exact Hsplit|]. split; [exact Hq'|].
  split; [exact Hinv'|].
  assert (Hm2 : map (option_map (fun st => (ris_req st, ris_index st))) (map Some served)
                = map (option_map (fun st => (ris_req st, ris_index st)))
                      (map (ro_find (ro_pending (fst (ro_recv_ack (r_read_only r) (m_from m) (m_context m)))))
                           (pre ++ [m_context m]))) by (rewrite Hm; reflexivity).
  rewrite !map_map in Hm2. cbn [option_map] in Hm2. rewrite Hm2. apply map_ext. intros c.
  destruct (ro_recv_ack_keeps_index (r_read_only r) (m_from m) (m_context m) c) as [A B0].
  destruct (ro_find (ro_pending (fst (ro_recv_ack (r_read_only r) (m_from m) (m_context m)))) c) as [s1|];
    destruct (ro_find (ro_pending (r_read_only r)) c) as [s2|]; cbn [option_map] in *; congruence.
Qed.

(* ================================================================== *)
(* 8. the follower side: forwarding, receiving the answer              *)
(* ================================================================== *)

(* forwarding a (term-less) MsgReadIndex: only [from] is filled in when it is unset *)
Lemma send_readindex_exact r mm :
  m_type mm = MsgReadIndex -> m_term mm = 0 ->
  send r mm = Ok (r <| r_msgs := r_msgs r ++
                      [if m_from mm =? INVALID_ID then mm <| m_from := r_id r |> else mm] |>).
Proof.
  intros Hty Ht. destruct mm as [ty to fr te lt ix en cm ct sn rs rj rh cx dp pri cc].
  cbn in Hty, Ht. subst. unfold send. cbn [m_from].
  destruct (fr =? INVALID_ID); reflexivity.
Qed.

Lemma send_readindex_gen r mm :
  m_type mm = MsgReadIndex ->
  send r mm = if negb (m_term mm =? 0) then Panic site_send_term_set
              else Ok (r <| r_msgs := r_msgs r ++
                            [if m_from mm =? INVALID_ID then mm <| m_from := r_id r |> else mm] |>).
Proof.
  intros Hty. destruct mm as [ty to fr te lt ix en cm ct sn rs rj rh cx dp pri cc].
  cbn in Hty. subst. unfold send. cbn [m_from m_term].
  destruct te; destruct (fr =? INVALID_ID); reflexivity.
Qed.

(* C08.5 (follower side, request): a follower with a known leader forwards MsgReadIndex
   unchanged except for the destination (and [from], which is set to the follower itself if it
   was unset: that is where the answer will be routed); without a leader the request is dropped *)
Theorem follower_readindex_forward r m :
  m_type m = MsgReadIndex ->
  step_follower r m =
    if r_leader_id r =? INVALID_ID then Ok (r, E_OK)
    else r' <- send r (m <| m_to := r_leader_id r |>) ;; Ok (r', E_OK).
Proof. intros Ht. unfold step_follower. rewrite Ht. reflexivity. Qed.

Theorem follower_readindex_forward_exact r m r' c :
  m_type m = MsgReadIndex -> step_follower r m = Ok (r', c) ->
  c = E_OK /\
  ((r_leader_id r = INVALID_ID /\ r' = r) \/
   (r_leader_id r <> INVALID_ID /\ m_term m = 0 /\
    r' = r <| r_msgs := r_msgs r ++
                [if m_from m =? INVALID_ID
                 then m <| m_to := r_leader_id r |> <| m_from := r_id r |>
                 else m <| m_to := r_leader_id r |>] |>)).
Proof.
  intros Ht H. rewrite follower_readindex_forward in H by exact Ht.
  destruct (r_leader_id r =? INVALID_ID) eqn:El.
  - inversion H; subst. split; [reflexivity|]. left. apply N.eqb_eq in El. auto.
  - inv_bind H. inversion H; subst. split; [reflexivity|]. right. apply N.eqb_neq in El.
    split; [exact El|].
    assert (Hterm : m_term m = 0).
    { rewrite send_readindex_gen in Hx by (cbn; exact Ht).
      change (m_term (m <| m_to := r_leader_id r |>)) with (m_term m) in Hx.
      destruct (m_term m =? 0) eqn:E0; [apply N.eqb_eq; exact E0|discriminate]. }
    split; [exact Hterm|].
    rewrite send_readindex_exact in Hx by (cbn; assumption). inversion Hx; subst. reflexivity.
Qed.

(* C08.5 (follower side, answer): MsgReadIndexResp with exactly one entry appends the read
   state (m_index, entry data) on this node (and may raise the commit index to m_index);
   with any other number of entries it is ignored *)
Theorem follower_readindex_resp r m :
  m_type m = MsgReadIndexResp ->
  step_follower r m =
    match m_entries m with
    | [e] =>
        x <- RaftLog.maybe_commit (r_log r) (m_index m) (m_term m) ;;
        Ok (r <| r_read_states := r_read_states r ++ [mkRS (m_index m) (e_data e)] |>
              <| r_log := fst x |>, E_OK)
    | _ => Ok (r, E_OK)
    end.
Proof.
  intros Ht. unfold step_follower. rewrite Ht.
  change (MsgReadIndexResp =? MsgPropose) with false. change (MsgReadIndexResp =? MsgAppend) with false.
  change (MsgReadIndexResp =? MsgHeartbeat) with false. change (MsgReadIndexResp =? MsgSnapshot) with false.
  change (MsgReadIndexResp =? MsgTransferLeader) with false.
  change (MsgReadIndexResp =? MsgTimeoutNow) with false.
  change (MsgReadIndexResp =? MsgReadIndex) with false.
  change (MsgReadIndexResp =? MsgReadIndexResp) with true. cbv iota.
  destruct (m_entries m) as [|e [|e2 rest]]; reflexivity.
Qed.

(* ================================================================== *)
(* 9. reset drops every pending read                                   *)
(* ================================================================== *)

(* C08.6 *)
Theorem reset_drops_reads r t r' :
  reset r t = Ok r' ->
  r_read_only r' = ro_new (ro_option (r_read_only r)) /\ r_read_states r' = r_read_states r.
Proof.
  unfold reset. intros H.
  destruct (negb (r_term r =? t)); cbn in H;
  match type of H with match ?d with _ => _ end = _ => destruct d end;
    try discriminate; inversion H; subst; split; reflexivity.
Qed.

Theorem become_follower_drops_reads r t l r' :
  become_follower r t l = Ok r' ->
  r_read_only r' = ro_new (ro_option (r_read_only r)) /\ r_read_states r' = r_read_states r.
Proof.
  unfold become_follower. intros H. inv_bind H. inversion H; subst. cbn.
  apply reset_drops_reads in Hx. exact Hx.
Qed.

Theorem become_candidate_drops_reads r r' :
  become_candidate r = Ok r' ->
  r_read_only r' = ro_new (ro_option (r_read_only r)) /\ r_read_states r' = r_read_states r.
Proof.
  unfold become_candidate. intros H. destruct (is_leader r); [discriminate|].
  inv_bind H. inversion H; subst. cbn. apply reset_drops_reads in Hx. exact Hx.
Qed.

Lemma append_entry_lite r es r' ok :
  append_entry r es = Ok (r', ok) ->
  r_read_only r' = r_read_only r /\ r_read_states r' = r_read_states r /\
  r_msgs r' = r_msgs r /\ r_id r' = r_id r /\ committed (r_log r') = committed (r_log r).
Proof.
  unfold append_entry, maybe_increase_uncommitted_size. intros H.
  assert (Hla : forall l ents x, log_append l ents = Ok x -> committed (fst x) = committed l).
  { intros l ents x Hl. unfold log_append in Hl. destruct ents; [inversion Hl; reflexivity|].
    destruct (e_index e =? 0); [discriminate|]. destruct (_ <? _); [discriminate|].
    inv_bind Hl. inversion Hl; subst. reflexivity. }
  destruct (r_max_uncommitted_size r =? u64_max).
  - cbn [negb] in H. inv_bind H. inversion H; subst. cbn. apply Hla in Hx. auto.
  - match type of H with context [if ?c then (_, true) else _] => destruct c end; cbn [negb] in H.
    + inv_bind H. inversion H; subst. cbn. apply Hla in Hx. auto.
    + inversion H; subst. auto.
Qed.

Theorem become_leader_drops_reads r r' :
  become_leader r = Ok r' ->
  r_read_only r' = ro_new (ro_option (r_read_only r)) /\ r_read_states r' = r_read_states r.
Proof.
  unfold become_leader. intros H. destruct (role_eqb (r_state r) Follower); [discriminate|].
  inv_bind H. apply reset_drops_reads in Hx. destruct Hx as [A B].
  match type of H with match ?g with _ => _ end = _ => destruct g end; [|discriminate].
  inv_bind H. destruct x0 as [r6 ok]. destruct ok; [|discriminate]. inversion H; subst.
  apply append_entry_lite in Hx. destruct Hx as (C0 & D & _). cbn in C0, D.
  rewrite C0, D. auto.
Qed.

(* ================================================================== *)
(* 10. heartbeats: the follower echoes the context, at its own term;   *)
(*     a lower-term heartbeat is never acknowledged                    *)
(* ================================================================== *)

Definition hb_resp (r : raft) (m : msg) (cmt : N) : msg :=
  msg_default <| m_type := MsgHeartbeatResponse |> <| m_to := m_from m |>
              <| m_context := m_context m |> <| m_commit := cmt |>
              <| m_from := r_id r |> <| m_term := r_term r |>.

(* C08.8a *)
Theorem handle_heartbeat_exact r m r' :
  handle_heartbeat r m = Ok r' ->
  exists l', RaftLog.commit_to (r_log r) (m_commit m) = Ok l' /\
    ((r_pending_request_snapshot r = INVALID_INDEX /\
      r' = r <| r_log := l' |> <| r_msgs := r_msgs r ++ [hb_resp r m (committed l')] |>) \/
     (r_pending_request_snapshot r <> INVALID_INDEX /\
      send_request_snapshot (r <| r_log := l' |>) = Ok r')).
Proof.
  unfold handle_heartbeat. intros H. inv_bind H. exists x. split; [exact Hx|].
  change (r_pending_request_snapshot (r <| r_log := x |>)) with (r_pending_request_snapshot r) in H.
  destruct (r_pending_request_snapshot r =? INVALID_INDEX) eqn:E; cbn [negb] in H.
  - left. apply N.eqb_eq in E. split; [exact E|].
    rewrite send_plain in H by reflexivity. inversion H; subst. reflexivity.
  - right. apply N.eqb_neq in E. auto.
Qed.

Lemma handle_heartbeat_msgs r m r' :
  handle_heartbeat r m = Ok r' ->
  exists x, r_msgs r' = r_msgs r ++ [x] /\ r_term r' = r_term r /\ r_id r' = r_id r /\
    (m_type x = MsgHeartbeatResponse ->
     m_context x = m_context m /\ m_to x = m_from m /\ m_from x = r_id r /\ m_term x = r_term r).
Proof.
  intros H. apply handle_heartbeat_exact in H. destruct H as (l' & _ & [(_ & ->)|(_ & H)]).
  - eexists. split; [reflexivity|]. split; [reflexivity|]. split; [reflexivity|]. intros _. cbn. auto.
  - unfold send_request_snapshot in H. inv_bind H. destruct x; [|discriminate].
    rewrite send_plain in H by reflexivity. inversion H; subst. eexists.
    split; [reflexivity|]. split; [reflexivity|]. split; [reflexivity|]. cbn. intros E. discriminate.
Qed.

Lemma hb_role r m r' c :
  m_type m = MsgHeartbeat -> step_role r m = Ok (r', c) ->
  exists new, r_msgs r' = r_msgs r ++ new /\ r_id r' = r_id r /\
    (r_state r <> Follower -> r_state r <> Leader -> r_term r = m_term m) /\
    (r_state r <> Leader -> r_term r' = match r_state r with Follower => r_term r | _ => m_term m end) /\
    forall x, In x new -> m_type x = MsgHeartbeatResponse ->
      m_context x = m_context m /\ m_to x = m_from m /\ m_from x = r_id r /\ m_term x = r_term r'.
Proof.
  intros Ht H. unfold step_role in H.
  assert (Hcand : step_candidate r m = Ok (r', c) ->
    exists new, r_msgs r' = r_msgs r ++ new /\ r_id r' = r_id r /\ r_term r = m_term m /\ r_term r' = m_term m /\
      forall x, In x new -> m_type x = MsgHeartbeatResponse ->
        m_context x = m_context m /\ m_to x = m_from m /\ m_from x = r_id r /\ m_term x = r_term r').
  { clear H. intros H. unfold step_candidate in H. rewrite Ht in H.
    change (MsgHeartbeat =? MsgPropose) with false in H. change (MsgHeartbeat =? MsgAppend) with false in H.
    change (MsgHeartbeat =? MsgHeartbeat) with true in H. cbn [orb] in H. cbv iota in H.
    destruct (r_term r =? m_term m) eqn:Et; cbn [negb] in H; [|discriminate]. apply N.eqb_eq in Et.
    inv_bind H. inv_bind H. inversion H; subst.
    apply become_follower_effect in Hx. destruct Hx as (A & _ & _ & _ & _ & B & C0 & _).
    apply handle_heartbeat_msgs in Hx0. destruct Hx0 as (y & Hm & Hterm & Hid & Hy).
    exists [y]. split; [rewrite Hm, B; reflexivity|]. split; [congruence|]. split; [exact Et|].
    split; [congruence|].
    intros z [<-|[]] Hz. destruct (Hy Hz) as (P & Q & R & S). rewrite P, Q, R, S.
    repeat split; congruence. }
  destruct (r_state r) eqn:Es.
  - unfold step_follower in H. rewrite Ht in H.
    change (MsgHeartbeat =? MsgPropose) with false in H. change (MsgHeartbeat =? MsgAppend) with false in H.
    change (MsgHeartbeat =? MsgHeartbeat) with true in H. cbv iota in H.
    inv_bind H. inversion H; subst. apply handle_heartbeat_msgs in Hx.
    destruct Hx as (y & Hm & Hterm & Hid & Hy). cbn in Hm, Hterm, Hid, Hy.
    exists [y]. split; [exact Hm|]. split; [exact Hid|]. split; [congruence|]. split; [intros _; exact Hterm|].
    intros z [<-|[]] Hz. destruct (Hy Hz) as (P & Q & R & S). rewrite P, Q, R, S, Hterm. auto.
  - destruct (Hcand H) as (new & A & B & C0 & D & E). exists new.
    split; [exact A|]. split; [exact B|]. split; [intros _ _; exact C0|]. split; [intros _; exact D|exact E].
  - unfold step_leader in H. rewrite Ht in H. cbn in H. inversion H; subst.
    exists []. rewrite app_nil_r. split; [reflexivity|]. split; [reflexivity|].
    split; [intros _ A; congruence|]. split; [intros A; congruence|]. intros x [].
  - destruct (Hcand H) as (new & A & B & C0 & D & E). exists new.
    split; [exact A|]. split; [exact B|]. split; [intros _ _; exact C0|]. split; [intros _; exact D|exact E].
Qed.

(* C08.8: whatever the state, a MsgHeartbeatResponse queued while handling a heartbeat echoes
   the heartbeat's context, goes back to its sender, and is sent at the node's (new) term,
   which for a heartbeat with a term is that very term and is never lower than the node's
   previous term: a node at a higher term never acknowledges a lower-term heartbeat *)
Theorem heartbeat_ack_only_current_term r m r' c :
  m_type m = MsgHeartbeat -> step r m = Ok (r', c) ->
  exists new, r_msgs r' = r_msgs r ++ new /\
    forall x, In x new -> m_type x = MsgHeartbeatResponse ->
      m_context x = m_context m /\ m_to x = m_from m /\ m_from x = r_id r /\
      m_term x = r_term r' /\ (m_term m = 0 \/ (r_term r <= m_term m /\ r_term r' = m_term m)).
Proof.
  intros Ht H.
  assert (Hh : (m_type m =? MsgHup) = false) by (rewrite Ht; reflexivity).
  assert (Hv : (m_type m =? MsgRequestVote) || (m_type m =? MsgRequestPreVote) = false)
    by (rewrite Ht; reflexivity).
  destruct (N.eq_dec (m_term m) 0) as [E0|E0].
  { rewrite step_same_term in H by auto. apply hb_role in H; [|exact Ht].
    destruct H as (new & A & B & _ & _ & D). exists new. split; [exact A|].
    intros x Hx Hty. destruct (D x Hx Hty) as (P & Q & R & S). auto 10. }
  destruct (N.lt_trichotomy (m_term m) (r_term r)) as [Hlt|[Heq|Hgt]].
  - rewrite step_lower_term in H by assumption. rewrite Ht in H.
    change (MsgHeartbeat =? MsgRequestPreVote) with false in H.
    destruct (_ && _).
    + inv_bind H. inversion H; subst. rewrite send_plain in Hx by reflexivity. inversion Hx; subst.
      eexists. split; [reflexivity|]. intros x [<-|[]] Hty. cbn in Hty. discriminate.
    + inversion H; subst. exists []. rewrite app_nil_r. split; [reflexivity|]. intros x [].
  - rewrite step_same_term in H by auto. pose proof H as H2. apply hb_role in H; [|exact Ht].
    destruct H as (new & A & B & _ & Ct & D). exists new. split; [exact A|].
    intros x Hx Hty. destruct (D x Hx Hty) as (P & Q & R & S). repeat split; auto.
    right. split; [lia|].
    destruct (r_state r) eqn:Es; try (rewrite Ct by congruence; congruence).
    (* leader: no new message *)
    unfold step_role in H2. rewrite Es in H2. unfold step_leader in H2. rewrite Ht in H2. cbn in H2.
    inversion H2; subst. rewrite <- app_nil_r in A at 1. apply app_inv_head in A. subst new. destruct Hx.
  - (* higher term: become follower at that term first *)
    unfold step in H.
    assert (E1 : (m_term m =? 0) = false) by (apply N.eqb_neq; exact E0).
    assert (E2 : (r_term r <? m_term m) = true) by (apply N.ltb_lt; exact Hgt).
    rewrite E1, E2, Hh, Ht in H.
    change (MsgHeartbeat =? MsgRequestVote) with false in H.
    change (MsgHeartbeat =? MsgRequestPreVote) with false in H.
    change (MsgHeartbeat =? MsgRequestPreVoteResponse) with false in H.
    change (MsgHeartbeat =? MsgAppend) with false in H.
    change (MsgHeartbeat =? MsgHeartbeat) with true in H.
    cbn [orb andb] in H. cbv iota in H. inv_bind H. inv_bind Hx. inversion Hx; subst. clear Hx.
    apply become_follower_effect in Hx0. destruct Hx0 as (A & _ & _ & Bs & _ & Bm & Bi & _).
    rewrite Bs in H. fold (step_role x0 m) in H.
    assert (Hrole : step_role x0 m = Ok (r', c)) by (unfold step_role; rewrite Bs; exact H).
    apply hb_role in Hrole; [|exact Ht].
    destruct Hrole as (new & Am & Ai & _ & Ct & D). exists new. rewrite <- Bm. split; [exact Am|].
    intros x Hx Hty. destruct (D x Hx Hty) as (P & Q & R & S). rewrite <- Bi.
    repeat split; auto. right. split; [lia|]. rewrite Ct by congruence. rewrite Bs. exact A.
Qed.

(* ================================================================== *)
(* 11. the general frame: commit index monotone, read states kept,     *)
(*     pending reads kept or dropped as a whole                        *)
(* ================================================================== *)

Definition fx (r r' : raft) : Prop :=
  committed (r_log r) <= committed (r_log r') /\
  r_read_states r' = r_read_states r /\
  (r_read_only r' = r_read_only r \/ r_read_only r' = ro_new (ro_option (r_read_only r))) /\
  r_id r' = r_id r /\
  rir (r_msgs r') = rir (r_msgs r).

Lemma fx_refl r : fx r r.
Proof. unfold fx. repeat split; auto. lia. Qed.

Lemma fx_trans a b c : fx a b -> fx b c -> fx a c.
Proof.
  intros (A1 & A2 & A3 & A4 & A5) (B1 & B2 & B3 & B4 & B5). unfold fx.
  split; [lia|]. split; [congruence|]. split; [|split; congruence].
  destruct A3 as [A3|A3], B3 as [B3|B3]; rewrite B3, ?A3; auto.
Qed.

Lemma lf_fx r r' : lf r r' -> fx r r'.
Proof.
  intros (A & B & C0 & _ & D & _ & _ & _ & E). unfold fx. rewrite A. repeat split; auto. lia.
Qed.

Lemma commit_to_le l tc l' : RaftLog.commit_to l tc = Ok l' -> committed l <= committed l'.
Proof.
  unfold RaftLog.commit_to. intros H. destruct (tc <=? committed l) eqn:E; [inversion H; lia|].
  destruct (last_index l <? tc); [discriminate|]. inversion H; subst. cbn. lia.
Qed.

Lemma log_maybe_commit_le l mi t l' b :
  RaftLog.maybe_commit l mi t = Ok (l', b) -> committed l <= committed l'.
Proof.
  unfold RaftLog.maybe_commit. intros H.
  destruct (committed l <? mi); [|inversion H; lia].
  inv_bind H. destruct (term_ok_eq x t); [|inversion H; lia].
  inv_bind H. inversion H; subst. eapply commit_to_le; eassumption.
Qed.

Lemma set_log_fx r l' : committed (r_log r) <= committed l' -> fx r (r <| r_log := l' |>).
Proof. intros H. unfold fx. cbn. repeat split; auto. Qed.

Ltac fx_solve := unfold fx; cbn; repeat split; auto; try lia.

Lemma maybe_commit_fx r r' b : maybe_commit r = Ok (r', b) -> fx r r'.
Proof.
  unfold maybe_commit. intros H. inv_bind H. destruct x as [l' b'].
  apply log_maybe_commit_le in Hx.
  destruct b'.
  - destruct (get_pr r (r_id r)); inversion H; subst; fx_solve.
  - inversion H; subst. fx_solve.
Qed.

Lemma reset_fx r t r' : reset r t = Ok r' -> fx r r'.
Proof.
  intros H. pose proof (reset_drops_reads _ _ _ H) as [A B].
  apply reset_fields in H. destruct H as (_ & _ & Hl & _ & Hi & _ & _ & Hm & _).
  unfold fx. rewrite Hl, Hm. repeat split; auto. lia.
Qed.

Lemma become_follower_fx r t l r' : become_follower r t l = Ok r' -> fx r r'.
Proof.
  unfold become_follower. intros H. inv_bind H. inversion H; subst.
  apply reset_fx in Hx. destruct Hx as (A & B & C0 & D & E). unfold fx. cbn. repeat split; auto.
Qed.

Lemma become_candidate_fx r r' : become_candidate r = Ok r' -> fx r r'.
Proof.
  unfold become_candidate. intros H. destruct (is_leader r); [discriminate|].
  inv_bind H. inversion H; subst.
  apply reset_fx in Hx. destruct Hx as (A & B & C0 & D & E). unfold fx. cbn. repeat split; auto.
Qed.

Lemma become_pre_candidate_fx r r' : become_pre_candidate r = Ok r' -> fx r r'.
Proof.
  unfold become_pre_candidate. intros H. destruct (is_leader r); [discriminate|].
  inversion H; subst. fx_solve.
Qed.

Lemma become_leader_fx r r' : become_leader r = Ok r' -> fx r r'.
Proof.
  intros H. pose proof (become_leader_drops_reads _ _ H) as [A B].
  unfold become_leader in H. destruct (role_eqb (r_state r) Follower); [discriminate|].
  inv_bind H. apply reset_fields in Hx. destruct Hx as (_ & _ & Hl & _ & Hi & _ & _ & Hm & _).
  match type of H with match ?g with _ => _ end = _ => destruct g end; [|discriminate].
  inv_bind H. destruct x0 as [r6 ok]. destruct ok; [|discriminate]. inversion H; subst.
  apply append_entry_lite in Hx. destruct Hx as (_ & _ & Hm6 & Hi6 & Hc6). cbn in Hm6, Hi6, Hc6.
  unfold fx. rewrite Hc6, Hl, Hm6, Hm, Hi6, Hi. repeat split; auto. lia.
Qed.

Lemma send_vote_requests_lf ids : forall r vm t cm ct tr r',
  (vm =? MsgReadIndexResp) = false ->
  send_vote_requests ids r vm t cm ct tr = Ok r' -> lf r r'.
Proof.
  induction ids as [|id rest IH]; intros r vm t cm ct tr r' Hvm H.
  { inversion H; subst. apply lf_refl. }
  cbn [send_vote_requests] in H. destruct (id =? r_id r). { eapply IH; eassumption. }
  inv_bind H. inv_bind H. eapply lf_trans; [|eapply IH; eassumption].
  eapply send_lf; [eassumption|]. destruct tr; unfold is_rir; cbn; exact Hvm.
Qed.

Lemma poll_gen_fx rc r from v r' res :
  poll_gen rc r from v = Ok (r', res) ->
  (forall ra ra', rc ra = Ok ra' -> fx ra ra') -> fx r r'.
Proof.
  unfold poll_gen. intros H Hrc.
  set (r0 := r <| r_prs := (r_prs r) <| t_votes := Quorum.record_vote (t_votes (r_prs r)) from v |> |>) in *.
  assert (H0 : fx r r0) by (unfold r0; fx_solve).
  eapply fx_trans; [exact H0|].
  destruct (Quorum.tracker_vote_result _ _ _).
  - inversion H; subst. apply fx_refl.
  - inv_bind H. inversion H; subst. eapply become_follower_fx; eassumption.
  - destruct (role_eqb (r_state r0) PreCandidate).
    + inv_bind H. inversion H; subst. eapply Hrc; eassumption.
    + inv_bind H. inv_bind H. inversion H; subst.
      eapply fx_trans; [eapply become_leader_fx; eassumption|].
      apply lf_fx. eapply bcast_append_lf; eassumption.
Qed.

Lemma campaign_real_fx tr r r' : campaign_real tr r = Ok r' -> fx r r'.
Proof.
  unfold campaign_real. intros H. inv_bind H. apply become_candidate_fx in Hx.
  inv_bind H. destruct x0 as [r2 res].
  apply poll_gen_fx in Hx0; [|intros ra ra' Hp; discriminate].
  eapply fx_trans; [exact Hx|]. eapply fx_trans; [exact Hx0|].
  destruct res.
  - inv_bind H. apply lf_fx. eapply send_vote_requests_lf; [|eassumption]. reflexivity.
  - inv_bind H. apply lf_fx. eapply send_vote_requests_lf; [|eassumption]. reflexivity.
  - inversion H; subst. apply fx_refl.
Qed.

Lemma campaign_pre_fx r r' : campaign_pre r = Ok r' -> fx r r'.
Proof.
  unfold campaign_pre, poll. intros H. inv_bind H. apply become_pre_candidate_fx in Hx.
  inv_bind H. destruct x0 as [r2 res].
  apply poll_gen_fx in Hx0; [|intros ra ra'; apply campaign_real_fx].
  eapply fx_trans; [exact Hx|]. eapply fx_trans; [exact Hx0|].
  destruct res.
  - inv_bind H. apply lf_fx. eapply send_vote_requests_lf; [|eassumption]. reflexivity.
  - inv_bind H. apply lf_fx. eapply send_vote_requests_lf; [|eassumption]. reflexivity.
  - inversion H; subst. apply fx_refl.
Qed.

Lemma hup_fx r tl r' : hup r tl = Ok r' -> fx r r'.
Proof.
  intros H. apply hup_spec in H.
  destruct H as [[_ ->]|[(_ & _ & ->)|[(_ & _ & _ & ->)|(_ & _ & _ & Hc)]]]; try apply fx_refl.
  unfold hup_campaign in Hc. destruct tl; [eapply campaign_real_fx; eassumption|].
  destruct (r_pre_vote r); [eapply campaign_pre_fx|eapply campaign_real_fx]; eassumption.
Qed.

Lemma poll_fx r from v r' res : poll r from v = Ok (r', res) -> fx r r'.
Proof. unfold poll. intros H. eapply poll_gen_fx; [exact H|]. intros ra ra'. apply campaign_real_fx. Qed.

Lemma maybe_commit_by_vote_fx r m r' : maybe_commit_by_vote r m = Ok r' -> fx r r'.
Proof.
  intros H. apply maybe_commit_by_vote_spec in H.
  destruct H as [-> |(l' & b & _ & _ & _ & _ & Hmc & [-> |(_ & _ & _ & Hbf)])]; [apply fx_refl| |].
  - apply set_log_fx. eapply log_maybe_commit_le; eassumption.
  - eapply fx_trans; [apply set_log_fx; eapply log_maybe_commit_le; eassumption|].
    eapply become_follower_fx; eassumption.
Qed.

Lemma log_append_committed l ents x : log_append l ents = Ok x -> committed (fst x) = committed l.
Proof.
  intros Hl. unfold log_append in Hl. destruct ents; [inversion Hl; reflexivity|].
  destruct (e_index e =? 0); [discriminate|]. destruct (_ <? _); [discriminate|].
  inv_bind Hl. inversion Hl; subst. reflexivity.
Qed.

Lemma maybe_append_le l i t cmt ents l' res :
  maybe_append l i t cmt ents = Ok (l', res) -> committed l <= committed l'.
Proof.
  unfold maybe_append. intros H. inv_bind H. destruct (negb x); [inversion H; lia|].
  inv_bind H. inv_bind H.
  assert (H1 : committed x1 = committed l).
  { clear H. cif Hx1; [inversion Hx1; reflexivity|].
    cif Hx1; [discriminate|]. cif Hx1; [discriminate|].
    cif Hx1; [discriminate|]. cif Hx1; [discriminate|].
    inv_bind Hx1. apply log_append_committed in Hx2. inversion Hx1; subst.
    match goal with |- committed (if ?c then _ else _) = _ => destruct c end; cbn; exact Hx2. }
  destruct (u64_max <? _); [discriminate|]. inv_bind H. inversion H; subst.
  apply commit_to_le in Hx2. lia.
Qed.

Lemma handle_append_entries_fx r m r' : handle_append_entries r m = Ok r' -> fx r r'.
Proof.
  unfold handle_append_entries. intros H.
  destruct (negb (r_pending_request_snapshot r =? INVALID_INDEX)).
  { apply lf_fx. eapply send_request_snapshot_lf; exact H. }
  destruct (m_index m <? committed (r_log r)).
  { apply lf_fx. eapply send_lf; [exact H|reflexivity]. }
  inv_bind H. destruct x as [l' res]. apply maybe_append_le in Hx.
  eapply fx_trans; [apply set_log_fx; exact Hx|].
  destruct res as [[a b]|].
  - apply lf_fx. eapply send_lf; [exact H|reflexivity].
  - inv_bind H. destruct x as [hi [ht|]]; [|discriminate].
    apply lf_fx. eapply send_lf; [exact H|reflexivity].
Qed.

Lemma handle_heartbeat_fx r m r' : handle_heartbeat r m = Ok r' -> fx r r'.
Proof.
  unfold handle_heartbeat. intros H. inv_bind H. apply commit_to_le in Hx.
  eapply fx_trans; [apply set_log_fx; exact Hx|].
  cif H.
  - apply lf_fx. eapply send_request_snapshot_lf; exact H.
  - apply lf_fx. eapply send_lf; [exact H|reflexivity].
Qed.

Lemma restore_fx r s r' b : restore r s = Ok (r', b) -> fx r r'.
Proof.
  unfold restore. intros H.
  destruct (s_index s <? committed (r_log r)) eqn:Ec; [inversion H; apply fx_refl|].
  apply N.ltb_ge in Ec.
  destruct (negb (role_eqb (r_state r) Follower)) eqn:Er.
  { inv_bind H. inversion H; subst. eapply become_follower_fx; eassumption. }
  cif H; [inversion H; apply fx_refl|].
  inv_bind H.
  cif H.
  { inv_bind H. inversion H; subst. apply set_log_fx. eapply commit_to_le; eassumption. }
  inv_bind H.
  assert (Hl : committed (r_log r) <= committed x0).
  { unfold log_restore in Hx0. destruct (s_index s <? committed (r_log r)); [discriminate|].
    inversion Hx0; subst. cbn. exact Ec. }
  destruct (ConfChange.restore empty_tracker (s_cs s)) as [[c' ids']|e]; [|discriminate].
  inv_bind H. destruct x1 as [r1 new_cs].
  destruct (negb (conf_state_eq (s_cs s) new_cs)); [discriminate|].
  destruct (get_pr r1 (r_id r1)); [|discriminate].
  destruct (next_idx p =? 0); [discriminate|]. inversion H; subst. clear H.
  rewrite post_conf_change_nonleader in Hx1.
  2:{ unfold is_leader. cbn. apply negb_false_iff in Er. apply role_eqb_follower in Er. rewrite Er. reflexivity. }
  inversion Hx1; subst. unfold fx. cbn. repeat split; auto.
Qed.

Lemma handle_snapshot_fx r m r' : handle_snapshot r m = Ok r' -> fx r r'.
Proof.
  unfold handle_snapshot. intros H. inv_bind H. destruct x as [r1 ok].
  apply restore_fx in Hx. eapply fx_trans; [exact Hx|].
  destruct ok; apply lf_fx; (eapply send_lf; [exact H|reflexivity]).
Qed.

(* --- leader-side handlers --- *)

Lemma handle_append_response_fx r m r' : handle_append_response r m = Ok r' -> fx r r'.
Proof.
  unfold handle_append_response. intros H. inv_bind H. clear Hx.
  destruct (get_pr r (m_from m)) as [pr|]; [|inversion H; apply fx_refl].
  destruct (m_reject m).
  { destruct (maybe_decr_to _ _ _ _) as [pr1 dec]. destruct dec.
    - apply lf_fx. eapply lf_trans; [apply put_pr_lf|eapply send_append_to_lf; exact H].
    - inversion H; subst. apply lf_fx. apply put_pr_lf. }
  destruct (maybe_update _ _) as [pr1 upd]. destruct upd; cbn [negb] in H.
  2:{ inversion H; subst. apply lf_fx. apply put_pr_lf. }
  inv_bind H. clear Hx. inv_bind H. destruct x1 as [r1 cmt].
  apply maybe_commit_fx in Hx. inv_bind H. inv_bind H.
  assert (H01 : fx r r1) by (eapply fx_trans; [apply lf_fx; apply put_pr_lf|exact Hx]).
  assert (H12 : fx r1 x1).
  { destruct cmt.
    - destruct (should_bcast_commit r1); [apply lf_fx; eapply bcast_append_lf; eassumption|].
      inversion Hx0; subst; apply fx_refl.
    - destruct (is_paused _); [apply lf_fx; eapply send_append_to_lf; eassumption|].
      inversion Hx0; subst; apply fx_refl. }
  apply send_append_aggressively_lf in Hx1. apply lf_fx in Hx1.
  assert (H03 : fx r x2) by (eapply fx_trans; [exact H01|eapply fx_trans; eassumption]).
  eapply fx_trans; [exact H03|].
  destruct (r_lead_transferee x2); [|inversion H; subst; apply fx_refl].
  destruct (n =? m_from m); [|inversion H; subst; apply fx_refl].
  destruct (get_pr x2 (m_from m)); [|discriminate].
  destruct (matched p =? last_index (r_log x2)); [apply lf_fx; eapply send_timeout_now_lf; exact H|].
  inversion H; subst; apply fx_refl.
Qed.

Lemma handle_transfer_leader_lf r m r' : handle_transfer_leader r m = Ok r' -> lf r r'.
Proof.
  unfold handle_transfer_leader. intros H.
  destruct (get_pr r (m_from m)); [|inversion H; apply lf_refl].
  destruct (IdSet.mem (m_from m) (learners (conf_of r))); [inversion H; apply lf_refl|].
  assert (Hcont : forall ra, lf r ra ->
    (if m_from m =? r_id ra then Ok ra else
       match get_pr (ra <| r_election_elapsed := 0 |> <| r_lead_transferee := Some (m_from m) |>) (m_from m) with
       | None => Panic site_pr_unwrap
       | Some pr =>
           if matched pr =? last_index (r_log (ra <| r_election_elapsed := 0 |> <| r_lead_transferee := Some (m_from m) |>))
           then send_timeout_now (ra <| r_election_elapsed := 0 |> <| r_lead_transferee := Some (m_from m) |>) (m_from m)
           else
             y <- maybe_send_append (ra <| r_election_elapsed := 0 |> <| r_lead_transferee := Some (m_from m) |>) (m_from m) pr true ;;
             let '(r', pr', _) := y in Ok (put_pr r' (m_from m) pr')
       end) = Ok r' -> lf r r').
  { intros ra Hra Hc. destruct (m_from m =? r_id ra). { inversion Hc; subst; exact Hra. }
    eapply lf_trans; [exact Hra|].
    assert (Hset : lf ra (ra <| r_election_elapsed := 0 |> <| r_lead_transferee := Some (m_from m) |>))
      by lf_solve.
    eapply lf_trans; [exact Hset|].
    match type of Hc with match ?g with _ => _ end = _ => destruct g end; [|discriminate].
    cif Hc.
    - eapply send_timeout_now_lf; exact Hc.
    - inv_bind Hc. destruct x as [[rb pb] bb]. inversion Hc; subst.
      eapply lf_trans; [eapply maybe_send_append_lf; eassumption|apply put_pr_lf]. }
  destruct (r_lead_transferee r) as [last|].
  - destruct (last =? m_from m); [inversion H; apply lf_refl|].
    eapply Hcont; [|exact H]. lf_solve.
  - eapply Hcont; [apply lf_refl|exact H].
Qed.

Lemma handle_snapshot_status_lf r m r' : handle_snapshot_status r m = Ok r' -> lf r r'.
Proof.
  unfold handle_snapshot_status. intros H.
  destruct (get_pr r (m_from m)); [|inversion H; apply lf_refl].
  destruct (negb _); inversion H; subst; [apply lf_refl|apply put_pr_lf].
Qed.

Lemma handle_unreachable_lf r m r' : handle_unreachable r m = Ok r' -> lf r r'.
Proof.
  unfold handle_unreachable. intros H.
  destruct (get_pr r (m_from m)); inversion H; subst; [|apply lf_refl].
  destruct (pstate_eqb _ _); [apply put_pr_lf|apply lf_refl].
Qed.

Lemma rir_hb_list r ctx ids : rir (hb_list r ctx ids) = [].
Proof.
  induction ids as [|id rest IH]; [reflexivity|].
  cbn [hb_list flat_map]. fold (hb_list r ctx rest). rewrite rir_app, IH, app_nil_r.
  destruct (id =? r_id r); [reflexivity|]. destruct (get_pr r id); [|reflexivity].
  unfold hb_msg. destruct ctx; reflexivity.
Qed.

Lemma bcast_heartbeat_with_ctx_lf r ctx r' : bcast_heartbeat_with_ctx r ctx = Ok r' -> lf r r'.
Proof.
  intros H. apply bcast_heartbeat_with_ctx_exact in H. subst r'. unfold lf. cbn.
  repeat split. rewrite rir_app, rir_hb_list, app_nil_r. reflexivity.
Qed.

(* every leader message type other than the two read-index ones *)
Lemma step_leader_other_fx r m r' c :
  (m_type m =? MsgReadIndex) = false -> (m_type m =? MsgHeartbeatResponse) = false ->
  step_leader r m = Ok (r', c) -> fx r r'.
Proof.
  intros Hnr Hnh H. unfold step_leader in H. rewrite Hnr, Hnh in H.
  destruct (m_type m =? MsgBeat).
  { inv_bind H. inversion H; subst. apply lf_fx. eapply bcast_heartbeat_with_ctx_lf; exact Hx. }
  destruct (m_type m =? MsgCheckQuorum).
  { destruct (quorum_recently_active (r_prs r) (r_id r)) as [prs' active] eqn:Eq.
    assert (Hprs : fx r (r <| r_prs := prs' |>)) by fx_solve.
    destruct active; cbn [negb] in H.
    - inversion H; subst. exact Hprs.
    - inv_bind H. inversion H; subst. eapply fx_trans; [exact Hprs|].
      eapply become_follower_fx; eassumption. }
  destruct (m_type m =? MsgPropose).
  { destruct (m_entries m); [discriminate|].
    destruct (get_pr r (r_id r)); [|inversion H; subst; apply fx_refl].
    destruct (r_lead_transferee r); [inversion H; subst; apply fx_refl|].
    dfilter H. apply filter_frame in F.
    assert (H1 : fx r a) by (rewrite F; fx_solve).
    destruct c0; cbn [negb] in H; [|inversion H; subst; exact H1].
    inv_bind H. destruct x as [r2 appended]. apply append_entry_lite in Hx.
    destruct Hx as (A & B & C0 & D & E).
    assert (H2 : fx a r2) by (unfold fx; rewrite A, B, C0, D, E; repeat split; auto; lia).
    destruct appended; cbn [negb] in H.
    - inv_bind H. inversion H; subst. eapply fx_trans; [exact H1|]. eapply fx_trans; [exact H2|].
      apply lf_fx. eapply bcast_append_lf; eassumption.
    - inversion H; subst. eapply fx_trans; eassumption. }
  destruct (m_type m =? MsgAppendResponse).
  { inv_bind H. inversion H; subst. eapply handle_append_response_fx; eassumption. }
  destruct (m_type m =? MsgSnapStatus).
  { inv_bind H. inversion H; subst. apply lf_fx. eapply handle_snapshot_status_lf; eassumption. }
  destruct (m_type m =? MsgUnreachable).
  { inv_bind H. inversion H; subst. apply lf_fx. eapply handle_unreachable_lf; eassumption. }
  destruct (m_type m =? MsgTransferLeader).
  { inv_bind H. inversion H; subst. apply lf_fx. eapply handle_transfer_leader_lf; eassumption. }
  inversion H; subst. apply fx_refl.
Qed.

Lemma step_candidate_fx r m r' c : step_candidate r m = Ok (r', c) -> fx r r'.
Proof.
  unfold step_candidate. intros H.
  destruct (m_type m =? MsgPropose). { inversion H; subst. apply fx_refl. }
  cif H.
  { destruct (negb (r_term r =? m_term m)); [discriminate|].
    inv_bind H. apply become_follower_fx in Hx. inv_bind H. inversion H; subst.
    eapply fx_trans; [exact Hx|].
    destruct (m_type m =? MsgAppend); [eapply handle_append_entries_fx; eassumption|].
    destruct (m_type m =? MsgHeartbeat); [eapply handle_heartbeat_fx; eassumption|].
    eapply handle_snapshot_fx; eassumption. }
  cif H.
  2:{ inversion H; subst. apply fx_refl. }
  cif H.
  { inversion H; subst. apply fx_refl. }
  inv_bind H. destruct x as [r1 res]. inv_bind H. inversion H; subst. cbn [fst] in Hx0.
  eapply fx_trans; [eapply poll_fx; eassumption|eapply maybe_commit_by_vote_fx; eassumption].
Qed.

Lemma step_follower_other_fx r m r' c :
  (m_type m =? MsgReadIndexResp) = false -> step_follower r m = Ok (r', c) -> fx r r'.
Proof.
  unfold step_follower. intros Hnr H. rewrite Hnr in H.
  assert (Hset : fx r (r <| r_election_elapsed := 0 |> <| r_leader_id := m_from m |>)) by fx_solve.
  destruct (m_type m =? MsgPropose) eqn:E1.
  { destruct (r_leader_id r =? INVALID_ID); [inversion H; subst; apply fx_refl|].
    destruct (r_disable_proposal_forwarding r); [inversion H; subst; apply fx_refl|].
    inv_bind H. inversion H; subst. apply lf_fx. eapply send_lf; [eassumption|].
    unfold is_rir. cbn. exact Hnr. }
  destruct (m_type m =? MsgAppend).
  { inv_bind H. inversion H; subst. eapply fx_trans; [exact Hset|].
    eapply handle_append_entries_fx; eassumption. }
  destruct (m_type m =? MsgHeartbeat).
  { inv_bind H. inversion H; subst. eapply fx_trans; [exact Hset|].
    eapply handle_heartbeat_fx; eassumption. }
  destruct (m_type m =? MsgSnapshot).
  { inv_bind H. inversion H; subst. eapply fx_trans; [exact Hset|].
    eapply handle_snapshot_fx; eassumption. }
  destruct (m_type m =? MsgTransferLeader).
  { destruct (r_leader_id r =? INVALID_ID); [inversion H; subst; apply fx_refl|].
    inv_bind H. inversion H; subst. apply lf_fx. eapply send_lf; [eassumption|].
    unfold is_rir. cbn. exact Hnr. }
  destruct (m_type m =? MsgTimeoutNow).
  { destruct (r_promotable r); [|inversion H; subst; apply fx_refl].
    inv_bind H. inversion H; subst. eapply hup_fx; eassumption. }
  destruct (m_type m =? MsgReadIndex).
  { destruct (r_leader_id r =? INVALID_ID); [inversion H; subst; apply fx_refl|].
    inv_bind H. inversion H; subst. apply lf_fx. eapply send_lf; [eassumption|].
    unfold is_rir. cbn. exact Hnr. }
  inversion H; subst. apply fx_refl.
Qed.

(* ================================================================== *)
(* 12. step, decomposed: term prologue + body                          *)
(* ================================================================== *)

Definition step_prologue (r : raft) (m : msg) : Res (raft * N + raft) :=
  let t := m_type m in
  if m_term m =? 0 then Ok (inr r)
  else if r_term r <? m_term m then
    let is_vote_req := (t =? MsgRequestVote) || (t =? MsgRequestPreVote) in
    let force := list_eqb (m_context m) CAMPAIGN_TRANSFER in
    let in_lease := r_check_quorum r && negb (r_leader_id r =? INVALID_ID)
                    && (r_election_elapsed r <? r_election_timeout r) in
    if is_vote_req && negb force && in_lease then Ok (inl (r, E_OK))
    else if (t =? MsgRequestPreVote)
            || ((t =? MsgRequestPreVoteResponse) && negb (m_reject m))
    then Ok (inr r)
    else if (t =? MsgAppend) || (t =? MsgHeartbeat) || (t =? MsgSnapshot)
    then r' <- become_follower r (m_term m) (m_from m) ;; Ok (inr r')
    else r' <- become_follower r (m_term m) INVALID_ID ;; Ok (inr r')
  else if m_term m <? r_term r then
    if (r_check_quorum r || r_pre_vote r) && ((t =? MsgHeartbeat) || (t =? MsgAppend)) then
      r' <- send r (new_message (m_from m) MsgAppendResponse None) ;; Ok (inl (r', E_OK))
    else if t =? MsgRequestPreVote then
      r' <- send r ((new_message (m_from m) MsgRequestPreVoteResponse None)
                      <| m_term := r_term r |> <| m_reject := true |>) ;;
      Ok (inl (r', E_OK))
    else Ok (inl (r, E_OK))
  else Ok (inr r).

Definition step_body (r : raft) (m : msg) : Res (raft * N) :=
  let t := m_type m in
  if t =? MsgHup then r' <- hup r false ;; Ok (r', E_OK)
  else if (t =? MsgRequestVote) || (t =? MsgRequestPreVote) then
    let can_vote := (r_vote r =? m_from m)
                    || ((r_vote r =? INVALID_ID) && (r_leader_id r =? INVALID_ID))
                    || ((t =? MsgRequestPreVote) && (r_term r <? m_term m)) in
    utd <- is_up_to_date (r_log r) (m_index m) (m_log_term m) ;;
    rt <- vote_resp_msg_type t ;;
    if can_vote && utd
       && ((last_index (r_log r) <? m_index m) || (r_priority r <=? get_priority m)%Z)
    then
      r1 <- send r ((new_message (m_from m) rt None) <| m_reject := false |>
                      <| m_term := m_term m |>) ;;
      if t =? MsgRequestVote
      then Ok (r1 <| r_election_elapsed := 0 |> <| r_vote := m_from m |>, E_OK)
      else Ok (r1, E_OK)
    else
      ci <- commit_info (r_log r) ;;
      r1 <- send r ((new_message (m_from m) rt None) <| m_reject := true |>
                      <| m_term := r_term r |> <| m_commit := fst ci |>
                      <| m_commit_term := snd ci |>) ;;
      r2 <- maybe_commit_by_vote r1 m ;; Ok (r2, E_OK)
  else step_role r m.

Lemma step_decompose r m :
  step r m = pre <- step_prologue r m ;;
             match pre with inl ret => Ok ret | inr r1 => step_body r1 m end.
Proof. reflexivity. Qed.

(* the prologue either returns early having queued at most one message that is not a
   MsgReadIndexResp, or continues with the same state, or continues as a follower of a
   strictly higher term with every pending read dropped *)
Lemma step_prologue_spec r m pre :
  step_prologue r m = Ok pre ->
  match pre with
  | inl (r1, c) => lf r r1 /\ c = E_OK
  | inr r1 => r1 = r \/
              (r_term r < m_term m /\ exists l, become_follower r (m_term m) l = Ok r1)
  end.
Proof.
  unfold step_prologue. intros H.
  destruct (m_term m =? 0); [inversion H; auto|].
  destruct (r_term r <? m_term m) eqn:Elt.
  - apply N.ltb_lt in Elt. cif H; [inversion H; split; [apply lf_refl|reflexivity]|].
    cif H; [inversion H; auto|].
    cif H; inv_bind H; inversion H; subst; right; split; eauto.
  - destruct (m_term m <? r_term r); [|inversion H; auto].
    cif H.
    + inv_bind H. inversion H; subst. split; [|reflexivity]. eapply send_lf; [eassumption|reflexivity].
    + cif H.
      * inv_bind H. inversion H; subst. split; [|reflexivity]. eapply send_lf; [eassumption|reflexivity].
      * inversion H; subst. split; [apply lf_refl|reflexivity].
Qed.

Lemma vote_resp_not_rir t rt : vote_resp_msg_type t = Ok rt -> (rt =? MsgReadIndexResp) = false.
Proof.
  unfold vote_resp_msg_type. destruct (t =? MsgRequestVote); [intros H; inversion H; reflexivity|].
  destruct (t =? MsgRequestPreVote); [intros H; inversion H; reflexivity|discriminate].
Qed.

(* MsgHup and vote requests *)
Lemma step_body_election_fx r m r' c :
  (m_type m =? MsgHup) || (m_type m =? MsgRequestVote) || (m_type m =? MsgRequestPreVote) = true ->
  step_body r m = Ok (r', c) -> fx r r'.
Proof.
  intros Hty H. unfold step_body in H.
  destruct (m_type m =? MsgHup).
  { inv_bind H. inversion H; subst. eapply hup_fx; eassumption. }
  cbn [orb] in Hty. rewrite Hty in H.
  inv_bind H. inv_bind H. apply vote_resp_not_rir in Hx0.
  cif H.
  - inv_bind H. apply send_lf in Hx1; [|unfold is_rir; cbn; exact Hx0]. apply lf_fx in Hx1.
    destruct (m_type m =? MsgRequestVote); inversion H; subst; [|exact Hx1].
    eapply fx_trans; [exact Hx1|]. fx_solve.
  - inv_bind H. inv_bind H. inv_bind H. inversion H; subst.
    apply send_lf in Hx2; [|unfold is_rir; cbn; exact Hx0]. apply lf_fx in Hx2.
    eapply fx_trans; [exact Hx2|]. eapply maybe_commit_by_vote_fx; eassumption.
Qed.

Definition read_type (t : N) : bool :=
  (t =? MsgReadIndex) || (t =? MsgHeartbeatResponse) || (t =? MsgReadIndexResp).

Lemma step_role_other_fx r m r' c :
  read_type (m_type m) = false -> step_role r m = Ok (r', c) -> fx r r'.
Proof.
  unfold read_type. intros Hty H.
  apply orb_false_elim in Hty. destruct Hty as [Hty H3]. apply orb_false_elim in Hty. destruct Hty as [H1 H2].
  unfold step_role in H. destruct (r_state r).
  - eapply step_follower_other_fx; eassumption.
  - eapply step_candidate_fx; eassumption.
  - eapply step_leader_other_fx; eassumption.
  - eapply step_candidate_fx; eassumption.
Qed.

Lemma step_body_other_fx r m r' c :
  read_type (m_type m) = false -> step_body r m = Ok (r', c) -> fx r r'.
Proof.
  intros Hty H.
  destruct ((m_type m =? MsgHup) || (m_type m =? MsgRequestVote) || (m_type m =? MsgRequestPreVote)) eqn:E.
  - eapply step_body_election_fx; eassumption.
  - apply orb_false_elim in E. destruct E as [E E3]. apply orb_false_elim in E. destruct E as [E1 E2].
    unfold step_body in H. rewrite E1, E2, E3 in H. cbn [orb] in H.
    eapply step_role_other_fx; eassumption.
Qed.

Lemma step_body_read_type r m :
  read_type (m_type m) = true -> step_body r m = step_role r m.
Proof.
  unfold read_type, step_body. intros H.
  destruct (m_type m =? MsgReadIndex) eqn:E1.
  { apply N.eqb_eq in E1. rewrite E1. reflexivity. }
  destruct (m_type m =? MsgHeartbeatResponse) eqn:E2.
  { apply N.eqb_eq in E2. rewrite E2. reflexivity. }
  cbn [orb] in H. apply N.eqb_eq in H. rewrite H. reflexivity.
Qed.

(* C08: every message that is not one of the three read-index message types leaves the read
   states alone, keeps or drops (as a whole) the pending reads, never lowers the commit index
   and queues no MsgReadIndexResp *)
Theorem step_other_fx r m r' c :
  read_type (m_type m) = false -> step r m = Ok (r', c) -> fx r r'.
Proof.
  intros Hty H. rewrite step_decompose in H. inv_bind H. apply step_prologue_spec in Hx.
  destruct x as [[r1 c1]|r1].
  - inversion H; subst. apply lf_fx. apply Hx.
  - apply step_body_other_fx in H; [|exact Hty].
    destruct Hx as [-> |(_ & l & Hbf)]; [exact H|].
    eapply fx_trans; [eapply become_follower_fx; eassumption|exact H].
Qed.

(* ================================================================== *)
(* 13. the three read-index message types, per role                    *)
(* ================================================================== *)

Definition gx (r r' : raft) : Prop :=
  committed (r_log r) <= committed (r_log r') /\ r_id r' = r_id r /\
  ro_option (r_read_only r') = ro_option (r_read_only r) /\
  (RoInv (r_read_only r) -> RoInv (r_read_only r')).

Lemma gx_refl r : gx r r.
Proof. unfold gx. split; [lia|]. split; [reflexivity|]. split; [reflexivity|auto]. Qed.

Lemma gx_trans a b c : gx a b -> gx b c -> gx a c.
Proof.
  intros (A1 & A2 & A3 & A4) (B1 & B2 & B3 & B4). unfold gx.
  split; [lia|]. split; [congruence|]. split; [congruence|auto].
Qed.

Lemma fx_gx r r' : fx r r' -> gx r r'.
Proof.
  intros (A & _ & B & C0 & _). unfold gx. split; [exact A|]. split; [exact C0|].
  destruct B as [B|B]; rewrite B; split; auto. intros _. apply RoInv_new.
Qed.

(* answering at once = respond_reads on the single status (request, commit index) *)
Lemma answer_now_exact r m r' c :
  readindex_answer_now r m = Ok (r', c) ->
  c = E_OK /\
  r' = r <| r_read_states := r_read_states r ++ rr_states (r_id r) [mkRIS m (committed (r_log r)) []] |>
         <| r_msgs := r_msgs r ++ rr_msgs r [mkRIS m (committed (r_log r)) []] |>.
Proof.
  unfold readindex_answer_now. intros H. inv_bind H. destruct x as [r1 om]. inv_bind H.
  inversion H; subst. split; [reflexivity|].
  apply (respond_reads_exact [mkRIS m (committed (r_log r)) []]).
  cbn [respond_reads ris_req ris_index]. rewrite Hx. cbn [bind]. rewrite Hx0. reflexivity.
Qed.

(* where new read states and new MsgReadIndexResp messages come from *)
Definition read_origin (r : raft) (m : msg) (r' : raft) (new : list read_state) (newm : list msg) : Prop :=
  (* nothing *)
  (new = [] /\ newm = []) \/
  (* a follower receives the answer to a request it forwarded *)
  (m_type m = MsgReadIndexResp /\ r_state r = Follower /\ newm = [] /\
   exists e, m_entries m = [e] /\ new = [mkRS (m_index m) (e_data e)]) \/
  (* a leader that needs no quorum round (single voter, or LeaseBased) answers at once *)
  (m_type m = MsgReadIndex /\ r_state r = Leader /\ commit_to_current_term r = Ok true /\
   (singleton_conf r = true \/ ro_option (r_read_only r) <> 0) /\
   new = rr_states (r_id r) [mkRIS m (committed (r_log r)) []] /\
   newm = rr_msgs r [mkRIS m (committed (r_log r)) []]) \/
  (* a Safe leader releases pending requests on a quorum of heartbeat acks *)
  (m_type m = MsgHeartbeatResponse /\ r_state r = Leader /\
   ro_option (r_read_only r) = 0 /\ m_context m <> [] /\ get_pr r (m_from m) <> None /\
   exists rs served,
     ro_find (ro_pending (r_read_only r)) (m_context m) = Some rs /\
     prs_has_quorum (r_prs r) (IdSet.insert (m_from m) (ris_acks rs)) = true /\
     ro_advance (hbr_ack r m) (m_context m) = Ok (r_read_only r', served) /\
     new = rr_states (r_id r) served /\ newm = rr_msgs r served).

Lemma hbr_ack_props r m :
  ro_option (hbr_ack r m) = ro_option (r_read_only r) /\
  (RoInv (r_read_only r) -> RoInv (hbr_ack r m)).
Proof.
  unfold hbr_ack. destruct (ro_recv_ack_spec (r_read_only r) (m_from m) (m_context m)) as (_ & A & _).
  split; [exact A|]. apply ro_recv_ack_RoInv.
Qed.

Lemma step_leader_read r m r' c :
  read_type (m_type m) = true -> r_state r = Leader -> step_leader r m = Ok (r', c) ->
  gx r r' /\ r_state r' = Leader /\ exists new newm,
    r_read_states r' = r_read_states r ++ new /\ rir (r_msgs r') = rir (r_msgs r) ++ newm /\
    read_origin r m r' new newm.
Proof.
  unfold read_type. intros Hty Hs H.
  assert (Hnone : r' = r -> gx r r' /\ r_state r' = Leader /\ exists new newm,
    r_read_states r' = r_read_states r ++ new /\ rir (r_msgs r') = rir (r_msgs r) ++ newm /\
    read_origin r m r' new newm).
  { intros ->. split; [apply gx_refl|]. split; [exact Hs|]. exists [], []. rewrite !app_nil_r.
    split; [reflexivity|]. split; [reflexivity|]. left. auto. }
  destruct (m_type m =? MsgReadIndex) eqn:E1.
  { apply N.eqb_eq in E1. rewrite step_leader_readindex_eq in H by exact E1.
    unfold step_leader_readindex in H. inv_bind H. destruct x; cbn [negb] in H.
    2:{ inversion H; subst. apply Hnone. reflexivity. }
    assert (Hnow : readindex_answer_now r m = Ok (r', c) ->
                   (singleton_conf r = true \/ ro_option (r_read_only r) <> 0) ->
      gx r r' /\ r_state r' = Leader /\ exists new newm,
        r_read_states r' = r_read_states r ++ new /\ rir (r_msgs r') = rir (r_msgs r) ++ newm /\
        read_origin r m r' new newm).
    { intros Hn Hmode. apply answer_now_exact in Hn. destruct Hn as [_ ->].
      split; [unfold gx; cbn; split; [lia|]; split; [reflexivity|]; split; [reflexivity|auto]|].
      split; [exact Hs|].
      eexists _, _. cbn -[rr_states rr_msgs rir]. split; [reflexivity|].
      split; [rewrite rir_app, rr_msgs_all_rir; reflexivity|].
      right. right. left. auto 10. }
    destruct (singleton_conf r) eqn:Esing; [apply Hnow; auto|].
    destruct (ro_option (r_read_only r) =? 0) eqn:Eo.
    2:{ apply Hnow; [exact H|]. right. apply N.eqb_neq. exact Eo. }
    inv_bind H. inv_bind H. inv_bind H. inversion H; subst. clear H.
    apply bcast_heartbeat_with_ctx_exact in Hx2. rewrite Hx2. cbn.
    split.
    { unfold gx. cbn. split; [lia|]. split; [reflexivity|]. split.
      - apply ro_add_request_spec in Hx1.
        destruct Hx1 as (e & rest & _ & [(st & _ & ->)|(_ & ->)]); reflexivity.
      - intros Hinv. eapply ro_add_request_RoInv; eassumption. }
    split; [exact Hs|]. exists [], []. rewrite !app_nil_r. split; [reflexivity|].
    split; [rewrite rir_app, rir_hb_list, app_nil_r; reflexivity|]. left. auto. }
  destruct (m_type m =? MsgHeartbeatResponse) eqn:E2.
  { apply N.eqb_eq in E2. unfold step_leader in H. rewrite E2 in H.
    change (MsgHeartbeatResponse =? MsgBeat) with false in H.
    change (MsgHeartbeatResponse =? MsgCheckQuorum) with false in H.
    change (MsgHeartbeatResponse =? MsgPropose) with false in H.
    change (MsgHeartbeatResponse =? MsgReadIndex) with false in H.
    change (MsgHeartbeatResponse =? MsgAppendResponse) with false in H.
    change (MsgHeartbeatResponse =? MsgHeartbeatResponse) with true in H. cbv iota in H.
    inv_bind H. inversion H; subst. clear H.
    apply readindex_served_needs_quorum in Hx.
    destruct Hx as (served & Hrs & Hrir & Hl & Ht & Hst & Hi & Hcases).
    destruct (hbr_ack_props r m) as [Hao Hai].
    split.
    { unfold gx. rewrite Hl. split; [lia|]. split; [exact Hi|].
      destruct Hcases as [(_ & -> & _)|[(_ & -> & _)|(_ & _ & _ & rs & _ & _ & Hadv)]]; auto.
      split.
      - apply ro_advance_sub in Hadv. destruct Hadv as (A & _). congruence.
      - intros Hinv. eapply ro_advance_RoInv; [exact Hadv|]. auto. }
    split; [congruence|]. exists (rr_states (r_id r) served), (rr_msgs r served).
    split; [exact Hrs|]. split; [exact Hrir|].
    destruct Hcases as [(-> & _)|[(-> & _)|(Ho & Hne & Htr & rs & Hf & Hq & Hadv)]].
    - left. auto.
    - left. auto.
    - right. right. right. split; [exact E2|]. split; [exact Hs|]. split; [exact Ho|].
      split; [exact Hne|]. split; [exact Htr|]. exists rs, served. auto 10. }
  cbn [orb] in Hty. apply N.eqb_eq in Hty. unfold step_leader in H. rewrite Hty in H. cbn in H.
  inversion H; subst. apply Hnone. reflexivity.
Qed.

Lemma read_origin_none r m r' : read_origin r m r' [] [].
Proof. left. auto. Qed.

Lemma step_candidate_read r m r' c :
  read_type (m_type m) = true -> step_candidate r m = Ok (r', c) -> r' = r.
Proof.
  unfold read_type. intros Hty H.
  assert (Hc : forall t, t = MsgReadIndex \/ t = MsgHeartbeatResponse \/ t = MsgReadIndexResp ->
    (t =? MsgPropose) = false /\ ((t =? MsgAppend) || (t =? MsgHeartbeat) || (t =? MsgSnapshot)) = false /\
    ((t =? MsgRequestPreVoteResponse) || (t =? MsgRequestVoteResponse)) = false).
  { intros t [-> |[-> | ->]]; repeat split; reflexivity. }
  assert (Ht : m_type m = MsgReadIndex \/ m_type m = MsgHeartbeatResponse \/ m_type m = MsgReadIndexResp).
  { destruct (m_type m =? MsgReadIndex) eqn:E1; [left; apply N.eqb_eq; exact E1|].
    destruct (m_type m =? MsgHeartbeatResponse) eqn:E2; [right; left; apply N.eqb_eq; exact E2|].
    right; right. apply N.eqb_eq. exact Hty. }
  destruct (Hc _ Ht) as (A & B & C0). unfold step_candidate in H. rewrite A, B, C0 in H.
  inversion H. reflexivity.
Qed.

Lemma step_follower_read r m r' c :
  read_type (m_type m) = true -> r_state r = Follower -> step_follower r m = Ok (r', c) ->
  gx r r' /\ r_state r' = Follower /\ r_read_only r' = r_read_only r /\ exists new newm,
    r_read_states r' = r_read_states r ++ new /\ rir (r_msgs r') = rir (r_msgs r) ++ newm /\
    read_origin r m r' new newm.
Proof.
  unfold read_type. intros Hty Hs H.
  destruct (m_type m =? MsgReadIndexResp) eqn:E3.
  - apply N.eqb_eq in E3. rewrite follower_readindex_resp in H by exact E3.
    destruct (m_entries m) as [|e [|e2 rest]] eqn:Ee.
    + inversion H; subst. split; [apply gx_refl|]. split; [exact Hs|]. split; [reflexivity|]. exists [], [].
      rewrite !app_nil_r. auto using read_origin_none.
    + inv_bind H. inversion H; subst. clear H. destruct x as [l' b]. apply log_maybe_commit_le in Hx.
      split; [unfold gx; cbn; split; [exact Hx|]; split; [reflexivity|]; split; [reflexivity|auto]|].
      split; [exact Hs|]. split; [reflexivity|]. exists [mkRS (m_index m) (e_data e)], []. cbn. rewrite app_nil_r.
      split; [reflexivity|]. split; [reflexivity|]. right. left.
      split; [exact E3|]. split; [exact Hs|]. split; [reflexivity|]. exists e. auto.
    + inversion H; subst. split; [apply gx_refl|]. split; [exact Hs|]. split; [reflexivity|]. exists [], [].
      rewrite !app_nil_r. auto using read_origin_none.
  - rewrite orb_false_r in Hty.
    assert (Hlf : lf r r').
    { destruct (m_type m =? MsgReadIndex) eqn:E1.
      - apply N.eqb_eq in E1. rewrite follower_readindex_forward in H by exact E1.
        destruct (r_leader_id r =? INVALID_ID); [inversion H; subst; apply lf_refl|].
        inv_bind H. inversion H; subst. eapply send_lf; [eassumption|].
        unfold is_rir. cbn. rewrite E1. reflexivity.
      - cbn [orb] in Hty. apply N.eqb_eq in Hty. unfold step_follower in H. rewrite Hty in H.
        cbn in H. inversion H; subst. apply lf_refl. }
    split; [apply fx_gx; apply lf_fx; exact Hlf|].
    destruct Hlf as (_ & Hro & Hrs & _ & _ & Hst & _ & _ & Hrir).
    split; [congruence|]. split; [exact Hro|]. exists [], []. rewrite !app_nil_r. auto using read_origin_none.
Qed.

Lemma step_role_read r m r' c :
  read_type (m_type m) = true -> step_role r m = Ok (r', c) ->
  gx r r' /\ exists new newm,
    r_read_states r' = r_read_states r ++ new /\ rir (r_msgs r') = rir (r_msgs r) ++ newm /\
    read_origin r m r' new newm.
Proof.
  intros Hty H. unfold step_role in H.
  assert (Hcand : step_candidate r m = Ok (r', c) ->
    gx r r' /\ exists new newm,
      r_read_states r' = r_read_states r ++ new /\ rir (r_msgs r') = rir (r_msgs r) ++ newm /\
      read_origin r m r' new newm).
  { intros Hc. apply step_candidate_read in Hc; [|exact Hty]. subst r'. split; [apply gx_refl|].
    exists [], []. rewrite !app_nil_r. auto using read_origin_none. }
  destruct (r_state r) eqn:Es; auto.
  - destruct (step_follower_read r m r' c Hty Es H) as (A & _ & _ & B). auto.
  - destruct (step_leader_read r m r' c Hty Es H) as (A & _ & B). auto.
Qed.

(* C08: the complete account of what a step does to the read states, to the queued
   MsgReadIndexResp messages, to the commit index and to the ReadOnly bookkeeping.
   [r1] is the state after the term prologue: [r] itself, or [r] turned follower of the
   strictly higher term of [m] (which has dropped every pending read). *)
Theorem step_read_origin r m r' c :
  step r m = Ok (r', c) ->
  gx r r' /\
  exists r1 new newm,
    (r1 = r \/ (r_term r < m_term m /\ exists l, become_follower r (m_term m) l = Ok r1)) /\
    r_read_states r' = r_read_states r ++ new /\
    rir (r_msgs r') = rir (r_msgs r) ++ newm /\
    read_origin r1 m r' new newm.
Proof.
  intros H. destruct (read_type (m_type m)) eqn:Hty.
  2:{ apply step_other_fx in H; [|exact Hty]. split; [apply fx_gx; exact H|].
      destruct H as (_ & A & _ & _ & B). exists r, [], []. rewrite !app_nil_r.
      auto using read_origin_none. }
  rewrite step_decompose in H. inv_bind H. apply step_prologue_spec in Hx.
  destruct x as [[r1 c1]|r1].
  - inversion H; subst. destruct Hx as [Hlf _]. split; [apply fx_gx; apply lf_fx; exact Hlf|].
    destruct Hlf as (_ & _ & A & _ & _ & _ & _ & _ & B). exists r, [], []. rewrite !app_nil_r.
    auto using read_origin_none.
  - rewrite step_body_read_type in H by exact Hty. apply step_role_read in H; [|exact Hty].
    destruct H as (Hg & new & newm & A & B & C0).
    destruct Hx as [-> |(Hlt & l & Hbf)].
    + split; [exact Hg|]. exists r, new, newm. auto.
    + pose proof (become_follower_fx _ _ _ _ Hbf) as Hf.
      split; [eapply gx_trans; [apply fx_gx; exact Hf|exact Hg]|].
      destruct Hf as (_ & Frs & _ & _ & Frir). rewrite Frs in A. rewrite Frir in B.
      exists r1, new, newm. split; [right; eauto|]. auto.
Qed.

(* C08: step never lowers the commit index *)
Theorem step_commit_monotone r m r' c :
  step r m = Ok (r', c) -> committed (r_log r) <= committed (r_log r').
Proof. intros H. apply step_read_origin in H. apply H. Qed.

(* C08: step keeps the ReadOnly representation invariant and the read-only option *)
Theorem step_RoInv r m r' c :
  step r m = Ok (r', c) ->
  ro_option (r_read_only r') = ro_option (r_read_only r) /\
  (RoInv (r_read_only r) -> RoInv (r_read_only r')).
Proof. intros H. apply step_read_origin in H. destruct H as ((_ & _ & A & B) & _). auto. Qed.

(* ================================================================== *)
(* 14. post_conf_change: the re-check after a membership change        *)
(* ================================================================== *)

(* middle frame: like [lf] but the commit index may grow *)
Definition mf (r r' : raft) : Prop :=
  committed (r_log r) <= committed (r_log r') /\ r_read_only r' = r_read_only r /\
  r_read_states r' = r_read_states r /\ r_term r' = r_term r /\ r_id r' = r_id r /\
  r_state r' = r_state r /\ t_conf (r_prs r') = t_conf (r_prs r) /\
  rir (r_msgs r') = rir (r_msgs r).

Lemma mf_refl r : mf r r.
Proof. unfold mf. repeat split; auto. lia. Qed.

Lemma mf_trans a b c : mf a b -> mf b c -> mf a c.
Proof. unfold mf. intros (A1 & A) (B1 & B). split; [lia|]. intuition congruence. Qed.

Lemma lf_mf r r' : lf r r' -> mf r r'.
Proof. intros (A & B & C0 & D & E & F & G & _ & I). unfold mf. rewrite A. repeat split; auto. lia. Qed.

Lemma mf_fx r r' : mf r r' -> fx r r'.
Proof. intros (A & B & C0 & _ & D & _ & _ & E). unfold fx. auto 10. Qed.

Lemma maybe_commit_mf r r' b : maybe_commit r = Ok (r', b) -> mf r r'.
Proof.
  unfold maybe_commit. intros H. inv_bind H. destruct x as [l' b'].
  apply log_maybe_commit_le in Hx.
  destruct b'.
  - destruct (get_pr r (r_id r)); inversion H; subst; unfold mf; cbn; repeat split; auto.
  - inversion H; subst. unfold mf. cbn. repeat split; auto.
Qed.

(* the read-index half of post_conf_change *)
Definition pcc_reads (r2 : raft) : Res raft :=
  match ro_last_pending_request_ctx (r_read_only r2) with
  | None => Ok r2
  | Some ctx =>
      let '(ro', acks) := ro_recv_ack (r_read_only r2) (r_id r2) ctx in
      let r2' := r2 <| r_read_only := ro' |> in
      match acks with
      | Some a =>
          if prs_has_quorum (r_prs r2') a then
            z <- ro_advance (r_read_only r2') ctx ;;
            let '(ro2, rss) := z in
            respond_reads (r2' <| r_read_only := ro2 |>) rss
          else Ok r2'
      | None => Ok r2'
      end
  end.

(* the leader re-checks the LAST pending request against the (new) configuration, counting
   only its own ack in addition to those recorded; a quorum releases the whole queue *)
Lemma pcc_reads_spec r2 r3 :
  pcc_reads r2 = Ok r3 ->
  gx r2 r3 /\ r_term r3 = r_term r2 /\ r_state r3 = r_state r2 /\
  r_prs r3 = r_prs r2 /\ r_lead_transferee r3 = r_lead_transferee r2 /\
  exists served,
    r_read_states r3 = r_read_states r2 ++ rr_states (r_id r2) served /\
    r_msgs r3 = r_msgs r2 ++ rr_msgs r2 served /\
    (served = [] \/
     exists ctx rs,
       ro_last_pending_request_ctx (r_read_only r2) = Some ctx /\
       ro_find (ro_pending (r_read_only r2)) ctx = Some rs /\
       prs_has_quorum (r_prs r2) (IdSet.insert (r_id r2) (ris_acks rs)) = true /\
       ro_advance (fst (ro_recv_ack (r_read_only r2) (r_id r2) ctx)) ctx = Ok (r_read_only r3, served)).
Proof.
  unfold pcc_reads. intros H.
  assert (Hnone : forall ro', ro_option ro' = ro_option (r_read_only r2) ->
            (RoInv (r_read_only r2) -> RoInv ro') ->
            r3 = r2 <| r_read_only := ro' |> ->
    gx r2 r3 /\ r_term r3 = r_term r2 /\ r_state r3 = r_state r2 /\
    r_prs r3 = r_prs r2 /\ r_lead_transferee r3 = r_lead_transferee r2 /\
    exists served,
      r_read_states r3 = r_read_states r2 ++ rr_states (r_id r2) served /\
      r_msgs r3 = r_msgs r2 ++ rr_msgs r2 served /\
      (served = [] \/
       exists ctx rs,
         ro_last_pending_request_ctx (r_read_only r2) = Some ctx /\
         ro_find (ro_pending (r_read_only r2)) ctx = Some rs /\
         prs_has_quorum (r_prs r2) (IdSet.insert (r_id r2) (ris_acks rs)) = true /\
         ro_advance (fst (ro_recv_ack (r_read_only r2) (r_id r2) ctx)) ctx = Ok (r_read_only r3, served))).
  { intros ro' Ho Hi ->. split; [unfold gx; cbn; split; [lia|]; auto|].
    repeat (split; [reflexivity|]). exists []. cbn. rewrite !app_nil_r. auto. }
  destruct (ro_last_pending_request_ctx (r_read_only r2)) as [ctx|] eqn:El.
  2:{ inversion H; subst. apply (Hnone (r_read_only r3)); auto. destruct r3; reflexivity. }
  destruct (ro_recv_ack_spec (r_read_only r2) (r_id r2) ctx) as (Hs & Ho & _).
  pose proof (ro_recv_ack_RoInv (r_read_only r2) (r_id r2) ctx) as Hi.
  destruct (ro_recv_ack (r_read_only r2) (r_id r2) ctx) as [ro' acks] eqn:Era. cbn [fst snd] in *.
  destruct (ro_find (ro_pending (r_read_only r2)) ctx) as [rs|] eqn:Ef; cbn [option_map] in Hs; subst acks.
  2:{ inversion H; subst. apply (Hnone ro'); auto. }
  change (r_prs (r2 <| r_read_only := ro' |>)) with (r_prs r2) in H.
  destruct (prs_has_quorum (r_prs r2) (IdSet.insert (r_id r2) (ris_acks rs))) eqn:Eq.
  2:{ inversion H; subst. apply (Hnone ro'); auto. }
  inv_bind H. destruct x as [ro2 rss].
  change (r_read_only (r2 <| r_read_only := ro' |>)) with ro' in Hx.
  apply respond_reads_exact in H. subst r3. cbn -[rr_states rr_msgs].
  split.
  { unfold gx. cbn -[rr_states rr_msgs]. split; [lia|]. split; [reflexivity|]. split.
    - apply ro_advance_sub in Hx. destruct Hx as (A & _). congruence.
    - intros Hinv. eapply ro_advance_RoInv; [exact Hx|]. auto. }
  repeat (split; [reflexivity|]). exists rss. split; [reflexivity|]. split; [reflexivity|].
  right. exists ctx, rs. split; [first [exact El|reflexivity]|].
  split; [first [exact Ef|reflexivity]|]. split; [exact Eq|]. rewrite Era. exact Hx.
Qed.

Lemma post_conf_change_eq r :
  post_conf_change r =
  let cs := to_conf_state (conf_of r) in
  let is_voter := voters_contains (conf_of r) (r_id r) in
  let r := r <| r_promotable := is_voter |> in
  if negb is_voter && is_leader r then Ok (r, cs) else
  if negb (is_leader r) || match cs_voters cs with [] => true | _ => false end then Ok (r, cs) else
  x <- maybe_commit r ;;
  let '(r1, b) := x in
  r2 <- (if b then bcast_append r1
         else for_each_peer (pids (t_progress (r_prs r1))) (r_id r1)
                (fun r id => match get_pr r id with
                             | None => Panic site_pr_unwrap
                             | Some pr =>
                                 y <- maybe_send_append r id pr false ;;
                                 let '(r', pr', _) := y in Ok (put_pr r' id pr')
                             end) r1) ;;
  r3 <- pcc_reads r2 ;;
  let r4 := match r_lead_transferee r3 with
            | Some e => if negb (voters_contains (conf_of r3) e)
                        then r3 <| r_lead_transferee := None |> else r3
            | None => r3
            end in
  Ok (r4, cs).
Proof. reflexivity. Qed.

(* C08 (quorum-shrinking membership change): post_conf_change serves pending reads only if
   the acks recorded for the LAST pending request, plus the leader itself, are a quorum of the
   configuration now in force; what is served is again the recorded index of each request *)
Theorem post_conf_change_reads r r' cs :
  post_conf_change r = Ok (r', cs) ->
  gx r r' /\
  exists served,
    r_read_states r' = r_read_states r ++ rr_states (r_id r) served /\
    rir (r_msgs r') = rir (r_msgs r) ++ rr_msgs r served /\
    (served = [] \/
     (is_leader r = true /\
      exists ctx rs,
        ro_last_pending_request_ctx (r_read_only r) = Some ctx /\
        ro_find (ro_pending (r_read_only r)) ctx = Some rs /\
        prs_has_quorum (r_prs r) (IdSet.insert (r_id r) (ris_acks rs)) = true /\
        ro_advance (fst (ro_recv_ack (r_read_only r) (r_id r) ctx)) ctx = Ok (r_read_only r', served))).
Proof.
  rewrite post_conf_change_eq. cbv zeta. intros H.
  set (r0 := r <| r_promotable := voters_contains (conf_of r) (r_id r) |>) in *.
  assert (H00 : mf r r0) by (unfold r0, mf; cbn; repeat split; auto; lia).
  assert (Hnone : forall ra, mf r ra -> gx r ra /\
    exists served,
      r_read_states ra = r_read_states r ++ rr_states (r_id r) served /\
      rir (r_msgs ra) = rir (r_msgs r) ++ rr_msgs r served /\
      (served = [] \/
       (is_leader r = true /\
        exists ctx rs,
          ro_last_pending_request_ctx (r_read_only r) = Some ctx /\
          ro_find (ro_pending (r_read_only r)) ctx = Some rs /\
          prs_has_quorum (r_prs r) (IdSet.insert (r_id r) (ris_acks rs)) = true /\
          ro_advance (fst (ro_recv_ack (r_read_only r) (r_id r) ctx)) ctx = Ok (r_read_only ra, served)))).
  { intros ra Hm. split; [apply fx_gx; apply mf_fx; exact Hm|].
    destruct Hm as (_ & _ & A & _ & _ & _ & _ & B). exists []. cbn. rewrite !app_nil_r. auto. }
  cif H. { inversion H; subst. apply Hnone. exact H00. }
  cif H. { inversion H; subst. apply Hnone. exact H00. }
  assert (Hlead : is_leader r = true).
  { apply orb_false_elim in E0. destruct E0 as [E0 _]. apply negb_false_iff in E0. exact E0. }
  inv_bind H. destruct x as [r1 b]. apply maybe_commit_mf in Hx.
  inv_bind H. inv_bind H. inversion H; subst. clear H.
  assert (H12 : mf r1 x).
  { apply lf_mf. destruct b; [eapply bcast_append_lf; eassumption|].
    revert Hx0. apply for_each_peer_lf. intros ra id ra' Hf.
    destruct (get_pr ra id); [|discriminate]. inv_bind Hf. destruct x1 as [[rb pb] bb].
    inversion Hf; subst. eapply lf_trans; [eapply maybe_send_append_lf; eassumption|apply put_pr_lf]. }
  assert (H02 : mf r x) by exact (mf_trans _ _ _ H00 (mf_trans _ _ _ Hx H12)).
  apply pcc_reads_spec in Hx1.
  destruct Hx1 as (Hg & Ht3 & Hs3 & Hp3 & Hl3 & served & Hrs & Hms & Hcase).
  set (r4 := match r_lead_transferee x0 with
             | Some e => if negb (voters_contains (conf_of x0) e) then x0 <| r_lead_transferee := None |> else x0
             | None => x0 end).
  assert (H34 : r_read_only r4 = r_read_only x0 /\ r_read_states r4 = r_read_states x0 /\
                r_msgs r4 = r_msgs x0 /\ r_log r4 = r_log x0 /\ r_id r4 = r_id x0).
  { unfold r4. destruct (r_lead_transferee x0); [|auto 10].
    destruct (negb (voters_contains (conf_of x0) n)); auto 10. }
  destruct H34 as (A4 & B4 & C4 & D4 & E4).
  pose proof H02 as H02'.
  destruct H02 as (Hc2 & Hro2 & Hrs2 & Ht2 & Hi2 & Hst2 & Hcf2 & Hrir2).
  split.
  { eapply gx_trans; [apply fx_gx; apply mf_fx; exact H02'|].
    eapply gx_trans; [exact Hg|]. unfold gx. rewrite A4, D4, E4.
    split; [lia|]. split; [reflexivity|]. split; [reflexivity|auto]. }
  exists served. rewrite B4, C4, Hrs, Hms, Hrs2, Hi2, rir_app, Hrir2, rr_msgs_all_rir,
    (rr_msgs_ext x r served Hi2 Ht2).
  split; [reflexivity|]. split; [reflexivity|].
  destruct Hcase as [-> |(ctx & rs & Hl & Hf & Hq & Hadv)]; [left; reflexivity|].
  right. split; [exact Hlead|]. exists ctx, rs. rewrite A4. rewrite Hro2, Hi2 in *.
  split; [exact Hl|]. split; [exact Hf|]. split; [|exact Hadv].
  rewrite <- (prs_has_quorum_conf _ _ _ Hcf2). exact Hq.
Qed.

(* ================================================================== *)
(* 15. every other API function: commit index monotone, read-only      *)
(*     option kept, representation invariant kept                      *)
(* ================================================================== *)

Theorem tick_gx r r' b : tick r = Ok (r', b) -> gx r r'.
Proof.
  intros H. unfold tick in H.
  assert (Hstep : forall ra mm rb cb, step ra mm = Ok (rb, cb) -> gx ra rb).
  { intros ra mm rb cb Hs. apply step_read_origin in Hs. apply Hs. }
  assert (Hel : tick_election r = Ok (r', b) -> gx r r').
  { intros He. unfold tick_election in He.
    cif He.
    - inversion He; subst. apply fx_gx. fx_solve.
    - inv_bind He. inversion He; subst. destruct x as [r1 c1]. cbn [fst].
      apply Hstep in Hx. eapply gx_trans; [|exact Hx]. apply fx_gx. fx_solve. }
  destruct (r_state r); try (apply Hel; exact H).
  clear Hel. unfold tick_heartbeat in H. inv_bind H. destruct x as [r1 hr].
  set (r0 := r <| r_heartbeat_elapsed := r_heartbeat_elapsed r + 1 |>
               <| r_election_elapsed := r_election_elapsed r + 1 |>) in *.
  assert (H0 : gx r r0) by (apply fx_gx; unfold r0; fx_solve).
  assert (H1 : gx r0 r1).
  { destruct (r_election_timeout r0 <=? r_election_elapsed r0); [|inversion Hx; subst; apply gx_refl].
    inv_bind Hx. destruct x as [ra ha]. inversion Hx; subst. clear Hx.
    assert (Hra : gx r0 ra).
    { destruct (r_check_quorum (r0 <| r_election_elapsed := 0 |>)).
      - inv_bind Hx0. inversion Hx0; subst. destruct x as [rb cb]. cbn [fst].
        apply Hstep in Hx. eapply gx_trans; [|exact Hx]. apply fx_gx. fx_solve.
      - inversion Hx0; subst. apply fx_gx. fx_solve. }
    destruct (is_leader ra && _); [|exact Hra].
    eapply gx_trans; [exact Hra|]. apply fx_gx. fx_solve. }
  eapply gx_trans; [exact H0|]. eapply gx_trans; [exact H1|].
  destruct (negb (is_leader r1)); [inversion H; subst; apply gx_refl|].
  destruct (r_heartbeat_timeout r1 <=? r_heartbeat_elapsed r1); [|inversion H; subst; apply gx_refl].
  inv_bind H. inversion H; subst. destruct x as [rb cb]. cbn [fst].
  apply Hstep in Hx0. eapply gx_trans; [|exact Hx0]. apply fx_gx. fx_solve.
Qed.

Theorem raft_apply_conf_change_gx r cc r' ocs : raft_apply_conf_change r cc = Ok (r', ocs) -> gx r r'.
Proof.
  unfold raft_apply_conf_change. intros H.
  match type of H with match ?res with _ => _ end = _ => destruct res as [[c' chs]|e] end.
  - inv_bind H. inversion H; subst. destruct x as [r1 cs1]. cbn [fst].
    apply post_conf_change_reads in Hx. destruct Hx as [Hg _].
    eapply gx_trans; [|exact Hg]. apply fx_gx. unfold set_conf_prs. fx_solve.
  - inversion H; subst. apply gx_refl.
Qed.

Lemma maybe_persist_committed l i t l' b : maybe_persist l i t = Ok (l', b) -> committed l' = committed l.
Proof.
  unfold maybe_persist. intros H. cif H; [|inversion H; reflexivity].
  inv_bind H. destruct (term_ok_eq x t); inversion H; reflexivity.
Qed.

Theorem on_persist_entries_fx r i t r' : on_persist_entries r i t = Ok r' -> fx r r'.
Proof.
  unfold on_persist_entries. intros H. inv_bind H. destruct x as [l' upd].
  apply maybe_persist_committed in Hx.
  assert (H0 : fx r (r <| r_log := l' |>)) by (apply set_log_fx; lia).
  eapply fx_trans; [exact H0|].
  destruct (upd && is_leader (r <| r_log := l' |>)); [|inversion H; subst; apply fx_refl].
  destruct (get_pr (r <| r_log := l' |>) (r_id (r <| r_log := l' |>))); [|inversion H; subst; apply fx_refl].
  destruct (maybe_update p i) as [pr' u].
  eapply fx_trans; [apply lf_fx; apply put_pr_lf|].
  destruct u; [|inversion H; subst; apply fx_refl].
  inv_bind H. destruct x as [r1 c]. apply maybe_commit_fx in Hx0.
  eapply fx_trans; [exact Hx0|].
  destruct (c && should_bcast_commit r1); [apply lf_fx; eapply bcast_append_lf; exact H|].
  inversion H; subst; apply fx_refl.
Qed.

Theorem on_persist_snap_fx r i r' : on_persist_snap r i = Ok r' -> fx r r'.
Proof.
  unfold on_persist_snap. intros H. inv_bind H. inversion H; subst. apply set_log_fx.
  unfold maybe_persist_snap in Hx. destruct (persisted (r_log r) <? i); [|inversion Hx; cbn; lia].
  destruct (committed (r_log r) <? i); [discriminate|]. destruct (_ <=? i); [discriminate|].
  inversion Hx; subst. cbn. lia.
Qed.

Theorem commit_apply_internal_fx r app skip r' : commit_apply_internal r app skip = Ok r' -> fx r r'.
Proof.
  unfold commit_apply_internal. intros H. inv_bind H.
  assert (Hc : committed x = committed (r_log r)).
  { destruct (negb skip).
    - unfold applied_to in Hx. destruct (app =? 0); [inversion Hx; reflexivity|].
      destruct (_ || _); [discriminate|]. inversion Hx; reflexivity.
    - destruct (app =? 0); [discriminate|]. inversion Hx; reflexivity. }
  assert (H0 : fx r (r <| r_log := x |>)) by (apply set_log_fx; lia).
  eapply fx_trans; [exact H0|].
  cif H; [|inversion H; subst; apply fx_refl].
  inv_bind H. destruct x0 as [r1 ok]. destruct ok; cbn [negb] in H; [|discriminate].
  inversion H; subst. apply append_entry_lite in Hx0. destruct Hx0 as (A & B & C0 & D & F).
  cbn in A, B, C0, D, F. unfold fx. cbn. rewrite A, B, C0, D, F. repeat split; auto. lia.
Qed.

Theorem commit_apply_fx r app r' : commit_apply r app = Ok r' -> fx r r'.
Proof. apply commit_apply_internal_fx. Qed.

Theorem load_state_fx r hs r' : load_state r hs = Ok r' -> fx r r'.
Proof.
  unfold load_state. intros H. destruct (hs_commit hs <? committed (r_log r)) eqn:E; [discriminate|].
  cbn [orb] in H. destruct (last_index (r_log r) <? hs_commit hs); [discriminate|].
  inversion H; subst. unfold fx. cbn. repeat split; auto. lia.
Qed.

Theorem request_snapshot_fx r r' c : request_snapshot r = Ok (r', c) -> fx r r'.
Proof.
  unfold request_snapshot. intros H.
  destruct (is_leader r); [inversion H; apply fx_refl|].
  destruct (r_leader_id r =? INVALID_ID); [inversion H; apply fx_refl|].
  cif H; [inversion H; apply fx_refl|].
  cif H; [inversion H; apply fx_refl|].
  inv_bind H. destruct x as [rt|]; [|discriminate].
  destruct (r_term r =? rt); [|inversion H; apply fx_refl].
  inv_bind H. inversion H; subst. apply send_request_snapshot_lf in Hx0. apply lf_fx in Hx0.
  eapply fx_trans; [|exact Hx0]. fx_solve.
Qed.

Theorem ping_fx r r' : ping r = Ok r' -> fx r r'.
Proof.
  unfold ping. intros H. destruct (is_leader r); [|inversion H; apply fx_refl].
  apply lf_fx. eapply bcast_heartbeat_with_ctx_lf; exact H.
Qed.

Theorem misc_api_fx :
  (forall r t c r', adjust_max_inflight_msgs r t c = Ok r' -> fx r r') /\
  (forall r, fx r (maybe_free_inflight_buffers r)) /\
  (forall r k, fx r (set_max_apply_unpersisted_log_limit r k)) /\
  (forall r e r', enable_group_commit r e = Ok r' -> fx r r') /\
  (forall r ids r', assign_commit_groups r ids = Ok r' -> fx r r').
Proof.
  split; [|split; [|split; [|split]]].
  - intros r t c r' H. unfold adjust_max_inflight_msgs in H.
    destruct (get_pr r t); [|inversion H; apply fx_refl]. inv_bind H. inversion H; subst.
    apply lf_fx. apply put_pr_lf.
  - intros r. unfold maybe_free_inflight_buffers. fx_solve.
  - intros r k. unfold set_max_apply_unpersisted_log_limit. fx_solve.
  - intros r e r' H. unfold enable_group_commit in H.
    set (r0 := r <| r_prs := (r_prs r) <| t_group_commit := e |> |>) in *.
    assert (H0 : fx r r0) by (unfold r0; fx_solve).
    eapply fx_trans; [exact H0|].
    destruct (is_leader r0 && negb e); [|inversion H; apply fx_refl].
    inv_bind H. destruct x as [r1 b]. apply maybe_commit_fx in Hx. cbn [fst snd] in H.
    eapply fx_trans; [exact Hx|]. destruct b; [apply lf_fx; eapply bcast_append_lf; exact H|].
    inversion H; apply fx_refl.
  - intros r ids r' H. unfold assign_commit_groups in H. inv_bind H.
    set (r0 := r <| r_prs := (r_prs r) <| t_progress := x |> |>) in *.
    assert (H0 : fx r r0) by (unfold r0; fx_solve).
    eapply fx_trans; [exact H0|].
    destruct (is_leader r0 && t_group_commit (r_prs r0)); [|inversion H; apply fx_refl].
    inv_bind H. destruct x0 as [r1 b]. apply maybe_commit_fx in Hx0. cbn [fst snd] in H.
    eapply fx_trans; [exact Hx0|]. destruct b; [apply lf_fx; eapply bcast_append_lf; exact H|].
    inversion H; apply fx_refl.
Qed.

(* --- RawNode wrappers --- *)

Definition gxn (n n' : rawnode) : Prop := gx (rn_raft n) (rn_raft n').

Lemma step_gx r m r' c : step r m = Ok (r', c) -> gx r r'.
Proof. intros H. apply step_read_origin in H. apply H. Qed.

Lemma lift2_step_gxn n m n' c : lift2 n (step (rn_raft n) m) = Ok (n', c) -> gxn n n'.
Proof.
  unfold lift2, gxn. intros H. inv_bind H. inversion H; subst. destruct x as [r1 c1]. cbn.
  eapply step_gx; eassumption.
Qed.

Lemma step_fst_gxn n m x : step (rn_raft n) m = Ok x -> gxn n (n <| rn_raft := fst x |>).
Proof. destruct x as [r1 c1]. unfold gxn. cbn. apply step_gx. Qed.

Theorem rn_step_gx n m n' c : rn_step n m = Ok (n', c) -> gxn n n'.
Proof.
  unfold rn_step. intros H. destruct (is_local_msg (m_type m)); [inversion H; apply gx_refl|].
  cif H; [eapply lift2_step_gxn; exact H|inversion H; apply gx_refl].
Qed.

Theorem rn_tick_gx n n' b : rn_tick n = Ok (n', b) -> gxn n n'.
Proof.
  unfold rn_tick, gxn. intros H. inv_bind H. inversion H; subst. destruct x as [r1 b1]. cbn.
  eapply tick_gx; eassumption.
Qed.

Theorem rn_campaign_gx n n' c : rn_campaign n = Ok (n', c) -> gxn n n'.
Proof. apply lift2_step_gxn. Qed.

Theorem rn_propose_gx n ctx data n' c : rn_propose n ctx data = Ok (n', c) -> gxn n n'.
Proof. apply lift2_step_gxn. Qed.

Theorem rn_propose_conf_change_gx n ctx data ty ci n' c :
  rn_propose_conf_change n ctx data ty ci = Ok (n', c) -> gxn n n'.
Proof. apply lift2_step_gxn. Qed.

Theorem rn_apply_conf_change_gx n cc n' ocs : rn_apply_conf_change n cc = Ok (n', ocs) -> gxn n n'.
Proof.
  unfold rn_apply_conf_change, gxn. intros H. inv_bind H. inversion H; subst.
  destruct x as [r1 o1]. cbn. eapply raft_apply_conf_change_gx; eassumption.
Qed.

Theorem rn_ping_gx n n' : rn_ping n = Ok n' -> gxn n n'.
Proof.
  unfold rn_ping, lift, gxn. intros H. inv_bind H. inversion H; subst. cbn.
  apply fx_gx. eapply ping_fx; eassumption.
Qed.

Lemma reduce_uncommitted_size_lf r ce : lf r (reduce_uncommitted_size r ce).
Proof.
  unfold reduce_uncommitted_size. destruct (negb (is_leader r)); [apply lf_refl|].
  destruct (_ || _); [apply lf_refl|]. destruct (_ <? _); lf_solve.
Qed.

Lemma gen_light_ready_gx n n' lr : gen_light_ready n = Ok (n', lr) -> gxn n n'.
Proof.
  unfold gen_light_ready, gxn. intros H. inv_bind H. inv_bind H. inversion H; subst. cbn.
  pose proof (reduce_uncommitted_size_lf (rn_raft n) (match x with Some v => v | None => [] end)) as Hl.
  destruct Hl as (A & B & _ & _ & C0 & _). unfold gx. cbn. rewrite A, B, C0.
  split; [lia|]. split; [reflexivity|]. split; [reflexivity|auto].
Qed.

(* Ready hands the accumulated read states to the application, and clears them *)
Theorem rn_ready_read_states n n' rd :
  rn_ready n = Ok (n', rd) ->
  rd_read_states rd = r_read_states (rn_raft n) /\ r_read_states (rn_raft n') = [] /\ gxn n n'.
Proof.
  unfold rn_ready. intros H. inv_bind H. inv_bind H. destruct x0 as [[[snap csi] rec_snap] ms2].
  inv_bind H. destruct x0 as [n2 light]. inversion H; subst. clear H. cbn [rd_read_states rn_raft].
  split; [reflexivity|].
  pose proof Hx1 as Hg. apply gen_light_ready_gx in Hg. unfold gxn in Hg. cbn in Hg.
  unfold gen_light_ready in Hx1. inv_bind Hx1. inv_bind Hx1. inversion Hx1; subst. cbn.
  split.
  - pose proof (reduce_uncommitted_size_lf ((rn_raft n) <| r_read_states := [] |>)
                  (match x0 with Some v => v | None => [] end)) as Hl.
    destruct Hl as (_ & _ & A & _). cbn in A. exact A.
  - unfold gxn. cbn. cbn in Hg. exact Hg.
Qed.

Lemma stable_committed l l1 l2 (os oe : option (N * N)) :
  (match os with Some (i, _) => stable_snap l i | None => Ok l end) = Ok l1 ->
  (match oe with Some (i, t) => stable_entries l1 i t | None => Ok l1 end) = Ok l2 ->
  committed l2 = committed l.
Proof.
  intros H1 H2.
  assert (A : committed l1 = committed l).
  { destruct os as [[i t]|]; [|inversion H1; reflexivity].
    unfold stable_snap in H1. inv_bind H1. inversion H1; reflexivity. }
  rewrite <- A. destruct oe as [[i t]|]; [|inversion H2; reflexivity].
  unfold stable_entries in H2. inv_bind H2. inversion H2; reflexivity.
Qed.

Theorem commit_ready_gx n rd n' : commit_ready n rd = Ok n' -> gxn n n'.
Proof.
  unfold commit_ready. intros H.
  set (n1 := match rd_ss rd with Some ss => n <| rn_prev_ss := ss |> | None => n end) in *.
  set (n2 := match rd_hs rd with Some hs => n1 <| rn_prev_hs := hs |> | None => n1 end) in *.
  assert (Hr : rn_raft n2 = rn_raft n).
  { unfold n2, n1. destruct (rd_hs rd), (rd_ss rd); reflexivity. }
  destruct (rn_records n2); [discriminate|]. cif H; [discriminate|].
  inv_bind H. inv_bind H. inversion H; subst. unfold gxn. cbn.
  pose proof (stable_committed _ _ _ _ _ Hx Hx0) as Hc. rewrite Hr in *.
  unfold gx. cbn. rewrite Hc. split; [lia|]. split; [reflexivity|]. split; [reflexivity|auto].
Qed.

Theorem rn_on_persist_ready_gx n k n' : rn_on_persist_ready n k = Ok n' -> gxn n n'.
Proof.
  unfold rn_on_persist_ready. intros H.
  destruct (fold_records (rn_records n) k 0 0 0) as [[[recs index] t] snap_index].
  inv_bind H. inv_bind H. inversion H; subst. unfold gxn. cbn. cbn in Hx, Hx0.
  assert (H1 : fx (rn_raft n) x).
  { destruct (negb (snap_index =? 0)); [eapply on_persist_snap_fx; exact Hx|].
    inversion Hx; apply fx_refl. }
  assert (H2 : fx x x0).
  { destruct (negb (index =? 0)); [eapply on_persist_entries_fx; exact Hx0|].
    inversion Hx0; apply fx_refl. }
  apply fx_gx. eapply fx_trans; eassumption.
Qed.

Theorem rn_advance_append_gx n rd n' lr : rn_advance_append n rd = Ok (n', lr) -> gxn n n'.
Proof.
  unfold rn_advance_append. intros H. inv_bind H. inv_bind H. inv_bind H. destruct x1 as [n3 light].
  apply commit_ready_gx in Hx. apply rn_on_persist_ready_gx in Hx0. apply gen_light_ready_gx in Hx1.
  assert (H3 : gxn n n3) by (unfold gxn in *; eapply gx_trans; [exact Hx|eapply gx_trans; eassumption]).
  cif H; [discriminate|]. inv_bind H. destruct x1 as [n4 ci].
  cif H; [discriminate|]. inversion H; subst.
  assert (H4 : rn_raft n' = rn_raft n3).
  { cif Hx2; [inversion Hx2; reflexivity|]. cif Hx2; [discriminate|]. inversion Hx2; reflexivity. }
  unfold gxn in *. rewrite H4. exact H3.
Qed.

Theorem rn_advance_apply_to_gx n app n' : rn_advance_apply_to n app = Ok n' -> gxn n n'.
Proof.
  unfold rn_advance_apply_to, lift, gxn. intros H. inv_bind H. inversion H; subst. cbn.
  apply fx_gx. eapply commit_apply_fx; eassumption.
Qed.

Theorem rn_advance_apply_gx n n' : rn_advance_apply n = Ok n' -> gxn n n'.
Proof. apply rn_advance_apply_to_gx. Qed.

Theorem rn_advance_gx n rd n' lr : rn_advance n rd = Ok (n', lr) -> gxn n n'.
Proof.
  unfold rn_advance. intros H. inv_bind H. inv_bind H. inversion H; subst. destruct x as [na la].
  apply rn_advance_append_gx in Hx. apply rn_advance_apply_to_gx in Hx0. cbn [fst] in Hx0.
  unfold gxn in *. eapply gx_trans; eassumption.
Qed.

Theorem rn_advance_append_async_gx n rd n' : rn_advance_append_async n rd = Ok n' -> gxn n n'.
Proof. apply commit_ready_gx. Qed.

Theorem rn_report_unreachable_gx n id n' : rn_report_unreachable n id = Ok n' -> gxn n n'.
Proof. unfold rn_report_unreachable. intros H. inv_bind H. inversion H; subst. eapply step_fst_gxn; eassumption. Qed.

Theorem rn_report_snapshot_gx n id f n' : rn_report_snapshot n id f = Ok n' -> gxn n n'.
Proof. unfold rn_report_snapshot. intros H. inv_bind H. inversion H; subst. eapply step_fst_gxn; eassumption. Qed.

Theorem rn_request_snapshot_gx n n' c : rn_request_snapshot n = Ok (n', c) -> gxn n n'.
Proof.
  unfold rn_request_snapshot, lift2, gxn. intros H. inv_bind H. inversion H; subst.
  destruct x as [r1 c1]. cbn. apply fx_gx. eapply request_snapshot_fx; eassumption.
Qed.

Theorem rn_transfer_leader_gx n t n' : rn_transfer_leader n t = Ok n' -> gxn n n'.
Proof. unfold rn_transfer_leader. intros H. inv_bind H. inversion H; subst. eapply step_fst_gxn; eassumption. Qed.

Theorem rn_read_index_gx n ctx n' : rn_read_index n ctx = Ok n' -> gxn n n'.
Proof. unfold rn_read_index. intros H. inv_bind H. inversion H; subst. eapply step_fst_gxn; eassumption. Qed.

Theorem rn_ready_gx n n' rd : rn_ready n = Ok (n', rd) -> gxn n n'.
Proof. intros H. apply rn_ready_read_states in H. apply H. Qed.

(* ================================================================== *)
(* 16. a node that learns of a higher term forgets its pending reads   *)
(* ================================================================== *)

(* the message makes the node step down (everything but: a vote request refused under the
   leader lease, a pre-vote request, a granted pre-vote response) *)
Definition steps_down (r : raft) (m : msg) : bool :=
  let t := m_type m in
  negb (((t =? MsgRequestVote) || (t =? MsgRequestPreVote))
        && negb (list_eqb (m_context m) CAMPAIGN_TRANSFER)
        && (r_check_quorum r && negb (r_leader_id r =? INVALID_ID)
            && (r_election_elapsed r <? r_election_timeout r)))
  && negb ((t =? MsgRequestPreVote) || ((t =? MsgRequestPreVoteResponse) && negb (m_reject m))).

Lemma step_prologue_steps_down r m pre :
  r_term r < m_term m -> steps_down r m = true -> step_prologue r m = Ok pre ->
  exists l r1, pre = inr r1 /\ become_follower r (m_term m) l = Ok r1.
Proof.
  unfold steps_down, step_prologue. intros Hlt Hsd H.
  apply andb_prop in Hsd. destruct Hsd as [S1 S2]. apply negb_true_iff in S1, S2.
  assert (E0 : (m_term m =? 0) = false) by (apply N.eqb_neq; lia).
  assert (E1 : (r_term r <? m_term m) = true) by (apply N.ltb_lt; exact Hlt).
  rewrite E0, E1 in H. cbv zeta in H. rewrite S1, S2 in H.
  cif H; inv_bind H; inversion H; subst; eauto.
Qed.

Theorem higher_term_drops_reads r m r' c :
  r_term r < m_term m -> steps_down r m = true -> step r m = Ok (r', c) ->
  r_read_only r' = ro_new (ro_option (r_read_only r)) /\
  rir (r_msgs r') = rir (r_msgs r) /\
  exists new, r_read_states r' = r_read_states r ++ new /\
    (new = [] \/
     (m_type m = MsgReadIndexResp /\ exists e, m_entries m = [e] /\ new = [mkRS (m_index m) (e_data e)])).
Proof.
  intros Hlt Hsd H. rewrite step_decompose in H. inv_bind H.
  destruct (step_prologue_steps_down r m x Hlt Hsd Hx) as (l & r1 & -> & Hbf).
  pose proof (become_follower_drops_reads _ _ _ _ Hbf) as [Hro1 Hrs1].
  pose proof (become_follower_effect _ _ _ _ Hbf) as (_ & _ & _ & Hst1 & _ & Hm1 & _).
  destruct (read_type (m_type m)) eqn:Hty.
  - rewrite step_body_read_type in H by exact Hty. unfold step_role in H. rewrite Hst1 in H.
    destruct (step_follower_read r1 m r' c Hty Hst1 H) as (_ & _ & Hro & new & newm & A & B & Hor).
    split; [congruence|].
    destruct Hor as [(-> & ->)|[(Ht & _ & -> & e & He & ->)|[(_ & Hs & _)|(_ & Hs & _)]]];
      try congruence; rewrite app_nil_r in B.
    + split; [congruence|]. exists []. rewrite A, Hrs1. auto.
    + split; [congruence|]. exists [mkRS (m_index m) (e_data e)]. rewrite A, Hrs1.
      split; [reflexivity|]. right. eauto.
  - apply step_body_other_fx in H; [|exact Hty]. destruct H as (_ & A & B & _ & D).
    split.
    + destruct B as [B|B]; rewrite B, Hro1; reflexivity.
    + split; [congruence|]. exists []. rewrite app_nil_r. split; [congruence|auto].
Qed.

(* ================================================================== *)
(* 17. RawNode::read_index                                             *)
(* ================================================================== *)

Definition read_index_msg (rctx : list N) : msg :=
  msg_default <| m_type := MsgReadIndex |> <| m_entries := [mkEntry EntryNormal 0 0 rctx []] |>.

Lemma rn_read_index_eq n rctx :
  rn_read_index n rctx = x <- step (rn_raft n) (read_index_msg rctx) ;; Ok (n <| rn_raft := fst x |>).
Proof. reflexivity. Qed.

(* on a Safe leader of a multi-voter group that has committed in its term: record + heartbeats *)
Theorem rn_read_index_leader_safe n rctx n' :
  let r := rn_raft n in
  r_state r = Leader -> commit_to_current_term r = Ok true ->
  singleton_conf r = false -> ro_option (r_read_only r) = 0 ->
  rn_read_index n rctx = Ok n' ->
  rn_raft n' = r <| r_read_only := ro_after_request r (read_index_msg rctx) rctx |>
                 <| r_msgs := r_msgs r ++ hb_list r (Some rctx) (pids (t_progress (r_prs r))) |>.
Proof.
  intros r Hs Hc Hsing Ho H. rewrite rn_read_index_eq in H. inv_bind H. inversion H; subst. clear H.
  destruct x as [r1 c1]. cbn [rn_raft fst].
  apply readindex_safe_records_commit in Hx; auto.
  destruct Hx as (_ & e & rest & He & ->). cbn in He. inversion He; subst. reflexivity.
Qed.

(* on a follower: forwarded to the known leader with [from] = the follower, or dropped *)
Theorem rn_read_index_follower n rctx n' :
  let r := rn_raft n in
  r_state r = Follower -> rn_read_index n rctx = Ok n' ->
  (r_leader_id r = INVALID_ID /\ rn_raft n' = r) \/
  (r_leader_id r <> INVALID_ID /\
   rn_raft n' = r <| r_msgs := r_msgs r ++
                     [(read_index_msg rctx) <| m_to := r_leader_id r |> <| m_from := r_id r |>] |>).
Proof.
  intros r Hs H. rewrite rn_read_index_eq in H. inv_bind H. inversion H; subst. clear H.
  destruct x as [r1 c1]. cbn [rn_raft fst].
  rewrite step_same_term in Hx; [|left; reflexivity|reflexivity|reflexivity].
  unfold step_role in Hx. fold r in Hx. rewrite Hs in Hx.
  apply follower_readindex_forward_exact in Hx; [|reflexivity].
  destruct Hx as (_ & [(A & ->)|(A & _ & ->)]); [left; auto|right]. split; [exact A|reflexivity].
Qed.

(* on a leader that has not committed in its term: nothing at all *)
Theorem rn_read_index_leader_not_ready n rctx :
  r_state (rn_raft n) = Leader -> commit_to_current_term (rn_raft n) = Ok false ->
  rn_read_index n rctx = Ok (n <| rn_raft := rn_raft n |>).
Proof.
  intros Hs Hc. rewrite rn_read_index_eq.
  rewrite readindex_requires_own_term_commit; auto. cbn. lia.
Qed.

(* ================================================================== *)
(* 18. aggregates and definitional pins for Props/C08.v                *)
(* ================================================================== *)

Theorem raft_api_gx :
  (forall r m r' c, step r m = Ok (r', c) -> gx r r') /\
  (forall r r' b, tick r = Ok (r', b) -> gx r r') /\
  (forall r cc r' ocs, raft_apply_conf_change r cc = Ok (r', ocs) -> gx r r') /\
  (forall r r' cs, post_conf_change r = Ok (r', cs) -> gx r r') /\
  (forall r i t r', on_persist_entries r i t = Ok r' -> gx r r') /\
  (forall r i r', on_persist_snap r i = Ok r' -> gx r r') /\
  (forall r app r', commit_apply r app = Ok r' -> gx r r') /\
  (forall r hs r', load_state r hs = Ok r' -> gx r r') /\
  (forall r r' c, request_snapshot r = Ok (r', c) -> gx r r') /\
  (forall r r', ping r = Ok r' -> gx r r') /\
  (forall r t c r', adjust_max_inflight_msgs r t c = Ok r' -> gx r r') /\
  (forall r, gx r (maybe_free_inflight_buffers r)) /\
  (forall r k, gx r (set_max_apply_unpersisted_log_limit r k)) /\
  (forall r e r', enable_group_commit r e = Ok r' -> gx r r') /\
  (forall r ids r', assign_commit_groups r ids = Ok r' -> gx r r').
Proof.
  destruct misc_api_fx as (M1 & M2 & M3 & M4 & M5).
  repeat match goal with |- _ /\ _ => split end.
  - apply step_gx.
  - apply tick_gx.
  - apply raft_apply_conf_change_gx.
  - intros r r' cs H. apply post_conf_change_reads in H. apply H.
  - intros. apply fx_gx. eapply on_persist_entries_fx; eassumption.
  - intros. apply fx_gx. eapply on_persist_snap_fx; eassumption.
  - intros. apply fx_gx. eapply commit_apply_fx; eassumption.
  - intros. apply fx_gx. eapply load_state_fx; eassumption.
  - intros. apply fx_gx. eapply request_snapshot_fx; eassumption.
  - intros. apply fx_gx. eapply ping_fx; eassumption.
  - intros. apply fx_gx. eapply M1; eassumption.
  - intros. apply fx_gx. apply M2.
  - intros. apply fx_gx. apply M3.
  - intros. apply fx_gx. eapply M4; eassumption.
  - intros. apply fx_gx. eapply M5; eassumption.
Qed.

Theorem rawnode_api_gx :
  (forall n m n' c, rn_step n m = Ok (n', c) -> gxn n n') /\
  (forall n n' b, rn_tick n = Ok (n', b) -> gxn n n') /\
  (forall n n' c, rn_campaign n = Ok (n', c) -> gxn n n') /\
  (forall n ctx data n' c, rn_propose n ctx data = Ok (n', c) -> gxn n n') /\
  (forall n ctx data ty ci n' c, rn_propose_conf_change n ctx data ty ci = Ok (n', c) -> gxn n n') /\
  (forall n cc n' ocs, rn_apply_conf_change n cc = Ok (n', ocs) -> gxn n n') /\
  (forall n n', rn_ping n = Ok n' -> gxn n n') /\
  (forall n n' rd, rn_ready n = Ok (n', rd) -> gxn n n') /\
  (forall n k n', rn_on_persist_ready n k = Ok n' -> gxn n n') /\
  (forall n rd n' lr, rn_advance_append n rd = Ok (n', lr) -> gxn n n') /\
  (forall n rd n', rn_advance_append_async n rd = Ok n' -> gxn n n') /\
  (forall n app n', rn_advance_apply_to n app = Ok n' -> gxn n n') /\
  (forall n n', rn_advance_apply n = Ok n' -> gxn n n') /\
  (forall n rd n' lr, rn_advance n rd = Ok (n', lr) -> gxn n n') /\
  (forall n id n', rn_report_unreachable n id = Ok n' -> gxn n n') /\
  (forall n id f n', rn_report_snapshot n id f = Ok n' -> gxn n n') /\
  (forall n n' c, rn_request_snapshot n = Ok (n', c) -> gxn n n') /\
  (forall n t n', rn_transfer_leader n t = Ok n' -> gxn n n') /\
  (forall n ctx n', rn_read_index n ctx = Ok n' -> gxn n n').
Proof.
  repeat match goal with |- _ /\ _ => split end.
  - apply rn_step_gx.
  - apply rn_tick_gx.
  - apply rn_campaign_gx.
  - apply rn_propose_gx.
  - apply rn_propose_conf_change_gx.
  - apply rn_apply_conf_change_gx.
  - apply rn_ping_gx.
  - apply rn_ready_gx.
  - apply rn_on_persist_ready_gx.
  - apply rn_advance_append_gx.
  - apply rn_advance_append_async_gx.
  - apply rn_advance_apply_to_gx.
  - apply rn_advance_apply_gx.
  - apply rn_advance_gx.
  - apply rn_report_unreachable_gx.
  - apply rn_report_snapshot_gx.
  - apply rn_request_snapshot_gx.
  - apply rn_transfer_leader_gx.
  - apply rn_read_index_gx.
Qed.

(* the meaning of gx, spelled out *)
Lemma gx_def_pin r r' :
  gx r r' <->
  (committed (r_log r) <= committed (r_log r') /\ r_id r' = r_id r /\
   ro_option (r_read_only r') = ro_option (r_read_only r) /\
   (RoInv (r_read_only r) -> RoInv (r_read_only r'))).
Proof. reflexivity. Qed.

Lemma gxn_def_pin n n' : gxn n n' <-> gx (rn_raft n) (rn_raft n').
Proof. reflexivity. Qed.

Lemma fx_def_pin r r' :
  fx r r' <->
  (committed (r_log r) <= committed (r_log r') /\
   r_read_states r' = r_read_states r /\
   (r_read_only r' = r_read_only r \/ r_read_only r' = ro_new (ro_option (r_read_only r))) /\
   r_id r' = r_id r /\
   filter (fun x => m_type x =? MsgReadIndexResp) (r_msgs r')
     = filter (fun x => m_type x =? MsgReadIndexResp) (r_msgs r)).
Proof. reflexivity. Qed.

Lemma RoInv_def_pin ro :
  RoInv ro <->
  (NoDup (ro_queue ro) /\ NoDup (map fst (ro_pending ro)) /\
   (forall c, In c (ro_queue ro) <-> In c (map fst (ro_pending ro)))).
Proof. reflexivity. Qed.

Lemma rir_def_pin l : rir l = filter (fun x => m_type x =? MsgReadIndexResp) l.
Proof. reflexivity. Qed.

Lemma hb_list_def_pin r ctx ids :
  hb_list r ctx ids =
  flat_map (fun id => if id =? r_id r then []
                      else match get_pr r id with
                           | Some pr => [hb_msg r ctx id pr]
                           | None => []
                           end) ids.
Proof. reflexivity. Qed.

Lemma hb_msg_def_pin r ctx to pr :
  hb_msg r ctx to pr =
  mkMsg MsgHeartbeat to (r_id r) (r_term r) 0 0 [] (N.min (matched pr) (committed (r_log r))) 0
        snap_default 0 false 0 (match ctx with Some c => c | None => [] end) 0 0%Z [].
Proof. destruct ctx; reflexivity. Qed.

Lemma rir_msg_def_pin r req idx :
  rir_msg r req idx =
  mkMsg MsgReadIndexResp (m_from req) (r_id r) (r_term r) 0 idx (m_entries req) 0 0
        snap_default 0 false 0 [] 0 0%Z [].
Proof. reflexivity. Qed.

Lemma hb_resp_def_pin r m cmt :
  hb_resp r m cmt =
  mkMsg MsgHeartbeatResponse (m_from m) (r_id r) (r_term r) 0 0 [] cmt 0
        snap_default 0 false 0 (m_context m) 0 0%Z [].
Proof. reflexivity. Qed.

Lemma local_req_def_pin self req :
  local_req self req = (m_from req =? INVALID_ID) || (m_from req =? self).
Proof. reflexivity. Qed.

Lemma rr_states_def_pin self rss :
  rr_states self rss =
  flat_map (fun rs => if local_req self (ris_req rs)
                      then match m_entries (ris_req rs) with
                           | e :: _ => [mkRS (ris_index rs) (e_data e)]
                           | [] => []
                           end
                      else []) rss.
Proof. reflexivity. Qed.

Lemma rr_msgs_def_pin r rss :
  rr_msgs r rss =
  flat_map (fun rs => if local_req (r_id r) (ris_req rs) then []
                      else [rir_msg r (ris_req rs) (ris_index rs)]) rss.
Proof. reflexivity. Qed.

Lemma hbr_ack_def_pin r m :
  hbr_ack r m = fst (ro_recv_ack (r_read_only r) (m_from m) (m_context m)).
Proof. reflexivity. Qed.

Lemma add_ack_def_pin id rs :
  add_ack id rs = mkRIS (ris_req rs) (ris_index rs) (IdSet.insert id (ris_acks rs)).
Proof. reflexivity. Qed.

Lemma singleton_conf_def_pin r :
  singleton_conf r = match incoming (conf_of r), outgoing (conf_of r) with
                     | [_], [] => r_promotable r
                     | _, _ => false
                     end.
Proof. reflexivity. Qed.

Lemma ro_after_request_def_pin r m ctx :
  ro_after_request r m ctx =
  match ro_find (ro_pending (r_read_only r)) ctx with
  | Some _ => r_read_only r
  | None => mkRO (ro_option (r_read_only r))
                 (ro_pending (r_read_only r) ++ [(ctx, mkRIS m (committed (r_log r)) [r_id r])])
                 (ro_queue (r_read_only r) ++ [ctx])
  end.
Proof. reflexivity. Qed.

Lemma read_index_msg_def_pin rctx :
  read_index_msg rctx =
  msg_default <| m_type := MsgReadIndex |> <| m_entries := [mkEntry EntryNormal 0 0 rctx []] |>.
Proof. reflexivity. Qed.

Lemma steps_down_def_pin r m :
  steps_down r m =
  negb (((m_type m =? MsgRequestVote) || (m_type m =? MsgRequestPreVote))
        && negb (list_eqb (m_context m) CAMPAIGN_TRANSFER)
        && (r_check_quorum r && negb (r_leader_id r =? INVALID_ID)
            && (r_election_elapsed r <? r_election_timeout r)))
  && negb ((m_type m =? MsgRequestPreVote)
           || ((m_type m =? MsgRequestPreVoteResponse) && negb (m_reject m))).
Proof. reflexivity. Qed.

Lemma read_origin_def_pin r m r' new newm :
  read_origin r m r' new newm <->
  ((new = [] /\ newm = []) \/
   (m_type m = MsgReadIndexResp /\ r_state r = Follower /\ newm = [] /\
    exists e, m_entries m = [e] /\ new = [mkRS (m_index m) (e_data e)]) \/
   (m_type m = MsgReadIndex /\ r_state r = Leader /\ commit_to_current_term r = Ok true /\
    (singleton_conf r = true \/ ro_option (r_read_only r) <> 0) /\
    new = rr_states (r_id r) [mkRIS m (committed (r_log r)) []] /\
    newm = rr_msgs r [mkRIS m (committed (r_log r)) []]) \/
   (m_type m = MsgHeartbeatResponse /\ r_state r = Leader /\
    ro_option (r_read_only r) = 0 /\ m_context m <> [] /\ get_pr r (m_from m) <> None /\
    exists rs served,
      ro_find (ro_pending (r_read_only r)) (m_context m) = Some rs /\
      prs_has_quorum (r_prs r) (IdSet.insert (m_from m) (ris_acks rs)) = true /\
      ro_advance (hbr_ack r m) (m_context m) = Ok (r_read_only r', served) /\
      new = rr_states (r_id r) served /\ newm = rr_msgs r served)).
Proof. reflexivity. Qed.

(* the read-only spec, packaged: add_request *)
Theorem read_only_spec_add ro idx req self ro' :
  ro_add_request ro idx req self = Ok ro' ->
  (exists e rest, m_entries req = e :: rest /\
    ((exists st, ro_find (ro_pending ro) (e_data e) = Some st /\ ro' = ro) \/
     (ro_find (ro_pending ro) (e_data e) = None /\
      ro' = mkRO (ro_option ro)
                 (ro_pending ro ++ [(e_data e, mkRIS req idx [self])])
                 (ro_queue ro ++ [e_data e])))) /\
  (RoInv ro -> RoInv ro').
Proof.
  intros H. split; [apply ro_add_request_spec; exact H|]. apply ro_add_request_RoInv with (1 := H).
Qed.

Theorem read_only_spec_ack ro id ctx :
  snd (ro_recv_ack ro id ctx) =
    option_map (fun rs => IdSet.insert id (ris_acks rs)) (ro_find (ro_pending ro) ctx) /\
  ro_option (fst (ro_recv_ack ro id ctx)) = ro_option ro /\
  ro_queue (fst (ro_recv_ack ro id ctx)) = ro_queue ro /\
  map fst (ro_pending (fst (ro_recv_ack ro id ctx))) = map fst (ro_pending ro) /\
  (forall c, ro_find (ro_pending (fst (ro_recv_ack ro id ctx))) c =
             if list_eqb ctx c then option_map (add_ack id) (ro_find (ro_pending ro) ctx)
             else ro_find (ro_pending ro) c) /\
  (RoInv ro -> RoInv (fst (ro_recv_ack ro id ctx))).
Proof.
  destruct (ro_recv_ack_spec ro id ctx) as (A & B & C0 & D & E).
  repeat (split; [assumption|]). apply ro_recv_ack_RoInv.
Qed.

Theorem read_only_spec_advance ro ctx : RoInv ro ->
  (exists x, ro_advance ro ctx = Ok x) /\
  (~ In ctx (ro_queue ro) -> ro_advance ro ctx = Ok (ro, [])) /\
  (forall pre post, ro_queue ro = pre ++ ctx :: post ->
     exists ro' rss, ro_advance ro ctx = Ok (ro', rss) /\
       ro_option ro' = ro_option ro /\ ro_queue ro' = post /\
       map Some rss = map (ro_find (ro_pending ro)) (pre ++ [ctx]) /\
       (forall c, In c (pre ++ [ctx]) -> ro_find (ro_pending ro') c = None) /\
       (forall c, ~ In c (pre ++ [ctx]) -> ro_find (ro_pending ro') c = ro_find (ro_pending ro) c) /\
       RoInv ro').
Proof.
  intros H. split; [apply ro_advance_no_panic; exact H|]. apply ro_advance_spec. exact H.
Qed.

(* ------------------------------------------------------------------ *)
(* concrete states for the non-vacuity examples of Props/C08.v *)
Module C08Samples.
Import C09Samples.

(* a read request for context [ctx] coming from [from] (0 = issued locally) *)
Definition rd (from : N) (ctx : list N) : msg :=
  msg_default <| m_type := MsgReadIndex |> <| m_from := from |>
              <| m_entries := [mkEntry EntryNormal 0 0 ctx []] |>.
(* a term-2 heartbeat response from [from] echoing [ctx] *)
Definition hbr (from : N) (ctx : list N) : msg :=
  msg_default <| m_type := MsgHeartbeatResponse |> <| m_from := from |> <| m_term := 2 |>
              <| m_context := ctx |>.
(* the leader of C09 (term 2, voters {1,2,3}, commit 3 = an entry of term 2, Safe) after a
   local read [7] and a read [8] forwarded by follower 3 *)
Definition s1 : raft := match step s_leader (rd 0 [7]) with Ok (r, _) => r | Panic _ => s_leader end.
Definition s2 : raft := match step s1 (rd 3 [8]) with Ok (r, _) => r | Panic _ => s_leader end.
(* a term-2 leader whose last committed entry is of term 1 *)
Definition s_leader_old : raft := s_raft Leader (s_log (e_norm 1 3) 3 3) c3 0 true 1.
(* the same leader with the LeaseBased option *)
Definition s_leader_lease : raft := s_leader <| r_read_only := ro_new 1 |>.
(* the answer of leader 2 to a read [7] forwarded by this follower *)
Definition resp7 : msg :=
  msg_default <| m_type := MsgReadIndexResp |> <| m_from := 2 |> <| m_term := 2 |> <| m_index := 3 |>
              <| m_entries := [mkEntry EntryNormal 0 0 [7] []] |>.
Definition hb (from term : N) (ctx : list N) : msg :=
  msg_default <| m_type := MsgHeartbeat |> <| m_from := from |> <| m_term := term |>
              <| m_context := ctx |> <| m_commit := 3 |>.

(* node 2 was leader and has been removed: the only voter left is node 1; node 2 is not
   promotable (fix 6a9ae91) *)
Definition c1 : conf := mkConf [1] [] [] [] false.
Definition s_removed : raft :=
  (s_raft Leader (s_log (e_norm 2 3) 3 3) c1 0 false 2) <| r_id := 2 |>.

End C08Samples.

Theorem reset_drops_reads_all :
  (forall r t r', reset r t = Ok r' ->
     r_read_only r' = ro_new (ro_option (r_read_only r)) /\ r_read_states r' = r_read_states r) /\
  (forall r t l r', become_follower r t l = Ok r' ->
     r_read_only r' = ro_new (ro_option (r_read_only r)) /\ r_read_states r' = r_read_states r) /\
  (forall r r', become_candidate r = Ok r' ->
     r_read_only r' = ro_new (ro_option (r_read_only r)) /\ r_read_states r' = r_read_states r) /\
  (forall r r', become_leader r = Ok r' ->
     r_read_only r' = ro_new (ro_option (r_read_only r)) /\ r_read_states r' = r_read_states r).
Proof.
  exact (conj reset_drops_reads (conj become_follower_drops_reads
          (conj become_candidate_drops_reads become_leader_drops_reads))).
Qed.

(* ================================================================== *)
(* 19. regression guard for fix 6a9ae91 (single-voter shortcut needs   *)
(*     self to be that voter) and construction                         *)
(* ================================================================== *)

Lemma singleton_conf_promotable r : r_promotable r = false -> singleton_conf r = false.
Proof.
  intros H. unfold singleton_conf. rewrite H.
  destruct (incoming (conf_of r)) as [|a [|b l]]; try reflexivity.
  destruct (outgoing (conf_of r)); reflexivity.
Qed.

(* a Safe-mode leader that is not promotable (= not a voter, e.g. removed or demoted by a
   membership change) NEVER answers a MsgReadIndex at once, whatever its configuration (in
   particular when exactly one voter, another node, remains): no new read state, no
   MsgReadIndexResp; it either ignores the request (no own-term commit yet) or records it and
   broadcasts heartbeats carrying the context *)
Theorem nonpromotable_safe_never_answers_at_once_leader r m r' c :
  r_promotable r = false -> ro_option (r_read_only r) = 0 -> m_type m = MsgReadIndex ->
  step_leader r m = Ok (r', c) ->
  c = E_OK /\ r_read_states r' = r_read_states r /\ rir (r_msgs r') = rir (r_msgs r) /\
  ((commit_to_current_term r = Ok false /\ r' = r) \/
   (commit_to_current_term r = Ok true /\ exists e rest, m_entries m = e :: rest /\
      r' = r <| r_read_only := ro_after_request r m (e_data e) |>
             <| r_msgs := r_msgs r ++ hb_list r (Some (e_data e)) (pids (t_progress (r_prs r))) |>)).
Proof.
  intros Hp Ho Ht H. pose proof (singleton_conf_promotable r Hp) as Hs.
  destruct (commit_to_current_term r) as [[|]|s] eqn:Ec.
  - destruct (readindex_safe_records_commit_leader r m r' c Ht Ec Hs Ho H) as (-> & e & rest & He & ->).
    split; [reflexivity|]. split; [reflexivity|].
    split; [cbn; rewrite rir_app, rir_hb_list, app_nil_r; reflexivity|]. right. eauto.
  - rewrite (readindex_requires_own_term_commit_leader r m Ht Ec) in H. inversion H; subst. auto 10.
  - rewrite step_leader_readindex_eq in H by exact Ht. unfold step_leader_readindex in H.
    rewrite Ec in H. discriminate.
Qed.

Theorem nonpromotable_safe_never_answers_at_once r m r' c :
  r_state r = Leader -> r_promotable r = false -> ro_option (r_read_only r) = 0 ->
  m_type m = MsgReadIndex -> m_term m <= r_term r ->
  step r m = Ok (r', c) ->
  c = E_OK /\ r_read_states r' = r_read_states r /\ rir (r_msgs r') = rir (r_msgs r) /\
  (r' = r \/
   (commit_to_current_term r = Ok true /\ exists e rest, m_entries m = e :: rest /\
      r' = r <| r_read_only := ro_after_request r m (e_data e) |>
             <| r_msgs := r_msgs r ++ hb_list r (Some (e_data e)) (pids (t_progress (r_prs r))) |>)).
Proof.
  intros Hs Hp Ho Ht Hterm H.
  assert (Hsame : (m_term m = 0 \/ m_term m = r_term r) ->
    c = E_OK /\ r_read_states r' = r_read_states r /\ rir (r_msgs r') = rir (r_msgs r) /\
    (r' = r \/
     (commit_to_current_term r = Ok true /\ exists e rest, m_entries m = e :: rest /\
        r' = r <| r_read_only := ro_after_request r m (e_data e) |>
               <| r_msgs := r_msgs r ++ hb_list r (Some (e_data e)) (pids (t_progress (r_prs r))) |>))).
  { intros Hst. rewrite step_readindex_leader in H by assumption.
    rewrite <- step_leader_readindex_eq in H by exact Ht.
    destruct (nonpromotable_safe_never_answers_at_once_leader r m r' c Hp Ho Ht H)
      as (A & B & C0 & [(_ & D)|D]); auto 10. }
  destruct (N.eq_dec (m_term m) 0) as [E0|E0]; [apply Hsame; auto|].
  destruct (N.eq_dec (m_term m) (r_term r)) as [E1|E1]; [apply Hsame; auto|].
  rewrite step_lower_term in H; [|exact E0|lia]. rewrite Ht in H.
  change (MsgReadIndex =? MsgHeartbeat) with false in H. change (MsgReadIndex =? MsgAppend) with false in H.
  change (MsgReadIndex =? MsgRequestPreVote) with false in H.
  rewrite andb_false_r in H. inversion H; subst. auto 10.
Qed.

(* construction: a fresh node has no pending read and no read state *)
Theorem raft_new_no_reads c st sa draws r :
  raft_new c st sa draws = Ok (inr r) ->
  r_read_only r = ro_new (c_read_only_option c) /\ RoInv (r_read_only r) /\
  ro_queue (r_read_only r) = [] /\ ro_pending (r_read_only r) = [] /\ r_read_states r = [].
Proof.
  unfold raft_new. intros H. destruct (negb (cfg_validate c)); [discriminate|].
  inv_bind H. destruct (ConfChange.restore empty_tracker (cs st)) as [[c' ids']|e]; [|discriminate].
  inv_bind H. destruct x0 as [r2 new_cs]. cif H; [discriminate|].
  inv_bind H. inv_bind H. inv_bind H. inv_bind H. inversion H; subst. clear H.
  apply post_conf_change_reads in Hx0. destruct Hx0 as (G1 & served & Hrs & _ & Hcase).
  assert (Hserved : served = []).
  { destruct Hcase as [Es|(Es & _)]; [exact Es|]. cbn in Es. discriminate. }
  subst served. cbn in Hrs. destruct G1 as (_ & _ & O1 & _). cbn in O1.
  assert (F3 : fx r2 x0).
  { destruct (hs_eqb (hs st) hs_default); [inversion Hx1; apply fx_refl|eapply load_state_fx; exact Hx1]. }
  assert (F4 : fx x0 x1).
  { destruct (0 <? c_applied c); [eapply commit_apply_internal_fx; exact Hx2|inversion Hx2; apply fx_refl]. }
  pose proof (fx_trans _ _ _ F3 F4) as F. pose proof (fx_gx _ _ F) as (_ & _ & O4 & _).
  destruct F as (_ & Frs & _).
  apply become_follower_drops_reads in Hx3. destruct Hx3 as [A B].
  assert (Hro : r_read_only r = ro_new (c_read_only_option c)) by (rewrite A, O4, O1; reflexivity).
  rewrite Hro. split; [reflexivity|]. split; [apply RoInv_new|]. split; [reflexivity|]. split; [reflexivity|].
  rewrite B, Frs, Hrs. reflexivity.
Qed.

Theorem rn_new_no_reads c st sa draws n :
  rn_new c st sa draws = Ok (inr n) ->
  r_read_only (rn_raft n) = ro_new (c_read_only_option c) /\ RoInv (r_read_only (rn_raft n)) /\
  r_read_states (rn_raft n) = [].
Proof.
  unfold rn_new. intros H. destruct (c_id c =? 0); [discriminate|]. inv_bind H.
  destruct x as [e|r]; inversion H; subst. cbn.
  apply raft_new_no_reads in Hx. destruct Hx as (A & B & _ & _ & C0). auto.
Qed.
