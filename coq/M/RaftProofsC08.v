(* C08 — ReadIndex (Safe mode): node-level mechanism theorems about M/Raft.v
   (ReadOnly bookkeeping, the own-term-commit gate, recording the commit index,
   the quorum check on heartbeat responses, routing of the answer, reset drops
   pending reads, heartbeat context echo, commit monotonicity).
   The cluster-level linearizability statement is NOT proved here (protocol level).
   Pinned statements are in Props/C08.v.  No model file is edited. *)
From RV Require Import Base.Prelude Base.IdSet Base.IdSetProofs M.Util M.Proto M.MemStorage
  M.Inflights M.Progress M.RaftLog M.Quorum M.ConfChange M.Msg M.Raft M.RawNode
  M.RaftProofs M.RaftProofsC15 M.RaftProofsC09.
From RecordUpdate Require Import RecordSet.
Import RecordSetNotations.

Local Open Scope N_scope.

(* ================================================================== *)
(* 1. the ReadOnly data structure                                      *)
(* ================================================================== *)

Lemma list_eqb_eq a : forall b, list_eqb a b = true <-> a = b.
Proof.
  induction a as [|x a IH]; intros [|y b]; cbn [list_eqb]; split; intros H;
    try reflexivity; try discriminate.
  - apply andb_prop in H. destruct H as [H1 H2]. apply N.eqb_eq in H1. apply IH in H2. congruence.
  - inversion H; subst. rewrite N.eqb_refl. cbn. apply IH. reflexivity.
Qed.

Lemma list_eqb_refl a : list_eqb a a = true.
Proof. apply list_eqb_eq. reflexivity. Qed.

Lemma list_eqb_neq a b : list_eqb a b = false <-> a <> b.
Proof.
  split.
  - intros H E. apply list_eqb_eq in E. congruence.
  - intros H. destruct (list_eqb a b) eqn:E; [|reflexivity]. apply list_eqb_eq in E. contradiction.
Qed.

Lemma list_eqb_sym a b : list_eqb a b = list_eqb b a.
Proof.
  destruct (list_eqb a b) eqn:E.
  - apply list_eqb_eq in E. subst. symmetry. apply list_eqb_refl.
  - apply list_eqb_neq in E. symmetry. apply list_eqb_neq. congruence.
Qed.

Definition ro_keys (ro : read_only) : list (list N) := map fst (ro_pending ro).

(* representation invariant of ReadOnly: the queue has no duplicates, the pending
   map has one entry per key (it is a HashMap in the Rust), and the keys of the
   map are exactly the queued contexts *)
Definition RoInv (ro : read_only) : Prop :=
  NoDup (ro_queue ro) /\ NoDup (ro_keys ro) /\
  (forall c, In c (ro_queue ro) <-> In c (ro_keys ro)).

Lemma RoInv_new opt : RoInv (ro_new opt).
Proof. repeat split; try constructor; intros []. Qed.

(* --- ro_find / ro_update / ro_remove --- *)

Lemma ro_find_Some_In p c v : ro_find p c = Some v -> In (c, v) p.
Proof.
  induction p as [|[k w] t IH]; cbn [ro_find]; [discriminate|].
  destruct (list_eqb k c) eqn:E.
  - intros H. inversion H; subst. apply list_eqb_eq in E. subst. left. reflexivity.
  - intros H. right. apply IH. exact H.
Qed.

Lemma ro_find_None p c : ro_find p c = None <-> ~ In c (map fst p).
Proof.
  induction p as [|[k w] t IH]; cbn [ro_find map fst In].
  - split; [intros _ []|reflexivity].
  - destruct (list_eqb k c) eqn:E.
    + apply list_eqb_eq in E. subst. split; [discriminate|]. intros H. exfalso. apply H. left. reflexivity.
    + apply list_eqb_neq in E. rewrite IH. split; intros H; [intros [A|A]; [contradiction|apply H; exact A]|].
      intros A. apply H. right. exact A.
Qed.

Lemma ro_find_In_keys p c : In c (map fst p) -> exists v, ro_find p c = Some v.
Proof.
  intros H. destruct (ro_find p c) eqn:E; [eauto|]. apply ro_find_None in E. contradiction.
Qed.

Lemma ro_find_Some_keys p c v : ro_find p c = Some v -> In c (map fst p).
Proof. intros H. apply ro_find_Some_In in H. apply (in_map fst) in H. exact H. Qed.

Lemma ro_find_app p q c :
  ro_find (p ++ q) c = match ro_find p c with Some v => Some v | None => ro_find q c end.
Proof.
  induction p as [|[k w] t IH]; cbn [app ro_find]; [reflexivity|].
  destruct (list_eqb k c); [reflexivity|exact IH].
Qed.

Lemma ro_keys_update p c v : map fst (ro_update p c v) = map fst p.
Proof.
  induction p as [|[k w] t IH]; cbn [ro_update map fst]; [reflexivity|].
  destruct (list_eqb k c); cbn [map fst]; [reflexivity|]. rewrite IH. reflexivity.
Qed.

Lemma ro_find_update p c v c' :
  ro_find (ro_update p c v) c' =
  if list_eqb c c' then match ro_find p c with Some _ => Some v | None => None end
  else ro_find p c'.
Proof.
  induction p as [|[k w] t IH]; cbn [ro_update ro_find].
  - destruct (list_eqb c c'); reflexivity.
  - destruct (list_eqb k c) eqn:E1; cbn [ro_find].
    + apply list_eqb_eq in E1. subst k. destruct (list_eqb c c'); reflexivity.
    + rewrite IH. destruct (list_eqb c c') eqn:E2; [|reflexivity].
      apply list_eqb_eq in E2. subst c'. rewrite E1. reflexivity.
Qed.

Lemma ro_update_In p c v k w :
  In (k, w) (ro_update p c v) -> In (k, w) p \/ (k = c /\ w = v /\ exists w0, In (c, w0) p).
Proof.
  induction p as [|[k0 w0] t IH]; cbn [ro_update]; [intros []|].
  destruct (list_eqb k0 c) eqn:E.
  - apply list_eqb_eq in E. subst k0. intros [H|H].
    + inversion H; subst. right. split; [reflexivity|]. split; [reflexivity|]. exists w0. left. reflexivity.
    + left. right. exact H.
  - intros [H|H]; [left; left; exact H|]. apply IH in H. destruct H as [H|(A & B & w1 & D)].
    + left. right. exact H.
    + right. split; [exact A|]. split; [exact B|]. exists w1. right. exact D.
Qed.

Lemma ro_remove_In p c k w : In (k, w) (ro_remove p c) -> In (k, w) p.
Proof.
  induction p as [|[k0 w0] t IH]; cbn [ro_remove]; [intros []|].
  destruct (list_eqb k0 c); [intros H; right; exact H|].
  intros [H|H]; [left; exact H|right; apply IH; exact H].
Qed.

Lemma ro_find_remove_other p c c' : c' <> c -> ro_find (ro_remove p c) c' = ro_find p c'.
Proof.
  intros Hne. induction p as [|[k w] t IH]; cbn [ro_remove ro_find]; [reflexivity|].
  destruct (list_eqb k c) eqn:E1.
  - apply list_eqb_eq in E1. subst k.
    destruct (list_eqb c c') eqn:E2; [apply list_eqb_eq in E2; congruence|reflexivity].
  - cbn [ro_find]. rewrite IH. reflexivity.
Qed.

Lemma ro_keys_remove_In p c c' : In c' (map fst (ro_remove p c)) -> In c' (map fst p).
Proof.
  induction p as [|[k w] t IH]; cbn [ro_remove map fst]; [intros []|].
  destruct (list_eqb k c); cbn [map fst In]; [intros H; right; exact H|].
  intros [H|H]; [left; exact H|right; apply IH; exact H].
Qed.

Lemma ro_keys_remove_NoDup p c :
  NoDup (map fst p) ->
  NoDup (map fst (ro_remove p c)) /\
  (forall c', In c' (map fst (ro_remove p c)) <-> In c' (map fst p) /\ c' <> c).
Proof.
  induction p as [|[k w] t IH]; cbn [ro_remove map fst]; intros Hnd.
  - split; [constructor|]. intros c'. split; [intros []|intros [[] _]].
  - inversion Hnd as [|? ? Hk Ht]; subst. destruct (list_eqb k c) eqn:E.
    + apply list_eqb_eq in E. subst k. split; [exact Ht|]. intros c'. cbn [In]. split.
      * intros H. split; [right; exact H|]. intros ->. contradiction.
      * intros [[A|A] B]; [congruence|exact A].
    + apply list_eqb_neq in E. destruct (IH Ht) as [N1 N2]. cbn [map fst]. split.
      * constructor; [|exact N1]. intros A. apply N2 in A. destruct A as [A _]. contradiction.
      * intros c'. cbn [In]. rewrite N2. split.
        -- intros [A|[A B]]; [subst; split; [left; reflexivity|exact E]|split; [right; exact A|exact B]].
        -- intros [[A|A] B]; [left; exact A|right; split; assumption].
Qed.

Lemma ro_find_remove_same p c : NoDup (map fst p) -> ro_find (ro_remove p c) c = None.
Proof.
  intros H. apply ro_find_None. intros A. apply (ro_keys_remove_NoDup p c H) in A.
  destruct A as [_ A]. apply A. reflexivity.
Qed.

(* --- ReadOnly::add_request --- *)

(* add_request on a context that is already pending changes nothing; otherwise the
   request is appended at the back of the queue with the given index and acks = {self} *)
Theorem ro_add_request_spec ro idx req self ro' :
  ro_add_request ro idx req self = Ok ro' ->
  exists e rest, m_entries req = e :: rest /\
    ((exists st, ro_find (ro_pending ro) (e_data e) = Some st /\ ro' = ro) \/
     (ro_find (ro_pending ro) (e_data e) = None /\
      ro' = mkRO (ro_option ro)
                 (ro_pending ro ++ [(e_data e, mkRIS req idx [self])])
                 (ro_queue ro ++ [e_data e]))).
Proof.
  unfold ro_add_request, first_entry_data. intros H.
  destruct (m_entries req) as [|e rest]; [discriminate|]. cbn [bind] in H.
  exists e, rest. split; [reflexivity|].
  destruct (ro_find (ro_pending ro) (e_data e)) as [st|] eqn:E; inversion H; subst.
  - left. exists st. split; reflexivity.
  - right. split; reflexivity.
Qed.

Theorem ro_add_request_idempotent ro idx req self e rest st :
  m_entries req = e :: rest -> ro_find (ro_pending ro) (e_data e) = Some st ->
  ro_add_request ro idx req self = Ok ro.
Proof.
  intros He Hf. unfold ro_add_request, first_entry_data. rewrite He. cbn [bind]. rewrite Hf. reflexivity.
Qed.

Lemma NoDup_snoc {T} (l : list T) x : NoDup l -> ~ In x l -> NoDup (l ++ [x]).
Proof.
  induction l as [|y l IH]; cbn [app]; intros Hnd Hx.
  - constructor; [intros []|constructor].
  - inversion Hnd; subst. constructor.
    + rewrite in_app_iff. intros [A|[A|[]]]; [contradiction|]. apply Hx. left. symmetry. exact A.
    + apply IH; [assumption|]. intros A. apply Hx. right. exact A.
Qed.

Theorem ro_add_request_RoInv ro idx req self ro' :
  ro_add_request ro idx req self = Ok ro' -> RoInv ro -> RoInv ro'.
Proof.
  intros H Hinv. apply ro_add_request_spec in H.
  destruct H as (e & rest & _ & [(st & _ & ->)|(Hn & ->)]); [exact Hinv|].
  destruct Hinv as (Hq & Hk & Hqk). apply ro_find_None in Hn.
  assert (Hnq : ~ In (e_data e) (ro_queue ro)) by (intros A; apply Hqk in A; contradiction).
  unfold RoInv, ro_keys. cbn [ro_queue ro_pending]. rewrite map_app. cbn [map fst].
  split; [|split].
  - apply NoDup_snoc; assumption.
  - apply NoDup_snoc; assumption.
  - intros c. rewrite !in_app_iff. unfold ro_keys in Hqk. rewrite Hqk. reflexivity.
Qed.

(* --- ReadOnly::recv_ack --- *)

Definition add_ack (id : N) (rs : read_index_status) : read_index_status :=
  mkRIS (ris_req rs) (ris_index rs) (IdSet.insert id (ris_acks rs)).

(* recv_ack only adds [id] to the ack set of [ctx]: queue, option, keys, every other
   entry, and the request and recorded index of every entry are untouched *)
Theorem ro_recv_ack_spec ro id ctx :
  let ro' := fst (ro_recv_ack ro id ctx) in
  snd (ro_recv_ack ro id ctx) =
    option_map (fun rs => IdSet.insert id (ris_acks rs)) (ro_find (ro_pending ro) ctx) /\
  ro_option ro' = ro_option ro /\ ro_queue ro' = ro_queue ro /\ ro_keys ro' = ro_keys ro /\
  (forall c, ro_find (ro_pending ro') c =
             if list_eqb ctx c then option_map (add_ack id) (ro_find (ro_pending ro) ctx)
             else ro_find (ro_pending ro) c).
Proof.
  unfold ro_recv_ack. destruct (ro_find (ro_pending ro) ctx) as [rs|] eqn:E; cbn [fst snd option_map].
  - cbn [ro_option ro_queue]. unfold ro_keys. cbn [ro_pending]. rewrite ro_keys_update.
    repeat split. intros c. rewrite ro_find_update, E. reflexivity.
  - repeat split. intros c. destruct (list_eqb ctx c) eqn:E2; [|reflexivity].
    apply list_eqb_eq in E2. subst c. exact E.
Qed.

Lemma ro_recv_ack_None ro id ctx :
  ro_find (ro_pending ro) ctx = None -> ro_recv_ack ro id ctx = (ro, None).
Proof. unfold ro_recv_ack. intros ->. reflexivity. Qed.

(* the recorded index and request of any context are never changed by recv_ack *)
Theorem ro_recv_ack_keeps_index ro id ctx c :
  option_map ris_index (ro_find (ro_pending (fst (ro_recv_ack ro id ctx))) c)
    = option_map ris_index (ro_find (ro_pending ro) c) /\
  option_map ris_req (ro_find (ro_pending (fst (ro_recv_ack ro id ctx))) c)
    = option_map ris_req (ro_find (ro_pending ro) c).
Proof.
  destruct (ro_recv_ack_spec ro id ctx) as (_ & _ & _ & _ & Hf). rewrite Hf.
  destruct (list_eqb ctx c) eqn:E; [|split; reflexivity].
  apply list_eqb_eq in E. subst c. destruct (ro_find (ro_pending ro) ctx); split; reflexivity.
Qed.

Theorem ro_recv_ack_RoInv ro id ctx : RoInv ro -> RoInv (fst (ro_recv_ack ro id ctx)).
Proof.
  destruct (ro_recv_ack_spec ro id ctx) as (_ & _ & Hq & Hk & _).
  unfold RoInv. rewrite Hq, Hk. auto.
Qed.

(* every entry of the pending map after recv_ack is an entry before, up to its ack set *)
Lemma ro_recv_ack_In ro id ctx c st' :
  In (c, st') (ro_pending (fst (ro_recv_ack ro id ctx))) ->
  exists st, In (c, st) (ro_pending ro) /\ ris_req st = ris_req st' /\ ris_index st = ris_index st'.
Proof.
  unfold ro_recv_ack. destruct (ro_find (ro_pending ro) ctx) as [rs|] eqn:E; cbn [fst ro_pending].
  - intros H. apply ro_update_In in H. destruct H as [H|(A & B & w0 & D)].
    + exists st'. auto.
    + subst. apply ro_find_Some_In in E. exists rs. auto.
  - intros H. exists st'. auto.
Qed.

(* --- ReadOnly::advance --- *)

Lemma ro_position_spec ro ctx : forall q i,
  (forall x, In x q -> exists v, ro_find (ro_pending ro) x = Some v) ->
  (~ In ctx q -> ro_position ro q ctx i = Ok None) /\
  (forall pre post, q = pre ++ ctx :: post -> ~ In ctx pre ->
     ro_position ro q ctx i = Ok (Some (i + length pre)%nat)).
Proof.
  induction q as [|x t IH]; intros i Hall.
  - split; [reflexivity|]. intros [|? ?] post H; discriminate.
  - cbn [ro_position]. destruct (Hall x (or_introl eq_refl)) as [v Hv]. rewrite Hv.
    assert (Hall' : forall y, In y t -> exists v, ro_find (ro_pending ro) y = Some v)
      by (intros y Hy; apply Hall; right; exact Hy).
    destruct (IH (S i) Hall') as [IH1 IH2]. split.
    + intros Hn. destruct (list_eqb x ctx) eqn:E.
      * apply list_eqb_eq in E. exfalso. apply Hn. left. exact E.
      * apply IH1. intros A. apply Hn. right. exact A.
    + intros pre post Hq Hpre. destruct pre as [|p pre]; cbn [app] in Hq; inversion Hq; subst.
      * rewrite list_eqb_refl. cbn [length]. rewrite Nat.add_0_r. reflexivity.
      * assert (E : list_eqb p ctx = false).
        { apply list_eqb_neq. intros ->. apply Hpre. left. reflexivity. }
        rewrite E. rewrite (IH2 pre post eq_refl).
        -- cbn [length]. f_equal. f_equal. lia.
        -- intros A. apply Hpre. right. exact A.
Qed.

(* the position scan only says "found" for an element of the queue *)
Lemma ro_position_Some ro ctx : forall q i k,
  ro_position ro q ctx i = Ok (Some k) -> In ctx q /\ (i <= k < i + length q)%nat.
Proof.
  induction q as [|x t IH]; intros i k H; cbn [ro_position] in H; [discriminate|].
  destruct (ro_find (ro_pending ro) x); [|discriminate].
  destruct (list_eqb x ctx) eqn:E.
  - apply list_eqb_eq in E. inversion H; subst. split; [left; reflexivity|]. cbn [length]. lia.
  - apply IH in H. destruct H as [A B]. split; [right; exact A|]. cbn [length]. lia.
Qed.

Lemma ro_pop_spec : forall k ro acc,
  RoInv ro -> (k <= length (ro_queue ro))%nat ->
  exists ro' sts, ro_pop ro k acc = Ok (ro', acc ++ sts) /\
    ro_option ro' = ro_option ro /\
    ro_queue ro' = skipn k (ro_queue ro) /\
    map Some sts = map (ro_find (ro_pending ro)) (firstn k (ro_queue ro)) /\
    (forall c, In c (firstn k (ro_queue ro)) -> ro_find (ro_pending ro') c = None) /\
    (forall c, ~ In c (firstn k (ro_queue ro)) -> ro_find (ro_pending ro') c = ro_find (ro_pending ro) c) /\
    RoInv ro'.
Proof.
  induction k as [|k IH]; intros ro acc Hinv Hlen.
  - exists ro, []. cbn [ro_pop skipn firstn map]. rewrite app_nil_r. repeat split; auto; try apply Hinv.
    intros c [].
  - cbn [ro_pop]. destruct (ro_queue ro) as [|x t] eqn:Eq; [cbn in Hlen; lia|].
    destruct Hinv as (Hq & Hk & Hqk). rewrite Eq in Hq, Hqk.
    assert (Hx : In x (ro_keys ro)) by (apply Hqk; left; reflexivity).
    destruct (ro_find_In_keys _ _ Hx) as [st Hst]. rewrite Hst.
    inversion Hq as [|? ? Hxt Hnt]; subst.
    set (ro1 := mkRO (ro_option ro) (ro_remove (ro_pending ro) x) t).
    destruct (ro_keys_remove_NoDup (ro_pending ro) x Hk) as [N1 N2].
    assert (Hinv1 : RoInv ro1).
    { unfold RoInv, ro_keys, ro1. cbn [ro_queue ro_pending]. split; [exact Hnt|]. split; [exact N1|].
      intros c. rewrite N2. unfold ro_keys in Hqk. rewrite <- Hqk. cbn [In]. split.
      - intros A. split; [right; exact A|]. intros ->. contradiction.
      - intros [[A|A] B]; [congruence|exact A]. }
    assert (Hlen1 : (k <= length (ro_queue ro1))%nat) by (cbn in Hlen |- *; lia).
    destruct (IH ro1 (acc ++ [st]) Hinv1 Hlen1) as (ro' & sts & Hp & Ho & Hq' & Hm & Hnone & Hsame & Hinv').
    exists ro', (st :: sts). rewrite <- app_assoc in Hp. cbn [app] in Hp.
    cbn [ro_queue ro_pending ro_option] in *. cbn [skipn firstn map].
    split; [exact Hp|]. split; [exact Ho|]. split; [exact Hq'|]. split; [|split; [|split]].
    + rewrite Hst. f_equal. rewrite Hm. apply map_ext_in. intros c Hc.
      apply ro_find_remove_other. intros ->. apply Hxt. apply (In_firstn_in _ _ _ Hc).
    + intros c [A|A].
      * subst c. destruct (in_dec (list_eq_dec N.eq_dec) x (firstn k t)) as [B|B].
        -- apply Hnone. exact B.
        -- rewrite (Hsame _ B). apply ro_find_remove_same. exact Hk.
      * apply Hnone. exact A.
    + intros c Hc. rewrite Hsame; [|intros A; apply Hc; right; exact A].
      apply ro_find_remove_other. intros ->. apply Hc. left. reflexivity.
    + exact Hinv'.
Qed.

Lemma firstn_app_len {T} (a b : list T) x : firstn (S (length a)) (a ++ x :: b) = a ++ [x].
Proof. induction a as [|y a IH]; cbn [length app firstn]; [reflexivity|]. f_equal. exact IH. Qed.

Lemma skipn_app_len {T} (a b : list T) x : skipn (S (length a)) (a ++ x :: b) = b.
Proof. induction a as [|y a IH]; cbn [length app skipn]; [reflexivity|exact IH]. Qed.

Lemma RoInv_all_found ro : RoInv ro ->
  forall x, In x (ro_queue ro) -> exists v, ro_find (ro_pending ro) x = Some v.
Proof. intros (_ & _ & H) x Hx. apply ro_find_In_keys. apply H. exact Hx. Qed.

(* advance(ctx): if ctx is not queued nothing changes; if it is queued at position
   |pre|, exactly the first |pre|+1 requests are popped, in order, and their statuses
   are returned in order (an acknowledged later request releases all earlier ones) *)
Theorem ro_advance_spec ro ctx : RoInv ro ->
  (~ In ctx (ro_queue ro) -> ro_advance ro ctx = Ok (ro, [])) /\
  (forall pre post, ro_queue ro = pre ++ ctx :: post ->
     exists ro' rss, ro_advance ro ctx = Ok (ro', rss) /\
       ro_option ro' = ro_option ro /\ ro_queue ro' = post /\
       map Some rss = map (ro_find (ro_pending ro)) (pre ++ [ctx]) /\
       (forall c, In c (pre ++ [ctx]) -> ro_find (ro_pending ro') c = None) /\
       (forall c, ~ In c (pre ++ [ctx]) -> ro_find (ro_pending ro') c = ro_find (ro_pending ro) c) /\
       RoInv ro').
Proof.
  intros Hinv. pose proof (RoInv_all_found ro Hinv) as Hall.
  destruct (ro_position_spec ro ctx (ro_queue ro) 0%nat Hall) as [P1 P2]. split.
  - intros Hn. unfold ro_advance. rewrite (P1 Hn). reflexivity.
  - intros pre post Hq.
    assert (Hpre : ~ In ctx pre).
    { destruct Hinv as (Hnd & _). rewrite Hq in Hnd. apply NoDup_remove_2 in Hnd.
      intros A. apply Hnd. apply in_or_app. left. exact A. }
    unfold ro_advance. rewrite (P2 pre post Hq Hpre). cbn [bind Nat.add].
    assert (Hlen : (S (length pre) <= length (ro_queue ro))%nat).
    { rewrite Hq, app_length. cbn [length]. lia. }
    destruct (ro_pop_spec (S (length pre)) ro [] Hinv Hlen)
      as (ro' & sts & Hp & Ho & Hq' & Hm & Hnone & Hsame & Hinv').
    cbn [app] in Hp. rewrite Hq, firstn_app_len in Hm, Hnone, Hsame. rewrite Hq, skipn_app_len in Hq'.
    exists ro', sts. split; [exact Hp|]. split; [exact Ho|]. split; [exact Hq'|].
    split; [exact Hm|]. split; [exact Hnone|]. split; [exact Hsame|exact Hinv'].
Qed.

(* under the representation invariant advance never panics *)
Theorem ro_advance_no_panic ro ctx : RoInv ro -> exists x, ro_advance ro ctx = Ok x.
Proof.
  intros Hinv. destruct (ro_advance_spec ro ctx Hinv) as [A B].
  destruct (in_dec (list_eq_dec N.eq_dec) ctx (ro_queue ro)) as [Hin|Hn].
  - apply in_split in Hin. destruct Hin as (pre & post & Hq).
    destruct (B pre post Hq) as (ro' & rss & H & _). eauto.
  - eauto.
Qed.

Theorem ro_advance_never_ro_missing ro ctx : RoInv ro -> ro_advance ro ctx <> Panic site_ro_missing.
Proof. intros H. destruct (ro_advance_no_panic ro ctx H) as [x ->]. discriminate. Qed.

Theorem ro_advance_RoInv ro ctx ro' rss : ro_advance ro ctx = Ok (ro', rss) -> RoInv ro -> RoInv ro'.
Proof.
  intros H Hinv. destruct (ro_advance_spec ro ctx Hinv) as [A B].
  destruct (in_dec (list_eq_dec N.eq_dec) ctx (ro_queue ro)) as [Hin|Hn].
  - apply in_split in Hin. destruct Hin as (pre & post & Hq).
    destruct (B pre post Hq) as (ro1 & rss1 & H1 & _ & _ & _ & _ & _ & Hi). congruence.
  - rewrite (A Hn) in H. inversion H; subst. exact Hinv.
Qed.

(* facts about an Ok result of advance that need no invariant *)
Lemma ro_pop_sub : forall k ro acc ro' out,
  ro_pop ro k acc = Ok (ro', out) ->
  exists sts, out = acc ++ sts /\ length sts = k /\
    (forall st, In st sts -> exists c, In c (ro_queue ro) /\ In (c, st) (ro_pending ro)) /\
    (forall c st, In (c, st) (ro_pending ro') -> In (c, st) (ro_pending ro)) /\
    ro_option ro' = ro_option ro /\ ro_queue ro' = skipn k (ro_queue ro).
Proof.
  induction k as [|k IH]; intros ro acc ro' out H; cbn [ro_pop] in H.
  - inversion H; subst. exists []. rewrite app_nil_r. repeat split; auto. intros st [].
  - destruct (ro_queue ro) as [|x t] eqn:Eq; [discriminate|].
    destruct (ro_find (ro_pending ro) x) as [st|] eqn:Ef; [|discriminate].
    apply IH in H. destruct H as (sts & -> & Hl & Hin & Hsub & Ho & Hq).
    cbn [ro_queue ro_pending ro_option] in *.
    exists (st :: sts). rewrite <- app_assoc. cbn [app length skipn]. repeat split; auto.
    + intros st' [A|A].
      * subst st'. exists x. split; [left; reflexivity|]. apply ro_find_Some_In. exact Ef.
      * destruct (Hin st' A) as (c & Hc1 & Hc2). exists c. split; [right; exact Hc1|].
        eapply ro_remove_In; exact Hc2.
    + intros c st' A. eapply ro_remove_In. apply Hsub. exact A.
Qed.

Theorem ro_advance_sub ro ctx ro' rss :
  ro_advance ro ctx = Ok (ro', rss) ->
  ro_option ro' = ro_option ro /\
  (forall st, In st rss -> exists c, In c (ro_queue ro) /\ In (c, st) (ro_pending ro)) /\
  (forall c st, In (c, st) (ro_pending ro') -> In (c, st) (ro_pending ro)) /\
  (rss <> [] -> In ctx (ro_queue ro)) /\
  (exists k, ro_queue ro' = skipn k (ro_queue ro) /\ length rss = k).
Proof.
  unfold ro_advance. intros H. inv_bind H. destruct x as [i|].
  - apply ro_position_Some in Hx. destruct Hx as [Hin _].
    apply ro_pop_sub in H. destruct H as (sts & E & Hl & A & B & C0 & D). cbn [app] in E. subst sts.
    repeat split; auto. exists (S i). split; assumption.
  - inversion H; subst. repeat split; auto.
    + intros st [].
    + intros A. contradiction.
    + exists 0%nat. split; reflexivity.
Qed.

(* ro_last_pending_request_ctx is the back of the queue *)
Lemma ro_last_pending_spec ro :
  ro_last_pending_request_ctx ro =
    match ro_queue ro with [] => None | _ => Some (List.last (ro_queue ro) []) end.
Proof. reflexivity. Qed.

Lemma ro_last_pending_In ro c : ro_last_pending_request_ctx ro = Some c -> In c (ro_queue ro).
Proof.
  unfold ro_last_pending_request_ctx. intros H.
  assert (Hne : ro_queue ro <> []) by (intros E; rewrite E in H; discriminate).
  assert (Hc : c = List.last (ro_queue ro) []).
  { destruct (ro_queue ro); [contradiction|]. inversion H. reflexivity. }
  subst c. destruct (exists_last Hne) as (l' & a & ->). rewrite last_last.
  apply in_or_app. right. left. reflexivity.
Qed.
