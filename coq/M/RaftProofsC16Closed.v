(* C16, closing the window: the nodes outside the majority run this library too.
   Part A: a generic queue-predicate frame GQ over every handler.
   Part B: what a window member emits (PM).  Part C: the outsider's invariant OInv: its
   term stays <= t, it never becomes leader, everything it emits is fit for the majority
   (adv_ok) and for the other outsiders.  Part D: the closed cluster. *)
From RV Require Import Base.Prelude Base.IdSet Base.IdSetProofs M.Util M.Proto M.MemStorage
  M.Inflights M.Progress M.RaftLog M.Quorum M.ConfChange M.Msg M.Raft M.RaftProofs
  M.RaftProofsC10 M.RaftProofsC10Pair M.RaftProofsC10Star M.RaftProofsC16
  M.RaftProofsC16Window.
From RV Require M.QuorumProofs.
From RecordUpdate Require Import RecordSet.
Import RecordSetNotations.

Local Open Scope N_scope.

Ltac dtop H :=
  match type of H with
  | (if ?c then _ else _) = _ => destruct c eqn:?
  | (match ?c with _ => _ end) = _ => destruct c eqn:?
  end.
Ltac okinv H := inversion H; subst; clear H.
Ltac ib H x Hx := apply bind_ok in H; destruct H as (x & Hx & H).

(* ------------------------------------------------------------------ *)
(* what [send] queues, all fields that matter here *)
Lemma send_rc r m0 r' : send r m0 = Ok r' ->
  exists m', r_msgs r' = r_msgs r ++ [m'] /\ m_reject m' = m_reject m0 /\
             m_context m' = m_context m0.
Proof.
  unfold send. intros H. ib H x Hx. okinv H. cbn. eexists. split; [reflexivity|].
  assert (Hx1 : m_reject x = m_reject m0 /\ m_context x = m_context m0).
  { clear -Hx. destruct (is_vote_type _).
    - destruct (m_term _ =? 0); okinv Hx. destruct (m_from m0 =? INVALID_ID); cbn; auto.
    - destruct (negb _); [discriminate|].
      destruct (_ && _); okinv Hx; destruct (m_from m0 =? INVALID_ID); cbn; auto. }
  destruct Hx1 as (A & B).
  destruct ((m_type x =? MsgRequestVote) || (m_type x =? MsgRequestPreVote));
    [destruct (0 <? r_priority r)%Z|]; cbn; auto.
Qed.

Lemma send_full r m0 r' : send r m0 = Ok r' ->
  exists m', r' = r <| r_msgs := r_msgs r ++ [m'] |> /\
    m_type m' = m_type m0 /\ m_to m' = m_to m0 /\
    m_from m' = (if m_from m0 =? INVALID_ID then r_id r else m_from m0) /\
    m_reject m' = m_reject m0 /\ m_context m' = m_context m0 /\
    (if is_vote_type (m_type m0) then m_term m' = m_term m0 /\ m_term m0 <> 0
     else m_term m0 = 0 /\
          m_term m' = (if negb (m_type m0 =? MsgPropose) && negb (m_type m0 =? MsgReadIndex)
                       then r_term r else 0)).
Proof.
  intros H. pose proof (send_shape _ _ _ H) as (m' & E & A1 & A2 & A3 & A4).
  pose proof (send_rc _ _ _ H) as (m'' & E' & B3 & B4).
  assert (m'' = m').
  { rewrite E in E'. cbn in E'. apply app_inv_head in E'. congruence. }
  subst m''. exists m'. repeat split; assumption.
Qed.

(* ------------------------------------------------------------------ *)
(* Part A: a queue predicate through the handlers *)

(* the message types a node stamps with its own id and term *)
Definition ptype (ty : N) : Prop :=
  ty = MsgAppend \/ ty = MsgHeartbeat \/ ty = MsgSnapshot \/ ty = MsgReadIndexResp \/
  ty = MsgAppendResponse \/ ty = MsgHeartbeatResponse.

Lemma ptype_plain ty : ptype ty ->
  is_vote_type ty = false /\ (negb (ty =? MsgPropose) && negb (ty =? MsgReadIndex)) = true.
Proof. intros [E|[E|[E|[E|[E|E]]]]]; rewrite E; split; reflexivity. Qed.

Lemma ltype_ptype ty : ltype ty -> ptype ty.
Proof. unfold ltype, ptype. tauto. Qed.

Section GQ.

Variable P : msg -> Prop.
Variables (self tb : N).
(* the plain message types the node may send *)
Variable pt : N -> Prop.
Hypothesis pt_ok : forall ty, pt ty -> ptype ty.
(* P holds of every such message stamped with [self] and a term up to [tb] *)
Hypothesis P_plain : forall x, pt (m_type x) -> m_from x = self -> m_term x <= tb -> P x.
Hypothesis P_batch1 : forall m e c, P m -> P (m <| m_entries := e |> <| m_commit := c |>).
Hypothesis P_batch2 : forall m c, P m -> P (m <| m_commit := c |>).

Definition GQ (r r' : raft) : Prop :=
  keeps r r' /\
  (r_id r = self -> r_term r <= tb -> Forall P (r_msgs r) -> Forall P (r_msgs r')).

Lemma GQ_refl r : GQ r r.
Proof. split; [apply keeps_refl|auto]. Qed.

Lemma GQ_trans a b c : GQ a b -> GQ b c -> GQ a c.
Proof.
  intros [K1 Q1] [K2 Q2]. split; [eapply keeps_trans; eassumption|].
  pose proof (keeps_fields _ _ K1) as (T & _ & _ & _ & C). apply cfg_fields in C. destruct C as (I & _).
  intros Hi Ht F. apply Q2; [congruence|lia|]. apply Q1; assumption.
Qed.

Lemma GQ_same r r' : keeps r r' -> r_msgs r' = r_msgs r -> GQ r r'.
Proof. intros K M. split; [exact K|]. rewrite M. auto. Qed.

(* a send whose queued message satisfies P *)
Lemma send_GQ_gen r m0 r' :
  send r m0 = Ok r' ->
  (r_id r = self -> r_term r <= tb ->
   forall m', m_type m' = m_type m0 -> m_to m' = m_to m0 ->
     m_from m' = (if m_from m0 =? INVALID_ID then r_id r else m_from m0) ->
     m_reject m' = m_reject m0 -> m_context m' = m_context m0 ->
     (if is_vote_type (m_type m0) then m_term m' = m_term m0 /\ m_term m0 <> 0
      else m_term m0 = 0 /\
           m_term m' = (if negb (m_type m0 =? MsgPropose) && negb (m_type m0 =? MsgReadIndex)
                        then r_term r else 0)) -> P m') ->
  GQ r r'.
Proof.
  intros H HP. split; [eapply send_keeps; exact H|].
  apply send_full in H. destruct H as (m' & -> & A1 & A2 & A3 & A4 & A5 & A6).
  intros Hi Ht F. cbn. apply Forall_app. split; [exact F|]. constructor; [|constructor].
  apply HP; assumption.
Qed.

Lemma send_GQ r m0 r' :
  send r m0 = Ok r' -> m_from m0 = INVALID_ID -> pt (m_type m0) -> GQ r r'.
Proof.
  intros H Hf Hty. eapply send_GQ_gen; [exact H|].
  intros Hi Ht m' A1 A2 A3 _ _ A6. rewrite Hf, N.eqb_refl in A3.
  destruct (ptype_plain _ (pt_ok _ Hty)) as [V1 V2]. rewrite V1, V2 in A6. destruct A6 as [_ A6].
  apply P_plain; [rewrite A1; exact Hty|congruence|lia].
Qed.

Section GQLeader.
(* a node that may lead sends every leader type *)
Hypothesis HptL : forall ty, ltype ty -> pt ty.

Lemma try_batching_P r to : forall msgs pr ents msgs' pr' b,
  try_batching r to msgs pr ents = Ok (msgs', pr', b) -> Forall P msgs -> Forall P msgs'.
Proof.
  induction msgs as [|m rest IH]; intros pr ents msgs' pr' b H F; cbn [try_batching] in H.
  - okinv H. exact F.
  - apply Forall_cons_iff in F. destruct F as [F0 Fr]. dtop H.
    + destruct ents as [|e es].
      * okinv H. constructor; [apply P_batch2; exact F0|exact Fr].
      * dtop H; [okinv H; constructor; assumption|].
        ib H p1 Hp. okinv H. constructor; [apply P_batch1; exact F0|exact Fr].
    + ib H y Hy. destruct y as [[rest' p1] b1]. okinv H.
      constructor; [exact F0|eapply IH; eassumption].
Qed.

Lemma maybe_send_append_GQ r to pr ae r' pr' b :
  maybe_send_append r to pr ae = Ok (r', pr', b) -> GQ r r'.
Proof.
  unfold maybe_send_append. intros H.
  assert (Hsnap :
    (x <- prepare_send_snapshot r (msg_default <| m_to := to |>) pr to ;;
     match x with
     | None => Ok (r, pr, false)
     | Some (m', pr') => r' <- send r m' ;; Ok (r', pr', true)
     end) = Ok (r', pr', b) -> GQ r r').
  { intros Hs. ib Hs x Hx. destruct x as [[m' p']|]; [|okinv Hs; apply GQ_refl].
    ib Hs r1 H1. okinv Hs. unfold prepare_send_snapshot in Hx.
    dtop Hx; [discriminate|]. ib Hx sr Hsr. destruct sr as [s|e]; [|destruct e; discriminate].
    dtop Hx; [discriminate|]. okinv Hx.
    eapply send_GQ; [exact H1|reflexivity|apply HptL; right; right; left; reflexivity]. }
  dtop H; [okinv H; apply GQ_refl|].
  dtop H; [apply Hsnap; exact H|].
  ib H ents He.
  dtop H; [okinv H; apply GQ_refl|].
  dtop H; [discriminate|].
  ib H t0 Ht0.
  destruct t0 as [t|e]; destruct ents as [ents|e'];
    try (apply Hsnap; exact H);
    try (destruct e'; try (apply Hsnap; exact H); okinv H; apply GQ_refl).
  ib H y Hy. destruct y as [[msgs' pr1] batched].
  destruct batched.
  - okinv H. split; [reflexivity|]. intros _ _ F. cbn.
    destruct (r_batch_append r); [|okinv Hy; exact F]. eapply try_batching_P; eassumption.
  - ib H z Hz. destruct z as [m' pr2]. ib H r1 H1. okinv H.
    unfold prepare_send_entries in Hz. dtop Hz; [discriminate|].
    assert (Hm' : m_from m' = INVALID_ID /\ m_type m' = MsgAppend).
    { destruct ents as [|e0 es]; [okinv Hz; split; reflexivity|].
      ib Hz p3 Hp3. okinv Hz. split; reflexivity. }
    destruct Hm' as (M1 & M2).
    eapply send_GQ; [exact H1|exact M1|rewrite M2; apply HptL; left; reflexivity].
Qed.

Lemma GQ_put r r1 id p : GQ r r1 -> GQ r (put_pr r1 id p).
Proof. intros G. eapply GQ_trans; [exact G|]. apply GQ_same; reflexivity. Qed.

Lemma send_append_to_GQ r to r' : send_append_to r to = Ok r' -> GQ r r'.
Proof.
  unfold send_append_to. intros H. destruct (get_pr r to) as [pr|]; [|discriminate].
  ib H y Hy. destruct y as [[r1 p1] b]. okinv H. apply GQ_put. eapply maybe_send_append_GQ; exact Hy.
Qed.

Lemma send_append_aggressively_loop_GQ fuel : forall r to pr r' pr',
  send_append_aggressively_loop fuel r to pr = Ok (r', pr') -> GQ r r'.
Proof.
  induction fuel as [|f IH]; intros r to pr r' pr' H; cbn in H; [discriminate|].
  ib H y Hy. destruct y as [[r1 p1] b]. apply maybe_send_append_GQ in Hy.
  destruct b; [|okinv H; exact Hy]. apply IH in H. eapply GQ_trans; eassumption.
Qed.

Lemma send_append_aggressively_GQ r to r' : send_append_aggressively r to = Ok r' -> GQ r r'.
Proof.
  unfold send_append_aggressively. intros H. destruct (get_pr r to) as [pr|]; [|discriminate].
  ib H y Hy. destruct y as [r1 p1]. okinv H. apply GQ_put.
  eapply send_append_aggressively_loop_GQ; exact Hy.
Qed.

Lemma for_each_peer_GQ (f : raft -> N -> Res raft) :
  (forall r id r', f r id = Ok r' -> GQ r r') ->
  forall l self' r r', for_each_peer l self' f r = Ok r' -> GQ r r'.
Proof.
  intros Hf. induction l as [|id rest IH]; intros self' r r' H; cbn in H.
  - okinv H. apply GQ_refl.
  - destruct (id =? self'); [eapply IH; eassumption|].
    ib H r1 H1. apply Hf in H1. apply IH in H. eapply GQ_trans; eassumption.
Qed.

Lemma bcast_append_GQ r r' : bcast_append r = Ok r' -> GQ r r'.
Proof. apply for_each_peer_GQ. apply send_append_to_GQ. Qed.

Lemma send_heartbeat_GQ r to pr ctx r' : send_heartbeat r to pr ctx = Ok r' -> GQ r r'.
Proof.
  unfold send_heartbeat. intros H.
  eapply send_GQ; [exact H|destruct ctx; reflexivity|destruct ctx; apply HptL; right; left; reflexivity].
Qed.

Lemma bcast_heartbeat_with_ctx_GQ r ctx r' : bcast_heartbeat_with_ctx r ctx = Ok r' -> GQ r r'.
Proof.
  apply for_each_peer_GQ. intros r0 id r1 H.
  destruct (get_pr r0 id); [|discriminate]. eapply send_heartbeat_GQ; eassumption.
Qed.

Lemma maybe_commit_GQ r r' b : Raft.maybe_commit r = Ok (r', b) -> GQ r r'.
Proof.
  intros H. apply GQ_same; [eapply maybe_commit_keeps; exact H|].
  unfold Raft.maybe_commit in H. ib H y Hy. destruct y as [l' b'].
  destruct b'; [destruct (get_pr r (r_id r))|]; okinv H; reflexivity.
Qed.

Lemma append_entry_GQ r es r' b : append_entry r es = Ok (r', b) -> GQ r r'.
Proof.
  intros H. apply GQ_same; [eapply append_entry_keeps; exact H|].
  unfold append_entry in H.
  destruct (maybe_increase_uncommitted_size r es) as [r1 ok] eqn:E.
  assert (M : r_msgs r1 = r_msgs r).
  { unfold maybe_increase_uncommitted_size in E. dtop E; [okinv E; auto|]. dtop E; okinv E; auto. }
  destruct ok; cbn [negb] in H; [ib H y Hy; okinv H; exact M|okinv H; exact M].
Qed.

Lemma respond_reads_GQ rss : forall r r', respond_reads r rss = Ok r' -> GQ r r'.
Proof.
  induction rss as [|rs rest IH]; intros r r' H; cbn in H.
  - okinv H. apply GQ_refl.
  - ib H y Hy. destruct y as [r1 om]. ib H r2 H2. apply IH in H.
    unfold handle_ready_read_index in Hy.
    assert (G1 : GQ r r2).
    { dtop Hy.
      - ib Hy d Hd. okinv Hy. okinv H2. apply GQ_same; reflexivity.
      - okinv Hy. eapply send_GQ; [exact H2|reflexivity|apply HptL; right; right; right; left; reflexivity]. }
    eapply GQ_trans; eassumption.
Qed.

Lemma handle_append_response_GQ r m r' :
  r_lead_transferee r = None -> handle_append_response r m = Ok r' -> GQ r r'.
Proof.
  intros HT. unfold handle_append_response. intros H. ib H npi Hn.
  destruct (get_pr r (m_from m)) as [pr|]; [|okinv H; apply GQ_refl].
  dtop H.
  - destruct (maybe_decr_to _ _ _ _) as [pr1 dec]. destruct dec.
    + apply send_append_to_GQ in H. eapply GQ_trans; [|exact H]. apply GQ_same; reflexivity.
    + okinv H. apply GQ_same; reflexivity.
  - destruct (maybe_update _ _) as [pr1 upd]. destruct upd; cbn [negb] in H;
      [|okinv H; apply GQ_same; reflexivity].
    ib H pr2 H2. ib H y Hy. destruct y as [r1 cmt].
    pose proof (maybe_commit_LF [] _ _ _ Hy) as L1. apply maybe_commit_GQ in Hy.
    ib H r2 H2'. ib H r3 H3.
    assert (K2 : GQ r1 r2 /\ LF [] r1 r2).
    { destruct cmt.
      - destruct (should_bcast_commit r1);
          [split; [apply bcast_append_GQ|apply bcast_append_LF]; exact H2'|].
        okinv H2'. split; [apply GQ_refl|apply LF_refl].
      - dtop H2'; [split; [eapply send_append_to_GQ|eapply send_append_to_LF]; exact H2'|].
        okinv H2'. split; [apply GQ_refl|apply LF_refl]. }
    destruct K2 as [K2 L2].
    pose proof (send_append_aggressively_LF [] _ _ _ H3) as L3.
    apply send_append_aggressively_GQ in H3.
    assert (T3 : r_lead_transferee r3 = None).
    { destruct L1 as (_ & (T1 & _) & _). destruct L2 as (_ & (T2 & _) & _).
      destruct L3 as (_ & (T3 & _) & _). cbn in T1. congruence. }
    rewrite T3 in H. okinv H.
    eapply GQ_trans; [apply GQ_same; reflexivity|].
    eapply GQ_trans; [exact Hy|]. eapply GQ_trans; eassumption.
Qed.

Lemma handle_heartbeat_response_GQ r m r' : handle_heartbeat_response r m = Ok r' -> GQ r r'.
Proof.
  unfold handle_heartbeat_response. intros H.
  destruct (get_pr r (m_from m)) as [pr|]; [|okinv H; apply GQ_refl].
  ib H pr1 H1. ib H r1 Hr1.
  assert (K1 : GQ r r1).
  { clear H. dtop Hr1.
    - ib Hr1 y Hy. destruct y as [[ra pa] ba]. okinv Hr1. apply GQ_put.
      eapply maybe_send_append_GQ; exact Hy.
    - okinv Hr1. apply GQ_same; reflexivity. }
  dtop H; [okinv H; exact K1|].
  destruct (ro_recv_ack _ _ _) as [ro' acks].
  destruct acks; [|okinv H; eapply GQ_trans; [exact K1|apply GQ_same; reflexivity]].
  dtop H; [|okinv H; eapply GQ_trans; [exact K1|apply GQ_same; reflexivity]].
  ib H z Hz. destruct z as [ro2 rss]. apply respond_reads_GQ in H.
  eapply GQ_trans; [exact K1|]. eapply GQ_trans; [|exact H]. apply GQ_same; reflexivity.
Qed.

Lemma step_leader_GQ r m r' c :
  r_lead_transferee r = None ->
  m_type m <> MsgCheckQuorum -> m_type m <> MsgTransferLeader ->
  step_leader r m = Ok (r', c) -> GQ r r'.
Proof.
  intros HT Hcq Htl. unfold step_leader. intros H.
  destruct (m_type m =? MsgBeat).
  { ib H y Hy. okinv H. eapply bcast_heartbeat_with_ctx_GQ. exact Hy. }
  destruct (m_type m =? MsgCheckQuorum) eqn:E2; [apply N.eqb_eq in E2; contradiction|].
  destruct (m_type m =? MsgPropose).
  { destruct (m_entries m); [discriminate|].
    destruct (get_pr r (r_id r)); [|okinv H; apply GQ_refl].
    destruct (r_lead_transferee r); [okinv H; apply GQ_refl|].
    destruct (filter_conf_changes r _ _ 0) as [[r1 ents] ok] eqn:E.
    assert (G0 : GQ r r1).
    { apply GQ_same; [eapply filter_conf_changes_keeps; exact E|].
      clear H. revert E. generalize (m_ccinfo m), 0.
      generalize (e :: l). intros es. revert r r1 ents ok.
      induction es as [|e0 rest IH]; intros ra rb ents ok info i E; cbn [filter_conf_changes] in E.
      - okinv E. reflexivity.
      - dtop E.
        + destruct (filter_conf_changes ra rest _ (i + 1)) as [[rc ec] oc] eqn:E'. okinv E.
          eapply IH; exact E'.
        + dtop E; [okinv E; reflexivity|]. dtop E.
          * destruct (filter_conf_changes ra rest _ (i + 1)) as [[rc ec] oc] eqn:E'. okinv E.
            eapply IH; exact E'.
          * destruct (filter_conf_changes _ rest _ (i + 1)) as [[rc ec] oc] eqn:E'. okinv E.
            apply IH in E'. exact E'. }
    destruct ok; cbn [negb] in H; [|okinv H; exact G0].
    ib H y Hy. destruct y as [r2 appended]. apply append_entry_GQ in Hy.
    destruct appended; cbn [negb] in H; [|okinv H; eapply GQ_trans; eassumption].
    ib H z Hz. okinv H. apply bcast_append_GQ in Hz.
    eapply GQ_trans; [exact G0|]. eapply GQ_trans; eassumption. }
  destruct (m_type m =? MsgReadIndex).
  { ib H y Hy. destruct y; cbn [negb] in H; [|okinv H; apply GQ_refl].
    assert (Hnow : forall r' c,
      (x <- handle_ready_read_index r m (committed (r_log r)) ;;
       let '(r1, om) := x in
       r2 <- match om with Some mm => send r1 mm | None => Ok r1 end ;; Ok (r2, E_OK)) = Ok (r', c) ->
      GQ r r').
    { intros ra ca Ha. ib Ha z Hz. destruct z as [r1 om]. ib Ha w Hw. okinv Ha.
      unfold handle_ready_read_index in Hz. dtop Hz.
      - ib Hz d Hd. okinv Hz. okinv Hw. apply GQ_same; reflexivity.
      - okinv Hz. eapply send_GQ; [exact Hw|reflexivity|apply HptL; right; right; right; left; reflexivity]. }
    dtop H; [eapply Hnow; exact H|].
    dtop H; [|eapply Hnow; exact H].
    ib H ctx Hctx. ib H ro' Hro. ib H z Hz. okinv H.
    apply bcast_heartbeat_with_ctx_GQ in Hz. eapply GQ_trans; [|exact Hz]. apply GQ_same; reflexivity. }
  dtop H; [ib H y Hy; okinv H; eapply handle_append_response_GQ; eassumption|].
  dtop H; [ib H y Hy; okinv H; eapply handle_heartbeat_response_GQ; eassumption|].
  dtop H; [ib H y Hy; okinv H; apply GQ_same;
           [eapply handle_snapshot_status_keeps; exact Hy|];
           unfold handle_snapshot_status in Hy; destruct (get_pr r (m_from m)); [|okinv Hy; reflexivity];
           dtop Hy; okinv Hy; reflexivity|].
  dtop H; [ib H y Hy; okinv H; apply GQ_same;
           [eapply handle_unreachable_keeps; exact Hy|];
           unfold handle_unreachable in Hy; destruct (get_pr r (m_from m)); [|okinv Hy; reflexivity];
           okinv Hy; destruct (pstate_eqb _ _); reflexivity|].
  dtop H; [apply N.eqb_eq in Heqb3; contradiction|].
  okinv H. apply GQ_refl.
Qed.

End GQLeader.

(* follower handlers: only the two response types are sent *)
Section GQFollower.
Hypothesis HptFa : pt MsgAppendResponse.
Hypothesis HptFh : pt MsgHeartbeatResponse.

Lemma send_request_snapshot_GQ r r' : send_request_snapshot r = Ok r' -> GQ r r'.
Proof.
  unfold send_request_snapshot. intros H. ib H t Ht. destruct t; [|discriminate].
  eapply send_GQ; [exact H|reflexivity|exact HptFa].
Qed.

Lemma GQ_log r l' r' : GQ (r <| r_log := l' |>) r' -> GQ r r'.
Proof. intros G. eapply GQ_trans; [|exact G]. apply GQ_same; reflexivity. Qed.

Lemma handle_heartbeat_GQ r m r' : handle_heartbeat r m = Ok r' -> GQ r r'.
Proof.
  unfold handle_heartbeat. intros H. ib H l' Hl. apply (GQ_log r l').
  dtop H; [apply send_request_snapshot_GQ; exact H|].
  eapply send_GQ; [exact H|reflexivity|exact HptFh].
Qed.

Lemma handle_append_entries_GQ r m r' : handle_append_entries r m = Ok r' -> GQ r r'.
Proof.
  unfold handle_append_entries. intros H.
  dtop H; [apply send_request_snapshot_GQ; exact H|].
  dtop H; [eapply send_GQ; [exact H|reflexivity|exact HptFa]|].
  ib H y Hy. destruct y as [l' res]. apply (GQ_log r l').
  destruct res as [[a last_idx]|].
  - eapply send_GQ; [exact H|reflexivity|exact HptFa].
  - ib H z Hz. destruct z as [hi [ht|]]; [|discriminate].
    eapply send_GQ; [exact H|reflexivity|exact HptFa].
Qed.

Lemma handle_snapshot_GQ r m r' :
  r_state r = Follower -> handle_snapshot r m = Ok r' -> GQ r r'.
Proof.
  intros Hf. unfold handle_snapshot. intros H. ib H y Hy. destruct y as [r1 ok].
  apply restore_follower in Hy; [|exact Hf]. destruct Hy as [(K & _) M].
  eapply GQ_trans; [apply GQ_same; [exact K|exact M]|].
  destruct ok; (eapply send_GQ; [exact H|reflexivity|exact HptFa]).
Qed.

End GQFollower.

End GQ.

(* ------------------------------------------------------------------ *)
(* Part B: the pool class and what window members emit *)

Definition vresp (x : msg) : Prop :=
  m_type x = MsgRequestVoteResponse \/ m_type x = MsgRequestPreVoteResponse.
Definition vreq (x : msg) : Prop :=
  m_type x = MsgRequestVote \/ m_type x = MsgRequestPreVote.

Section Closed.

Variables (ids : list N) (l t : N).
Hypothesis Ht0 : t <> 0.
Hypothesis Hl0 : l <> INVALID_ID.

(* the class of every message that is ever in flight in the closed window:
   - its term is at most t, unless it is a pre-vote request or a granted pre-vote response;
   - it is a network message, and no transfer message;
   - a granted (pre-)vote response never comes from a window member;
   - a (pre-)vote request comes from an outsider and is not a forced (transfer) one;
   - if it comes from an outsider and is addressed to a window member it is [adv_ok] *)
Definition PC (x : msg) : Prop :=
  (m_term x <= t \/ exempt x = true) /\
  netmsg (m_type x) /\
  (vresp x -> m_reject x = false -> ~ In (m_from x) (l :: ids)) /\
  (vreq x -> ~ In (m_from x) (l :: ids) /\ list_eqb (m_context x) CAMPAIGN_TRANSFER = false) /\
  (~ In (m_from x) (l :: ids) -> In (m_to x) (l :: ids) -> adv_ok ids l t x).

Lemma ptype_netmsg ty : ptype ty -> netmsg ty.
Proof. intros [E|[E|[E|[E|[E|E]]]]]; rewrite E; repeat split; discriminate. Qed.

Lemma ptype_not_v x : ptype (m_type x) -> ~ vresp x /\ ~ vreq x.
Proof.
  intros H. split; intros [E|E]; rewrite E in H;
    destruct H as [H|[H|[H|[H|[H|H]]]]]; discriminate.
Qed.

(* a plain message stamped by a window member *)
Lemma PC_plain self x :
  In self (l :: ids) -> ptype (m_type x) -> m_from x = self -> m_term x <= t -> PC x.
Proof.
  intros Hs Hty Hf Ht. destruct (ptype_not_v x Hty) as [N1 N2].
  split; [left; exact Ht|]. split; [apply ptype_netmsg; exact Hty|].
  split; [intros V; contradiction|]. split; [intros V; contradiction|].
  intros C. exfalso. apply C. rewrite Hf. exact Hs.
Qed.

Lemma PC_batch1 m e c : PC m -> PC (m <| m_entries := e |> <| m_commit := c |>).
Proof. intros H. exact H. Qed.
Lemma PC_batch2 m c : PC m -> PC (m <| m_commit := c |>).
Proof. intros H. exact H. Qed.

(* a rejection stamped by a window member *)
Lemma PC_reject self x :
  In self (l :: ids) -> vresp x -> m_reject x = true -> m_from x = self -> m_term x <= t -> PC x.
Proof.
  intros Hs Hv Hr Hf Ht.
  split; [left; exact Ht|].
  split; [destruct Hv as [E|E]; rewrite E; repeat split; discriminate|].
  split; [intros _ C; congruence|].
  split; [intros [E|E]; destruct Hv as [E'|E']; rewrite E' in E; discriminate|].
  intros C. exfalso. apply C. rewrite Hf. exact Hs.
Qed.

Definition memberGQ (self : N) := GQ PC self t.

(* a window member inside its lease that has voted for a window member never grants
   a (pre-)vote to a pool request *)
Lemma member_no_grant r m :
  r_term r = t -> r_check_quorum r = true -> r_leader_id r = l ->
  r_election_elapsed r < r_election_timeout r ->
  In (r_vote r) (l :: ids) ->
  vreq m -> ~ In (m_from m) (l :: ids) -> list_eqb (m_context m) CAMPAIGN_TRANSFER = false ->
  (m_term m <= t \/ lease_drop r m = false) ->
  grants r m = Ok true -> False.
Proof.
  intros Ht Hcq Hld He Hv Hq Hf Hctx Hterm G.
  unfold grants in G. ib G utd Hu. injection G as G.
  apply andb_prop in G. destruct G as [G _]. apply andb_prop in G. destruct G as [Hcv _].
  apply orb_prop in Hcv. destruct Hcv as [Hcv|Hcv].
  - apply orb_prop in Hcv. destruct Hcv as [Hcv|Hcv].
    + apply N.eqb_eq in Hcv. apply Hf. rewrite <- Hcv. exact Hv.
    + apply andb_prop in Hcv. destruct Hcv as [_ Hcv]. apply N.eqb_eq in Hcv. congruence.
  - apply andb_prop in Hcv. destruct Hcv as [Hty Hgt]. apply N.ltb_lt in Hgt.
    destruct Hterm as [Hle|Hnd]; [lia|].
    unfold lease_drop in Hnd. rewrite Hctx, Hcq, Hld in Hnd.
    assert (E1 : (l =? INVALID_ID) = false) by (apply N.eqb_neq; exact Hl0).
    assert (E2 : (r_election_elapsed r <? r_election_timeout r) = true) by (apply N.ltb_lt; exact He).
    rewrite E1, E2 in Hnd. apply N.eqb_eq in Hty. rewrite Hty in Hnd. discriminate.
Qed.

(* the prologue and the vote branch of a member's step, for the queue predicate *)
Lemma member_step_PC r m r' c (self : N) :
  In self (l :: ids) -> r_id r = self -> r_term r = t -> r_check_quorum r = true ->
  r_leader_id r = l -> r_election_elapsed r < r_election_timeout r ->
  In (r_vote r) (l :: ids) ->
  (m_term m <= t \/ m_type m = MsgRequestPreVote) ->
  (vreq m -> ~ In (m_from m) (l :: ids) /\ list_eqb (m_context m) CAMPAIGN_TRANSFER = false) ->
  m_type m <> MsgHup ->
  (forall rr, r_state r = Leader -> step_leader r m = Ok rr -> memberGQ self r (fst rr)) ->
  (forall rr, r_state r = Follower -> step_follower r m = Ok rr ->
              Forall PC (r_msgs r) -> Forall PC (r_msgs (fst rr))) ->
  r_state r = Leader \/ r_state r = Follower ->
  step r m = Ok (r', c) -> Forall PC (r_msgs r) -> Forall PC (r_msgs r').
Proof.
  intros Hs Hid Ht Hcq Hld He Hv Hterm Hvq Hhup HL HF Hrole H F.
  assert (Hplain : forall r0 m0 r1, r_id r0 = self -> r_term r0 = t -> send r0 m0 = Ok r1 ->
            m_from m0 = INVALID_ID -> ptype (m_type m0) -> Forall PC (r_msgs r0) -> Forall PC (r_msgs r1)).
  { intros r0 m0 r1 I0 T0 S0 F0 P0 Q0.
    assert (G : GQ PC self t r0 r1).
    { eapply (send_GQ PC self t ptype);
        try solve [exact PC_batch1 | exact PC_batch2 | intros x; apply (PC_plain self x Hs)
                  | intros ty Hty; exact Hty]; eassumption. }
    destruct G as [_ G]. apply G; [exact I0|lia|exact Q0]. }
  assert (Hrej : forall r0 x, r_id r0 = self -> vresp x -> m_reject x = true -> m_from x = self ->
            m_term x <= t -> Forall PC (r_msgs r0) -> Forall PC (r_msgs (push r0 x))).
  { intros r0 x I0 V R Fx Tx Q0. unfold push. cbn. apply Forall_app. split; [exact Q0|].
    constructor; [|constructor]. exact (PC_reject self x Hs V R Fx Tx). }
  rewrite step_eq in H. ib H pre Hpre. apply step_pre_cases in Hpre.
  destruct pre as [[r1 c1]|r1].
  - injection H as <- <-. destruct Hpre as (_ & Hz & [(_ & _ & ->)|(Hlt & Hr)]); [exact F|].
    unfold low_term_reply in Hr. dtop Hr.
    + eapply Hplain; [exact Hid|exact Ht|exact Hr|reflexivity|right; right; right; right; left; reflexivity|exact F].
    + dtop Hr; [|injection Hr as <-; exact F].
      apply send_vote_resp in Hr; [|reflexivity|right; reflexivity]. destruct Hr as [_ ->].
      apply (Hrej r); [exact Hid|right; reflexivity|reflexivity|cbn; exact Hid|cbn; lia|exact F].
  - destruct Hpre as [[-> Hc]|(L & D & E & _)].
    2:{ exfalso. destruct Hterm as [Q|Q]; [lia|]. unfold exempt in E. rewrite Q in E. discriminate. }
    unfold step_body in H.
    destruct (m_type m =? MsgHup) eqn:Ehup; [apply N.eqb_eq in Ehup; contradiction|].
    destruct ((m_type m =? MsgRequestVote) || (m_type m =? MsgRequestPreVote)) eqn:Ev.
    { assert (Hq : vreq m) by (apply orb_prop in Ev; destruct Ev as [X|X]; apply N.eqb_eq in X; [left|right]; exact X).
      assert (Hb : step_body r m = Ok (r', c)) by (unfold step_body; rewrite Ehup, Ev; exact H).
      destruct (Hvq Hq) as [Hfrom Hctx].
      apply step_body_vote in Hb; [|exact Hq].
      destruct Hb as [_ [(G & _ & _)|(_ & _ & ci & _ & Hm)]].
      - exfalso. eapply member_no_grant; try eassumption.
        destruct Hc as [Z|[Z|(_ & D & _)]]; [left; lia|left; lia|right; exact D].
      - assert (Hq' : Forall PC (r_msgs (push r (vote_resp r m (resp_type m) true (r_term r) ci)))).
        { apply Hrej; [exact Hid| |reflexivity|cbn; exact Hid|cbn; lia|exact F].
          unfold vresp, resp_type. cbn. destruct (m_type m =? MsgRequestVote); [left|right]; reflexivity. }
        apply maybe_commit_by_vote_msgs in Hm. rewrite Hm. exact Hq'. }
    destruct Hrole as [Hr|Hr]; rewrite Hr in H.
    + destruct (HL (r', c) Hr H) as [_ G]. apply G; [exact Hid|lia|exact F].
    + exact (HF (r', c) Hr H F).
Qed.

Ltac gqargs self Hs :=
  try solve [exact PC_batch1 | exact PC_batch2 | intros x; apply (PC_plain self x Hs)
            | intros ty Hty; exact Hty | exact ltype_ptype
            | right; right; right; right; left; reflexivity
            | right; right; right; right; right; reflexivity].

(* a forwarded proposal / read request *)
Lemma PC_forward r m r' :
  m_type m = MsgPropose \/ m_type m = MsgReadIndex ->
  send r (m <| m_to := r_leader_id r |>) = Ok r' ->
  Forall PC (r_msgs r) -> Forall PC (r_msgs r').
Proof.
  intros Hty H F. apply send_full in H. destruct H as (m' & -> & A1 & A2 & A3 & A4 & A5 & A6).
  cbn. apply Forall_app. split; [exact F|]. constructor; [|constructor].
  cbn in A1, A3, A6.
  assert (Hv : is_vote_type (m_type m) = false /\
               (negb (m_type m =? MsgPropose) && negb (m_type m =? MsgReadIndex)) = false)
    by (destruct Hty as [E|E]; rewrite E; split; reflexivity).
  destruct Hv as [V1 V2]. rewrite V1, V2 in A6. destruct A6 as [_ A6].
  assert (Hn : netmsg (m_type m') /\ ~ vresp m' /\ ~ vreq m' /\ from_leader m' = false /\
               m_type m' <> MsgReadIndexResp).
  { unfold vresp, vreq, from_leader. rewrite A1.
    destruct Hty as [E|E]; rewrite E; repeat split; try discriminate;
      intros [X|X]; discriminate. }
  destruct Hn as (N1 & N2 & N3 & N4 & N5).
  split; [left; lia|]. split; [exact N1|]. split; [intros V; contradiction|].
  split; [intros V; contradiction|].
  intros Hf _. split; [exact Hf|]. split; [exact N1|]. right. right. split; [lia|]. split; assumption.
Qed.

(* the leader's step *)
Lemma leader_step_PC hb et c (pend : N -> Prop) L m L' cc :
  LInv ids l t hb et c pend L -> In (r_vote L) (l :: ids) ->
  okL ids t m -> PC m ->
  step L m = Ok (L', cc) -> Forall PC (r_msgs L) -> Forall PC (r_msgs L').
Proof.
  intros (I1 & I2 & I3 & I4 & I5 & I6 & I7 & I8 & I9 & I10 & _) Hv (Hcq & Htl & Hterm & _)
         (P1 & (N1 & _) & P3 & P4 & P5) H F.
  assert (Hs : In l (l :: ids)) by (left; reflexivity).
  eapply (member_step_PC L m L' cc l); try eassumption; try lia.
  - intros [r1 c1] _ Hl. cbn [fst].
    eapply (step_leader_GQ PC l t ptype); gqargs l Hs; eassumption.
  - intros rr Hf. congruence.
  - left. exact I1.
Qed.

(* the follower's step *)
Lemma follower_step_PC hb he (hq : Prop) F m F' cc :
  FInv l t hb he hq F -> In (r_id F) ids -> In (r_vote F) (l :: ids) ->
  okF l t m -> PC m ->
  step F m = Ok (F', cc) -> Forall PC (r_msgs F) -> Forall PC (r_msgs F').
Proof.
  intros (I1 & I2 & I3 & I4 & I5 & I6 & I7 & I8 & I9) Hid Hv
         (Hhup & Htn & Htl & Hterm & Hfl & _) (P1 & (N1 & _) & P3 & P4 & P5) H Fq.
  assert (Hs : In (r_id F) (l :: ids)) by (right; exact Hid).
  eapply (member_step_PC F m F' cc (r_id F)); try eassumption; try reflexivity; try lia.
  - intros rr C. congruence.
  - intros [r1 c1] _ Hf Fq'. cbn [fst]. unfold step_follower in Hf.
    assert (Hg : forall ra rb, r_id ra = r_id F -> r_term ra = t ->
                 GQ PC (r_id F) t ra rb -> Forall PC (r_msgs ra) -> Forall PC (r_msgs rb)).
    { intros ra rb Ia Ta [_ G] Q. apply G; [exact Ia|lia|exact Q]. }
    destruct (m_type m =? MsgPropose) eqn:E1.
    { apply N.eqb_eq in E1. dtop Hf; [injection Hf as <- <-; exact Fq'|].
      dtop Hf; [injection Hf as <- <-; exact Fq'|].
      ib Hf y Hy. injection Hf as <- <-.
      eapply PC_forward; [left; exact E1|exact Hy|exact Fq']. }
    destruct (m_type m =? MsgAppend) eqn:E2.
    { ib Hf y Hy. injection Hf as <- <-.
      eapply Hg; [| |eapply (handle_append_entries_GQ PC (r_id F) t ptype); gqargs (r_id F) Hs; exact Hy|exact Fq'];
        [reflexivity|exact I2]. }
    destruct (m_type m =? MsgHeartbeat) eqn:E3.
    { ib Hf y Hy. injection Hf as <- <-.
      eapply Hg; [| |eapply (handle_heartbeat_GQ PC (r_id F) t ptype); gqargs (r_id F) Hs; exact Hy|exact Fq'];
        [reflexivity|exact I2]. }
    destruct (m_type m =? MsgSnapshot) eqn:E4.
    { ib Hf y Hy. injection Hf as <- <-.
      eapply Hg; [| |eapply (handle_snapshot_GQ PC (r_id F) t ptype); gqargs (r_id F) Hs; [|exact Hy]|exact Fq'];
        [reflexivity|exact I2|exact I1]. }
    destruct (m_type m =? MsgTransferLeader) eqn:E5; [apply N.eqb_eq in E5; contradiction|].
    destruct (m_type m =? MsgTimeoutNow) eqn:E6; [apply N.eqb_eq in E6; contradiction|].
    destruct (m_type m =? MsgReadIndex) eqn:E7.
    { apply N.eqb_eq in E7. dtop Hf; [injection Hf as <- <-; exact Fq'|].
      ib Hf y Hy. injection Hf as <- <-.
      eapply PC_forward; [right; exact E7|exact Hy|exact Fq']. }
    destruct (m_type m =? MsgReadIndexResp).
    { destruct (m_entries m) as [|e [|e2 rest]]; try (injection Hf as <- <-; exact Fq').
      ib Hf y Hy. injection Hf as <- <-. exact Fq'. }
    injection Hf as <- <-. exact Fq'.
  - right. exact I1.
Qed.

(* ------------------------------------------------------------------ *)
(* Part C: a node outside the majority *)

Definition rtype (ty : N) : Prop := ty = MsgAppendResponse \/ ty = MsgHeartbeatResponse.

Lemma rtype_ptype ty : rtype ty -> ptype ty.
Proof. unfold rtype, ptype. tauto. Qed.

(* no grant recorded from a window member *)
Definition votes_ok (r : raft) : Prop :=
  forall id, Quorum.assoc (t_votes (r_prs r)) id = Some true -> ~ In id (l :: ids).

(* the window members are a quorum of the node's (non-empty) configuration *)
Definition confq (r : raft) : Prop :=
  incoming (conf_of r) <> [] /\
  Quorum.has_quorum (incoming (conf_of r)) (outgoing (conf_of r)) (l :: ids) = true.

(* a tally whose grants all come from outside the window members is never Won *)
Lemma no_win r v :
  confq r -> (forall id, Quorum.assoc v id = Some true -> ~ In id (l :: ids)) ->
  tally r v <> VoteWon.
Proof.
  intros [Hne Hq] Hv Hw. unfold tally, Quorum.tracker_vote_result in Hw.
  unfold Quorum.has_quorum in Hq.
  destruct (joint_vote_result (incoming (conf_of r)) (outgoing (conf_of r))
              (fun id => if Quorum.mem id (l :: ids) then Some true else None)) eqn:E;
    try discriminate.
  destruct (QuorumProofs.joint_vote_won_intersect _ _ _ _ Hw E) as [Hi _].
  destruct (Hi Hne) as (v0 & _ & A & B).
  apply (Hv v0 A). apply QuorumProofs.mem_In. destruct (Quorum.mem v0 (l :: ids)); [reflexivity|discriminate].
Qed.

Section Outsider.

Variable o : N.
Hypothesis Ho : ~ In o (l :: ids).

(* the outsider's invariant: pre-vote on, term at most t, never leader, the window
   members are a quorum of its configuration, no grant recorded from a member, and
   everything in its queue is of the pool class *)
Definition OInv (r : raft) : Prop :=
  r_pre_vote r = true /\ r_id r = o /\ r_term r <= t /\ r_state r <> Leader /\
  confq r /\ votes_ok r /\ Forall PC (r_msgs r).

Lemma PC_plain_o x : rtype (m_type x) -> m_from x = o -> m_term x <= t -> PC x.
Proof.
  intros Hty Hf Ht. destruct (ptype_not_v x (rtype_ptype _ Hty)) as [N1 N2].
  assert (Hn : netmsg (m_type x)) by (apply ptype_netmsg, rtype_ptype, Hty).
  split; [left; exact Ht|]. split; [exact Hn|].
  split; [intros V; contradiction|]. split; [intros V; contradiction|].
  intros _ _. split; [rewrite Hf; exact Ho|]. split; [exact Hn|]. right. right.
  split; [exact Ht|]. unfold from_leader. destruct Hty as [E|E]; rewrite E; split; [reflexivity|discriminate|reflexivity|discriminate].
Qed.

Ltac oargs :=
  try solve [exact PC_batch1 | exact PC_batch2 | intros x; apply PC_plain_o
            | exact rtype_ptype | left; reflexivity | right; reflexivity].

(* OInv only reads these fields *)
Lemma OInv_transport r r' :
  OInv r -> r_pre_vote r' = r_pre_vote r -> r_id r' = r_id r -> r_term r' = r_term r ->
  r_state r' = r_state r -> conf_of r' = conf_of r -> t_votes (r_prs r') = t_votes (r_prs r) ->
  Forall PC (r_msgs r') -> OInv r'.
Proof.
  intros (I1 & I2 & I3 & I4 & I5 & I6 & I7) E1 E2 E3 E4 E5 E6 F.
  unfold OInv, confq, votes_ok. rewrite E1, E2, E3, E4, E5, E6. repeat split; try assumption; apply I5.
Qed.

Lemma OInv_GQ r r' :
  OInv r -> GQ PC o t r r' -> conf_of r' = conf_of r ->
  t_votes (r_prs r') = t_votes (r_prs r) -> OInv r'.
Proof.
  intros HI [K G] Ec Ev. pose proof HI as (I1 & I2 & I3 & I4 & I5 & I6 & I7).
  apply keeps_fields in K. destruct K as (K1 & K2 & K3 & K4 & K5).
  apply cfg_fields in K5. destruct K5 as (C1 & C2 & _).
  apply (OInv_transport r r' HI); try assumption. apply G; assumption.
Qed.

Lemma OInv_msgs_log r r' :
  OInv r -> only_msgs_log r r' -> Forall PC (r_msgs r') -> OInv r'.
Proof.
  intros HI E F. unfold only_msgs_log in E.
  apply (OInv_transport r r' HI); try (rewrite E; reflexivity). exact F.
Qed.

Lemma OInv_push r x : OInv r -> PC x -> OInv (push r x).
Proof.
  intros HI Px. apply (OInv_transport r _ HI); try reflexivity.
  unfold push. cbn. apply Forall_app. split; [apply HI|]. constructor; [exact Px|constructor].
Qed.

Lemma OInv_become_follower r tm ld r' :
  OInv r -> tm <= t -> become_follower r tm ld = Ok r' -> OInv r' /\ r_state r' = Follower /\ r_term r' = tm.
Proof.
  intros (I1 & I2 & I3 & I4 & I5 & I6 & I7) Htm H. apply become_follower_facts in H.
  destruct H as (A1 & A2 & A3 & A4 & A5 & A6 & A7 & A8 & A9 & _).
  apply cfg_fields in A2. destruct A2 as (C1 & C2 & _).
  split; [|split; assumption].
  unfold OInv, confq, votes_ok, conf_of. rewrite C2, C1, A1, A3, A6, A8, A9.
  repeat split; try assumption; try apply I5; try discriminate.
Qed.

(* sends of the two response types *)
Lemma OInv_send_plain r m0 r' :
  OInv r -> send r m0 = Ok r' -> m_from m0 = INVALID_ID -> rtype (m_type m0) -> OInv r'.
Proof.
  intros HI H Hf Hty.
  assert (G : GQ PC o t r r') by (eapply (send_GQ PC o t rtype); oargs; eassumption).
  apply send_msgs_only in H. unfold msgs_only in H.
  eapply OInv_GQ; [exact HI|exact G|rewrite H; reflexivity|rewrite H; reflexivity].
Qed.

Lemma OInv_forward r m r' :
  OInv r -> m_type m = MsgPropose \/ m_type m = MsgReadIndex ->
  send r (m <| m_to := r_leader_id r |>) = Ok r' -> OInv r'.
Proof.
  intros HI Hty H. pose proof (send_msgs_only _ _ _ H) as M. unfold msgs_only in M.
  apply (OInv_transport r r' HI); try (rewrite M; reflexivity).
  eapply PC_forward; [exact Hty|exact H|apply HI].
Qed.

(* a snapshot whose configuration keeps the window members a quorum *)
Definition snapq (s : snapshot) : Prop :=
  forall c' i, ConfChange.restore empty_tracker (s_cs s) = ROk (c', i) ->
    incoming c' <> [] /\ Quorum.has_quorum (incoming c') (outgoing c') (l :: ids) = true.

Lemma restore_follower_prs r s r' b :
  r_state r = Follower -> restore r s = Ok (r', b) ->
  (conf_of r' = conf_of r /\ t_votes (r_prs r') = t_votes (r_prs r)) \/
  (t_votes (r_prs r') = [] /\
   exists c' i, ConfChange.restore empty_tracker (s_cs s) = ROk (c', i) /\ conf_of r' = c').
Proof.
  intros Hf. unfold restore. intros H.
  dtop H; [injection H as <- <-; left; split; reflexivity|].
  rewrite Hf in H. cbn [role_eqb negb] in H.
  dtop H; [injection H as <- <-; left; split; reflexivity|].
  ib H mt Hmt.
  dtop H; [ib H l' Hl; injection H as <- <-; left; split; reflexivity|].
  ib H l' Hl.
  destruct (ConfChange.restore empty_tracker (s_cs s)) as [[c' ids']|e] eqn:Er; [|discriminate].
  ib H y Hy. destruct y as [r1 new_cs].
  unfold post_conf_change in Hy.
  match type of Hy with context [is_leader ?x] =>
    assert (Hnl : is_leader x = false) by (unfold is_leader; cbn; rewrite Hf; reflexivity) end.
  rewrite Hnl in Hy. rewrite andb_false_r in Hy. cbn [negb orb] in Hy. injection Hy as <- <-.
  dtop H; [discriminate|]. dtop H; [|discriminate]. dtop H; [discriminate|]. injection H as <- <-.
  right. split; [reflexivity|]. exists c', ids'. split; reflexivity.
Qed.

Lemma O_handle_heartbeat r m r' : OInv r -> handle_heartbeat r m = Ok r' -> OInv r'.
Proof.
  intros HI H. pose proof (handle_heartbeat_only _ _ _ H) as E.
  assert (G : GQ PC o t r r') by (eapply (handle_heartbeat_GQ PC o t rtype); oargs; exact H).
  eapply OInv_msgs_log; [exact HI|exact E|]. destruct G as [_ G]. apply G; apply HI.
Qed.

Lemma O_handle_append_entries r m r' : OInv r -> handle_append_entries r m = Ok r' -> OInv r'.
Proof.
  intros HI H. pose proof (handle_append_entries_only _ _ _ H) as E.
  assert (G : GQ PC o t r r') by (eapply (handle_append_entries_GQ PC o t rtype); oargs; exact H).
  eapply OInv_msgs_log; [exact HI|exact E|]. destruct G as [_ G]. apply G; apply HI.
Qed.

Lemma O_handle_snapshot r m r' :
  OInv r -> r_state r = Follower -> snapq (m_snapshot m) ->
  handle_snapshot r m = Ok r' -> OInv r'.
Proof.
  intros HI Hf Hsq H.
  assert (G : GQ PC o t r r') by (eapply (handle_snapshot_GQ PC o t rtype); oargs; [exact Hf|exact H]).
  unfold handle_snapshot in H. ib H y Hy. destruct y as [r1 ok].
  pose proof (restore_follower_prs _ _ _ _ Hf Hy) as Hp.
  assert (Hs1 : conf_of r' = conf_of r1 /\ t_votes (r_prs r') = t_votes (r_prs r1)).
  { destruct ok; apply send_msgs_only in H; unfold msgs_only in H; rewrite H; split; reflexivity. }
  destruct Hs1 as [S1 S2].
  pose proof HI as (I1 & I2 & I3 & I4 & I5 & I6 & I7).
  destruct G as [K G]. apply keeps_fields in K. destruct K as (K1 & K2 & K3 & K4 & K5).
  apply cfg_fields in K5. destruct K5 as (C1 & C2 & _).
  assert (F' : Forall PC (r_msgs r')) by (apply G; assumption).
  destruct Hp as [[E1 E2]|(E2 & c' & i & Er & Ec)].
  - apply (OInv_transport r r' HI); try assumption; congruence.
  - unfold OInv, confq, votes_ok. rewrite C2, C1, K1, K3, S1, S2, Ec, E2.
    repeat split; try assumption; try apply (Hsq c' i Er). discriminate.
Qed.

(* the response to a pool (pre-)vote request *)
Lemma PC_vote_resp r m rej tm ci :
  OInv r -> PC m -> vreq m ->
  (rej = true -> tm <= t) -> (rej = false -> tm = m_term m) ->
  PC (vote_resp r m (resp_type m) rej tm ci).
Proof.
  intros (I1 & I2 & _) (P1 & _ & _ & P4 & _) Hq Hr1 Hr2. destruct (P4 Hq) as [Hfrom _].
  assert (Hv : vresp (vote_resp r m (resp_type m) rej tm ci)).
  { unfold vresp, resp_type. cbn. destruct (m_type m =? MsgRequestVote); [left|right]; reflexivity. }
  split.
  { destruct rej; [left; cbn; apply Hr1; reflexivity|]. cbn. rewrite (Hr2 eq_refl).
    destruct P1 as [P1|P1]; [left; exact P1|]. right.
    unfold exempt in *. cbn. unfold resp_type.
    destruct Hq as [E|E]; rewrite E in P1 |- *; [discriminate|reflexivity]. }
  split; [destruct Hv as [E|E]; rewrite E; repeat split; discriminate|].
  split; [intros _ _; cbn; rewrite I2; exact Ho|].
  split; [intros [E|E]; destruct Hv as [E'|E']; rewrite E' in E; discriminate|].
  intros _ C. cbn in C. contradiction.
Qed.

Lemma O_maybe_commit_by_vote r m r' : OInv r -> maybe_commit_by_vote r m = Ok r' -> OInv r'.
Proof.
  intros HI H. apply maybe_commit_by_vote_cases in H. destruct H as [E|(_ & l' & Hf)].
  - apply (OInv_transport r r' HI); try (rewrite E; reflexivity). rewrite E. apply HI.
  - assert (HI' : OInv (r <| r_log := l' |>)) by (apply (OInv_transport r _ HI); try reflexivity; apply HI).
    eapply OInv_become_follower; [exact HI'|apply HI|exact Hf].
Qed.

Lemma O_vote_branch r m r' c :
  OInv r -> PC m -> vreq m -> step_body r m = Ok (r', c) -> OInv r'.
Proof.
  intros HI Pm Hq H. apply step_body_vote in H; [|exact Hq].
  destruct H as [_ [(G & Z & ->)|(G & Z & ci & Hci & Hm)]].
  - assert (Px : PC (vote_resp r m (resp_type m) false (m_term m) (0, 0)))
      by (apply PC_vote_resp; try assumption; [discriminate|reflexivity]).
    pose proof (OInv_push _ _ HI Px) as HP.
    destruct (m_type m =? MsgRequestVote); [|exact HP].
    apply (OInv_transport _ _ HP); try reflexivity. apply HP.
  - eapply O_maybe_commit_by_vote; [|exact Hm]. apply OInv_push; [exact HI|].
    apply PC_vote_resp; try assumption; [intros _; apply HI|discriminate].
Qed.

Lemma O_low_term_reply r m r' :
  OInv r -> PC m -> low_term_reply r m = Ok r' -> OInv r'.
Proof.
  intros HI Pm H. unfold low_term_reply in H. dtop H.
  - eapply OInv_send_plain; [exact HI|exact H|reflexivity|left; reflexivity].
  - dtop H; [|injection H as <-; exact HI]. apply N.eqb_eq in Heqb0.
    apply send_vote_resp in H; [|reflexivity|right; reflexivity]. destruct H as [_ ->].
    assert (Hq : vreq m) by (right; exact Heqb0).
    pose proof (PC_vote_resp r m true (r_term r) (0, 0) HI Pm Hq) as Px.
    unfold resp_type in Px. rewrite Heqb0 in Px.
    change (MsgRequestPreVote =? MsgRequestVote) with false in Px. cbv iota in Px.
    apply (OInv_push r); [exact HI|]. apply Px; [intros _; apply HI|discriminate].
Qed.

Lemma votes_ok_record r from v :
  votes_ok r -> (v = true -> ~ In from (l :: ids)) ->
  forall id, Quorum.assoc (Quorum.record_vote (t_votes (r_prs r)) from v) id = Some true ->
             ~ In id (l :: ids).
Proof.
  intros Hv Hf id H. rewrite QuorumProofs.record_vote_assoc in H.
  destruct (Quorum.assoc (t_votes (r_prs r)) id) as [b|] eqn:E.
  - apply Hv. congruence.
  - destruct (from =? id) eqn:E2; [|discriminate]. apply N.eqb_eq in E2. subst id.
    apply Hf. congruence.
Qed.

(* counting a response: never a win *)
Lemma O_poll r from v rp res :
  OInv r -> (v = true -> ~ In from (l :: ids)) -> poll r from v = Ok (rp, res) -> OInv rp.
Proof.
  intros HI Hf H. pose proof HI as (I1 & I2 & I3 & I4 & I5 & I6 & I7).
  unfold poll in H. apply poll_gen_cases in H. cbn zeta in H. destruct H as [Hres H].
  pose proof (votes_ok_record r from v I6 Hf) as Hv'.
  assert (HIw : OInv (with_votes r (Quorum.record_vote (t_votes (r_prs r)) from v))).
  { unfold OInv, confq, votes_ok, with_votes. cbn. repeat split; try assumption; apply I5. }
  destruct res.
  - rewrite H. exact HIw.
  - eapply OInv_become_follower; [exact HIw|exact I3|exact H].
  - exfalso. symmetry in Hres. revert Hres. apply no_win; assumption.
Qed.

Lemma O_step_candidate r m r' c :
  OInv r -> PC m -> (m_type m = MsgSnapshot -> snapq (m_snapshot m)) ->
  (r_state r = Candidate \/ r_state r = PreCandidate) ->
  step_candidate r m = Ok (r', c) -> OInv r'.
Proof.
  intros HI Pm Hsq Hrole H. pose proof HI as (I1 & I2 & I3 & I4 & I5 & I6 & I7).
  unfold step_candidate in H.
  dtop H; [injection H as <- <-; exact HI|].
  dtop H.
  { dtop H; [discriminate|]. apply negb_false_iff, N.eqb_eq in Heqb1.
    ib H r1 H1. ib H r2 H2. injection H as <- <-.
    apply (OInv_become_follower r) in H1; [|exact HI|lia]. destruct H1 as (J1 & S1 & _).
    dtop H2; [eapply O_handle_append_entries; eassumption|].
    dtop H2; [eapply O_handle_heartbeat; eassumption|].
    eapply O_handle_snapshot; try eassumption. apply Hsq.
    cbn [orb] in Heqb0. apply N.eqb_eq. exact Heqb0. }
  dtop H; [|injection H as <- <-; exact HI].
  dtop H; [injection H as <- <-; exact HI|].
  ib H y Hy. destruct y as [rp res]. cbn [fst] in H. ib H z Hz. injection H as <- <-.
  eapply O_maybe_commit_by_vote; [|exact Hz]. eapply O_poll; [exact HI| |exact Hy].
  intros Hg. destruct Pm as (_ & _ & P3 & _). apply P3.
  - apply orb_prop in Heqb1. unfold vresp.
    destruct Heqb1 as [E|E]; apply N.eqb_eq in E; [right|left]; exact E.
  - destruct (m_reject m); [discriminate|reflexivity].
Qed.

(* the pre-vote requests of a campaign *)
Lemma PC_prevote_req r ci lt id :
  OInv r ->
  PC (vote_req (r_id r) (r_log r) (r_priority r) MsgRequestPreVote (r_term r + 1)
               (fst ci) (snd ci) false lt id).
Proof.
  intros (I1 & I2 & _).
  pose proof (vote_req_fields (r_id r) (r_log r) (r_priority r) MsgRequestPreVote (r_term r + 1)
                (fst ci) (snd ci) false lt id) as F. cbn zeta in F.
  set (x := vote_req _ _ _ _ _ _ _ _ _ _) in *.
  destruct F as (F1 & F2 & F3 & F4 & F5 & F6 & F7 & F8 & F9 & F10 & F11 & F12).
  assert (Hn : netmsg (m_type x)) by (rewrite F1; repeat split; discriminate).
  assert (Hf : ~ In (m_from x) (l :: ids)) by (rewrite F3, I2; exact Ho).
  split; [right; unfold exempt; rewrite F1; reflexivity|]. split; [exact Hn|].
  split; [intros [E|E]; rewrite F1 in E; discriminate|].
  split; [intros _; split; [exact Hf|rewrite F11; reflexivity]|].
  intros _ _. split; [exact Hf|]. split; [exact Hn|]. left. exact F1.
Qed.

Lemma O_hup r r' : OInv r -> hup r false = Ok r' -> OInv r'.
Proof.
  intros HI H. pose proof HI as (I1 & I2 & I3 & I4 & I5 & I6 & I7).
  apply hup_cases in H. destruct H as [->|(_ & _ & H)]; [exact HI|].
  rewrite I1 in H. apply campaign_pre_spec in H. destruct H as [_ [[Hw _]|[_ H]]].
  - exfalso. revert Hw. apply no_win; [exact I5|].
    intros id Hid. cbn in Hid. destruct (r_id r =? id) eqn:E; [|discriminate].
    apply N.eqb_eq in E. rewrite <- E, I2. exact Ho.
  - destruct H as (ci & new & _ & -> & _ & Hall).
    unfold OInv, confq, votes_ok, pre_candidate_of, conf_of. cbn.
    repeat split; try assumption; try apply I5; try discriminate.
    + intros id Hid. destruct (r_id r =? id) eqn:E; [|discriminate].
      apply N.eqb_eq in E. rewrite <- E, I2. exact Ho.
    + apply Forall_app. split; [exact I7|]. apply Forall_forall. intros x Hx.
      destruct (Hall x Hx) as (lt & _ & ->). apply PC_prevote_req. exact HI.
Qed.

Lemma O_step_follower r m r' c :
  OInv r -> PC m -> (m_type m = MsgSnapshot -> snapq (m_snapshot m)) -> r_state r = Follower ->
  step_follower r m = Ok (r', c) -> OInv r'.
Proof.
  intros HI Pm Hsq Hf H. pose proof Pm as (_ & (N1 & _ & _ & _ & _ & N6 & N7) & _).
  unfold step_follower in H.
  assert (Hset : OInv (r <| r_election_elapsed := 0 |> <| r_leader_id := m_from m |>))
    by (apply (OInv_transport r _ HI); try reflexivity; apply HI).
  destruct (m_type m =? MsgPropose) eqn:E1.
  { apply N.eqb_eq in E1. dtop H; [injection H as <- <-; exact HI|].
    dtop H; [injection H as <- <-; exact HI|].
    ib H y Hy. injection H as <- <-. eapply OInv_forward; [exact HI|left; exact E1|exact Hy]. }
  dtop H; [ib H y Hy; injection H as <- <-; eapply O_handle_append_entries; eassumption|].
  dtop H; [ib H y Hy; injection H as <- <-; eapply O_handle_heartbeat; eassumption|].
  destruct (m_type m =? MsgSnapshot) eqn:E4.
  { ib H y Hy. injection H as <- <-.
    eapply (O_handle_snapshot _ m); [exact Hset|exact Hf|apply Hsq, N.eqb_eq, E4|exact Hy]. }
  destruct (m_type m =? MsgTransferLeader) eqn:E5; [apply N.eqb_eq in E5; contradiction|].
  destruct (m_type m =? MsgTimeoutNow) eqn:E6; [apply N.eqb_eq in E6; contradiction|].
  destruct (m_type m =? MsgReadIndex) eqn:E7.
  { apply N.eqb_eq in E7. dtop H; [injection H as <- <-; exact HI|].
    ib H y Hy. injection H as <- <-. eapply OInv_forward; [exact HI|right; exact E7|exact Hy]. }
  dtop H; [|injection H as <- <-; exact HI].
  destruct (m_entries m) as [|e [|e2 rest]]; try (injection H as <- <-; exact HI).
  ib H y Hy. injection H as <- <-.
  apply (OInv_transport r _ HI); try reflexivity. apply HI.
Qed.

(* (1) THE OUTSIDER'S STEP: under any message of the pool class (with a quorum-keeping
   snapshot, if it is one) the invariant is kept: the term stays <= t, the node does not
   become leader, and whatever it queues is of the pool class again - in particular
   [adv_ok] when addressed to a window member *)
Theorem outsider_step r m r' c :
  OInv r -> PC m -> (m_type m = MsgSnapshot -> snapq (m_snapshot m)) ->
  step r m = Ok (r', c) -> OInv r'.
Proof.
  intros HI Pm Hsq H. pose proof Pm as (P1 & (N1 & _) & _).
  rewrite step_eq in H. ib H pre Hpre. apply step_pre_cases in Hpre.
  destruct pre as [[r1 c1]|r1].
  - injection H as <- <-. destruct Hpre as (_ & _ & [(_ & _ & ->)|(_ & Hr)]); [exact HI|].
    eapply O_low_term_reply; eassumption.
  - assert (HI1 : OInv r1).
    { destruct Hpre as [[-> _]|(L & D & E & Hf)]; [exact HI|].
      eapply OInv_become_follower; [exact HI| |exact Hf].
      destruct P1 as [P1|P1]; [exact P1|congruence]. }
    clear Hpre. unfold step_body in H.
    destruct (m_type m =? MsgHup) eqn:Ehup; [apply N.eqb_eq in Ehup; contradiction|].
    destruct ((m_type m =? MsgRequestVote) || (m_type m =? MsgRequestPreVote)) eqn:Ev.
    { assert (Hq : vreq m) by (apply orb_prop in Ev; destruct Ev as [X|X]; apply N.eqb_eq in X; [left|right]; exact X).
      eapply (O_vote_branch r1 m r' c); [exact HI1|exact Pm|exact Hq|].
      unfold step_body. rewrite Ehup, Ev. exact H. }
    pose proof HI1 as (_ & _ & _ & I4 & _).
    destruct (r_state r1) eqn:Es.
    + eapply O_step_follower; eassumption.
    + eapply O_step_candidate; try eassumption. left. exact Es.
    + contradiction.
    + eapply O_step_candidate; try eassumption. right. exact Es.
Qed.

(* ... and its tick: wait, or time out and send pre-vote requests *)
Theorem outsider_tick r r' b : OInv r -> tick r = Ok (r', b) -> OInv r'.
Proof.
  intros HI H. pose proof HI as (I1 & I2 & I3 & I4 & I5 & I6 & I7).
  assert (Ht : tick r = tick_election r) by (unfold tick; destruct (r_state r); try reflexivity; contradiction).
  rewrite Ht in H. unfold tick_election in H.
  dtop H; [injection H as <- <-; apply (OInv_transport r _ HI); try reflexivity; exact I7|].
  ib H y Hy. injection H as <- <-. destruct y as [r1 c1]. cbn [fst].
  set (r0 := r <| r_election_elapsed := r_election_elapsed r + 1 |> <| r_election_elapsed := 0 |>) in *.
  assert (HI0 : OInv r0) by (apply (OInv_transport r _ HI); try reflexivity; exact I7).
  rewrite step_eq in Hy. unfold step_pre in Hy.
  change (m_term (new_message INVALID_ID MsgHup (Some (r_id r0)))) with 0 in Hy.
  change (0 =? 0) with true in Hy. cbn [bind] in Hy. unfold step_body in Hy.
  change (m_type (new_message INVALID_ID MsgHup (Some (r_id r0)))) with MsgHup in Hy.
  change (MsgHup =? MsgHup) with true in Hy. cbv iota in Hy.
  ib Hy z Hz. injection Hy as <- <-. eapply O_hup; eassumption.
Qed.

End Outsider.

(* ------------------------------------------------------------------ *)
(* Part D: the closed cluster *)

Section ClosedRound.

Variables (hb et : N) (c : conf).
Hypothesis Hlids : ~ In l ids.
Hypothesis Hhbet : hb < et.
Hypothesis Hquorum : Quorum.has_quorum (incoming c) (outgoing c) (l :: ids) = true.

Local Notation LInv' := (LInv ids l t hb et c).
Local Notation LInv_step' := (LInv_step ids l t hb et c Ht0 Hl0 Hhbet Hquorum).
Local Notation FInv' := (FInv l t hb).
Local Notation FInv_step' := (FInv_step l t hb Ht0 Hl0).
Local Notation WInv' := (WInv ids l t hb et c).

(* the leader over a list of inputs *)
Lemma leader_steps_PC (pend : N -> Prop) : forall ms L L',
  LInv' pend L -> In (r_vote L) (l :: ids) ->
  Forall (fun m => okL ids t m /\ PC m) ms -> steps L ms = Ok L' ->
  Forall PC (r_msgs L) ->
  r_vote L' = r_vote L /\ Forall PC (r_msgs L').
Proof.
  induction ms as [|m rest IH]; intros L L' HI Hv Hok H F; cbn [steps] in H.
  - injection H as <-. auto.
  - apply Forall_cons_iff in Hok. destruct Hok as [[Ho Hp] Hr].
    ib H y Hy. destruct y as [L1 c1]. cbn [fst] in H.
    pose proof (leader_step_PC _ _ _ _ _ _ _ _ HI Hv Ho Hp Hy F) as F1.
    destruct (LInv_step' pend _ _ _ _ HI Ho Hy) as (J1 & (K & _) & _).
    apply keeps_fields in K. destruct K as (_ & K2 & _).
    destruct (IH _ _ J1 ltac:(rewrite K2; exact Hv) Hr H F1) as [A B].
    split; [congruence|exact B].
Qed.

Lemma follower_steps_PC he (hq : Prop) : forall ms F F',
  FInv' he hq F -> In (r_id F) ids -> In (r_vote F) (l :: ids) ->
  Forall (fun m => okF l t m /\ PC m) ms -> steps F ms = Ok F' ->
  Forall PC (r_msgs F) -> Forall PC (r_msgs F').
Proof.
  induction ms as [|m rest IH]; intros F F' HI Hid Hv Hok H Fq; cbn [steps] in H.
  - injection H as <-. exact Fq.
  - apply Forall_cons_iff in Hok. destruct Hok as [[Ho Hp] Hr].
    ib H y Hy. destruct y as [F1 c1]. cbn [fst] in H.
    pose proof (follower_step_PC _ _ _ _ _ _ _ HI Hid Hv Ho Hp Hy Fq) as F1q.
    destruct (FInv_step' _ _ _ _ _ _ HI Ho Hy) as (J1 & A1 & B1 & _).
    eapply IH; [exact J1|rewrite A1; exact Hid|rewrite B1; exact Hv|exact Hr|exact H|exact F1q].
Qed.

(* the heartbeat phase of the leader's tick *)
Lemma beat_phase_PC r1 hr L2 b :
  beat_phase r1 hr = Ok (L2, b) -> r_id r1 = l -> r_term r1 = t ->
  Forall PC (r_msgs r1) -> r_vote L2 = r_vote r1 /\ Forall PC (r_msgs L2).
Proof.
  unfold beat_phase. intros H Hi Ht F.
  destruct (_ <=? _).
  - rewrite bcast_heartbeat_eq in H. cbn [bind] in H. injection H as <- _.
    split; [reflexivity|]. cbn. apply Forall_app. split; [exact F|].
    apply Forall_forall. intros x Hx. apply in_map_iff in Hx. destruct Hx as (id & <- & _).
    destruct (hb_msg_fields (r1 <| r_heartbeat_elapsed := 0 |>)
                (ro_last_pending_request_ctx (r_read_only (r1 <| r_heartbeat_elapsed := 0 |>))) id)
      as (A & B & C0 & D).
    apply (PC_plain l); [left; reflexivity| | |].
    + right; left. exact B.
    + exact (eq_trans C0 Hi).
    + apply N.eq_le_incl. exact (eq_trans D Ht).
  - injection H as <- _. auto.
Qed.

Lemma leader_tick_PC L1 L2 b :
  LInv' (fun _ => False) L1 -> tick L1 = Ok (L2, b) ->
  Forall PC (r_msgs L1) -> r_vote L2 = r_vote L1 /\ Forall PC (r_msgs L2).
Proof.
  intros HI H F.
  pose proof HI as (I1 & I2 & I3 & I4 & I5 & I6 & I7 & I8 & I9 & I10 & I11 & I12 & I13 & I14).
  destruct (N.lt_ge_cases (r_election_elapsed L1 + 1) (r_election_timeout L1)) as [Hno|Hb].
  - rewrite (leader_heartbeats L1 I1 Hno) in H.
    apply beat_phase_PC in H; [exact H|exact I3|exact I2|exact F].
  - assert (Hall : forall id, In id ids -> act L1 id).
    { destruct I14 as [A|A]; [|lia]. intros id Hid. destruct (A id Hid) as [B|[]]. exact B. }
    rewrite (checkquorum_stepdown L1 I1 Hb), I5,
      (all_act_quorum ids l t hb et c Hquorum _ L1 HI Hall) in H.
    apply beat_phase_PC in H; [exact H|exact I3|exact I2|exact F].
Qed.

Local Notation deliver_WInv' := (deliver_WInv ids l t hb et c Ht0 Hl0 Hhbet Hquorum).
Local Notation star_round_WInv' := (star_round_WInv ids l t hb et c Ht0 Hl0 Hlids Hhbet Hquorum).
Local Notation follower_exchange' := (follower_exchange ids l t hb et c Ht0 Hl0 Hhbet Hquorum).
Local Notation QL_okF' := (QL_okF ids l t hb et c Ht0 Hl0 Hhbet Hquorum).
Local Notation LInv_steps' := (LInv_steps ids l t hb et c Ht0 Hl0 Hhbet Hquorum).
Local Notation leader_tick_LInv' := (leader_tick_LInv ids l t hb et c Ht0 Hl0 Hlids Hhbet Hquorum).
Local Notation adv_okL' := (adv_okL ids l t hb et c Ht0 Hl0 Hhbet Hquorum).
Local Notation adv_okF' := (adv_okF ids l t hb et c Ht0 Hl0 Hhbet Hquorum).

(* the members' side of the closed invariant: the window invariant, every member has
   voted for a member, and every queued message is of the pool class *)
Definition MInv (vs : list N) (L : raft) (Fs : list raft) : Prop :=
  WInv' vs L Fs /\ In (r_vote L) (l :: ids) /\ Forall (fun v => In v (l :: ids)) vs /\
  Forall PC (r_msgs L) /\ Forall (fun F => Forall PC (r_msgs F)) Fs.

Lemma WInv_member vs L Fs F :
  WInv' vs L Fs -> Forall (fun v => In v (l :: ids)) vs -> In F Fs ->
  In (r_id F) ids /\ In (r_vote F) (l :: ids).
Proof.
  intros (_ & Hid & Hv & _) Hvs HF. split.
  - rewrite <- Hid. apply in_map. exact HF.
  - rewrite Forall_forall in Hvs. apply Hvs. rewrite <- Hv. apply in_map. exact HF.
Qed.

Lemma deliver_MInv vs L Fs tm L' Fs' :
  MInv vs L Fs -> adv_ok ids l t (snd tm) -> PC (snd tm) ->
  deliver (L, Fs) tm = Ok (L', Fs') -> MInv vs L' Fs'.
Proof.
  intros (HW & HvL & Hvs & FL & FF) Hadv Hpc H.
  pose proof (deliver_WInv' _ _ _ _ _ _ HW Hadv H) as HW'.
  split; [exact HW'|]. split; [|split; [exact Hvs|]].
  - unfold deliver in H. cbn [fst snd] in H. destruct (fst tm =? r_id L).
    + ib H y Hy. injection H as <- _. destruct y as [L1 c1]. cbn [fst].
      destruct HW as (HL & _).
      destruct (LInv_step' _ _ _ _ _ HL (adv_okL' _ Hadv) Hy) as (_ & (K & _) & _).
      apply keeps_fields in K. destruct K as (_ & K2 & _). rewrite K2. exact HvL.
    + ib H Fs1 H1. injection H as <- _. exact HvL.
  - unfold deliver in H. cbn [fst snd] in H. destruct (fst tm =? r_id L).
    + ib H y Hy. injection H as <- <-. destruct y as [L1 c1]. cbn [fst]. split; [|exact FF].
      destruct HW as (HL & _).
      eapply leader_step_PC; [exact HL|exact HvL|exact (adv_okL' _ Hadv)|exact Hpc|exact Hy|exact FL].
    + ib H Fs1 H1. injection H as <- <-. split; [exact FL|].
      apply mapM_Forall2 in H1.
      assert (Hmem : forall F, In F Fs -> In (r_id F) ids /\ In (r_vote F) (l :: ids))
        by (intros F HF; exact (WInv_member vs L Fs F HW Hvs HF)).
      destruct HW as (_ & _ & _ & HFI). clear HW'.
      revert HFI FF Hmem. induction H1 as [|F F1 Fs0 Fs10 Hx Hrest IH]; intros HFI FF Hmem; [constructor|].
      apply Forall_cons_iff in HFI. destruct HFI as [HF0 HFr].
      apply Forall_cons_iff in FF. destruct FF as [FF0 FFr].
      constructor; [|apply IH; [exact HFr|exact FFr|intros G HG; apply Hmem; right; exact HG]].
      destruct (r_id F =? fst tm); [|injection Hx as <-; exact FF0].
      ib Hx y Hy. injection Hx as <-. destruct y as [Fa ca]. cbn [fst].
      destruct (Hmem F (or_introl eq_refl)) as [Hi Hv].
      eapply follower_step_PC; [exact HF0|exact Hi|exact Hv|exact (adv_okF' _ Hadv)|exact Hpc|exact Hy|exact FF0].
Qed.

Lemma deliver_all_MInv vs : forall adv L Fs L' Fs',
  MInv vs L Fs -> Forall (fun tm => adv_ok ids l t (snd tm) /\ PC (snd tm)) adv ->
  deliver_all (L, Fs) adv = Ok (L', Fs') -> MInv vs L' Fs'.
Proof.
  induction adv as [|tm rest IH]; intros L Fs L' Fs' HI Hadv H; cbn [deliver_all] in H.
  - injection H as <- <-. exact HI.
  - apply Forall_cons_iff in Hadv. destruct Hadv as [[Ha Hp] Hr]. ib H st Hst. destruct st as [L1 Fs1].
    eapply IH; [|exact Hr|exact H]. eapply deliver_MInv; eassumption.
Qed.

Theorem star_round_MInv vs L Fs L' Fs' :
  MInv vs L Fs -> star_round L Fs = Ok (L', Fs') ->
  MInv vs L' Fs' /\ Forall (fun F' => r_msgs F' = []) Fs'.
Proof.
  intros (HW & HvL & Hvs & FL & FF) H.
  pose proof (star_round_WInv' _ _ _ _ _ HW H) as HW'.
  assert (Hmem : forall F, In F Fs -> In (r_id F) ids /\ In (r_vote F) (l :: ids))
    by (intros F HF; exact (WInv_member vs L Fs F HW Hvs HF)).
  destruct HW as (HL & Hid & Hv & HF).
  unfold star_round in H.
  ib H Fs1 H1. ib H L1 HL1. ib H L2 HL2. ib H Fs2 H2. injection H as HL' HFs'. subst L' Fs'.
  pose proof HL as (I1 & I2 & I3 & I4 & I5 & I6 & I7 & I8 & I9 & I10 & I11 & I12 & I13 & I14).
  apply mapM_Forall2 in H1.
  (* step 1 *)
  assert (G1 : Forall2 (fun F F1 =>
     FInv' (r_heartbeat_elapsed L) (hbq L (r_id F)) F1 /\ Forall PC (r_msgs F1) /\
     (hbq L (r_id F) ->
      r_election_elapsed F1 = 0 /\
      exists x, In x (replies l F1) /\ m_from x = r_id F /\ m_term x = t /\
                (m_type x = MsgHeartbeatResponse \/ m_type x = MsgAppendResponse))) Fs Fs1).
  { clear Hid Hv H2 HL HL1 HL2 HW'. revert HF FF Hmem.
    induction H1 as [|F F1 Fs0 Fs10 Hx Hrest IH]; intros HF FF Hmem; [constructor|].
    apply Forall_cons_iff in HF. destruct HF as [HF0 HFr].
    apply Forall_cons_iff in FF. destruct FF as [FF0 FFr].
    destruct (Hmem F (or_introl eq_refl)) as [Hi Hvo].
    constructor; [|apply IH; [exact HFr|exact FFr|intros G HG; apply Hmem; right; exact HG]].
    destruct (follower_exchange' _ _ _ I13 Hi HF0 Hx) as (_ & _ & A & B).
    split; [exact A|]. split; [|exact B].
    eapply follower_steps_PC; [exact HF0|exact Hi|exact Hvo| |exact Hx|exact FF0].
    apply Forall_forall. intros x Hxin. split; [apply (QL_okF' _ _ _ I13 Hi Hxin)|].
    apply to_peer_In in Hxin. rewrite Forall_forall in FL. apply FL. apply Hxin. }
  (* step 2 *)
  rewrite I3 in HL1.
  assert (Hok2 : Forall (fun m => okL ids t m /\ PC m) (concat (map (replies l) Fs1))).
  { apply Forall_forall. intros x Hx. apply in_concat in Hx. destruct Hx as (ys & Hys & Hx).
    apply in_map_iff in Hys. destruct Hys as (F1 & <- & HF1).
    assert (HF1' : FInv' (r_heartbeat_elapsed L) True F1 /\ Forall PC (r_msgs F1)).
    { clear -G1 HF1. induction G1 as [|a b ? ? (A & B & _)]; [destruct HF1|].
      destruct HF1 as [<-|HF1]; [|apply IHG1, HF1].
      split; [|exact B]. destruct A as (A1 & A2 & A3 & A4 & A5 & A6 & A7 & A8 & A9).
      repeat (split; [assumption|]). left. exact I. }
    destruct HF1' as [(_ & _ & _ & _ & _ & _ & Q & _) Pq].
    split; [eapply QF_okL; [exact Q|exact Hx]|].
    unfold replies in Hx. apply to_peer_In in Hx. rewrite Forall_forall in Pq. apply Pq, Hx. }
  assert (Hok2' : Forall (okL ids t) (concat (map (replies l) Fs1)))
    by (eapply Forall_impl; [|exact Hok2]; intros a [A _]; exact A).
  pose proof (LInv_empty_queue _ _ _ _ _ _ _ _ HL) as HL0.
  destruct (LInv_steps' (hbq L) _ _ _ HL0 Hok2' HL1) as (J1 & LF1 & Act1).
  destruct (leader_steps_PC (hbq L) _ _ _ HL0 HvL Hok2 HL1 (Forall_nil _)) as [Vo1 P1].
  assert (J1' : LInv' (fun _ => False) L1).
  { eapply LInv_all; [exact J1|]. intros id Hidin Hq.
    rewrite <- Hid in Hidin. apply in_map_iff in Hidin. destruct Hidin as (F & <- & HFin).
    destruct (Forall2_In_l _ _ _ _ G1 HFin) as (F1 & HF1 & (_ & _ & R)).
    destruct (R Hq) as (_ & x & Hx & X1 & X2 & X3).
    rewrite <- X1. apply Act1; [|exact X3|exact X2|rewrite X1; apply Hmem, HFin].
    apply in_concat. exists (replies l F1). split; [apply in_map; exact HF1|exact Hx]. }
  (* step 3 *)
  destruct L2 as [L2 b2]. cbn [fst] in *.
  destruct (leader_tick_PC _ _ _ J1' HL2 P1) as [Vo2 P2].
  (* step 4 *)
  assert (He1 : r_heartbeat_elapsed L1 = r_heartbeat_elapsed L).
  { destruct LF1 as (_ & (_ & E & _) & _). exact E. }
  apply mapM_Forall2 in H2.
  assert (G2 : Forall (fun F2 => r_msgs F2 = []) Fs2).
  { clear Hid Hv Hok2 Hok2' Act1 HL1 H1 HW' Hmem FF HF. revert Fs2 H2.
    induction G1 as [|F F1 Fs0 Fs10 (C1 & _ & D1) Hrest IH]; intros Fs2 H2.
    - apply Forall2_nil_inv in H2. rewrite H2. constructor.
    - apply Forall2_cons_inv in H2. destruct H2 as (F2 & Fs20 & -> & Hx & Hr).
      constructor; [|apply IH; exact Hr].
      destruct C1 as (S1 & S2 & S3 & S4 & S5 & S6 & S7 & S8 & S9).
      assert (Hle : r_election_elapsed F1 <= r_heartbeat_elapsed L).
      { destruct S9 as [Hq|Hle]; [|exact Hle]. destruct (D1 Hq) as [Z _]. lia. }
      rewrite tick_waits in Hx; [|cbn; congruence|cbn; lia].
      cbn [bind fst] in Hx. injection Hx as <-. reflexivity. }
  split; [|exact G2].
  split; [exact HW'|]. split; [rewrite Vo2, Vo1; exact HvL|]. split; [exact Hvs|]. split; [exact P2|].
  eapply Forall_impl; [|exact G2]. intros F2 E. rewrite E. constructor.
Qed.

(* ------------------------------------------------------------------ *)
(* the outsiders and the pool *)

(* what an outsider does: take any message of the pool, tick, or crash and restart *)
Inductive oact := OStep (i : nat) (m : msg) | OTick (i : nat) | ORestart (i : nat) (r : raft).

(* every message an outsider queues goes to the pool at once *)
Definition oact_apply (st : list raft * list msg) (a : oact) : Res (list raft * list msg) :=
  match a with
  | OStep i m =>
      match nth_error (fst st) i with
      | None => Ok st
      | Some o1 => x <- step o1 m ;;
                  Ok (upd (fst st) i ((fst x) <| r_msgs := [] |>), snd st ++ r_msgs (fst x))
      end
  | OTick i =>
      match nth_error (fst st) i with
      | None => Ok st
      | Some o1 => x <- tick o1 ;;
                  Ok (upd (fst st) i ((fst x) <| r_msgs := [] |>), snd st ++ r_msgs (fst x))
      end
  | ORestart i r =>
      match nth_error (fst st) i with
      | None => Ok st
      | Some o1 => Ok (upd (fst st) i r, snd st)
      end
  end.

Fixpoint oacts_apply (st : list raft * list msg) (acts : list oact) : Res (list raft * list msg) :=
  match acts with
  | [] => Ok st
  | a :: rest => st' <- oact_apply st a ;; oacts_apply st' rest
  end.

(* a restart: same id, pre-vote still on, a term not above the old one, not a leader,
   nothing queued, no votes counted, a configuration in which the window members are a
   quorum *)
Definition restart_ok (O r : raft) : Prop :=
  r_id r = r_id O /\ r_pre_vote r = true /\ r_term r <= r_term O /\ r_state r <> Leader /\
  confq r /\ t_votes (r_prs r) = [] /\ r_msgs r = [].

Definition oact_ok (st : list raft * list msg) (a : oact) : Prop :=
  match a with
  | OStep i m => In m (snd st) /\ (m_type m = MsgSnapshot -> snapq (m_snapshot m))
  | OTick i => True
  | ORestart i r => forall O, nth_error (fst st) i = Some O -> restart_ok O r
  end.

Fixpoint oacts_ok (st : list raft * list msg) (acts : list oact) : Prop :=
  match acts with
  | [] => True
  | a :: rest => oact_ok st a /\ forall st', oact_apply st a = Ok st' -> oacts_ok st' rest
  end.

Definition OsInv (st : list raft * list msg) : Prop :=
  Forall (fun O => ~ In (r_id O) (l :: ids) /\ OInv (r_id O) O) (fst st) /\ Forall PC (snd st).

Lemma Forall_upd {A} (P : A -> Prop) : forall xs i a, Forall P xs -> P a -> Forall P (upd xs i a).
Proof.
  induction xs as [|x xs IH]; intros i a HF Ha; cbn [upd]; [constructor|].
  apply Forall_cons_iff in HF. destruct HF as [H0 Hr].
  destruct i; constructor; auto.
Qed.

Lemma OInv_empty_queue o r : OInv o r -> OInv o (r <| r_msgs := [] |>).
Proof.
  intros (I1 & I2 & I3 & I4 & I5 & I6 & I7). unfold OInv. cbn.
  repeat split; try assumption; try apply I5. constructor.
Qed.

Lemma oact_OsInv st a st' : OsInv st -> oact_ok st a -> oact_apply st a = Ok st' -> OsInv st'.
Proof.
  intros [HO HP] Hok H. destruct a as [i m|i|i r]; cbn [oact_apply oact_ok] in *.
  - destruct (nth_error (fst st) i) as [O|] eqn:E; [|injection H as <-; split; assumption].
    ib H y Hy. injection H as <-. destruct y as [O' c']. cbn [fst snd].
    destruct Hok as [Hin Hsq].
    pose proof (nth_error_In _ _ E) as HOin. rewrite Forall_forall in HO.
    destruct (HO O HOin) as [Hn HI].
    rewrite Forall_forall in HP. pose proof (HP m Hin) as Pm.
    pose proof (outsider_step (r_id O) Hn O m O' c' HI Pm Hsq Hy) as HI'.
    pose proof HI' as (_ & Eid & _). split.
    + apply Forall_upd; [apply Forall_forall; exact HO|]. cbn. rewrite Eid.
      split; [exact Hn|apply OInv_empty_queue; exact HI'].
    + apply Forall_app. split; [apply Forall_forall; exact HP|apply HI'].
  - destruct (nth_error (fst st) i) as [O|] eqn:E; [|injection H as <-; split; assumption].
    ib H y Hy. injection H as <-. destruct y as [O' b']. cbn [fst snd].
    pose proof (nth_error_In _ _ E) as HOin. rewrite Forall_forall in HO.
    destruct (HO O HOin) as [Hn HI].
    pose proof (outsider_tick (r_id O) Hn O O' b' HI Hy) as HI'.
    pose proof HI' as (_ & Eid & _). split.
    + apply Forall_upd; [apply Forall_forall; exact HO|]. cbn. rewrite Eid.
      split; [exact Hn|apply OInv_empty_queue; exact HI'].
    + apply Forall_app. split; [exact HP|apply HI'].
  - destruct (nth_error (fst st) i) as [O|] eqn:E; [|injection H as <-; split; assumption].
    injection H as <-. cbn [fst snd]. split; [|exact HP].
    destruct (Hok O eq_refl) as (R1 & R2 & R3 & R4 & R5 & R6 & R7).
    pose proof (nth_error_In _ _ E) as HOin. rewrite Forall_forall in HO.
    destruct (HO O HOin) as [Hn (_ & _ & I3 & _)].
    apply Forall_upd; [apply Forall_forall; exact HO|]. rewrite R1. split; [exact Hn|].
    unfold OInv, votes_ok. rewrite R6, R7. repeat split; try assumption; try lia; try apply R5.
    + intros id Hid. discriminate.
    + constructor.
Qed.

Lemma oacts_OsInv : forall acts st st',
  OsInv st -> oacts_ok st acts -> oacts_apply st acts = Ok st' -> OsInv st'.
Proof.
  induction acts as [|a rest IH]; intros st st' HI Hok H; cbn [oacts_apply] in H.
  - injection H as <-. exact HI.
  - destruct Hok as [Ha Hr]. ib H st1 H1.
    eapply IH; [|apply Hr; exact H1|exact H]. eapply oact_OsInv; eassumption.
Qed.

(* the pool only grows *)
Lemma oacts_pool_incl : forall acts st st',
  oacts_apply st acts = Ok st' -> incl (snd st) (snd st').
Proof.
  induction acts as [|a rest IH]; intros st st' H; cbn [oacts_apply] in H.
  - injection H as <-. apply incl_refl.
  - ib H st1 H1. apply IH in H. eapply incl_tran; [|exact H].
    destruct a as [i m|i|i r]; cbn [oact_apply] in H1;
      destruct (nth_error (fst st) i); try (injection H1 as <-; apply incl_refl).
    + ib H1 y Hy. injection H1 as <-. cbn. apply incl_appl, incl_refl.
    + ib H1 y Hy. injection H1 as <-. cbn. apply incl_appl, incl_refl.
Qed.

(* ------------------------------------------------------------------ *)
(* one round of the closed cluster: the outsiders act on the pool, then any messages of
   the pool that outsiders addressed to window members are delivered, the members'
   queues are copied to the pool, and the majority runs its lock-step round *)

Definition cluster := (raft * list raft * list raft * list msg)%type.

Definition adv_from_pool (pool : list msg) (adv : list (N * msg)) : Prop :=
  Forall (fun tm => In (snd tm) pool /\ ~ In (m_from (snd tm)) (l :: ids) /\
                    In (m_to (snd tm)) (l :: ids) /\ fst tm = m_to (snd tm)) adv.

Definition closed_round (acts : list oact) (adv : list (N * msg)) (st : cluster) : Res cluster :=
  let '(L, Fs, Os, pool) := st in
  op <- oacts_apply (Os, pool) acts ;;
  ma <- deliver_all (L, Fs) adv ;;
  mb <- star_round (fst ma) (snd ma) ;;
  Ok (fst mb, snd mb, fst op, snd op ++ r_msgs (fst ma) ++ concat (map r_msgs (snd ma))).

Definition round_ok (acts : list oact) (adv : list (N * msg)) (st : cluster) : Prop :=
  let '(L, Fs, Os, pool) := st in
  oacts_ok (Os, pool) acts /\
  forall op, oacts_apply (Os, pool) acts = Ok op -> adv_from_pool (snd op) adv.

Definition CInv (vs : list N) (st : cluster) : Prop :=
  let '(L, Fs, Os, pool) := st in MInv vs L Fs /\ OsInv (Os, pool).

Theorem closed_round_inv vs acts adv st st' :
  CInv vs st -> round_ok acts adv st -> closed_round acts adv st = Ok st' -> CInv vs st'.
Proof.
  destruct st as [[[L Fs] Os] pool]. intros [HM HO] [Hacts Hadv] H. unfold closed_round in H.
  ib H op1 Hop. ib H ma Hma. ib H mb Hmb. injection H as <-.
  pose proof (oacts_OsInv _ _ _ HO Hacts Hop) as [HO1 HP1].
  specialize (Hadv op1 Hop).
  assert (Hadv' : Forall (fun tm => adv_ok ids l t (snd tm) /\ PC (snd tm)) adv).
  { eapply Forall_impl; [|exact Hadv]. intros tm (A & B & C0 & _).
    rewrite Forall_forall in HP1. pose proof (HP1 _ A) as Pm. split; [|exact Pm].
    destruct Pm as (_ & _ & _ & _ & P5). apply P5; assumption. }
  destruct ma as [La Fsa]. destruct mb as [Lb Fsb]. cbn [fst snd] in *.
  pose proof (deliver_all_MInv _ _ _ _ _ _ HM Hadv' Hma) as HMa.
  destruct (star_round_MInv _ _ _ _ _ HMa Hmb) as [HMb _].
  split; [exact HMb|]. split; [exact HO1|]. cbn [snd].
  destruct HMa as (_ & _ & _ & FLa & FFa).
  apply Forall_app. split; [exact HP1|]. apply Forall_app. split; [exact FLa|].
  apply Forall_forall. intros x Hx. apply in_concat in Hx. destruct Hx as (ys & Hys & Hx).
  apply in_map_iff in Hys. destruct Hys as (F & <- & HF).
  rewrite Forall_forall in FFa. specialize (FFa F HF). rewrite Forall_forall in FFa. apply FFa, Hx.
Qed.

Fixpoint closed_rounds (sched : list (list oact * list (N * msg))) (st : cluster) : Res cluster :=
  match sched with
  | [] => Ok st
  | (acts, adv) :: rest => st' <- closed_round acts adv st ;; closed_rounds rest st'
  end.

Fixpoint sched_ok (sched : list (list oact * list (N * msg))) (st : cluster) : Prop :=
  match sched with
  | [] => True
  | (acts, adv) :: rest =>
      round_ok acts adv st /\ forall st', closed_round acts adv st = Ok st' -> sched_ok rest st'
  end.

Theorem closed_rounds_inv vs : forall sched st st',
  CInv vs st -> sched_ok sched st -> closed_rounds sched st = Ok st' -> CInv vs st'.
Proof.
  induction sched as [|[acts adv] rest IH]; intros st st' HI Hok H; cbn [closed_rounds] in H.
  - injection H as <-. exact HI.
  - destruct Hok as [Hr Hn]. ib H st1 H1.
    eapply IH; [|apply Hn; exact H1|exact H]. eapply closed_round_inv; eassumption.
Qed.

End ClosedRound.

End Closed.

(* ------------------------------------------------------------------ *)
(* the closed window, stated on the fields of the model *)

(* the start: a window (window_start) whose members have all voted for a member, and
   outsiders that run pre-vote, are not above the window's term, are not leaders, have
   no grant of a member on record, nothing queued, and a non-empty configuration of
   which the window members are a quorum; the pool of messages in flight is empty *)
Definition closed_start (L : raft) (Fs Os : list raft) : Prop :=
  window_start L Fs /\
  In (r_vote L) (r_id L :: map r_id Fs) /\
  Forall (fun F => In (r_vote F) (r_id L :: map r_id Fs)) Fs /\
  Forall (fun O =>
    ~ In (r_id O) (r_id L :: map r_id Fs) /\ r_pre_vote O = true /\ r_term O <= r_term L /\
    r_state O <> Leader /\ confq (map r_id Fs) (r_id L) O /\
    votes_ok (map r_id Fs) (r_id L) O /\ r_msgs O = []) Os.

Definition closed_sched (L : raft) (Fs Os : list raft)
           (sched : list (list oact * list (N * msg))) : Prop :=
  sched_ok (map r_id Fs) (r_id L) sched (L, Fs, Os, []).

(* THE CLOSED WINDOW.  No hypothesis on the outsiders' messages: they are whatever this
   library makes the outsiders emit.  For any number of rounds and any schedule, if no
   panic occurs: L is still the leader of its term, every member of Fs still its follower
   with the same vote, inside its lease; and no outsider ever exceeded the window's term
   or became leader *)
Theorem closed_window L Fs Os sched L' Fs' Os' pool' :
  closed_start L Fs Os -> closed_sched L Fs Os sched ->
  closed_rounds sched (L, Fs, Os, []) = Ok (L', Fs', Os', pool') ->
  r_state L' = Leader /\ r_term L' = r_term L /\ r_leader_id L' = r_id L /\ r_id L' = r_id L /\
  Forall2 (fun F F' =>
    r_id F' = r_id F /\ r_vote F' = r_vote F /\ r_state F' = Follower /\
    r_term F' = r_term L /\ r_leader_id F' = r_id L /\ r_check_quorum F' = true /\
    r_election_elapsed F' < r_election_timeout F') Fs Fs' /\
  Forall (fun O' => r_term O' <= r_term L /\ r_state O' <> Leader /\ r_pre_vote O' = true /\
                    ~ In (r_id O') (r_id L :: map r_id Fs)) Os' /\
  Forall (PC (map r_id Fs) (r_id L) (r_term L)) pool'.
Proof.
  intros (Hs & HvL & HvF & HOs) Hsched H.
  pose proof Hs as (S1 & S2 & S3 & S4 & S5 & _ & _ & _ & _ & _ & _ & _ & S13 & _ & S15).
  assert (HC : CInv (map r_id Fs) (r_id L) (r_term L) (r_heartbeat_timeout L) (r_election_timeout L)
                 (t_conf (r_prs L)) (map r_vote Fs) (L, Fs, Os, [])).
  { split; [|split; [|constructor]].
    - split; [apply window_start_WInv; exact Hs|]. split; [exact HvL|].
      split; [apply Forall_forall; intros v Hv; apply in_map_iff in Hv;
              destruct Hv as (F & <- & HF); rewrite Forall_forall in HvF; apply HvF, HF|].
      split; [rewrite S13; constructor|].
      eapply Forall_impl; [|exact S15]. intros F (_ & _ & _ & _ & _ & _ & E & _). rewrite E. constructor.
    - cbn [fst]. eapply Forall_impl; [|exact HOs].
      intros O (O1 & O2 & O3 & O4 & O5 & O6 & O7). split; [exact O1|].
      unfold OInv. rewrite O7. repeat split; try assumption; try apply O5. constructor. }
  pose proof (closed_rounds_inv (map r_id Fs) (r_id L) (r_term L) S1 S2 (r_heartbeat_timeout L)
                (r_election_timeout L) (t_conf (r_prs L)) S3 S4 S5 (map r_vote Fs) sched _ _ HC Hsched H)
    as [((HL & Hid & Hv & HF) & _) [HO HP]].
  destruct HL as (I1 & I2 & I3 & I4 & _).
  repeat (split; [assumption|]).
  split; [|split; [|exact HP]].
  - pose proof (maps_Forall2 r_id r_vote Fs Fs' Hid Hv) as G.
    clear -G HF. induction G as [|F F' Fs0 Fs0' (A & B) Hrest IH]; constructor.
    + apply Forall_cons_iff in HF. destruct HF as [(F1 & F2 & F3 & F4 & F5 & F6 & F7 & F8 & F9) _].
      repeat (split; [assumption|]). lia.
    + apply IH. apply Forall_cons_iff in HF. apply HF.
  - cbn [fst] in HO. eapply Forall_impl; [|exact HO].
    intros O' (N1 & (J1 & J2 & J3 & J4 & _)). auto.
Qed.

(* ------------------------------------------------------------------ *)
(* definitions used in the pinned statements, unfolded *)

Lemma def_PC ids l t x :
  PC ids l t x <->
  (m_term x <= t \/ exempt x = true) /\
  netmsg (m_type x) /\
  (vresp x -> m_reject x = false -> ~ In (m_from x) (l :: ids)) /\
  (vreq x -> ~ In (m_from x) (l :: ids) /\ list_eqb (m_context x) CAMPAIGN_TRANSFER = false) /\
  (~ In (m_from x) (l :: ids) -> In (m_to x) (l :: ids) -> adv_ok ids l t x).
Proof. reflexivity. Qed.

Lemma def_vresp x :
  vresp x <-> m_type x = MsgRequestVoteResponse \/ m_type x = MsgRequestPreVoteResponse.
Proof. reflexivity. Qed.

Lemma def_vreq x : vreq x <-> m_type x = MsgRequestVote \/ m_type x = MsgRequestPreVote.
Proof. reflexivity. Qed.

Lemma def_votes_ok ids l r :
  votes_ok ids l r <->
  forall id, Quorum.assoc (t_votes (r_prs r)) id = Some true -> ~ In id (l :: ids).
Proof. reflexivity. Qed.

Lemma def_confq ids l r :
  confq ids l r <->
  incoming (conf_of r) <> [] /\
  Quorum.has_quorum (incoming (conf_of r)) (outgoing (conf_of r)) (l :: ids) = true.
Proof. reflexivity. Qed.

Lemma def_snapq ids l s :
  snapq ids l s <->
  forall c' i, ConfChange.restore empty_tracker (s_cs s) = ROk (c', i) ->
    incoming c' <> [] /\ Quorum.has_quorum (incoming c') (outgoing c') (l :: ids) = true.
Proof. reflexivity. Qed.

Lemma def_OInv ids l t o r :
  OInv ids l t o r <->
  r_pre_vote r = true /\ r_id r = o /\ r_term r <= t /\ r_state r <> Leader /\
  confq ids l r /\ votes_ok ids l r /\ Forall (PC ids l t) (r_msgs r).
Proof. reflexivity. Qed.

Lemma def_oact_apply st a :
  oact_apply st a =
  match a with
  | OStep i m =>
      match nth_error (fst st) i with
      | None => Ok st
      | Some o1 => x <- step o1 m ;;
                   Ok (upd (fst st) i ((fst x) <| r_msgs := [] |>), snd st ++ r_msgs (fst x))
      end
  | OTick i =>
      match nth_error (fst st) i with
      | None => Ok st
      | Some o1 => x <- tick o1 ;;
                   Ok (upd (fst st) i ((fst x) <| r_msgs := [] |>), snd st ++ r_msgs (fst x))
      end
  | ORestart i r =>
      match nth_error (fst st) i with
      | None => Ok st
      | Some o1 => Ok (upd (fst st) i r, snd st)
      end
  end.
Proof. reflexivity. Qed.

Lemma def_oacts_apply st acts :
  oacts_apply st acts = match acts with
                        | [] => Ok st
                        | a :: rest => st' <- oact_apply st a ;; oacts_apply st' rest
                        end.
Proof. destruct acts; reflexivity. Qed.

Lemma def_restart_ok ids l O r :
  restart_ok ids l O r <->
  r_id r = r_id O /\ r_pre_vote r = true /\ r_term r <= r_term O /\ r_state r <> Leader /\
  confq ids l r /\ t_votes (r_prs r) = [] /\ r_msgs r = [].
Proof. reflexivity. Qed.

Lemma def_oact_ok ids l st a :
  oact_ok ids l st a <->
  match a with
  | OStep i m => In m (snd st) /\ (m_type m = MsgSnapshot -> snapq ids l (m_snapshot m))
  | OTick i => True
  | ORestart i r => forall O, nth_error (fst st) i = Some O -> restart_ok ids l O r
  end.
Proof. destruct a; reflexivity. Qed.

Lemma def_oacts_ok ids l st acts :
  oacts_ok ids l st acts <->
  match acts with
  | [] => True
  | a :: rest => oact_ok ids l st a /\
                 forall st', oact_apply st a = Ok st' -> oacts_ok ids l st' rest
  end.
Proof. destruct acts; reflexivity. Qed.

Lemma def_adv_from_pool ids l pool adv :
  adv_from_pool ids l pool adv <->
  Forall (fun tm => In (snd tm) pool /\ ~ In (m_from (snd tm)) (l :: ids) /\
                    In (m_to (snd tm)) (l :: ids) /\ fst tm = m_to (snd tm)) adv.
Proof. reflexivity. Qed.

Lemma def_closed_round acts adv L Fs Os pool :
  closed_round acts adv (L, Fs, Os, pool) =
  (op1 <- oacts_apply (Os, pool) acts ;;
   ma <- deliver_all (L, Fs) adv ;;
   mb <- star_round (fst ma) (snd ma) ;;
   Ok (fst mb, snd mb, fst op1, snd op1 ++ r_msgs (fst ma) ++ concat (map r_msgs (snd ma)))).
Proof. reflexivity. Qed.

Lemma def_round_ok ids l acts adv L Fs Os pool :
  round_ok ids l acts adv (L, Fs, Os, pool) <->
  oacts_ok ids l (Os, pool) acts /\
  forall op1, oacts_apply (Os, pool) acts = Ok op1 -> adv_from_pool ids l (snd op1) adv.
Proof. reflexivity. Qed.

Lemma def_closed_rounds sched st :
  closed_rounds sched st =
  match sched with
  | [] => Ok st
  | (acts, adv) :: rest => st' <- closed_round acts adv st ;; closed_rounds rest st'
  end.
Proof. destruct sched as [|[a b] rest]; reflexivity. Qed.

Lemma def_sched_ok ids l sched st :
  sched_ok ids l sched st <->
  match sched with
  | [] => True
  | (acts, adv) :: rest =>
      round_ok ids l acts adv st /\
      forall st', closed_round acts adv st = Ok st' -> sched_ok ids l rest st'
  end.
Proof. destruct sched as [|[a b] rest]; reflexivity. Qed.

Lemma def_closed_start L Fs Os :
  closed_start L Fs Os <->
  window_start L Fs /\
  In (r_vote L) (r_id L :: map r_id Fs) /\
  Forall (fun F => In (r_vote F) (r_id L :: map r_id Fs)) Fs /\
  Forall (fun O =>
    ~ In (r_id O) (r_id L :: map r_id Fs) /\ r_pre_vote O = true /\ r_term O <= r_term L /\
    r_state O <> Leader /\ confq (map r_id Fs) (r_id L) O /\
    votes_ok (map r_id Fs) (r_id L) O /\ r_msgs O = []) Os.
Proof. reflexivity. Qed.

Lemma def_closed_sched L Fs Os sched :
  closed_sched L Fs Os sched <-> sched_ok (map r_id Fs) (r_id L) sched (L, Fs, Os, []).
Proof. reflexivity. Qed.

(* ------------------------------------------------------------------ *)
(* index-level schedules: an outsider step names the pool message by its position, so
   that the validity of a concrete schedule can be computed *)

Inductive iact := IStepK (i k : nat) | ITickK (i : nat).

Fixpoint res_acts (st : list raft * list msg) (ia : list iact)
  : option (list oact * (list raft * list msg)) :=
  match ia with
  | [] => Some ([], st)
  | a :: rest =>
      let oa := match a with
                | IStepK i k => match nth_error (snd st) k with
                                | Some m => if m_type m =? MsgSnapshot then None else Some (OStep i m)
                                | None => None
                                end
                | ITickK i => Some (OTick i)
                end in
      match oa with
      | None => None
      | Some a' =>
          match oact_apply st a' with
          | Ok st' => match res_acts st' rest with
                      | Some (acts, stf) => Some (a' :: acts, stf)
                      | None => None
                      end
          | Panic _ => None
          end
      end
  end.

Lemma res_acts_ok ids l : forall ia st acts stf,
  res_acts st ia = Some (acts, stf) -> oacts_ok ids l st acts /\ oacts_apply st acts = Ok stf.
Proof.
  induction ia as [|a rest IH]; intros st acts stf H; cbn [res_acts] in H.
  - injection H as <- <-. split; [exact I|reflexivity].
  - set (oa := match a with IStepK i k => _ | ITickK i => _ end) in H.
    destruct oa as [a'|] eqn:Eoa; [|discriminate].
    destruct (oact_apply st a') as [st'|s] eqn:Eap; [|discriminate].
    destruct (res_acts st' rest) as [[acts' stf']|] eqn:Er; [|discriminate].
    injection H as <- <-. destruct (IH _ _ _ Er) as [A B].
    split; [|cbn [oacts_apply]; rewrite Eap; exact B].
    cbn [oacts_ok]. split; [|intros st'' E; rewrite Eap in E; injection E as <-; exact A].
    destruct a as [i k|i]; subst oa.
    + destruct (nth_error (snd st) k) as [m|] eqn:En; [|discriminate].
      destruct (m_type m =? MsgSnapshot) eqn:Es; [discriminate|]. injection Eoa as <-.
      cbn [oact_ok]. split; [eapply nth_error_In; exact En|].
      intros C. apply N.eqb_neq in Es. contradiction.
    + injection Eoa as <-. exact I.
Qed.

Fixpoint res_adv (mem : list N) (pool : list msg) (ks : list nat) : option (list (N * msg)) :=
  match ks with
  | [] => Some []
  | k :: rest =>
      match nth_error pool k with
      | Some m =>
          if negb (IdSet.mem (m_from m) mem) && IdSet.mem (m_to m) mem then
            match res_adv mem pool rest with
            | Some adv => Some ((m_to m, m) :: adv)
            | None => None
            end
          else None
      | None => None
      end
  end.

Lemma res_adv_ok ids l pool : forall ks adv,
  res_adv (l :: ids) pool ks = Some adv -> adv_from_pool ids l pool adv.
Proof.
  induction ks as [|k rest IH]; intros adv H; cbn [res_adv] in H.
  - injection H as <-. constructor.
  - destruct (nth_error pool k) as [m|] eqn:En; [|discriminate].
    destruct (negb (IdSet.mem (m_from m) (l :: ids)) && IdSet.mem (m_to m) (l :: ids)) eqn:Ec; [|discriminate].
    destruct (res_adv (l :: ids) pool rest) as [adv'|] eqn:Er; [|discriminate].
    injection H as <-. apply andb_prop in Ec. destruct Ec as [E1 E2].
    constructor; [|apply IH; reflexivity]. cbn [fst snd].
    split; [eapply nth_error_In; exact En|]. split.
    + apply negb_true_iff in E1. intros C. apply IdSetProofs.mem_In in C. congruence.
    + split; [apply IdSetProofs.mem_In; exact E2|reflexivity].
Qed.

Fixpoint res_sched (mem : list N) (st : cluster) (isch : list (list iact * list nat))
  : option (list (list oact * list (N * msg))) :=
  match isch with
  | [] => Some []
  | (ia, ks) :: rest =>
      match res_acts (snd (fst st), snd st) ia with
      | Some (acts, stf) =>
          match res_adv mem (snd stf) ks with
          | Some adv =>
              match closed_round acts adv st with
              | Ok st' => match res_sched mem st' rest with
                          | Some s => Some ((acts, adv) :: s)
                          | None => None
                          end
              | Panic _ => None
              end
          | None => None
          end
      | None => None
      end
  end.

Lemma res_sched_ok ids l : forall isch st sched,
  res_sched (l :: ids) st isch = Some sched -> sched_ok ids l sched st.
Proof.
  induction isch as [|[ia ks] rest IH]; intros st sched H; cbn [res_sched] in H.
  - injection H as <-. exact I.
  - destruct st as [[[L Fs] Os] pool]. cbn [fst snd] in H.
    destruct (res_acts (Os, pool) ia) as [[acts stf]|] eqn:Ea; [|discriminate].
    destruct (res_adv (l :: ids) (snd stf) ks) as [adv|] eqn:Ed; [|discriminate].
    destruct (closed_round acts adv (L, Fs, Os, pool)) as [st'|s] eqn:Ec; [|discriminate].
    destruct (res_sched (l :: ids) st' rest) as [s|] eqn:Er; [|discriminate].
    injection H as <-. destruct (res_acts_ok ids l _ _ _ _ Ea) as [A B].
    cbn [sched_ok]. split.
    + split; [exact A|]. intros op1 E. rewrite B in E. injection E as <-.
      eapply res_adv_ok; exact Ed.
    + intros st'' E. rewrite Ec in E. injection E as <-. apply IH. exact Er.
Qed.

(* ------------------------------------------------------------------ *)
(* example: leader 1 and follower 2 against node 3, which is cut off for thirty rounds
   (three election timeouts: it only ticks and pre-campaigns into the void) and then
   rejoins for six rounds: its latest pre-vote requests reach the members, and the
   members' latest messages (heartbeats, rejections) reach it *)

Definition idxs (p : msg -> bool) (pool : list msg) : list nat :=
  map fst (filter (fun km => p (snd km)) (combine (seq 0 (length pool)) pool)).

Definition lastn {A} (n : nat) (xs : list A) : list A := skipn (length xs - n) xs.

Definition xc_policy (n : nat) (st : cluster) : list iact * list nat :=
  if (n <? 30)%nat then ([ITickK 0], [])
  else
    let pool := snd st in
    (map (IStepK 0) (lastn 6 (idxs (fun m => m_to m =? 3) pool)) ++ [ITickK 0],
     lastn 4 (idxs (fun m => (m_from m =? 3) && ((m_to m =? 1) || (m_to m =? 2))) pool)).

Fixpoint xc_gen (fuel n : nat) (st : cluster) : list (list iact * list nat) :=
  match fuel with
  | O => []
  | S f =>
      let ik := xc_policy n st in
      match res_sched [1; 2] st [ik] with
      | Some [(acts, adv)] =>
          match closed_round acts adv st with
          | Ok st' => ik :: xc_gen f (S n) st'
          | Panic _ => []
          end
      | _ => []
      end
  end.

Definition xc_st0 : cluster := (xs_leader, [xw_F2], [xs_follower], []).
Definition xc_isched : list (list iact * list nat) := xc_gen 36 0 xc_st0.
Definition xc_sched : list (list oact * list (N * msg)) :=
  match res_sched [1; 2] xc_st0 xc_isched with Some s => s | None => [] end.

Lemma xc_start : closed_start xs_leader [xw_F2] [xs_follower].
Proof.
  split; [exact xw_start|]. cbn [map].
  split; [left; reflexivity|]. split; [constructor; [left; reflexivity|constructor]|].
  constructor; [|constructor].
  split; [intros [H|[H|[]]]; discriminate|]. split; [reflexivity|].
  split; [vm_compute; discriminate|]. split; [discriminate|].
  split; [split; [vm_compute; discriminate|vm_compute; reflexivity]|].
  split; [intros id H; vm_compute in H; discriminate|reflexivity].
Qed.

Lemma xc_resolved : res_sched [1; 2] xc_st0 xc_isched = Some xc_sched.
Proof. vm_compute. reflexivity. Qed.

Lemma xc_sched_ok : closed_sched xs_leader [xw_F2] [xs_follower] xc_sched.
Proof. unfold closed_sched. apply (res_sched_ok [2] 1 xc_isched xc_st0 xc_sched). exact xc_resolved. Qed.

(* thirty rounds cut off: the outsider has pre-campaigned (its requests sit in the pool
   undelivered) and is a pre-candidate of the unchanged term 2 ... *)
Lemma xc_isolated : exists L' F' O' pool',
  closed_rounds (firstn 30 xc_sched) xc_st0 = Ok (L', [F'], [O'], pool') /\
  r_state L' = Leader /\ r_term L' = 2 /\
  r_state O' = PreCandidate /\ r_term O' = 2 /\
  length (filter (fun m => (m_type m =? MsgRequestPreVote) && (m_from m =? 3)) pool') = 4%nat /\
  Forall (fun m => (m_type m =? MsgRequestPreVote) && (m_from m =? 3) = true -> m_term m = 3) pool'.
Proof.
  vm_compute. do 4 eexists. split; [reflexivity|]. repeat split.
  repeat (constructor; [intros H; first [discriminate H|reflexivity]|]). constructor.
Qed.

(* ... six rounds after rejoining: leader and follower undisturbed in term 2, the
   outsider back as a follower of leader 1 in term 2 *)
Lemma xc_run : exists L' F' O' pool',
  closed_rounds xc_sched xc_st0 = Ok (L', [F'], [O'], pool') /\
  r_state L' = Leader /\ r_term L' = 2 /\
  r_state F' = Follower /\ r_term F' = 2 /\ r_vote F' = 1 /\
  r_state O' = Follower /\ r_term O' = 2 /\ r_leader_id O' = 1 /\
  length xc_sched = 36%nat.
Proof. vm_compute. do 4 eexists. repeat split; reflexivity. Qed.
