(* C09 — membership changes: one at a time; promotable = voter; configuration is a
   function of (previous configuration, change).  Lemmas and theorems about M/Raft.v.
   Pinned statements are in Props/C09.v. *)
From RV Require Import Base.Prelude Base.IdSet M.Util M.Proto M.MemStorage M.Inflights
  M.Progress M.RaftLog M.Quorum M.ConfChange M.Msg M.Raft M.RaftProofs.
From RecordUpdate Require Import RecordSet.
Import RecordSetNotations.

Local Open Scope N_scope.

(* ------------------------------------------------------------------ *)
(* generic helpers *)

Ltac dif H :=
  match type of H with
  | context [if ?c then _ else _] => let E := fresh "E" in destruct c eqn:E
  end.

Ltac dfilter H :=
  match type of H with
  | context [filter_conf_changes ?x1 ?x2 ?x3 ?x4] =>
      let F := fresh "F" in let a := fresh "a" in let b := fresh "b" in let c := fresh "c" in
      destruct (filter_conf_changes x1 x2 x3 x4) as [[a b] c] eqn:F
  end.

Lemma set_log_same (r : raft) : r <| r_log := r_log r |> = r.
Proof. destruct r; reflexivity. Qed.

Lemma set_pending_same (r : raft) : r <| r_pending_conf_index := r_pending_conf_index r |> = r.
Proof. destruct r; reflexivity. Qed.

Lemma set_pending_twice (r : raft) a b :
  r <| r_pending_conf_index := a |> <| r_pending_conf_index := b |> = r <| r_pending_conf_index := b |>.
Proof. destruct r; reflexivity. Qed.

Lemma fst_fst_let3 {A B C B'} (x : A * B * C) (f : B -> B') :
  fst (fst (let '(a, b, c) := x in (a, f b, c))) = fst (fst x).
Proof. destruct x as [[a b] c]; reflexivity. Qed.

(* ------------------------------------------------------------------ *)
(* 1. the proposal filter *)

(* the refusal test of the filter, as written in the model *)
Definition cc_refuse (r : raft) (ci : N) : bool :=
  has_pending_conf r || (ConfChange.joint (conf_of r) && negb (negb (ci =? 3)))
  || (negb (ConfChange.joint (conf_of r)) && negb (ci =? 3)).

(* a conf-change entry may pass: nothing pending, and it is a leave exactly when joint *)
Definition cc_allowed (r : raft) (ci : N) : Prop :=
  has_pending_conf r = false /\
  (ConfChange.joint (conf_of r) = true -> ci <> 3) /\
  (ConfChange.joint (conf_of r) = false -> ci = 3).

Lemma cc_refuse_false r ci : cc_refuse r ci = false <-> cc_allowed r ci.
Proof.
  unfold cc_refuse, cc_allowed.
  destruct (N.eqb_spec ci 3) as [E|E];
  destruct (has_pending_conf r), (ConfChange.joint (conf_of r)); cbn;
    intuition (discriminate || congruence).
Qed.

Lemma cc_refuse_true r ci : cc_refuse r ci = true <-> ~ cc_allowed r ci.
Proof.
  rewrite <- cc_refuse_false. destruct (cc_refuse r ci); intuition congruence.
Qed.

Lemma filter_cons r e rest info i :
  filter_conf_changes r (e :: rest) info i =
  if negb (is_conf_entry e) then
    let '(r', rest', ok) := filter_conf_changes r rest (tl info) (i + 1) in (r', e :: rest', ok)
  else if hd 0 info =? 1 then (r, e :: rest, false)
  else if cc_refuse r (hd 0 info) then
    let '(r', rest', ok) := filter_conf_changes r rest (tl info) (i + 1) in
    (r', entry_default :: rest', ok)
  else
    let '(r', rest', ok) :=
      filter_conf_changes (r <| r_pending_conf_index := last_index (r_log r) + i + 1 |>)
                          rest (tl info) (i + 1) in
    (r', e :: rest', ok).
Proof. destruct info; reflexivity. Qed.

Lemma filter_nil r info i : filter_conf_changes r [] info i = (r, [], true).
Proof. reflexivity. Qed.

Opaque filter_conf_changes.

Lemma filter_length ents : forall r info i r' ents' ok,
  filter_conf_changes r ents info i = (r', ents', ok) -> length ents' = length ents.
Proof.
  induction ents as [|e rest IH]; intros r info i r' ents' ok H.
  - rewrite filter_nil in H. inversion H; reflexivity.
  - rewrite filter_cons in H.
    destruct (negb (is_conf_entry e)).
    { destruct (filter_conf_changes r rest (tl info) (i + 1)) as [[a b] c] eqn:F.
      inversion H; subst. cbn. f_equal. eapply IH; eassumption. }
    destruct (hd 0 info =? 1). { inversion H; reflexivity. }
    destruct (cc_refuse r (hd 0 info)).
    { destruct (filter_conf_changes r rest (tl info) (i + 1)) as [[a b] c] eqn:F.
      inversion H; subst. cbn. f_equal. eapply IH; eassumption. }
    dfilter H.
    inversion H; subst. cbn. f_equal. eapply IH; eassumption.
Qed.

(* only pending_conf_index can change *)
Lemma filter_frame ents : forall r info i r' ents' ok,
  filter_conf_changes r ents info i = (r', ents', ok) ->
  r' = r <| r_pending_conf_index := r_pending_conf_index r' |>.
Proof.
  induction ents as [|e rest IH]; intros r info i r' ents' ok H.
  - rewrite filter_nil in H. inversion H; subst. symmetry; apply set_pending_same.
  - rewrite filter_cons in H.
    destruct (negb (is_conf_entry e)).
    { destruct (filter_conf_changes r rest (tl info) (i + 1)) as [[a b] c] eqn:F.
      inversion H; subst. eapply IH; eassumption. }
    destruct (hd 0 info =? 1). { inversion H; subst. symmetry; apply set_pending_same. }
    destruct (cc_refuse r (hd 0 info)).
    { destruct (filter_conf_changes r rest (tl info) (i + 1)) as [[a b] c] eqn:F.
      inversion H; subst. eapply IH; eassumption. }
    dfilter H.
    inversion H; subst. apply IH in F. rewrite set_pending_twice in F. exact F.
Qed.

Lemma filter_frame_fields r ents info i r' ents' ok :
  filter_conf_changes r ents info i = (r', ents', ok) ->
  r_log r' = r_log r /\ conf_of r' = conf_of r /\ r_state r' = r_state r /\
  r_prs r' = r_prs r /\ r_id r' = r_id r /\ r_term r' = r_term r /\ r_msgs r' = r_msgs r.
Proof.
  intros H. apply filter_frame in H. rewrite H. repeat split; reflexivity.
Qed.

(* the proposal is dropped exactly when some conf-change entry fails to decode *)
Lemma filter_ok_false_iff ents : forall r info i r' ents' ok,
  filter_conf_changes r ents info i = (r', ents', ok) ->
  (ok = false <-> exists k e, nth_error ents k = Some e /\ is_conf_entry e = true /\ nth k info 0 = 1).
Proof.
  induction ents as [|e rest IH]; intros r info i r' ents' ok H.
  - rewrite filter_nil in H. inversion H; subst. split; [discriminate|].
    intros (k & e & Hk & _). destruct k; discriminate.
  - rewrite filter_cons in H.
    assert (Hshift : forall (P : Prop),
       (P <-> exists k e0, nth_error rest k = Some e0 /\ is_conf_entry e0 = true /\ nth k (tl info) 0 = 1) ->
       (is_conf_entry e = true -> hd 0 info <> 1) ->
       (P <-> exists k e0, nth_error (e :: rest) k = Some e0 /\ is_conf_entry e0 = true /\ nth k info 0 = 1)).
    { intros P HP Hhead. rewrite HP. split.
      - intros (k & e0 & A & B & C0). exists (S k), e0. cbn. repeat split; try assumption.
        destruct info; [destruct k; exact C0|exact C0].
      - intros (k & e0 & A & B & C0). destruct k as [|k].
        + cbn in A. inversion A; subst e0. exfalso. apply (Hhead B). destruct info; exact C0.
        + exists k, e0. cbn in A. repeat split; try assumption.
          destruct info; [destruct k; exact C0|exact C0]. }
    destruct (negb (is_conf_entry e)) eqn:Ec.
    { destruct (filter_conf_changes r rest (tl info) (i + 1)) as [[a b] c] eqn:F.
      inversion H; subst. apply Hshift; [eapply IH; eassumption|].
      intros Hc. rewrite Hc in Ec. discriminate. }
    destruct (hd 0 info =? 1) eqn:E1.
    { inversion H; subst. split; [intros _|reflexivity].
      exists 0%nat, e. cbn. apply negb_false_iff in Ec. apply N.eqb_eq in E1.
      repeat split; try assumption. destruct info; exact E1. }
    apply N.eqb_neq in E1.
    destruct (cc_refuse r (hd 0 info)).
    { destruct (filter_conf_changes r rest (tl info) (i + 1)) as [[a b] c] eqn:F.
      inversion H; subst. apply Hshift; [eapply IH; eassumption|]. intros _; exact E1. }
    dfilter H.
    inversion H; subst. apply Hshift; [eapply IH; eassumption|]. intros _; exact E1.
Qed.

(* state of the filter when it examines position k: the result of filtering the first k entries *)
Definition filt_state (r : raft) (ents : list entry) (info : list N) (i : N) (k : nat) : raft :=
  fst (fst (filter_conf_changes r (firstn k ents) info i)).

(* effect of one position on the state *)
Definition filter_head (r : raft) (e : entry) (ci i : N) : raft :=
  if negb (is_conf_entry e) then r
  else if cc_refuse r ci then r
  else r <| r_pending_conf_index := last_index (r_log r) + i + 1 |>.

Lemma filt_state_0 r ents info i : filt_state r ents info i 0 = r.
Proof. unfold filt_state. cbn [firstn]. rewrite filter_nil. reflexivity. Qed.

Lemma filt_state_all r ents info i r' ents' ok :
  filter_conf_changes r ents info i = (r', ents', ok) -> filt_state r ents info i (length ents) = r'.
Proof. intros H. unfold filt_state. rewrite firstn_all, H. reflexivity. Qed.

Lemma filt_state_S_cons r e rest info i k :
  (is_conf_entry e = true -> hd 0 info <> 1) ->
  filt_state r (e :: rest) info i (S k) =
  filt_state (filter_head r e (hd 0 info) i) rest (tl info) (i + 1) k.
Proof.
  intros Hh. unfold filt_state, filter_head. cbn [firstn]. rewrite filter_cons.
  destruct (negb (is_conf_entry e)) eqn:Ec.
  { apply fst_fst_let3. }
  apply negb_false_iff in Ec. specialize (Hh Ec). apply N.eqb_neq in Hh. rewrite Hh.
  destruct (cc_refuse r (hd 0 info)); apply fst_fst_let3.
Qed.

Lemma filter_head_log r e ci i : r_log (filter_head r e ci i) = r_log r.
Proof. unfold filter_head. destruct (negb _); [reflexivity|]. destruct (cc_refuse _ _); reflexivity. Qed.

Lemma nth_S_tl (info : list N) k : nth (S k) info 0 = nth k (tl info) 0.
Proof. destruct info; [destruct k; reflexivity|reflexivity]. Qed.

Lemma nth_0_hd (info : list N) : nth 0 info 0 = hd 0 info.
Proof. destruct info; reflexivity. Qed.

Lemma filter_pointwise ents : forall r info i r' ents',
  filter_conf_changes r ents info i = (r', ents', true) ->
  forall k e, nth_error ents k = Some e ->
    let rk := filt_state r ents info i k in
    let rk1 := filt_state r ents info i (S k) in
    (is_conf_entry e = false -> nth_error ents' k = Some e /\ rk1 = rk) /\
    (is_conf_entry e = true ->
       nth k info 0 <> 1 /\
       ((cc_allowed rk (nth k info 0) /\ nth_error ents' k = Some e /\
         rk1 = rk <| r_pending_conf_index := last_index (r_log r) + i + N.of_nat k + 1 |>) \/
        (~ cc_allowed rk (nth k info 0) /\ nth_error ents' k = Some entry_default /\ rk1 = rk))).
Proof.
  induction ents as [|e0 rest IH]; intros r info i r' ents' H k e Hk.
  { destruct k; discriminate. }
  (* the head is not a decode error, because ok = true *)
  assert (Hhead : is_conf_entry e0 = true -> hd 0 info <> 1).
  { intros Hc. pose proof (filter_ok_false_iff _ _ _ _ _ _ _ H) as [_ B].
    intros E1. assert (true = false); [|discriminate].
    apply B. exists 0%nat, e0. cbn. rewrite nth_0_hd. auto. }
  (* the tail run *)
  assert (Htail : exists rest', ents' = (if negb (is_conf_entry e0) then e0
                                         else if cc_refuse r (hd 0 info) then entry_default else e0)
                                        :: rest' /\
            filter_conf_changes (filter_head r e0 (hd 0 info) i) rest (tl info) (i + 1)
            = (r', rest', true)).
  { rewrite filter_cons in H. unfold filter_head.
    destruct (negb (is_conf_entry e0)) eqn:Ec.
    { dfilter H. inversion H; subst. eexists; split; reflexivity. }
    apply negb_false_iff in Ec. specialize (Hhead Ec). apply N.eqb_neq in Hhead. rewrite Hhead in H.
    destruct (cc_refuse r (hd 0 info)); dfilter H; inversion H; subst; eexists; split; reflexivity. }
  destruct Htail as (rest' & -> & Ht).
  destruct k as [|k].
  - cbn in Hk. inversion Hk; subst e0. cbn zeta.
    rewrite filt_state_0, (filt_state_S_cons _ _ _ _ _ _ Hhead), filt_state_0.
    rewrite nth_0_hd. unfold filter_head. cbn [nth_error].
    split.
    + intros Hc. rewrite Hc. cbn [negb]. split; reflexivity.
    + intros Hc. rewrite Hc. cbn [negb]. split; [exact (Hhead Hc)|].
      destruct (cc_refuse r (hd 0 info)) eqn:Er.
      * right. apply cc_refuse_true in Er. auto.
      * left. apply cc_refuse_false in Er. split; [exact Er|]. split; [reflexivity|].
        replace (last_index (r_log r) + i + N.of_nat 0 + 1) with (last_index (r_log r) + i + 1) by lia.
        reflexivity.
  - cbn [nth_error] in Hk |- *. cbn zeta.
    rewrite !(filt_state_S_cons _ _ _ _ _ _ Hhead), nth_S_tl.
    specialize (IH _ _ _ _ _ Ht k e Hk). cbn zeta in IH.
    rewrite filter_head_log in IH.
    replace (last_index (r_log r) + i + N.of_nat (S k) + 1)
      with (last_index (r_log r) + (i + 1) + N.of_nat k + 1) by lia.
    exact IH.
Qed.

(* ------------------------------------------------------------------ *)
(* corollaries of the filter *)

Definition count_conf (l : list entry) : nat := length (List.filter is_conf_entry l).

Lemma count_conf_cons e l :
  count_conf (e :: l) = ((if is_conf_entry e then 1 else 0) + count_conf l)%nat.
Proof. unfold count_conf. cbn [List.filter]. destruct (is_conf_entry e); reflexivity. Qed.

Lemma entry_default_not_conf : is_conf_entry entry_default = false.
Proof. reflexivity. Qed.

(* the one-step view of a successful run *)
Lemma filter_cons_ok r e rest info i r' ents' :
  filter_conf_changes r (e :: rest) info i = (r', ents', true) ->
  exists rest',
    filter_conf_changes (filter_head r e (hd 0 info) i) rest (tl info) (i + 1) = (r', rest', true) /\
    ents' = (if negb (is_conf_entry e) then e
             else if cc_refuse r (hd 0 info) then entry_default else e) :: rest'.
Proof.
  intros H. rewrite filter_cons in H. unfold filter_head.
  destruct (negb (is_conf_entry e)) eqn:Ec.
  { dfilter H. inversion H; subst. eexists; split; reflexivity. }
  destruct (hd 0 info =? 1). { inversion H. }
  destruct (cc_refuse r (hd 0 info)); dfilter H; inversion H; subst; eexists; split; reflexivity.
Qed.

(* while a change is pending nothing passes and the state is untouched *)
Lemma filter_pending_blocks ents : forall r info i r' ents',
  filter_conf_changes r ents info i = (r', ents', true) ->
  has_pending_conf r = true -> count_conf ents' = 0%nat /\ r' = r.
Proof.
  induction ents as [|e rest IH]; intros r info i r' ents' H Hp.
  { rewrite filter_nil in H. inversion H; subst. split; reflexivity. }
  apply filter_cons_ok in H. destruct H as (rest' & Ht & ->).
  assert (Hr : cc_refuse r (hd 0 info) = true) by (unfold cc_refuse; rewrite Hp; reflexivity).
  unfold filter_head in Ht. rewrite Hr in *.
  assert (Ht' : filter_conf_changes r rest (tl info) (i + 1) = (r', rest', true))
    by (destruct (negb (is_conf_entry e)); exact Ht).
  destruct (IH _ _ _ _ _ Ht' Hp) as [A B]. split; [|exact B].
  rewrite count_conf_cons, A.
  destruct (is_conf_entry e) eqn:Ec; cbn [negb]; [rewrite entry_default_not_conf|rewrite Ec]; reflexivity.
Qed.

(* C09: in one proposal at most one membership-change entry survives *)
Theorem one_conf_per_proposal ents : forall r info i r' ents',
  filter_conf_changes r ents info i = (r', ents', true) ->
  applied (r_log r) <= last_index (r_log r) ->
  (count_conf ents' <= 1)%nat.
Proof.
  induction ents as [|e rest IH]; intros r info i r' ents' H Hal.
  { rewrite filter_nil in H. inversion H; subst. cbn. lia. }
  apply filter_cons_ok in H. destruct H as (rest' & Ht & ->).
  rewrite count_conf_cons. unfold filter_head in Ht.
  destruct (is_conf_entry e) eqn:Ec; cbn [negb] in *.
  - destruct (cc_refuse r (hd 0 info)).
    + rewrite entry_default_not_conf. cbn. eapply IH; eassumption.
    + rewrite Ec. apply filter_pending_blocks in Ht.
      * destruct Ht as [A _]. rewrite A. lia.
      * unfold has_pending_conf. cbn. lia.
  - rewrite Ec. cbn. eapply IH; eassumption.
Qed.

(* pending_conf_index is either untouched, or nothing was pending and it now
   points into the proposal *)
Lemma filter_pending_cases ents : forall r info i r' ents' ok,
  filter_conf_changes r ents info i = (r', ents', ok) ->
  r_pending_conf_index r' = r_pending_conf_index r \/
  (has_pending_conf r = false /\ last_index (r_log r) + i + 1 <= r_pending_conf_index r').
Proof.
  induction ents as [|e rest IH]; intros r info i r' ents' ok H.
  { rewrite filter_nil in H. inversion H; subst. left; reflexivity. }
  rewrite filter_cons in H.
  destruct (negb (is_conf_entry e)).
  { dfilter H. inversion H; subst. apply IH in F. destruct F as [F|[F1 F2]]; [left; exact F|right].
    split; [exact F1|lia]. }
  destruct (hd 0 info =? 1). { inversion H; subst. left; reflexivity. }
  destruct (cc_refuse r (hd 0 info)) eqn:Er.
  { dfilter H. inversion H; subst. apply IH in F. destruct F as [F|[F1 F2]]; [left; exact F|right].
    split; [exact F1|lia]. }
  apply cc_refuse_false in Er. destruct Er as [Hp _].
  dfilter H. inversion H; subst. apply IH in F. right. split; [exact Hp|].
  cbn in F. destruct F as [F|[_ F2]]; lia.
Qed.

(* every surviving membership-change entry sits at or below the new pending_conf_index
   (position k of the proposal will get index last_index + i + k + 1) *)
Lemma filter_conf_bound ents : forall r info i r' ents',
  filter_conf_changes r ents info i = (r', ents', true) ->
  forall k e, nth_error ents' k = Some e -> is_conf_entry e = true ->
    last_index (r_log r) + i + N.of_nat k + 1 <= r_pending_conf_index r'.
Proof.
  induction ents as [|e0 rest IH]; intros r info i r' ents' H k e Hk Hc.
  { rewrite filter_nil in H. inversion H; subst. destruct k; discriminate. }
  apply filter_cons_ok in H. destruct H as (rest' & Ht & ->).
  destruct k as [|k].
  - cbn in Hk. inversion Hk as [Hk']. clear Hk.
    unfold filter_head in Ht.
    destruct (negb (is_conf_entry e0)) eqn:Ec.
    { subst e. rewrite Hc in Ec. discriminate. }
    destruct (cc_refuse r (hd 0 info)).
    { subst e. discriminate. }
    apply filter_pending_cases in Ht. cbn in Ht. destruct Ht as [F|[_ F]]; lia.
  - cbn [nth_error] in Hk. specialize (IH _ _ _ _ _ Ht k e Hk Hc).
    rewrite filter_head_log in IH. lia.
Qed.

(* what a surviving entry is: the original, of a membership-change type, and conversely
   every membership-change entry of the output is an original one *)
Lemma filter_kept_type ents : forall r info i r' ents' ok,
  filter_conf_changes r ents info i = (r', ents', ok) ->
  forall k e', nth_error ents' k = Some e' ->
    e' = entry_default \/ nth_error ents k = Some e'.
Proof.
  induction ents as [|e rest IH]; intros r info i r' ents' ok H k e' Hk.
  { rewrite filter_nil in H. inversion H; subst. destruct k; discriminate. }
  rewrite filter_cons in H.
  destruct (negb (is_conf_entry e)).
  { dfilter H. inversion H; subst. destruct k; cbn in *; [right; exact Hk|eapply IH; eassumption]. }
  destruct (hd 0 info =? 1). { inversion H; subst. right; exact Hk. }
  destruct (cc_refuse r (hd 0 info)).
  { dfilter H. inversion H; subst. destruct k; cbn in *; [left; congruence|eapply IH; eassumption]. }
  dfilter H. inversion H; subst. destruct k; cbn in *; [right; exact Hk|eapply IH; eassumption].
Qed.
