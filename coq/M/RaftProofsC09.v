(* C09 — membership changes: one at a time; promotable = voter; configuration is a
   function of (previous configuration, change).  Lemmas and theorems about M/Raft.v.
   Pinned statements are in Props/C09.v. *)
From RV Require Import Base.Prelude Base.IdSet M.Util M.Proto M.MemStorage M.Inflights
  M.Progress M.RaftLog M.Quorum M.ConfChange M.Msg M.Raft M.RawNode M.RaftProofs.
From RecordUpdate Require Import RecordSet.
Import RecordSetNotations.

Local Open Scope N_scope.

(* ------------------------------------------------------------------ *)
(* generic helpers *)

Ltac dif H :=
  match type of H with
  | context [if ?c then _ else _] => let E := fresh "E" in destruct c eqn:E
  end.

Ltac dfilter H :=
  match type of H with
  | context [filter_conf_changes ?x1 ?x2 ?x3 ?x4] =>
      let F := fresh "F" in let a := fresh "a" in let b := fresh "b" in let c := fresh "c" in
      destruct (filter_conf_changes x1 x2 x3 x4) as [[a b] c] eqn:F
  end.

Lemma set_log_same (r : raft) : r <| r_log := r_log r |> = r.
Proof. destruct r; reflexivity. Qed.

Lemma set_pending_same (r : raft) : r <| r_pending_conf_index := r_pending_conf_index r |> = r.
Proof. destruct r; reflexivity. Qed.

Lemma set_pending_twice (r : raft) a b :
  r <| r_pending_conf_index := a |> <| r_pending_conf_index := b |> = r <| r_pending_conf_index := b |>.
Proof. destruct r; reflexivity. Qed.

Lemma fst_fst_let3 {A B C B'} (x : A * B * C) (f : B -> B') :
  fst (fst (let '(a, b, c) := x in (a, f b, c))) = fst (fst x).
Proof. destruct x as [[a b] c]; reflexivity. Qed.

(* ------------------------------------------------------------------ *)
(* 1. the proposal filter *)

(* the refusal test of the filter, as written in the model *)
Definition cc_refuse (r : raft) (ci : N) : bool :=
  has_pending_conf r || (ConfChange.joint (conf_of r) && negb (negb (ci =? 3)))
  || (negb (ConfChange.joint (conf_of r)) && negb (ci =? 3)).

(* a conf-change entry may pass: nothing pending, and it is a leave exactly when joint *)
Definition cc_allowed (r : raft) (ci : N) : Prop :=
  has_pending_conf r = false /\
  (ConfChange.joint (conf_of r) = true -> ci <> 3) /\
  (ConfChange.joint (conf_of r) = false -> ci = 3).

Lemma cc_refuse_false r ci : cc_refuse r ci = false <-> cc_allowed r ci.
Proof.
  unfold cc_refuse, cc_allowed.
  destruct (N.eqb_spec ci 3) as [E|E];
  destruct (has_pending_conf r), (ConfChange.joint (conf_of r)); cbn;
    intuition (discriminate || congruence).
Qed.

Lemma cc_refuse_true r ci : cc_refuse r ci = true <-> ~ cc_allowed r ci.
Proof.
  rewrite <- cc_refuse_false. destruct (cc_refuse r ci); intuition congruence.
Qed.

Lemma filter_cons r e rest info i :
  filter_conf_changes r (e :: rest) info i =
  if negb (is_conf_entry e) then
    let '(r', rest', ok) := filter_conf_changes r rest (tl info) (i + 1) in (r', e :: rest', ok)
  else if hd 0 info =? 1 then (r, e :: rest, false)
  else if cc_refuse r (hd 0 info) then
    let '(r', rest', ok) := filter_conf_changes r rest (tl info) (i + 1) in
    (r', entry_default :: rest', ok)
  else
    let '(r', rest', ok) :=
      filter_conf_changes (r <| r_pending_conf_index := last_index (r_log r) + i + 1 |>)
                          rest (tl info) (i + 1) in
    (r', e :: rest', ok).
Proof. destruct info; reflexivity. Qed.

Lemma filter_nil r info i : filter_conf_changes r [] info i = (r, [], true).
Proof. reflexivity. Qed.

Opaque filter_conf_changes.

Lemma filter_length ents : forall r info i r' ents' ok,
  filter_conf_changes r ents info i = (r', ents', ok) -> length ents' = length ents.
Proof.
  induction ents as [|e rest IH]; intros r info i r' ents' ok H.
  - rewrite filter_nil in H. inversion H; reflexivity.
  - rewrite filter_cons in H.
    destruct (negb (is_conf_entry e)).
    { destruct (filter_conf_changes r rest (tl info) (i + 1)) as [[a b] c] eqn:F.
      inversion H; subst. cbn. f_equal. eapply IH; eassumption. }
    destruct (hd 0 info =? 1). { inversion H; reflexivity. }
    destruct (cc_refuse r (hd 0 info)).
    { destruct (filter_conf_changes r rest (tl info) (i + 1)) as [[a b] c] eqn:F.
      inversion H; subst. cbn. f_equal. eapply IH; eassumption. }
    dfilter H.
    inversion H; subst. cbn. f_equal. eapply IH; eassumption.
Qed.

(* only pending_conf_index can change *)
Lemma filter_frame ents : forall r info i r' ents' ok,
  filter_conf_changes r ents info i = (r', ents', ok) ->
  r' = r <| r_pending_conf_index := r_pending_conf_index r' |>.
Proof.
  induction ents as [|e rest IH]; intros r info i r' ents' ok H.
  - rewrite filter_nil in H. inversion H; subst. symmetry; apply set_pending_same.
  - rewrite filter_cons in H.
    destruct (negb (is_conf_entry e)).
    { destruct (filter_conf_changes r rest (tl info) (i + 1)) as [[a b] c] eqn:F.
      inversion H; subst. eapply IH; eassumption. }
    destruct (hd 0 info =? 1). { inversion H; subst. symmetry; apply set_pending_same. }
    destruct (cc_refuse r (hd 0 info)).
    { destruct (filter_conf_changes r rest (tl info) (i + 1)) as [[a b] c] eqn:F.
      inversion H; subst. eapply IH; eassumption. }
    dfilter H.
    inversion H; subst. apply IH in F. rewrite set_pending_twice in F. exact F.
Qed.

Lemma filter_frame_fields r ents info i r' ents' ok :
  filter_conf_changes r ents info i = (r', ents', ok) ->
  r_log r' = r_log r /\ conf_of r' = conf_of r /\ r_state r' = r_state r /\
  r_prs r' = r_prs r /\ r_id r' = r_id r /\ r_term r' = r_term r /\ r_msgs r' = r_msgs r.
Proof.
  intros H. apply filter_frame in H. rewrite H. repeat split; reflexivity.
Qed.

(* the proposal is dropped exactly when some conf-change entry fails to decode *)
Lemma filter_ok_false_iff ents : forall r info i r' ents' ok,
  filter_conf_changes r ents info i = (r', ents', ok) ->
  (ok = false <-> exists k e, nth_error ents k = Some e /\ is_conf_entry e = true /\ nth k info 0 = 1).
Proof.
  induction ents as [|e rest IH]; intros r info i r' ents' ok H.
  - rewrite filter_nil in H. inversion H; subst. split; [discriminate|].
    intros (k & e & Hk & _). destruct k; discriminate.
  - rewrite filter_cons in H.
    assert (Hshift : forall (P : Prop),
       (P <-> exists k e0, nth_error rest k = Some e0 /\ is_conf_entry e0 = true /\ nth k (tl info) 0 = 1) ->
       (is_conf_entry e = true -> hd 0 info <> 1) ->
       (P <-> exists k e0, nth_error (e :: rest) k = Some e0 /\ is_conf_entry e0 = true /\ nth k info 0 = 1)).
    { intros P HP Hhead. rewrite HP. split.
      - intros (k & e0 & A & B & C0). exists (S k), e0. cbn. repeat split; try assumption.
        destruct info; [destruct k; exact C0|exact C0].
      - intros (k & e0 & A & B & C0). destruct k as [|k].
        + cbn in A. inversion A; subst e0. exfalso. apply (Hhead B). destruct info; exact C0.
        + exists k, e0. cbn in A. repeat split; try assumption.
          destruct info; [destruct k; exact C0|exact C0]. }
    destruct (negb (is_conf_entry e)) eqn:Ec.
    { destruct (filter_conf_changes r rest (tl info) (i + 1)) as [[a b] c] eqn:F.
      inversion H; subst. apply Hshift; [eapply IH; eassumption|].
      intros Hc. rewrite Hc in Ec. discriminate. }
    destruct (hd 0 info =? 1) eqn:E1.
    { inversion H; subst. split; [intros _|reflexivity].
      exists 0%nat, e. cbn. apply negb_false_iff in Ec. apply N.eqb_eq in E1.
      repeat split; try assumption. destruct info; exact E1. }
    apply N.eqb_neq in E1.
    destruct (cc_refuse r (hd 0 info)).
    { destruct (filter_conf_changes r rest (tl info) (i + 1)) as [[a b] c] eqn:F.
      inversion H; subst. apply Hshift; [eapply IH; eassumption|]. intros _; exact E1. }
    dfilter H.
    inversion H; subst. apply Hshift; [eapply IH; eassumption|]. intros _; exact E1.
Qed.

(* state of the filter when it examines position k: the result of filtering the first k entries *)
Definition filt_state (r : raft) (ents : list entry) (info : list N) (i : N) (k : nat) : raft :=
  fst (fst (filter_conf_changes r (firstn k ents) info i)).

(* effect of one position on the state *)
Definition filter_head (r : raft) (e : entry) (ci i : N) : raft :=
  if negb (is_conf_entry e) then r
  else if cc_refuse r ci then r
  else r <| r_pending_conf_index := last_index (r_log r) + i + 1 |>.

Lemma filt_state_0 r ents info i : filt_state r ents info i 0 = r.
Proof. unfold filt_state. cbn [firstn]. rewrite filter_nil. reflexivity. Qed.

Lemma filt_state_all r ents info i r' ents' ok :
  filter_conf_changes r ents info i = (r', ents', ok) -> filt_state r ents info i (length ents) = r'.
Proof. intros H. unfold filt_state. rewrite firstn_all, H. reflexivity. Qed.

Lemma filt_state_S_cons r e rest info i k :
  (is_conf_entry e = true -> hd 0 info <> 1) ->
  filt_state r (e :: rest) info i (S k) =
  filt_state (filter_head r e (hd 0 info) i) rest (tl info) (i + 1) k.
Proof.
  intros Hh. unfold filt_state, filter_head. cbn [firstn]. rewrite filter_cons.
  destruct (negb (is_conf_entry e)) eqn:Ec.
  { apply fst_fst_let3. }
  apply negb_false_iff in Ec. specialize (Hh Ec). apply N.eqb_neq in Hh. rewrite Hh.
  destruct (cc_refuse r (hd 0 info)); apply fst_fst_let3.
Qed.

Lemma filter_head_log r e ci i : r_log (filter_head r e ci i) = r_log r.
Proof. unfold filter_head. destruct (negb _); [reflexivity|]. destruct (cc_refuse _ _); reflexivity. Qed.

Lemma nth_S_tl (info : list N) k : nth (S k) info 0 = nth k (tl info) 0.
Proof. destruct info; [destruct k; reflexivity|reflexivity]. Qed.

Lemma nth_0_hd (info : list N) : nth 0 info 0 = hd 0 info.
Proof. destruct info; reflexivity. Qed.

Lemma filter_pointwise ents : forall r info i r' ents',
  filter_conf_changes r ents info i = (r', ents', true) ->
  forall k e, nth_error ents k = Some e ->
    let rk := filt_state r ents info i k in
    let rk1 := filt_state r ents info i (S k) in
    (is_conf_entry e = false -> nth_error ents' k = Some e /\ rk1 = rk) /\
    (is_conf_entry e = true ->
       nth k info 0 <> 1 /\
       ((cc_allowed rk (nth k info 0) /\ nth_error ents' k = Some e /\
         rk1 = rk <| r_pending_conf_index := last_index (r_log r) + i + N.of_nat k + 1 |>) \/
        (~ cc_allowed rk (nth k info 0) /\ nth_error ents' k = Some entry_default /\ rk1 = rk))).
Proof.
  induction ents as [|e0 rest IH]; intros r info i r' ents' H k e Hk.
  { destruct k; discriminate. }
  (* the head is not a decode error, because ok = true *)
  assert (Hhead : is_conf_entry e0 = true -> hd 0 info <> 1).
  { intros Hc. pose proof (filter_ok_false_iff _ _ _ _ _ _ _ H) as [_ B].
    intros E1. assert (true = false); [|discriminate].
    apply B. exists 0%nat, e0. cbn. rewrite nth_0_hd. auto. }
  (* the tail run *)
  assert (Htail : exists rest', ents' = (if negb (is_conf_entry e0) then e0
                                         else if cc_refuse r (hd 0 info) then entry_default else e0)
                                        :: rest' /\
            filter_conf_changes (filter_head r e0 (hd 0 info) i) rest (tl info) (i + 1)
            = (r', rest', true)).
  { rewrite filter_cons in H. unfold filter_head.
    destruct (negb (is_conf_entry e0)) eqn:Ec.
    { dfilter H. inversion H; subst. eexists; split; reflexivity. }
    apply negb_false_iff in Ec. specialize (Hhead Ec). apply N.eqb_neq in Hhead. rewrite Hhead in H.
    destruct (cc_refuse r (hd 0 info)); dfilter H; inversion H; subst; eexists; split; reflexivity. }
  destruct Htail as (rest' & -> & Ht).
  destruct k as [|k].
  - cbn in Hk. inversion Hk; subst e0. cbn zeta.
    rewrite filt_state_0, (filt_state_S_cons _ _ _ _ _ _ Hhead), filt_state_0.
    rewrite nth_0_hd. unfold filter_head. cbn [nth_error].
    split.
    + intros Hc. rewrite Hc. cbn [negb]. split; reflexivity.
    + intros Hc. rewrite Hc. cbn [negb]. split; [exact (Hhead Hc)|].
      destruct (cc_refuse r (hd 0 info)) eqn:Er.
      * right. apply cc_refuse_true in Er. auto.
      * left. apply cc_refuse_false in Er. split; [exact Er|]. split; [reflexivity|].
        replace (last_index (r_log r) + i + N.of_nat 0 + 1) with (last_index (r_log r) + i + 1) by lia.
        reflexivity.
  - cbn [nth_error] in Hk |- *. cbn zeta.
    rewrite !(filt_state_S_cons _ _ _ _ _ _ Hhead), nth_S_tl.
    specialize (IH _ _ _ _ _ Ht k e Hk). cbn zeta in IH.
    rewrite filter_head_log in IH.
    replace (last_index (r_log r) + i + N.of_nat (S k) + 1)
      with (last_index (r_log r) + (i + 1) + N.of_nat k + 1) by lia.
    exact IH.
Qed.

(* ------------------------------------------------------------------ *)
(* corollaries of the filter *)

Definition count_conf (l : list entry) : nat := length (List.filter is_conf_entry l).

Lemma count_conf_cons e l :
  count_conf (e :: l) = ((if is_conf_entry e then 1 else 0) + count_conf l)%nat.
Proof. unfold count_conf. cbn [List.filter]. destruct (is_conf_entry e); reflexivity. Qed.

Lemma entry_default_not_conf : is_conf_entry entry_default = false.
Proof. reflexivity. Qed.

(* the one-step view of a successful run *)
Lemma filter_cons_ok r e rest info i r' ents' :
  filter_conf_changes r (e :: rest) info i = (r', ents', true) ->
  exists rest',
    filter_conf_changes (filter_head r e (hd 0 info) i) rest (tl info) (i + 1) = (r', rest', true) /\
    ents' = (if negb (is_conf_entry e) then e
             else if cc_refuse r (hd 0 info) then entry_default else e) :: rest'.
Proof.
  intros H. rewrite filter_cons in H. unfold filter_head.
  destruct (negb (is_conf_entry e)) eqn:Ec.
  { dfilter H. inversion H; subst. eexists; split; reflexivity. }
  destruct (hd 0 info =? 1). { inversion H. }
  destruct (cc_refuse r (hd 0 info)); dfilter H; inversion H; subst; eexists; split; reflexivity.
Qed.

(* while a change is pending nothing passes and the state is untouched *)
Lemma filter_pending_blocks ents : forall r info i r' ents',
  filter_conf_changes r ents info i = (r', ents', true) ->
  has_pending_conf r = true -> count_conf ents' = 0%nat /\ r' = r.
Proof.
  induction ents as [|e rest IH]; intros r info i r' ents' H Hp.
  { rewrite filter_nil in H. inversion H; subst. split; reflexivity. }
  apply filter_cons_ok in H. destruct H as (rest' & Ht & ->).
  assert (Hr : cc_refuse r (hd 0 info) = true) by (unfold cc_refuse; rewrite Hp; reflexivity).
  unfold filter_head in Ht. rewrite Hr in *.
  assert (Ht' : filter_conf_changes r rest (tl info) (i + 1) = (r', rest', true))
    by (destruct (negb (is_conf_entry e)); exact Ht).
  destruct (IH _ _ _ _ _ Ht' Hp) as [A B]. split; [|exact B].
  rewrite count_conf_cons, A.
  destruct (is_conf_entry e) eqn:Ec; cbn [negb]; [rewrite entry_default_not_conf|rewrite Ec]; reflexivity.
Qed.

(* C09: in one proposal at most one membership-change entry survives *)
Theorem one_conf_per_proposal ents : forall r info i r' ents',
  filter_conf_changes r ents info i = (r', ents', true) ->
  applied (r_log r) <= last_index (r_log r) ->
  (count_conf ents' <= 1)%nat.
Proof.
  induction ents as [|e rest IH]; intros r info i r' ents' H Hal.
  { rewrite filter_nil in H. inversion H; subst. cbn. lia. }
  apply filter_cons_ok in H. destruct H as (rest' & Ht & ->).
  rewrite count_conf_cons. unfold filter_head in Ht.
  destruct (is_conf_entry e) eqn:Ec; cbn [negb] in *.
  - destruct (cc_refuse r (hd 0 info)).
    + rewrite entry_default_not_conf. cbn. eapply IH; eassumption.
    + rewrite Ec. apply filter_pending_blocks in Ht.
      * destruct Ht as [A _]. rewrite A. lia.
      * unfold has_pending_conf. cbn. lia.
  - rewrite Ec. cbn. eapply IH; eassumption.
Qed.

(* pending_conf_index is either untouched, or nothing was pending and it now
   points into the proposal *)
Lemma filter_pending_cases ents : forall r info i r' ents' ok,
  filter_conf_changes r ents info i = (r', ents', ok) ->
  r_pending_conf_index r' = r_pending_conf_index r \/
  (has_pending_conf r = false /\ last_index (r_log r) + i + 1 <= r_pending_conf_index r').
Proof.
  induction ents as [|e rest IH]; intros r info i r' ents' ok H.
  { rewrite filter_nil in H. inversion H; subst. left; reflexivity. }
  rewrite filter_cons in H.
  destruct (negb (is_conf_entry e)).
  { dfilter H. inversion H; subst. apply IH in F. destruct F as [F|[F1 F2]]; [left; exact F|right].
    split; [exact F1|lia]. }
  destruct (hd 0 info =? 1). { inversion H; subst. left; reflexivity. }
  destruct (cc_refuse r (hd 0 info)) eqn:Er.
  { dfilter H. inversion H; subst. apply IH in F. destruct F as [F|[F1 F2]]; [left; exact F|right].
    split; [exact F1|lia]. }
  apply cc_refuse_false in Er. destruct Er as [Hp _].
  dfilter H. inversion H; subst. apply IH in F. right. split; [exact Hp|].
  cbn in F. destruct F as [F|[_ F2]]; lia.
Qed.

(* every surviving membership-change entry sits at or below the new pending_conf_index
   (position k of the proposal will get index last_index + i + k + 1) *)
Lemma filter_conf_bound ents : forall r info i r' ents',
  filter_conf_changes r ents info i = (r', ents', true) ->
  forall k e, nth_error ents' k = Some e -> is_conf_entry e = true ->
    last_index (r_log r) + i + N.of_nat k + 1 <= r_pending_conf_index r'.
Proof.
  induction ents as [|e0 rest IH]; intros r info i r' ents' H k e Hk Hc.
  { rewrite filter_nil in H. inversion H; subst. destruct k; discriminate. }
  apply filter_cons_ok in H. destruct H as (rest' & Ht & ->).
  destruct k as [|k].
  - cbn in Hk. inversion Hk as [Hk']. clear Hk.
    unfold filter_head in Ht.
    destruct (negb (is_conf_entry e0)) eqn:Ec.
    { subst e. rewrite Hc in Ec. discriminate. }
    destruct (cc_refuse r (hd 0 info)).
    { subst e. discriminate. }
    apply filter_pending_cases in Ht. cbn in Ht. destruct Ht as [F|[_ F]]; lia.
  - cbn [nth_error] in Hk. specialize (IH _ _ _ _ _ Ht k e Hk Hc).
    rewrite filter_head_log in IH. lia.
Qed.

(* what a surviving entry is: the original, of a membership-change type, and conversely
   every membership-change entry of the output is an original one *)
Lemma filter_kept_type ents : forall r info i r' ents' ok,
  filter_conf_changes r ents info i = (r', ents', ok) ->
  forall k e', nth_error ents' k = Some e' ->
    e' = entry_default \/ nth_error ents k = Some e'.
Proof.
  induction ents as [|e rest IH]; intros r info i r' ents' ok H k e' Hk.
  { rewrite filter_nil in H. inversion H; subst. destruct k; discriminate. }
  rewrite filter_cons in H.
  destruct (negb (is_conf_entry e)).
  { dfilter H. inversion H; subst. destruct k; cbn in *; [right; exact Hk|eapply IH; eassumption]. }
  destruct (hd 0 info =? 1). { inversion H; subst. right; exact Hk. }
  destruct (cc_refuse r (hd 0 info)).
  { dfilter H. inversion H; subst. destruct k; cbn in *; [left; congruence|eapply IH; eassumption]. }
  dfilter H. inversion H; subst. destruct k; cbn in *; [right; exact Hk|eapply IH; eassumption].
Qed.

(* ------------------------------------------------------------------ *)
(* frame: what the message-sending / progress-updating helpers leave alone *)

(* the entries of the log (stable and unstable) and the applied index *)
Definition same_ents (l l' : raft_log) : Prop :=
  unst l' = unst l /\ store l' = store l /\ applied l' = applied l.

Definition fr (r r' : raft) : Prop :=
  r_state r' = r_state r /\
  r_pending_conf_index r' = r_pending_conf_index r /\
  same_ents (r_log r) (r_log r') /\
  conf_of r' = conf_of r /\
  r_id r' = r_id r /\
  r_promotable r' = r_promotable r /\
  r_term r' = r_term r.

Lemma same_ents_refl l : same_ents l l.
Proof. repeat split. Qed.

Lemma same_ents_trans a b c : same_ents a b -> same_ents b c -> same_ents a c.
Proof. unfold same_ents. intuition congruence. Qed.

Lemma fr_refl r : fr r r.
Proof. repeat split. Qed.

Lemma fr_trans a b c : fr a b -> fr b c -> fr a c.
Proof. unfold fr, same_ents. intuition congruence. Qed.

Ltac fr_solve := unfold fr, same_ents; cbn; repeat split; try reflexivity; try congruence.

Lemma last_index_same_ents l l' : same_ents l l' -> last_index l' = last_index l.
Proof. intros (A & B & _). unfold last_index. rewrite A, B. reflexivity. Qed.

Lemma last_index_eq l l' : unst l' = unst l -> store l' = store l -> last_index l' = last_index l.
Proof. intros A B. unfold last_index. rewrite A, B. reflexivity. Qed.

Lemma fr_last_index r r' : fr r r' -> last_index (r_log r') = last_index (r_log r).
Proof. intros (_ & _ & H & _). apply last_index_same_ents; exact H. Qed.

Lemma fr_applied r r' : fr r r' -> applied (r_log r') = applied (r_log r).
Proof. intros (_ & _ & (_ & _ & H) & _). exact H. Qed.

Lemma fr_is_leader r r' : fr r r' -> is_leader r' = is_leader r.
Proof. intros (H & _). unfold is_leader. rewrite H. reflexivity. Qed.

Lemma fr_has_pending r r' : fr r r' -> has_pending_conf r' = has_pending_conf r.
Proof.
  intros H. unfold has_pending_conf. rewrite (fr_applied _ _ H).
  destruct H as (_ & -> & _). reflexivity.
Qed.

Lemma send_fr r m r' : send r m = Ok r' -> fr r r'.
Proof. unfold send. intros H. inv_bind H. inversion H; subst. fr_solve. Qed.

Lemma put_pr_fr r id p : fr r (put_pr r id p).
Proof. fr_solve. Qed.

Lemma set_msgs_fr r ms : fr r (r <| r_msgs := ms |>).
Proof. fr_solve. Qed.

Lemma maybe_send_append_fr r to pr ae r' pr' b :
  maybe_send_append r to pr ae = Ok (r', pr', b) -> fr r r'.
Proof.
  unfold maybe_send_append. intros H.
  destruct (is_paused pr). { inversion H; subst. apply fr_refl. }
  (* the snapshot branch, used twice *)
  assert (Hsnap : forall m,
    (x <- prepare_send_snapshot r m pr to ;;
     match x with
     | None => Ok (r, pr, false)
     | Some (m', pr'0) => r'0 <- send r m' ;; Ok (r'0, pr'0, true)
     end) = Ok (r', pr', b) -> fr r r').
  { intros m Hs. inv_bind Hs. destruct x as [[m' p']|].
    - inv_bind Hs. inversion Hs; subst. eapply send_fr; eassumption.
    - inversion Hs; subst. apply fr_refl. }
  destruct (negb (pending_request_snapshot pr =? INVALID_INDEX)). { eapply Hsnap; exact H. }
  inv_bind H.
  match type of H with (if ?c then _ else _) = _ => destruct c end.
  { inversion H; subst. apply fr_refl. }
  destruct (next_idx pr =? 0); [discriminate|].
  inv_bind H.
  destruct x0 as [t|e1]; destruct x as [ents|e2].
  - inv_bind H. destruct x as [[msgs' pr1] batched].
    destruct batched. { inversion H; subst. apply set_msgs_fr. }
    inv_bind H. destruct x as [m' pr2]. inv_bind H. inversion H; subst.
    eapply send_fr; eassumption.
  - destruct e2; try (eapply Hsnap; exact H). inversion H; subst. apply fr_refl.
  - eapply Hsnap; exact H.
  - destruct e2; try (eapply Hsnap; exact H). inversion H; subst. apply fr_refl.
Qed.

Lemma send_append_to_fr r to r' : send_append_to r to = Ok r' -> fr r r'.
Proof.
  unfold send_append_to. intros H. destruct (get_pr r to); [|discriminate].
  inv_bind H. destruct x as [[r1 pr1] b]. inversion H; subst.
  eapply fr_trans; [eapply maybe_send_append_fr; eassumption|apply put_pr_fr].
Qed.

Lemma send_append_aggressively_loop_fr fuel : forall r to pr r' pr',
  send_append_aggressively_loop fuel r to pr = Ok (r', pr') -> fr r r'.
Proof.
  induction fuel as [|f IH]; intros r to pr r' pr' H; [discriminate|].
  cbn [send_append_aggressively_loop] in H. inv_bind H. destruct x as [[r1 pr1] b].
  apply maybe_send_append_fr in Hx.
  destruct b.
  - eapply fr_trans; [exact Hx|eapply IH; eassumption].
  - inversion H; subst. exact Hx.
Qed.

Lemma send_append_aggressively_fr r to r' : send_append_aggressively r to = Ok r' -> fr r r'.
Proof.
  unfold send_append_aggressively. intros H. destruct (get_pr r to); [|discriminate].
  inv_bind H. destruct x as [r1 pr1]. inversion H; subst.
  eapply fr_trans; [eapply send_append_aggressively_loop_fr; eassumption|apply put_pr_fr].
Qed.

Lemma send_heartbeat_fr r to pr ctx r' : send_heartbeat r to pr ctx = Ok r' -> fr r r'.
Proof. unfold send_heartbeat. apply send_fr. Qed.

Lemma for_each_peer_fr (f : raft -> N -> Res raft) :
  (forall r id r', f r id = Ok r' -> fr r r') ->
  forall ids self r r', for_each_peer ids self f r = Ok r' -> fr r r'.
Proof.
  intros Hf. induction ids as [|id rest IH]; intros self r r' H.
  { inversion H; subst. apply fr_refl. }
  cbn [for_each_peer] in H. destruct (id =? self). { eapply IH; eassumption. }
  inv_bind H. eapply fr_trans; [eapply Hf; eassumption|eapply IH; eassumption].
Qed.

Lemma bcast_append_fr r r' : bcast_append r = Ok r' -> fr r r'.
Proof. unfold bcast_append. apply for_each_peer_fr. apply send_append_to_fr. Qed.

Lemma bcast_heartbeat_with_ctx_fr r ctx r' : bcast_heartbeat_with_ctx r ctx = Ok r' -> fr r r'.
Proof.
  unfold bcast_heartbeat_with_ctx. apply for_each_peer_fr.
  intros r0 id r0' H. destruct (get_pr r0 id); [|discriminate]. eapply send_heartbeat_fr; eassumption.
Qed.

Lemma bcast_heartbeat_fr r r' : bcast_heartbeat r = Ok r' -> fr r r'.
Proof. unfold bcast_heartbeat. apply bcast_heartbeat_with_ctx_fr. Qed.

Lemma log_commit_to_same_ents l tc l' : RaftLog.commit_to l tc = Ok l' -> same_ents l l'.
Proof.
  unfold RaftLog.commit_to. intros H. destruct (tc <=? committed l). { inversion H; apply same_ents_refl. }
  destruct (last_index l <? tc); [discriminate|]. inversion H; subst. repeat split.
Qed.

Lemma log_maybe_commit_same_ents l mi t l' b :
  RaftLog.maybe_commit l mi t = Ok (l', b) -> same_ents l l'.
Proof.
  unfold RaftLog.maybe_commit. intros H.
  destruct (committed l <? mi); [|inversion H; apply same_ents_refl].
  inv_bind H. destruct (term_ok_eq x t); [|inversion H; apply same_ents_refl].
  inv_bind H. inversion H; subst. eapply log_commit_to_same_ents; eassumption.
Qed.

Lemma set_log_fr r l' : same_ents (r_log r) l' -> fr r (r <| r_log := l' |>).
Proof. intros H. unfold fr. cbn. repeat split; try reflexivity; apply H. Qed.

Lemma maybe_commit_fr r r' b : maybe_commit r = Ok (r', b) -> fr r r'.
Proof.
  unfold maybe_commit. intros H. inv_bind H. destruct x as [l' b'].
  apply log_maybe_commit_same_ents in Hx.
  destruct b'.
  - destruct (get_pr r (r_id r)); inversion H; subst.
    + eapply fr_trans; [apply set_log_fr; exact Hx|apply put_pr_fr].
    + apply set_log_fr; exact Hx.
  - inversion H; subst. apply set_log_fr; exact Hx.
Qed.

Lemma handle_ready_read_index_fr r req idx r' om :
  handle_ready_read_index r req idx = Ok (r', om) -> fr r r'.
Proof.
  unfold handle_ready_read_index. intros H.
  match type of H with (if ?c then _ else _) = _ => destruct c end.
  - inv_bind H. inversion H; subst. fr_solve.
  - inversion H; subst. apply fr_refl.
Qed.

Lemma respond_reads_fr rss : forall r r', respond_reads r rss = Ok r' -> fr r r'.
Proof.
  induction rss as [|rs rest IH]; intros r r' H.
  { inversion H; subst. apply fr_refl. }
  cbn [respond_reads] in H. inv_bind H. destruct x as [r1 om].
  apply handle_ready_read_index_fr in Hx. inv_bind H.
  eapply fr_trans; [exact Hx|]. eapply fr_trans; [|eapply IH; eassumption].
  destruct om; [eapply send_fr; eassumption|inversion Hx0; subst; apply fr_refl].
Qed.

Lemma send_timeout_now_fr r to r' : send_timeout_now r to = Ok r' -> fr r r'.
Proof. unfold send_timeout_now. apply send_fr. Qed.

(* ------------------------------------------------------------------ *)
(* 5/6. post_conf_change, apply_conf_change, restore: promotable = voter, and the new
   configuration is the ConfChange model's result *)

Lemma post_conf_change_spec r r' cs :
  post_conf_change r = Ok (r', cs) ->
  cs = to_conf_state (conf_of r) /\
  fr (r <| r_promotable := voters_contains (conf_of r) (r_id r) |>) r'.
Proof.
  unfold post_conf_change. intros H.
  set (r0 := r <| r_promotable := voters_contains (conf_of r) (r_id r) |>) in *.
  match type of H with (if ?c then _ else _) = _ => destruct c end.
  { inversion H; subst. split; [reflexivity|apply fr_refl]. }
  match type of H with (if ?c then _ else _) = _ => destruct c end.
  { inversion H; subst. split; [reflexivity|apply fr_refl]. }
  inv_bind H. destruct x as [r1 b]. apply maybe_commit_fr in Hx.
  inv_bind H. inv_bind H. inversion H; subst. split; [reflexivity|].
  eapply fr_trans; [exact Hx|].
  assert (H12 : fr r1 x).
  { destruct b; [eapply bcast_append_fr; eassumption|].
    revert Hx0. apply for_each_peer_fr. intros ra id ra' Hf.
    destruct (get_pr ra id); [|discriminate]. inv_bind Hf. destruct x1 as [[rb pb] bb].
    inversion Hf; subst. eapply fr_trans; [eapply maybe_send_append_fr; eassumption|apply put_pr_fr]. }
  eapply fr_trans; [exact H12|].
  assert (H23 : fr x x0).
  { destruct (ro_last_pending_request_ctx (r_read_only x)); [|inversion Hx1; subst; apply fr_refl].
    destruct (ro_recv_ack (r_read_only x) (r_id x) l) as [ro' acks].
    destruct acks as [a|]; [|inversion Hx1; subst; fr_solve].
    match type of Hx1 with (if ?c then _ else _) = _ => destruct c end;
      [|inversion Hx1; subst; fr_solve].
    inv_bind Hx1. destruct x1 as [ro2 rss]. apply respond_reads_fr in Hx1.
    eapply fr_trans; [|exact Hx1]. fr_solve. }
  eapply fr_trans; [exact H23|].
  destruct (r_lead_transferee x0); [|apply fr_refl].
  destruct (negb (voters_contains (conf_of x0) n)); [fr_solve|apply fr_refl].
Qed.

(* C09: after post_conf_change a node is promotable iff it is a voter of its configuration *)
Theorem promotable_iff_voter r r' cs :
  post_conf_change r = Ok (r', cs) ->
  r_promotable r' = voters_contains (conf_of r') (r_id r') /\
  conf_of r' = conf_of r /\ r_id r' = r_id r /\ cs = to_conf_state (conf_of r).
Proof.
  intros H. apply post_conf_change_spec in H. destruct H as (Hcs & Hf).
  destruct Hf as (_ & _ & _ & Hc & Hi & Hp & _). cbn in Hc, Hi, Hp.
  rewrite Hp, Hc, Hi. change (conf_of (r <| r_promotable := _ |>)) with (conf_of r) in *.
  repeat split; assumption || reflexivity.
Qed.

(* the changer result computed by Raft::apply_conf_change *)
Definition changer_result (r : raft) (cc : ccv2) : R (conf * changes) :=
  let base := pids (t_progress (r_prs r)) in
  if v2_leave_joint cc then ConfChange.leave_joint (conf_of r) base
  else match v2_enter_joint cc with
       | Some al => ConfChange.enter_joint al (conf_of r) base (v2_changes cc)
       | None => ConfChange.simple (conf_of r) base (v2_changes cc)
       end.

Lemma changer_result_model r cc :
  ConfChange.apply_conf_change (conf_of r, pids (t_progress (r_prs r))) cc =
  ConfChange.commit (conf_of r, pids (t_progress (r_prs r))) (changer_result r cc).
Proof.
  unfold ConfChange.apply_conf_change, changer_result, do_leave_joint, do_enter_joint, do_simple.
  cbn [fst snd]. destruct (v2_leave_joint cc); [reflexivity|].
  destruct (v2_enter_joint cc); reflexivity.
Qed.

Lemma pids_pput m id p : pids (pput m id p) = IdSet.insert id (pids m).
Proof.
  induction m as [|[k q] t IH]; [reflexivity|]. cbn [pput pids map fst IdSet.insert] in *.
  destruct (id <? k); [reflexivity|].
  destruct (N.eqb_spec id k) as [->|]; [reflexivity|]. cbn [map fst]. f_equal. exact IH.
Qed.

Lemma pids_pdel m id : pids (pdel m id) = IdSet.remove id (pids m).
Proof.
  induction m as [|[k q] t IH]; [reflexivity|]. cbn [pdel pids map fst IdSet.remove] in *.
  rewrite (N.eqb_sym id k). destruct (k =? id); [exact IH|]. cbn [map fst]. f_equal. exact IH.
Qed.

(* ProgressTracker::apply_conf on the progress map agrees with the key-set model *)
Lemma pids_apply_changes chs : forall m ni mi,
  pids (Raft.apply_changes m chs ni mi) = ConfChange.apply_conf (pids m) chs.
Proof.
  unfold ConfChange.apply_conf.
  induction chs as [|[id ty] rest IH]; intros m ni mi; [reflexivity|].
  cbn [Raft.apply_changes fold_left]. destruct ty; rewrite IH; unfold apply_change; cbn [fst snd].
  - rewrite pids_pput. reflexivity.
  - rewrite pids_pdel. reflexivity.
Qed.

(* C09: an erroneous change leaves the node untouched; a successful one installs exactly
   the ConfChange model's configuration (a function of the previous configuration, the
   tracked ids and the change), reports it, and recomputes promotable *)
Theorem raft_apply_conf_change_spec r cc r' ocs :
  raft_apply_conf_change r cc = Ok (r', ocs) ->
  match ConfChange.apply_conf_change (conf_of r, pids (t_progress (r_prs r))) cc with
  | RErr _ => r' = r /\ ocs = None
  | ROk (c', ids') =>
      conf_of r' = c' /\ ocs = Some (to_conf_state c') /\
      r_id r' = r_id r /\ r_promotable r' = voters_contains c' (r_id r) /\
      exists chs, changer_result r cc = ROk (c', chs) /\
        ids' = pids (Raft.apply_changes (t_progress (r_prs r)) chs (last_index (r_log r))
                                        (t_max_inflight (r_prs r)))
  end.
Proof.
  intros H. rewrite changer_result_model. unfold raft_apply_conf_change in H.
  fold (changer_result r cc) in H.
  destruct (changer_result r cc) as [[c' chs]|e]; cbn [ConfChange.commit snd].
  - inv_bind H. destruct x as [r1 cs1]. inversion H; subst.
    apply promotable_iff_voter in Hx. destruct Hx as (Hp & Hc & Hi & Hcs).
    cbn [fst snd]. change (conf_of (set_conf_prs r c' _)) with c' in *.
    change (r_id (set_conf_prs r c' _)) with (r_id r) in *.
    rewrite Hp, Hc, Hi, Hcs. repeat split; try reflexivity.
    exists chs. split; [reflexivity|]. symmetry. apply pids_apply_changes.
  - inversion H; subst. split; reflexivity.
Qed.

Theorem apply_conf_change_err_untouched r cc r' :
  raft_apply_conf_change r cc = Ok (r', None) -> r' = r.
Proof.
  intros H. apply raft_apply_conf_change_spec in H.
  destruct (ConfChange.apply_conf_change _ cc) as [[c' ids']|e].
  - destruct H as (_ & H & _). discriminate.
  - apply H.
Qed.

Theorem apply_conf_change_conf r cc r' cs :
  raft_apply_conf_change r cc = Ok (r', Some cs) ->
  exists ids',
    ConfChange.apply_conf_change (conf_of r, pids (t_progress (r_prs r))) cc = ROk (conf_of r', ids') /\
    cs = to_conf_state (conf_of r') /\
    r_promotable r' = voters_contains (conf_of r') (r_id r') /\ r_id r' = r_id r.
Proof.
  intros H. apply raft_apply_conf_change_spec in H.
  destruct (ConfChange.apply_conf_change _ cc) as [[c' ids']|e].
  - destruct H as (Hc & Hcs & Hi & Hp & _). exists ids'. subst c'. inversion Hcs; subst.
    rewrite Hi. repeat split; try reflexivity. exact Hp.
  - destruct H as [_ H]. discriminate.
Qed.

(* ------------------------------------------------------------------ *)
(* reset / become_* : effect on the fields C09 talks about *)

Lemma reset_fields r t r' :
  reset r t = Ok r' ->
  r_state r' = r_state r /\ r_pending_conf_index r' = 0 /\ r_log r' = r_log r /\
  conf_of r' = conf_of r /\ r_id r' = r_id r /\ r_promotable r' = r_promotable r /\
  r_term r' = t /\ r_msgs r' = r_msgs r /\ r_pre_vote r' = r_pre_vote r.
Proof.
  unfold reset. intros H.
  destruct (N.eqb_spec (r_term r) t) as [Et|Et]; cbn [negb] in H;
  match type of H with match ?d with _ => _ end = _ => destruct d end;
    try discriminate; inversion H; subst; cbn; repeat split; reflexivity.
Qed.

Lemma become_follower_fields r t l r' :
  become_follower r t l = Ok r' ->
  r_state r' = Follower /\ r_pending_conf_index r' = 0 /\ r_log r' = set_limit (r_log r) 0 /\
  conf_of r' = conf_of r /\ r_id r' = r_id r /\ r_promotable r' = r_promotable r /\
  r_term r' = t /\ r_msgs r' = r_msgs r /\ r_leader_id r' = l.
Proof.
  unfold become_follower. intros H. inv_bind H. inversion H; subst. cbn.
  apply reset_fields in Hx. destruct Hx as (A & B & C0 & D & E & F & G & I & _).
  rewrite C0. repeat split; assumption.
Qed.

Lemma same_ents_set_limit l k : same_ents l (set_limit l k).
Proof. repeat split. Qed.

(* ------------------------------------------------------------------ *)
(* restore *)

Theorem restore_true_spec r s r' :
  restore r s = Ok (r', true) ->
  exists ids,
    ConfChange.restore empty_tracker (s_cs s) = ROk (conf_of r', ids) /\
    conf_state_eq (s_cs s) (to_conf_state (conf_of r')) = true /\
    r_promotable r' = voters_contains (conf_of r') (r_id r') /\ r_id r' = r_id r /\
    r_state r' = Follower /\ r_state r = Follower.
Proof.
  unfold restore. intros H.
  destruct (s_index s <? committed (r_log r)); [inversion H|].
  destruct (role_eqb (r_state r) Follower) eqn:Ef; cbn [negb] in H;
    [|inv_bind H; inversion H].
  match type of H with (if ?c then _ else _) = _ => destruct c end; [inversion H|].
  inv_bind H.
  match type of H with (if ?c then _ else _) = _ => destruct c end; [inv_bind H; inversion H|].
  inv_bind H.
  destruct (ConfChange.restore empty_tracker (s_cs s)) as [[c' ids']|e]; [|discriminate].
  inv_bind H. destruct x1 as [r1 new_cs].
  destruct (conf_state_eq (s_cs s) new_cs) eqn:Eq; cbn [negb] in H; [|discriminate].
  destruct (get_pr r1 (r_id r1)); [|discriminate].
  destruct (next_idx p =? 0); [discriminate|]. inversion H; subst. clear H.
  pose proof (post_conf_change_spec _ _ _ Hx1) as [_ Hfr].
  apply promotable_iff_voter in Hx1. destruct Hx1 as (Hp & Hc & Hi & Hcs).
  change (conf_of (set_conf_prs _ c' _)) with c' in *.
  change (r_id (set_conf_prs _ c' _)) with (r_id r) in *.
  exists ids'. cbn. fold (conf_of r1).
  rewrite Hc. split; [reflexivity|]. split; [rewrite <- Hcs; exact Eq|].
  split; [rewrite Hp, Hc, Hi; reflexivity|]. split; [exact Hi|].
  destruct Hfr as (Hs & _). cbn in Hs.
  destruct (r_state r); try discriminate. split; [exact Hs|reflexivity].
Qed.

(* a refused snapshot leaves configuration and promotable alone *)
Theorem restore_false_conf r s r' :
  restore r s = Ok (r', false) ->
  conf_of r' = conf_of r /\ r_promotable r' = r_promotable r /\ r_id r' = r_id r.
Proof.
  unfold restore. intros H.
  destruct (s_index s <? committed (r_log r)); [inversion H; subst; auto|].
  destruct (role_eqb (r_state r) Follower); cbn [negb] in H.
  2:{ inv_bind H. inversion H; subst. apply become_follower_fields in Hx. intuition. }
  match type of H with (if ?c then _ else _) = _ => destruct c end; [inversion H; subst; auto|].
  inv_bind H.
  match type of H with (if ?c then _ else _) = _ => destruct c end.
  { inv_bind H. inversion H; subst. auto. }
  inv_bind H.
  destruct (ConfChange.restore empty_tracker (s_cs s)) as [[c' ids']|e]; [|discriminate].
  inv_bind H. destruct x1 as [r1 new_cs].
  destruct (negb (conf_state_eq (s_cs s) new_cs)); [discriminate|].
  destruct (get_pr r1 (r_id r1)); [|discriminate].
  destruct (next_idx p =? 0); [discriminate|]. inversion H.
Qed.

(* ------------------------------------------------------------------ *)
(* 5. a node that is not promotable never starts an election on its own *)

Theorem not_promotable_tick_election r :
  r_promotable r = false ->
  tick_election r = Ok (r <| r_election_elapsed := r_election_elapsed r + 1 |>, false).
Proof.
  intros Hp. unfold tick_election. cbn [r_promotable]. 
  change (r_promotable (r <| r_election_elapsed := r_election_elapsed r + 1 |>)) with (r_promotable r).
  rewrite Hp. cbn [negb]. rewrite orb_true_r. reflexivity.
Qed.

Theorem not_promotable_tick r :
  r_promotable r = false -> r_state r <> Leader ->
  tick r = Ok (r <| r_election_elapsed := r_election_elapsed r + 1 |>, false).
Proof.
  intros Hp Hs. unfold tick. destruct (r_state r); try congruence;
    apply not_promotable_tick_election; exact Hp.
Qed.

Theorem not_promotable_timeout_now_follower r m :
  r_promotable r = false -> m_type m = MsgTimeoutNow -> step_follower r m = Ok (r, E_OK).
Proof.
  intros Hp Ht. unfold step_follower. rewrite Ht, Hp. reflexivity.
Qed.

(* the same through Raft::step, in every role and for every message term: the only
   possible effect is the generic step-down to a higher term *)
Theorem not_promotable_timeout_now_step r m r' c :
  r_promotable r = false -> m_type m = MsgTimeoutNow ->
  step r m = Ok (r', c) ->
  c = E_OK /\
  (r' = r \/ (r_term r < m_term m /\ become_follower r (m_term m) INVALID_ID = Ok r')).
Proof.
  intros Hp Ht H. unfold step in H. rewrite Ht in H.
  change (MsgTimeoutNow =? MsgRequestVote) with false in H.
  change (MsgTimeoutNow =? MsgRequestPreVote) with false in H.
  change (MsgTimeoutNow =? MsgRequestPreVoteResponse) with false in H.
  change (MsgTimeoutNow =? MsgAppend) with false in H.
  change (MsgTimeoutNow =? MsgHeartbeat) with false in H.
  change (MsgTimeoutNow =? MsgSnapshot) with false in H.
  change (MsgTimeoutNow =? MsgHup) with false in H.
  cbn [orb andb negb] in H. rewrite !andb_false_r in H.
  (* what the dispatch does with a TimeoutNow on a non-promotable node *)
  assert (Hd : forall r1, r_promotable r1 = false ->
            match r_state r1 with
            | PreCandidate | Candidate => step_candidate r1 m
            | Follower => step_follower r1 m
            | Leader => step_leader r1 m
            end = Ok (r1, E_OK)).
  { intros r1 Hp1. destruct (r_state r1).
    - apply not_promotable_timeout_now_follower; assumption.
    - unfold step_candidate. rewrite Ht. reflexivity.
    - unfold step_leader. rewrite Ht. reflexivity.
    - unfold step_candidate. rewrite Ht. reflexivity. }
  destruct (m_term m =? 0).
  { cbn [bind] in H. rewrite (Hd r Hp) in H. inversion H; subst. auto. }
  destruct (r_term r <? m_term m) eqn:Elt.
  { inv_bind H. inv_bind Hx. inversion Hx; subst.
    pose proof (become_follower_fields _ _ _ _ Hx0) as (_ & _ & _ & _ & _ & Hp1 & _).
    rewrite Hp in Hp1. rewrite (Hd x0 Hp1) in H. inversion H; subst.
    split; [reflexivity|]. right. split; [lia|exact Hx0]. }
  destruct (m_term m <? r_term r).
  { cbn [bind] in H. inversion H; subst. auto. }
  cbn [bind] in H. rewrite (Hd r Hp) in H. inversion H; subst. auto.
Qed.

(* ------------------------------------------------------------------ *)
(* 3. hup: no campaign while a committed membership change is unapplied *)

(* the lower end of the window hup scans: the pending snapshot's index + 1 if there is one,
   otherwise max(applied + 1, first_index) -- everything below the first index is covered
   by the stabilized snapshot (fix a8252b4); the upper end is committed + 1 *)
Definition hup_low (r : raft) : Res N :=
  match u_maybe_first_index (unst (r_log r)) with
  | Some i => Ok i
  | None => fi <- first_index (r_log r) ;; Ok (N.max (applied (r_log r) + 1) fi)
  end.

(* hup's scan of its window answered b *)
Definition hup_scan (r : raft) (b : bool) : Prop :=
  exists low, hup_low r = Ok low /\
    has_unapplied_conf_changes r low (committed (r_log r) + 1) = Ok b.

Definition hup_campaign (r : raft) (transfer : bool) : Res raft :=
  if transfer then campaign_real true r
  else if r_pre_vote r then campaign_pre r
  else campaign_real false r.

Theorem hup_spec r tl r' :
  hup r tl = Ok r' ->
  (is_leader r = true /\ r' = r) \/
  (is_leader r = false /\ r_promotable r = false /\ r' = r) \/
  (is_leader r = false /\ r_promotable r = true /\ hup_scan r true /\ r' = r) \/
  (is_leader r = false /\ r_promotable r = true /\ hup_scan r false /\ hup_campaign r tl = Ok r').
Proof.
  unfold hup. fold (hup_low r). intros H.
  destruct (is_leader r). { inversion H; auto. }
  destruct (r_promotable r); cbn [negb] in H. 2:{ inversion H; auto. }
  apply bind_ok in H. destruct H as (low & Hlow & H).
  inv_bind H. destruct x.
  - inversion H; subst. right; right; left. split; [reflexivity|]. split; [reflexivity|].
    split; [|reflexivity]. exists low. auto.
  - right; right; right. split; [reflexivity|]. split; [reflexivity|]. split; [|exact H].
    exists low. auto.
Qed.

Theorem hup_blocked r tl : hup_scan r true -> hup r tl = Ok r.
Proof.
  intros (low & Hlow & Hb). unfold hup. fold (hup_low r). destruct (is_leader r); [reflexivity|].
  destruct (negb (r_promotable r)); [reflexivity|].
  rewrite Hlow. cbn [bind]. rewrite Hb. reflexivity.
Qed.

(* fix 8deb47c: a node that is not a voter of its own configuration never campaigns,
   whatever the entry point *)
Theorem hup_nonpromotable r tl : r_promotable r = false -> hup r tl = Ok r.
Proof.
  intros Hp. unfold hup. destruct (is_leader r); [reflexivity|]. rewrite Hp. reflexivity.
Qed.

(* any change made by hup (in particular becoming candidate, pre-candidate or leader, or
   raising the term) implies the node is promotable and the scan found no unapplied
   membership change *)
Theorem hup_guard r tl r' :
  hup r tl = Ok r' -> r' <> r ->
  is_leader r = false /\ r_promotable r = true /\ hup_scan r false /\ hup_campaign r tl = Ok r'.
Proof.
  intros H Hne. apply hup_spec in H.
  destruct H as [[_ E]|[(_ & _ & E)|[(_ & _ & _ & E)|H]]]; try contradiction.
  exact H.
Qed.

(* ... through Raft::step: a local MsgHup on a non-promotable node changes nothing ... *)
Theorem not_promotable_hup_step r m :
  r_promotable r = false -> m_type m = MsgHup -> m_term m = 0 -> step r m = Ok (r, E_OK).
Proof.
  intros Hp Ht H0. unfold step. rewrite H0. change (0 =? 0) with true. cbn [bind].
  rewrite Ht. change (MsgHup =? MsgHup) with true. cbn iota.
  rewrite (hup_nonpromotable _ _ Hp). reflexivity.
Qed.

(* ... and RawNode::campaign on a non-promotable node returns Ok and leaves the node as it is *)
Theorem not_promotable_rn_campaign n :
  r_promotable (rn_raft n) = false -> rn_campaign n = Ok (n, E_OK).
Proof.
  intros Hp. unfold rn_campaign, lift2.
  rewrite (not_promotable_hup_step _ _ Hp); [|reflexivity|reflexivity].
  cbn. destruct n; reflexivity.
Qed.

(* regression guard for a8252b4: without a pending (unstable) snapshot the window starts
   at or above the log's first index, so the scan never reads compacted entries, and at or
   above applied + 1 *)
Theorem hup_low_not_compacted r low :
  u_maybe_first_index (unst (r_log r)) = None -> hup_low r = Ok low ->
  exists fi, first_index (r_log r) = Ok fi /\ fi <= low /\ applied (r_log r) + 1 <= low.
Proof.
  intros Hn H. unfold hup_low in H. rewrite Hn in H. inv_bind H. inversion H; subst.
  exists x. split; [exact Hx|]. lia.
Qed.

Theorem hup_window_not_compacted r tl r' :
  hup r tl = Ok r' -> is_leader r = false -> r_promotable r = true ->
  u_maybe_first_index (unst (r_log r)) = None ->
  exists low fi b,
    hup_low r = Ok low /\ first_index (r_log r) = Ok fi /\ fi <= low /\
    applied (r_log r) + 1 <= low /\
    has_unapplied_conf_changes r low (committed (r_log r) + 1) = Ok b.
Proof.
  intros H Hl Hp Hn. apply hup_spec in H.
  destruct H as [[E _]|[(_ & E & _)|[(_ & _ & (low & A & B) & _)|(_ & _ & (low & A & B) & _)]]];
    [congruence|congruence| |];
    destruct (hup_low_not_compacted _ _ Hn A) as (fi & F1 & F2 & F3);
    exists low, fi; eexists; repeat split; eassumption.
Qed.

(* what scan_conf reads: consecutive non-empty pages from lo up to lo' *)
Inductive scan_chain (l : raft_log) (hi page : N) : N -> list (list entry) -> N -> Prop :=
| sc_nil lo : scan_chain l hi page lo [] lo
| sc_cons lo ents rest lo' :
    lo < hi -> slice l lo hi (Some page) = Ok (SOk ents) -> ents <> [] ->
    existsb is_conf_entry ents = false ->
    scan_chain l hi page (lo + N.of_nat (length ents)) rest lo' ->
    scan_chain l hi page lo (ents :: rest) lo'.

(* Ok false: the pages read cover [lo, hi) and none holds a membership-change entry *)
Theorem scan_conf_false l fuel : forall lo hi page,
  scan_conf l fuel lo hi page = Ok false ->
  exists pages lo', scan_chain l hi page lo pages lo' /\ hi <= lo'.
Proof.
  induction fuel as [|f IH]; intros lo hi page H; [discriminate|].
  cbn [scan_conf] in H. destruct (lo <? hi) eqn:Elt.
  2:{ exists [], lo. split; [constructor|lia]. }
  inv_bind H. destruct x as [ents|e]; [|discriminate].
  destruct ents as [|e0 ents]; [discriminate|].
  destruct (existsb is_conf_entry (e0 :: ents)) eqn:Ex; [discriminate|].
  apply IH in H. destruct H as (pages & lo' & Hc & Hle).
  exists ((e0 :: ents) :: pages), lo'. split; [|exact Hle].
  econstructor; try eassumption; [lia|discriminate].
Qed.

(* Ok true: after some conf-free pages, a page holding a membership-change entry was read *)
Theorem scan_conf_true l fuel : forall lo hi page,
  scan_conf l fuel lo hi page = Ok true ->
  exists pages lo' ents, scan_chain l hi page lo pages lo' /\ lo' < hi /\
    slice l lo' hi (Some page) = Ok (SOk ents) /\ existsb is_conf_entry ents = true.
Proof.
  induction fuel as [|f IH]; intros lo hi page H; [discriminate|].
  cbn [scan_conf] in H. destruct (lo <? hi) eqn:Elt; [|discriminate].
  inv_bind H. destruct x as [ents|e]; [|discriminate].
  destruct ents as [|e0 ents]; [discriminate|].
  destruct (existsb is_conf_entry (e0 :: ents)) eqn:Ex.
  - exists [], lo, (e0 :: ents). split; [constructor|]. split; [lia|]. split; assumption.
  - apply IH in H. destruct H as (pages & lo' & ents' & Hc & Hlt & Hs & He).
    exists ((e0 :: ents) :: pages), lo', ents'. split; [|auto].
    econstructor; try eassumption; [lia|discriminate].
Qed.

(* has_unapplied_conf_changes: nothing unapplied, or the scan *)
Theorem has_unapplied_spec r lo hi b :
  has_unapplied_conf_changes r lo hi = Ok b ->
  (committed (r_log r) <= applied (r_log r) /\ b = false) \/
  (applied (r_log r) < committed (r_log r) /\
   scan_conf (r_log r) (S (N.to_nat (hi - lo))) lo hi (r_max_committed_size_per_ready r) = Ok b).
Proof.
  unfold has_unapplied_conf_changes. intros H.
  destruct (committed (r_log r) <=? applied (r_log r)) eqn:E.
  - inversion H; subst. left. split; [lia|reflexivity].
  - right. split; [lia|exact H].
Qed.

(* ------------------------------------------------------------------ *)
(* 4. a (pre-)candidate that learns of a committed membership change steps down *)

Theorem maybe_commit_by_vote_spec r m r' :
  maybe_commit_by_vote r m = Ok r' ->
  r' = r \/
  exists l' b,
    m_commit m <> 0 /\ m_commit_term m <> 0 /\ committed (r_log r) < m_commit m /\
    is_leader r = false /\
    RaftLog.maybe_commit (r_log r) (m_commit m) (m_commit_term m) = Ok (l', b) /\
    (r' = r <| r_log := l' |> \/
     (b = true /\ (r_state r = Candidate \/ r_state r = PreCandidate) /\
      has_unapplied_conf_changes (r <| r_log := l' |>) (committed (r_log r) + 1) (committed l' + 1)
        = Ok true /\
      become_follower (r <| r_log := l' |>) (r_term r) INVALID_ID = Ok r')).
Proof.
  unfold maybe_commit_by_vote. intros H.
  destruct ((m_commit m =? 0) || (m_commit_term m =? 0)) eqn:E0; [inversion H; auto|].
  destruct ((m_commit m <=? committed (r_log r)) || is_leader r) eqn:E1; [inversion H; auto|].
  apply orb_false_iff in E0. destruct E0 as [E0a E0b].
  apply orb_false_iff in E1. destruct E1 as [E1a E1b].
  inv_bind H. destruct x as [l' b]. right. exists l', b.
  repeat (split; [first [lia|assumption]|]).
  destruct b; cbn [negb] in H; [|inversion H; auto].
  change (r_state (r <| r_log := l' |>)) with (r_state r) in H.
  change (r_term (r <| r_log := l' |>)) with (r_term r) in H.
  change (r_log (r <| r_log := l' |>)) with l' in H.
  destruct (negb (role_eqb (r_state r) Candidate) && negb (role_eqb (r_state r) PreCandidate)) eqn:Ec;
    [inversion H; auto|].
  inv_bind H. destruct x; [|inversion H; auto].
  right. split; [reflexivity|]. split; [|split; assumption].
  destruct (r_state r); cbn in Ec; try discriminate; auto.
Qed.

Theorem candidate_stepdown r m l' r' :
  m_commit m <> 0 -> m_commit_term m <> 0 -> committed (r_log r) < m_commit m ->
  (r_state r = Candidate \/ r_state r = PreCandidate) ->
  RaftLog.maybe_commit (r_log r) (m_commit m) (m_commit_term m) = Ok (l', true) ->
  has_unapplied_conf_changes (r <| r_log := l' |>) (committed (r_log r) + 1) (committed l' + 1)
    = Ok true ->
  maybe_commit_by_vote r m = Ok r' ->
  r_state r' = Follower /\ r_term r' = r_term r /\ r_vote r' = r_vote r /\
  r_leader_id r' = INVALID_ID /\ r_log r' = set_limit l' 0.
Proof.
  intros Hc Hct Hlt Hs Hmc Hun H.
  pose proof (maybe_commit_by_vote_same_tv _ _ _ H) as [Ht Hv].
  unfold maybe_commit_by_vote in H.
  assert (E0 : (m_commit m =? 0) || (m_commit_term m =? 0) = false).
  { apply orb_false_iff. split; apply N.eqb_neq; assumption. }
  rewrite E0 in H.
  assert (E1 : (m_commit m <=? committed (r_log r)) || is_leader r = false).
  { apply orb_false_iff. split; [apply N.leb_gt; exact Hlt|].
    unfold is_leader. destruct Hs as [-> | ->]; reflexivity. }
  rewrite E1, Hmc in H. cbn [bind negb] in H.
  change (r_state (r <| r_log := l' |>)) with (r_state r) in H.
  change (r_term (r <| r_log := l' |>)) with (r_term r) in H.
  change (r_log (r <| r_log := l' |>)) with l' in H.
  assert (Ec : negb (role_eqb (r_state r) Candidate) && negb (role_eqb (r_state r) PreCandidate) = false)
    by (destruct Hs as [-> | ->]; reflexivity).
  rewrite Ec, Hun in H. cbn [bind] in H.
  apply become_follower_fields in H. destruct H as (A & _ & B & _ & _ & _ & _ & _ & L).
  repeat split; assumption.
Qed.

(* ------------------------------------------------------------------ *)
(* 2. pending_conf_index bounds every membership-change entry above applied *)

(* every entry physically held by the log: unstable entries and stored entries *)
Definition all_ents (l : raft_log) (e : entry) : Prop :=
  In e (u_entries (unst l)) \/ In e (entries (store l)).

(* well-formedness used once (at become_leader): no entry lies beyond last_index *)
Definition LogBounded (l : raft_log) : Prop :=
  forall e, all_ents l e -> e_index e <= last_index l.

Definition ConfBoundP (l : raft_log) (p : N) : Prop :=
  forall e, all_ents l e -> is_conf_entry e = true -> applied l < e_index e -> e_index e <= p.

Definition ConfBound (r : raft) : Prop := ConfBoundP (r_log r) (r_pending_conf_index r).

Lemma all_ents_same_ents l l' e : same_ents l l' -> all_ents l' e -> all_ents l e.
Proof. intros (A & B & _). unfold all_ents. rewrite A, B. auto. Qed.

Lemma ConfBoundP_same_ents l l' p : same_ents l l' -> ConfBoundP l p -> ConfBoundP l' p.
Proof.
  intros Hs H e He Hc Ha. apply H; [eapply all_ents_same_ents; eassumption|exact Hc|].
  destruct Hs as (_ & _ & <-). exact Ha.
Qed.

Lemma LogBounded_same_ents l l' : same_ents l l' -> LogBounded l -> LogBounded l'.
Proof.
  intros Hs H e He. rewrite (last_index_same_ents _ _ Hs). apply H.
  eapply all_ents_same_ents; eassumption.
Qed.

Lemma ConfBoundP_mono l p p' : p <= p' -> ConfBoundP l p -> ConfBoundP l p'.
Proof. intros Hle H e He Hc Ha. specialize (H e He Hc Ha). lia. Qed.

(* nothing pending: no membership-change entry above applied at all *)
Lemma ConfBoundP_none l p p' : p <= applied l -> ConfBoundP l p -> ConfBoundP l p'.
Proof. intros Hle H e He Hc Ha. specialize (H e He Hc Ha). lia. Qed.

Lemma ConfBoundP_applied_up l a p :
  applied l <= a -> ConfBoundP l p -> ConfBoundP (set_applied l a) p.
Proof. intros Hle H e He Hc Ha. apply H; [exact He|exact Hc|]. cbn in Ha. lia. Qed.

(* control fields *)
Definition same_ctl (r r' : raft) : Prop :=
  r_state r' = r_state r /\ r_pending_conf_index r' = r_pending_conf_index r /\
  conf_of r' = conf_of r /\ r_id r' = r_id r /\ r_promotable r' = r_promotable r /\
  r_term r' = r_term r.

Lemma fr_intro r r' : same_ctl r r' -> same_ents (r_log r) (r_log r') -> fr r r'.
Proof. unfold same_ctl, fr. intuition. Qed.

Lemma fr_ConfBound r r' : fr r r' -> ConfBound r -> ConfBound r'.
Proof.
  intros (_ & Hp & He & _) H. unfold ConfBound. rewrite Hp.
  eapply ConfBoundP_same_ents; eassumption.
Qed.

(* --- log_append / stamp --- *)

Lemma In_firstn_in {A} (k : nat) (l : list A) e : In e (firstn k l) -> In e l.
Proof. intros H. rewrite <- (firstn_skipn k l). apply in_or_app. left; exact H. Qed.

Lemma u_taa_spec u ents u' :
  u_truncate_and_append u ents = Ok u' -> ents <> [] ->
  (forall e, In e (u_entries u') -> In e (u_entries u) \/ In e ents) /\
  u_maybe_last_index u' = Some (e_index (hd entry_default ents) + N.of_nat (length ents) - 1) /\
  u_snapshot u' = u_snapshot u.
Proof.
  unfold u_truncate_and_append. intros H Hne. destruct ents as [|e0 ents0]; [congruence|].
  cbn [hd]. inv_bind H. inversion H; subst. clear H. cbn [u_entries u_snapshot].
  assert (Hx' : (forall e, In e (u_entries x) -> In e (u_entries u)) /\
                u_offset x + N.of_nat (length (u_entries x)) = e_index e0 /\
                u_snapshot x = u_snapshot u).
  { destruct (e_index e0 =? u_offset u + N.of_nat (length (u_entries u))) eqn:E1.
    { inversion Hx; subst. split; [auto|]. split; [lia|reflexivity]. }
    destruct (e_index e0 <=? u_offset u) eqn:E2.
    { inversion Hx; subst. cbn. split; [intros e []|]. split; [lia|reflexivity]. }
    inv_bind Hx. inversion Hx; subst. cbn.
    unfold u_must_check_outofbounds in Hx0.
    destruct (e_index e0 <? u_offset u); [discriminate|].
    match type of Hx0 with (if ?c then _ else _) = _ => destruct c eqn:E3 end; [discriminate|].
    split; [intros e He; eapply In_firstn_in; exact He|].
    split; [|reflexivity].
    rewrite firstn_length. lia. }
  destruct Hx' as (Hin & Hoff & Hsn).
  split.
  { intros e He. apply in_app_or in He. destruct He as [He|He]; [left; apply Hin; exact He|right; exact He]. }
  split; [|exact Hsn].
  unfold u_maybe_last_index. cbn [u_entries u_offset u_snapshot].
  destruct (u_entries x ++ e0 :: ents0) eqn:Eapp.
  { apply app_eq_nil in Eapp. destruct Eapp; discriminate. }
  rewrite <- Eapp, app_length. cbn [length]. f_equal. lia.
Qed.

Lemma log_append_spec l ents l' x :
  log_append l ents = Ok (l', x) -> ents <> [] ->
  store l' = store l /\ applied l' = applied l /\ committed l' = committed l /\
  (forall e, In e (u_entries (unst l')) -> In e (u_entries (unst l)) \/ In e ents) /\
  last_index l' = e_index (hd entry_default ents) + N.of_nat (length ents) - 1.
Proof.
  unfold log_append. intros H Hne. destruct ents as [|e0 ents0]; [congruence|].
  destruct (e_index e0 =? 0); [discriminate|].
  destruct (e_index e0 - 1 <? committed l); [discriminate|].
  inv_bind H. inversion H; subst. clear H.
  apply u_taa_spec in Hx; [|discriminate]. destruct Hx as (A & B & _).
  cbn [store applied committed unst set_unst]. repeat split; try assumption.
  unfold last_index. cbn [unst set_unst]. rewrite B. reflexivity.
Qed.

Lemma stamp_nth es : forall t n k e',
  nth_error (stamp es t n) k = Some e' ->
  exists e, nth_error es k = Some e /\
    e' = mkEntry (e_type e) t (n + N.of_nat k) (e_data e) (e_context e).
Proof.
  induction es as [|e rest IH]; intros t n k e' H; [destruct k; discriminate|].
  cbn [stamp] in H. destruct k as [|k].
  - cbn in H. inversion H; subst. exists e. split; [reflexivity|]. f_equal. lia.
  - cbn [nth_error] in H. apply IH in H. destruct H as (e1 & A & B). exists e1. split; [exact A|].
    rewrite B. f_equal. lia.
Qed.

Lemma stamp_length es : forall t n, length (stamp es t n) = length es.
Proof. induction es; intros; cbn; [reflexivity|f_equal; auto]. Qed.

Lemma stamp_hd e es t n : e_index (hd entry_default (stamp (e :: es) t n)) = n.
Proof. reflexivity. Qed.

Lemma is_conf_entry_mk ty t i d c : is_conf_entry (mkEntry ty t i d c) = (ty =? 1) || (ty =? 2).
Proof. reflexivity. Qed.

(* appending stamped entries whose membership-change members are covered by p *)
Lemma log_append_stamp_last l es t l' x :
  log_append l (stamp es t (last_index l + 1)) = Ok (l', x) -> es <> [] ->
  last_index l' = last_index l + N.of_nat (length es).
Proof.
  intros H Hne.
  assert (Hne' : stamp es t (last_index l + 1) <> []) by (destruct es; [congruence|discriminate]).
  apply log_append_spec in H; [|exact Hne']. destruct H as (_ & _ & _ & _ & Hli).
  rewrite Hli, stamp_length. destruct es as [|e0 es0]; [congruence|].
  rewrite stamp_hd. cbn [length]. lia.
Qed.

Lemma ConfBoundP_append l es t l' x p :
  log_append l (stamp es t (last_index l + 1)) = Ok (l', x) -> es <> [] ->
  ConfBoundP l p ->
  (forall k e, nth_error es k = Some e -> is_conf_entry e = true ->
     last_index l + N.of_nat k + 1 <= p) ->
  ConfBoundP l' p.
Proof.
  intros H Hne Hcb Hnew.
  assert (Hne' : stamp es t (last_index l + 1) <> []) by (destruct es; [congruence|discriminate]).
  apply log_append_spec in H; [|exact Hne']. destruct H as (Hst & Hap & _ & Hin & Hli).
  intros e He Hc Ha. rewrite Hap in Ha. destruct He as [He|He].
  - apply Hin in He. destruct He as [He|He].
    + apply Hcb; [left; exact He|exact Hc|exact Ha].
    + apply In_nth_error in He. destruct He as (k & Hk). apply stamp_nth in Hk.
      destruct Hk as (e1 & Hk1 & ->). cbn [e_index]. rewrite is_conf_entry_mk in Hc.
      specialize (Hnew k e1 Hk1 Hc). lia.
  - rewrite Hst in He. apply Hcb; [right; exact He|exact Hc|exact Ha].
Qed.

(* --- append_entry --- *)
Opaque log_append last_index stamp.

Lemma maybe_increase_uncommitted_size_fr r es r1 ok :
  maybe_increase_uncommitted_size r es = (r1, ok) ->
  r_log r1 = r_log r /\ same_ctl r r1 /\ r_msgs r1 = r_msgs r.
Proof.
  unfold maybe_increase_uncommitted_size. intros H.
  destruct (r_max_uncommitted_size r =? u64_max). { inversion H; subst. repeat split. }
  match type of H with (if ?c then _ else _) = _ => destruct c end; inversion H; subst; repeat split.
Qed.

Lemma append_entry_spec r es r' ok :
  append_entry r es = Ok (r', ok) ->
  same_ctl r r' /\ r_msgs r' = r_msgs r /\
  (if ok then exists x, log_append (r_log r) (stamp es (r_term r) (last_index (r_log r) + 1)) = Ok x
                        /\ r_log r' = fst x
   else r_log r' = r_log r).
Proof.
  unfold append_entry. intros H.
  destruct (maybe_increase_uncommitted_size r es) as [r1 ok1] eqn:E.
  apply maybe_increase_uncommitted_size_fr in E. destruct E as (El & Ec & Em).
  destruct ok1; cbn [negb] in H.
  - inv_bind H. inversion H; subst. cbn [r_log r_msgs].
    split; [exact Ec|]. split; [exact Em|]. exists x. rewrite El in Hx.
    destruct Ec as (_ & _ & _ & _ & _ & Et). rewrite Et in Hx. split; [exact Hx|reflexivity].
  - inversion H; subst. auto.
Qed.

Lemma same_ctl_trans a b c : same_ctl a b -> same_ctl b c -> same_ctl a c.
Proof. unfold same_ctl. intuition congruence. Qed.

(* --- become_leader --- *)

Lemma get_pr_put_pr_ctl r id p : same_ctl r (put_pr r id p).
Proof. repeat split. Qed.

Theorem become_leader_spec r r' :
  become_leader r = Ok r' ->
  r_state r' = Leader /\
  r_pending_conf_index r' = last_index (r_log r) /\
  last_index (r_log r') = last_index (r_log r) + 1 /\
  r_term r' = r_term r /\ conf_of r' = conf_of r /\ r_id r' = r_id r /\
  r_promotable r' = r_promotable r /\ r_msgs r' = r_msgs r /\
  (forall p, ConfBoundP (r_log r) p -> ConfBoundP (r_log r') p) /\
  applied (r_log r') = applied (r_log r) /\ store (r_log r') = store (r_log r).
Proof.
  unfold become_leader. intros H.
  destruct (role_eqb (r_state r) Follower); [discriminate|].
  inv_bind H. apply reset_fields in Hx.
  destruct Hx as (_ & _ & Hl & Hc & Hi & Hp & Ht & Hm & _).
  cbn in H.
  match type of H with match ?g with _ => _ end = _ => destruct g as [pr|] end; [|discriminate].
  inv_bind H. destruct x0 as [r6 ok]. destruct ok; [|discriminate]. inversion H; subst. clear H.
  apply append_entry_spec in Hx. destruct Hx as (Hctl & Hmsg & (y & Hy & Hlog)).
  cbn in Hctl, Hmsg, Hy. destruct Hctl as (A & B & C0 & D & E & F).
  cbn in A, B, C0, D, E, F.
  destruct y as [l' z]. cbn [fst] in Hlog.
  assert (Hne : [entry_default] <> []) by discriminate.
  assert (Hne' : stamp [entry_default] (r_term x) (last_index (r_log x) + 1) <> []) by discriminate.
  pose proof (log_append_spec _ _ _ _ Hy Hne') as (Hst & Hap & _).
  assert (Hnoconf : forall p k e, nth_error [entry_default] k = Some e -> is_conf_entry e = true ->
                      last_index (r_log x) + N.of_nat k + 1 <= p).
  { intros p k e Hk Hcf. destruct k as [|[|k]]; cbn in Hk; try discriminate.
    inversion Hk; subst. discriminate. }
  assert (Happ : forall p, ConfBoundP (r_log x) p -> ConfBoundP l' p).
  { intros p Hcb. exact (ConfBoundP_append _ _ _ _ _ p Hy Hne Hcb (Hnoconf p)). }
  pose proof (log_append_stamp_last _ _ _ _ _ Hy Hne) as Hli. cbn [length] in Hli.
  fold (conf_of x) in C0. subst l'.
  rewrite A, B, C0, D, E, F, Hmsg, Hc, Hi, Hp, Ht, Hm, Hst, Hap, Hli. rewrite Hl in *.
  repeat split; try reflexivity; try lia. exact Happ.
Qed.

(* C09: a new leader's pending_conf_index covers its whole log (conservatively) *)
Theorem become_leader_ConfBound r r' :
  become_leader r = Ok r' -> LogBounded (r_log r) -> ConfBound r' /\ r_state r' = Leader.
Proof.
  intros H Hb. apply become_leader_spec in H.
  destruct H as (Hs & Hp & _ & _ & _ & _ & _ & _ & Hcb & _).
  split; [|exact Hs]. unfold ConfBound. rewrite Hp. apply Hcb.
  intros e He _ _. apply Hb; exact He.
Qed.

(* the hypothesis of the election theorems below.  Before fix 19c179c become_leader
   asserted last_index = persisted, and the bound was needed only for a fully persisted
   log; now a node may become leader with an unpersisted tail, so the bound on every
   physically held entry is needed unconditionally *)
Definition LBP (l : raft_log) : Prop := LogBounded l.

Lemma LogBounded_LBP l : LogBounded l -> LBP l.
Proof. intros H. exact H. Qed.

Lemma LBP_set_limit l k : LBP l -> LBP (set_limit l k).
Proof.
  intros H. eapply LogBounded_same_ents; [apply same_ents_set_limit|]. exact H.
Qed.

Theorem become_leader_ConfBound' r r' :
  become_leader r = Ok r' -> LBP (r_log r) -> ConfBound r' /\ r_state r' = Leader.
Proof. apply become_leader_ConfBound. Qed.

(* --- the proposal path of step_leader --- *)

Lemma ConfBound_filter r ents info i r1 ents' ok :
  filter_conf_changes r ents info i = (r1, ents', ok) -> ConfBound r -> ConfBound r1.
Proof.
  intros H Hcb. pose proof (filter_pending_cases _ _ _ _ _ _ _ H) as Hc.
  apply filter_frame_fields in H. destruct H as (Hl & _). unfold ConfBound. rewrite Hl.
  destruct Hc as [-> |[Hp _]]; [exact Hcb|].
  eapply ConfBoundP_none; [|exact Hcb]. unfold has_pending_conf in Hp. lia.
Qed.

Theorem step_leader_propose_spec r m r' c :
  m_type m = MsgPropose -> step_leader r m = Ok (r', c) ->
  (* dropped: nothing is appended; pending_conf_index may still have been raised by the filter *)
  (c = E_PROPOSAL_DROPPED /\ r_log r' = r_log r /\ r_state r' = r_state r /\ r_msgs r' = r_msgs r /\
   (r_pending_conf_index r' = r_pending_conf_index r \/
    (has_pending_conf r = false /\ last_index (r_log r) + 1 <= r_pending_conf_index r'))) \/
  (* accepted: the filtered entries are stamped and appended, then broadcast *)
  (c = E_OK /\ exists r1 ents l' z r2,
     filter_conf_changes r (m_entries m) (m_ccinfo m) 0 = (r1, ents, true) /\
     log_append (r_log r) (stamp ents (r_term r) (last_index (r_log r) + 1)) = Ok (l', z) /\
     same_ctl r1 r2 /\ r_log r2 = l' /\ fr r2 r').
Proof.
  intros Ht H. unfold step_leader in H. rewrite Ht in H.
  change (MsgPropose =? MsgBeat) with false in H.
  change (MsgPropose =? MsgCheckQuorum) with false in H.
  change (MsgPropose =? MsgPropose) with true in H. cbn iota in H.
  destruct (m_entries m) as [|e0 es] eqn:Ee; [discriminate|]. rewrite <- Ee in *.
  destruct (get_pr r (r_id r)).
  2:{ inversion H; subst. left. repeat split; auto. }
  destruct (r_lead_transferee r).
  { inversion H; subst. left. repeat split; auto. }
  destruct (filter_conf_changes r (m_entries m) (m_ccinfo m) 0) as [[r1 ents] ok] eqn:F.
  pose proof (filter_frame_fields _ _ _ _ _ _ _ F) as (Hl & _ & Hs & _ & _ & Htm & Hm).
  pose proof (filter_pending_cases _ _ _ _ _ _ _ F) as Hpc.
  assert (Hpc' : r_pending_conf_index r1 = r_pending_conf_index r \/
                 (has_pending_conf r = false /\ last_index (r_log r) + 1 <= r_pending_conf_index r1)).
  { destruct Hpc as [A|[A B]]; [left; exact A|right; split; [exact A|lia]]. }
  destruct ok; cbn [negb] in H.
  2:{ inversion H; subst. left. repeat split; auto. }
  inv_bind H. destruct x as [r2 appended].
  apply append_entry_spec in Hx. destruct Hx as (Hctl & Hmsg & Hlog).
  destruct appended; cbn [negb] in H.
  - inv_bind H. inversion H; subst. right. split; [reflexivity|].
    destruct Hlog as ([l' z] & Hy & Hl2). cbn [fst] in Hl2.
    exists r1, ents, l', z, r2. rewrite Hl, Htm in Hy.
    split; [reflexivity|]. split; [exact Hy|]. split; [exact Hctl|]. split; [exact Hl2|].
    eapply bcast_append_fr; eassumption.
  - inversion H; subst. left. destruct Hctl as (A & B & _).
    rewrite Hlog, Hl, A, Hs, Hmsg, Hm, B. repeat split; auto.
Qed.

(* C09: on an accepted proposal pending_conf_index bounds the membership-change entries
   just appended (propose_sets_pending), and the leader invariant is preserved *)
Theorem step_leader_propose_ConfBound r m r' c :
  m_type m = MsgPropose -> step_leader r m = Ok (r', c) -> ConfBound r -> ConfBound r'.
Proof.
  intros Ht H Hcb. apply step_leader_propose_spec in H; [|exact Ht].
  destruct H as [(_ & Hl & _ & _ & Hp)|(_ & r1 & ents & l' & z & r2 & F & Hy & Hctl & Hl2 & Hfr)].
  - unfold ConfBound. rewrite Hl. destruct Hp as [-> |[Hp _]]; [exact Hcb|].
    eapply ConfBoundP_none; [|exact Hcb]. unfold has_pending_conf in Hp. lia.
  - eapply fr_ConfBound; [exact Hfr|].
    pose proof (ConfBound_filter _ _ _ _ _ _ _ F Hcb) as Hcb1.
    pose proof (filter_frame_fields _ _ _ _ _ _ _ F) as (Hl & _).
    unfold ConfBound in *. destruct Hctl as (_ & -> & _). rewrite Hl2. rewrite Hl in Hcb1.
    destruct ents as [|e0 es].
    { (* nothing to append *)
      Transparent log_append stamp. cbn in Hy. Opaque log_append stamp.
      inversion Hy; subst. exact Hcb1. }
    eapply ConfBoundP_append; [exact Hy|discriminate|exact Hcb1|].
    intros k e Hk Hc. pose proof (filter_conf_bound _ _ _ _ _ _ F k e Hk Hc). lia.
Qed.

(* ------------------------------------------------------------------ *)
(* 7. commit_apply: applying moves [applied]; the auto-leave entry is proposed once *)

Definition auto_leave_cond (r : raft) (old_applied app : N) : bool :=
  auto_leave (conf_of r) && (old_applied <=? r_pending_conf_index r)
  && (r_pending_conf_index r <=? app) && is_leader r.

Definition auto_leave_entry : entry := mkEntry EntryConfChangeV2 0 0 [] [].

(* the log after the applied_to / applied_to_unchecked step *)
Definition apply_step (l : raft_log) (app : N) (skip : bool) : Res raft_log :=
  if negb skip then applied_to l app
  else if app =? 0 then Panic site_commit_apply_assert
  else Ok (applied_to_unchecked l app).

Lemma apply_step_spec l app skip l1 :
  apply_step l app skip = Ok l1 ->
  unst l1 = unst l /\ store l1 = store l /\ committed l1 = committed l /\
  ((skip = false /\ app = 0 /\ l1 = l) \/
   (skip = false /\ app <> 0 /\ applied l <= app <= committed l /\ l1 = set_applied l app) \/
   (skip = true /\ app <> 0 /\ l1 = set_applied l app)).
Proof.
  unfold apply_step, applied_to, applied_to_unchecked. intros H. destruct skip; cbn [negb] in H.
  - destruct (N.eqb_spec app 0); [discriminate|]. inversion H; subst. repeat split; auto.
  - destruct (N.eqb_spec app 0). { inversion H; subst. repeat split; auto. }
    destruct ((committed l <? app) || (app <? applied l)) eqn:E; [discriminate|].
    inversion H; subst. repeat split; auto. right; left. repeat split; auto; lia.
Qed.

Theorem commit_apply_internal_spec r app skip r' :
  commit_apply_internal r app skip = Ok r' ->
  exists l1, apply_step (r_log r) app skip = Ok l1 /\
    if auto_leave_cond r (applied (r_log r)) app then
      exists l2 z,
        log_append l1 (stamp [auto_leave_entry] (r_term r) (last_index (r_log r) + 1)) = Ok (l2, z) /\
        r_log r' = l2 /\
        r_pending_conf_index r' = last_index l2 /\
        last_index l2 = last_index (r_log r) + 1 /\
        r_state r' = r_state r /\ conf_of r' = conf_of r /\ r_id r' = r_id r /\
        r_promotable r' = r_promotable r /\ r_term r' = r_term r /\ r_msgs r' = r_msgs r
    else r' = r <| r_log := l1 |>.
Proof.
  unfold commit_apply_internal. fold (apply_step (r_log r) app skip). intros H.
  inv_bind H. exists x. split; [exact Hx|].
  pose proof (apply_step_spec _ _ _ _ Hx) as (Hu & Hs & _).
  assert (Hli : last_index x = last_index (r_log r)) by (apply last_index_eq; assumption).
  change (conf_of (r <| r_log := x |>)) with (conf_of r) in H.
  change (r_pending_conf_index (r <| r_log := x |>)) with (r_pending_conf_index r) in H.
  change (is_leader (r <| r_log := x |>)) with (is_leader r) in H.
  fold (auto_leave_cond r (applied (r_log r)) app) in H.
  destruct (auto_leave_cond r (applied (r_log r)) app); [|inversion H; reflexivity].
  inv_bind H. destruct x0 as [r1 ok]. destruct ok; cbn [negb] in H; [|discriminate].
  inversion H; subst. clear H.
  apply append_entry_spec in Hx0. destruct Hx0 as (Hctl & Hmsg & ([l2 z] & Hy & Hl2)).
  cbn [fst] in Hl2. change (r_log (r <| r_log := x |>)) with x in Hy.
  change (r_term (r <| r_log := x |>)) with (r_term r) in Hy.
  pose proof (log_append_stamp_last _ _ _ _ _ Hy ltac:(discriminate)) as Hlast.
  cbn [length] in Hlast. rewrite Hli in Hy, Hlast.
  exists l2, z. fold auto_leave_entry in Hy.
  destruct Hctl as (A & B & C0 & D & E & F). cbn in A, B, C0, D, E, F, Hmsg.
  cbn. fold (conf_of r1). rewrite Hl2.
  repeat split; try assumption; try lia.
Qed.

Lemma set_applied_same l : set_applied l (applied l) = l.
Proof. destruct l; reflexivity. Qed.

(* C09: commit_apply preserves the bound; when it proposes the auto-leave entry the new
   pending_conf_index is exactly that entry's index (autoleave_sets_pending) *)
Theorem commit_apply_internal_ConfBound r app skip r' :
  commit_apply_internal r app skip = Ok r' ->
  (skip = false \/ applied (r_log r) <= app) ->
  ConfBound r -> ConfBound r'.
Proof.
  intros H Hsk Hcb. apply commit_apply_internal_spec in H. destruct H as (l1 & Hl1 & H).
  pose proof (apply_step_spec _ _ _ _ Hl1) as (Hu & Hs & _ & Hcase).
  (* the apply step only raises [applied] *)
  assert (Hcb1 : ConfBoundP l1 (r_pending_conf_index r) /\ applied (r_log r) <= applied l1 /\
                 (applied l1 = app \/ (app = 0 /\ applied l1 = applied (r_log r)))).
  { destruct Hcase as [(_ & A & ->)|[(_ & _ & A & ->)|(A & _ & ->)]].
    - split; [exact Hcb|]. split; [lia|right; auto].
    - split; [apply ConfBoundP_applied_up; [lia|exact Hcb]|]. cbn. split; [lia|left; reflexivity].
    - destruct Hsk as [Hsk|Hsk]; [congruence|].
      split; [apply ConfBoundP_applied_up; [lia|exact Hcb]|]. cbn. split; [lia|left; reflexivity]. }
  destruct Hcb1 as (Hcb1 & Hup & Happ).
  destruct (auto_leave_cond r (applied (r_log r)) app) eqn:Ec.
  - destruct H as (l2 & z & Hy & Hl2 & Hp & Hlast & _).
    unfold ConfBound. rewrite Hl2, Hp, Hlast.
    unfold auto_leave_cond in Ec.
    assert (Hle : r_pending_conf_index r <= applied l1) by lia.
    assert (Hli : last_index l1 = last_index (r_log r)) by (apply last_index_eq; assumption).
    rewrite <- Hli in Hy |- *.
    eapply ConfBoundP_append; [exact Hy|discriminate| |].
    + eapply ConfBoundP_none; [exact Hle|exact Hcb1].
    + intros k e Hk _. destruct k as [|[|k]]; cbn in Hk; try discriminate. lia.
  - subst r'. exact Hcb1.
Qed.

Lemma auto_leave_cond_pending r a app : auto_leave_cond r a app = true -> r_pending_conf_index r <= app.
Proof. unfold auto_leave_cond. lia. Qed.

(* C09: the auto-leave entry is appended only by a leader whose configuration has
   auto_leave set and whose pending index was just passed by applied; afterwards the
   pending index is the new entry's index, above applied, so a repeated call at the same
   applied index changes nothing *)
Theorem auto_leave_once r app r' :
  commit_apply r app = Ok r' ->
  auto_leave_cond r (applied (r_log r)) app = true ->
  committed (r_log r) <= last_index (r_log r) ->
  r_state r = Leader /\ auto_leave (conf_of r) = true /\
  applied (r_log r) <= r_pending_conf_index r <= app /\
  r_pending_conf_index r' = last_index (r_log r) + 1 /\
  last_index (r_log r') = last_index (r_log r) + 1 /\
  applied (r_log r') < r_pending_conf_index r' /\
  auto_leave_cond r' (applied (r_log r')) app = false /\
  commit_apply r' app = Ok r'.
Proof.
  unfold commit_apply. intros H Hc Hcl.
  pose proof (commit_apply_internal_spec _ _ _ _ H) as (l1 & Hl1 & Hs). rewrite Hc in Hs.
  destruct Hs as (l2 & z & Hy & Hl2 & Hp & Hlast & Hst & Hcf & _).
  pose proof (apply_step_spec _ _ _ _ Hl1) as (Hu & Hsto & Hcm & Hcase).
  assert (Hne : stamp [auto_leave_entry] (r_term r) (last_index (r_log r) + 1) <> []).
  { Transparent stamp. cbn. Opaque stamp. discriminate. }
  pose proof (log_append_spec _ _ _ _ Hy Hne) as (_ & Hap2 & Hcm2 & _).
  assert (Happ : app <= committed (r_log r) /\ applied l1 <= app /\ (app <> 0 -> applied l1 = app)).
  { destruct Hcase as [(_ & A & ->)|[(_ & A0 & A & ->)|(A & _)]]; [| |discriminate].
    - unfold auto_leave_cond in Hc. split; [lia|]. split; [lia|congruence].
    - cbn. split; [lia|]. split; [lia|reflexivity]. }
  destruct Happ as (Ha1 & Ha2 & Ha3).
  pose proof Hc as Hc'. unfold auto_leave_cond in Hc'.
  assert (Hlead : r_state r = Leader).
  { unfold is_leader in Hc'. destruct (r_state r); cbn in Hc'; try lia. reflexivity. }
  assert (Hcond2 : auto_leave_cond r' (applied (r_log r')) app = false).
  { unfold auto_leave_cond. rewrite Hp, Hlast.
    destruct (last_index (r_log r) + 1 <=? app) eqn:E; [lia|].
    rewrite andb_false_r. reflexivity. }
  split; [exact Hlead|]. split; [lia|]. split; [lia|].
  split; [rewrite Hp, Hlast; reflexivity|]. split; [rewrite Hl2; exact Hlast|].
  split; [rewrite Hp, Hlast, Hl2, Hap2; lia|]. split; [exact Hcond2|].
  (* the repeated call *)
  unfold commit_apply_internal. cbn [negb].
  assert (Hstep : applied_to (r_log r') app = Ok (r_log r')).
  { unfold applied_to. destruct (N.eqb_spec app 0); [reflexivity|].
    rewrite Hl2, Hap2, Hcm2, Hcm, (Ha3 n).
    destruct ((committed (r_log r) <? app) || (app <? app)) eqn:E; [lia|].
    rewrite <- (Ha3 n), <- Hap2. rewrite set_applied_same. reflexivity. }
  rewrite Hstep. cbn [bind]. rewrite set_log_same.
  fold (auto_leave_cond r' (applied (r_log r')) app). rewrite Hcond2. reflexivity.
Qed.

(* ------------------------------------------------------------------ *)
(* 2 (continued): the leader invariant through every handler of the node *)

Definition LInv (r : raft) : Prop := r_state r = Leader -> ConfBound r.

Lemma fr_LInv r r' : fr r r' -> LInv r -> LInv r'.
Proof.
  intros Hf H Hs. eapply fr_ConfBound; [exact Hf|]. apply H. destruct Hf as (E & _). congruence.
Qed.

Lemma not_leader_LInv r : r_state r <> Leader -> LInv r.
Proof. intros H Hs. contradiction. Qed.

Lemma fr_LogBounded r r' : fr r r' -> LogBounded (r_log r) -> LogBounded (r_log r').
Proof. intros (_ & _ & H & _). apply LogBounded_same_ents; exact H. Qed.

(* --- leader-side handlers only send messages and touch progress / commit --- *)

Lemma handle_append_response_fr r m r' : handle_append_response r m = Ok r' -> fr r r'.
Proof.
  unfold handle_append_response. intros H. inv_bind H. clear Hx.
  destruct (get_pr r (m_from m)) as [pr|]; [|inversion H; apply fr_refl].
  destruct (m_reject m).
  { destruct (maybe_decr_to _ _ _ _) as [pr1 dec]. destruct dec.
    - eapply fr_trans; [apply put_pr_fr|eapply send_append_to_fr; exact H].
    - inversion H; subst. apply put_pr_fr. }
  destruct (maybe_update _ _) as [pr1 upd]. destruct upd; cbn [negb] in H.
  2:{ inversion H; subst. apply put_pr_fr. }
  inv_bind H. clear Hx. inv_bind H. destruct x1 as [r1 cmt].
  apply maybe_commit_fr in Hx. inv_bind H. inv_bind H.
  assert (H01 : fr r r1) by (eapply fr_trans; [apply put_pr_fr|exact Hx]).
  assert (H12 : fr r1 x1).
  { destruct cmt.
    - destruct (should_bcast_commit r1); [eapply bcast_append_fr; eassumption|].
      inversion Hx0; subst; apply fr_refl.
    - destruct (is_paused _); [eapply send_append_to_fr; eassumption|].
      inversion Hx0; subst; apply fr_refl. }
  apply send_append_aggressively_fr in Hx1.
  assert (H03 : fr r x2) by (eapply fr_trans; [exact H01|eapply fr_trans; eassumption]).
  eapply fr_trans; [exact H03|].
  destruct (r_lead_transferee x2); [|inversion H; subst; apply fr_refl].
  destruct (n =? m_from m); [|inversion H; subst; apply fr_refl].
  destruct (get_pr x2 (m_from m)); [|discriminate].
  destruct (matched p =? last_index (r_log x2)); [eapply send_timeout_now_fr; exact H|].
  inversion H; subst; apply fr_refl.
Qed.

Lemma set_read_only_fr r ro : fr r (r <| r_read_only := ro |>).
Proof. fr_solve. Qed.

Lemma handle_heartbeat_response_fr r m r' : handle_heartbeat_response r m = Ok r' -> fr r r'.
Proof.
  unfold handle_heartbeat_response. intros H.
  destruct (get_pr r (m_from m)) as [pr|]; [|inversion H; apply fr_refl].
  inv_bind H. clear Hx. inv_bind H.
  assert (H01 : fr r x0).
  { match type of Hx with (if ?c then _ else _) = _ => destruct c end.
    - inv_bind Hx. destruct x1 as [[ra pa] ba]. inversion Hx; subst.
      eapply fr_trans; [eapply maybe_send_append_fr; eassumption|apply put_pr_fr].
    - inversion Hx; subst. apply put_pr_fr. }
  eapply fr_trans; [exact H01|].
  match type of H with (if ?c then _ else _) = _ => destruct c end; [inversion H; subst; apply fr_refl|].
  destruct (ro_recv_ack _ _ _) as [ro' acks].
  destruct acks as [a|]; [|inversion H; subst; apply set_read_only_fr].
  match type of H with (if ?c then _ else _) = _ => destruct c end;
    [|inversion H; subst; apply set_read_only_fr].
  inv_bind H. destruct x1 as [ro2 rss]. apply respond_reads_fr in H.
  eapply fr_trans; [|exact H]. fr_solve.
Qed.

Lemma handle_transfer_leader_fr r m r' : handle_transfer_leader r m = Ok r' -> fr r r'.
Proof.
  unfold handle_transfer_leader. intros H.
  destruct (get_pr r (m_from m)); [|inversion H; apply fr_refl].
  destruct (IdSet.mem (m_from m) (learners (conf_of r))); [inversion H; apply fr_refl|].
  assert (Hcont : forall ra, fr r ra ->
    (if m_from m =? r_id ra then Ok ra else
       match get_pr (ra <| r_election_elapsed := 0 |> <| r_lead_transferee := Some (m_from m) |>) (m_from m) with
       | None => Panic site_pr_unwrap
       | Some pr =>
           if matched pr =? last_index (r_log (ra <| r_election_elapsed := 0 |> <| r_lead_transferee := Some (m_from m) |>))
           then send_timeout_now (ra <| r_election_elapsed := 0 |> <| r_lead_transferee := Some (m_from m) |>) (m_from m)
           else
             y <- maybe_send_append (ra <| r_election_elapsed := 0 |> <| r_lead_transferee := Some (m_from m) |>) (m_from m) pr true ;;
             let '(r', pr', _) := y in Ok (put_pr r' (m_from m) pr')
       end) = Ok r' -> fr r r').
  { intros ra Hra Hc. destruct (m_from m =? r_id ra). { inversion Hc; subst; exact Hra. }
    eapply fr_trans; [exact Hra|].
    assert (Hset : fr ra (ra <| r_election_elapsed := 0 |> <| r_lead_transferee := Some (m_from m) |>))
      by fr_solve.
    eapply fr_trans; [exact Hset|].
    match type of Hc with match ?g with _ => _ end = _ => destruct g end; [|discriminate].
    match type of Hc with (if ?c then _ else _) = _ => destruct c end.
    - eapply send_timeout_now_fr; exact Hc.
    - inv_bind Hc. destruct x as [[rb pb] bb]. inversion Hc; subst.
      eapply fr_trans; [eapply maybe_send_append_fr; eassumption|apply put_pr_fr]. }
  destruct (r_lead_transferee r) as [last|].
  - destruct (last =? m_from m); [inversion H; apply fr_refl|].
    eapply Hcont; [|exact H]. fr_solve.
  - eapply Hcont; [apply fr_refl|exact H].
Qed.

Lemma handle_snapshot_status_fr r m r' : handle_snapshot_status r m = Ok r' -> fr r r'.
Proof.
  unfold handle_snapshot_status. intros H.
  destruct (get_pr r (m_from m)); [|inversion H; apply fr_refl].
  destruct (negb _); inversion H; subst; [apply fr_refl|apply put_pr_fr].
Qed.

Lemma handle_unreachable_fr r m r' : handle_unreachable r m = Ok r' -> fr r r'.
Proof.
  unfold handle_unreachable. intros H.
  destruct (get_pr r (m_from m)); inversion H; subst; [|apply fr_refl].
  destruct (pstate_eqb _ _); [apply put_pr_fr|apply fr_refl].
Qed.

Lemma step_leader_other r m r' c :
  (m_type m =? MsgPropose) = false -> step_leader r m = Ok (r', c) ->
  fr r r' \/ r_state r' = Follower.
Proof.
  intros Hnp H. unfold step_leader in H. rewrite Hnp in H.
  destruct (m_type m =? MsgBeat).
  { inv_bind H. inversion H; subst. left. eapply bcast_heartbeat_fr; eassumption. }
  destruct (m_type m =? MsgCheckQuorum).
  { destruct (quorum_recently_active (r_prs r) (r_id r)) as [prs' active] eqn:Eq.
    assert (Hprs : fr r (r <| r_prs := prs' |>)).
    { unfold quorum_recently_active in Eq. inversion Eq; subst. fr_solve. }
    destruct active; cbn [negb] in H.
    - inversion H; subst. left. exact Hprs.
    - inv_bind H. inversion H; subst. right.
      apply become_follower_fields in Hx. apply Hx. }
  destruct (m_type m =? MsgReadIndex).
  { inv_bind H. destruct x; cbn [negb] in H; [|inversion H; subst; left; apply fr_refl].
    assert (Hnow : forall rr cc,
      (x <- handle_ready_read_index r m (committed (r_log r)) ;;
       let '(r1, om) := x in
       r2 <- match om with Some mm => send r1 mm | None => Ok r1 end ;; Ok (r2, E_OK)) = Ok (rr, cc) ->
      fr r rr).
    { intros rr cc Hn. inv_bind Hn. destruct x as [r1 om]. inv_bind Hn. inversion Hn; subst.
      apply handle_ready_read_index_fr in Hx0. eapply fr_trans; [exact Hx0|].
      destruct om; [eapply send_fr; eassumption|inversion Hx1; subst; apply fr_refl]. }
    match type of H with (if ?c then _ else _) = _ => destruct c end; [left; eapply Hnow; exact H|].
    destruct (ro_option (r_read_only r) =? 0); [|left; eapply Hnow; exact H].
    inv_bind H. inv_bind H. inv_bind H. inversion H; subst. left.
    eapply fr_trans; [apply set_read_only_fr|]. eapply bcast_heartbeat_with_ctx_fr; eassumption. }
  destruct (m_type m =? MsgAppendResponse).
  { inv_bind H. inversion H; subst. left. eapply handle_append_response_fr; eassumption. }
  destruct (m_type m =? MsgHeartbeatResponse).
  { inv_bind H. inversion H; subst. left. eapply handle_heartbeat_response_fr; eassumption. }
  destruct (m_type m =? MsgSnapStatus).
  { inv_bind H. inversion H; subst. left. eapply handle_snapshot_status_fr; eassumption. }
  destruct (m_type m =? MsgUnreachable).
  { inv_bind H. inversion H; subst. left. eapply handle_unreachable_fr; eassumption. }
  destruct (m_type m =? MsgTransferLeader).
  { inv_bind H. inversion H; subst. left. eapply handle_transfer_leader_fr; eassumption. }
  inversion H; subst. left. apply fr_refl.
Qed.

Lemma step_leader_LInv r m r' c :
  step_leader r m = Ok (r', c) -> ConfBound r -> r_state r = Leader -> LInv r'.
Proof.
  intros H Hcb Hs. destruct (m_type m =? MsgPropose) eqn:Ep.
  - apply N.eqb_eq in Ep. intros _. eapply step_leader_propose_ConfBound; eassumption.
  - destruct (step_leader_other _ _ _ _ Ep H) as [Hf|Hf].
    + eapply fr_LInv; [exact Hf|]. intros _; exact Hcb.
    + apply not_leader_LInv. congruence.
Qed.

(* --- follower-side handlers: the role is kept (or becomes Follower) --- *)

Lemma send_state r m r' : send r m = Ok r' -> r_state r' = r_state r.
Proof. intros H. apply send_fr in H. apply H. Qed.

Lemma send_request_snapshot_fr r r' : send_request_snapshot r = Ok r' -> fr r r'.
Proof.
  unfold send_request_snapshot. intros H. inv_bind H. destruct x; [|discriminate].
  eapply send_fr; exact H.
Qed.

Lemma handle_append_entries_state r m r' :
  handle_append_entries r m = Ok r' -> r_state r' = r_state r.
Proof.
  unfold handle_append_entries. intros H.
  destruct (negb (r_pending_request_snapshot r =? INVALID_INDEX)).
  { apply send_request_snapshot_fr in H. apply H. }
  destruct (m_index m <? committed (r_log r)). { apply send_state in H. exact H. }
  inv_bind H. destruct x as [l' res]. destruct res as [[a b]|].
  - apply send_state in H. exact H.
  - inv_bind H. destruct x as [hi [ht|]]; [|discriminate]. apply send_state in H. exact H.
Qed.

Lemma handle_heartbeat_state r m r' : handle_heartbeat r m = Ok r' -> r_state r' = r_state r.
Proof.
  unfold handle_heartbeat. intros H. inv_bind H.
  match type of H with (if ?c then _ else _) = _ => destruct c end.
  - apply send_request_snapshot_fr in H. apply H.
  - apply send_state in H. exact H.
Qed.

Lemma restore_state r s r' b :
  restore r s = Ok (r', b) -> r_state r' = r_state r \/ r_state r' = Follower.
Proof.
  unfold restore. intros H.
  destruct (s_index s <? committed (r_log r)); [inversion H; auto|].
  destruct (negb (role_eqb (r_state r) Follower)).
  { inv_bind H. inversion H; subst. right. apply become_follower_fields in Hx. apply Hx. }
  match type of H with (if ?c then _ else _) = _ => destruct c end; [inversion H; auto|].
  inv_bind H.
  match type of H with (if ?c then _ else _) = _ => destruct c end.
  { inv_bind H. inversion H; subst. auto. }
  inv_bind H.
  destruct (ConfChange.restore empty_tracker (s_cs s)) as [[c' ids']|e]; [|discriminate].
  inv_bind H. destruct x1 as [r1 new_cs].
  destruct (negb (conf_state_eq (s_cs s) new_cs)); [discriminate|].
  destruct (get_pr r1 (r_id r1)); [|discriminate].
  destruct (next_idx p =? 0); [discriminate|]. inversion H; subst.
  apply post_conf_change_spec in Hx1. destruct Hx1 as [_ (Hs & _)]. left. exact Hs.
Qed.

Lemma handle_snapshot_state r m r' :
  handle_snapshot r m = Ok r' -> r_state r' = r_state r \/ r_state r' = Follower.
Proof.
  unfold handle_snapshot. intros H. inv_bind H. destruct x as [r1 ok].
  apply restore_state in Hx.
  assert (Hs : r_state r' = r_state r1) by (destruct ok; apply send_state in H; exact H).
  rewrite Hs. exact Hx.
Qed.

(* --- the campaign path --- *)

Lemma become_candidate_fields r r' :
  become_candidate r = Ok r' ->
  r_state r' = Candidate /\ r_log r' = r_log r /\ r_state r <> Leader.
Proof.
  unfold become_candidate, is_leader. intros H.
  destruct (role_eqb (r_state r) Leader) eqn:E; [discriminate|].
  inv_bind H. inversion H; subst. apply reset_fields in Hx. destruct Hx as (_ & _ & Hl & _).
  cbn. split; [reflexivity|]. split; [exact Hl|]. intros E'. rewrite E' in E. discriminate.
Qed.

Lemma become_pre_candidate_fields r r' :
  become_pre_candidate r = Ok r' ->
  r_state r' = PreCandidate /\ r_log r' = r_log r.
Proof.
  unfold become_pre_candidate. intros H. destruct (is_leader r); [discriminate|].
  inversion H; subst. split; reflexivity.
Qed.

Lemma send_vote_requests_fr ids : forall r vm t cm ct tr r',
  send_vote_requests ids r vm t cm ct tr = Ok r' -> fr r r'.
Proof.
  induction ids as [|id rest IH]; intros r vm t cm ct tr r' H.
  { inversion H; subst. apply fr_refl. }
  cbn [send_vote_requests] in H. destruct (id =? r_id r). { eapply IH; exact H. }
  inv_bind H. inv_bind H. eapply fr_trans; [eapply send_fr; eassumption|eapply IH; exact H].
Qed.

Lemma poll_gen_LInv rc r from v r' res :
  poll_gen rc r from v = Ok (r', res) ->
  r_state r <> Leader -> LBP (r_log r) ->
  (forall ra ra', rc ra = Ok ra' -> r_state ra <> Leader -> LBP (r_log ra) -> LInv ra') ->
  LInv r' /\ (res <> VoteWon -> r_state r' <> Leader).
Proof.
  unfold poll_gen. intros H Hs Hb Hrc.
  set (r0 := r <| r_prs := (r_prs r) <| t_votes := Quorum.record_vote (t_votes (r_prs r)) from v |> |>) in *.
  assert (Hs0 : r_state r0 = r_state r) by reflexivity.
  assert (Hl0 : r_log r0 = r_log r) by reflexivity.
  destruct (Quorum.tracker_vote_result _ _ _) eqn:Ev.
  - inversion H; subst. split; [apply not_leader_LInv|intros _]; rewrite Hs0; exact Hs.
  - inv_bind H. inversion H; subst. apply become_follower_fields in Hx. destruct Hx as (Hf & _).
    split; [apply not_leader_LInv|intros _]; congruence.
  - destruct (role_eqb (r_state r0) PreCandidate).
    + inv_bind H. inversion H; subst. split; [|congruence].
      eapply Hrc; [exact Hx|rewrite Hs0; exact Hs|rewrite Hl0; exact Hb].
    + inv_bind H. inv_bind H. inversion H; subst. split; [|congruence].
      apply become_leader_ConfBound' in Hx; [|rewrite Hl0; exact Hb]. destruct Hx as [Hcb _].
      apply bcast_append_fr in Hx0. intros _. eapply fr_ConfBound; eassumption.
Qed.

Lemma campaign_real_LInv tr r r' :
  campaign_real tr r = Ok r' -> LBP (r_log r) -> LInv r'.
Proof.
  unfold campaign_real. intros H Hb. inv_bind H. apply become_candidate_fields in Hx.
  destruct Hx as (Hs & Hl & _). inv_bind H. destruct x0 as [r2 res].
  apply poll_gen_LInv in Hx; [|congruence|rewrite Hl; exact Hb|intros ra ra' Hp; discriminate].
  destruct Hx as [Hinv Hnw].
  destruct res.
  - inv_bind H. apply send_vote_requests_fr in H. eapply fr_LInv; [exact H|exact Hinv].
  - inv_bind H. apply send_vote_requests_fr in H. eapply fr_LInv; [exact H|exact Hinv].
  - inversion H; subst. exact Hinv.
Qed.

Lemma campaign_pre_LInv r r' :
  campaign_pre r = Ok r' -> LBP (r_log r) -> LInv r'.
Proof.
  unfold campaign_pre, poll. intros H Hb. inv_bind H. apply become_pre_candidate_fields in Hx.
  destruct Hx as (Hs & Hl). inv_bind H. destruct x0 as [r2 res].
  apply poll_gen_LInv in Hx; [|congruence|rewrite Hl; exact Hb|].
  2:{ intros ra ra' Hc _ Hba. eapply campaign_real_LInv; eassumption. }
  destruct Hx as [Hinv Hnw].
  destruct res.
  - inv_bind H. apply send_vote_requests_fr in H. eapply fr_LInv; [exact H|exact Hinv].
  - inv_bind H. apply send_vote_requests_fr in H. eapply fr_LInv; [exact H|exact Hinv].
  - inversion H; subst. exact Hinv.
Qed.

Lemma hup_LInv r tl r' :
  hup r tl = Ok r' -> LBP (r_log r) -> LInv r -> LInv r'.
Proof.
  intros H Hb Hinv. apply hup_spec in H.
  destruct H as [[_ ->]|[(_ & _ & ->)|[(_ & _ & _ & ->)|(_ & _ & _ & Hc)]]]; try exact Hinv.
  unfold hup_campaign in Hc. destruct tl; [eapply campaign_real_LInv; eassumption|].
  destruct (r_pre_vote r); [eapply campaign_pre_LInv|eapply campaign_real_LInv]; eassumption.
Qed.

Lemma maybe_commit_by_vote_LInv r m r' :
  maybe_commit_by_vote r m = Ok r' -> LInv r -> LInv r'.
Proof.
  intros H Hinv. apply maybe_commit_by_vote_spec in H.
  destruct H as [-> |(l' & b & _ & _ & _ & Hnl & _ & [-> |(_ & _ & _ & Hbf)])]; [exact Hinv| |].
  - apply not_leader_LInv. cbn. unfold is_leader in Hnl. intros E. rewrite E in Hnl. discriminate.
  - apply become_follower_fields in Hbf. apply not_leader_LInv. destruct Hbf as (E & _). congruence.
Qed.

Lemma poll_LInv r from v r' res :
  poll r from v = Ok (r', res) -> r_state r <> Leader -> LBP (r_log r) -> LInv r'.
Proof.
  unfold poll. intros H Hs Hb. apply poll_gen_LInv in H; [apply H|exact Hs|exact Hb|].
  intros ra ra' Hc _ Hba. eapply campaign_real_LInv; eassumption.
Qed.

Lemma step_candidate_LInv r m r' c :
  step_candidate r m = Ok (r', c) -> r_state r <> Leader -> LBP (r_log r) -> LInv r'.
Proof.
  unfold step_candidate. intros H Hs Hb.
  destruct (m_type m =? MsgPropose). { inversion H; subst. apply not_leader_LInv; exact Hs. }
  match type of H with (if ?c then _ else _) = _ => destruct c end.
  { destruct (negb (r_term r =? m_term m)); [discriminate|].
    inv_bind H. apply become_follower_fields in Hx. destruct Hx as (Hf & _).
    inv_bind H. inversion H; subst. apply not_leader_LInv.
    destruct (m_type m =? MsgAppend).
    - apply handle_append_entries_state in Hx. congruence.
    - destruct (m_type m =? MsgHeartbeat).
      + apply handle_heartbeat_state in Hx. congruence.
      + apply handle_snapshot_state in Hx. destruct Hx; congruence. }
  match type of H with (if ?c then _ else _) = _ => destruct c end.
  2:{ inversion H; subst. apply not_leader_LInv; exact Hs. }
  match type of H with (if ?c then _ else _) = _ => destruct c end.
  { inversion H; subst. apply not_leader_LInv; exact Hs. }
  inv_bind H. destruct x as [r1 res]. inv_bind H. inversion H; subst. cbn [fst] in Hx0.
  eapply maybe_commit_by_vote_LInv; [exact Hx0|]. eapply poll_LInv; eassumption.
Qed.

Lemma step_follower_LInv r m r' c :
  step_follower r m = Ok (r', c) -> r_state r <> Leader -> LBP (r_log r) -> LInv r'.
Proof.
  unfold step_follower. intros H Hs Hb.
  assert (Hfwd : forall rr mm, send r mm = Ok rr -> LInv rr).
  { intros rr mm Hsd. apply send_state in Hsd. apply not_leader_LInv. congruence. }
  destruct (m_type m =? MsgPropose).
  { destruct (r_leader_id r =? INVALID_ID); [inversion H; subst; apply not_leader_LInv; exact Hs|].
    destruct (r_disable_proposal_forwarding r); [inversion H; subst; apply not_leader_LInv; exact Hs|].
    inv_bind H. inversion H; subst. eapply Hfwd; eassumption. }
  destruct (m_type m =? MsgAppend).
  { inv_bind H. inversion H; subst. apply handle_append_entries_state in Hx.
    apply not_leader_LInv. cbn in Hx. congruence. }
  destruct (m_type m =? MsgHeartbeat).
  { inv_bind H. inversion H; subst. apply handle_heartbeat_state in Hx.
    apply not_leader_LInv. cbn in Hx. congruence. }
  destruct (m_type m =? MsgSnapshot).
  { inv_bind H. inversion H; subst. apply handle_snapshot_state in Hx.
    apply not_leader_LInv. cbn in Hx. destruct Hx; congruence. }
  destruct (m_type m =? MsgTransferLeader).
  { destruct (r_leader_id r =? INVALID_ID); [inversion H; subst; apply not_leader_LInv; exact Hs|].
    inv_bind H. inversion H; subst. eapply Hfwd; eassumption. }
  destruct (m_type m =? MsgTimeoutNow).
  { destruct (r_promotable r); [|inversion H; subst; apply not_leader_LInv; exact Hs].
    inv_bind H. inversion H; subst. eapply hup_LInv; [exact Hx|exact Hb|apply not_leader_LInv; exact Hs]. }
  destruct (m_type m =? MsgReadIndex).
  { destruct (r_leader_id r =? INVALID_ID); [inversion H; subst; apply not_leader_LInv; exact Hs|].
    inv_bind H. inversion H; subst. eapply Hfwd; eassumption. }
  destruct (m_type m =? MsgReadIndexResp).
  { destruct (m_entries m) as [|e [|e2 rest]]; try (inversion H; subst; apply not_leader_LInv; exact Hs).
    inv_bind H. inversion H; subst. apply not_leader_LInv. cbn. exact Hs. }
  inversion H; subst. apply not_leader_LInv; exact Hs.
Qed.

(* C09: Raft::step keeps the leader invariant, for every state and every message *)
Theorem step_LInv r m r' c :
  step r m = Ok (r', c) -> LBP (r_log r) -> LInv r -> LInv r'.
Proof.
  intros H Hb Hinv. unfold step in H. inv_bind H.
  assert (Hpre : match x with
                 | inl (r1, _) => LInv r1
                 | inr r1 => LInv r1 /\ LBP (r_log r1)
                 end).
  { clear H.
    assert (Hbf : forall t l r1, become_follower r t l = Ok r1 -> LInv r1 /\ LBP (r_log r1)).
    { intros t l r1 Hf. apply become_follower_fields in Hf. destruct Hf as (Hs & _ & Hl & _).
      split; [apply not_leader_LInv; congruence|].
      rewrite Hl. apply LBP_set_limit; exact Hb. }
    destruct (m_term m =? 0); [inversion Hx; auto|].
    destruct (r_term r <? m_term m).
    - match type of Hx with (if ?c then _ else _) = _ => destruct c end; [inversion Hx; exact Hinv|].
      match type of Hx with (if ?c then _ else _) = _ => destruct c end; [inversion Hx; auto|].
      match type of Hx with (if ?c then _ else _) = _ => destruct c end;
        inv_bind Hx; inversion Hx; subst; eapply Hbf; eassumption.
    - destruct (m_term m <? r_term r); [|inversion Hx; auto].
      match type of Hx with (if ?c then _ else _) = _ => destruct c end.
      + inv_bind Hx. inversion Hx; subst. eapply fr_LInv; [eapply send_fr; eassumption|exact Hinv].
      + match type of Hx with (if ?c then _ else _) = _ => destruct c end.
        * inv_bind Hx. inversion Hx; subst. eapply fr_LInv; [eapply send_fr; eassumption|exact Hinv].
        * inversion Hx; subst. exact Hinv. }
  destruct x as [[r1 c1]|r1]. { inversion H; subst. exact Hpre. }
  destruct Hpre as [Hinv1 Hb1]. clear Hx Hinv Hb.
  destruct (m_type m =? MsgHup).
  { inv_bind H. inversion H; subst. eapply hup_LInv; eassumption. }
  match type of H with (if ?c then _ else _) = _ => destruct c end.
  { inv_bind H. inv_bind H.
    match type of H with (if ?c then _ else _) = _ => destruct c end.
    - inv_bind H. apply send_fr in Hx1.
      destruct (m_type m =? MsgRequestVote); inversion H; subst.
      + eapply fr_LInv; [|exact Hinv1]. eapply fr_trans; [exact Hx1|]. fr_solve.
      + eapply fr_LInv; eassumption.
    - inv_bind H. inv_bind H. inv_bind H. inversion H; subst. apply send_fr in Hx2.
      eapply maybe_commit_by_vote_LInv; [eassumption|]. eapply fr_LInv; eassumption. }
  destruct (r_state r1) eqn:Es.
  - eapply step_follower_LInv; [exact H|congruence|exact Hb1].
  - eapply step_candidate_LInv; [exact H|congruence|exact Hb1].
  - eapply step_leader_LInv; [exact H|apply Hinv1; exact Es|exact Es].
  - eapply step_candidate_LInv; [exact H|congruence|exact Hb1].
Qed.

(* a leader handling a term-less (local) message needs no LogBounded *)
Lemma step_leader_local_LInv r m r' c :
  r_state r = Leader -> m_term m = 0 -> step r m = Ok (r', c) -> LInv r -> LInv r'.
Proof.
  intros Hs Ht H Hinv. unfold step in H. rewrite Ht in H. change (0 =? 0) with true in H.
  cbn [bind] in H.
  destruct (m_type m =? MsgHup).
  { inv_bind H. inversion H; subst. unfold hup, is_leader in Hx. rewrite Hs in Hx. cbn in Hx.
    inversion Hx; subst. exact Hinv. }
  match type of H with (if ?c then _ else _) = _ => destruct c end.
  { inv_bind H. inv_bind H.
    match type of H with (if ?c then _ else _) = _ => destruct c end.
    - inv_bind H. apply send_fr in Hx1.
      destruct (m_type m =? MsgRequestVote); inversion H; subst.
      + eapply fr_LInv; [|exact Hinv]. eapply fr_trans; [exact Hx1|]. fr_solve.
      + eapply fr_LInv; eassumption.
    - inv_bind H. inv_bind H. inv_bind H. inversion H; subst. apply send_fr in Hx2.
      eapply maybe_commit_by_vote_LInv; [eassumption|]. eapply fr_LInv; eassumption. }
  rewrite Hs in H. eapply step_leader_LInv; [exact H|apply Hinv; exact Hs|exact Hs].
Qed.

(* --- ticks --- *)

Theorem tick_LInv r r' b :
  tick r = Ok (r', b) -> LBP (r_log r) -> LInv r -> LInv r'.
Proof.
  intros H Hb Hinv. unfold tick in H.
  assert (Hel : r_state r <> Leader -> tick_election r = Ok (r', b) -> LInv r').
  { intros Hs He. unfold tick_election in He.
    match type of He with (if ?c then _ else _) = _ => destruct c end.
    - inversion He; subst. apply not_leader_LInv. exact Hs.
    - inv_bind He. inversion He; subst. destruct x as [r1 c1]. cbn [fst].
      eapply step_LInv; [exact Hx|exact Hb|apply not_leader_LInv; exact Hs]. }
  destruct (r_state r) eqn:Es; try (apply Hel; [congruence|exact H]).
  clear Hel. unfold tick_heartbeat in H. inv_bind H. destruct x as [r1 hr].
  set (r0 := r <| r_heartbeat_elapsed := r_heartbeat_elapsed r + 1 |>
               <| r_election_elapsed := r_election_elapsed r + 1 |>) in *.
  assert (H0 : fr r r0) by (unfold r0; fr_solve).
  assert (Hinv0 : LInv r0) by (eapply fr_LInv; eassumption).
  assert (Hinv1 : LInv r1).
  { destruct (r_election_timeout r0 <=? r_election_elapsed r0); [|inversion Hx; subst; exact Hinv0].
    inv_bind Hx. destruct x as [ra ha]. inversion Hx; subst. clear Hx.
    assert (Hra : LInv ra).
    { destruct (r_check_quorum (r0 <| r_election_elapsed := 0 |>)).
      - inv_bind Hx0. inversion Hx0; subst. destruct x as [rb cb]. cbn [fst].
        eapply step_leader_local_LInv; [| |exact Hx|].
        + cbn. exact Es.
        + reflexivity.
        + eapply fr_LInv; [|exact Hinv0]. fr_solve.
      - inversion Hx0; subst. eapply fr_LInv; [|exact Hinv0]. fr_solve. }
    destruct (is_leader ra && _); [|exact Hra].
    eapply fr_LInv; [|exact Hra]. fr_solve. }
  destruct (negb (is_leader r1)) eqn:El; [inversion H; subst; exact Hinv1|].
  destruct (r_heartbeat_timeout r1 <=? r_heartbeat_elapsed r1); [|inversion H; subst; exact Hinv1].
  inv_bind H. inversion H; subst. destruct x as [rb cb]. cbn [fst].
  eapply step_leader_local_LInv; [| |exact Hx0|].
  - cbn. unfold is_leader in El. destruct (r_state r1); cbn in El; try discriminate. reflexivity.
  - reflexivity.
  - eapply fr_LInv; [|exact Hinv1]. fr_solve.
Qed.

(* --- weaker frame: role, pending_conf_index, log entries, applied (configuration and
   promotable may change) --- *)
Definition lk (r r' : raft) : Prop :=
  r_state r' = r_state r /\ r_pending_conf_index r' = r_pending_conf_index r /\
  same_ents (r_log r) (r_log r').

Lemma fr_lk r r' : fr r r' -> lk r r'.
Proof. intros (A & B & C0 & _). repeat split; try assumption; apply C0. Qed.

Lemma lk_trans a b c : lk a b -> lk b c -> lk a c.
Proof. unfold lk, same_ents. intuition congruence. Qed.

Lemma lk_LInv r r' : lk r r' -> LInv r -> LInv r'.
Proof.
  intros (A & B & C0) H Hs. unfold ConfBound. rewrite B.
  eapply ConfBoundP_same_ents; [exact C0|]. apply H. congruence.
Qed.

Lemma lk_LogBounded r r' : lk r r' -> LogBounded (r_log r) -> LogBounded (r_log r').
Proof. intros (_ & _ & H). apply LogBounded_same_ents; exact H. Qed.

(* --- the remaining API functions of Raft --- *)

Lemma on_persist_entries_fr r i t r' : on_persist_entries r i t = Ok r' -> fr r r'.
Proof.
  unfold on_persist_entries. intros H. inv_bind H. destruct x as [l' upd].
  assert (Hl : same_ents (r_log r) l').
  { unfold maybe_persist in Hx.
    match type of Hx with (if ?c then _ else _) = _ => destruct c end;
      [|inversion Hx; apply same_ents_refl].
    inv_bind Hx. destruct (term_ok_eq x t); inversion Hx; subst; repeat split. }
  pose proof (set_log_fr r l' Hl) as H0.
  match type of H with (if ?c then _ else _) = _ => destruct c end;
    [|inversion H; subst; exact H0].
  match type of H with match ?g with _ => _ end = _ => destruct g as [pr|] end;
    [|inversion H; subst; exact H0].
  destruct (maybe_update pr i) as [pr' u].
  eapply fr_trans; [exact H0|]. eapply fr_trans; [apply put_pr_fr|].
  destruct u; [|inversion H; subst; apply fr_refl].
  inv_bind H. destruct x as [r1 c]. apply maybe_commit_fr in Hx0.
  eapply fr_trans; [exact Hx0|].
  destruct (c && should_bcast_commit r1); [eapply bcast_append_fr; exact H|].
  inversion H; subst; apply fr_refl.
Qed.

Lemma on_persist_snap_fr r i r' : on_persist_snap r i = Ok r' -> fr r r'.
Proof.
  unfold on_persist_snap. intros H. inv_bind H. inversion H; subst. apply set_log_fr.
  unfold maybe_persist_snap in Hx.
  destruct (persisted (r_log r) <? i); [|inversion Hx; apply same_ents_refl].
  destruct (committed (r_log r) <? i); [discriminate|].
  destruct (u_offset (unst (r_log r)) <=? i); [discriminate|]. inversion Hx; subst. repeat split.
Qed.

Lemma raft_apply_conf_change_lk r cc r' ocs : raft_apply_conf_change r cc = Ok (r', ocs) -> lk r r'.
Proof.
  unfold raft_apply_conf_change. intros H.
  match type of H with match ?res with _ => _ end = _ => destruct res as [[c' chs]|e] end.
  - inv_bind H. destruct x as [r1 cs1]. inversion H; subst. cbn [fst].
    apply post_conf_change_spec in Hx. destruct Hx as [_ Hf]. apply fr_lk in Hf.
    eapply lk_trans; [|exact Hf]. repeat split.
  - inversion H; subst. repeat split.
Qed.

Lemma load_state_lk r hs r' : load_state r hs = Ok r' -> lk r r'.
Proof.
  unfold load_state. intros H.
  match type of H with (if ?c then _ else _) = _ => destruct c end; [discriminate|].
  inversion H; subst. repeat split.
Qed.

Lemma request_snapshot_fr r r' c : request_snapshot r = Ok (r', c) -> fr r r'.
Proof.
  unfold request_snapshot. intros H.
  destruct (is_leader r); [inversion H; apply fr_refl|].
  destruct (r_leader_id r =? INVALID_ID); [inversion H; apply fr_refl|].
  match type of H with (if ?c then _ else _) = _ => destruct c end; [inversion H; apply fr_refl|].
  match type of H with (if ?c then _ else _) = _ => destruct c end; [inversion H; apply fr_refl|].
  inv_bind H. destruct x; [|discriminate].
  destruct (r_term r =? a); [|inversion H; apply fr_refl].
  inv_bind H. inversion H; subst. apply send_request_snapshot_fr in Hx0.
  eapply fr_trans; [|exact Hx0]. fr_solve.
Qed.

Lemma ping_fr r r' : ping r = Ok r' -> fr r r'.
Proof.
  unfold ping. intros H. destruct (is_leader r); [eapply bcast_heartbeat_fr; exact H|].
  inversion H; apply fr_refl.
Qed.

Lemma adjust_max_inflight_msgs_fr r t c r' : adjust_max_inflight_msgs r t c = Ok r' -> fr r r'.
Proof.
  unfold adjust_max_inflight_msgs. intros H. destruct (get_pr r t); [|inversion H; apply fr_refl].
  inv_bind H. inversion H; subst. apply put_pr_fr.
Qed.

Lemma maybe_free_inflight_buffers_fr r : fr r (maybe_free_inflight_buffers r).
Proof. unfold maybe_free_inflight_buffers. fr_solve. Qed.

Lemma set_max_apply_unpersisted_log_limit_fr r k : fr r (set_max_apply_unpersisted_log_limit r k).
Proof. unfold set_max_apply_unpersisted_log_limit. fr_solve. Qed.

Lemma enable_group_commit_fr r e r' : enable_group_commit r e = Ok r' -> fr r r'.
Proof.
  unfold enable_group_commit. intros H.
  set (r0 := r <| r_prs := (r_prs r) <| t_group_commit := e |> |>) in *.
  assert (H0 : fr r r0) by (unfold r0; fr_solve).
  destruct (is_leader r0 && negb e); [|inversion H; subst; exact H0].
  inv_bind H. destruct x as [r1 c]. apply maybe_commit_fr in Hx. cbn [fst snd] in H.
  eapply fr_trans; [exact H0|]. eapply fr_trans; [exact Hx|].
  destruct c; [eapply bcast_append_fr; exact H|inversion H; apply fr_refl].
Qed.

Lemma assign_commit_groups_fr r ids r' : assign_commit_groups r ids = Ok r' -> fr r r'.
Proof.
  unfold assign_commit_groups. intros H. inv_bind H.
  set (r0 := r <| r_prs := (r_prs r) <| t_progress := x |> |>) in *.
  assert (H0 : fr r r0) by (unfold r0; fr_solve).
  destruct (is_leader r0 && t_group_commit (r_prs r0)); [|inversion H; subst; exact H0].
  inv_bind H. destruct x0 as [r1 c]. apply maybe_commit_fr in Hx0. cbn [fst snd] in H.
  eapply fr_trans; [exact H0|]. eapply fr_trans; [exact Hx0|].
  destruct c; [eapply bcast_append_fr; exact H|inversion H; apply fr_refl].
Qed.

Theorem commit_apply_LInv r app r' : commit_apply r app = Ok r' -> LInv r -> LInv r'.
Proof.
  unfold commit_apply. intros H Hinv Hs.
  assert (Hst : r_state r' = r_state r).
  { pose proof (commit_apply_internal_spec _ _ _ _ H) as (l1 & _ & Hc).
    destruct (auto_leave_cond r (applied (r_log r)) app).
    - destruct Hc as (l2 & z & _ & _ & _ & _ & E & _). exact E.
    - subst r'. reflexivity. }
  eapply commit_apply_internal_ConfBound; [exact H|left; reflexivity|]. apply Hinv. congruence.
Qed.

(* --- the RawNode API --- *)

Definition RInv (n : rawnode) : Prop := LInv (rn_raft n).
Definition RB (n : rawnode) : Prop := LBP (r_log (rn_raft n)).

Lemma lift2_step_RInv n m n' c :
  lift2 n (step (rn_raft n) m) = Ok (n', c) -> RB n -> RInv n -> RInv n'.
Proof.
  unfold lift2. intros H Hb Hi. inv_bind H. inversion H; subst. destruct x as [r1 c1].
  unfold RInv. cbn. eapply step_LInv; eassumption.
Qed.

Lemma step_fst_RInv n m x :
  step (rn_raft n) m = Ok x -> RB n -> RInv n -> RInv (n <| rn_raft := fst x |>).
Proof.
  intros H Hb Hi. destruct x as [r1 c1]. unfold RInv. cbn. eapply step_LInv; eassumption.
Qed.

Theorem rn_step_RInv n m n' c : rn_step n m = Ok (n', c) -> RB n -> RInv n -> RInv n'.
Proof.
  unfold rn_step. intros H Hb Hi. destruct (is_local_msg (m_type m)); [inversion H; subst; exact Hi|].
  match type of H with (if ?c then _ else _) = _ => destruct c end;
    [eapply lift2_step_RInv; eassumption|inversion H; subst; exact Hi].
Qed.

Theorem rn_tick_RInv n n' b : rn_tick n = Ok (n', b) -> RB n -> RInv n -> RInv n'.
Proof.
  unfold rn_tick. intros H Hb Hi. inv_bind H. inversion H; subst. destruct x as [r1 b1].
  unfold RInv. cbn. eapply tick_LInv; eassumption.
Qed.

Theorem rn_campaign_RInv n n' c : rn_campaign n = Ok (n', c) -> RB n -> RInv n -> RInv n'.
Proof. unfold rn_campaign. apply lift2_step_RInv. Qed.

Theorem rn_propose_RInv n ctx data n' c :
  rn_propose n ctx data = Ok (n', c) -> RB n -> RInv n -> RInv n'.
Proof. unfold rn_propose. apply lift2_step_RInv. Qed.

Theorem rn_propose_conf_change_RInv n ctx data ty ci n' c :
  rn_propose_conf_change n ctx data ty ci = Ok (n', c) -> RB n -> RInv n -> RInv n'.
Proof. unfold rn_propose_conf_change. apply lift2_step_RInv. Qed.

Theorem rn_apply_conf_change_RInv n cc n' ocs :
  rn_apply_conf_change n cc = Ok (n', ocs) -> RInv n -> RInv n'.
Proof.
  unfold rn_apply_conf_change. intros H Hi. inv_bind H. inversion H; subst. destruct x as [r1 o1].
  unfold RInv. cbn. eapply lk_LInv; [eapply raft_apply_conf_change_lk; eassumption|exact Hi].
Qed.

Theorem rn_ping_RInv n n' : rn_ping n = Ok n' -> RInv n -> RInv n'.
Proof.
  unfold rn_ping, lift. intros H Hi. inv_bind H. inversion H; subst.
  unfold RInv. cbn. eapply fr_LInv; [eapply ping_fr; eassumption|exact Hi].
Qed.

Lemma reduce_uncommitted_size_fr r ce : fr r (reduce_uncommitted_size r ce).
Proof.
  unfold reduce_uncommitted_size. destruct (negb (is_leader r)); [apply fr_refl|].
  match goal with |- context [if ?c then _ else _] => destruct c end; [apply fr_refl|].
  match goal with |- context [if ?c then _ else _] => destruct c end; fr_solve.
Qed.

Lemma gen_light_ready_fr n n' lr :
  gen_light_ready n = Ok (n', lr) -> fr (rn_raft n) (rn_raft n').
Proof.
  unfold gen_light_ready. intros H. inv_bind H. inv_bind H. inversion H; subst. cbn.
  eapply fr_trans; [apply reduce_uncommitted_size_fr|apply set_msgs_fr].
Qed.

Theorem rn_ready_fr n n' rd : rn_ready n = Ok (n', rd) -> fr (rn_raft n) (rn_raft n').
Proof.
  unfold rn_ready. intros H. inv_bind H. inv_bind H. destruct x0 as [[[snap csi] rec_snap] ms2].
  inv_bind H. destruct x0 as [n2 light]. inversion H; subst. cbn.
  apply gen_light_ready_fr in Hx1. cbn in Hx1. eapply fr_trans; [|exact Hx1]. fr_solve.
Qed.

(* persisting (stable_entries / stable_snap) only drops unstable entries *)
Definition ents_shrink (l l' : raft_log) : Prop :=
  (forall e, all_ents l' e -> all_ents l e) /\ applied l' = applied l.

Lemma ConfBoundP_shrink l l' p : ents_shrink l l' -> ConfBoundP l p -> ConfBoundP l' p.
Proof. intros [A B] H e He Hc Ha. rewrite B in Ha. apply H; auto. Qed.

Lemma stable_snap_shrink l i l' : stable_snap l i = Ok l' -> ents_shrink l l'.
Proof.
  unfold stable_snap, u_stable_snap. intros H. inv_bind H. inversion H; subst.
  destruct (u_snapshot (unst l)); [|discriminate].
  destruct (negb (s_index s =? i)); [discriminate|]. inversion Hx; subst.
  split; [|reflexivity]. intros e He. exact He.
Qed.

Lemma stable_entries_shrink l i t l' : stable_entries l i t = Ok l' -> ents_shrink l l'.
Proof.
  unfold stable_entries, u_stable_entries. intros H. inv_bind H. inversion H; subst.
  destruct (u_snapshot (unst l)); [discriminate|].
  destruct (u_entries (unst l)) eqn:Eu; [discriminate|].
  match type of Hx with (if ?c then _ else _) = _ => destruct c end; [discriminate|].
  inversion Hx; subst. split; [|reflexivity].
  intros e1 [He|He]; [destruct He|right; exact He].
Qed.

Lemma ents_shrink_trans a b c : ents_shrink a b -> ents_shrink b c -> ents_shrink a c.
Proof. intros [A1 A2] [B1 B2]. split; [auto|congruence]. Qed.

Lemma ents_shrink_refl a : ents_shrink a a.
Proof. split; auto. Qed.

Theorem commit_ready_RInv n rd n' : commit_ready n rd = Ok n' -> RInv n -> RInv n'.
Proof.
  unfold commit_ready. intros H Hi.
  set (n0 := match rd_hs rd with
             | Some hs => (match rd_ss rd with Some ss => n <| rn_prev_ss := ss |> | None => n end)
                            <| rn_prev_hs := hs |>
             | None => match rd_ss rd with Some ss => n <| rn_prev_ss := ss |> | None => n end
             end) in *.
  assert (Hr0 : rn_raft n0 = rn_raft n) by (unfold n0; destruct (rd_hs rd), (rd_ss rd); reflexivity).
  destruct (rn_records n0); [discriminate|].
  match type of H with (if ?c then _ else _) = _ => destruct c end; [discriminate|].
  inv_bind H. inv_bind H. inversion H; subst. unfold RInv. cbn. rewrite Hr0 in *.
  assert (Hsh : ents_shrink (r_log (rn_raft n)) x0).
  { eapply ents_shrink_trans with (b := x).
    - destruct (rr_snapshot _) as [[i t]|]; [eapply stable_snap_shrink; exact Hx|].
      inversion Hx; subst; apply ents_shrink_refl.
    - destruct (rr_last_entry _) as [[i t]|]; [eapply stable_entries_shrink; exact Hx0|].
      inversion Hx0; subst; apply ents_shrink_refl. }
  intros Hs. cbn in Hs. unfold ConfBound. cbn.
  eapply ConfBoundP_shrink; [exact Hsh|]. apply Hi. exact Hs.
Qed.

Theorem rn_on_persist_ready_fr n k n' :
  rn_on_persist_ready n k = Ok n' -> fr (rn_raft n) (rn_raft n').
Proof.
  unfold rn_on_persist_ready. intros H.
  destruct (fold_records (rn_records n) k 0 0 0) as [[[recs index] t] snap_index].
  inv_bind H. inv_bind H. inversion H; subst. cbn. cbn in Hx, Hx0.
  eapply fr_trans with (b := x).
  - destruct (negb (snap_index =? 0)); [eapply on_persist_snap_fr; exact Hx|].
    inversion Hx; subst; apply fr_refl.
  - destruct (negb (index =? 0)); [eapply on_persist_entries_fr; exact Hx0|].
    inversion Hx0; subst; apply fr_refl.
Qed.

Theorem rn_advance_append_RInv n rd n' lr :
  rn_advance_append n rd = Ok (n', lr) -> RInv n -> RInv n'.
Proof.
  unfold rn_advance_append. intros H Hi. inv_bind H. inv_bind H. inv_bind H.
  destruct x1 as [n3 light].
  apply commit_ready_RInv in Hx; [|exact Hi]. apply rn_on_persist_ready_fr in Hx0.
  apply gen_light_ready_fr in Hx1.
  assert (H3 : RInv n3).
  { unfold RInv in *. eapply fr_LInv; [exact Hx1|]. eapply fr_LInv; [exact Hx0|exact Hx]. }
  match type of H with (if ?c then _ else _) = _ => destruct c end; [discriminate|].
  inv_bind H. destruct x1 as [n4 ci].
  assert (H4 : rn_raft n4 = rn_raft n3).
  { match type of Hx2 with (if ?c then _ else _) = _ => destruct c end.
    - inversion Hx2; subst. reflexivity.
    - match type of Hx2 with (if ?c then _ else _) = _ => destruct c end; [discriminate|].
      inversion Hx2; subst. reflexivity. }
  match type of H with (if ?c then _ else _) = _ => destruct c end; [discriminate|].
  inversion H; subst. unfold RInv in *. rewrite H4. exact H3.
Qed.

Theorem rn_advance_apply_to_RInv n app n' : rn_advance_apply_to n app = Ok n' -> RInv n -> RInv n'.
Proof.
  unfold rn_advance_apply_to, lift. intros H Hi. inv_bind H. inversion H; subst.
  unfold RInv. cbn. eapply commit_apply_LInv; eassumption.
Qed.

Theorem rn_advance_apply_RInv n n' : rn_advance_apply n = Ok n' -> RInv n -> RInv n'.
Proof. unfold rn_advance_apply. apply rn_advance_apply_to_RInv. Qed.

Theorem rn_advance_RInv n rd n' lr : rn_advance n rd = Ok (n', lr) -> RInv n -> RInv n'.
Proof.
  unfold rn_advance. intros H Hi. inv_bind H. inv_bind H. inversion H; subst. destruct x as [n1 l1].
  eapply rn_advance_apply_to_RInv; [exact Hx0|]. eapply rn_advance_append_RInv; eassumption.
Qed.

Theorem rn_report_unreachable_RInv n id n' :
  rn_report_unreachable n id = Ok n' -> RB n -> RInv n -> RInv n'.
Proof.
  unfold rn_report_unreachable. intros H Hb Hi. inv_bind H. inversion H; subst.
  eapply step_fst_RInv; eassumption.
Qed.

Theorem rn_report_snapshot_RInv n id f n' :
  rn_report_snapshot n id f = Ok n' -> RB n -> RInv n -> RInv n'.
Proof.
  unfold rn_report_snapshot. intros H Hb Hi. inv_bind H. inversion H; subst.
  eapply step_fst_RInv; eassumption.
Qed.

Theorem rn_request_snapshot_RInv n n' c : rn_request_snapshot n = Ok (n', c) -> RInv n -> RInv n'.
Proof.
  unfold rn_request_snapshot, lift2. intros H Hi. inv_bind H. inversion H; subst.
  destruct x as [r1 c1]. unfold RInv. cbn.
  eapply fr_LInv; [eapply request_snapshot_fr; eassumption|exact Hi].
Qed.

Theorem rn_transfer_leader_RInv n t n' :
  rn_transfer_leader n t = Ok n' -> RB n -> RInv n -> RInv n'.
Proof.
  unfold rn_transfer_leader. intros H Hb Hi. inv_bind H. inversion H; subst.
  eapply step_fst_RInv; eassumption.
Qed.

Theorem rn_read_index_RInv n ctx n' : rn_read_index n ctx = Ok n' -> RB n -> RInv n -> RInv n'.
Proof.
  unfold rn_read_index. intros H Hb Hi. inv_bind H. inversion H; subst.
  eapply step_fst_RInv; eassumption.
Qed.

(* ------------------------------------------------------------------ *)
(* 3 (continued): through Raft::step, an election is started only by hup (after its scan)
   or by a pre-candidate that has just won the pre-vote *)

Definition st (r r' : raft) : Prop := r_state r' = r_state r /\ r_term r' = r_term r.

Lemma fr_st r r' : fr r r' -> st r r'.
Proof. intros (A & _ & _ & _ & _ & _ & B). split; assumption. Qed.

Lemma st_refl r : st r r. Proof. split; reflexivity. Qed.
Lemma st_trans a b c : st a b -> st b c -> st a c.
Proof. unfold st. intuition congruence. Qed.

Lemma handle_append_entries_st r m r' : handle_append_entries r m = Ok r' -> st r r'.
Proof.
  unfold handle_append_entries. intros H.
  destruct (negb (r_pending_request_snapshot r =? INVALID_INDEX)).
  { apply fr_st. eapply send_request_snapshot_fr; exact H. }
  destruct (m_index m <? committed (r_log r)). { apply fr_st. eapply send_fr; exact H. }
  inv_bind H. destruct x as [l' res]. destruct res as [[a b]|].
  - apply send_fr, fr_st in H. exact H.
  - inv_bind H. destruct x as [hi [ht|]]; [|discriminate]. apply send_fr, fr_st in H. exact H.
Qed.

Lemma handle_heartbeat_st r m r' : handle_heartbeat r m = Ok r' -> st r r'.
Proof.
  unfold handle_heartbeat. intros H. inv_bind H.
  match type of H with (if ?c then _ else _) = _ => destruct c end.
  - apply send_request_snapshot_fr, fr_st in H. exact H.
  - apply send_fr, fr_st in H. exact H.
Qed.

Lemma restore_st r s r' b : restore r s = Ok (r', b) -> st r r' \/ r_state r' = Follower.
Proof.
  unfold restore. intros H.
  destruct (s_index s <? committed (r_log r)); [inversion H; left; apply st_refl|].
  destruct (negb (role_eqb (r_state r) Follower)).
  { inv_bind H. inversion H; subst. right. apply become_follower_fields in Hx. apply Hx. }
  match type of H with (if ?c then _ else _) = _ => destruct c end; [inversion H; left; apply st_refl|].
  inv_bind H.
  match type of H with (if ?c then _ else _) = _ => destruct c end.
  { inv_bind H. inversion H; subst. left. split; reflexivity. }
  inv_bind H.
  destruct (ConfChange.restore empty_tracker (s_cs s)) as [[c' ids']|e]; [|discriminate].
  inv_bind H. destruct x1 as [r1 new_cs].
  destruct (negb (conf_state_eq (s_cs s) new_cs)); [discriminate|].
  destruct (get_pr r1 (r_id r1)); [|discriminate].
  destruct (next_idx p =? 0); [discriminate|]. inversion H; subst.
  apply post_conf_change_spec in Hx1. destruct Hx1 as [_ Hf]. apply fr_st in Hf. left. exact Hf.
Qed.

Lemma handle_snapshot_st r m r' : handle_snapshot r m = Ok r' -> st r r' \/ r_state r' = Follower.
Proof.
  unfold handle_snapshot. intros H. inv_bind H. destruct x as [r1 ok].
  apply restore_st in Hx.
  assert (Hs : st r1 r') by (destruct ok; apply send_fr, fr_st in H; exact H).
  destruct Hx as [Hx|Hx]; [left; eapply st_trans; eassumption|right].
  destruct Hs as [A _]. congruence.
Qed.

Lemma maybe_commit_by_vote_st r m r' :
  maybe_commit_by_vote r m = Ok r' -> st r r' \/ r_state r' = Follower.
Proof.
  intros H. apply maybe_commit_by_vote_spec in H.
  destruct H as [-> |(l' & b & _ & _ & _ & _ & _ & [-> |(_ & _ & _ & Hbf)])].
  - left; apply st_refl.
  - left; split; reflexivity.
  - right. apply become_follower_fields in Hbf. apply Hbf.
Qed.

Definition not_cand (r : raft) : Prop := r_state r = Leader \/ r_state r = Follower.

Lemma poll_gen_state rc r from v r' res :
  poll_gen rc r from v = Ok (r', res) ->
  st r r' \/ not_cand r' \/
  (res = VoteWon /\ r_state r = PreCandidate /\
   exists r0, st r r0 /\ rc r0 = Ok r').
Proof.
  unfold poll_gen. intros H.
  set (r0 := r <| r_prs := (r_prs r) <| t_votes := Quorum.record_vote (t_votes (r_prs r)) from v |> |>) in *.
  destruct (Quorum.tracker_vote_result _ _ _).
  - inversion H; subst. left. split; reflexivity.
  - inv_bind H. inversion H; subst. right; left. right. apply become_follower_fields in Hx. apply Hx.
  - destruct (role_eqb (r_state r0) PreCandidate) eqn:E.
    + inv_bind H. inversion H; subst. right; right. split; [reflexivity|].
      split; [change (r_state r0) with (r_state r) in E; destruct (r_state r); try discriminate; reflexivity|].
      exists r0. split; [split; reflexivity|exact Hx].
    + inv_bind H. inv_bind H. inversion H; subst. right; left. left.
      apply become_leader_spec in Hx. destruct Hx as (Hl & _). apply bcast_append_fr in Hx0.
      destruct Hx0 as (E0 & _). congruence.
Qed.

Lemma campaign_real_state tr r r' :
  campaign_real tr r = Ok r' -> r_state r' = Candidate \/ not_cand r'.
Proof.
  unfold campaign_real. intros H. inv_bind H. apply become_candidate_fields in Hx.
  destruct Hx as (Hs & _). inv_bind H. destruct x0 as [r2 res].
  apply poll_gen_state in Hx. 
  assert (H2 : r_state r2 = Candidate \/ not_cand r2).
  { destruct Hx as [[A _]|[A|(_ & A & _)]]; [left; congruence|right; exact A|congruence]. }
  destruct res.
  - inv_bind H. apply send_vote_requests_fr in H. destruct H as (E & _). unfold not_cand. rewrite E. exact H2.
  - inv_bind H. apply send_vote_requests_fr in H. destruct H as (E & _). unfold not_cand. rewrite E. exact H2.
  - inversion H; subst. exact H2.
Qed.

Lemma step_leader_state r m r' c :
  step_leader r m = Ok (r', c) -> r_state r = Leader -> not_cand r'.
Proof.
  intros H Hs. destruct (m_type m =? MsgPropose) eqn:Ep.
  - apply N.eqb_eq in Ep. apply step_leader_propose_spec in H; [|exact Ep].
    destruct H as [(_ & _ & E & _)|(_ & r1 & ents & l' & z & r2 & F & _ & Hc & _ & Hf)].
    + left. congruence.
    + apply filter_frame_fields in F. destruct F as (_ & _ & E1 & _). destruct Hc as (E2 & _).
      destruct Hf as (E3 & _). left. congruence.
  - destruct (step_leader_other _ _ _ _ Ep H) as [(E & _)|E]; [left; congruence|right; exact E].
Qed.

(* the term-handling prologue of step, as a relation *)
Definition prologue (r : raft) (m : msg) (r1 : raft) : Prop :=
  r1 = r \/ exists l, r_term r < m_term m /\ become_follower r (m_term m) l = Ok r1.

Theorem step_campaign_guard r m r' c :
  step r m = Ok (r', c) ->
  (r_state r' = Candidate \/ r_state r' = PreCandidate) ->
  (* nothing started: same role, same term *)
  st r r' \/
  (* a pre-candidate won the pre-vote *)
  (r_state r = PreCandidate /\ r_state r' = Candidate /\ m_type m = MsgRequestPreVoteResponse) \/
  (* hup campaigned, after its scan answered false *)
  (exists r1 tl, prologue r m r1 /\ is_leader r1 = false /\ r_promotable r1 = true /\
     hup_scan r1 false /\
     hup r1 tl = Ok r' /\ (m_type m = MsgHup \/ m_type m = MsgTimeoutNow)).
Proof.
  intros H Hc. unfold step in H. inv_bind H.
  assert (Hpre : match x with
                 | inl (r1, _) => st r r1
                 | inr r1 => prologue r m r1
                 end).
  { clear H. destruct (m_term m =? 0); [inversion Hx; left; reflexivity|].
    destruct (r_term r <? m_term m) eqn:Elt.
    - match type of Hx with (if ?c then _ else _) = _ => destruct c end; [inversion Hx; apply st_refl|].
      match type of Hx with (if ?c then _ else _) = _ => destruct c end; [inversion Hx; left; reflexivity|].
      match type of Hx with (if ?c then _ else _) = _ => destruct c end;
        inv_bind Hx; inversion Hx; subst; right; eexists; (split; [lia|eassumption]).
    - destruct (m_term m <? r_term r); [|inversion Hx; left; reflexivity].
      match type of Hx with (if ?c then _ else _) = _ => destruct c end.
      + inv_bind Hx. inversion Hx; subst. apply fr_st. eapply send_fr; eassumption.
      + match type of Hx with (if ?c then _ else _) = _ => destruct c end.
        * inv_bind Hx. inversion Hx; subst. apply fr_st. eapply send_fr; eassumption.
        * inversion Hx; subst. apply st_refl. }
  destruct x as [[r1 c1]|r1]. { inversion H; subst. left. exact Hpre. }
  clear Hx.
  (* a follower produced by the prologue cannot be the (pre-)candidate r' unless hup ran *)
  assert (Hst1 : st r1 r' -> st r r').
  { intros Hs. destruct Hpre as [-> |(l & _ & Hbf)]; [exact Hs|].
    apply become_follower_fields in Hbf. destruct Hbf as (E & _). destruct Hs as [E' _].
    destruct Hc; congruence. }
  assert (Hnc : forall P : Prop, not_cand r' -> P).
  { intros P [E|E]; destruct Hc; congruence. }
  assert (Hhup : forall tl, hup r1 tl = Ok r' -> (m_type m = MsgHup \/ m_type m = MsgTimeoutNow) ->
     st r r' \/
     (r_state r = PreCandidate /\ r_state r' = Candidate /\ m_type m = MsgRequestPreVoteResponse) \/
     (exists r1 tl, prologue r m r1 /\ is_leader r1 = false /\ r_promotable r1 = true /\
        hup_scan r1 false /\
        hup r1 tl = Ok r' /\ (m_type m = MsgHup \/ m_type m = MsgTimeoutNow))).
  { intros tl Hh Hty.
    pose proof (hup_spec _ _ _ Hh) as [[_ ->]|[(_ & _ & ->)|[(_ & _ & _ & ->)|(Hl & Hpr & Hsc & _)]]].
    - left. apply Hst1, st_refl.
    - left. apply Hst1, st_refl.
    - left. apply Hst1, st_refl.
    - right; right. exists r1, tl. auto 10. }
  destruct (m_type m =? MsgHup) eqn:Ehup.
  { inv_bind H. inversion H; subst. apply N.eqb_eq in Ehup. eapply Hhup; eauto. }
  match type of H with (if ?c then _ else _) = _ => destruct c end.
  { inv_bind H. inv_bind H.
    match type of H with (if ?c then _ else _) = _ => destruct c end.
    - inv_bind H. apply send_fr, fr_st in Hx1. left. apply Hst1.
      destruct (m_type m =? MsgRequestVote); inversion H; subst; [|exact Hx1].
      eapply st_trans; [exact Hx1|]. split; reflexivity.
    - inv_bind H. inv_bind H. inv_bind H. inversion H; subst. apply send_fr, fr_st in Hx2.
      apply maybe_commit_by_vote_st in Hx3. destruct Hx3 as [Hs|Hf].
      + left. apply Hst1. eapply st_trans; eassumption.
      + apply Hnc. right; exact Hf. }
  destruct (r_state r1) eqn:Es.
  - (* follower *)
    unfold step_follower in H.
    assert (Hsame : forall rr, st r1 rr -> Ok (rr, E_OK) = Ok (r', c) ->
               st r r' \/
     (r_state r = PreCandidate /\ r_state r' = Candidate /\ m_type m = MsgRequestPreVoteResponse) \/
     (exists r1 tl, prologue r m r1 /\ is_leader r1 = false /\ r_promotable r1 = true /\
        hup_scan r1 false /\
        hup r1 tl = Ok r' /\ (m_type m = MsgHup \/ m_type m = MsgTimeoutNow))).
    { intros rr Hs E. inversion E; subst. left. apply Hst1. exact Hs. }
    destruct (m_type m =? MsgPropose).
    { destruct (r_leader_id r1 =? INVALID_ID); [inversion H; subst; left; apply Hst1, st_refl|].
      destruct (r_disable_proposal_forwarding r1); [inversion H; subst; left; apply Hst1, st_refl|].
      inv_bind H. eapply Hsame; [|exact H]. apply fr_st. eapply send_fr; eassumption. }
    destruct (m_type m =? MsgAppend).
    { inv_bind H. apply handle_append_entries_st in Hx. eapply Hsame; [|exact H].
      destruct Hx as [A B]. split; [exact A|exact B]. }
    destruct (m_type m =? MsgHeartbeat).
    { inv_bind H. apply handle_heartbeat_st in Hx. eapply Hsame; [|exact H].
      destruct Hx as [A B]. split; [exact A|exact B]. }
    destruct (m_type m =? MsgSnapshot).
    { inv_bind H. apply handle_snapshot_st in Hx. destruct Hx as [[A B]|Hf].
      - eapply Hsame; [|exact H]. split; [exact A|exact B].
      - inversion H; subst. apply Hnc. right; exact Hf. }
    destruct (m_type m =? MsgTransferLeader).
    { destruct (r_leader_id r1 =? INVALID_ID); [inversion H; subst; left; apply Hst1, st_refl|].
      inv_bind H. eapply Hsame; [|exact H]. apply fr_st. eapply send_fr; eassumption. }
    destruct (m_type m =? MsgTimeoutNow) eqn:Eto.
    { destruct (r_promotable r1); [|inversion H; subst; left; apply Hst1, st_refl].
      inv_bind H. inversion H; subst. apply N.eqb_eq in Eto. eapply Hhup; eauto. }
    destruct (m_type m =? MsgReadIndex).
    { destruct (r_leader_id r1 =? INVALID_ID); [inversion H; subst; left; apply Hst1, st_refl|].
      inv_bind H. eapply Hsame; [|exact H]. apply fr_st. eapply send_fr; eassumption. }
    destruct (m_type m =? MsgReadIndexResp).
    { destruct (m_entries m) as [|e [|e2 rest]]; try (inversion H; subst; left; apply Hst1, st_refl).
      inv_bind H. inversion H; subst. left. apply Hst1. split; reflexivity. }
    inversion H; subst. left. apply Hst1, st_refl.
  - (* candidate *)
    assert (Er : r1 = r).
    { destruct Hpre as [E|(l & _ & Hbf)]; [exact E|].
      apply become_follower_fields in Hbf. destruct Hbf as (E & _). congruence. }
    subst r1. unfold step_candidate in H.
    destruct (m_type m =? MsgPropose). { inversion H; subst. left. apply st_refl. }
    match type of H with (if ?c then _ else _) = _ => destruct c end.
    { destruct (negb (r_term r =? m_term m)); [discriminate|].
      inv_bind H. apply become_follower_fields in Hx. destruct Hx as (Hf & _).
      inv_bind H. inversion H; subst. apply Hnc. right.
      destruct (m_type m =? MsgAppend).
      - apply handle_append_entries_state in Hx. congruence.
      - destruct (m_type m =? MsgHeartbeat).
        + apply handle_heartbeat_state in Hx. congruence.
        + apply handle_snapshot_state in Hx. destruct Hx; congruence. }
    match type of H with (if ?c then _ else _) = _ => destruct c end.
    2:{ inversion H; subst. left. apply st_refl. }
    match type of H with (if ?c then _ else _) = _ => destruct c end.
    { inversion H; subst. left. apply st_refl. }
    inv_bind H. destruct x as [r2 res]. inv_bind H. inversion H; subst. cbn [fst] in Hx0.
    apply maybe_commit_by_vote_st in Hx0.
    destruct Hx0 as [Hs2|Hf]; [|apply Hnc; right; exact Hf].
    unfold poll in Hx. apply poll_gen_state in Hx.
    destruct Hx as [Hs1|[Hn|(_ & Ep & _)]].
    + left. eapply st_trans; eassumption.
    + apply Hnc. destruct Hs2 as [E _]. destruct Hn as [E'|E']; [left|right]; congruence.
    + congruence.
  - (* leader *)
    apply step_leader_state in H; [|exact Es]. apply Hnc. exact H.
  - (* pre-candidate *)
    assert (Er : r1 = r).
    { destruct Hpre as [E|(l & _ & Hbf)]; [exact E|].
      apply become_follower_fields in Hbf. destruct Hbf as (E & _). congruence. }
    subst r1. unfold step_candidate in H.
    destruct (m_type m =? MsgPropose). { inversion H; subst. left. apply st_refl. }
    match type of H with (if ?c then _ else _) = _ => destruct c end.
    { destruct (negb (r_term r =? m_term m)); [discriminate|].
      inv_bind H. apply become_follower_fields in Hx. destruct Hx as (Hf & _).
      inv_bind H. inversion H; subst. apply Hnc. right.
      destruct (m_type m =? MsgAppend).
      - apply handle_append_entries_state in Hx. congruence.
      - destruct (m_type m =? MsgHeartbeat).
        + apply handle_heartbeat_state in Hx. congruence.
        + apply handle_snapshot_state in Hx. destruct Hx; congruence. }
    match type of H with (if ?c then _ else _) = _ => destruct c end.
    2:{ inversion H; subst. left. apply st_refl. }
    rewrite Es in H. cbn [role_eqb andb orb] in H.
    destruct (m_type m =? MsgRequestPreVoteResponse) eqn:Ety; cbn [negb] in H.
    2:{ inversion H; subst. left. apply st_refl. }
    apply N.eqb_eq in Ety.
    inv_bind H. destruct x as [r2 res]. inv_bind H. inversion H; subst. cbn [fst] in Hx0.
    apply maybe_commit_by_vote_st in Hx0.
    destruct Hx0 as [Hs2|Hf]; [|apply Hnc; right; exact Hf].
    unfold poll in Hx. apply poll_gen_state in Hx.
    destruct Hx as [Hs1|[Hn|(_ & _ & r0 & _ & Hcr)]].
    + left. eapply st_trans; eassumption.
    + apply Hnc. destruct Hs2 as [E _]. destruct Hn as [E'|E']; [left|right]; congruence.
    + apply campaign_real_state in Hcr. destruct Hs2 as [E _].
      destruct Hcr as [Ec|Hn].
      * right; left. split; [exact Es|]. split; [congruence|exact Ety].
      * apply Hnc. destruct Hn as [E'|E']; [left|right]; congruence.
Qed.

(* ------------------------------------------------------------------ *)
(* slice only returns entries the log holds: a positive scan exhibits a real entry *)

Lemma limit_size_incl l max e : In e (limit_size l max) -> In e l.
Proof.
  unfold limit_size, limit_size_by. destruct (length l <=? 1)%nat; [auto|].
  destruct max as [mx|]; [|auto]. destruct (mx =? NO_LIMIT); [auto|]. apply In_firstn_in.
Qed.

Lemma In_skipn_in {A} (k : nat) (l : list A) e : In e (skipn k l) -> In e l.
Proof. intros H. rewrite <- (firstn_skipn k l). apply in_or_app. right; exact H. Qed.

Lemma store_entries_incl l lo hi max ents e :
  store_entries l lo hi max = Ok (SOk ents) -> In e ents -> In e (entries (store l)).
Proof.
  unfold store_entries, storage_entries. intros H He. inv_bind H. inv_bind Hx.
  repeat match type of Hx with
         | (if ?c then _ else _) = _ => destruct c; [inversion Hx; subst; cbn in H; discriminate|]
         end.
  inv_bind Hx.
  repeat match type of Hx with
         | (if ?c then _ else _) = _ => destruct c; [inversion Hx; subst; cbn in H; discriminate|]
         end.
  inversion Hx; subst. cbn in H. inversion H; subst.
  apply limit_size_incl, In_firstn_in, In_skipn_in in He. exact He.
Qed.

Lemma slice_store_part l lo uh max r1 :
  (r <- store_entries l lo uh max ;;
   match r with
   | SErr Compacted => Ok (inl (SErr Compacted))
   | SErr LogTemporarilyUnavailable => Ok (inl (SErr LogTemporarilyUnavailable))
   | SErr _ => Panic site_l_slice_unavailable
   | SOk ents =>
       if N.of_nat (length ents) <? uh - lo then Ok (inl (SOk ents)) else Ok (inr ents)
   end) = Ok r1 ->
  forall ents, (r1 = inl (SOk ents) \/ r1 = inr ents) ->
  forall e, In e ents -> In e (entries (store l)).
Proof.
  intros H ents Hr e He. inv_bind H. destruct x as [v|er].
  - assert (v = ents).
    { destruct (N.of_nat (length v) <? uh - lo); inversion H; subst;
        destruct Hr as [Hr|Hr]; inversion Hr; reflexivity. }
    subst v. eapply store_entries_incl; eassumption.
  - destruct er; inversion H; subst; destruct Hr as [Hr|Hr]; inversion Hr.
Qed.

Lemma slice_incl l lo hi max ents e :
  slice l lo hi max = Ok (SOk ents) -> In e ents -> all_ents l e.
Proof.
  unfold slice. intros H He. inv_bind H. destruct x; [inversion H|].
  destruct (lo =? hi). { inversion H; subst. destruct He. }
  inv_bind H.
  assert (Hst : forall ents1, (x = inl (SOk ents1) \/ x = inr ents1) ->
                  forall e1, In e1 ents1 -> all_ents l e1).
  { intros ents1 Hr e1 He1. destruct (lo <? u_offset (unst l)).
    - right. eapply slice_store_part; eassumption.
    - inversion Hx0; subst. destruct Hr as [Hr|Hr]; inversion Hr; subst. destruct He1. }
  destruct x as [early|ents1].
  { inversion H; subst. eapply Hst; [left; reflexivity|exact He]. }
  inv_bind H. inversion H; subst. apply limit_size_incl in He.
  destruct (u_offset (unst l) <? hi).
  - inv_bind Hx1. inversion Hx1; subst. apply in_app_or in He. destruct He as [He|He].
    + eapply Hst; [right; reflexivity|exact He].
    + left. unfold u_slice in Hx2. inv_bind Hx2. inversion Hx2; subst.
      apply In_firstn_in, In_skipn_in in He. exact He.
  - inversion Hx1; subst. eapply Hst; [right; reflexivity|exact He].
Qed.

(* a positive answer of has_unapplied_conf_changes is witnessed by an entry of the log *)
Theorem has_unapplied_true_witness r lo hi :
  has_unapplied_conf_changes r lo hi = Ok true ->
  exists e, all_ents (r_log r) e /\ is_conf_entry e = true.
Proof.
  intros H. apply has_unapplied_spec in H. destruct H as [[_ H]|[_ H]]; [discriminate|].
  apply scan_conf_true in H. destruct H as (pages & lo' & ents & _ & _ & Hs & He).
  apply existsb_exists in He. destruct He as (e & Hin & Hc). exists e. split; [|exact Hc].
  eapply slice_incl; eassumption.
Qed.

(* the leader invariant for the remaining Raft API functions, in LInv form *)
Theorem raft_apply_conf_change_LInv r cc r' ocs :
  raft_apply_conf_change r cc = Ok (r', ocs) -> LInv r -> LInv r'.
Proof. intros H. apply lk_LInv. eapply raft_apply_conf_change_lk; exact H. Qed.

Theorem on_persist_entries_LInv r i t r' : on_persist_entries r i t = Ok r' -> LInv r -> LInv r'.
Proof. intros H. apply fr_LInv. eapply on_persist_entries_fr; exact H. Qed.

Theorem on_persist_snap_LInv r i r' : on_persist_snap r i = Ok r' -> LInv r -> LInv r'.
Proof. intros H. apply fr_LInv. eapply on_persist_snap_fr; exact H. Qed.

Theorem misc_api_LInv :
  (forall r hs r', load_state r hs = Ok r' -> LInv r -> LInv r') /\
  (forall r r' c, request_snapshot r = Ok (r', c) -> LInv r -> LInv r') /\
  (forall r r', ping r = Ok r' -> LInv r -> LInv r') /\
  (forall r t c r', adjust_max_inflight_msgs r t c = Ok r' -> LInv r -> LInv r') /\
  (forall r, LInv r -> LInv (maybe_free_inflight_buffers r)) /\
  (forall r k, LInv r -> LInv (set_max_apply_unpersisted_log_limit r k)) /\
  (forall r e r', enable_group_commit r e = Ok r' -> LInv r -> LInv r') /\
  (forall r ids r', assign_commit_groups r ids = Ok r' -> LInv r -> LInv r').
Proof.
  repeat split.
  - intros r hs r' H. apply lk_LInv. eapply load_state_lk; exact H.
  - intros r r' c H. apply fr_LInv. eapply request_snapshot_fr; exact H.
  - intros r r' H. apply fr_LInv. eapply ping_fr; exact H.
  - intros r t c r' H. apply fr_LInv. eapply adjust_max_inflight_msgs_fr; exact H.
  - intros r. apply fr_LInv. apply maybe_free_inflight_buffers_fr.
  - intros r k. apply fr_LInv. apply set_max_apply_unpersisted_log_limit_fr.
  - intros r e r' H. apply fr_LInv. eapply enable_group_commit_fr; exact H.
  - intros r ids r' H. apply fr_LInv. eapply assign_commit_groups_fr; exact H.
Qed.

Theorem rn_ready_RInv n n' rd : rn_ready n = Ok (n', rd) -> RInv n -> RInv n'.
Proof. intros H. unfold RInv. apply fr_LInv. eapply rn_ready_fr; exact H. Qed.

Theorem rn_on_persist_ready_RInv n k n' : rn_on_persist_ready n k = Ok n' -> RInv n -> RInv n'.
Proof. intros H. unfold RInv. apply fr_LInv. eapply rn_on_persist_ready_fr; exact H. Qed.

Theorem rn_advance_append_async_RInv n rd n' :
  rn_advance_append_async n rd = Ok n' -> RInv n -> RInv n'.
Proof. unfold rn_advance_append_async. apply commit_ready_RInv. Qed.

(* ------------------------------------------------------------------ *)
(* 1 (assembled): the complete characterisation of the proposal filter *)
Theorem propose_filter r ents info i r' ents' ok :
  filter_conf_changes r ents info i = (r', ents', ok) ->
  length ents' = length ents /\
  r' = r <| r_pending_conf_index := r_pending_conf_index r' |> /\
  (ok = false <->
     exists k e, nth_error ents k = Some e /\ is_conf_entry e = true /\ nth k info 0 = 1) /\
  (ok = true ->
     filt_state r ents info i (length ents) = r' /\
     forall k e, nth_error ents k = Some e ->
       let rk := filt_state r ents info i k in
       let rk1 := filt_state r ents info i (S k) in
       (is_conf_entry e = false -> nth_error ents' k = Some e /\ rk1 = rk) /\
       (is_conf_entry e = true ->
          nth k info 0 <> 1 /\
          ((cc_allowed rk (nth k info 0) /\ nth_error ents' k = Some e /\
            rk1 = rk <| r_pending_conf_index := last_index (r_log r) + i + N.of_nat k + 1 |>) \/
           (~ cc_allowed rk (nth k info 0) /\ nth_error ents' k = Some entry_default /\ rk1 = rk)))).
Proof.
  intros H. split; [eapply filter_length; exact H|]. split; [eapply filter_frame; exact H|].
  split; [eapply filter_ok_false_iff; exact H|].
  intros ->. split; [eapply filt_state_all; exact H|]. eapply filter_pointwise; exact H.
Qed.

(* ------------------------------------------------------------------ *)
(* bridge to C14: under the RaftLog representation invariant, with no pending snapshot,
   the hypothesis LBP of the election theorems holds *)
From RV Require M.MemStorageProofs M.RaftLogProofs.

Transparent last_index.
Theorem RepInv_bound_persisted rw l :
  RaftLogProofs.RepInv rw l -> u_snapshot (unst l) = None ->
  last_index l = persisted l -> LogBounded l.
Proof.
  intros H Hs Hp e He.
  destruct H as [Hst _ Hct Hsh Hper _ _ _]. rewrite Hs in Hsh.
  destruct Hsh as (Hr & Hemp & _). destruct Hper as [Hp1 Hp2].
  assert (Hu : u_entries (unst l) = []).
  { destruct (u_entries (unst l)) as [|e0 es] eqn:Eu; [reflexivity|]. exfalso.
    unfold last_index, u_maybe_last_index in Hp. rewrite Eu in Hp. cbn [length] in Hp. lia. }
  specialize (Hemp Hu).
  assert (Hli : last_index l = MemStorageProofs.next_of (store l) - 1).
  { unfold last_index, u_maybe_last_index. rewrite Hu, Hs. cbn [option_map].
    apply RaftLogProofs.storage_last_next. exact Hst. }
  rewrite Hli. destruct He as [He|He]; [rewrite Hu in He; destruct He|].
  apply In_nth_error in He. destruct He as (k & Hk).
  destruct Hst as (Hc & _).
  pose proof (MemStorageProofs.contig_nth _ _ _ _ Hc Hk) as Hi.
  assert (Hlt : (k < length (entries (store l)))%nat) by (apply nth_error_Some; congruence).
  unfold MemStorageProofs.next_of. lia.
Qed.

(* the hypothesis LBP of the election theorems: it holds whenever the store does not
   reach beyond the log's last index (no stale stored tail) -- in particular for a fully
   persisted log and for a log whose unstable entries extend the store *)
Theorem RepInv_LBP rw l :
  RaftLogProofs.RepInv rw l -> u_snapshot (unst l) = None ->
  storage_last_index (store l) <= last_index l -> LBP l.
Proof.
  intros H Hs Hle e He.
  destruct H as [Hst _ Hct _ _ _ _ _].
  destruct He as [He|He].
  - apply In_nth_error in He. destruct He as (k & Hk).
    pose proof (MemStorageProofs.contig_nth _ _ _ _ Hct Hk) as Hi.
    assert (Hlt : (k < length (u_entries (unst l)))%nat) by (apply nth_error_Some; congruence).
    unfold last_index, u_maybe_last_index.
    destruct (u_entries (unst l)) as [|e0 es] eqn:Eu; [cbn in Hlt; lia|].
    remember (length (e0 :: es)) as n. clear - Hi Hlt. lia.
  - rewrite (RaftLogProofs.storage_last_next _ Hst) in Hle.
    apply In_nth_error in He. destruct He as (k & Hk).
    destruct Hst as (Hc & _).
    pose proof (MemStorageProofs.contig_nth _ _ _ _ Hc Hk) as Hi.
    assert (Hlt : (k < length (entries (store l)))%nat) by (apply nth_error_Some; congruence).
    unfold MemStorageProofs.next_of in Hle. lia.
Qed.

Theorem RepInv_LBP_persisted rw l :
  RaftLogProofs.RepInv rw l -> u_snapshot (unst l) = None -> last_index l = persisted l -> LBP l.
Proof. exact (RepInv_bound_persisted rw l). Qed.
Opaque last_index.

(* ConfBound speaks about every entry physically held; in particular about the logical
   log of C14 (stored entries below the unstable offset, then the unstable entries) *)
Lemma abs_ents_all l e :
  In e (RaftLogProofs.ll_ents (RaftLogProofs.abs l)) -> all_ents l e.
Proof.
  unfold RaftLogProofs.abs. destruct (u_snapshot (unst l)); cbn [RaftLogProofs.ll_ents]; intros H.
  - left; exact H.
  - apply in_app_or in H. destruct H as [H|H]; [right|left; exact H].
    unfold RaftLogProofs.stable_part in H. eapply In_firstn_in; exact H.
Qed.

Theorem ConfBound_logical r :
  ConfBound r ->
  forall e, In e (RaftLogProofs.ll_ents (RaftLogProofs.abs (r_log r))) ->
    is_conf_entry e = true -> applied (r_log r) < e_index e ->
    e_index e <= r_pending_conf_index r.
Proof. intros H e He. apply H. apply abs_ents_all; exact He. Qed.

(* ------------------------------------------------------------------ *)
(* concrete states for the non-vacuity examples of Props/C09.v *)
Module C09Samples.

Definition e_norm (t i : N) : entry := mkEntry EntryNormal t i [] [].
Definition e_cc (t i : N) : entry := mkEntry EntryConfChangeV2 t i [7] [].

(* three stored entries 1..3 (entry 3 is [e3]), nothing unstable *)
Definition s_log (e3 : entry) (cm ap : N) : raft_log :=
  mkLog (mkMem (mkHS 2 1 cm) (mkCS [1; 2; 3] [] [] [] false) [e_norm 1 1; e_norm 1 2; e3] 0 0
               false false None)
        (mkUn None [] 0 4) cm 3 ap 0.

Definition s_pr (m : N) : progress := mkPr m (m + 1) Replicate false 0 0 true (Inflights.new 4) 0 0.

Definition s_prs (c : conf) : Raft.tracker :=
  mkTr [(1, s_pr 3); (2, s_pr 3); (3, s_pr 3)] c [] 4 false.

Definition c3 : conf := mkConf [1; 2; 3] [] [] [] false.
(* joint configuration {1,2,3} -> {1,2}, auto-leave *)
Definition c3j : conf := mkConf [1; 2] [1; 2; 3] [] [] true.
(* node 1 is a learner *)
Definition c3l : conf := mkConf [2; 3] [] [1] [] false.

Definition s_raft (st : role) (l : raft_log) (c : conf) (pending : N) (promotable : bool) (lead : N)
  : raft :=
  mkRaft 2 1 1 [] l 4 u64_max 0 st promotable lead None pending (ro_new 0) 0 0 false false false
         false false 1 10 15 10 20 0%Z u64_max 0 3 u64_max (s_prs c) [] [12; 13; 14] None.

(* a leader, everything applied *)
Definition s_leader : raft := s_raft Leader (s_log (e_norm 2 3) 3 3) c3 0 true 1.
(* a candidate about to win *)
Definition s_candidate : raft := s_raft Candidate (s_log (e_norm 1 3) 2 2) c3 0 true 0.
(* a follower whose committed entry 3 is an unapplied membership change *)
Definition s_follower_cc : raft := s_raft Follower (s_log (e_cc 1 3) 3 2) c3 0 true 2.
(* the same with a normal entry *)
Definition s_follower : raft := s_raft Follower (s_log (e_norm 1 3) 3 2) c3 0 true 2.
(* a learner whose election timer is about to fire *)
Definition s_learner : raft := s_raft Follower (s_log (e_norm 1 3) 3 3) c3l 0 false 2.
(* a leader in an auto-leave joint configuration whose enter-joint entry 3 is being applied *)
Definition s_leader_joint : raft := s_raft Leader (s_log (e_cc 2 3) 3 2) c3j 3 true 1.

(* a single-voter node restarted with a lagging commit/applied index: entries 2 and 3 are
   membership changes, only entry 1 is committed and applied *)
Definition s_solo : raft :=
  mkRaft 2 1 1 []
    (mkLog (mkMem (mkHS 2 1 1) (mkCS [1] [] [] [] false) [e_norm 1 1; e_cc 1 2; e_cc 2 3] 0 0
                  false false None) (mkUn None [] 0 4) 1 3 1 0)
    4 u64_max 0 Follower true 0 None 0 (ro_new 0) 0 0 false false false
    false false 1 10 15 10 20 0%Z u64_max 0 3 u64_max
    (mkTr [(1, s_pr 3)] (mkConf [1] [] [] [] false) [] 4 false) [] [12; 13; 14] None.

(* a proposal: two membership changes and a normal entry *)
Definition s_prop : msg :=
  msg_default <| m_type := MsgPropose |> <| m_from := 1 |>
    <| m_entries := [e_cc 0 0; e_cc 0 0; e_norm 0 0] |> <| m_ccinfo := [3; 3; 0] |>.

(* a leader whose uncommitted-size budget is exhausted, and a one-entry membership proposal *)
Definition s_leader_full : raft :=
  s_leader <| r_max_uncommitted_size := 1 |> <| r_uncommitted_size := 1 |>.
Definition s_prop1 : msg :=
  msg_default <| m_type := MsgPropose |> <| m_from := 1 |>
    <| m_entries := [e_cc 0 0] |> <| m_ccinfo := [3] |>.
(* a proposal whose second membership change does not decode *)
Definition s_prop_bad : msg :=
  msg_default <| m_type := MsgPropose |> <| m_from := 1 |>
    <| m_entries := [e_cc 0 0; e_cc 0 0] |> <| m_ccinfo := [3; 1] |>.

(* a candidate whose entry 3 (not yet known committed) is a membership change, and a vote
   rejection telling it that entry 3 is committed *)
Definition s_candidate_cc : raft := s_raft Candidate (s_log (e_cc 1 3) 2 2) c3 0 true 0.
Definition s_vresp : msg :=
  msg_default <| m_type := MsgRequestVoteResponse |> <| m_from := 2 |> <| m_term := 2 |>
    <| m_reject := true |> <| m_commit := 3 |> <| m_commit_term := 1 |>.
(* a snapshot in whose configuration node 1 is a learner *)
Definition s_snap : snapshot := mkSnap 5 2 (mkCS [2; 3; 4] [1] [] [] false).

(* a follower whose storage was compacted by an asynchronously applied snapshot at index 5
   (stabilized: nothing unstable) while the library's applied index is still 2:
   applied + 1 = 3 < first_index = 6; entry 6 is committed *)
Definition s_compacted : raft :=
  s_raft Follower
    (mkLog (mkMem (mkHS 2 1 6) (mkCS [1; 2; 3] [] [] [] false) [e_norm 2 6] 5 2
                  false false None)
           (mkUn None [] 0 7) 6 6 2 0)
    c3 0 true 2.

(* a single-voter follower with an unpersisted tail: entry 1 is stored, entry 2 is still
   unstable (last_index = 2 > persisted = 1) *)
Definition s_solo_tail : raft :=
  mkRaft 2 1 1 []
    (mkLog (mkMem (mkHS 2 1 1) (mkCS [1] [] [] [] false) [e_norm 1 1] 0 0
                  false false None) (mkUn None [e_norm 2 2] 0 2) 1 1 1 0)
    4 u64_max 0 Follower true 0 None 0 (ro_new 0) 0 0 false false false
    false false 1 10 15 10 20 0%Z u64_max 0 3 u64_max
    (mkTr [(1, s_pr 1)] (mkConf [1] [] [] [] false) [] 4 false) [] [12; 13; 14] None.

(* a single-voter candidate whose unstable entry 2 has truncated the log under a stored
   tail: the store still physically holds a stale membership-change entry at index 3,
   above last_index = 2 (so LogBounded fails), and persisted = 1 < last_index *)
Definition s_cand_stale : raft :=
  mkRaft 2 1 1 []
    (mkLog (mkMem (mkHS 2 1 1) (mkCS [1] [] [] [] false) [e_norm 1 1; e_norm 1 2; e_cc 1 3] 0 0
                  false false None) (mkUn None [e_norm 2 2] 0 2) 1 1 1 0)
    4 u64_max 0 Candidate true 0 None 0 (ro_new 0) 0 0 false false false
    false false 1 10 15 10 20 0%Z u64_max 0 3 u64_max
    (mkTr [(1, s_pr 1)] (mkConf [1] [] [] [] false) [] 4 false) [] [12; 13; 14] None.

End C09Samples.

(* the pre-fix form of become_leader_ConfBound' ("the bound on the log is needed only if the
   log is fully persisted") relied on the assertion removed by fix 19c179c and is false of
   the fixed model: *)
Theorem become_leader_covers_persisted_refuted :
  exists r r', become_leader r = Ok r' /\
    (last_index (r_log r) = persisted (r_log r) -> LogBounded (r_log r)) /\
    ~ ConfBound r'.
Proof.
  exists C09Samples.s_cand_stale.
  destruct (become_leader C09Samples.s_cand_stale) as [r'|s] eqn:E; [|vm_compute in E; discriminate].
  exists r'. split; [reflexivity|]. split.
  - intros H. vm_compute in H. discriminate.
  - intros Hc. vm_compute in E. inversion E; subst; clear E.
    specialize (Hc (C09Samples.e_cc 1 3)).
    assert (K : e_index (C09Samples.e_cc 1 3) <= 2).
    { apply Hc; [right; cbn; auto|reflexivity|vm_compute; reflexivity]. }
    vm_compute in K. apply K. reflexivity.
Qed.

(* statements pinned in Props/C09.v whose proofs are more than [exact] *)
Lemma C09_ConfBound_def_pin :
  forall r, ConfBound r <->
    (forall e, In e (u_entries (unst (r_log r))) \/ In e (entries (store (r_log r))) ->
       is_conf_entry e = true -> applied (r_log r) < e_index e ->
       e_index e <= r_pending_conf_index r).
Proof. intros r. unfold ConfBound, ConfBoundP, all_ents. reflexivity. Qed.

Lemma C09_LogBounded_def_pin :
  forall l, LogBounded l <->
    (forall e, In e (u_entries (unst l)) \/ In e (entries (store l)) -> e_index e <= last_index l).
Proof. intros l. unfold LogBounded, all_ents. reflexivity. Qed.

Lemma C09_LInv_def_pin : forall r, LInv r <-> (r_state r = Leader -> ConfBound r).
Proof. intros r. unfold LInv. reflexivity. Qed.

Lemma C09_RInv_def_pin :
  forall n, (RInv n <-> (r_state (rn_raft n) = Leader -> ConfBound (rn_raft n))) /\
            (RB n <-> LogBounded (r_log (rn_raft n))).
Proof. intros n. unfold RInv, RB, LInv, LBP. split; reflexivity. Qed.

Lemma C09_hup_guard_pin :
  forall r tl r',
  hup r tl = Ok r' -> r' <> r ->
  is_leader r = false /\ r_promotable r = true /\ hup_scan r false.
Proof. intros r tl r' H Hne. destruct (hup_guard r tl r' H Hne) as (A & B & C0 & _). auto. Qed.

