(* C16 — PreVote + CheckQuorum: per-step and trace theorems about M/Raft.v.
   Part 1: frame lemmas (what every helper leaves untouched).
   Part 2: pre-vote campaign.  Part 3: when the term changes.
   Part 4: the receiver of a pre-vote request.  Part 5: the leader side. *)
From RV Require Import Base.Prelude Base.IdSet Base.IdSetProofs M.Util M.Proto M.MemStorage M.Inflights
  M.Progress M.RaftLog M.Quorum M.QuorumProofs M.ConfChange M.Msg M.Raft M.RaftProofs.
From RecordUpdate Require Import RecordSet.
Import RecordSetNotations.

Local Open Scope N_scope.

(* ------------------------------------------------------------------ *)
(* Part 1: frames *)

(* the static configuration of a node: nothing in step/tick writes it *)
Definition cfg_of (r : raft) :=
  (r_id r, r_pre_vote r, r_check_quorum r, r_election_timeout r, r_heartbeat_timeout r).

(* the "hard" election state *)
Definition core (r : raft) := (r_term r, r_vote r, r_state r, r_leader_id r, cfg_of r).

(* [keeps r r']: term, vote, role, leader and configuration are those of [r] *)
Definition keeps (r r' : raft) : Prop := core r' = core r.
(* [keeps_t r r']: term and configuration are those of [r] *)
Definition keeps_t (r r' : raft) : Prop := r_term r' = r_term r /\ cfg_of r' = cfg_of r.

Lemma keeps_refl r : keeps r r. Proof. reflexivity. Qed.
Lemma keeps_trans a b c : keeps a b -> keeps b c -> keeps a c.
Proof. unfold keeps. congruence. Qed.
Lemma keeps_t_refl r : keeps_t r r. Proof. split; reflexivity. Qed.
Lemma keeps_t_trans a b c : keeps_t a b -> keeps_t b c -> keeps_t a c.
Proof. unfold keeps_t. intuition congruence. Qed.
Lemma keeps_keeps_t a b : keeps a b -> keeps_t a b.
Proof. unfold keeps, keeps_t, core. intros H. split; congruence. Qed.

Lemma keeps_fields r r' : keeps r r' ->
  r_term r' = r_term r /\ r_vote r' = r_vote r /\ r_state r' = r_state r /\
  r_leader_id r' = r_leader_id r /\ cfg_of r' = cfg_of r.
Proof. unfold keeps, core. intros H. repeat split; congruence. Qed.

Lemma cfg_fields r r' : cfg_of r' = cfg_of r ->
  r_id r' = r_id r /\ r_pre_vote r' = r_pre_vote r /\ r_check_quorum r' = r_check_quorum r /\
  r_election_timeout r' = r_election_timeout r /\ r_heartbeat_timeout r' = r_heartbeat_timeout r.
Proof. unfold cfg_of. intros H. repeat split; congruence. Qed.

Ltac dtop H :=
  match type of H with
  | (if ?c then _ else _) = _ => destruct c eqn:?
  | (match ?c with _ => _ end) = _ => destruct c eqn:?
  end.

Ltac okinv H := inversion H; subst; clear H.
Ltac ib H x Hx := apply bind_ok in H; destruct H as (x & Hx & H).

Lemma send_keeps r m r' : send r m = Ok r' -> keeps r r'.
Proof. unfold send. intros H. inv_bind H. okinv H. reflexivity. Qed.

(* everything but the outbox is untouched *)
Definition msgs_only (r r' : raft) : Prop := r' = r <| r_msgs := r_msgs r' |>.
Lemma msgs_only_refl r : msgs_only r r.
Proof. unfold msgs_only. destruct r; reflexivity. Qed.
Lemma msgs_only_trans a b c : msgs_only a b -> msgs_only b c -> msgs_only a c.
Proof. unfold msgs_only. intros H1 H2. rewrite H2. rewrite H1 at 1. destruct a; reflexivity. Qed.
Lemma msgs_only_keeps r r' : msgs_only r r' -> keeps r r'.
Proof. unfold msgs_only. intros H. rewrite H. reflexivity. Qed.
Lemma send_msgs_only r m r' : send r m = Ok r' -> msgs_only r r'.
Proof. unfold send. intros H. inv_bind H. okinv H. unfold msgs_only. reflexivity. Qed.

Lemma maybe_send_append_keeps r to pr ae r' pr' b :
  maybe_send_append r to pr ae = Ok (r', pr', b) -> keeps r r'.
Proof.
  unfold maybe_send_append. intros H.
  assert (Hsnap : forall m,
    (x <- prepare_send_snapshot r m pr to ;;
     match x with
     | None => Ok (r, pr, false)
     | Some (m', pr') => r' <- send r m' ;; Ok (r', pr', true)
     end) = Ok (r', pr', b) -> keeps r r').
  { intros m Hs. inv_bind Hs. destruct x as [[m' p']|].
    - inv_bind Hs. okinv Hs. eapply send_keeps; eassumption.
    - okinv Hs. apply keeps_refl. }
  dtop H; [okinv H; apply keeps_refl|].
  dtop H; [eapply Hsnap; eassumption|].
  inv_bind H.
  dtop H; [okinv H; apply keeps_refl|].
  dtop H; [discriminate|].
  inv_bind H.
  destruct x0 as [t|e]; destruct x as [ents|e'];
    try (eapply Hsnap; eassumption);
    try (destruct e'; try (eapply Hsnap; eassumption); okinv H; apply keeps_refl).
  inv_bind H. destruct x as [[msgs' pr1] batched].
  destruct batched; [okinv H; reflexivity|].
  inv_bind H. destruct x as [m' pr2]. inv_bind H. okinv H.
  eapply send_keeps; eassumption.
Qed.

Lemma put_pr_keeps r id p : keeps r (put_pr r id p).
Proof. reflexivity. Qed.

Lemma send_append_to_keeps r to r' : send_append_to r to = Ok r' -> keeps r r'.
Proof.
  unfold send_append_to. intros H. destruct (get_pr r to); [|discriminate].
  inv_bind H. destruct x as [[r1 p1] b]. okinv H.
  apply maybe_send_append_keeps in Hx. exact Hx.
Qed.

Lemma send_append_aggressively_loop_keeps fuel : forall r to pr r' pr',
  send_append_aggressively_loop fuel r to pr = Ok (r', pr') -> keeps r r'.
Proof.
  induction fuel as [|f IH]; intros r to pr r' pr' H; cbn in H; [discriminate|].
  inv_bind H. destruct x as [[r1 p1] b].
  apply maybe_send_append_keeps in Hx.
  destruct b.
  - apply IH in H. eapply keeps_trans; eassumption.
  - okinv H. exact Hx.
Qed.

Lemma send_append_aggressively_keeps r to r' :
  send_append_aggressively r to = Ok r' -> keeps r r'.
Proof.
  unfold send_append_aggressively. intros H. destruct (get_pr r to); [|discriminate].
  inv_bind H. destruct x as [r1 p1]. okinv H.
  apply send_append_aggressively_loop_keeps in Hx. exact Hx.
Qed.

Lemma for_each_peer_keeps (f : raft -> N -> Res raft) :
  (forall r id r', f r id = Ok r' -> keeps r r') ->
  forall ids self r r', for_each_peer ids self f r = Ok r' -> keeps r r'.
Proof.
  intros Hf. induction ids as [|id rest IH]; intros self r r' H; cbn in H.
  - okinv H. apply keeps_refl.
  - destruct (id =? self); [eapply IH; eassumption|].
    inv_bind H. apply Hf in Hx. apply IH in H. eapply keeps_trans; eassumption.
Qed.

Lemma bcast_append_keeps r r' : bcast_append r = Ok r' -> keeps r r'.
Proof. apply for_each_peer_keeps. apply send_append_to_keeps. Qed.

Lemma send_heartbeat_keeps r to pr ctx r' : send_heartbeat r to pr ctx = Ok r' -> keeps r r'.
Proof. unfold send_heartbeat. apply send_keeps. Qed.

Lemma bcast_heartbeat_with_ctx_keeps r ctx r' :
  bcast_heartbeat_with_ctx r ctx = Ok r' -> keeps r r'.
Proof.
  apply for_each_peer_keeps. intros r0 id r1 H.
  destruct (get_pr r0 id); [|discriminate]. eapply send_heartbeat_keeps; eassumption.
Qed.

Lemma bcast_heartbeat_keeps r r' : bcast_heartbeat r = Ok r' -> keeps r r'.
Proof. apply bcast_heartbeat_with_ctx_keeps. Qed.

Lemma maybe_commit_keeps r r' b : Raft.maybe_commit r = Ok (r', b) -> keeps r r'.
Proof.
  unfold Raft.maybe_commit. intros H. inv_bind H. destruct x as [l' b'].
  destruct b'; [destruct (get_pr r (r_id r))|]; okinv H; reflexivity.
Qed.

Lemma maybe_increase_uncommitted_size_keeps r es r' b :
  maybe_increase_uncommitted_size r es = (r', b) -> keeps r r'.
Proof.
  unfold maybe_increase_uncommitted_size. intros H.
  dtop H; [okinv H; apply keeps_refl|].
  dtop H; okinv H; reflexivity.
Qed.

Lemma append_entry_keeps r es r' b : append_entry r es = Ok (r', b) -> keeps r r'.
Proof.
  unfold append_entry. intros H.
  destruct (maybe_increase_uncommitted_size r es) as [r1 ok] eqn:E.
  apply maybe_increase_uncommitted_size_keeps in E.
  destruct ok; cbn [negb] in H.
  - inv_bind H. okinv H. exact E.
  - okinv H. exact E.
Qed.

Lemma handle_ready_read_index_keeps r req i r' om :
  handle_ready_read_index r req i = Ok (r', om) -> keeps r r'.
Proof.
  unfold handle_ready_read_index. intros H. dtop H.
  - inv_bind H. okinv H. reflexivity.
  - okinv H. apply keeps_refl.
Qed.

Lemma respond_reads_keeps rss : forall r r', respond_reads r rss = Ok r' -> keeps r r'.
Proof.
  induction rss as [|rs rest IH]; intros r r' H; cbn in H.
  - okinv H. apply keeps_refl.
  - inv_bind H. destruct x as [r1 om]. apply handle_ready_read_index_keeps in Hx.
    inv_bind H. apply IH in H.
    assert (keeps r1 x) by (destruct om; [eapply send_keeps; eassumption|okinv Hx0; apply keeps_refl]).
    eapply keeps_trans; [exact Hx|]. eapply keeps_trans; eassumption.
Qed.

Lemma send_timeout_now_keeps r to r' : send_timeout_now r to = Ok r' -> keeps r r'.
Proof. apply send_keeps. Qed.

Lemma send_request_snapshot_keeps r r' : send_request_snapshot r = Ok r' -> keeps r r'.
Proof.
  unfold send_request_snapshot. intros H. inv_bind H. destruct x; [|discriminate].
  eapply send_keeps; eassumption.
Qed.

Lemma handle_append_entries_keeps r m r' : handle_append_entries r m = Ok r' -> keeps r r'.
Proof.
  unfold handle_append_entries. intros H.
  dtop H; [eapply send_request_snapshot_keeps; eassumption|].
  dtop H; [eapply send_keeps; eassumption|].
  inv_bind H. destruct x as [l' res]. destruct res as [[a last_idx]|].
  - apply send_keeps in H. exact H.
  - inv_bind H. destruct x as [hi [ht|]]; [|discriminate].
    apply send_keeps in H. exact H.
Qed.

Lemma handle_heartbeat_keeps r m r' : handle_heartbeat r m = Ok r' -> keeps r r'.
Proof.
  unfold handle_heartbeat. intros H. inv_bind H.
  dtop H; [apply send_request_snapshot_keeps in H|apply send_keeps in H]; exact H.
Qed.

(* ------------------------------------------------------------------ *)
(* role transitions *)

Lemma reset_facts r t r' : reset r t = Ok r' ->
  r_term r' = t /\ cfg_of r' = cfg_of r /\ r_state r' = r_state r /\
  r_leader_id r' = INVALID_ID /\
  r_vote r' = (if r_term r =? t then r_vote r else INVALID_ID) /\
  r_msgs r' = r_msgs r /\ r_log r' = r_log r /\
  t_conf (r_prs r') = t_conf (r_prs r) /\ t_votes (r_prs r') = [] /\
  r_election_elapsed r' = 0 /\ r_promotable r' = r_promotable r /\
  r_priority r' = r_priority r /\ r_lead_transferee r' = None.
Proof.
  unfold reset. intros H.
  destruct (r_term r =? t) eqn:E; cbn [negb] in H;
    match type of H with match ?d with _ => _ end = _ => destruct d end;
    try discriminate; okinv H; cbn; repeat split; try reflexivity.
  apply N.eqb_eq in E. exact E.
Qed.

Lemma become_follower_facts r t l r' : become_follower r t l = Ok r' ->
  r_term r' = t /\ cfg_of r' = cfg_of r /\ r_state r' = Follower /\
  r_leader_id r' = l /\
  r_vote r' = (if r_term r =? t then r_vote r else INVALID_ID) /\
  r_msgs r' = r_msgs r /\ r_log r' = set_limit (r_log r) 0 /\
  t_conf (r_prs r') = t_conf (r_prs r) /\ t_votes (r_prs r') = [] /\
  r_election_elapsed r' = 0 /\ r_promotable r' = r_promotable r /\
  r_priority r' = r_priority r /\ r_lead_transferee r' = None.
Proof.
  unfold become_follower. intros H. inv_bind H. okinv H.
  apply reset_facts in Hx.
  destruct Hx as (A1 & A2 & A3 & A4 & A5 & A6 & A7 & A8 & A9 & A10 & A11 & A12 & A13).
  cbn. rewrite A7. repeat split; assumption.
Qed.

Lemma become_follower_keeps_t r l r' :
  become_follower r (r_term r) l = Ok r' -> keeps_t r r' /\ r_vote r' = r_vote r.
Proof.
  intros H. apply become_follower_facts in H.
  destruct H as (A1 & A2 & _ & _ & A5 & _). rewrite N.eqb_refl in A5.
  split; [split|]; assumption.
Qed.

Lemma become_candidate_facts r r' : become_candidate r = Ok r' ->
  r_term r' = r_term r + 1 /\ cfg_of r' = cfg_of r /\ r_state r' = Candidate /\
  r_leader_id r' = INVALID_ID /\ r_vote r' = r_id r /\
  r_msgs r' = r_msgs r /\ r_log r' = r_log r /\
  t_conf (r_prs r') = t_conf (r_prs r) /\ t_votes (r_prs r') = [] /\
  r_promotable r' = r_promotable r /\ r_state r <> Leader.
Proof.
  unfold become_candidate. intros H.
  destruct (is_leader r) eqn:E; [discriminate|].
  inv_bind H. okinv H. apply reset_facts in Hx.
  destruct Hx as (A1 & A2 & A3 & A4 & A5 & A6 & A7 & A8 & A9 & A10 & A11 & A12 & A13).
  cbn. pose proof (cfg_fields _ _ A2) as (B1 & _).
  repeat split; try assumption.
  intros C. unfold is_leader in E. rewrite C in E. discriminate.
Qed.

Lemma become_leader_keeps_t r r' : become_leader r = Ok r' ->
  keeps_t r r' /\ r_vote r' = r_vote r /\ r_state r' = Leader /\ r_leader_id r' = r_id r.
Proof.
  unfold become_leader. intros H.
  dtop H; [discriminate|].
  inv_bind H. apply reset_facts in Hx.
  destruct Hx as (A1 & A2 & A3 & A4 & A5 & _). rewrite N.eqb_refl in A5.
  pose proof (cfg_fields _ _ A2) as (B1 & _).
  dtop H; [|discriminate].
  inv_bind H. destruct x0 as [r6 ok]. destruct ok; [|discriminate]. okinv H.
  apply append_entry_keeps in Hx. apply keeps_fields in Hx.
  destruct Hx as (C1 & C2 & C3 & C4 & C5). cbn in C1, C2, C3, C4, C5.
  unfold keeps_t. rewrite C1, C2, C3, C4, C5. cbn. repeat split; try assumption.
Qed.

(* ------------------------------------------------------------------ *)
(* vote requests *)

Lemma set_msgs_twice (r : raft) a b : r <| r_msgs := a |> <| r_msgs := b |> = r <| r_msgs := b |>.
Proof. destruct r; reflexivity. Qed.
Lemma set_msgs_same (r : raft) : r <| r_msgs := r_msgs r |> = r.
Proof. destruct r; reflexivity. Qed.

(* the (pre-)vote request as queued by [send] for peer [id] *)
Definition vote_req (self : N) (l : raft_log) (prio : Z) (vote_msg t cmt cmt_term : N)
           (transfer : bool) (lt : N) (id : N) : msg :=
  let m := (new_message id vote_msg None) <| m_term := t |>
             <| m_index := last_index l |> <| m_log_term := lt |>
             <| m_commit := cmt |> <| m_commit_term := cmt_term |> in
  let m := if transfer then m <| m_context := CAMPAIGN_TRANSFER |> else m in
  let m := m <| m_from := self |> in
  (if (0 <? prio)%Z then m <| m_deprecated_priority := Z.to_N prio |> else m)
    <| m_priority := prio |>.

Lemma vote_req_fields self l prio vm t c ct tr lt id :
  let x := vote_req self l prio vm t c ct tr lt id in
  m_type x = vm /\ m_to x = id /\ m_from x = self /\ m_term x = t /\
  m_index x = last_index l /\ m_log_term x = lt /\ m_commit x = c /\ m_commit_term x = ct /\
  m_reject x = false /\ m_entries x = [] /\
  m_context x = (if tr then CAMPAIGN_TRANSFER else []) /\ m_priority x = prio.
Proof.
  unfold vote_req. destruct tr; destruct (0 <? prio)%Z; cbn; repeat split; reflexivity.
Qed.

Lemma send_vote_msg r m :
  m_from m = INVALID_ID -> (m_type m = MsgRequestVote \/ m_type m = MsgRequestPreVote) ->
  m_term m <> 0 ->
  send r m = Ok (r <| r_msgs := r_msgs r ++
     [(if (0 <? r_priority r)%Z
       then m <| m_from := r_id r |> <| m_deprecated_priority := Z.to_N (r_priority r) |>
       else m <| m_from := r_id r |>) <| m_priority := r_priority r |>] |>).
Proof.
  intros Hf Ht Hz. unfold send. rewrite Hf, N.eqb_refl.
  change (m_type (m <| m_from := r_id r |>)) with (m_type m).
  change (m_term (m <| m_from := r_id r |>)) with (m_term m).
  assert (Hz' : (m_term m =? 0) = false) by (apply N.eqb_neq; exact Hz).
  destruct Ht as [Ht|Ht]; rewrite Ht, Hz';
    [change (is_vote_type MsgRequestVote) with true
    |change (is_vote_type MsgRequestPreVote) with true]; cbn [bind];
    change (m_type (m <| m_from := r_id r |>)) with (m_type m); rewrite Ht; reflexivity.
Qed.

Definition others (self : N) (ids : list N) : list N := filter (fun id => negb (id =? self)) ids.

Lemma send_vote_requests_eq vm t c ct tr :
  (vm = MsgRequestVote \/ vm = MsgRequestPreVote) -> t <> 0 ->
  forall ids r r', send_vote_requests ids r vm t c ct tr = Ok r' ->
  others (r_id r) ids = [] /\ r' = r \/
  exists lt, last_term (r_log r) = Ok lt /\
    r' = r <| r_msgs := r_msgs r ++
            map (vote_req (r_id r) (r_log r) (r_priority r) vm t c ct tr lt) (others (r_id r) ids) |>.
Proof.
  intros Hvm Ht. induction ids as [|id rest IH]; intros r r' H; cbn [send_vote_requests] in H.
  - okinv H. left. split; reflexivity.
  - cbn [others filter]. fold (others (r_id r) rest).
    destruct (id =? r_id r) eqn:E; cbn [negb]; [apply IH; exact H|].
    right. inv_bind H. exists x. split; [exact Hx|]. inv_bind H.
    assert (Hs : x0 = r <| r_msgs := r_msgs r ++
                         [vote_req (r_id r) (r_log r) (r_priority r) vm t c ct tr x id] |>).
    { clear H IH. rewrite send_vote_msg in Hx0.
      - okinv Hx0. unfold vote_req. destruct tr; reflexivity.
      - destruct tr; reflexivity.
      - destruct tr; cbn; exact Hvm.
      - destruct tr; cbn; exact Ht. }
    subst x0. apply IH in H. cbn [r_id r_log r_priority r_msgs set] in H.
    cbn [map]. destruct H as [[H1 H2]|(lt & H1 & H2)].
    + change (r_id (r <| r_msgs := _ |>)) with (r_id r) in H1. rewrite H1. cbn [map]. exact H2.
    + change (r_log (r <| r_msgs := _ |>)) with (r_log r) in H1.
      assert (lt = x) by congruence. subst lt. rewrite H2.
      change (r_id (r <| r_msgs := _ |>)) with (r_id r).
      change (r_log (r <| r_msgs := _ |>)) with (r_log r).
      change (r_priority (r <| r_msgs := _ |>)) with (r_priority r).
      change (r_msgs (r <| r_msgs := ?a |>)) with a.
      rewrite set_msgs_twice, <- app_assoc. reflexivity.
Qed.

Lemma send_vote_requests_msgs_only ids : forall r vm t c ct tr r',
  send_vote_requests ids r vm t c ct tr = Ok r' -> msgs_only r r'.
Proof.
  induction ids as [|id rest IH]; intros r vm t c ct tr r' H; cbn in H.
  - okinv H. apply msgs_only_refl.
  - destruct (id =? r_id r); [eapply IH; eassumption|].
    inv_bind H. inv_bind H. apply send_msgs_only in Hx0. apply IH in H.
    eapply msgs_only_trans; eassumption.
Qed.

(* ------------------------------------------------------------------ *)
(* poll *)

Definition with_votes (r : raft) (v : list (N * bool)) : raft :=
  r <| r_prs := (r_prs r) <| t_votes := v |> |>.

Definition tally (r : raft) (v : list (N * bool)) : vote_res :=
  Quorum.tracker_vote_result (incoming (conf_of r)) (outgoing (conf_of r)) v.

Lemma poll_gen_cases rc r from vote r' res :
  poll_gen rc r from vote = Ok (r', res) ->
  let v := Quorum.record_vote (t_votes (r_prs r)) from vote in
  res = tally r v /\
  match res with
  | VoteWon => if role_eqb (r_state r) PreCandidate then rc (with_votes r v) = Ok r'
               else exists r1, become_leader (with_votes r v) = Ok r1 /\ bcast_append r1 = Ok r'
  | VoteLost => become_follower (with_votes r v) (r_term r) INVALID_ID = Ok r'
  | VotePending => r' = with_votes r v
  end.
Proof.
  unfold poll_gen. intros H. cbn zeta.
  change (conf_of (r <| r_prs := _ |>)) with (conf_of r) in H.
  fold (tally r (Quorum.record_vote (t_votes (r_prs r)) from vote)) in H.
  fold (with_votes r (Quorum.record_vote (t_votes (r_prs r)) from vote)) in H.
  destruct (tally r _) eqn:E.
  - okinv H. split; reflexivity.
  - inv_bind H. okinv H. split; [reflexivity|exact Hx].
  - change (r_state (with_votes r _)) with (r_state r) in H.
    destruct (role_eqb (r_state r) PreCandidate).
    + inv_bind H. okinv H. split; [reflexivity|exact Hx].
    + inv_bind H. inv_bind H. okinv H. split; [reflexivity|]. eexists; split; eassumption.
Qed.

(* a node's own grant alone never loses *)
Lemma own_vote_not_lost inc out id :
  Quorum.tracker_vote_result inc out [(id, true)] <> VoteLost.
Proof.
  unfold Quorum.tracker_vote_result. intros H.
  apply (proj1 (proj1 (proj2 (joint_vote_result_counts inc out _)))) in H.
  assert (Hh : forall V, ~ half_lost V (assoc [(id, true)])).
  { intros V [HV Hlt]. pose proof (vote_partition V (assoc [(id, true)])) as P.
    assert (Hn : no_count (assoc [(id, true)]) V = 0%nat).
    { unfold no_count. apply count_none. intros x _. unfold is_no. cbn.
      destruct (id =? x); reflexivity. }
    pose proof (majority_le (length V) (length_pos _ V HV)). lia. }
  destruct H as [H|H]; eapply Hh; exact H.
Qed.

(* ------------------------------------------------------------------ *)
(* Part 2: campaigns *)

Lemma record_vote_nil id v : Quorum.record_vote [] id v = [(id, v)].
Proof. reflexivity. Qed.

(* the real campaign: term + 1, vote for self; Leader at once iff the own vote wins *)
Lemma campaign_real_facts tr r r' : campaign_real tr r = Ok r' ->
  r_term r' = r_term r + 1 /\ cfg_of r' = cfg_of r /\ r_vote r' = r_id r /\ r_state r <> Leader /\
  ((tally r [(r_id r, true)] = VoteWon /\ r_state r' = Leader /\ r_leader_id r' = r_id r) \/
   (tally r [(r_id r, true)] = VotePending /\ r_state r' = Candidate /\
    r_leader_id r' = INVALID_ID)).
Proof.
  unfold campaign_real. intros H. inv_bind H.
  apply become_candidate_facts in Hx.
  destruct Hx as (A1 & A2 & A3 & A4 & A5 & A6 & A7 & A8 & A9 & A10 & A11).
  pose proof (cfg_fields _ _ A2) as (B1 & _).
  inv_bind H. destruct x0 as [r2 res].
  apply poll_gen_cases in Hx. cbn zeta in Hx. rewrite A9, record_vote_nil, B1 in Hx.
  destruct Hx as [Hres Hx].
  assert (Ht : tally x [(r_id r, true)] = tally r [(r_id r, true)]).
  { unfold tally, conf_of. rewrite A8. reflexivity. }
  rewrite Ht in Hres.
  destruct res.
  - (* pending *)
    subst r2. inv_bind H. apply send_vote_requests_msgs_only in H. apply msgs_only_keeps in H.
    apply keeps_fields in H. destruct H as (C1 & C2 & C3 & C4 & C5).
    cbn in C1, C2, C3, C4, C5. rewrite C1, C2, C3, C4, C5.
    repeat split; try assumption. right. repeat split; try assumption. symmetry; exact Hres.
  - exfalso. unfold tally in Hres. symmetry in Hres. revert Hres. apply own_vote_not_lost.
  - rewrite A3 in Hx. cbn [role_eqb] in Hx. destruct Hx as (r1 & Hl & Hb). okinv H.
    apply become_leader_keeps_t in Hl. destruct Hl as ((C1 & C2) & C3 & C4 & C5).
    apply bcast_append_keeps in Hb. apply keeps_fields in Hb.
    destruct Hb as (D1 & D2 & D3 & D4 & D5).
    cbn in C1, C2, C3, C5. rewrite D1, D2, D3, D4, D5, C1, C2, C3, C4, C5.
    repeat split; try assumption. left. repeat split; try assumption. symmetry; exact Hres.
Qed.

(* the state a node is in right after [become_pre_candidate] and its own pre-vote *)
Definition pre_candidate_of (r : raft) : raft :=
  r <| r_state := PreCandidate |>
    <| r_prs := (r_prs r) <| t_votes := [(r_id r, true)] |> |>
    <| r_leader_id := INVALID_ID |>.

Lemma become_pre_candidate_eq r r' : become_pre_candidate r = Ok r' ->
  r_state r <> Leader /\
  r' = r <| r_state := PreCandidate |> <| r_prs := (r_prs r) <| t_votes := [] |> |>
         <| r_leader_id := INVALID_ID |>.
Proof.
  unfold become_pre_candidate. intros H. destruct (is_leader r) eqn:E; [discriminate|].
  okinv H. split; [|reflexivity]. intros C. unfold is_leader in E. rewrite C in E. discriminate.
Qed.

Theorem become_pre_candidate_spec r r' : become_pre_candidate r = Ok r' ->
  r_state r <> Leader /\
  r_term r' = r_term r /\ r_vote r' = r_vote r /\ r_state r' = PreCandidate /\
  r_leader_id r' = INVALID_ID /\ t_votes (r_prs r') = [] /\
  r_msgs r' = r_msgs r /\ r_log r' = r_log r /\
  r_election_elapsed r' = r_election_elapsed r /\
  r_randomized_election_timeout r' = r_randomized_election_timeout r /\
  r' = r <| r_state := PreCandidate |> <| r_prs := (r_prs r) <| t_votes := [] |> |>
         <| r_leader_id := INVALID_ID |>.
Proof.
  intros H. apply become_pre_candidate_eq in H. destruct H as [H1 H2]. subst r'.
  repeat split; try reflexivity. exact H1.
Qed.

(* the pre-vote campaign, exactly *)
Theorem campaign_pre_spec r r' : campaign_pre r = Ok r' ->
  r_state r <> Leader /\
  ((tally r [(r_id r, true)] = VoteWon /\ campaign_real false (pre_candidate_of r) = Ok r') \/
   (tally r [(r_id r, true)] = VotePending /\
    exists ci new,
      commit_info (r_log r) = Ok ci /\
      r' = (pre_candidate_of r) <| r_msgs := r_msgs r ++ new |> /\
      map m_to new = others (r_id r) (voter_ids (conf_of r)) /\
      forall x, In x new -> exists lt, last_term (r_log r) = Ok lt /\
        x = vote_req (r_id r) (r_log r) (r_priority r) MsgRequestPreVote (r_term r + 1)
                     (fst ci) (snd ci) false lt (m_to x))).
Proof.
  unfold campaign_pre. intros H. inv_bind H.
  apply become_pre_candidate_eq in Hx. destruct Hx as [Hnl Hx]. split; [exact Hnl|].
  inv_bind H. destruct x0 as [r2 res]. unfold poll in Hx0.
  apply poll_gen_cases in Hx0. cbn zeta in Hx0. subst x.
  cbn [r_prs t_votes set r_id r_state r_term] in Hx0, H.
  change (t_votes (r_prs (r <| r_state := PreCandidate |>
            <| r_prs := (r_prs r) <| t_votes := [] |> |> <| r_leader_id := INVALID_ID |>)))
    with (@nil (N * bool)) in Hx0.
  change (r_id (r <| r_state := PreCandidate |>
            <| r_prs := (r_prs r) <| t_votes := [] |> |> <| r_leader_id := INVALID_ID |>))
    with (r_id r) in Hx0.
  rewrite record_vote_nil in Hx0.
  change (tally (r <| r_state := PreCandidate |>
            <| r_prs := (r_prs r) <| t_votes := [] |> |> <| r_leader_id := INVALID_ID |>)
            [(r_id r, true)]) with (tally r [(r_id r, true)]) in Hx0.
  change (with_votes (r <| r_state := PreCandidate |>
            <| r_prs := (r_prs r) <| t_votes := [] |> |> <| r_leader_id := INVALID_ID |>)
            [(r_id r, true)]) with (pre_candidate_of r) in Hx0.
  destruct Hx0 as [Hres Hc]. destruct res.
  - right. split; [symmetry; exact Hres|]. subst r2. inv_bind H. exists x.
    change (r_term (r <| r_state := PreCandidate |>
            <| r_prs := (r_prs r) <| t_votes := [] |> |> <| r_leader_id := INVALID_ID |>))
      with (r_term r) in H.
    apply send_vote_requests_eq in H; [|right; reflexivity|lia].
    change (r_id (pre_candidate_of r)) with (r_id r) in H.
    change (r_log (pre_candidate_of r)) with (r_log r) in H, Hx.
    change (r_priority (pre_candidate_of r)) with (r_priority r) in H.
    change (r_msgs (pre_candidate_of r)) with (r_msgs r) in H.
    change (conf_of (pre_candidate_of r)) with (conf_of r) in H.
    destruct H as [[H1 H2]|(lt & H1 & H2)].
    + exists []. rewrite H1, app_nil_r. split; [exact Hx|]. split.
      { rewrite H2. change (r_msgs r) with (r_msgs (pre_candidate_of r)).
        rewrite set_msgs_same. reflexivity. }
      split; [reflexivity|]. intros y [].
    + eexists. split; [exact Hx|]. split; [exact H2|]. split.
      { rewrite map_map. erewrite map_ext; [apply map_id|].
        intros a. apply (vote_req_fields (r_id r) (r_log r) (r_priority r)). }
      intros y Hy. apply in_map_iff in Hy. destruct Hy as (id & <- & _).
      exists lt. split; [exact H1|].
      f_equal. symmetry. apply (vote_req_fields (r_id r) (r_log r) (r_priority r)).
  - exfalso. symmetry in Hres. revert Hres. apply own_vote_not_lost.
  - okinv H. left. split; [symmetry; exact Hres|]. exact Hc.
Qed.

(* readable form of the non-winning pre-vote campaign *)
Theorem campaign_pre_pending r r' :
  campaign_pre r = Ok r' -> tally r [(r_id r, true)] <> VoteWon ->
  r_term r' = r_term r /\ r_vote r' = r_vote r /\ r_state r' = PreCandidate /\
  r_leader_id r' = INVALID_ID /\ t_votes (r_prs r') = [(r_id r, true)] /\
  r_log r' = r_log r /\ r_election_elapsed r' = r_election_elapsed r /\
  exists new, r_msgs r' = r_msgs r ++ new /\
    r' = (pre_candidate_of r) <| r_msgs := r_msgs r ++ new |> /\
    map m_to new = others (r_id r) (voter_ids (conf_of r)) /\
    forall x, In x new ->
      m_type x = MsgRequestPreVote /\ m_term x = r_term r + 1 /\ m_from x = r_id r /\
      m_index x = last_index (r_log r) /\ last_term (r_log r) = Ok (m_log_term x) /\
      commit_info (r_log r) = Ok (m_commit x, m_commit_term x) /\
      m_reject x = false /\ m_entries x = [] /\ m_context x = [] /\
      m_priority x = r_priority r.
Proof.
  intros H Hn. apply campaign_pre_spec in H. destruct H as [_ [[Hw _]|[_ H]]]; [contradiction|].
  destruct H as (ci & new & Hci & Hr & Hto & Hall). subst r'.
  repeat split; try reflexivity.
  exists new. split; [reflexivity|]. split; [reflexivity|]. split; [exact Hto|].
  intros x Hx. destruct (Hall x Hx) as (lt & Hlt & E).
  pose proof (vote_req_fields (r_id r) (r_log r) (r_priority r) MsgRequestPreVote (r_term r + 1)
                (fst ci) (snd ci) false lt (m_to x)) as F.
  cbn zeta in F. rewrite <- E in F.
  destruct F as (F1 & F2 & F3 & F4 & F5 & F6 & F7 & F8 & F9 & F10 & F11 & F12).
  rewrite F6, F7, F8. destruct ci. repeat split; assumption.
Qed.

(* who gets a request: every voter (of either half) but the node itself *)
Lemma others_voters c self id :
  In id (others self (voter_ids c)) <-> id <> self /\ voters_contains c id = true.
Proof.
  unfold others, voter_ids, voters_contains. rewrite filter_In, <- IdSetProofs.mem_In, IdSetProofs.mem_union.
  rewrite negb_true_iff, N.eqb_neq. tauto.
Qed.

Definition hup_campaigns (r : raft) (transfer : bool) : Prop :=
  r_state r <> Leader /\ r_promotable r = true.

Lemma hup_cases r tl r' : hup r tl = Ok r' ->
  r' = r \/
  (r_state r <> Leader /\ r_promotable r = true /\
   if tl then campaign_real true r = Ok r'
   else if r_pre_vote r then campaign_pre r = Ok r' else campaign_real false r = Ok r').
Proof.
  unfold hup. intros H.
  destruct (is_leader r) eqn:E; [okinv H; left; reflexivity|].
  destruct (r_promotable r) eqn:P; cbn [negb] in H; [|okinv H; left; reflexivity].
  inv_bind H. inv_bind H. destruct x0; [okinv H; left; reflexivity|].
  right. split; [|split; [reflexivity|destruct tl; [|destruct (r_pre_vote r)]; exact H]].
  intros C. unfold is_leader in E. rewrite C in E. discriminate.
Qed.

(* [hup]: the term is unchanged, or it is raised by exactly one by a real campaign,
   which with pre-vote happens only for a transfer or when the own vote is a quorum *)
Lemma hup_term r tl r' : hup r tl = Ok r' ->
  cfg_of r' = cfg_of r /\
  (r_term r' = r_term r \/
   (r_term r' = r_term r + 1 /\ r_state r <> Leader /\ r_promotable r = true /\
    (tl = true \/ r_pre_vote r = false \/ tally r [(r_id r, true)] = VoteWon))).
Proof.
  intros H. apply hup_cases in H. destruct H as [->|(Hl & Hp & H)]; [split; [reflexivity|left; reflexivity]|].
  destruct tl.
  - apply campaign_real_facts in H. destruct H as (A1 & A2 & _).
    split; [exact A2|]. right. auto.
  - destruct (r_pre_vote r) eqn:PV.
    + apply campaign_pre_spec in H. destruct H as [_ [[Hw H]|[_ H]]].
      * apply campaign_real_facts in H. destruct H as (A1 & A2 & _).
        split; [exact A2|]. right. cbn in A1. auto 6.
      * destruct H as (ci & new & _ & -> & _). split; [reflexivity|left; reflexivity].
    + apply campaign_real_facts in H. destruct H as (A1 & A2 & _).
      split; [exact A2|]. right. auto 6.
Qed.

Lemma maybe_commit_by_vote_cases r m r' : maybe_commit_by_vote r m = Ok r' ->
  r' = r <| r_log := r_log r' |> \/
  ((r_state r = Candidate \/ r_state r = PreCandidate) /\
   exists l', become_follower (r <| r_log := l' |>) (r_term r) INVALID_ID = Ok r').
Proof.
  assert (Hself : r = r <| r_log := r_log r |>) by (destruct r; reflexivity).
  unfold maybe_commit_by_vote. intros H.
  dtop H; [okinv H; left; exact Hself|].
  dtop H; [okinv H; left; exact Hself|].
  inv_bind H. destruct x as [l' b].
  destruct b; cbn [negb] in H; [|okinv H; left; reflexivity].
  change (r_state (r <| r_log := l' |>)) with (r_state r) in H.
  dtop H; [okinv H; left; reflexivity|].
  inv_bind H. destruct x; [|okinv H; left; reflexivity].
  right. split; [|exists l'; exact H].
  destruct (r_state r); cbn in Heqb1; try discriminate; auto.
Qed.

Lemma maybe_commit_by_vote_keeps_t r m r' : maybe_commit_by_vote r m = Ok r' ->
  keeps_t r r' /\ r_vote r' = r_vote r.
Proof.
  intros H. apply maybe_commit_by_vote_cases in H. destruct H as [H|(_ & l' & H)].
  - rewrite H. split; [split|]; reflexivity.
  - change (r_term r) with (r_term (r <| r_log := l' |>)) in H.
    apply become_follower_keeps_t in H. exact H.
Qed.

(* ------------------------------------------------------------------ *)
(* configuration change / snapshot restore frames *)

Lemma post_conf_change_keeps r r' cs : post_conf_change r = Ok (r', cs) -> keeps r r'.
Proof.
  unfold post_conf_change. intros H.
  set (r0 := r <| r_promotable := voters_contains (conf_of r) (r_id r) |>) in *.
  assert (K0 : keeps r r0) by reflexivity.
  dtop H; [okinv H; exact K0|].
  dtop H; [okinv H; exact K0|].
  inv_bind H. destruct x as [r1 b]. apply maybe_commit_keeps in Hx.
  inv_bind H.
  assert (K2 : keeps r1 x).
  { destruct b; [apply bcast_append_keeps in Hx0; exact Hx0|].
    revert Hx0. apply for_each_peer_keeps. intros ra id rb Hf.
    destruct (get_pr ra id); [|discriminate]. ib Hf y Hy. destruct y as [[rc pc] bc].
    okinv Hf. apply maybe_send_append_keeps in Hy. exact Hy. }
  inv_bind H.
  assert (K3 : keeps x x0).
  { clear H. destruct (ro_last_pending_request_ctx (r_read_only x)); [|okinv Hx1; apply keeps_refl].
    destruct (ro_recv_ack (r_read_only x) (r_id x) l) as [ro' acks].
    destruct acks; [|okinv Hx1; reflexivity].
    dtop Hx1; [|okinv Hx1; reflexivity].
    ib Hx1 z Hz. destruct z as [ro2 rss]. apply respond_reads_keeps in Hx1.
    eapply keeps_trans; [|exact Hx1]. reflexivity. }
  okinv H.
  eapply keeps_trans; [exact K0|]. eapply keeps_trans; [exact Hx|].
  eapply keeps_trans; [exact K2|]. eapply keeps_trans; [exact K3|].
  destruct (r_lead_transferee x0) as [e|]; [|apply keeps_refl].
  destruct (voters_contains (conf_of x0) e); reflexivity.
Qed.

Lemma restore_keeps r s r' b :
  r_state r = Follower -> restore r s = Ok (r', b) -> keeps r r'.
Proof.
  intros Hf. unfold restore. intros H.
  dtop H; [okinv H; apply keeps_refl|].
  rewrite Hf in H. cbn [role_eqb negb] in H.
  dtop H; [okinv H; apply keeps_refl|].
  inv_bind H.
  dtop H; [inv_bind H; okinv H; reflexivity|].
  inv_bind H.
  destruct (ConfChange.restore _ _) as [[c' ids']|e]; [|discriminate].
  inv_bind H. destruct x1 as [r1 new_cs].
  apply post_conf_change_keeps in Hx1.
  dtop H; [discriminate|]. dtop H; [|discriminate]. dtop H; [discriminate|]. okinv H.
  eapply keeps_trans; [|eapply keeps_trans; [exact Hx1|reflexivity]]. reflexivity.
Qed.

Lemma handle_snapshot_keeps r m r' :
  r_state r = Follower -> handle_snapshot r m = Ok r' -> keeps r r'.
Proof.
  intros Hf. unfold handle_snapshot. intros H. inv_bind H. destruct x as [r1 ok].
  apply restore_keeps in Hx; [|exact Hf].
  destruct ok; apply send_keeps in H; eapply keeps_trans; eassumption.
Qed.

(* ------------------------------------------------------------------ *)
(* leader handlers *)

Lemma handle_append_response_keeps r m r' : handle_append_response r m = Ok r' -> keeps r r'.
Proof.
  unfold handle_append_response. intros H. inv_bind H.
  destruct (get_pr r (m_from m)) as [pr|]; [|okinv H; apply keeps_refl].
  dtop H.
  - destruct (maybe_decr_to _ _ _ _) as [pr1 dec]. destruct dec.
    + apply send_append_to_keeps in H. eapply keeps_trans; [|exact H]. reflexivity.
    + okinv H. reflexivity.
  - destruct (maybe_update _ _) as [pr1 upd]. destruct upd; cbn [negb] in H; [|okinv H; reflexivity].
    inv_bind H. inv_bind H. destruct x1 as [r1 cmt]. apply maybe_commit_keeps in Hx1.
    inv_bind H. inv_bind H.
    assert (K2 : keeps r1 x1).
    { destruct cmt.
      - destruct (should_bcast_commit r1); [apply bcast_append_keeps in Hx2; exact Hx2|].
        okinv Hx2. apply keeps_refl.
      - dtop Hx2; [apply send_append_to_keeps in Hx2; exact Hx2|okinv Hx2; apply keeps_refl]. }
    apply send_append_aggressively_keeps in Hx3.
    assert (K4 : keeps x2 r').
    { destruct (r_lead_transferee x2); [|okinv H; apply keeps_refl].
      dtop H; [|okinv H; apply keeps_refl].
      destruct (get_pr x2 (m_from m)); [|discriminate].
      dtop H; [apply send_timeout_now_keeps in H; exact H|okinv H; apply keeps_refl]. }
    eapply keeps_trans; [|exact K4]. eapply keeps_trans; [|exact Hx3].
    eapply keeps_trans; [|exact K2]. eapply keeps_trans; [|exact Hx1]. reflexivity.
Qed.

Lemma handle_heartbeat_response_keeps r m r' :
  handle_heartbeat_response r m = Ok r' -> keeps r r'.
Proof.
  unfold handle_heartbeat_response. intros H.
  destruct (get_pr r (m_from m)) as [pr|]; [|okinv H; apply keeps_refl].
  inv_bind H. inv_bind H.
  assert (K1 : keeps r x0).
  { clear H. dtop Hx0.
    - inv_bind Hx0. destruct x1 as [[ra pa] ba]. okinv Hx0.
      apply maybe_send_append_keeps in Hx1. exact Hx1.
    - okinv Hx0. reflexivity. }
  dtop H; [okinv H; exact K1|].
  destruct (ro_recv_ack _ _ _) as [ro' acks].
  destruct acks; [|okinv H; exact K1].
  dtop H; [|okinv H; exact K1].
  inv_bind H. destruct x1 as [ro2 rss]. apply respond_reads_keeps in H.
  eapply keeps_trans; [exact K1|]. eapply keeps_trans; [|exact H]. reflexivity.
Qed.

Lemma handle_transfer_leader_keeps r m r' : handle_transfer_leader r m = Ok r' -> keeps r r'.
Proof.
  unfold handle_transfer_leader. intros H.
  destruct (get_pr r (m_from m)); [|okinv H; apply keeps_refl].
  dtop H; [okinv H; apply keeps_refl|].
  assert (Hc : forall ra, keeps r ra ->
    (if m_from m =? r_id ra then Ok ra else
       match get_pr (ra <| r_election_elapsed := 0 |> <| r_lead_transferee := Some (m_from m) |>)
                    (m_from m) with
       | None => Panic site_pr_unwrap
       | Some pr =>
           if matched pr =? last_index (r_log (ra <| r_election_elapsed := 0 |>
                                                 <| r_lead_transferee := Some (m_from m) |>))
           then send_timeout_now (ra <| r_election_elapsed := 0 |>
                                    <| r_lead_transferee := Some (m_from m) |>) (m_from m)
           else y <- maybe_send_append (ra <| r_election_elapsed := 0 |>
                                          <| r_lead_transferee := Some (m_from m) |>)
                                       (m_from m) pr true ;;
                let '(r', pr', _) := y in Ok (put_pr r' (m_from m) pr')
       end) = Ok r' -> keeps r r').
  { intros ra Ka Hh. dtop Hh; [okinv Hh; exact Ka|].
    dtop Hh; [|discriminate]. dtop Hh.
    - apply send_timeout_now_keeps in Hh. eapply keeps_trans; [exact Ka|].
      eapply keeps_trans; [|exact Hh]. reflexivity.
    - inv_bind Hh. destruct x as [[rb pb] bb]. okinv Hh.
      apply maybe_send_append_keeps in Hx. eapply keeps_trans; [exact Ka|].
      eapply keeps_trans; [|eapply keeps_trans; [exact Hx|]]; reflexivity. }
  destruct (r_lead_transferee r) as [last|].
  - dtop H; [okinv H; apply keeps_refl|]. eapply Hc; [|exact H]. reflexivity.
  - eapply Hc; [|exact H]. apply keeps_refl.
Qed.

Lemma handle_snapshot_status_keeps r m r' : handle_snapshot_status r m = Ok r' -> keeps r r'.
Proof.
  unfold handle_snapshot_status. intros H.
  destruct (get_pr r (m_from m)); [|okinv H; apply keeps_refl].
  dtop H; okinv H; reflexivity.
Qed.

Lemma handle_unreachable_keeps r m r' : handle_unreachable r m = Ok r' -> keeps r r'.
Proof.
  unfold handle_unreachable. intros H.
  destruct (get_pr r (m_from m)); [|okinv H; apply keeps_refl].
  okinv H. destruct (pstate_eqb _ _); reflexivity.
Qed.

Lemma filter_conf_changes_keeps : forall ents r info i r' ents' ok,
  filter_conf_changes r ents info i = (r', ents', ok) -> keeps r r'.
Proof.
  induction ents as [|e rest IH]; intros r info i r' ents' ok H; cbn [filter_conf_changes] in H.
  - okinv H. apply keeps_refl.
  - dtop H.
    + destruct (filter_conf_changes r rest _ (i + 1)) as [[ra ea] oa] eqn:E. okinv H.
      eapply IH; eassumption.
    + dtop H; [okinv H; apply keeps_refl|].
      dtop H.
      * destruct (filter_conf_changes r rest _ (i + 1)) as [[ra ea] oa] eqn:E. okinv H.
        eapply IH; eassumption.
      * destruct (filter_conf_changes _ rest _ (i + 1)) as [[ra ea] oa] eqn:E. okinv H.
        apply IH in E. eapply keeps_trans; [|exact E]. reflexivity.
Qed.

(* ------------------------------------------------------------------ *)
(* Part 3: step, split into the term prologue and the body *)

Definition lease_drop (r : raft) (m : msg) : bool :=
  ((m_type m =? MsgRequestVote) || (m_type m =? MsgRequestPreVote))
  && negb (list_eqb (m_context m) CAMPAIGN_TRANSFER)
  && (r_check_quorum r && negb (r_leader_id r =? INVALID_ID)
      && (r_election_elapsed r <? r_election_timeout r)).

(* a higher-term message of this kind is exempt from term adoption *)
Definition exempt (m : msg) : bool :=
  (m_type m =? MsgRequestPreVote)
  || ((m_type m =? MsgRequestPreVoteResponse) && negb (m_reject m)).

Definition from_leader (m : msg) : bool :=
  (m_type m =? MsgAppend) || (m_type m =? MsgHeartbeat) || (m_type m =? MsgSnapshot).

(* the answer to a lower-term message *)
Definition low_term_reply (r : raft) (m : msg) : Res raft :=
  if (r_check_quorum r || r_pre_vote r) && ((m_type m =? MsgHeartbeat) || (m_type m =? MsgAppend))
  then send r (new_message (m_from m) MsgAppendResponse None)
  else if m_type m =? MsgRequestPreVote then
    send r ((new_message (m_from m) MsgRequestPreVoteResponse None)
              <| m_term := r_term r |> <| m_reject := true |>)
  else Ok r.

Definition step_pre (r : raft) (m : msg) : Res (raft * N + raft) :=
  if m_term m =? 0 then Ok (inr r)
  else if r_term r <? m_term m then
    if lease_drop r m then Ok (inl (r, E_OK))
    else if exempt m then Ok (inr r)
    else if from_leader m then r' <- become_follower r (m_term m) (m_from m) ;; Ok (inr r')
    else r' <- become_follower r (m_term m) INVALID_ID ;; Ok (inr r')
  else if m_term m <? r_term r then r' <- low_term_reply r m ;; Ok (inl (r', E_OK))
  else Ok (inr r).

Definition step_body (r : raft) (m : msg) : Res (raft * N) :=
  let t := m_type m in
  if t =? MsgHup then r' <- hup r false ;; Ok (r', E_OK)
  else if (t =? MsgRequestVote) || (t =? MsgRequestPreVote) then
    let can_vote := (r_vote r =? m_from m)
                    || ((r_vote r =? INVALID_ID) && (r_leader_id r =? INVALID_ID))
                    || ((t =? MsgRequestPreVote) && (r_term r <? m_term m)) in
    utd <- is_up_to_date (r_log r) (m_index m) (m_log_term m) ;;
    rt <- vote_resp_msg_type t ;;
    if can_vote && utd
       && ((last_index (r_log r) <? m_index m) || (r_priority r <=? get_priority m)%Z)
    then
      r1 <- send r ((new_message (m_from m) rt None) <| m_reject := false |>
                      <| m_term := m_term m |>) ;;
      if t =? MsgRequestVote
      then Ok (r1 <| r_election_elapsed := 0 |> <| r_vote := m_from m |>, E_OK)
      else Ok (r1, E_OK)
    else
      ci <- commit_info (r_log r) ;;
      r1 <- send r ((new_message (m_from m) rt None) <| m_reject := true |>
                      <| m_term := r_term r |> <| m_commit := fst ci |>
                      <| m_commit_term := snd ci |>) ;;
      r2 <- maybe_commit_by_vote r1 m ;; Ok (r2, E_OK)
  else
    match r_state r with
    | PreCandidate | Candidate => step_candidate r m
    | Follower => step_follower r m
    | Leader => step_leader r m
    end.

Lemma step_eq r m :
  step r m = (pre <- step_pre r m ;;
              match pre with inl ret => Ok ret | inr r1 => step_body r1 m end).
Proof.
  unfold step, step_pre, step_body, lease_drop, exempt, from_leader, low_term_reply.
  destruct (m_term m =? 0); [reflexivity|].
  destruct (r_term r <? m_term m).
  - destruct ((m_type m =? MsgRequestVote) || (m_type m =? MsgRequestPreVote));
      destruct (list_eqb (m_context m) CAMPAIGN_TRANSFER); cbn [negb andb];
      try destruct (r_check_quorum r && negb (r_leader_id r =? INVALID_ID) &&
                    (r_election_elapsed r <? r_election_timeout r)); cbn [negb andb bind];
      try reflexivity;
      destruct ((m_type m =? MsgRequestPreVote) ||
                (m_type m =? MsgRequestPreVoteResponse) && negb (m_reject m)); try reflexivity;
      destruct ((m_type m =? MsgAppend) || (m_type m =? MsgHeartbeat) || (m_type m =? MsgSnapshot));
      cbn [bind]; destruct (become_follower _ _ _); reflexivity.
  - destruct (m_term m <? r_term r); [|reflexivity].
    destruct ((r_check_quorum r || r_pre_vote r) &&
              ((m_type m =? MsgHeartbeat) || (m_type m =? MsgAppend))).
    + cbn [bind]. destruct (send _ _); reflexivity.
    + destruct (m_type m =? MsgRequestPreVote); [|reflexivity].
      cbn [bind]. destruct (send _ _); reflexivity.
Qed.

(* the prologue, by cases *)
Lemma step_pre_cases r m x : step_pre r m = Ok x ->
  match x with
  | inl (r1, c) =>
      c = E_OK /\ m_term m <> 0 /\
      ((r_term r < m_term m /\ lease_drop r m = true /\ r1 = r) \/
       (m_term m < r_term r /\ low_term_reply r m = Ok r1))
  | inr r1 =>
      (r1 = r /\ (m_term m = 0 \/ m_term m = r_term r \/
                  (r_term r < m_term m /\ lease_drop r m = false /\ exempt m = true))) \/
      (r_term r < m_term m /\ lease_drop r m = false /\ exempt m = false /\
       become_follower r (m_term m) (if from_leader m then m_from m else INVALID_ID) = Ok r1)
  end.
Proof.
  unfold step_pre. intros H.
  destruct (m_term m =? 0) eqn:Ez; [okinv H; left; split; [reflexivity|left; lia]|].
  destruct (r_term r <? m_term m) eqn:Elt.
  - destruct (lease_drop r m) eqn:El; [okinv H; repeat split; try lia; left; repeat split; lia|].
    destruct (exempt m) eqn:Ee; [okinv H; left; split; [reflexivity|right; right; repeat split; lia]|].
    destruct (from_leader m); ib H y Hy; okinv H; right; repeat split; try lia; exact Hy.
  - destruct (m_term m <? r_term r) eqn:Egt.
    + ib H y Hy. okinv H. repeat split; try lia. right. split; [lia|exact Hy].
    + okinv H. left. split; [reflexivity|right; left; lia].
Qed.

Lemma low_term_reply_msgs_only r m r' : low_term_reply r m = Ok r' -> msgs_only r r'.
Proof.
  unfold low_term_reply. intros H.
  dtop H; [apply send_msgs_only in H; exact H|].
  dtop H; [apply send_msgs_only in H; exact H|]. okinv H. apply msgs_only_refl.
Qed.

(* ------------------------------------------------------------------ *)
(* the role handlers *)

Definition check_quorum_active (r : raft) : bool :=
  snd (quorum_recently_active (r_prs r) (r_id r)).

(* a leader's step: everything in [core] is kept, except that a failed
   check-quorum round makes it a follower of the same term *)
Lemma step_leader_cases r m r' c : step_leader r m = Ok (r', c) ->
  keeps r r' \/
  (m_type m = MsgCheckQuorum /\ check_quorum_active r = false /\
   become_follower (r <| r_prs := fst (quorum_recently_active (r_prs r) (r_id r)) |>)
                   (r_term r) INVALID_ID = Ok r').
Proof.
  unfold step_leader. intros H.
  dtop H; [ib H y Hy; okinv H; left; apply bcast_heartbeat_keeps in Hy; exact Hy|].
  dtop H.
  { unfold check_quorum_active.
    destruct (quorum_recently_active (r_prs r) (r_id r)) as [prs' active]. cbn [fst snd].
    destruct active; cbn [negb] in H; [okinv H; left; reflexivity|].
    ib H y Hy. okinv H. right. split; [apply N.eqb_eq; assumption|]. split; [reflexivity|exact Hy]. }
  left.
  dtop H.
  { destruct (m_entries m); [discriminate|].
    destruct (get_pr r (r_id r)); [|okinv H; apply keeps_refl].
    destruct (r_lead_transferee r); [okinv H; apply keeps_refl|].
    destruct (filter_conf_changes r _ _ 0) as [[r1 ents] ok] eqn:E.
    apply filter_conf_changes_keeps in E.
    destruct ok; cbn [negb] in H; [|okinv H; exact E].
    ib H y Hy. destruct y as [r2 appended]. apply append_entry_keeps in Hy.
    destruct appended; cbn [negb] in H; [|okinv H; eapply keeps_trans; eassumption].
    ib H z Hz. okinv H. apply bcast_append_keeps in Hz.
    eapply keeps_trans; [exact E|]. eapply keeps_trans; eassumption. }
  dtop H.
  { ib H y Hy. destruct y; cbn [negb] in H; [|okinv H; apply keeps_refl].
    assert (Hnow : forall r' c,
      (x <- handle_ready_read_index r m (committed (r_log r)) ;;
       let '(r1, om) := x in
       r2 <- match om with Some mm => send r1 mm | None => Ok r1 end ;; Ok (r2, E_OK)) = Ok (r', c) ->
      keeps r r').
    { intros ra ca Ha. ib Ha z Hz. destruct z as [r1 om].
      apply handle_ready_read_index_keeps in Hz. ib Ha w Hw. okinv Ha.
      destruct om; [apply send_keeps in Hw; eapply keeps_trans; eassumption|okinv Hw; exact Hz]. }
    dtop H; [eapply Hnow; exact H|].
    dtop H; [|eapply Hnow; exact H].
    ib H ctx Hctx. ib H ro' Hro. ib H z Hz. okinv H.
    apply bcast_heartbeat_with_ctx_keeps in Hz. eapply keeps_trans; [|exact Hz]. reflexivity. }
  dtop H; [ib H y Hy; okinv H; eapply handle_append_response_keeps; eassumption|].
  dtop H; [ib H y Hy; okinv H; eapply handle_heartbeat_response_keeps; eassumption|].
  dtop H; [ib H y Hy; okinv H; eapply handle_snapshot_status_keeps; eassumption|].
  dtop H; [ib H y Hy; okinv H; eapply handle_unreachable_keeps; eassumption|].
  dtop H; [ib H y Hy; okinv H; eapply handle_transfer_leader_keeps; eassumption|].
  okinv H. apply keeps_refl.
Qed.

(* a follower's step: term, vote, role and configuration are kept (the leader id may
   be learned from the sender), except that MsgTimeoutNow runs [hup] for a transfer *)
Lemma step_follower_cases r m r' c : r_state r = Follower -> step_follower r m = Ok (r', c) ->
  (m_type m = MsgTimeoutNow /\ r_promotable r = true /\ hup r true = Ok r') \/
  (r_term r' = r_term r /\ r_vote r' = r_vote r /\ r_state r' = Follower /\
   cfg_of r' = cfg_of r /\
   (r_leader_id r' = r_leader_id r \/ (from_leader m = true /\ r_leader_id r' = m_from m))).
Proof.
  intros Hf. unfold step_follower. intros H.
  assert (Hk : forall ra, keeps r ra ->
     r_term ra = r_term r /\ r_vote ra = r_vote r /\ r_state ra = Follower /\
     cfg_of ra = cfg_of r /\
     (r_leader_id ra = r_leader_id r \/ (from_leader m = true /\ r_leader_id ra = m_from m))).
  { intros ra K. apply keeps_fields in K. destruct K as (A1 & A2 & A3 & A4 & A5).
    rewrite A1, A2, A3, A4, A5. repeat split; auto. }
  assert (Hk2 : forall ra, from_leader m = true ->
     keeps (r <| r_election_elapsed := 0 |> <| r_leader_id := m_from m |>) ra ->
     r_term ra = r_term r /\ r_vote ra = r_vote r /\ r_state ra = Follower /\
     cfg_of ra = cfg_of r /\
     (r_leader_id ra = r_leader_id r \/ (from_leader m = true /\ r_leader_id ra = m_from m))).
  { intros ra Hfl K. apply keeps_fields in K. destruct K as (A1 & A2 & A3 & A4 & A5).
    cbn in A1, A2, A3, A4, A5. rewrite A1, A2, A3, A4, A5. repeat split; auto. }
  dtop H.
  { right. apply Hk. dtop H; [okinv H; apply keeps_refl|]. dtop H; [okinv H; apply keeps_refl|].
    ib H y Hy. okinv H. eapply send_keeps; eassumption. }
  dtop H.
  { right. ib H y Hy. okinv H. apply handle_append_entries_keeps in Hy.
    apply Hk2; [unfold from_leader; rewrite Heqb0; reflexivity|exact Hy]. }
  dtop H.
  { right. ib H y Hy. okinv H. apply handle_heartbeat_keeps in Hy.
    apply Hk2; [unfold from_leader; rewrite Heqb1, orb_true_r; reflexivity|exact Hy]. }
  dtop H.
  { right. ib H y Hy. okinv H. apply handle_snapshot_keeps in Hy; [|exact Hf].
    apply Hk2; [unfold from_leader; rewrite Heqb2, orb_true_r; reflexivity|exact Hy]. }
  dtop H.
  { right. apply Hk. dtop H; [okinv H; apply keeps_refl|].
    ib H y Hy. okinv H. eapply send_keeps; eassumption. }
  dtop H.
  { destruct (r_promotable r) eqn:P; [|okinv H; right; apply Hk; apply keeps_refl].
    ib H y Hy. okinv H. left. split; [apply N.eqb_eq; assumption|]. split; [reflexivity|exact Hy]. }
  dtop H.
  { right. apply Hk. dtop H; [okinv H; apply keeps_refl|].
    ib H y Hy. okinv H. eapply send_keeps; eassumption. }
  dtop H.
  { right. apply Hk. destruct (m_entries m) as [|e [|e2 rest]]; try (okinv H; apply keeps_refl).
    ib H y Hy. okinv H. reflexivity. }
  okinv H. right. apply Hk. apply keeps_refl.
Qed.

(* a (pre-)candidate's step *)
Lemma step_candidate_cases r m r' c :
  (r_state r = Candidate \/ r_state r = PreCandidate) ->
  step_candidate r m = Ok (r', c) ->
  (* nothing of the core changes *)
  keeps r r' \/
  (* a current leader shows up: follower of the same term *)
  (from_leader m = true /\ r_term r = m_term m /\
   exists r1, become_follower r (m_term m) (m_from m) = Ok r1 /\ keeps r1 r') \/
  (* a response of the right kind is counted *)
  (((r_state r = PreCandidate /\ m_type m = MsgRequestPreVoteResponse) \/
    (r_state r <> PreCandidate /\ m_type m = MsgRequestVoteResponse)) /\
   exists rp res, poll r (m_from m) (negb (m_reject m)) = Ok (rp, res) /\
                  maybe_commit_by_vote rp m = Ok r').
Proof.
  intros Hrole. unfold step_candidate. intros H.
  dtop H; [okinv H; left; apply keeps_refl|].
  dtop H.
  { right. left. split; [exact Heqb0|].
    dtop H; [discriminate|]. apply negb_false_iff, N.eqb_eq in Heqb1.
    split; [exact Heqb1|].
    ib H r1 H1. ib H r2 H2. okinv H. exists r1. split; [exact H1|].
    apply become_follower_facts in H1. destruct H1 as (_ & _ & Hf & _).
    dtop H2; [eapply handle_append_entries_keeps; eassumption|].
    dtop H2; [eapply handle_heartbeat_keeps; eassumption|].
    eapply handle_snapshot_keeps; eassumption. }
  dtop H; [|okinv H; left; apply keeps_refl].
  dtop H; [okinv H; left; apply keeps_refl|].
  right. right. ib H y Hy. destruct y as [rp res]. cbn [fst] in H. ib H z Hz. okinv H.
  split; [|exists rp, res; split; assumption].
  apply orb_false_iff in Heqb2. destruct Heqb2 as [B1 B2].
  destruct Hrole as [Hr|Hr]; rewrite Hr in B1, B2; cbn [role_eqb andb] in B1, B2.
  - apply negb_false_iff, N.eqb_eq in B2. right. split; [congruence|exact B2].
  - apply negb_false_iff, N.eqb_eq in B1. left. split; [exact Hr|exact B1].
Qed.

(* ------------------------------------------------------------------ *)
(* when does the term change? *)

Definition self_wins (r : raft) : Prop := tally r [(r_id r, true)] = VoteWon.

Definition prevote_tally (r : raft) (m : msg) : vote_res :=
  tally r (Quorum.record_vote (t_votes (r_prs r)) (m_from m) (negb (m_reject m))).

Lemma poll_term r from v rp res : poll r from v = Ok (rp, res) ->
  cfg_of rp = cfg_of r /\
  (r_term rp = r_term r \/
   (r_term rp = r_term r + 1 /\ r_state r = PreCandidate /\
    tally r (Quorum.record_vote (t_votes (r_prs r)) from v) = VoteWon /\
    campaign_real false (with_votes r (Quorum.record_vote (t_votes (r_prs r)) from v)) = Ok rp)).
Proof.
  unfold poll. intros H. apply poll_gen_cases in H. cbn zeta in H. destruct H as [Hres H].
  destruct res.
  - subst rp. split; [reflexivity|left; reflexivity].
  - change (r_term r) with (r_term (with_votes r (Quorum.record_vote (t_votes (r_prs r)) from v))) in H.
    apply become_follower_keeps_t in H. destruct H as [[A B] _]. split; [exact B|left; exact A].
  - destruct (r_state r) eqn:Es; cbn [role_eqb] in H;
      try (destruct H as (r1 & Hl & Hb); apply become_leader_keeps_t in Hl;
           destruct Hl as [[A B] _]; apply bcast_append_keeps, keeps_fields in Hb;
           destruct Hb as (C1 & _ & _ & _ & C5); split; [rewrite C5; exact B|left; rewrite C1; exact A]).
    pose proof (campaign_real_facts _ _ _ H) as (A1 & A2 & _).
    split; [exact A2|]. right. split; [exact A1|]. split; [reflexivity|]. split; [symmetry; exact Hres|exact H].
Qed.

(* the three ways a step raises the term by one on its own *)
Definition raises (r : raft) (m : msg) : Prop :=
  (m_type m = MsgHup /\ r_state r <> Leader /\ r_promotable r = true /\
   (r_pre_vote r = false \/ self_wins r)) \/
  (m_type m = MsgTimeoutNow /\ r_state r = Follower /\ r_promotable r = true) \/
  (m_type m = MsgRequestPreVoteResponse /\ r_state r = PreCandidate /\
   prevote_tally r m = VoteWon).

Lemma step_body_term r m r' c : step_body r m = Ok (r', c) ->
  cfg_of r' = cfg_of r /\
  (r_term r' = r_term r \/ (r_term r' = r_term r + 1 /\ raises r m)).
Proof.
  unfold step_body. intros H.
  destruct (m_type m =? MsgHup) eqn:Ehup.
  { ib H y Hy. okinv H. apply hup_term in Hy. destruct Hy as [A [B|(B1 & B2 & B3 & B4)]].
    - split; [exact A|left; exact B].
    - split; [exact A|]. right. split; [exact B1|]. left. apply N.eqb_eq in Ehup.
      repeat split; try assumption. destruct B4 as [?|[?|?]]; [discriminate|left|right]; assumption. }
  dtop H.
  { ib H utd Hu. ib H rt Hrt. dtop H.
    - ib H r1 H1. apply send_keeps, keeps_fields in H1. destruct H1 as (A1 & _ & _ & _ & A5).
      dtop H; okinv H; (split; [exact A5|left; exact A1]).
    - ib H ci Hci. ib H r1 H1. ib H r2 H2. okinv H.
      apply send_keeps, keeps_fields in H1. destruct H1 as (A1 & _ & _ & _ & A5).
      apply maybe_commit_by_vote_keeps_t in H2. destruct H2 as [[B1 B2] _].
      split; [congruence|left; congruence]. }
  destruct (r_state r) eqn:Es.
  - (* follower *)
    apply step_follower_cases in H; [|exact Es].
    destruct H as [(A1 & A2 & A3)|(A1 & _ & _ & A4 & _)]; [|split; [exact A4|left; exact A1]].
    apply hup_term in A3. destruct A3 as [B [C|(C1 & _)]]; (split; [exact B|]); [left; exact C|].
    right. split; [exact C1|]. right. left. auto.
  - (* candidate *)
    apply step_candidate_cases in H; [|left; exact Es].
    destruct H as [K|[(_ & Et & r1 & Hf & K)|(Hk & rp & res & Hp & Hc)]].
    + apply keeps_fields in K. destruct K as (A1 & _ & _ & _ & A5). split; [exact A5|left; exact A1].
    + rewrite <- Et in Hf. apply become_follower_keeps_t in Hf. destruct Hf as [[B1 B2] _].
      apply keeps_fields in K. destruct K as (A1 & _ & _ & _ & A5).
      split; [congruence|left; congruence].
    + apply poll_term in Hp. destruct Hp as [P1 [P2|(_ & P3 & _)]]; [|congruence].
      apply maybe_commit_by_vote_keeps_t in Hc. destruct Hc as [[B1 B2] _].
      split; [congruence|left; congruence].
  - (* leader *)
    apply step_leader_cases in H. destruct H as [K|(_ & _ & Hf)].
    + apply keeps_fields in K. destruct K as (A1 & _ & _ & _ & A5). split; [exact A5|left; exact A1].
    + change (r_term r) with (r_term (r <| r_prs := fst (quorum_recently_active (r_prs r) (r_id r)) |>)) in Hf.
      apply become_follower_keeps_t in Hf. destruct Hf as [[B1 B2] _]. split; [exact B2|left; exact B1].
  - (* pre-candidate *)
    apply step_candidate_cases in H; [|right; exact Es].
    destruct H as [K|[(_ & Et & r1 & Hf & K)|(Hk & rp & res & Hp & Hc)]].
    + apply keeps_fields in K. destruct K as (A1 & _ & _ & _ & A5). split; [exact A5|left; exact A1].
    + rewrite <- Et in Hf. apply become_follower_keeps_t in Hf. destruct Hf as [[B1 B2] _].
      apply keeps_fields in K. destruct K as (A1 & _ & _ & _ & A5).
      split; [congruence|left; congruence].
    + apply maybe_commit_by_vote_keeps_t in Hc. destruct Hc as [[B1 B2] _].
      apply poll_term in Hp. destruct Hp as [P1 [P2|(P2 & _ & P4 & _)]].
      * split; [congruence|left; congruence].
      * split; [congruence|]. right. split; [congruence|]. right. right.
        destruct Hk as [[_ Hk]|[Hk _]]; [|congruence]. repeat split; assumption.
Qed.

(* Complete case analysis of one step, for every role and every message:
   the term is unchanged, or raised by one by the node itself ([raises]), or a
   higher term is adopted from a message that is neither dropped by the lease nor
   exempt (after which MsgHup / MsgTimeoutNow may campaign on top of it) *)
Theorem step_term_cases r m r' c : step r m = Ok (r', c) ->
  cfg_of r' = cfg_of r /\
  (r_term r' = r_term r \/
   (r_term r' = r_term r + 1 /\ raises r m /\
    (m_term m = 0 \/ m_term m = r_term r \/
     (r_term r < m_term m /\ lease_drop r m = false /\ exempt m = true))) \/
   (r_term r < m_term m /\ lease_drop r m = false /\ exempt m = false /\
    (r_term r' = m_term m \/
     (r_term r' = m_term m + 1 /\ (m_type m = MsgHup \/ m_type m = MsgTimeoutNow))))).
Proof.
  rewrite step_eq. intros H. ib H pre Hpre. apply step_pre_cases in Hpre.
  destruct pre as [[r1 c1]|r1].
  - okinv H. destruct Hpre as (_ & _ & [(_ & _ & ->)|(_ & Hl)]); [split; [reflexivity|left; reflexivity]|].
    apply low_term_reply_msgs_only, msgs_only_keeps, keeps_fields in Hl.
    destruct Hl as (A1 & _ & _ & _ & A5). split; [exact A5|left; exact A1].
  - destruct Hpre as [[-> Hc]|(Hlt & Hld & Hex & Hf)].
    + apply step_body_term in H. destruct H as [A [B|[B1 B2]]]; (split; [exact A|]); [left; exact B|].
      right. left. auto.
    + apply step_body_term in H. apply become_follower_facts in Hf.
      destruct Hf as (F1 & F2 & F3 & _).
      destruct H as [A B]. split; [congruence|]. right. right. repeat split; try assumption.
      destruct B as [B|[B1 B2]]; [left; congruence|]. right. split; [congruence|].
      destruct B2 as [(T & _)|[(T & _)|(_ & S & _)]]; [left; exact T|right; exact T|congruence].
Qed.

(* (2) a pre-candidate: complete case analysis of when its term changes *)
Theorem precandidate_term_cases r m r' c :
  r_state r = PreCandidate -> step r m = Ok (r', c) ->
  (* unchanged *)
  r_term r' = r_term r \/
  (* (a) told of a higher term by a message that makes step adopt it: anything but a
     pre-vote request, a granted pre-vote response, or a (pre-)vote request dropped
     by the lease *)
  (r_term r < m_term m /\ lease_drop r m = false /\ exempt m = false /\
   (r_term r' = m_term m \/
    (r_term r' = m_term m + 1 /\ (m_type m = MsgHup \/ m_type m = MsgTimeoutNow)))) \/
  (* (b) the pre-vote is won: the real campaign runs *)
  (m_type m = MsgRequestPreVoteResponse /\
   (m_term m = 0 \/ m_term m = r_term r \/ (r_term r < m_term m /\ m_reject m = false)) /\
   prevote_tally r m = VoteWon /\ r_term r' = r_term r + 1 /\
   exists r1,
     campaign_real false (with_votes r (Quorum.record_vote (t_votes (r_prs r)) (m_from m)
                                          (negb (m_reject m)))) = Ok r1 /\
     maybe_commit_by_vote r1 m = Ok r') \/
  (* (c) a local MsgHup campaigns for real only without pre-vote or when the own
     vote already is a quorum *)
  (m_type m = MsgHup /\ (m_term m = 0 \/ m_term m = r_term r) /\ r_promotable r = true /\
   (r_pre_vote r = false \/ self_wins r) /\ r_term r' = r_term r + 1).
Proof.
  intros Hs H. pose proof (step_term_cases _ _ _ _ H) as [_ [A|[(A1 & A2 & A3)|A]]];
    [left; exact A| |right; left; exact A].
  destruct A2 as [(T & _ & P & W)|[(_ & S & _)|(T & _ & W)]]; [|congruence|].
  - right. right. right. split; [exact T|]. split; [|auto].
    destruct A3 as [?|[?|(_ & _ & E)]]; [left; assumption|right; assumption|].
    unfold exempt in E. rewrite T in E. discriminate.
  - right. right. left. split; [exact T|].
    assert (Hterm : m_term m = 0 \/ m_term m = r_term r \/ r_term r < m_term m /\ m_reject m = false).
    { destruct A3 as [?|[?|(L & _ & E)]]; auto. right. right. split; [exact L|].
      unfold exempt in E. rewrite T in E. cbn in E. destruct (m_reject m); [discriminate|reflexivity]. }
    split; [exact Hterm|]. split; [exact W|]. split; [exact A1|].
    (* re-run the step along the only path that reaches the tally *)
    rewrite step_eq in H. ib H pre Hpre. apply step_pre_cases in Hpre.
    destruct pre as [[ra ca]|ra].
    { exfalso. okinv H. destruct Hpre as (_ & Hz & [(L & D & ->)|(L & Hl)]); [lia|].
      apply low_term_reply_msgs_only, msgs_only_keeps, keeps_fields in Hl. lia. }
    destruct Hpre as [[-> _]|(L & _ & E & Hf)].
    + unfold step_body in H. rewrite T, Hs in H.
      change (MsgRequestPreVoteResponse =? MsgHup) with false in H.
      change ((MsgRequestPreVoteResponse =? MsgRequestVote) ||
              (MsgRequestPreVoteResponse =? MsgRequestPreVote)) with false in H.
      cbv iota in H.
      apply step_candidate_cases in H; [|right; exact Hs].
      destruct H as [K|[(Fl & _)|(_ & rp & res & Hp & Hc)]].
      * apply keeps_fields in K. lia.
      * unfold from_leader in Fl. rewrite T in Fl. discriminate.
      * pose proof (poll_term _ _ _ _ _ Hp) as [_ [P|(_ & _ & _ & P)]].
        -- apply maybe_commit_by_vote_keeps_t in Hc. destruct Hc as [[B _] _]. lia.
        -- exists rp. split; assumption.
    + exfalso. apply become_follower_facts in Hf. destruct Hf as (F1 & _).
      pose proof (step_body_term _ _ _ _ H) as [_ B]. lia.
Qed.

(* ------------------------------------------------------------------ *)
(* ticks *)

Lemma tick_election_term r r' b : tick_election r = Ok (r', b) ->
  cfg_of r' = cfg_of r /\
  (r_term r' = r_term r \/
   (r_term r' = r_term r + 1 /\ r_state r <> Leader /\ r_promotable r = true /\
    r_randomized_election_timeout r <= r_election_elapsed r + 1 /\
    (r_pre_vote r = false \/ self_wins r))).
Proof.
  unfold tick_election. intros H.
  dtop H; [okinv H; split; [reflexivity|left; reflexivity]|].
  apply orb_false_iff in Heqb0. destruct Heqb0 as [Hp Hq].
  apply negb_false_iff in Hp, Hq. unfold pass_election_timeout in Hp. cbn in Hp, Hq.
  ib H y Hy. okinv H. destruct y as [r1 c1]. cbn [fst].
  apply step_term_cases in Hy. destruct Hy as [A [B|[(B1 & B2 & _)|(B & _)]]].
  - split; [exact A|left; exact B].
  - split; [exact A|]. right. split; [exact B1|].
    destruct B2 as [(_ & S & P & W)|[(T & _)|(T & _)]]; try discriminate.
    cbn in S, P, W. repeat split; try assumption. lia.
  - cbn in B. lia.
Qed.

Lemma tick_heartbeat_term r r' b : tick_heartbeat r = Ok (r', b) -> keeps_t r r'.
Proof.
  unfold tick_heartbeat. intros H. ib H y Hy. destruct y as [r1 hr].
  assert (K1 : keeps_t r r1).
  { clear H. dtop Hy; [|okinv Hy; split; reflexivity].
    ib Hy z Hz. destruct z as [ra ha]. okinv Hy.
    assert (keeps_t r ra).
    { dtop Hz; [|okinv Hz; split; reflexivity].
      ib Hz w Hw. okinv Hz. destruct w as [rb cb]. cbn [fst].
      apply step_term_cases in Hw. destruct Hw as [A [B|[(_ & B2 & _)|(B & _)]]].
      - split; [exact B|exact A].
      - destruct B2 as [(T & _)|[(T & _)|(T & _)]]; discriminate.
      - cbn in B. lia. }
    destruct (is_leader ra && _); [|assumption].
    eapply keeps_t_trans; [eassumption|]. split; reflexivity. }
  dtop H; [okinv H; exact K1|].
  dtop H; [|okinv H; exact K1].
  ib H z Hz. okinv H. destruct z as [rb cb]. cbn [fst].
  apply step_term_cases in Hz. destruct Hz as [A [B|[(_ & B2 & _)|(B & _)]]].
  - eapply keeps_t_trans; [exact K1|]. split; [exact B|exact A].
  - destruct B2 as [(T & _)|[(T & _)|(T & _)]]; discriminate.
  - cbn in B. lia.
Qed.

Lemma tick_term r r' b : tick r = Ok (r', b) ->
  cfg_of r' = cfg_of r /\
  (r_term r' = r_term r \/
   (r_term r' = r_term r + 1 /\ r_state r <> Leader /\ r_promotable r = true /\
    r_randomized_election_timeout r <= r_election_elapsed r + 1 /\
    (r_pre_vote r = false \/ self_wins r))).
Proof.
  unfold tick. intros H.
  destruct (r_state r) eqn:Es; try (apply tick_election_term in H; rewrite Es in H; exact H).
  apply tick_heartbeat_term in H. destruct H as [A B]. split; [exact B|left; exact A].
Qed.

(* ------------------------------------------------------------------ *)
(* traces: any sequence of delivered messages and ticks *)

Inductive input := IStep (m : msg) | ITick.

Definition apply_input (r : raft) (i : input) : Res raft :=
  match i with
  | IStep m => x <- step r m ;; Ok (fst x)
  | ITick => x <- tick r ;; Ok (fst x)
  end.

Fixpoint run (r : raft) (ins : list input) : Res raft :=
  match ins with
  | [] => Ok r
  | i :: rest => r1 <- apply_input r i ;; run r1 rest
  end.

(* an input that gives the node no reason to raise its term: no higher term that
   step would adopt, no transfer order, no pre-vote response completing a quorum of
   grants, and the node is not its own quorum *)
Definition quiet (r : raft) (i : input) : Prop :=
  match i with
  | ITick => ~ self_wins r
  | IStep m =>
      (m_term m <= r_term r \/ exempt m = true \/ lease_drop r m = true) /\
      m_type m <> MsgTimeoutNow /\
      (m_type m = MsgHup -> ~ self_wins r) /\
      (m_type m = MsgRequestPreVoteResponse -> r_state r = PreCandidate ->
       prevote_tally r m <> VoteWon)
  end.

Fixpoint quiet_run (r : raft) (ins : list input) : Prop :=
  match ins with
  | [] => True
  | i :: rest => quiet r i /\ forall r1, apply_input r i = Ok r1 -> quiet_run r1 rest
  end.

Theorem quiet_input_term r i r' :
  r_pre_vote r = true -> quiet r i -> apply_input r i = Ok r' ->
  r_term r' = r_term r /\ cfg_of r' = cfg_of r.
Proof.
  intros Hpv Hq H. destruct i as [m|]; cbn [apply_input] in H; ib H y Hy; okinv H;
    destruct y as [r1 c]; cbn [fst].
  - destruct Hq as (Q1 & Q2 & Q3 & Q4).
    apply step_term_cases in Hy. destruct Hy as [A [B|[(_ & B2 & _)|(L & D & E & _)]]].
    + split; assumption.
    + exfalso. destruct B2 as [(T & _ & _ & [W|W])|[(T & _)|(T & S & W)]].
      * congruence.
      * apply (Q3 T W).
      * contradiction.
      * apply (Q4 T S W).
    + exfalso. destruct Q1 as [Q|[Q|Q]]; [lia|congruence|congruence].
  - cbn in Hq. apply tick_term in Hy. destruct Hy as [A [B|(_ & _ & _ & _ & [W|W])]].
    + split; assumption.
    + congruence.
    + contradiction.
Qed.

(* (2, trace form) with pre-vote on, over any sequence of quiet inputs the term never
   changes, whatever roles the node passes through *)
Theorem quiet_run_term : forall ins r r',
  r_pre_vote r = true -> quiet_run r ins -> run r ins = Ok r' ->
  r_term r' = r_term r /\ cfg_of r' = cfg_of r.
Proof.
  induction ins as [|i rest IH]; intros r r' Hpv Hq H; cbn [run] in H.
  - okinv H. split; reflexivity.
  - destruct Hq as [Q1 Q2]. ib H r1 H1.
    pose proof (quiet_input_term _ _ _ Hpv Q1 H1) as [A B].
    pose proof (cfg_fields _ _ B) as (_ & Pv & _).
    specialize (IH r1 r' (eq_trans Pv Hpv) (Q2 r1 H1) H). destruct IH as [C D].
    split; congruence.
Qed.

(* ------------------------------------------------------------------ *)
(* Part 4: the receiver of a (pre-)vote request *)

Lemma send_vote_resp r m r' :
  m_from m = INVALID_ID ->
  (m_type m = MsgRequestVoteResponse \/ m_type m = MsgRequestPreVoteResponse) ->
  send r m = Ok r' ->
  m_term m <> 0 /\ r' = r <| r_msgs := r_msgs r ++ [m <| m_from := r_id r |>] |>.
Proof.
  intros Hf Ht. unfold send. rewrite Hf, N.eqb_refl.
  change (m_type (m <| m_from := r_id r |>)) with (m_type m).
  change (m_term (m <| m_from := r_id r |>)) with (m_term m).
  assert (Hv : is_vote_type (m_type m) = true) by (destruct Ht as [E|E]; rewrite E; reflexivity).
  rewrite Hv. destruct (m_term m =? 0) eqn:Ez; cbn [bind]; [discriminate|].
  change (m_type (m <| m_from := r_id r |>)) with (m_type m).
  assert (Hq : ((m_type m =? MsgRequestVote) || (m_type m =? MsgRequestPreVote)) = false)
    by (destruct Ht as [E|E]; rewrite E; reflexivity).
  rewrite Hq. intros H. okinv H. split; [apply N.eqb_neq; exact Ez|reflexivity].
Qed.

(* the response to a (pre-)vote request [m] *)
Definition vote_resp (r : raft) (m : msg) (rt : N) (reject : bool) (t : N) (ci : N * N) : msg :=
  (new_message (m_from m) rt None) <| m_reject := reject |> <| m_term := t |>
    <| m_commit := fst ci |> <| m_commit_term := snd ci |> <| m_from := r_id r |>.

Definition resp_type (m : msg) : N :=
  if m_type m =? MsgRequestVote then MsgRequestVoteResponse else MsgRequestPreVoteResponse.

Definition grants (r : raft) (m : msg) : Res bool :=
  utd <- is_up_to_date (r_log r) (m_index m) (m_log_term m) ;;
  Ok (((r_vote r =? m_from m)
       || ((r_vote r =? INVALID_ID) && (r_leader_id r =? INVALID_ID))
       || ((m_type m =? MsgRequestPreVote) && (r_term r <? m_term m)))
      && utd
      && ((last_index (r_log r) <? m_index m) || (r_priority r <=? get_priority m)%Z)).

Definition push (r : raft) (x : msg) : raft := r <| r_msgs := r_msgs r ++ [x] |>.

(* the vote branch of the body, exactly *)
Lemma step_body_vote r m r' c :
  (m_type m = MsgRequestVote \/ m_type m = MsgRequestPreVote) ->
  step_body r m = Ok (r', c) ->
  c = E_OK /\
  ((grants r m = Ok true /\ m_term m <> 0 /\
    r' = if m_type m =? MsgRequestVote
         then (push r (vote_resp r m (resp_type m) false (m_term m) (0, 0)))
                <| r_election_elapsed := 0 |> <| r_vote := m_from m |>
         else push r (vote_resp r m (resp_type m) false (m_term m) (0, 0))) \/
   (grants r m = Ok false /\ r_term r <> 0 /\
    exists ci, commit_info (r_log r) = Ok ci /\
      maybe_commit_by_vote (push r (vote_resp r m (resp_type m) true (r_term r) ci)) m = Ok r')).
Proof.
  intros Ht. unfold step_body, grants.
  assert (Hh : (m_type m =? MsgHup) = false) by (destruct Ht as [E|E]; rewrite E; reflexivity).
  assert (Hv : ((m_type m =? MsgRequestVote) || (m_type m =? MsgRequestPreVote)) = true)
    by (destruct Ht as [E|E]; rewrite E; reflexivity).
  assert (Hrt : vote_resp_msg_type (m_type m) = Ok (resp_type m))
    by (unfold resp_type; destruct Ht as [E|E]; rewrite E; reflexivity).
  assert (Hrt' : resp_type m = MsgRequestVoteResponse \/ resp_type m = MsgRequestPreVoteResponse)
    by (unfold resp_type; destruct Ht as [E|E]; rewrite E; [left|right]; reflexivity).
  rewrite Hh, Hv. intros H. ib H utd Hu. rewrite Hu. cbn [bind]. rewrite Hrt in H. cbn [bind] in H.
  dtop H.
  - ib H r1 H1. apply send_vote_resp in H1; [|reflexivity|exact Hrt'].
    destruct H1 as [Hz ->]. cbn in Hz.
    assert (Hc : c = E_OK) by (destruct (m_type m =? MsgRequestVote); okinv H; reflexivity).
    split; [exact Hc|]. left. split; [reflexivity|]. split; [exact Hz|].
    destruct (m_type m =? MsgRequestVote); okinv H; reflexivity.
  - ib H ci Hci. ib H r1 H1. ib H r2 H2. okinv H.
    apply send_vote_resp in H1; [|reflexivity|exact Hrt'].
    destruct H1 as [Hz ->]. cbn in Hz. split; [reflexivity|]. right.
    split; [reflexivity|]. split; [exact Hz|]. exists ci. split; [exact Hci|exact H2].
Qed.

(* (3) the receiver of a pre-vote request, every state and every message: the four
   paths, exactly *)
Theorem prevote_req_receiver r m r' c :
  m_type m = MsgRequestPreVote -> step r m = Ok (r', c) ->
  c = E_OK /\
  ((* inside the lease: dropped *)
   (r_term r < m_term m /\ lease_drop r m = true /\ r' = r) \/
   (* lower term: explicit rejection at the receiver's term, nothing else *)
   (m_term m <> 0 /\ m_term m < r_term r /\
    r' = push r (vote_resp r m MsgRequestPreVoteResponse true (r_term r) (0, 0))) \/
   (* granted: one response carrying the request's term, nothing else: no vote is
      recorded, the election timer is not reset *)
   ((m_term m = 0 \/ m_term m = r_term r \/ (r_term r < m_term m /\ lease_drop r m = false)) /\
    grants r m = Ok true /\
    r' = push r (vote_resp r m MsgRequestPreVoteResponse false (m_term m) (0, 0))) \/
   (* rejected at the current or a higher term: one response at the receiver's term
      carrying its commit info, then the commit fast-forward from the request *)
   ((m_term m = 0 \/ m_term m = r_term r \/ (r_term r < m_term m /\ lease_drop r m = false)) /\
    grants r m = Ok false /\
    exists ci, commit_info (r_log r) = Ok ci /\
      maybe_commit_by_vote (push r (vote_resp r m MsgRequestPreVoteResponse true (r_term r) ci)) m
      = Ok r')).
Proof.
  intros Ht. rewrite step_eq. intros H. ib H pre Hpre. apply step_pre_cases in Hpre.
  assert (Hex : exempt m = true) by (unfold exempt; rewrite Ht; reflexivity).
  destruct pre as [[r1 c1]|r1].
  - okinv H. destruct Hpre as (-> & Hz & [(L & D & ->)|(L & Hl)]); (split; [reflexivity|]).
    + left. auto.
    + right. left. split; [exact Hz|]. split; [exact L|].
      unfold low_term_reply in Hl. rewrite Ht in Hl.
      change (MsgRequestPreVote =? MsgHeartbeat) with false in Hl.
      change (MsgRequestPreVote =? MsgAppend) with false in Hl.
      rewrite andb_false_r in Hl. change (MsgRequestPreVote =? MsgRequestPreVote) with true in Hl.
      cbv iota in Hl. apply send_vote_resp in Hl; [|reflexivity|right; reflexivity].
      destruct Hl as [_ ->]. reflexivity.
  - destruct Hpre as [[-> Hc]|(_ & _ & E & _)]; [|congruence].
    assert (Hld : m_term m = 0 \/ m_term m = r_term r \/ (r_term r < m_term m /\ lease_drop r m = false)).
    { destruct Hc as [Z|[Z|(L & D & _)]]; auto. }
    apply step_body_vote in H; [|right; exact Ht].
    unfold resp_type in H. rewrite Ht in H.
    change (MsgRequestPreVote =? MsgRequestVote) with false in H. cbv iota in H.
    destruct H as [-> [(G & Z & ->)|(G & Z & ci & Hci & Hm)]]; (split; [reflexivity|]).
    + right. right. left. auto.
    + right. right. right. split; [assumption|].
      split; [exact G|]. exists ci. split; assumption.
Qed.

(* everything but the outbox and the log is untouched *)
Definition only_msgs_log (r r' : raft) : Prop :=
  r' = r <| r_msgs := r_msgs r' |> <| r_log := r_log r' |>.

Lemma only_msgs_log_push r x : only_msgs_log r (push r x).
Proof. unfold only_msgs_log, push. destruct r; reflexivity. Qed.

Lemma only_msgs_log_refl r : only_msgs_log r r.
Proof. unfold only_msgs_log. destruct r; reflexivity. Qed.

Lemma only_msgs_log_push_log r x r' :
  r' = (push r x) <| r_log := r_log r' |> -> only_msgs_log r r'.
Proof.
  intros H. unfold only_msgs_log.
  assert (Hm : r_msgs r' = r_msgs r ++ [x]) by (rewrite H; reflexivity).
  rewrite Hm. rewrite H at 1. unfold push. destruct r; reflexivity.
Qed.

(* (3) what a pre-vote request leaves behind on the receiver.  At most one message is
   queued.  A Follower or Leader keeps every field except the outbox and (Follower
   only, on a rejection) the commit index taken from the request; in particular vote,
   leader id, role and election timer are untouched, also when the pre-vote is
   granted.  A Candidate or PreCandidate that rejects may be stepped down by the commit
   fast-forward ([maybe_commit_by_vote]) to Follower of the same term. *)
Theorem prevote_req_no_trace r m r' c :
  m_type m = MsgRequestPreVote -> step r m = Ok (r', c) ->
  (exists new, r_msgs r' = r_msgs r ++ new /\ (length new <= 1)%nat /\
     forall x, In x new -> m_type x = MsgRequestPreVoteResponse /\ m_to x = m_from m /\
                           m_from x = r_id r /\
                           (m_reject x = false -> m_term x = m_term m /\ grants r m = Ok true) /\
                           (m_reject x = true -> m_term x = r_term r)) /\
  (only_msgs_log r r' /\ (r_state r = Leader \/ grants r m = Ok true -> r_log r' = r_log r) \/
   ((r_state r = Candidate \/ r_state r = PreCandidate) /\ grants r m = Ok false /\
    r_state r' = Follower /\ r_term r' = r_term r /\ r_vote r' = r_vote r /\
    r_leader_id r' = INVALID_ID /\ r_election_elapsed r' = 0 /\ cfg_of r' = cfg_of r)).
Proof.
  intros Ht H. apply prevote_req_receiver in H; [|exact Ht].
  destruct H as [_ [(_ & _ & ->)|[(Z & L & ->)|[(T & G & ->)|(T & G & ci & Hci & Hm)]]]].
  - split.
    + exists []. rewrite app_nil_r. split; [reflexivity|]. split; [cbn; lia|]. intros x [].
    + left. split; [apply only_msgs_log_refl|reflexivity].
  - split.
    + eexists. split; [reflexivity|]. split; [cbn; lia|]. intros x [<-|[]]. cbn.
      repeat split; intros; try reflexivity; try discriminate.
    + left. split; [apply only_msgs_log_push|reflexivity].
  - split.
    + eexists. split; [reflexivity|]. split; [cbn; lia|]. intros x [<-|[]]. cbn.
      repeat split; intros; try reflexivity; try assumption; try discriminate.
    + left. split; [apply only_msgs_log_push|reflexivity].
  - pose proof (maybe_commit_by_vote_msgs _ _ _ Hm) as Hmsgs.
    split.
    + eexists. split; [rewrite Hmsgs; reflexivity|]. split; [cbn; lia|]. intros x [<-|[]]. cbn.
      repeat split; intros; try reflexivity; try discriminate.
    + pose proof Hm as Hm'. apply maybe_commit_by_vote_cases in Hm. destruct Hm as [E|(Hs & l' & Hf)].
      * left. split; [eapply only_msgs_log_push_log; exact E|].
        intros [S|S]; [|congruence].
        unfold maybe_commit_by_vote in Hm'.
        assert (Hl : is_leader (push r (vote_resp r m MsgRequestPreVoteResponse true (r_term r) ci)) = true)
          by (unfold is_leader; cbn; rewrite S; reflexivity).
        rewrite Hl, orb_true_r in Hm'.
        destruct ((m_commit m =? 0) || (m_commit_term m =? 0)); okinv Hm'; reflexivity.
      * right. split; [exact Hs|]. split; [exact G|].
        apply become_follower_facts in Hf.
        destruct Hf as (A1 & A2 & A3 & A4 & A5 & _ & _ & _ & _ & A10 & _).
        cbn in A1, A2, A5. rewrite N.eqb_refl in A5. repeat split; assumption.
Qed.

(* ------------------------------------------------------------------ *)
(* Part 5: the lease and the leader *)

Definition lease_request (r : raft) (m : msg) : Prop :=
  (m_type m = MsgRequestVote \/ m_type m = MsgRequestPreVote) /\
  r_term r < m_term m /\ list_eqb (m_context m) CAMPAIGN_TRANSFER = false.

(* (4) inside the lease any number of higher-term (pre-)vote requests changes nothing
   and queues nothing *)
Theorem lease_trace : forall ms r,
  r_check_quorum r = true -> r_leader_id r <> INVALID_ID ->
  r_election_elapsed r < r_election_timeout r ->
  Forall (lease_request r) ms ->
  run r (map IStep ms) = Ok r.
Proof.
  induction ms as [|m rest IH]; intros r Hc Hl He Hall; [reflexivity|].
  inversion Hall as [|? ? (Ht & Hterm & Hctx) Hrest]; subst.
  cbn [map run apply_input].
  rewrite (lease_ignores_vote_requests r m Ht Hterm Hc Hl He Hctx). cbn [bind fst].
  apply IH; assumption.
Qed.

(* a leader's step under any message that carries no adoptable higher term *)
Theorem leader_step r m r' c :
  r_state r = Leader -> step r m = Ok (r', c) ->
  (m_term m <= r_term r \/ exempt m = true \/ lease_drop r m = true) ->
  r_term r' = r_term r /\ cfg_of r' = cfg_of r /\
  ((r_state r' = Leader /\ r_leader_id r' = r_leader_id r) \/
   (m_type m = MsgCheckQuorum /\ check_quorum_active r = false /\
    r_state r' = Follower /\ r_leader_id r' = INVALID_ID)).
Proof.
  intros Hs H Hq. rewrite step_eq in H. ib H pre Hpre. apply step_pre_cases in Hpre.
  assert (Hk : forall ra, keeps r ra ->
    r_term ra = r_term r /\ cfg_of ra = cfg_of r /\
    ((r_state ra = Leader /\ r_leader_id ra = r_leader_id r) \/
     (m_type m = MsgCheckQuorum /\ check_quorum_active r = false /\
      r_state ra = Follower /\ r_leader_id ra = INVALID_ID))).
  { intros ra K. apply keeps_fields in K. destruct K as (A1 & _ & A3 & A4 & A5).
    split; [exact A1|]. split; [exact A5|]. left. split; congruence. }
  destruct pre as [[r1 c1]|r1].
  - okinv H. destruct Hpre as (_ & _ & [(_ & _ & ->)|(_ & Hl)]); [apply Hk, keeps_refl|].
    apply Hk, msgs_only_keeps, low_term_reply_msgs_only with (m := m). exact Hl.
  - destruct Hpre as [[-> _]|(L & D & E & _)];
      [|destruct Hq as [Q|[Q|Q]]; [lia|congruence|congruence]].
    unfold step_body in H.
    destruct (m_type m =? MsgHup) eqn:Ehup.
    { ib H y Hy. okinv H. apply hup_cases in Hy. destruct Hy as [->|(C & _)]; [|contradiction].
      apply Hk, keeps_refl. }
    destruct ((m_type m =? MsgRequestVote) || (m_type m =? MsgRequestPreVote)) eqn:Ev.
    { assert (Ht : m_type m = MsgRequestVote \/ m_type m = MsgRequestPreVote)
        by (apply orb_prop in Ev; destruct Ev as [E|E]; apply N.eqb_eq in E; auto).
      assert (Hb : step_body r m = Ok (r', c)) by (unfold step_body; rewrite Ehup, Ev; exact H).
      apply step_body_vote in Hb; [|exact Ht].
      destruct Hb as [_ [(_ & _ & ->)|(_ & _ & ci & _ & Hm)]].
      - destruct (m_type m =? MsgRequestVote); cbn; rewrite Hs; auto.
      - apply maybe_commit_by_vote_cases in Hm. destruct Hm as [->|([S|S] & _)];
          [cbn; rewrite Hs; auto| |]; cbn in S; congruence. }
    rewrite Hs in H. apply step_leader_cases in H. destruct H as [K|(T & A & Hf)]; [apply Hk, K|].
    apply become_follower_facts in Hf. destruct Hf as (F1 & F2 & F3 & F4 & _).
    split; [exact F1|]. split; [exact F2|]. right. auto.
Qed.

(* (4) (pre-)vote requests that do not carry a higher term never change the term, role
   or leader id of a Leader: a lower-term vote request is ignored, a lower-term
   pre-vote request is rejected explicitly, a same-term one gets one response *)
Theorem leader_vote_request r m r' c :
  r_state r = Leader ->
  (m_type m = MsgRequestVote \/ m_type m = MsgRequestPreVote) ->
  m_term m <= r_term r -> step r m = Ok (r', c) ->
  r_term r' = r_term r /\ r_state r' = Leader /\ r_leader_id r' = r_leader_id r /\
  r_log r' = r_log r /\ c = E_OK /\
  ((m_term m <> 0 /\ m_term m < r_term r /\
    if m_type m =? MsgRequestVote then r' = r
    else r' = push r (vote_resp r m MsgRequestPreVoteResponse true (r_term r) (0, 0))) \/
   ((m_term m = 0 \/ m_term m = r_term r) /\
    ((grants r m = Ok true /\
      r' = if m_type m =? MsgRequestVote
           then (push r (vote_resp r m (resp_type m) false (m_term m) (0, 0)))
                  <| r_election_elapsed := 0 |> <| r_vote := m_from m |>
           else push r (vote_resp r m (resp_type m) false (m_term m) (0, 0))) \/
     (grants r m = Ok false /\ exists ci, commit_info (r_log r) = Ok ci /\
      r' = push r (vote_resp r m (resp_type m) true (r_term r) ci))))).
Proof.
  intros Hs Ht Hle H. rewrite step_eq in H. ib H pre Hpre. apply step_pre_cases in Hpre.
  destruct pre as [[r1 c1]|r1].
  - okinv H. destruct Hpre as (-> & Z & [(L & _)|(L & Hl)]); [lia|].
    unfold low_term_reply in Hl.
    assert (Hn : ((m_type m =? MsgHeartbeat) || (m_type m =? MsgAppend)) = false)
      by (destruct Ht as [E|E]; rewrite E; reflexivity).
    rewrite Hn, andb_false_r in Hl.
    destruct Ht as [E|E]; rewrite E in Hl |- *.
    + change (MsgRequestVote =? MsgRequestPreVote) with false in Hl. okinv Hl.
      change (MsgRequestVote =? MsgRequestVote) with true.
      repeat split; try assumption. left. auto.
    + change (MsgRequestPreVote =? MsgRequestPreVote) with true in Hl.
      apply send_vote_resp in Hl; [|reflexivity|right; reflexivity]. destruct Hl as [_ ->].
      change (MsgRequestPreVote =? MsgRequestVote) with false.
      repeat split; try assumption. left. split; [exact Z|]. split; [exact L|reflexivity].
  - destruct Hpre as [[-> Hc]|(L & _)]; [|lia].
    assert (Hterm : m_term m = 0 \/ m_term m = r_term r) by (destruct Hc as [?|[?|(? & _)]]; auto; lia).
    apply step_body_vote in H; [|exact Ht].
    destruct H as [-> [(G & Z & ->)|(G & Z & ci & Hci & Hm)]].
    + assert (F : forall x, r_term (push r x) = r_term r /\ r_state (push r x) = Leader /\
                   r_leader_id (push r x) = r_leader_id r /\ r_log (push r x) = r_log r)
        by (intros x; cbn; auto).
      destruct (m_type m =? MsgRequestVote) eqn:E; cbn; rewrite Hs;
        (repeat split; try reflexivity); right; (split; [exact Hterm|]); left;
        (split; [exact G|reflexivity]).
    + unfold maybe_commit_by_vote in Hm.
      assert (Hl : is_leader (push r (vote_resp r m (resp_type m) true (r_term r) ci)) = true)
        by (unfold is_leader; cbn; rewrite Hs; reflexivity).
      rewrite Hl, orb_true_r in Hm.
      assert (E : r' = push r (vote_resp r m (resp_type m) true (r_term r) ci))
        by (destruct ((m_commit m =? 0) || (m_commit_term m =? 0)); okinv Hm; reflexivity).
      subst r'. cbn. rewrite Hs. repeat split; try reflexivity. right. split; [exact Hterm|].
      right. split; [exact G|]. exists ci. split; [exact Hci|reflexivity].
Qed.

(* (5) a rejected pre-vote response from a higher term: the receiver (a PreCandidate or
   any other role) becomes follower of that term with no leader; nothing is queued *)
Theorem prevote_reject_higher_term r m r' c :
  m_type m = MsgRequestPreVoteResponse -> m_reject m = true -> r_term r < m_term m ->
  step r m = Ok (r', c) ->
  c = E_OK /\ become_follower r (m_term m) INVALID_ID = Ok r' /\
  r_term r' = m_term m /\ r_state r' = Follower /\ r_vote r' = INVALID_ID /\
  r_leader_id r' = INVALID_ID /\ r_msgs r' = r_msgs r /\ r_election_elapsed r' = 0.
Proof.
  intros Ht Hr Hlt H. rewrite step_eq in H. ib H pre Hpre. apply step_pre_cases in Hpre.
  assert (Hex : exempt m = false) by (unfold exempt; rewrite Ht, Hr; reflexivity).
  assert (Hfl : from_leader m = false) by (unfold from_leader; rewrite Ht; reflexivity).
  destruct pre as [[r1 c1]|r1].
  - exfalso. destruct Hpre as (_ & _ & [(_ & D & _)|(L & _)]); [|lia].
    unfold lease_drop in D. rewrite Ht in D. discriminate.
  - destruct Hpre as [[_ [Z|[Z|(_ & _ & E)]]]|(_ & _ & _ & Hf)]; try lia; try congruence.
    rewrite Hfl in Hf. pose proof (become_follower_facts _ _ _ _ Hf) as
      (F1 & F2 & F3 & F4 & F5 & F6 & _ & _ & _ & F10 & _).
    unfold step_body in H. rewrite Ht, F3 in H.
    change (MsgRequestPreVoteResponse =? MsgHup) with false in H.
    change ((MsgRequestPreVoteResponse =? MsgRequestVote) ||
            (MsgRequestPreVoteResponse =? MsgRequestPreVote)) with false in H.
    cbv iota in H. unfold step_follower in H. rewrite Ht in H.
    change (MsgRequestPreVoteResponse =? MsgPropose) with false in H.
    change (MsgRequestPreVoteResponse =? MsgAppend) with false in H.
    change (MsgRequestPreVoteResponse =? MsgHeartbeat) with false in H.
    change (MsgRequestPreVoteResponse =? MsgSnapshot) with false in H.
    change (MsgRequestPreVoteResponse =? MsgTransferLeader) with false in H.
    change (MsgRequestPreVoteResponse =? MsgTimeoutNow) with false in H.
    change (MsgRequestPreVoteResponse =? MsgReadIndex) with false in H.
    change (MsgRequestPreVoteResponse =? MsgReadIndexResp) with false in H.
    cbv iota in H. okinv H.
    assert (Hne : (r_term r =? m_term m) = false) by (apply N.eqb_neq; lia).
    rewrite Hne in F5. repeat split; assumption.
Qed.

(* (6) a leader's tick: the term never changes; the role changes only at an
   election-timeout boundary with check_quorum on and no quorum recently active *)
Theorem leader_tick r r' b :
  r_state r = Leader -> tick r = Ok (r', b) ->
  r_term r' = r_term r /\ cfg_of r' = cfg_of r /\
  ((r_state r' = Leader /\ r_leader_id r' = r_leader_id r) \/
   (r_election_timeout r <= r_election_elapsed r + 1 /\ r_check_quorum r = true /\
    check_quorum_active r = false /\ r_state r' = Follower /\ r_leader_id r' = INVALID_ID)).
Proof.
  intros Hs. unfold tick. rewrite Hs. unfold tick_heartbeat.
  set (r0 := r <| r_heartbeat_elapsed := r_heartbeat_elapsed r + 1 |>
               <| r_election_elapsed := r_election_elapsed r + 1 |>).
  intros H. ib H y Hy. destruct y as [r1 hr].
  assert (P1 : r_term r1 = r_term r /\ cfg_of r1 = cfg_of r /\
     ((r_state r1 = Leader /\ r_leader_id r1 = r_leader_id r) \/
      (r_election_timeout r <= r_election_elapsed r + 1 /\ r_check_quorum r = true /\
       check_quorum_active r = false /\ r_state r1 = Follower /\ r_leader_id r1 = INVALID_ID))).
  { clear H. dtop Hy; [|okinv Hy; cbn; rewrite Hs; auto].
    apply N.leb_le in Heqb0. cbn in Heqb0.
    ib Hy z Hz. destruct z as [ra ha]. okinv Hy.
    assert (Pa : r_term ra = r_term r /\ cfg_of ra = cfg_of r /\
       ((r_state ra = Leader /\ r_leader_id ra = r_leader_id r) \/
        (r_election_timeout r <= r_election_elapsed r + 1 /\ r_check_quorum r = true /\
         check_quorum_active r = false /\ r_state ra = Follower /\ r_leader_id ra = INVALID_ID))).
    { destruct (r_check_quorum (r0 <| r_election_elapsed := 0 |>)) eqn:Ecq;
        [|okinv Hz; cbn; rewrite Hs; auto].
      ib Hz w Hw. okinv Hz. destruct w as [rb cb]. cbn [fst].
      apply leader_step in Hw; [|exact Hs|left; cbn; lia].
      destruct Hw as (A1 & A2 & [A3|(_ & A4 & A5 & A6)]).
      - split; [exact A1|]. split; [exact A2|]. left. exact A3.
      - split; [exact A1|]. split; [exact A2|]. right. repeat split; assumption. }
    destruct Pa as (A1 & A2 & A3).
    destruct (is_leader ra && _); [|auto]. cbn. auto. }
  destruct P1 as (A1 & A2 & A3).
  dtop H; [okinv H; auto|].
  dtop H; [|okinv H; auto].
  ib H z Hz. okinv H. destruct z as [rb cb]. cbn [fst].
  assert (Hs1 : r_state r1 = Leader).
  { apply negb_false_iff in Heqb0. unfold is_leader in Heqb0.
    destruct (r_state r1); try discriminate. reflexivity. }
  apply leader_step in Hz; [|exact Hs1|left; cbn; lia].
  destruct Hz as (B1 & B2 & [(B3 & B4)|(T & _)]); [|discriminate].
  unfold cfg_of in *. cbn in B1, B2, B4.
  split; [congruence|]. split; [congruence|]. left. split; [exact B3|].
  destruct A3 as [(_ & A4)|(_ & _ & _ & S & _)]; congruence.
Qed.

(* an input under which a leader keeps its place *)
Definition leader_safe (r : raft) (i : input) : Prop :=
  match i with
  | ITick => r_election_timeout r <= r_election_elapsed r + 1 -> r_check_quorum r = true ->
             check_quorum_active r = true
  | IStep m => (m_term m <= r_term r \/ exempt m = true \/ lease_drop r m = true) /\
               (m_type m = MsgCheckQuorum -> check_quorum_active r = true)
  end.

Fixpoint leader_safe_run (r : raft) (ins : list input) : Prop :=
  match ins with
  | [] => True
  | i :: rest => leader_safe r i /\ forall r1, apply_input r i = Ok r1 -> leader_safe_run r1 rest
  end.

Theorem leader_safe_input r i r' :
  r_state r = Leader -> leader_safe r i -> apply_input r i = Ok r' ->
  r_state r' = Leader /\ r_term r' = r_term r /\ r_leader_id r' = r_leader_id r /\
  cfg_of r' = cfg_of r.
Proof.
  intros Hs Hq H. destruct i as [m|]; cbn [apply_input] in H; ib H y Hy; okinv H;
    destruct y as [r1 c]; cbn [fst].
  - destruct Hq as [Q1 Q2]. apply leader_step in Hy; [|exact Hs|exact Q1].
    destruct Hy as (A1 & A2 & [(A3 & A4)|(T & A & _)]); [auto|].
    specialize (Q2 T). congruence.
  - unfold leader_safe in Hq. apply leader_tick in Hy; [|exact Hs].
    destruct Hy as (A1 & A2 & [(A3 & A4)|(B1 & B2 & B3 & _)]); [auto|].
    specialize (Hq B1 B2). congruence.
Qed.

(* (6, window form) over any sequence of ticks and messages in which every
   election-timeout boundary (and every MsgCheckQuorum) sees a quorum recently active
   and no message carries an adoptable higher term, the leader keeps role, term and
   leader id *)
Theorem leader_window : forall ins r r',
  r_state r = Leader -> leader_safe_run r ins -> run r ins = Ok r' ->
  r_state r' = Leader /\ r_term r' = r_term r /\ r_leader_id r' = r_leader_id r /\
  cfg_of r' = cfg_of r.
Proof.
  induction ins as [|i rest IH]; intros r r' Hs Hq H; cbn [run] in H.
  - okinv H. auto.
  - destruct Hq as [Q1 Q2]. ib H r1 H1.
    pose proof (leader_safe_input _ _ _ Hs Q1 H1) as (A1 & A2 & A3 & A4).
    specialize (IH r1 r' A1 (Q2 r1 H1) H). destruct IH as (B1 & B2 & B3 & B4).
    repeat split; congruence.
Qed.

(* the lease keeps a follower's term too: a follower that hears from its leader often
   enough ignores every higher-term (pre-)vote request -- one step *)
Theorem follower_lease_step r m r' c :
  lease_drop r m = true -> r_term r < m_term m -> step r m = Ok (r', c) -> r' = r /\ c = E_OK.
Proof.
  intros D L H. rewrite step_eq in H. unfold step_pre in H.
  assert (Hz : (m_term m =? 0) = false) by (apply N.eqb_neq; lia).
  assert (Hl : (r_term r <? m_term m) = true) by (apply N.ltb_lt; exact L).
  rewrite Hz, Hl, D in H. cbn [bind] in H. okinv H. split; reflexivity.
Qed.

(* ------------------------------------------------------------------ *)
(* a pre-candidate's tick: wait, or time out and run the pre-vote campaign again *)

Lemma set_elapsed_twice (r : raft) a b :
  r <| r_election_elapsed := a |> <| r_election_elapsed := b |> = r <| r_election_elapsed := b |>.
Proof. destruct r; reflexivity. Qed.

Theorem precandidate_tick r r' b :
  r_state r = PreCandidate -> r_pre_vote r = true -> ~ self_wins r ->
  tick r = Ok (r', b) ->
  r_term r' = r_term r /\ r_vote r' = r_vote r /\ r_state r' = PreCandidate /\
  ((b = false /\ r' = r <| r_election_elapsed := r_election_elapsed r + 1 |>) \/
   (b = true /\ r_randomized_election_timeout r <= r_election_elapsed r + 1 /\
    r_promotable r = true /\
    (r' = r <| r_election_elapsed := 0 |> \/
     campaign_pre (r <| r_election_elapsed := 0 |>) = Ok r'))).
Proof.
  intros Hs Hpv Hw. unfold tick. rewrite Hs. unfold tick_election. intros H.
  dtop H.
  { okinv H. cbn. rewrite Hs. repeat split. left. split; reflexivity. }
  apply orb_false_iff in Heqb0. destruct Heqb0 as [Hp Hq].
  apply negb_false_iff in Hp, Hq. unfold pass_election_timeout in Hp. cbn in Hp, Hq.
  apply N.leb_le in Hp.
  rewrite set_elapsed_twice in H.
  ib H y Hy. okinv H. destruct y as [r1 c1]. cbn [fst].
  rewrite step_eq in Hy. unfold step_pre in Hy.
  change (m_term (new_message INVALID_ID MsgHup (Some (r_id (r <| r_election_elapsed := 0 |>)))))
    with 0 in Hy.
  change (0 =? 0) with true in Hy. cbn [bind] in Hy. unfold step_body in Hy.
  change (m_type (new_message INVALID_ID MsgHup (Some (r_id (r <| r_election_elapsed := 0 |>)))))
    with MsgHup in Hy.
  change (MsgHup =? MsgHup) with true in Hy. cbv iota in Hy.
  ib Hy z Hz. okinv Hy. apply hup_cases in Hz.
  destruct Hz as [->|(_ & _ & Hc)].
  - cbn. rewrite Hs. repeat split. right. auto.
  - cbn in Hc. rewrite Hpv in Hc.
    pose proof (campaign_pre_pending _ _ Hc Hw) as (A1 & A2 & A3 & _).
    cbn in A1, A2. repeat split; try assumption. right. auto.
Qed.

(* ------------------------------------------------------------------ *)
(* executable checkers for the trace hypotheses (used by the non-vacuity examples) *)

Definition vote_res_eqb (a b : vote_res) : bool :=
  match a, b with
  | VotePending, VotePending | VoteLost, VoteLost | VoteWon, VoteWon => true
  | _, _ => false
  end.

Lemma vote_res_eqb_eq a b : vote_res_eqb a b = true <-> a = b.
Proof. destruct a, b; cbn; split; intros H; try discriminate; reflexivity. Qed.

Definition self_winsb (r : raft) : bool := vote_res_eqb (tally r [(r_id r, true)]) VoteWon.

Definition quietb (r : raft) (i : input) : bool :=
  match i with
  | ITick => negb (self_winsb r)
  | IStep m =>
      ((m_term m <=? r_term r) || exempt m || lease_drop r m)
      && negb (m_type m =? MsgTimeoutNow)
      && (negb (m_type m =? MsgHup) || negb (self_winsb r))
      && (negb (m_type m =? MsgRequestPreVoteResponse) || negb (role_eqb (r_state r) PreCandidate)
          || negb (vote_res_eqb (prevote_tally r m) VoteWon))
  end.

Fixpoint quiet_runb (r : raft) (ins : list input) : bool :=
  match ins with
  | [] => true
  | i :: rest => quietb r i && match apply_input r i with
                               | Ok r1 => quiet_runb r1 rest
                               | Panic _ => true
                               end
  end.

Lemma quietb_sound r i : quietb r i = true -> quiet r i.
Proof.
  destruct i as [m|]; cbn [quietb quiet].
  - intros H. apply andb_prop in H. destruct H as [H H4]. apply andb_prop in H. destruct H as [H H3].
    apply andb_prop in H. destruct H as [H1 H2].
    split; [|split; [|split]].
    + apply orb_prop in H1. destruct H1 as [H1|H1]; [|right; right; exact H1].
      apply orb_prop in H1. destruct H1 as [H1|H1]; [left; apply N.leb_le; exact H1|right; left; exact H1].
    + apply negb_true_iff, N.eqb_neq in H2. exact H2.
    + intros T W. rewrite T in H3. change (MsgHup =? MsgHup) with true in H3. cbn [negb orb] in H3.
      apply negb_true_iff in H3. unfold self_winsb in H3. unfold self_wins in W. rewrite W in H3.
      discriminate.
    + intros T S W. rewrite T, S, W in H4. discriminate.
  - intros H W. unfold self_winsb in H. unfold self_wins in W. rewrite W in H. discriminate.
Qed.

Lemma quiet_runb_sound : forall ins r, quiet_runb r ins = true -> quiet_run r ins.
Proof.
  induction ins as [|i rest IH]; intros r H; cbn [quiet_runb quiet_run] in *; [exact I|].
  apply andb_prop in H. destruct H as [H1 H2]. split; [apply quietb_sound; exact H1|].
  intros r1 E. rewrite E in H2. apply IH. exact H2.
Qed.

Definition leader_safeb (r : raft) (i : input) : bool :=
  match i with
  | ITick => negb (r_election_timeout r <=? r_election_elapsed r + 1) || negb (r_check_quorum r)
             || check_quorum_active r
  | IStep m => ((m_term m <=? r_term r) || exempt m || lease_drop r m)
               && (negb (m_type m =? MsgCheckQuorum) || check_quorum_active r)
  end.

Fixpoint leader_safe_runb (r : raft) (ins : list input) : bool :=
  match ins with
  | [] => true
  | i :: rest => leader_safeb r i && match apply_input r i with
                                     | Ok r1 => leader_safe_runb r1 rest
                                     | Panic _ => true
                                     end
  end.

Lemma leader_safeb_sound r i : leader_safeb r i = true -> leader_safe r i.
Proof.
  destruct i as [m|]; cbn [leader_safeb leader_safe].
  - intros H. apply andb_prop in H. destruct H as [H1 H2]. split.
    + apply orb_prop in H1. destruct H1 as [H1|H1]; [|right; right; exact H1].
      apply orb_prop in H1. destruct H1 as [H1|H1]; [left; apply N.leb_le; exact H1|right; left; exact H1].
    + intros T. rewrite T in H2. exact H2.
  - intros H B C. apply N.leb_le in B. rewrite B, C in H. exact H.
Qed.

Lemma leader_safe_runb_sound : forall ins r, leader_safe_runb r ins = true -> leader_safe_run r ins.
Proof.
  induction ins as [|i rest IH]; intros r H; cbn [leader_safe_runb leader_safe_run] in *; [exact I|].
  apply andb_prop in H. destruct H as [H1 H2]. split; [apply leader_safeb_sound; exact H1|].
  intros r1 E. rewrite E in H2. apply IH. exact H2.
Qed.

(* ------------------------------------------------------------------ *)
(* sample states: three voters 1 2 3, pre_vote and check_quorum on, election timeout 10 *)

Definition xs_ent (ty i t : N) : entry := mkEntry ty t i [] [].
Definition xs_cs : conf_state := mkCS [1; 2; 3] [] [] [] false.
(* entries 1..3 of term 1, entry 2 a membership change *)
Definition xs_store : MemStorage.mem :=
  mkMem (mkHS 2 0 1) xs_cs [xs_ent 0 1 1; xs_ent 1 2 1; xs_ent 0 3 1] 0 0 false false None.
Definition xs_log (cmt app : N) : raft_log := mkLog xs_store (u_new 4) cmt 3 app 0.
Definition xs_pr (m : N) (act : bool) : progress :=
  mkPr m (m + 1) Replicate false 0 0 act (Inflights.new 256) 0 0.
Definition xs_prs (a2 a3 : bool) : tracker :=
  mkTr [(1, xs_pr 3 true); (2, xs_pr 3 a2); (3, xs_pr 3 a3)]
       (mkConf [1; 2; 3] [] [] [] false) [] 256 false.
Definition xs_node (id term vote : N) (st : role) (lead : N) (l : raft_log) (prs : tracker) : raft :=
  mkRaft term vote id [] l 256 1000 0 st true lead None 0 (ro_new 0) 0 0
         true true false false false 2 10 15 10 20 0%Z u64_max 0 3 u64_max
         prs [] [12; 13; 14; 16; 11; 17] None.

(* node 3: follower of leader 1 in term 2, everything applied *)
Definition xs_follower : raft := xs_node 3 2 0 Follower 1 (xs_log 3 3) (xs_prs false false).
(* node 3 as candidate of term 3 with commit index 1: entry 2 (a membership change) is
   neither committed nor applied as far as it knows *)
Definition xs_candidate : raft := xs_node 3 3 3 Candidate 0 (xs_log 1 1) (xs_prs false false).
(* node 1: leader of term 2 that heard from node 2 *)
Definition xs_leader : raft := xs_node 1 2 1 Leader 1 (xs_log 3 3) (xs_prs true false).

Definition xs_hup : msg := new_message 0 MsgHup (Some 3).
Definition xs_prevote_resp (from t : N) (rej : bool) : msg :=
  msg_default <| m_type := MsgRequestPreVoteResponse |> <| m_from := from |> <| m_to := 3 |>
              <| m_term := t |> <| m_reject := rej |>.
Definition xs_prevote_req (from to t idx lt cmt ct : N) : msg :=
  msg_default <| m_type := MsgRequestPreVote |> <| m_from := from |> <| m_to := to |>
              <| m_term := t |> <| m_index := idx |> <| m_log_term := lt |>
              <| m_commit := cmt |> <| m_commit_term := ct |>.

(* node 3 times out, pre-campaigns, is rejected by both peers, times out and
   pre-campaigns again: eighteen quiet inputs, the term stays 2 *)
Definition xs_quiet_inputs : list input :=
  [IStep xs_hup; IStep (xs_prevote_resp 1 2 true); IStep (xs_prevote_resp 2 2 true)]
  ++ repeat ITick 12 ++ [IStep (xs_prevote_resp 1 2 true)].

Definition xs_hbresp : msg :=
  msg_default <| m_type := MsgHeartbeatResponse |> <| m_from := 2 |> <| m_to := 1 |> <| m_term := 2 |>.

(* the leader ticks through two election-timeout boundaries, hears from node 2 in
   between, and meanwhile node 3 sends a pre-vote request of term 3 and a stale vote request *)
Definition xs_leader_inputs : list input :=
  repeat ITick 10 ++
  [IStep xs_hbresp; IStep (xs_prevote_req 3 1 3 3 1 3 1);
   IStep (msg_default <| m_type := MsgRequestVote |> <| m_from := 3 |> <| m_to := 1 |> <| m_term := 1 |>)]
  ++ repeat ITick 10.

Lemma xs_quiet_run : quiet_run xs_follower xs_quiet_inputs.
Proof. apply quiet_runb_sound. vm_compute. reflexivity. Qed.

Lemma xs_quiet_result : exists r', run xs_follower xs_quiet_inputs = Ok r' /\
  r_term r' = 2 /\ r_vote r' = 0 /\ r_state r' = PreCandidate.
Proof. vm_compute. eexists. repeat split; reflexivity. Qed.

(* ... whereas one granted response then completes the quorum: Candidate of term 3 *)
Definition xs_precandidate : raft :=
  match run xs_follower [IStep xs_hup] with Ok r => r | Panic _ => xs_follower end.

Lemma xs_prevote_won :
  run xs_follower [IStep xs_hup] = Ok xs_precandidate /\
  r_state xs_precandidate = PreCandidate /\ r_term xs_precandidate = 2 /\
  prevote_tally xs_precandidate (xs_prevote_resp 1 3 false) = VoteWon /\
  exists r'' c, step xs_precandidate (xs_prevote_resp 1 3 false) = Ok (r'', c) /\
    r_state r'' = Candidate /\ r_term r'' = 3 /\ r_vote r'' = 3.
Proof.
  split; [vm_compute; reflexivity|]. split; [vm_compute; reflexivity|].
  split; [vm_compute; reflexivity|]. split; [vm_compute; reflexivity|].
  vm_compute. do 2 eexists. repeat split; reflexivity.
Qed.

Lemma xs_leader_safe_run : leader_safe_run xs_leader xs_leader_inputs.
Proof. apply leader_safe_runb_sound. vm_compute. reflexivity. Qed.

Lemma xs_leader_result : exists r', run xs_leader xs_leader_inputs = Ok r' /\
  r_state r' = Leader /\ r_term r' = 2.
Proof. vm_compute. eexists. repeat split; reflexivity. Qed.

(* without the heartbeat response the second boundary finds no quorum: step-down *)
Lemma xs_leader_stepdown : exists r', run xs_leader (repeat ITick 20) = Ok r' /\
  r_state r' = Follower /\ r_term r' = 2.
Proof. vm_compute. eexists. repeat split; reflexivity. Qed.

(* the pre-vote campaign of node 3 *)
Lemma xs_campaign : exists r' x1 x2,
  campaign_pre xs_follower = Ok r' /\ tally xs_follower [(3, true)] = VotePending /\
  r_state r' = PreCandidate /\ r_term r' = 2 /\ r_vote r' = 0 /\ r_msgs r' = [x1; x2] /\
  m_to x1 = 1 /\ m_to x2 = 2 /\ m_term x1 = 3 /\ m_term x2 = 3 /\
  m_type x1 = MsgRequestPreVote /\ m_index x1 = 3 /\ m_log_term x1 = 1.
Proof. vm_compute. do 3 eexists. repeat split; reflexivity. Qed.

(* the lease: node 3 as follower of leader 1 drops a higher-term pre-vote request, and
   answers it once the lease has run out *)
Lemma xs_lease : step xs_follower (xs_prevote_req 2 3 3 3 1 3 1) = Ok (xs_follower, E_OK) /\
  lease_request xs_follower (xs_prevote_req 2 3 3 3 1 3 1) /\
  exists r' x, step (xs_follower <| r_election_elapsed := 10 |>) (xs_prevote_req 2 3 3 3 1 3 1)
               = Ok (r', E_OK) /\
    r_msgs r' = [x] /\ m_reject x = false /\ m_term x = 3 /\ r_term r' = 2 /\ r_vote r' = 0 /\
    r_election_elapsed r' = 10 /\ r_leader_id r' = 1.
Proof.
  split; [vm_compute; reflexivity|]. split; [split; [right; reflexivity|split; [vm_compute; reflexivity|reflexivity]]|].
  vm_compute. do 2 eexists. repeat split; reflexivity.
Qed.

(* REFUTED: "handling a pre-vote request never changes the receiver's role, leader id or
   election timer".  A Candidate (or PreCandidate) that REJECTS a pre-vote request
   still takes the commit index from it (maybe_commit_by_vote); if the newly committed
   range holds a membership change it has not applied, it abandons its campaign:
   Follower of the same term, timer reset, commit index raised.  Witness: node 3,
   Candidate of term 3 with commit index 1 and a membership change at index 2; request
   from node 2 at term 4 with a shorter log (index 2) but commit index 2. *)
Theorem prevote_req_role_refuted :
  exists r m r' c x,
    m_type m = MsgRequestPreVote /\ step r m = Ok (r', c) /\
    r_state r = Candidate /\ r_state r' = Follower /\
    r_term r' = r_term r /\ r_vote r' = r_vote r /\
    r_msgs r' = [x] /\ m_reject x = true /\
    committed (r_log r) = 1 /\ committed (r_log r') = 2 /\
    r_randomized_election_timeout r' <> r_randomized_election_timeout r.
Proof.
  exists xs_candidate, (xs_prevote_req 2 3 4 2 1 2 1). vm_compute.
  do 3 eexists. repeat split; try reflexivity. discriminate.
Qed.

(* ------------------------------------------------------------------ *)
(* the definitions used in the pinned statements, unfolded (pinned in Props/C16.v so
   that the statements can be read without this file) *)

Lemma def_tally r v :
  tally r v = Quorum.tracker_vote_result (incoming (t_conf (r_prs r))) (outgoing (t_conf (r_prs r))) v.
Proof. reflexivity. Qed.

Lemma def_self_wins r : self_wins r <-> tally r [(r_id r, true)] = VoteWon.
Proof. reflexivity. Qed.

Lemma def_prevote_tally r m :
  prevote_tally r m =
  tally r (Quorum.record_vote (t_votes (r_prs r)) (m_from m) (negb (m_reject m))).
Proof. reflexivity. Qed.

Lemma def_lease_drop r m :
  lease_drop r m =
  ((m_type m =? MsgRequestVote) || (m_type m =? MsgRequestPreVote))
  && negb (list_eqb (m_context m) CAMPAIGN_TRANSFER)
  && (r_check_quorum r && negb (r_leader_id r =? INVALID_ID)
      && (r_election_elapsed r <? r_election_timeout r)).
Proof. reflexivity. Qed.

Lemma def_exempt m :
  exempt m = (m_type m =? MsgRequestPreVote)
             || ((m_type m =? MsgRequestPreVoteResponse) && negb (m_reject m)).
Proof. reflexivity. Qed.

Lemma def_cfg_of r :
  cfg_of r = (r_id r, r_pre_vote r, r_check_quorum r, r_election_timeout r, r_heartbeat_timeout r).
Proof. reflexivity. Qed.

Lemma def_check_quorum_active r :
  check_quorum_active r = snd (quorum_recently_active (r_prs r) (r_id r)).
Proof. reflexivity. Qed.

Lemma def_pre_candidate_of r :
  pre_candidate_of r =
  r <| r_state := PreCandidate |> <| r_prs := (r_prs r) <| t_votes := [(r_id r, true)] |> |>
    <| r_leader_id := INVALID_ID |>.
Proof. reflexivity. Qed.

Lemma def_with_votes r v : with_votes r v = r <| r_prs := (r_prs r) <| t_votes := v |> |>.
Proof. reflexivity. Qed.

Lemma def_others self ids : others self ids = filter (fun id => negb (id =? self)) ids.
Proof. reflexivity. Qed.

Lemma def_push r x : push r x = r <| r_msgs := r_msgs r ++ [x] |>.
Proof. reflexivity. Qed.

Lemma def_vote_resp r m rt reject t ci :
  vote_resp r m rt reject t ci =
  msg_default <| m_type := rt |> <| m_to := m_from m |> <| m_from := r_id r |>
              <| m_term := t |> <| m_reject := reject |>
              <| m_commit := fst ci |> <| m_commit_term := snd ci |>.
Proof. reflexivity. Qed.

Lemma def_resp_type m :
  resp_type m = if m_type m =? MsgRequestVote then MsgRequestVoteResponse
                else MsgRequestPreVoteResponse.
Proof. reflexivity. Qed.

Lemma def_grants r m :
  grants r m =
  (utd <- is_up_to_date (r_log r) (m_index m) (m_log_term m) ;;
   Ok (((r_vote r =? m_from m)
        || ((r_vote r =? INVALID_ID) && (r_leader_id r =? INVALID_ID))
        || ((m_type m =? MsgRequestPreVote) && (r_term r <? m_term m)))
       && utd
       && ((last_index (r_log r) <? m_index m) || (r_priority r <=? get_priority m)%Z))).
Proof. reflexivity. Qed.

Lemma def_only_msgs_log r r' :
  only_msgs_log r r' <-> r' = r <| r_msgs := r_msgs r' |> <| r_log := r_log r' |>.
Proof. reflexivity. Qed.

Lemma def_lease_request r m :
  lease_request r m <->
  (m_type m = MsgRequestVote \/ m_type m = MsgRequestPreVote) /\
  r_term r < m_term m /\ list_eqb (m_context m) CAMPAIGN_TRANSFER = false.
Proof. reflexivity. Qed.

Lemma def_apply_input r i :
  apply_input r i = match i with
                    | IStep m => x <- step r m ;; Ok (fst x)
                    | ITick => x <- tick r ;; Ok (fst x)
                    end.
Proof. reflexivity. Qed.

Lemma def_run r ins :
  run r ins = match ins with
              | [] => Ok r
              | i :: rest => r1 <- apply_input r i ;; run r1 rest
              end.
Proof. destruct ins; reflexivity. Qed.

Lemma def_quiet r i :
  quiet r i <->
  match i with
  | ITick => ~ self_wins r
  | IStep m =>
      (m_term m <= r_term r \/ exempt m = true \/ lease_drop r m = true) /\
      m_type m <> MsgTimeoutNow /\
      (m_type m = MsgHup -> ~ self_wins r) /\
      (m_type m = MsgRequestPreVoteResponse -> r_state r = PreCandidate ->
       prevote_tally r m <> VoteWon)
  end.
Proof. destruct i; reflexivity. Qed.

Lemma def_quiet_run r ins :
  quiet_run r ins <->
  match ins with
  | [] => True
  | i :: rest => quiet r i /\ forall r1, apply_input r i = Ok r1 -> quiet_run r1 rest
  end.
Proof. destruct ins; reflexivity. Qed.

Lemma def_leader_safe r i :
  leader_safe r i <->
  match i with
  | ITick => r_election_timeout r <= r_election_elapsed r + 1 -> r_check_quorum r = true ->
             check_quorum_active r = true
  | IStep m => (m_term m <= r_term r \/ exempt m = true \/ lease_drop r m = true) /\
               (m_type m = MsgCheckQuorum -> check_quorum_active r = true)
  end.
Proof. destruct i; reflexivity. Qed.

Lemma def_leader_safe_run r ins :
  leader_safe_run r ins <->
  match ins with
  | [] => True
  | i :: rest => leader_safe r i /\ forall r1, apply_input r i = Ok r1 -> leader_safe_run r1 rest
  end.
Proof. destruct ins; reflexivity. Qed.

Lemma def_vote_req self l prio vm t c ct tr lt id :
  vote_req self l prio vm t c ct tr lt id =
  let m := msg_default <| m_type := vm |> <| m_to := id |> <| m_from := self |> <| m_term := t |>
             <| m_index := last_index l |> <| m_log_term := lt |>
             <| m_commit := c |> <| m_commit_term := ct |>
             <| m_context := if tr then CAMPAIGN_TRANSFER else [] |> <| m_priority := prio |> in
  if (0 <? prio)%Z then m <| m_deprecated_priority := Z.to_N prio |> else m.
Proof. unfold vote_req. destruct tr; destruct (0 <? prio)%Z; reflexivity. Qed.

Lemma def_raises r m :
  raises r m <->
  (m_type m = MsgHup /\ r_state r <> Leader /\ r_promotable r = true /\
   (r_pre_vote r = false \/ self_wins r)) \/
  (m_type m = MsgTimeoutNow /\ r_state r = Follower /\ r_promotable r = true) \/
  (m_type m = MsgRequestPreVoteResponse /\ r_state r = PreCandidate /\
   prevote_tally r m = VoteWon).
Proof. reflexivity. Qed.

(* ------------------------------------------------------------------ *)
(* Part 6: the lease is maintained on a follower that hears from its leader on schedule *)

Lemma msgs_only_log r l r' : msgs_only (r <| r_log := l |>) r' -> only_msgs_log r r'.
Proof.
  unfold msgs_only, only_msgs_log. intros H.
  assert (Hl : r_log r' = l) by (rewrite H; reflexivity).
  rewrite Hl. rewrite H at 1. destruct r; reflexivity.
Qed.

Lemma msgs_only_only_msgs_log r r' : msgs_only r r' -> only_msgs_log r r'.
Proof.
  intros H. apply msgs_only_log with (l := r_log r).
  assert (E : r <| r_log := r_log r |> = r) by (destruct r; reflexivity). rewrite E. exact H.
Qed.

Lemma send_request_snapshot_msgs_only r r' : send_request_snapshot r = Ok r' -> msgs_only r r'.
Proof.
  unfold send_request_snapshot. intros H. ib H t Ht. destruct t; [|discriminate].
  eapply send_msgs_only; eassumption.
Qed.

Lemma handle_heartbeat_only r m r' : handle_heartbeat r m = Ok r' -> only_msgs_log r r'.
Proof.
  unfold handle_heartbeat. intros H. ib H l' Hl. apply msgs_only_log with (l := l').
  dtop H; [apply send_request_snapshot_msgs_only in H|apply send_msgs_only in H]; exact H.
Qed.

Lemma handle_append_entries_only r m r' : handle_append_entries r m = Ok r' -> only_msgs_log r r'.
Proof.
  unfold handle_append_entries. intros H.
  dtop H; [apply msgs_only_only_msgs_log, send_request_snapshot_msgs_only; exact H|].
  dtop H; [apply msgs_only_only_msgs_log; eapply send_msgs_only; exact H|].
  ib H y Hy. destruct y as [l' res]. apply msgs_only_log with (l := l').
  destruct res as [[a last_idx]|].
  - eapply send_msgs_only; exact H.
  - ib H z Hz. destruct z as [hi [ht|]]; [|discriminate]. eapply send_msgs_only; exact H.
Qed.

(* a heartbeat or append of the current term on a follower: timer cleared, sender
   recorded as leader, besides that only log and outbox change *)
Theorem follower_leader_msg r m r' c :
  r_state r = Follower -> (m_type m = MsgHeartbeat \/ m_type m = MsgAppend) ->
  m_term m = r_term r -> step r m = Ok (r', c) ->
  only_msgs_log (r <| r_election_elapsed := 0 |> <| r_leader_id := m_from m |>) r'.
Proof.
  intros Hs Ht Hterm H. rewrite step_eq in H. unfold step_pre in H.
  rewrite Hterm, N.ltb_irrefl in H.
  assert (Hb : step_body r m = Ok (r', c)) by (destruct (r_term r =? 0); exact H).
  clear H. unfold step_body in Hb. rewrite Hs in Hb. unfold step_follower in Hb.
  destruct Ht as [Ht|Ht]; rewrite Ht in Hb.
  - change (MsgHeartbeat =? MsgHup) with false in Hb.
    change ((MsgHeartbeat =? MsgRequestVote) || (MsgHeartbeat =? MsgRequestPreVote)) with false in Hb.
    change (MsgHeartbeat =? MsgPropose) with false in Hb.
    change (MsgHeartbeat =? MsgAppend) with false in Hb.
    change (MsgHeartbeat =? MsgHeartbeat) with true in Hb. cbv iota in Hb.
    ib Hb y Hy. okinv Hb. apply handle_heartbeat_only in Hy. exact Hy.
  - change (MsgAppend =? MsgHup) with false in Hb.
    change ((MsgAppend =? MsgRequestVote) || (MsgAppend =? MsgRequestPreVote)) with false in Hb.
    change (MsgAppend =? MsgPropose) with false in Hb.
    change (MsgAppend =? MsgAppend) with true in Hb. cbv iota in Hb.
    ib Hb y Hy. okinv Hb. apply handle_append_entries_only in Hy. exact Hy.
Qed.

(* a tick before the (randomized) timeout only counts *)
Lemma tick_waits r :
  r_state r <> Leader -> r_election_elapsed r + 1 < r_randomized_election_timeout r ->
  tick r = Ok (r <| r_election_elapsed := r_election_elapsed r + 1 |>, false).
Proof.
  intros Hs Hlt. unfold tick.
  assert (E : tick_election r = Ok (r <| r_election_elapsed := r_election_elapsed r + 1 |>, false)).
  { unfold tick_election, pass_election_timeout. cbn.
    assert (F : (r_randomized_election_timeout r <=? r_election_elapsed r + 1) = false)
      by (apply N.leb_gt; exact Hlt).
    rewrite F. reflexivity. }
  destruct (r_state r); try exact E. contradiction.
Qed.

(* the schedule, relative to the follower's term [t], leader [l] and election timeout
   [et]; [e] is the election timer.  Ticks must stay below the timeout, the leader's
   heartbeats/appends of term [t] clear the timer, and any higher-term non-transfer
   (pre-)vote request may arrive at any point *)
Fixpoint on_schedule (t l et e : N) (ins : list input) : Prop :=
  match ins with
  | [] => True
  | ITick :: rest => e + 1 < et /\ on_schedule t l et (e + 1) rest
  | IStep m :: rest =>
      ((m_type m = MsgHeartbeat \/ m_type m = MsgAppend) /\ m_term m = t /\ m_from m = l /\
       on_schedule t l et 0 rest) \/
      ((m_type m = MsgRequestVote \/ m_type m = MsgRequestPreVote) /\ t < m_term m /\
       list_eqb (m_context m) CAMPAIGN_TRANSFER = false /\ on_schedule t l et e rest)
  end.

Definition lease_inv (r0 r : raft) : Prop :=
  r_state r = Follower /\ r_term r = r_term r0 /\ r_vote r = r_vote r0 /\
  r_leader_id r = r_leader_id r0 /\ r_check_quorum r = true /\
  r_election_timeout r = r_election_timeout r0 /\
  r_randomized_election_timeout r = r_randomized_election_timeout r0 /\
  r_election_elapsed r < r_election_timeout r.

(* lease_maintained + non-disruption of a majority member: a follower with
   check_quorum that hears from its leader on schedule stays a follower of the same
   term, vote and leader, and inside the lease, whatever higher-term (pre-)vote
   requests are delivered to it in between *)
Theorem follower_lease_window : forall ins r0 r r',
  r_leader_id r0 <> INVALID_ID ->
  r_election_timeout r0 <= r_randomized_election_timeout r0 ->
  lease_inv r0 r ->
  on_schedule (r_term r0) (r_leader_id r0) (r_election_timeout r0) (r_election_elapsed r) ins ->
  run r ins = Ok r' -> lease_inv r0 r'.
Proof.
  induction ins as [|i rest IH]; intros r0 r r' Hl Hrt Hinv Hs H; cbn [run] in H.
  - okinv H. exact Hinv.
  - destruct Hinv as (I1 & I2 & I3 & I4 & I5 & I6 & I7 & I8).
    ib H r1 H1. destruct i as [m|]; cbn [on_schedule] in Hs; cbn [apply_input] in H1.
    + ib H1 y Hy. okinv H1. destruct y as [r1 c]. cbn [fst] in *.
      destruct Hs as [(Ht & Hterm & Hfrom & Hs)|(Ht & Hterm & Hctx & Hs)].
      * apply follower_leader_msg in Hy; [|exact I1|exact Ht|congruence].
        assert (Hinv1 : lease_inv r0 r1 /\ r_election_elapsed r1 = 0).
        { unfold only_msgs_log in Hy. rewrite Hy. cbn. unfold lease_inv. cbn.
          repeat split; try assumption; try congruence. lia. }
        destruct Hinv1 as [Hinv1 He]. refine (IH r0 r1 r' Hl Hrt Hinv1 _ H).
        rewrite He. exact Hs.
      * rewrite lease_ignores_vote_requests in Hy;
          [|exact Ht|lia|exact I5|congruence|exact I8|exact Hctx].
        okinv Hy. refine (IH r0 r1 r' Hl Hrt _ Hs H).
        unfold lease_inv. auto 10.
    + destruct Hs as [Hlt Hs].
      rewrite tick_waits in H1; [|congruence|lia]. cbn [bind fst] in H1. okinv H1.
      refine (IH r0 (r <| r_election_elapsed := r_election_elapsed r + 1 |>) r' Hl Hrt _ Hs H).
      unfold lease_inv. cbn. repeat split; try assumption. lia.
Qed.

Lemma def_on_schedule t l et e ins :
  on_schedule t l et e ins <->
  match ins with
  | [] => True
  | ITick :: rest => e + 1 < et /\ on_schedule t l et (e + 1) rest
  | IStep m :: rest =>
      ((m_type m = MsgHeartbeat \/ m_type m = MsgAppend) /\ m_term m = t /\ m_from m = l /\
       on_schedule t l et 0 rest) \/
      ((m_type m = MsgRequestVote \/ m_type m = MsgRequestPreVote) /\ t < m_term m /\
       list_eqb (m_context m) CAMPAIGN_TRANSFER = false /\ on_schedule t l et e rest)
  end.
Proof. destruct ins as [|[m|] rest]; reflexivity. Qed.

Lemma def_lease_inv r0 r :
  lease_inv r0 r <->
  r_state r = Follower /\ r_term r = r_term r0 /\ r_vote r = r_vote r0 /\
  r_leader_id r = r_leader_id r0 /\ r_check_quorum r = true /\
  r_election_timeout r = r_election_timeout r0 /\
  r_randomized_election_timeout r = r_randomized_election_timeout r0 /\
  r_election_elapsed r < r_election_timeout r.
Proof. reflexivity. Qed.

Definition xs_heartbeat : msg :=
  msg_default <| m_type := MsgHeartbeat |> <| m_from := 1 |> <| m_to := 3 |> <| m_term := 2 |>
              <| m_commit := 3 |>.

(* node 3: nine ticks, a pre-vote request of term 3, a heartbeat, a vote request of
   term 5, nine more ticks *)
Definition xs_schedule : list input :=
  repeat ITick 9 ++
  [IStep (xs_prevote_req 2 3 3 3 1 3 1); IStep xs_heartbeat;
   IStep (msg_default <| m_type := MsgRequestVote |> <| m_from := 2 |> <| m_to := 3 |> <| m_term := 5 |>)]
  ++ repeat ITick 9.

Lemma xs_on_schedule :
  lease_inv xs_follower xs_follower /\
  on_schedule (r_term xs_follower) (r_leader_id xs_follower) (r_election_timeout xs_follower)
              (r_election_elapsed xs_follower) xs_schedule /\
  exists r', run xs_follower xs_schedule = Ok r' /\ r_election_elapsed r' = 9 /\ r_term r' = 2.
Proof.
  split; [unfold lease_inv; vm_compute; repeat split; reflexivity|].
  split.
  - change (r_term xs_follower) with 2. change (r_leader_id xs_follower) with 1.
    change (r_election_timeout xs_follower) with 10. change (r_election_elapsed xs_follower) with 0.
    unfold xs_schedule. cbn [repeat app on_schedule].
    do 9 (split; [vm_compute; reflexivity|]).
    right. split; [right; reflexivity|]. split; [vm_compute; reflexivity|]. split; [reflexivity|].
    left. split; [left; reflexivity|]. split; [reflexivity|]. split; [reflexivity|].
    right. split; [left; reflexivity|]. split; [vm_compute; reflexivity|]. split; [reflexivity|].
    do 9 (split; [vm_compute; reflexivity|]). exact I.
  - vm_compute. eexists. repeat split; reflexivity.
Qed.
